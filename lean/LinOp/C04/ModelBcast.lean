/-
C04 — batch-broadcast right-hand sides of `solve` on FLAT row-major batch buffers (core Lean only, no Mathlib).

Mirrors what the solve paths do with an operator of batch shape `sA` and a rhs of batch shape `sB`:
  * `torch.cholesky_solve` / `torch.linalg.solve_triangular` / `rhs / diag` (generic Cholesky path, Triangular, Chol, Diag):
    torch broadcasting of both operands to `out = broadcast_shapes(sA, sB)`;
  * `KroneckerProductLinearOperator._solve`: `batch_shape = torch.broadcast_shapes(self.shape[:-2], rhs.shape[:-2])`,
    `y = rhs.clone().expand(*batch_shape, …)`, then the reshape / factor-solve / permute loop member by member (the factor
    solves broadcast the factor batch) → `kronSolveBroadcastFlat`;
  * `BatchRepeatLinearOperator._cholesky_solve`: `rhs.expand(*output_shape)` first.
Batch shapes / multi-indices / `expand` semantics are C01's (`broadcastShape`, `restrict`, `expandB`); here the tensors are flat
buffers (member number = row-major offset), so the index map is `p ↦ flatOf s (restrict s (unflat out p))`.
-/
import LinOp.C01.Model
import LinOp.C04.Model

namespace LinOp.C04
open LinOp.C01 (broadcastShape restrict)

/-- number of members of a batch shape -/
def prodL : List Nat → Nat
  | [] => 1
  | a :: s => a * prodL s

/-- row-major offset of a multi-index in a contiguous tensor of batch shape `s` -/
def flatOf : List Nat → List Nat → Nat
  | _ :: s, i :: idx => i * prodL s + flatOf s idx
  | _, _ => 0

/-- multi-index of the member at row-major offset `p` -/
def unflat : List Nat → Nat → List Nat
  | [], _ => []
  | _ :: s, p => (p / prodL s) :: unflat s (p % prodL s)

/-- which member of an operand with batch shape `s` the output member `p` (of batch shape `out`) reads -/
def bcastMember (s out : List Nat) (p : Nat) : Nat := flatOf s (restrict s (unflat out p))

section
variable {α : Type} [Add α] [Mul α] [Zero α]

/-- broadcasting solve on flat buffers, the per-member solve being `X ↦ Ainv · X` (direct paths). -/
def solveBroadcastFlat {n c : Nat} (sA sB out : List Nat) (Ainv : Nat → Mat α n n) (B : Nat → Mat α n c) : Nat → Mat α n c :=
  fun p => Mat.mul (Ainv (bcastMember sA out p)) (B (bcastMember sB out p))

/-- `KroneckerProductLinearOperator._solve` with a broadcasting rhs: expand the rhs to `out`, run the loop per member with the
(broadcast) factor solves. -/
def kronSolveBroadcastFlat {n1 n2 c : Nat} (sA sB out : List Nat) (Ainv : Nat → Mat α n1 n1) (Binv : Nat → Mat α n2 n2)
    (X : Nat → Mat α (n1 * n2) c) : Nat → Mat α (n1 * n2) c :=
  fun p => kronLoop2 (Ainv (bcastMember sA out p)) (Binv (bcastMember sA out p)) (X (bcastMember sB out p))

/-- left factor with its own batch shape `sL` (`Solve.forward`: `left @ solve`, torch matmul broadcasting against the solve
result of batch shape `out`). -/
def leftBroadcastFlat {n c o : Nat} (sL out out2 : List Nat) (L : Nat → Mat α o n) (S : Nat → Mat α n c) : Nat → Mat α o c :=
  fun p => Mat.mul (L (bcastMember sL out2 p)) (S (bcastMember out out2 p))
end

end LinOp.C04
