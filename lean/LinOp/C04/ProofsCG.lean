/-
C04 — the iterative branch: composition with the C08 theorems (imported, not re-proved).

`LinearOperator._solve` = `linear_cg(self._matmul, rhs, …, preconditioner=preconditioner)`; for an `AddedDiagLinearOperator` the
preconditioner closure applies `W = (L_k L_kᵀ + D)⁻¹` (`L_k` the rank-`k` pivoted Cholesky factor).  Here the CG system of C08
(`LinOp.C08.Sys`) is instantiated with the matrix closures `v ↦ A v`, `v ↦ W v`, and the C08 results (`exact_at_n`,
`chebyshev_rate_pre`) are restated about `A⁻¹ b̂`, the quantity `solve_any_branch` needs from the branch.
-/
import LinOp.C08.Proofs15
import Mathlib.LinearAlgebra.Matrix.NonsingularInverse
import Mathlib.LinearAlgebra.Matrix.ToLinearEquiv

set_option linter.unusedSectionVars false

namespace LinOp.C04
open Matrix LinOp.C08

/-- the column system `linear_cg` works on: `matmul_closure = A ·`, `preconditioner = W ·` -/
def matSys {n : Nat} (A W : Matrix (Fin n) (Fin n) ℝ) (b x0 : Vec ℝ n) : Sys ℝ n :=
  { amul := fun v => A.mulVec v, pre := fun v => W.mulVec v, rhs := b, x0 := x0, tri := false }

theorem dot_eq_dotProduct {n : Nat} (u v : Vec ℝ n) : dot u v = u ⬝ᵥ v := by
  rw [dot_eq]; rfl

theorem linSym_of_symm {n : Nat} (A : Matrix (Fin n) (Fin n) ℝ) (h : Aᵀ = A) : LinSym (fun v : Vec ℝ n => A.mulVec v) where
  add := fun u v => mulVec_add A u v
  smul := fun c u => mulVec_smul A c u
  sym := fun u v => by
    rw [dot_eq_dotProduct, dot_eq_dotProduct, dotProduct_mulVec, ← vecMul_transpose, h]

theorem isUnit_det_of_pd {n : Nat} (A : Matrix (Fin n) (Fin n) ℝ) (hpd : ∀ v : Vec ℝ n, v ≠ 0 → 0 < dot v (A.mulVec v)) :
    IsUnit A.det := by
  rw [isUnit_iff_ne_zero]
  intro h0
  obtain ⟨v, hv, hAv⟩ := (exists_mulVec_eq_zero_iff (M := A)).mpr h0
  have := hpd v hv
  rw [hAv, dot_eq_dotProduct, dotProduct_zero] at this
  exact lt_irrefl _ this

/-- The inverse of a symmetric positive definite matrix is symmetric positive definite — in particular the
pivoted-Cholesky preconditioner `W = (L Lᵀ + D)⁻¹`. -/
theorem inv_spd {n : Nat} (M : Matrix (Fin n) (Fin n) ℝ) (hs : Mᵀ = M)
    (hpd : ∀ v : Vec ℝ n, v ≠ 0 → 0 < dot v (M.mulVec v)) :
    (M⁻¹)ᵀ = M⁻¹ ∧ ∀ v : Vec ℝ n, v ≠ 0 → 0 < dot v ((M⁻¹).mulVec v) := by
  have hu := isUnit_det_of_pd M hpd
  refine ⟨by rw [transpose_nonsing_inv, hs], fun v hv => ?_⟩
  set w := (M⁻¹).mulVec v with hw
  have hMw : M.mulVec w = v := by rw [hw, mulVec_mulVec, mul_nonsing_inv _ hu, one_mulVec]
  have hw0 : w ≠ 0 := fun h => hv (by rw [← hMw, h, mulVec_zero])
  have := hpd w hw0
  rw [hMw] at this
  rw [dot_eq_dotProduct, dotProduct_comm, ← dot_eq_dotProduct]
  exact this

/-- `L Lᵀ + diag(d)` with `d > 0` is symmetric positive definite (the matrix the preconditioner inverts). -/
theorem lowrank_plus_diag_spd {n k : Nat} (L : Matrix (Fin n) (Fin k) ℝ) (d : Fin n → ℝ) (hd : ∀ i, 0 < d i) :
    (L * Lᵀ + diagonal d)ᵀ = L * Lᵀ + diagonal d ∧
    ∀ v : Vec ℝ n, v ≠ 0 → 0 < dot v ((L * Lᵀ + diagonal d).mulVec v) := by
  refine ⟨by rw [transpose_add, transpose_mul, transpose_transpose, diagonal_transpose], fun v hv => ?_⟩
  rw [dot_eq_dotProduct, add_mulVec, dotProduct_add, ← mulVec_mulVec, dotProduct_mulVec, ← mulVec_transpose]
  have h1 : 0 ≤ (Lᵀ.mulVec v) ⬝ᵥ (Lᵀ.mulVec v) := by
    rw [dotProduct]; exact Finset.sum_nonneg fun i _ => mul_self_nonneg _
  have h2 : 0 < v ⬝ᵥ (diagonal d).mulVec v := by
    obtain ⟨i, hi⟩ : ∃ i, v i ≠ 0 := by
      by_contra hcon; exact hv (funext fun i => by_contra fun hi => hcon ⟨i, hi⟩)
    rw [dotProduct]
    have hnn : ∀ j ∈ Finset.univ, 0 ≤ v j * (diagonal d).mulVec v j := fun j _ => by
      rw [mulVec_diagonal]; nlinarith [hd j, mul_self_nonneg (v j)]
    refine lt_of_lt_of_le ?_ (Finset.single_le_sum hnn (Finset.mem_univ i))
    rw [mulVec_diagonal]
    have := mul_pos (hd i) (mul_self_pos.mpr hi)
    nlinarith
  linarith

variable {n : Nat}

/-- **CG branch, exact form** (`C08.exact_at_n` composed): on the column system of a symmetric positive definite `A` with any
symmetric preconditioner `W` (preconditioned kernel) — if the first `n` iterations are regular steps, the iterate after them is
`A⁻¹ b̂` (`b̂` the normalised right-hand side; `linear_cg` multiplies the norm back, `C08.cg_columns`). -/
theorem cg_branch_exact {N : NumOps ℝ} (hN : Lawful N) (P : Params ℝ) (he : 0 < P.eps) (hp : P.precond = true)
    (A W : Matrix (Fin n) (Fin n) ℝ) (hAs : Aᵀ = A) (hApd : ∀ v : Vec ℝ n, v ≠ 0 → 0 < dot v (A.mulVec v))
    (hWs : Wᵀ = W) (b x0 : Vec ℝ n)
    (hreg : ∀ j < n, Regular P (matSys A W b x0) (traj N P (matSys A W b x0) j)) :
    (traj N P (matSys A W b x0) n).x = (A⁻¹).mulVec (prep N P (matSys A W b x0)).b := by
  set s := matSys A W b x0 with hs
  have hu := isUnit_det_of_pd A hApd
  have hA : LinSym s.amul := linSym_of_symm A hAs
  have hM : ∀ u v, dot u (preF P s v) = dot (preF P s u) v := by
    rw [preF_eq_pre P hp s]; exact (linSym_of_symm W hWs).sym
  have hxs : s.amul ((A⁻¹).mulVec (prep N P s).b) = (prep N P s).b := by
    show A.mulVec ((A⁻¹).mulVec (prep N P s).b) = _
    rw [mulVec_mulVec, mul_nonsing_inv _ hu, one_mulVec]
  have h0 := exact_at_n hN P he hA hM _ hxs hreg
  have hres := iterCol_residual N P hA.toLin _ (prep N P s).isZero _ (initCol_residual N P s) n
  have hAx : s.amul (traj N P s n).x = (prep N P s).b := by
    have : (prep N P s).b - s.amul (traj N P s n).x = 0 := by rw [← h0]; exact hres.symm
    exact (sub_eq_zero.mp this).symm
  have : (A⁻¹).mulVec (A.mulVec (traj N P s n).x) = (A⁻¹).mulVec (prep N P s).b := congrArg _ hAx
  rwa [mulVec_mulVec, nonsing_inv_mul _ hu, one_mulVec] at this

/-- **CG branch, rate form** (`C08.chebyshev_rate_pre` composed): preconditioned CG on `A` (symmetric positive definite) with
the symmetric positive definite preconditioner `W` (for AddedDiag: `W = (L_k L_kᵀ + D)⁻¹`, `inv_spd` + `lowrank_plus_diag_spd`)
approaches `A⁻¹ b̂` in the `A`-norm at the Chebyshev rate of `κ = lmax/lmin`, the spectral bounds of `W^{1/2} A W^{1/2}`:
`‖A⁻¹b̂ − x_j‖_A ≤ 2 ((√κ−1)/(√κ+1))^j ‖A⁻¹b̂ − x_0‖_A` along `j` regular steps. -/
theorem cg_branch_rate {N : NumOps ℝ} (hN : Lawful N) (P : Params ℝ) (he : 0 < P.eps) (hp : P.precond = true)
    (A W : Matrix (Fin n) (Fin n) ℝ) (hAs : Aᵀ = A) (hApd : ∀ v : Vec ℝ n, v ≠ 0 → 0 < dot v (A.mulVec v))
    (hWs : Wᵀ = W) (hWpd : ∀ v : Vec ℝ n, v ≠ 0 → 0 < dot v (W.mulVec v)) (b x0 : Vec ℝ n)
    (lmin lmax : ℝ) (hpos : 0 < lmin) (hle : lmin ≤ lmax)
    (hlo : ∀ y : Vec ℝ n, lmin * dot y (W.mulVec y) ≤ dot (W.mulVec y) (A.mulVec (W.mulVec y)))
    (hhi : ∀ y : Vec ℝ n, dot (W.mulVec y) (A.mulVec (W.mulVec y)) ≤ lmax * dot y (W.mulVec y))
    (j : Nat) (hreg : ∀ i < j, Regular P (matSys A W b x0) (traj N P (matSys A W b x0) i)) :
    let s := matSys A W b x0
    let xs := (A⁻¹).mulVec (prep N P s).b
    Real.sqrt (errA s xs (traj N P s j).x) ≤ 2 * rho lmin lmax ^ j * Real.sqrt (errA s xs (traj N P s 0).x) := by
  intro s xs
  have hu := isUnit_det_of_pd A hApd
  have hA : LinSym s.amul := linSym_of_symm A hAs
  have hW : LinSym s.pre := linSym_of_symm W hWs
  have hpsd : ∀ v, 0 ≤ dot v (s.amul v) := fun v => by
    by_cases hv : v = 0
    · subst hv; show 0 ≤ dot 0 (A.mulVec 0); rw [mulVec_zero, dot_eq_dotProduct, dotProduct_zero]
    · exact le_of_lt (hApd v hv)
  have hxs : s.amul xs = (prep N P s).b := by
    show A.mulVec ((A⁻¹).mulVec (prep N P s).b) = _
    rw [mulVec_mulVec, mul_nonsing_inv _ hu, one_mulVec]
  exact (chebyshev_rate_pre hN P he hp hA hpsd hW hWpd lmin lmax hpos hle hlo hhi xs hxs j hreg).1

end LinOp.C04
