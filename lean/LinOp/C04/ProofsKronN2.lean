/-
C04 — with exact factor solves the N-factor Kronecker loop solves the Kronecker system (any number of factors).
-/
import LinOp.C04.ProofsKronN

set_option linter.unusedSectionVars false

namespace LinOp.C04
open Finset

variable {α : Type} [CommRing α]

/-- `B_i` is a right inverse of `A_i` on the index range of the factor, for every factor -/
def FactorInv : List (Nat × (Nat → Nat → α)) → List (Nat × (Nat → Nat → α)) → Prop
  | [], [] => True
  | (n, A) :: r, (_, B) :: r' =>
    (∀ i k, i < n → k < n → ∑ j ∈ range n, A i j * B j k = if i = k then 1 else 0) ∧ FactorInv r r'
  | _, _ => False

theorem divmod_eq_iff (p r P : Nat) : p = r ↔ p / P = r / P ∧ p % P = r % P := by
  constructor
  · rintro rfl; exact ⟨rfl, rfl⟩
  · rintro ⟨h1, h2⟩
    rw [← Nat.div_add_mod p P, ← Nat.div_add_mod r P, h1, h2]

/-- `⊗ (A_i B_i) = I` on flat indices when every `B_i` inverts `A_i` -/
theorem kronEntryN_delta : ∀ (A B : List (Nat × (Nat → Nat → α))), SameSizes A B → FactorInv A B →
    ∀ p r, p < prodSizes A → r < prodSizes A → kronEntryN (listMul A B) p r = if p = r then 1 else 0
  | [], [], _, _, p, r, hp, hr => by
    simp only [prodSizes] at hp hr
    have h1 : p = 0 := by omega
    have h2 : r = 0 := by omega
    simp [listMul, kronEntryN, h1, h2]
  | (n, MA) :: ra, (m, MB) :: rb, hs, hf, p, r, hp, hr => by
    obtain ⟨hnm, hsr⟩ := hs
    subst hnm
    obtain ⟨hinv, hfr⟩ := hf
    obtain ⟨h1, _⟩ := prodSizes_listMul ra rb hsr
    simp only [prodSizes, listMul, kronEntryN, h1] at hp hr ⊢
    set P' := prodSizes ra
    have hP'pos : 0 < P' := by
      rcases Nat.eq_zero_or_pos P' with h | h
      · rw [h, Nat.mul_zero] at hp; exact absurd hp (Nat.not_lt_zero _)
      · exact h
    have hi : p / P' < n := (Nat.div_lt_iff_lt_mul hP'pos).2 hp
    have hk : r / P' < n := (Nat.div_lt_iff_lt_mul hP'pos).2 hr
    rw [hinv _ _ hi hk, kronEntryN_delta ra rb hsr hfr _ _ (Nat.mod_lt _ hP'pos) (Nat.mod_lt _ hP'pos)]
    by_cases hpr : p = r
    · subst hpr; simp
    · have := (divmod_eq_iff p r P').not.mp hpr
      by_cases hd : p / P' = r / P'
      · have hm : ¬ p % P' = r % P' := fun hm => this ⟨hd, hm⟩
        rw [if_pos hd, if_neg hm, if_neg hpr, mul_zero]
      · rw [if_neg hd, if_neg hpr, zero_mul]
  | [], _ :: _, h, _, _, _, _, _ => absurd h (by simp [SameSizes])
  | _ :: _, [], h, _, _, _, _, _ => absurd h (by simp [SameSizes])

/-- **kronLoopN_solves**: the loop fed with the factor solves `B_i = A_i⁻¹` returns a solution of `(⊗ A_i) X = rhs`, entry by entry,
for any number of factors. -/
theorem kronLoopN_solves' (c : Nat) (A B : List (Nat × (Nat → Nat → α))) (hs : SameSizes A B) (hf : FactorInv A B)
    (y : Array α) (p k : Nat) (hp : p < prodSizes A) (hk : k < c) :
    ∑ q ∈ range (prodSizes A), kronEntryN A p q * (kronLoopN (prodSizes A) c B y).getD (q * c + k) 0
      = y.getD (p * c + k) 0 := by
  obtain ⟨_, h2⟩ := prodSizes_listMul A B hs
  have hloop : ∀ q ∈ range (prodSizes A), (kronLoopN (prodSizes A) c B y).getD (q * c + k) 0
      = ∑ r ∈ range (prodSizes A), kronEntryN B q r * y.getD (r * c + k) 0 := by
    intro q hq
    have := kronLoopN_spec c B y q k (by rw [h2]; exact Finset.mem_range.mp hq) hk
    rw [h2] at this
    exact this
  rw [Finset.sum_congr rfl fun q hq => by rw [hloop q hq]]
  simp only [Finset.mul_sum]
  rw [Finset.sum_comm]
  have hcol : ∀ r ∈ range (prodSizes A),
      ∑ q ∈ range (prodSizes A), kronEntryN A p q * (kronEntryN B q r * y.getD (r * c + k) 0)
        = (if p = r then 1 else 0) * y.getD (r * c + k) 0 := by
    intro r hr
    rw [← kronEntryN_delta A B hs hf p r hp (Finset.mem_range.mp hr), ← kronEntryN_mul A B hs p r hp, Finset.sum_mul]
    refine Finset.sum_congr rfl fun q _ => ?_
    ring
  rw [Finset.sum_congr rfl hcol]
  simp [Finset.sum_ite_eq, hp]

end LinOp.C04
