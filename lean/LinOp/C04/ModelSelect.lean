/-
C04 — the solve-method selection as ONE total decision function (core Lean only).

`methodOf entry class n settings cache` mirrors, for the three entry points that end in a linear solve,
  * `LinearOperator.solve` → `Solve.forward` → `functions/_solve.py::_solve`   (isinstance shortcut, Cholesky test, else `_solve`)
  * `LinearOperator.inv_quad` → `InvQuad.forward` → `functions/_inv_quad.py::_solve`   (no shortcut; `log_prob` flag)
  * `LinearOperator.inv_quad_logdet(rhs, logdet=False)` (base class): Cholesky branch with its two CACHED-factor cases
    (`root_decomposition` in `_memoize_cache` and triangular → reuse it; `cholesky` in `_memoize_cache` → `self.cholesky()` is a
    cache hit), else the `inv_quad` path
and, per operator class, which algorithm its own `solve` / `_solve` override runs.

Cache visibility (checked against the library on every run): `solve` and `inv_quad` rebuild the operator from its
representation (`ctx.representation_tree(*matrix_args)`), so a Cholesky factor cached on the caller's object is NOT seen by them —
the factorization is recomputed; classes that override `solve` and call their own cached members
(LowRankRootAddedDiag: `chol_cap_mat`) and the base `inv_quad_logdet` (which calls `self.cholesky()` / `self.root_decomposition()`
on the caller's object) do see the cache.
-/
import LinOp.C04.Model

namespace LinOp.C04

/-- operator classes as far as the choice of algorithm distinguishes them -/
inductive OpClass
  | generic            -- no solve-related override (Dense, Toeplitz, Sum, PsdSum, ConstantMul, Root, …): base-class `_solve` = CG
  | addedDiag          -- AddedDiagLinearOperator: pivoted-Cholesky preconditioner
  | diag | ident | tri | kronTri | chol      -- `isinstance(·, (CholLinearOperator, TriangularLinearOperator))`
  | kron               -- KroneckerProductLinearOperator
  | kpadloConst        -- Kronecker + ConstantDiag
  | kpadloKronConst    -- Kronecker + KroneckerProductDiag of ConstantDiags (same factor shapes)
  | kpadloKronDiag     -- Kronecker + KroneckerProductDiag of general Diags (same factor shapes)
  | kpadloOther        -- Kronecker + any other diagonal: falls back to the base class
  | sumKron            -- SumKroneckerLinearOperator
  | lrrad              -- LowRankRootAddedDiagLinearOperator (overrides `solve`)
  | blockDiag | blockInterleaved
  | batchRepeat
  deriving DecidableEq, Repr

inductive Entry | solve | invQuad | invQuadLogdet
  deriving DecidableEq, Repr

/-- what `_memoize_cache` of the caller's object holds -/
structure CacheState where
  chol : Bool          -- "cholesky"
  triRoot : Bool       -- "root_decomposition", and the cached root is a TriangularLinearOperator
  capChol : Bool       -- LowRankRootAddedDiag: "chol_cap_mat"
  deriving DecidableEq, Repr

inductive Algo
  | triSubst           -- TriangularLinearOperator.solve: one substitution, orientation from the stored flag
  | kronTriFactors     -- KroneckerProductTriangularLinearOperator.solve: factor-by-factor substitutions
  | cholSubst          -- CholLinearOperator.solve: two substitutions on the stored root
  | cholHalf           -- CholLinearOperator.inv_quad: ONE substitution `R = L⁻¹ B` (`R⁻ᵀ B` for an upper root), then `Σ R²`
  | diagDiv            -- Diag / ConstantDiag: rhs / diag
  | identCopy          -- Identity: rhs
  | cholFresh          -- `cholesky()` computed now, then `_cholesky_solve`
  | cholCached         -- `cholesky()` is a cache hit, then `_cholesky_solve`
  | cholFromRoot       -- cached triangular root used as the Cholesky factor
  | pcg (precond : Bool)   -- base-class `_solve`: `linear_cg`, with / without the pivoted-Cholesky preconditioner
  | kronFactors        -- KroneckerProductLinearOperator._solve: factor-by-factor `solve`, reshape/permute loop
  | eigConst | eigKronConst | eigSymm     -- the three eigen-structured branches of KroneckerProductAddedDiag._solve
  | sumKronCongr       -- SumKroneckerLinearOperator._solve
  | woodbury (cached : Bool)
  | blockBase          -- Block*: `base_linear_op._solve` on the re-batched right-hand side
  | unmodelled         -- class overrides this entry point with code that is not mirrored here
  deriving DecidableEq, Repr

def Algo.name : Algo → String
  | .triSubst => "triSubst" | .kronTriFactors => "kronTriFactors" | .cholSubst => "cholSubst" | .cholHalf => "cholHalf" | .diagDiv => "diagDiv"
  | .identCopy => "identCopy" | .cholFresh => "cholFresh" | .cholCached => "cholCached" | .cholFromRoot => "cholFromRoot"
  | .pcg true => "pcg+precond" | .pcg false => "pcg" | .kronFactors => "kronFactors" | .eigConst => "eigConst"
  | .eigKronConst => "eigKronConst" | .eigSymm => "eigSymm" | .sumKronCongr => "sumKronCongr"
  | .woodbury true => "woodbury+cached" | .woodbury false => "woodbury" | .blockBase => "blockBase" | .unmodelled => "unmodelled"

/-- `isinstance(linear_op, (CholLinearOperator, TriangularLinearOperator))` (Diag, Identity, KroneckerTriangular are subclasses) -/
def OpClass.isCholOrTri : OpClass → Bool
  | .diag | .ident | .tri | .kronTri | .chol => true
  | _ => false

/-- `AddedDiagLinearOperator._preconditioner`: `max_preconditioner_size == 0 or size < min_preconditioning_size` → none -/
def hasPrecond (n : Nat) (s : Settings) : Bool := !(s.precSize == 0 || decide (n < s.minPrec))

/-- the class's own `solve` (taken by the isinstance shortcut, or because the class overrides `solve`) -/
def ownSolve (cls : OpClass) (c : CacheState) : Algo :=
  match cls with
  | .tri => .triSubst | .kronTri => .kronTriFactors | .chol => .cholSubst | .diag => .diagDiv | .ident => .identCopy
  | .lrrad => .woodbury c.capChol
  | _ => .unmodelled

/-- the class's `_solve(rhs, preconditioner)` — the "else" branch of both selection functions -/
def innerSolve (cls : OpClass) (n : Nat) (s : Settings) (c : CacheState) : Algo :=
  match cls with
  | .generic | .batchRepeat | .kpadloOther => .pcg false
  | .addedDiag => .pcg (hasPrecond n s)
  | .kron => .kronFactors
  | .kpadloConst => .eigConst | .kpadloKronConst => .eigKronConst | .kpadloKronDiag => .eigSymm
  | .sumKron => .sumKronCongr
  | .lrrad => .woodbury c.capChol
  | .blockDiag | .blockInterleaved => .blockBase
  | .tri => .triSubst | .kronTri => .kronTriFactors | .chol => .cholSubst       -- their `_solve` is their `solve`
  | .diag => .diagDiv | .ident => .identCopy

/-- classes whose `inv_quad_logdet` is the base-class implementation (generated hook table) -/
def OpClass.baseInvQuadLogdet : OpClass → Bool
  | .generic | .addedDiag => true
  | _ => false

/-- **the decision function** -/
def methodOf (e : Entry) (cls : OpClass) (n : Nat) (s : Settings) (c : CacheState) : Algo :=
  match e with
  | .solve =>
    if cls = .lrrad then ownSolve cls c                      -- overrides `solve`: no selection at all
    else match selectSolve cls.isCholOrTri n s with
      | .structured => ownSolve cls c
      | .cholesky => .cholFresh                              -- rebuilt operator: the caller's cache is not visible
      | .iterative => innerSolve cls n s c
  | .invQuad =>
    if cls = .chol then .cholHalf                            -- the only class overriding `inv_quad` (generated hook table)
    else match selectInvQuad n s with                        -- `InvQuad.forward` rebuilds the operator: no cache at all is visible
      | .iterative => innerSolve cls n s ⟨false, false, false⟩
      | _ => .cholFresh
  | .invQuadLogdet =>
    if !cls.baseInvQuadLogdet then .unmodelled
    else if (!s.fastLogProb) || decide (n ≤ s.maxChol) then
      (if c.triRoot then .cholFromRoot else if c.chol then .cholCached else .cholFresh)
    else match selectInvQuad n s with                        -- `logdet=False` short-circuits to `inv_quad`
      | .iterative => innerSolve cls n s ⟨false, false, false⟩
      | _ => .cholFresh

/-- `solveMethod : OpClass → Size → Settings → CacheState → Method` of the `solve` entry point -/
abbrev solveMethod : OpClass → Nat → Settings → CacheState → Algo := methodOf .solve

/-- class of a trace-model operator tree (top level) -/
def Op.cls : Op → OpClass
  | .gen _ => .generic | .addedDiag _ => .addedDiag | .diag _ => .diag | .ident _ => .ident | .tri _ => .tri
  | .chol _ => .chol | .kron _ _ | .kron3 _ _ _ => .kron | .block _ _ => .blockDiag | .brep _ => .batchRepeat
  | .lrrad _ _ _ => .lrrad | .kpadloConst _ _ => .kpadloConst

def Op.cache : Op → CacheState
  | .lrrad _ _ cached => ⟨false, false, cached⟩
  | _ => ⟨false, false, false⟩

end LinOp.C04
