/-
C04 — every algorithm the decision function `methodOf` can select returns `A⁻¹ B` under its numerical contracts.
-/
import LinOp.C04.ModelSelect
import LinOp.C04.ProofsEig

set_option linter.unusedSectionVars false

namespace LinOp.C04
open Matrix

variable {α : Type} [Field α]

/-- `Runs a N c A B X`: algorithm `a`, run on the operator with dense matrix `A` and right-hand side `B`, returns `X` —
the MODELLED computation (`triSolve`, `cholSolve`, `diagSolve`, `kronLoop2`, `kpadlo*Solve2`, `sumKronSolve2`, `woodbury`) on the
outputs of the numerical primitives, which are constrained only by their contracts (`eigh`: `IsEig`; `cholesky`: `L Lᵀ = A`;
`sqrt`: `sq x · sq x = x` at the points used; `root_inv_decomposition`: `R Rᵀ = C⁻¹`; CG / the base solve of a block operator:
"returns a solution of the system"). -/
inductive Runs : Algo → (N c : Nat) → Matrix (Fin N) (Fin N) α → Matrix (Fin N) (Fin c) α → Matrix (Fin N) (Fin c) α → Prop
  | triSubst {n c : Nat} (upper : Bool) (T : Mat α n n) (B : Mat α n c)
      (hT : if upper then IsUpper T else IsLower T) (hd : ∀ i, T i i ≠ 0) :
      Runs .triSubst n c (Matrix.of T) (Matrix.of B) (Matrix.of (triSolve upper T B))
  | kronTriFactors {n1 n2 c : Nat} (T1 : Mat α n1 n1) (T2 : Mat α n2 n2) (rhs : Mat α (n1 * n2) c) :
      Runs .kronTriFactors (n1 * n2) c (KD (Matrix.of T1) (Matrix.of T2)) (Matrix.of rhs)
        (Matrix.of (kronLoop2 ((Matrix.of T1)⁻¹ : Matrix _ _ α) ((Matrix.of T2)⁻¹ : Matrix _ _ α) rhs))
  | cholSubst {n c : Nat} (upper : Bool) (T : Mat α n n) (B : Mat α n c)
      (hT : if upper then IsUpper T else IsLower T) (hd : ∀ i, T i i ≠ 0) :
      Runs .cholSubst n c (if upper then (Matrix.of T)ᵀ * Matrix.of T else Matrix.of T * (Matrix.of T)ᵀ) (Matrix.of B)
        (Matrix.of (cholSolve upper T B))
  | diagDiv {n c : Nat} (d : Fin n → α) (hd : ∀ i, d i ≠ 0) (B : Mat α n c) :
      Runs .diagDiv n c (diagonal d) (Matrix.of B) (Matrix.of (diagSolve d B))
  | identCopy {n c : Nat} (B : Matrix (Fin n) (Fin c) α) : Runs .identCopy n c 1 B B
  | cholFresh {n c : Nat} (A L : Matrix (Fin n) (Fin n) α) (B : Matrix (Fin n) (Fin c) α) (h : L * Lᵀ = A) :
      Runs .cholFresh n c A B ((Lᵀ)⁻¹ * (L⁻¹ * B))
  | cholCached {n c : Nat} (A L : Matrix (Fin n) (Fin n) α) (B : Matrix (Fin n) (Fin c) α) (h : L * Lᵀ = A) :
      Runs .cholCached n c A B ((Lᵀ)⁻¹ * (L⁻¹ * B))
  | cholFromRoot {n c : Nat} (A L : Matrix (Fin n) (Fin n) α) (B : Matrix (Fin n) (Fin c) α) (h : L * Lᵀ = A) :
      Runs .cholFromRoot n c A B ((Lᵀ)⁻¹ * (L⁻¹ * B))
  | pcg {n c : Nat} (p : Bool) (A : Matrix (Fin n) (Fin n) α) (B X : Matrix (Fin n) (Fin c) α) (h : A * X = B) :
      Runs (.pcg p) n c A B X
  | blockBase {n c : Nat} (A : Matrix (Fin n) (Fin n) α) (B X : Matrix (Fin n) (Fin c) α) (h : A * X = B) :
      Runs .blockBase n c A B X
  | kronFactors {n1 n2 c : Nat} (A1 : Mat α n1 n1) (A2 : Mat α n2 n2) (rhs : Mat α (n1 * n2) c) :
      Runs .kronFactors (n1 * n2) c (KD (Matrix.of A1) (Matrix.of A2)) (Matrix.of rhs)
        (Matrix.of (kronLoop2 ((Matrix.of A1)⁻¹ : Matrix _ _ α) ((Matrix.of A2)⁻¹ : Matrix _ _ α) rhs))
  | eigConst {n1 n2 c : Nat} (sq : α → α) (K1 : Matrix (Fin n1) (Fin n1) α) (Q1 : Mat α n1 n1) (e1 : Fin n1 → α)
      (K2 : Matrix (Fin n2) (Fin n2) α) (Q2 : Mat α n2 n2) (e2 : Fin n2 → α)
      (h1 : IsEig K1 (Matrix.of Q1) e1) (h2 : IsEig K2 (Matrix.of Q2) e2) (cst : α)
      (hsq : ∀ p, sq (kronVec e1 e2 p + cst) * sq (kronVec e1 e2 p + cst) = kronVec e1 e2 p + cst)
      (hpos : ∀ p, kronVec e1 e2 p + cst ≠ 0) (rhs : Mat α (n1 * n2) c) :
      Runs .eigConst (n1 * n2) c (KD K1 K2 + cst • (1 : Matrix _ _ α)) (Matrix.of rhs)
        (Matrix.of (kpadloConstSolve2 sq Q1 Q2 e1 e2 cst rhs))
  | eigKronConst {n1 n2 c : Nat} (K1 : Matrix (Fin n1) (Fin n1) α) (Q1 : Mat α n1 n1) (e1 : Fin n1 → α)
      (K2 : Matrix (Fin n2) (Fin n2) α) (Q2 : Mat α n2 n2) (e2 : Fin n2 → α)
      (h1 : IsEig K1 (Matrix.of Q1) e1) (h2 : IsEig K2 (Matrix.of Q2) e2) (d1 d2 : α)
      (hd1 : d1 ≠ 0) (hd2 : d2 ≠ 0) (hne : ∀ p, kronVec e1 e2 p / (d1 * d2) + 1 ≠ 0) (rhs : Mat α (n1 * n2) c) :
      Runs .eigKronConst (n1 * n2) c (KD K1 K2 + KD (diagonal fun _ => d1) (diagonal fun _ => d2)) (Matrix.of rhs)
        (Matrix.of (kpadloKronConstSolve2 Q1 Q2 e1 e2 d1 d2 rhs))
  | eigSymm {n1 n2 c : Nat} (sq : α → α) (K1 : Matrix (Fin n1) (Fin n1) α) (Q1 : Mat α n1 n1) (e1 d1 : Fin n1 → α)
      (K2 : Matrix (Fin n2) (Fin n2) α) (Q2 : Mat α n2 n2) (e2 d2 : Fin n2 → α)
      (hsq1 : ∀ i, sq (d1 i) * sq (d1 i) = d1 i) (hsq2 : ∀ j, sq (d2 j) * sq (d2 j) = d2 j)
      (hd1 : ∀ i, d1 i ≠ 0) (hd2 : ∀ j, d2 j ≠ 0)
      (h1 : IsEig (diagonal (fun i => 1 / sq (d1 i)) * K1 * diagonal (fun i => 1 / sq (d1 i))) (Matrix.of Q1) e1)
      (h2 : IsEig (diagonal (fun j => 1 / sq (d2 j)) * K2 * diagonal (fun j => 1 / sq (d2 j))) (Matrix.of Q2) e2)
      (hne : ∀ p, kronVec e1 e2 p + 1 ≠ 0) (rhs : Mat α (n1 * n2) c) :
      Runs .eigSymm (n1 * n2) c (KD K1 K2 + KD (diagonal d1) (diagonal d2)) (Matrix.of rhs)
        (Matrix.of (kpadloSymmSolve2 sq Q1 Q2 e1 e2 d1 d2 rhs))
  | sumKronCongr {n1 n2 c : Nat} (A1 C1 : Matrix (Fin n1) (Fin n1) α) (R1 : Mat α n1 n1)
      (A2 C2 : Matrix (Fin n2) (Fin n2) α) (R2 : Mat α n2 n2)
      (hC1 : IsUnit C1.det) (hC2 : IsUnit C2.det)
      (hR1 : Matrix.of R1 * (Matrix.of R1)ᵀ = C1⁻¹) (hR2 : Matrix.of R2 * (Matrix.of R2)ᵀ = C2⁻¹)
      (innerSolve : Mat α (n1 * n2) c → Mat α (n1 * n2) c)
      (hinner : ∀ X, (Matrix.of (innerSolve X) : Matrix _ _ α)
        = (KD ((Matrix.of R1)ᵀ * A1 * Matrix.of R1) ((Matrix.of R2)ᵀ * A2 * Matrix.of R2) + 1)⁻¹ * Matrix.of X)
      (rhs : Mat α (n1 * n2) c) :
      Runs .sumKronCongr (n1 * n2) c (KD A1 A2 + KD C1 C2) (Matrix.of rhs) (Matrix.of (sumKronSolve2 R1 R2 innerSolve rhs))
  | woodbury {n k c : Nat} (cached : Bool) (d : Fin n → α) (hd : ∀ i, d i ≠ 0) (U : Mat α n k) (B : Mat α n c)
      (hC : IsUnit ((1 : Matrix (Fin k) (Fin k) α) + (Matrix.of U)ᵀ * (diagonal d)⁻¹ * Matrix.of U).det) :
      Runs (.woodbury cached) n c (diagonal d + Matrix.of U * (Matrix.of U)ᵀ) (Matrix.of B)
        (Matrix.of (woodbury d U
          (((1 : Matrix (Fin k) (Fin k) α) + (Matrix.of U)ᵀ * (diagonal d)⁻¹ * Matrix.of U)⁻¹ : Matrix (Fin k) (Fin k) α) B))

/-- Whatever algorithm ran, the value is `A⁻¹ B`. -/
theorem Runs.correct {a : Algo} {N c : Nat} {A : Matrix (Fin N) (Fin N) α} {B X : Matrix (Fin N) (Fin c) α}
    (h : Runs a N c A B X) (hA : IsUnit A.det) : X = A⁻¹ * B := by
  cases h with
  | triSubst upper T B hT hd =>
    cases upper
    · exact triSolve_lower T B (by simpa using hT) hd
    · exact triSolve_upper T B (by simpa using hT) hd
  | kronTriFactors T1 T2 rhs => exact kronLoop2_solves T1 T2 rhs
  | cholSubst upper T B hT hd =>
    cases upper
    · simpa using cholSolve_model_lower T B (by simpa using hT) hd
    · simpa using cholSolve_model_upper T B (by simpa using hT) hd
  | diagDiv d hd B => exact diagSolve_model d hd B
  | identCopy B => simp
  | cholFresh A L B h => exact cholSolve_lower B h
  | cholCached A L B h => exact cholSolve_lower B h
  | cholFromRoot A L B h => exact cholSolve_lower B h
  | pcg p A B X h => exact solve_unique hA h
  | blockBase A B X h => exact solve_unique hA h
  | kronFactors A1 A2 rhs => exact kronLoop2_solves A1 A2 rhs
  | eigConst sq K1 Q1 e1 K2 Q2 e2 h1 h2 cst hsq hpos rhs => exact kpadloConstSolve2_refines sq h1 h2 cst hsq hpos rhs
  | eigKronConst K1 Q1 e1 K2 Q2 e2 h1 h2 d1 d2 hd1 hd2 hne rhs =>
    exact kpadloKronConstSolve2_refines h1 h2 d1 d2 hd1 hd2 hne rhs
  | eigSymm sq K1 Q1 e1 d1 K2 Q2 e2 d2 hsq1 hsq2 hd1 hd2 h1 h2 hne rhs =>
    exact kpadloSymmSolve2_refines sq K1 Q1 e1 d1 K2 Q2 e2 d2 hsq1 hsq2 hd1 hd2 h1 h2 hne rhs
  | sumKronCongr A1 C1 R1 A2 C2 R2 hC1 hC2 hR1 hR2 innerSolve hinner rhs =>
    exact sumKronSolve2_refines A1 C1 R1 A2 C2 R2 hC1 hC2 hR1 hR2 innerSolve hinner rhs
  | woodbury cached d hd U B hC => exact woodbury_model d hd U B hC

/-! ## left factor: concatenate, solve once, slice, multiply -/

/-- `torch.cat([Lᵀ, R], -1)` -/
def catLR {n o p : Nat} (L : Matrix (Fin o) (Fin n) α) (R : Matrix (Fin n) (Fin p) α) : Matrix (Fin n) (Fin (o + p)) α :=
  fun i j => if h : j.1 < o then L ⟨j.1, h⟩ i else R i ⟨j.1 - o, by omega⟩

/-- `solves[..., o:]` -/
def sliceR {n o p : Nat} (X : Matrix (Fin n) (Fin (o + p)) α) : Matrix (Fin n) (Fin p) α :=
  fun i j => X i ⟨o + j.1, by omega⟩

theorem slice_solve {n o p : Nat} (M : Matrix (Fin n) (Fin n) α) (L : Matrix (Fin o) (Fin n) α)
    (R : Matrix (Fin n) (Fin p) α) : sliceR (M * catLR L R) = M * R := by
  ext i j
  simp only [sliceR, catLR, Matrix.mul_apply]
  refine Finset.sum_congr rfl fun l _ => ?_
  have h1 : ¬ (o + j.1 < o) := by omega
  rw [dif_neg h1]
  congr 2
  exact Fin.ext (by simp)

/-! ## the decision function is defined (≠ `unmodelled`) on every class for `solve` and `inv_quad` -/

theorem innerSolve_modelled (cls : OpClass) (n : Nat) (s : Settings) (c : CacheState) : innerSolve cls n s c ≠ .unmodelled := by
  cases cls <;> simp [innerSolve]

theorem selectSolve_false_ne_structured (n : Nat) (s : Settings) : selectSolve false n s ≠ .structured := by
  unfold selectSolve
  by_cases hf : s.fastSolves <;> by_cases hm : n ≤ s.maxChol <;> simp [hf, hm]

theorem methodOf_solve_modelled (cls : OpClass) (n : Nat) (s : Settings) (c : CacheState) :
    methodOf .solve cls n s c ≠ .unmodelled := by
  unfold methodOf
  by_cases hl : cls = .lrrad
  · subst hl; simp [ownSolve]
  · simp only [hl, if_false]
    cases hsel : selectSolve cls.isCholOrTri n s with
    | structured =>
      have : cls.isCholOrTri = true := by
        by_cases h : cls.isCholOrTri = true
        · exact h
        · have hf : cls.isCholOrTri = false := by simpa using h
          rw [hf] at hsel
          exact absurd hsel (selectSolve_false_ne_structured n s)
      cases cls <;> simp_all [ownSolve, OpClass.isCholOrTri]
    | cholesky => simp
    | iterative => exact innerSolve_modelled cls n s c

theorem methodOf_invQuad_modelled (cls : OpClass) (n : Nat) (s : Settings) (c : CacheState) :
    methodOf .invQuad cls n s c ≠ .unmodelled := by
  unfold methodOf
  by_cases hl : cls = .chol
  · simp [hl]
  · simp only [hl, if_false]
    cases hsel : selectInvQuad n s with
    | iterative => exact innerSolve_modelled cls n s _
    | cholesky => simp
    | structured => simp

/-! ## consistency of the decision function with the trace model (which is compared with the library's log every run) -/

/-- CG anywhere in the logged trace of the top-level `_solve` ⇔ the decision function says `pcg` (generic / AddedDiag /
BatchRepeat classes), with the preconditioner event exactly when `pcg true`. -/
theorem methodOf_trace_consistent (s : Settings) (n : Nat) :
    (methodOf .solve .generic n s ⟨false, false, false⟩ = .pcg false ↔ trace s (.gen n) = [.cg n]) ∧
    (methodOf .solve .addedDiag n s ⟨false, false, false⟩ = .pcg true ↔ trace s (.addedDiag n) = [.pivchol n, .cg n]) ∧
    (methodOf .solve .addedDiag n s ⟨false, false, false⟩ = .pcg false ↔ trace s (.addedDiag n) = [.cg n]) ∧
    (methodOf .solve .generic n s ⟨false, false, false⟩ = .cholFresh ↔ trace s (.gen n) = cholEv n) := by
  have hce : ∀ e, cholEv n = [e] → e.isCg = false := fun e h => cholEv_no_cg n e (by rw [h]; simp)
  have hne1 : cholEv n ≠ [.cg n] := fun h => by have := hce _ h; simp [Ev.isCg] at this
  have hne2 : cholEv n ≠ [.pivchol n, .cg n] := by unfold cholEv; split <;> simp
  have hne3 : ([Ev.cg n] : List Ev) ≠ cholEv n := fun h => hne1 h.symm
  unfold methodOf
  simp only [OpClass.isCholOrTri, trace, hasPrecond]
  cases hsel : selectSolve false n s with
  | structured => exact absurd hsel (selectSolve_false_ne_structured n s)
  | cholesky => simp [hne1, hne2]
  | iterative =>
    simp only [innerSolve, hasPrecond]
    by_cases hp : s.precSize = 0 ∨ n < s.minPrec
    · have : (s.precSize == 0 || decide (n < s.minPrec)) = true := by
        rcases hp with h | h <;> simp [h]
      simp [hp, this, hne3]
    · have : (s.precSize == 0 || decide (n < s.minPrec)) = false := by
        simp only [not_or] at hp; simp [hp.1]; omega
      simp [hp, this, hne3]

end LinOp.C04
