import LinOp.Core.Parse
import LinOp.C16.Model
import LinOp.C16.Skeleton
import LinOp.C16.SkSem
import LinOp.Generated.C16Consts
/-!
Line-protocol driver for the C16 model.

Executable stand-in for `torch.linalg.cholesky_ex` on one member: exact-rational LDLᵀ
(Cholesky–Banachiewicz without the square roots: `A = L D Lᵀ`, `L` unit lower triangular), reading
only the lower triangle as LAPACK does, reporting `info = k+1` for the first pivot `d_k` that is
not positive (or is NaN).  `info = 0 ↔ A` positive definite; the Cholesky factor is `L·sqrt(D)`.
Entries are `Option Rat`, `none` = NaN (propagates through arithmetic).

input :  `<jitter|n> <max_tries|n> <f32|f64> <settings jitter|n> <settings max_tries|n> <trace 0|1> <upper 0|1> <out 0|1> <members>`
         members: `r1c1,r1c2;r2c1,r2c2|…` (`|` between members), entries `p/q` or `nan`;
         `n` for the two settings fields = no context active, i.e. the generated defaults by dtype
output:  `err=… calls=… warns=… added=… hist=… changed=… upper=… out=… ldl=… sem=<ok|diff|stuck|na> semobs=<err:calls:warnings:changed:added>`
         (`sem…`: the state-semantics interpreter `runSkeleton` applied to the EXTRACTED skeleton `Generated.C16.coreSkeleton`)
-/
open LinOp LinOp.C16 LinOp.Parse

abbrev X := Option Rat
abbrev Mem := Array (Array X)

def xadd (a b : X) : X := do let x ← a; let y ← b; pure (x + y)
def xsub (a b : X) : X := do let x ← a; let y ← b; pure (x - y)
def xmul (a b : X) : X := do let x ← a; let y ← b; pure (x * y)
def xdiv (a b : X) : X := do let x ← a; let y ← b; if y = 0 then none else pure (x / y)

def getE (m : Mem) (i j : Nat) : X := (m[i]!)[j]!
def setE (m : Mem) (i j : Nat) (v : X) : Mem := m.modify i fun r => r.set! j v

/-- LDLᵀ row by row; result packs `L` (strictly lower) and `D` (diagonal); `info` as LAPACK `potrf`. -/
def ldlEx (a : Mem) : Mem × Nat := Id.run do
  let n := a.size
  let mut l : Mem := Array.replicate n (Array.replicate n (some 0))
  for i in [0:n] do
    for j in [0:i+1] do
      let mut s := getE a i j
      for k in [0:j] do
        s := xsub s (xmul (xmul (getE l i k) (getE l j k)) (getE l k k))
      if j < i then
        l := setE l i j (xdiv s (getE l j j))
      else
        match s with
        | none => return (setE l i i none, i + 1)
        | some v =>
          if v ≤ 0 then return (setE l i i (some v), i + 1)
          l := setE l i i (some v)
  return (l, 0)

def memAddDiag (a : Mem) (c : Rat) : Mem :=
  (List.range a.size).foldl (fun m i => setE m i i (xadd (getE m i i) (some c))) a

def memHasNan (a : Mem) : Bool := a.any fun r => r.any Option.isNone

/-- factor = (packed LDLᵀ, transposed?) -/
abbrev Fac := Mem × Bool

def ops : Ops Mem Fac Rat :=
  { cholEx := fun a => let r := ldlEx a; ((r.1, false), r.2)
    hasNan := memHasNan
    addDiag := memAddDiag
    transposeF := fun f => (f.1, !f.2) }

def consts : Consts :=
  { base := LinOp.Generated.C16.base, clones := LinOp.Generated.C16.clones, jitterNewBound := LinOp.Generated.C16.jitterNewBound }

def parseX? (s : String) : Option X :=
  if s = "nan" then some none else (parseRat? s).map some

def parseMem? (s : String) : Option Mem := do
  let rows ← (s.splitOn ";").mapM fun r => (r.splitOn ",").mapM parseX?
  pure (rows.map List.toArray).toArray

def optRat? (s : String) : Option (Option Rat) := if s = "n" then some none else (parseRat? s).map some
def optNat? (s : String) : Option (Option Nat) := if s = "n" then some none else s.toNat?.map some

def showX (x : X) : String := match x with | none => "nan" | some r => showRat r
def showMem (m : Mem) : String := ";".intercalate (m.toList.map fun r => ",".intercalate (r.toList.map showX))

/-- jitter added to a member: common value of `diag(work − input)`; `?` if not a pure diagonal shift. -/
def addedOf (a w : Mem) : String :=
  let n := a.size
  let d := (List.range n).map fun i => xsub (getE w i i) (getE a i i)
  let offOk := (List.range n).all fun i => (List.range n).all fun j =>
    i = j || (match getE a i j, getE w i j with | some x, some y => x == y | none, none => true | _, _ => false)
  match d with
  | [] => "0"
  | d0 :: rest => if offOk && rest.all (fun x => match x, d0 with | some u, some v => u == v | none, none => true | _, _ => false)
      then showX d0 else "?"

/-- stand-in for `clamp_min(0).sqrt()` on a 1×1 member, in the packed LDLᵀ format (`L·sqrt(D)` = the factor) -/
def sqrtClamp1 (a : Mem) : Fac :=
  (#[#[match getE a 0 0 with | none => none | some v => some (if v < 0 then 0 else v)]], false)

/-- `sk <first|nan|ok|fail> <tries>`: the statement roles the pinned skeleton executes for that outcome (`roleTrace`);
`skeleton core|wrapper`: the pinned skeleton itself (`depth:role`). -/
def runSk (ws : List String) : Option String :=
  let sk := expectedCore LinOp.Generated.C16.jitterNewBound
  match ws with
  | ["sk", o, t] => (t.toNat?).map fun t => "trace=" ++ "~".intercalate (roleTrace sk o t)
  | ["skeleton", which] =>
    let l := if which = "core" then sk else expectedWrapper
    some ("skeleton=" ++ "~".intercalate (l.map fun e => s!"{e.1}:{e.2}"))
  | _ => none

def runCase (line : String) : String :=
  let ws := words line
  let isOp := ws.head? == some "op"
  match (if isOp then ws.drop 1 else ws) with
  | [j, mt, dt, sj, sm, tr, up, ou, ms] =>
    match optRat? j, optNat? mt, optRat? sj, optNat? sm, (ms.splitOn "|").mapM parseMem? with
    | some j, some mt, some sj, some sm, some mems =>
      let dflt := if dt = "f32" then LinOp.Generated.C16.jitterFloat else LinOp.Generated.C16.jitterDouble
      let env : Env Rat := { settingsJitter := sj.getD dflt, settingsMaxTries := sm.getD LinOp.Generated.C16.maxTries,
                             traceMode := tr = "1" }
      let args : Args Rat := { upper := up = "1", out := ou = "1", jitter := j, maxTries := mt }
      let size := match mems with | [] => 0 | m :: _ => m.size
      let o : Outcome Mem Fac Rat :=
        if isOp then opCholesky ops sqrtClamp1 size consts env args.upper mems else psdSafeCholesky ops consts env args mems
      let key := fun (f : Fac) => (showMem f.1, f.2)
      -- state semantics of the EXTRACTED skeleton (`runSkeleton`, SkSem.lean) on this case, next to the model's core
      let errS := fun (r : Except Err (List Fac)) => match r with
        | .ok _ => "ok" | .error .nanError => "nan" | .error .notPSDError => "notpsd" | .error .unboundLocalError => "unbound"
      let summ := fun (o : Outcome Mem Fac Rat) =>
        (errS o.result, o.calls, o.warns.map showRat, o.work.map showMem, o.input.map showMem,
         (match o.result with | .ok fs => fs.map key | .error _ => []), o.outBuf.map (·.map key))
      let cargs : Args Rat := if isOp then {} else args
      let (sem, semobs) :=
        if isOp && size == 1 then ("na", "-")
        else match runSkeleton ops consts.base env cargs mems LinOp.Generated.C16.coreSkeleton with
          | none => ("stuck", "-")
          | some oc =>
            let chg := (List.zipWith (fun a b => showMem a != showMem b) mems oc.input).any id
            -- function route: the extracted WRAPPER skeleton is interpreted on top (`runWrapperSk`) and compared with `psdSafeCholesky`
            let same := if isOp then summ oc == summ (psdSafeCholeskyCore ops consts env cargs mems)
              else match runWrapperSk ops args LinOp.Generated.C16.wrapperSkeleton oc with
                | none => false
                | some ow => summ ow == summ o
            (if same then "ok" else "diff",
             s!"{errS oc.result}:{oc.calls}:{oc.warns.length}:{if chg then 1 else 0}:{",".intercalate (List.zipWith addedOf mems oc.work)}")
      let err := match o.result with
        | .ok _ => "ok" | .error .nanError => "nan" | .error .notPSDError => "notpsd" | .error .unboundLocalError => "unbound"
      let jit := j.getD env.settingsJitter
      let hist := (List.range o.calls).map fun k =>
        showList toString (mems.map fun a => (memberAfter ops consts.base jit a k).2.2)
      let added := (List.zipWith addedOf mems o.work)
      let changed := (List.zipWith (fun a b => showMem a != showMem b) mems o.input).any id
      let (upOk, ldl) := match o.result with
        | .ok fs => (showList (fun (f : Fac) => if f.2 then "1" else "0") fs, "|".intercalate (fs.map fun (f : Fac) => showMem f.1))
        | .error _ => ("-", "-")
      let outS := match o.outBuf, o.result with
        | none, _ => "none"
        | some b, .ok fs => if b.map key == fs.map key then "result" else "other"
        | some _, .error _ => "garbage"
      s!"err={err} calls={o.calls} warns={showList showRat o.warns} added={" ".intercalate added |>.replace " " ","} hist={"/".intercalate hist} changed={if changed then 1 else 0} upper={upOk} out={outS} ldl={ldl} sem={sem} semobs={semobs}"
    | _, _, _, _, _ => "bad-args"
  | _ => "bad-line"

def runLine (line : String) : String :=
  match runSk (words line) with
  | some r => r
  | none => runCase line

def main : IO Unit := do
  let stdin ← IO.getStdin
  LinOp.Parse.loop stdin () fun _ line => ((), runLine line)
