/-
C16 — lemmas for the theorems that use only the WEAK `cholesky_ex` contract
("info = 0 ⇒ the returned factor factorises the argument and is finite"; no ⇔ with positive definiteness):
whole-function description of the final `Aprime` of every member whenever the function returns, and of every member
that is still failing when the function raises.
-/
import LinOp.C16.Proofs
import Mathlib.Data.List.Forall2

namespace LinOp.C16

variable {M F α : Type}

/-- What the final `Aprime` member `w` is, relative to the input member `a`, when the function returns:
`cholesky_ex` succeeds on `w`, and either `a` never failed and `w = a`, or `a` failed and `w = a + jitter·base^j·I` for
the LEAST exponent `j` (below the number of tries `T`) at which `cholesky_ex` reports success. -/
def MinimalPerturbation [Ring α] (ops : Ops M F α) (base : Nat) (jitter : α) (T : Nat) (a w : M) : Prop :=
  (ops.cholEx w).2 = 0 ∧
  (((ops.cholEx a).2 = 0 ∧ w = a) ∨
   (0 < (ops.cholEx a).2 ∧ ∃ j, j < T ∧
      (∀ i, i < j → 0 < (ops.cholEx (ops.addDiag a (jitter * (base : α) ^ i))).2) ∧
      w = ops.addDiag a (jitter * (base : α) ^ j)))

section
variable [Ring α] (ops : Ops M F α) (base : Nat) (jitter : α)

theorem jitterAt_eq (j : Nat) : jitterAt base jitter j = jitter * (base : α) ^ j := by
  simp [jitterAt, Nat.cast_pow]

/-- A member that still has `info > 0` after try `k` failed the first call and every earlier try, hence carries exactly
`jitter·base^k` (masking by the current info + telescoping). -/
theorem memberAfter_fail_form (hl : Lawful ops) (a : M) (k : Nat) (hz : 0 < (memberAfter ops base jitter a (k + 1)).2.2) :
    0 < (ops.cholEx a).2 ∧ (∀ i, i ≤ k → 0 < (ops.cholEx (ops.addDiag a (jitterAt base jitter i))).2) ∧
    memberAfter ops base jitter a (k + 1)
      = (ops.addDiag a (jitterAt base jitter k), ops.cholEx (ops.addDiag a (jitterAt base jitter k))) := by
  by_cases h0 : (ops.cholEx a).2 = 0
  · exfalso
    rw [memberAfter_pd ops base jitter hl a h0] at hz
    simp only [initMember] at hz
    omega
  · have h0' : 0 < (ops.cholEx a).2 := Nat.pos_of_ne_zero h0
    rcases first_success_or_all_fail (fun i => (ops.cholEx (ops.addDiag a (jitterAt base jitter i))).2) k with h | ⟨j, hj, h1, h2⟩
    · exact ⟨h0', h, memberAfter_cumulative ops base jitter hl a k h0' (fun j hj => h j (by omega))⟩
    · exfalso
      rw [memberAfter_first_success ops base jitter hl a j h0' h1 h2 (k + 1) (by omega)] at hz
      simp only at hz h2
      omega

/-- If the loop runs out (does not return from inside), every try left some `info ≠ 0`. -/
theorem tryLoop_false_all_fail (s0 : LoopSt M F α) (rem i : Nat)
    (h : (tryLoop ops base jitter rem i (iter ops base jitter s0 i)).1 = false) :
    ∀ j, i ≤ j → j < i + rem → anyInfo (iter ops base jitter s0 (j + 1)).st = true := by
  induction rem generalizing i with
  | zero => intro j h1 h2; omega
  | succ rem ih =>
    unfold tryLoop at h
    simp only at h
    rw [← iter_succ] at h
    by_cases hc : anyInfo (iter ops base jitter s0 (i + 1)).st = true
    · rw [if_pos hc] at h
      intro j h1 h2
      by_cases hji : j = i
      · subst hji; exact hc
      · exact ih (i + 1) h j (by omega) (by omega)
    · rw [if_neg hc] at h
      simp at h

end

section top
variable [Ring α] (ops : Ops M F α) (c : Consts) (env : Env α) (args : Args α) (A : List M)

/-- **Whenever the core returns (outside trace mode), every member of the final `Aprime` is a minimal perturbation of the
corresponding input member** — for every batch, info history, `max_tries`, jitter. -/
theorem core_ok_work_minimal (hl : Lawful ops) (ht : env.traceMode = false) (ls : List F)
    (h : (psdSafeCholeskyCore ops c env args A).result = .ok ls) :
    List.Forall₂ (MinimalPerturbation ops c.base (effJitter env args) (effMaxTries env args)) A
      (psdSafeCholeskyCore ops c env args A).work := by
  by_cases hany : anyInfo (A.map (initMember ops)) = true
  · by_cases hn : A.any ops.hasNan = false
    · rw [core_of_loop ops c env args A ht hany hn] at h ⊢
      obtain ⟨t, htle, h1, hpos, _⟩ := tryLoop_general ops c.base (effJitter env args) (loopInit ops A) (effMaxTries env args) 0
      have h2 := tryLoop_true_anyInfo ops c.base (effJitter env args) (effMaxTries env args) 0 (loopInit ops A)
      simp only [Nat.zero_add, iter_zero] at h1 hpos
      simp only [iter_zero] at h ⊢
      rcases Bool.eq_false_or_eq_true (tryLoop ops c.base (effJitter env args) (effMaxTries env args) 0 (loopInit ops A)).1 with hr | hr
      · have h3 := h2 hr
        have htpos := hpos hr
        simp only [hr, if_true]
        rw [h1, iter_loopInit_st] at h3 ⊢
        rw [anyInfo_false_iff] at h3
        rw [members_map, List.forall₂_map_right_iff, List.forall₂_same]
        intro a ha
        have hz : (memberAfter ops c.base (effJitter env args) a t).2.2 = 0 := h3 _ (List.mem_map.2 ⟨a, ha, rfl⟩)
        obtain ⟨k, rfl⟩ : ∃ k, t = k + 1 := ⟨t - 1, by omega⟩
        refine ⟨by rw [← memberAfter_consistent]; exact hz, ?_⟩
        rcases memberAfter_final ops c.base (effJitter env args) hl a k hz with ⟨h0, he⟩ | ⟨h0, j, hj, hf, _, he⟩
        · left; exact ⟨h0, by rw [he]; rfl⟩
        · right
          refine ⟨h0, j, by omega, ?_, by rw [he, jitterAt_eq]⟩
          intro i hi
          have := hf i hi
          rwa [jitterAt_eq] at this
      · simp [hr] at h
    · exfalso
      revert h
      unfold psdSafeCholeskyCore
      simp only [Bool.not_eq_false] at hn
      simp [ht, hany, hn]
  · simp only [Bool.not_eq_true] at hany
    have hz := (anyInfo_false_iff _).1 hany
    have hw : (psdSafeCholeskyCore ops c env args A).work = A := by
      unfold psdSafeCholeskyCore
      simp [hany]
    rw [hw, List.forall₂_same]
    intro a ha
    have h0 : (ops.cholEx a).2 = 0 := hz _ (List.mem_map.2 ⟨a, ha, rfl⟩)
    exact ⟨h0, Or.inl ⟨h0, rfl⟩⟩

/-- **Whenever the core raises `NotPSDError`/`UnboundLocalError` (outside trace mode), after EVERY try `j < max_tries` some
member still fails `cholesky_ex` while carrying exactly `jitter·base^j`** (and it failed with every smaller jitter and
without jitter). -/
theorem core_fail_every_try (hl : Lawful ops) (ht : env.traceMode = false) (e : Err) (he : e ≠ .nanError)
    (h : (psdSafeCholeskyCore ops c env args A).result = .error e) :
    ∀ j, j < effMaxTries env args → ∃ a ∈ A, 0 < (ops.cholEx a).2 ∧
      ∀ i, i ≤ j → 0 < (ops.cholEx (ops.addDiag a (effJitter env args * (c.base : α) ^ i))).2 := by
  by_cases hany : anyInfo (A.map (initMember ops)) = true
  · by_cases hn : A.any ops.hasNan = false
    · rw [core_of_loop ops c env args A ht hany hn] at h
      simp only [iter_zero] at h
      rcases Bool.eq_false_or_eq_true (tryLoop ops c.base (effJitter env args) (effMaxTries env args) 0 (loopInit ops A)).1 with hr | hr
      · simp [hr] at h
      · have hall := tryLoop_false_all_fail ops c.base (effJitter env args) (loopInit ops A) (effMaxTries env args) 0
          (by rw [iter_zero]; exact hr)
        intro j hj
        have := hall j (Nat.zero_le _) (by omega)
        rw [iter_loopInit_st, anyInfo_true_iff] at this
        obtain ⟨s, hs, hne⟩ := this
        obtain ⟨a, ha, rfl⟩ := List.mem_map.1 hs
        obtain ⟨h0, hf, _⟩ := memberAfter_fail_form ops c.base (effJitter env args) hl a j (Nat.pos_of_ne_zero hne)
        refine ⟨a, ha, h0, fun i hi => ?_⟩
        have := hf i hi
        rwa [jitterAt_eq] at this
    · exfalso
      revert h
      unfold psdSafeCholeskyCore
      simp only [Bool.not_eq_false] at hn
      simp only [ht, hany, hn, Bool.not_true, Bool.or_self, Bool.false_eq_true, if_false, if_true, Except.error.injEq]
      intro h; exact he h.symm
  · exfalso
    revert h
    simp only [Bool.not_eq_true] at hany
    unfold psdSafeCholeskyCore
    simp [hany]

end top
end LinOp.C16
