/-
C16 — a matrix with a factorisation `L Lᵀ` is positive semidefinite (ordered scalars with trivial star: ℝ, ℚ).
Used to DERIVE (instead of assuming) that the perturbed matrix `psd_safe_cholesky` factorises is PSD, from the weak
`cholesky_ex` contract alone.
-/
import Mathlib.LinearAlgebra.Matrix.PosDef
import Mathlib.Algebra.Order.Star.Real

namespace LinOp.C16

theorem posSemidef_self_mul_transpose {K : Type} [CommRing K] [PartialOrder K] [StarRing K] [StarOrderedRing K] [TrivialStar K]
    {n : Nat} (L : Matrix (Fin n) (Fin n) K) : (L * L.transpose).PosSemidef := by
  have := Matrix.posSemidef_self_mul_conjTranspose L
  rwa [Matrix.conjTranspose_eq_transpose_of_trivial] at this

end LinOp.C16
