/-
C16 — the statement skeleton of `_psd_safe_cholesky` / `psd_safe_cholesky` that the model `LinOp.C16.Model` mirrors.

The translator (`harness/extract/c16_cholesky.py`) classifies every statement of the two function bodies (Python `ast`)
into a ROLE and emits the list `(nesting depth, role)` in source order (`LinOp.Generated.C16.coreSkeleton`,
`wrapperSkeleton`).  Effect-free statements (docstring, `pass`, the `settings.verbose_linalg` logging block) are elided;
a statement that is not recognised gets a role starting with `?` (so the obligation below fails).  The obligations
`gen_skeleton_core` / `gen_skeleton_wrapper` (Properties/C16.lean, `decide +kernel`) say that the skeleton of today's source IS the
list below, i.e. the ORDER of: first attempt, exit test, NaN screen, defaults, clone, `jitter_prev` init, loop
(schedule, masked increment, in-place write, `jitter_prev` update, warning, retry, exit test), final raise.

role                          model (Model.lean)
----------------------------  -------------------------------------------------------------------------
outpack                       `out = (out, torch.empty(…int32…))` — the `out=` pair of cholesky_ex (`Args.out`)
chol(input)                   `st0 := A.map (initMember ops)`, call #1, on the caller's tensor
return-if(trace|noinfo)       `if env.traceMode || !anyInfo st0 then … .ok (factors st0)`
nanscan(input) / raise-if(nan):NanError   `else if A.any ops.hasNan then … .error .nanError`
default(jitter) / default(max_tries)      `args.jitter.getD env.settingsJitter`, `args.maxTries.getD env.settingsMaxTries`
clone                         `Consts.clones` (writes go to a fresh tensor; `input := A`)
init(jitter_new,jitter_prev=0)            `jprev := 0` (+ `Consts.jitterNewBound`)
for(range(max_tries))         `tryLoop … maxTries 0`
  sched                       `jitterAt base jitter i`
  incr(masked)                `maskMul (info > 0) (jnew - jprev)`
  write(clone.diagonal)       `ops.addDiag` on the member of `Aprime`
  prev                        `jprev := jnew`
  warn:NumericalWarning       `warns := warns ++ [jnew]`
  chol(clone)                 `ops.cholEx w`, `calls + 1`
  return-if(noinfo)           `if anyInfo s'.st then (continue) else (true, i, s')`
raise:NotPSDError             `.error .notPSDError`

The table above is made precise in `LinOp/C16/SkSem.lean`: every role is a state transformer, `runSkeleton` executes a skeleton, and
`skeleton_semantics_eq_model` / `model_refines_translated_bodies` (Properties/C16.lean) prove it equal to the model.
-/
namespace LinOp.C16

/-- Skeleton of `_psd_safe_cholesky`; `bound` = `jitter_new` is initialised together with `jitter_prev` (notes/C16_fix_1.diff). -/
def expectedCore (bound : Bool) : List (Nat × String) :=
  [(0, "outpack"), (0, "chol(input)"), (0, "return-if(trace|noinfo)"), (0, "nanscan(input)"), (0, "raise-if(nan):NanError"),
   (0, "default(jitter)"), (0, "default(max_tries)"), (0, "clone"),
   (0, if bound then "init(jitter_new,jitter_prev=0)" else "init(jitter_prev=0)"),
   (0, "for(range(max_tries))"),
   (1, "sched"), (1, "incr(masked)"), (1, "write(clone.diagonal)"), (1, "prev"), (1, "warn:NumericalWarning"), (1, "chol(clone)"),
   (1, "return-if(noinfo)"),
   (0, "raise:NotPSDError")]

/-- Skeleton of the public wrapper `psd_safe_cholesky`. -/
def expectedWrapper : List (Nat × String) :=
  [(0, "core-call(forward-all)"), (0, "if(upper)"), (1, "if(out)"), (2, "transpose-out-inplace"), (1, "else"), (2, "transpose-result"),
   (0, "return-result")]

/-- `xs` repeated `k` times -/
def rep (k : Nat) (xs : List String) : List String :=
  match k with
  | 0 => []
  | k + 1 => xs ++ rep k xs

/-- A skeleton cut at its loop: statements before the loop, the loop header, the loop body, statements after the loop. -/
def splitSk (sk : List (Nat × String)) : List String × List String × List String × List String :=
  let isFor := fun (e : Nat × String) => e.2.startsWith "for("
  let rest := sk.dropWhile fun e => !isFor e
  ((sk.takeWhile fun e => !isFor e).map (·.2), (rest.take 1).map (·.2),
   ((rest.drop 1).takeWhile fun e => e.1 > 0).map (·.2), ((rest.drop 1).dropWhile fun e => e.1 > 0).map (·.2))

/-- `pre` up to and including the first statement satisfying `p` -/
def upto (pre : List String) (p : String → Bool) : List String := pre.take (pre.findIdx p + 1)

def assemble (parts : List String × List String × List String × List String) (outcome : String) (tries : Nat) : List String :=
  let (pre, hdr, body, post) := parts
  if outcome = "first" then upto pre (·.startsWith "return-if(")
  else if outcome = "nan" then upto pre (·.startsWith "raise-if(nan)")
  else if outcome = "ok" then pre ++ rep tries (hdr ++ body)
  else pre ++ rep tries (hdr ++ body) ++ hdr ++ post

/-- Control-flow semantics of a skeleton: the sequence of statement roles that is EXECUTED for a given outcome of the model
(`first` = returned at the first exit test, `nan` = NaN screen raised, `ok` = returned from inside the loop in iteration
`tries - 1`, `fail` = loop ran `tries` times and fell through to the final raise).  The `for` header is executed once per
iteration, and once more when the iterator is exhausted.  Compared by the harness with the statements the interpreter really
executes (`sys.settrace` line events) — `tries` and the outcome come from the model's `Outcome`. -/
def roleTrace (sk : List (Nat × String)) (outcome : String) (tries : Nat) : List String :=
  assemble (splitSk sk) outcome tries

end LinOp.C16
