/-
C16 — model of `linear_operator/utils/cholesky.py` (`_psd_safe_cholesky`, `psd_safe_cholesky`),
statement by statement, for a BATCH of matrices (a `List` of members; the batch shape plays no
role in the algorithm: `torch.any(info)` and the mask `(info > 0) * …` are elementwise).  Core Lean only.

    L, info = torch.linalg.cholesky_ex(A, out=out)                     -- `st0`, call #1
    if settings.trace_mode.on() or not torch.any(info): return L
    isnan = torch.isnan(A);  if isnan.any(): raise NanError
    if jitter is None: jitter = settings.cholesky_jitter.value(A.dtype)
    if max_tries is None: max_tries = settings.cholesky_max_tries.value()
    Aprime = A.clone()                                                  -- `Consts.clones`
    jitter_prev = 0
    for i in range(max_tries):                                          -- `tryLoop`
        jitter_new = jitter * (10**i)                                   -- `jitterAt`
        diag_add = ((info > 0) * (jitter_new - jitter_prev))…           -- `maskMul`
        Aprime.diagonal(dim1=-1, dim2=-2).add_(diag_add)                -- `Ops.addDiag` (per member)
        jitter_prev = jitter_new
        warnings.warn(…jitter_new…, NumericalWarning)                   -- `warns`
        L, info = torch.linalg.cholesky_ex(Aprime, out=out)             -- `tryMember`
        if not torch.any(info): return L
    raise NotPSDError(f"… {jitter_new:.1e}.")                           -- UnboundLocalError if the loop never ran

`cholesky_ex`, the NaN test, "add c to the diagonal" and the transpose of a factor are PARAMETERS
(`Ops`); theorems use explicit hypotheses about them, the driver plugs in an exact LDLᵀ stand-in.
-/
import LinOp.Core.Basic
namespace LinOp.C16

/-- What the function can raise.  `unboundLocalError` is the code as it is: with `max_tries = 0` the
final `raise NotPSDError(f"…{jitter_new:.1e}")` reads a variable that was never bound. -/
inductive Err
  | nanError
  | notPSDError
  | unboundLocalError
  deriving DecidableEq, Repr

/-- External primitives, per batch member. -/
structure Ops (M F α : Type) where
  /-- `torch.linalg.cholesky_ex` on one member: factor and LAPACK `info` (0 = success). -/
  cholEx : M → F × Nat
  /-- `torch.isnan(A).any()` restricted to one member. -/
  hasNan : M → Bool
  /-- `A.diagonal().add_(c)` on one member. -/
  addDiag : M → α → M
  /-- `L.mT` -/
  transposeF : F → F

/-- Constants taken from the source by the translator (`LinOp.Generated.C16`). -/
structure Consts where
  base : Nat
  clones : Bool
  /-- `jitter_new` is bound when the `raise` after the loop formats it even if the loop never ran
  (false for the code as it is: `max_tries = 0` ends in UnboundLocalError) -/
  jitterNewBound : Bool := false

/-- The process state the function reads. -/
structure Env (α : Type) where
  settingsJitter : α          -- settings.cholesky_jitter.value(A.dtype)
  settingsMaxTries : Nat      -- settings.cholesky_max_tries.value()
  traceMode : Bool            -- settings.trace_mode.on()

structure Args (α : Type) where
  upper : Bool := false
  out : Bool := false         -- an `out=` tensor was passed
  jitter : Option α := none
  maxTries : Option Nat := none

/-- One batch member during the loop: the member of `Aprime`, and the `L`, `info` of the last call on it. -/
abbrev MS (M F : Type) := M × F × Nat

structure LoopSt (M F α : Type) where
  st : List (MS M F)
  jprev : α
  calls : Nat               -- number of `cholesky_ex` calls so far
  warns : List α            -- `jitter_new` of every warning issued so far

structure Outcome (M F α : Type) where
  result : Except Err (List F)
  calls : Nat
  warns : List α
  /-- `Aprime` at exit (the input itself if the clone statement was never reached) -/
  work : List M
  /-- the caller's tensor `A` at exit -/
  input : List M
  /-- content of the caller's `out=` tensor at exit, if one was passed -/
  outBuf : Option (List F)

section
variable {M F α : Type}

/-- `bool_tensor * python_float`, one element. -/
def maskMul [Zero α] (b : Bool) (x : α) : α := if b then x else 0

/-- `jitter * (base ** i)` — the power is an (exact) Python int. -/
def jitterAt [Mul α] [NatCast α] (base : Nat) (jitter : α) (i : Nat) : α := jitter * ((base ^ i : Nat) : α)

/-- `torch.any(info)` -/
def anyInfo (st : List (MS M F)) : Bool := st.any fun s => s.2.2 != 0

def factors (st : List (MS M F)) : List F := st.map fun s => s.2.1
def members (st : List (MS M F)) : List M := st.map fun s => s.1

/-- First call on one member. -/
def initMember (ops : Ops M F α) (a : M) : MS M F :=
  let r := ops.cholEx a
  (a, r.1, r.2)

/-- Loop body on one member: masked in-place increment, then `cholesky_ex` again. -/
def tryMember [Zero α] (ops : Ops M F α) (delta : α) (s : MS M F) : MS M F :=
  let w := ops.addDiag s.1 (maskMul (decide (s.2.2 > 0)) delta)
  let r := ops.cholEx w
  (w, r.1, r.2)

/-- Loop body on the batch. -/
def loopBody [Zero α] [Sub α] [Mul α] [NatCast α] (ops : Ops M F α) (base : Nat) (jitter : α) (i : Nat)
    (s : LoopSt M F α) : LoopSt M F α :=
  let jnew := jitterAt base jitter i
  { st := s.st.map (tryMember ops (jnew - s.jprev)), jprev := jnew, calls := s.calls + 1, warns := s.warns ++ [jnew] }

/-- `for i in range(max_tries)`: `rem` iterations left, loop variable `i`.
Returns (returned-from-inside-the-loop?, value of the loop counter, state). -/
def tryLoop [Zero α] [Sub α] [Mul α] [NatCast α] (ops : Ops M F α) (base : Nat) (jitter : α) :
    (rem i : Nat) → LoopSt M F α → Bool × Nat × LoopSt M F α
  | 0, i, s => (false, i, s)
  | rem + 1, i, s =>
    let s' := loopBody ops base jitter i s
    if anyInfo s'.st then tryLoop ops base jitter rem (i + 1) s' else (true, i, s')

/-- `_psd_safe_cholesky(A, out, jitter, max_tries)` -/
def psdSafeCholeskyCore [Zero α] [Sub α] [Mul α] [NatCast α] (ops : Ops M F α) (c : Consts) (env : Env α)
    (args : Args α) (A : List M) : Outcome M F α :=
  let st0 := A.map (initMember ops)
  let ob := fun (fs : List F) => if args.out then some fs else none
  if env.traceMode || !anyInfo st0 then
    { result := .ok (factors st0), calls := 1, warns := [], work := A, input := A, outBuf := ob (factors st0) }
  else if A.any ops.hasNan then
    { result := .error .nanError, calls := 1, warns := [], work := A, input := A, outBuf := ob (factors st0) }
  else
    let jitter := args.jitter.getD env.settingsJitter
    let maxTries := args.maxTries.getD env.settingsMaxTries
    -- Aprime = A.clone(); jitter_prev = 0
    let r := tryLoop ops c.base jitter maxTries 0 { st := st0, jprev := 0, calls := 1, warns := [] }
    let s := r.2.2
    let work := members s.st
    -- without the clone `Aprime` is `A` itself and every in-place write lands in the caller's tensor
    let input := if c.clones then A else work
    if r.1 then
      { result := .ok (factors s.st), calls := s.calls, warns := s.warns, work := work, input := input, outBuf := ob (factors s.st) }
    else
      { result := .error (if r.2.1 = 0 && !c.jitterNewBound then .unboundLocalError else .notPSDError),
        calls := s.calls, warns := s.warns, work := work, input := input, outBuf := ob (factors s.st) }

/-- `psd_safe_cholesky(A, upper, out, jitter, max_tries)` -/
def psdSafeCholesky [Zero α] [Sub α] [Mul α] [NatCast α] (ops : Ops M F α) (c : Consts) (env : Env α)
    (args : Args α) (A : List M) : Outcome M F α :=
  let o := psdSafeCholeskyCore ops c env args A
  match o.result with
  | .ok ls =>
    if args.upper then
      -- `out.transpose_(-1, -2)` (same object as L) or `L = L.mT`
      { o with result := .ok (ls.map ops.transposeF), outBuf := o.outBuf.map (·.map ops.transposeF) }
    else o
  | .error _ => o

/-- `LinearOperator.cholesky(upper)` of a dense-backed operator (`_cholesky` + `cholesky` in `_linear_operator.py`):
    evaluated_mat = …to_dense()
    if evaluated_mat.size(-1) == 1: return TriangularLinearOperator(evaluated_mat.clamp_min(0.0).sqrt())   -- `sqrtClamp`
    cholesky = psd_safe_cholesky(evaluated_mat, upper=False).contiguous()
    … `cholesky()` transposes the lower factor if `upper`.
The 1×1 shortcut never calls `psd_safe_cholesky`: no `cholesky_ex`, no jitter, no warning, no error (a non-positive entry
gives the factor 0, a NaN entry a NaN factor).  No `jitter` / `max_tries` / `out` arguments exist on this route. -/
def opCholesky [Zero α] [Sub α] [Mul α] [NatCast α] (ops : Ops M F α) (sqrtClamp : M → F) (size : Nat) (c : Consts)
    (env : Env α) (upper : Bool) (A : List M) : Outcome M F α :=
  let o : Outcome M F α :=
    if size = 1 then { result := .ok (A.map sqrtClamp), calls := 0, warns := [], work := A, input := A, outBuf := none }
    else psdSafeCholesky ops c env {} A
  if upper then { o with result := o.result.map fun ls => ls.map ops.transposeF } else o

/-! ### Closed forms used by the theorems (not by the driver) -/

/-- `jitter_prev` at the start of iteration `i`. -/
def jprevAt [Zero α] [Mul α] [NatCast α] (base : Nat) (jitter : α) : Nat → α
  | 0 => 0
  | i + 1 => jitterAt base jitter i

/-- One member after `k` loop iterations, whatever the other members do. -/
def memberAfter [Zero α] [Sub α] [Mul α] [NatCast α] (ops : Ops M F α) (base : Nat) (jitter : α) (a : M) :
    Nat → MS M F
  | 0 => initMember ops a
  | k + 1 => tryMember ops (jitterAt base jitter k - jprevAt base jitter k) (memberAfter ops base jitter a k)

/-- The loop state after `k` iterations (if the loop gets that far). -/
def iter [Zero α] [Sub α] [Mul α] [NatCast α] (ops : Ops M F α) (base : Nat) (jitter : α) (s0 : LoopSt M F α) :
    Nat → LoopSt M F α
  | 0 => s0
  | k + 1 => loopBody ops base jitter k (iter ops base jitter s0 k)

end

/-! ### Concrete members: square matrices over a scalar type -/

section
variable {α F : Type} {n : Nat}

/-- `A.diagonal().add_(c)` -/
def addDiag [Add α] (A : Mat α n n) (c : α) : Mat α n n := fun i j => if i = j then A i j + c else A i j

def matHasNan (isNan : α → Bool) (A : Mat α n n) : Bool :=
  (List.finRange n).any fun i => (List.finRange n).any fun j => isNan (A i j)

def matOps [Add α] (cholEx : Mat α n n → F × Nat) (isNan : α → Bool) (tr : F → F) : Ops (Mat α n n) F α :=
  { cholEx := cholEx, hasNan := matHasNan isNan, addDiag := addDiag, transposeF := tr }

end
end LinOp.C16
