/-
C16 — the state semantics of the pinned skeleton (`SkSem.lean`) equals the model (`Model.lean`).  Helper lemmas; the property
theorems are in `Properties/C16.lean`.
-/
import LinOp.C16.Proofs
import LinOp.C16.SkSem

namespace LinOp.C16

variable {M F α : Type} [Zero α] [Sub α] [Mul α] [NatCast α]
variable (ops : Ops M F α) (base : Nat) (env : Env α) (args : Args α) (A : List M)

theorem parse_expectedCore (b : Bool) : parseSk (expectedCore b) = some (expectedProg b true) := by
  cases b <;> decide +kernel

theorem parse_expectedCoreNoClone (b : Bool) : parseSk (expectedCoreNoClone b) = some (expectedProg b false) := by
  cases b <;> decide +kernel

/-- the three statements `incr; write; …; chol(clone)` on the member list are `tryMember` -/
theorem write_chol_eq_tryMember (δ : α) (st : List (MS M F)) :
    (List.zipWith (fun (m : MS M F) (d : α) => ((ops.addDiag m.1 d, m.2.1, m.2.2) : MS M F)) st
        (st.map fun m => maskMul (decide (m.2.2 > 0)) δ)).map
      (fun m => ((m.1, (ops.cholEx m.1).1, (ops.cholEx m.1).2) : MS M F)) = st.map (tryMember ops δ) := by
  induction st with
  | nil => rfl
  | cons m st ih =>
    simp only [List.map_cons, List.zipWith_cons_cons, ih]
    rfl

/-- state after one execution of the loop body -/
def afterBody (j : α) (i : Nat) (s : SkSt M F α) : SkSt M F α :=
  { s with i := i, jnew := some (jitterAt base j i),
           diagAdd := s.loop.st.map fun m => maskMul (decide (m.2.2 > 0)) (jitterAt base j i - s.loop.jprev),
           loop := loopBody ops base j i s.loop }

def bodyStmts : List BStmt := [.sched, .incr, .write, .prev, .warn, .cholClone, .retNoinfo]

/-- **One iteration of the skeleton's loop body = `loopBody` of the model**, followed by the model's exit test. -/
theorem body_step (j : α) (i : Nat) (s : SkSt M F α) (hs : s.started = true) (hj : s.jitter = some j) :
    execSeq ops base env A bodyStmts { s with i := i } =
      if anyInfo (loopBody ops base j i s.loop).st then .next (afterBody ops base j i s) else .ret (afterBody ops base j i s) := by
  simp only [bodyStmts, execSeq, execB, hj, hs, Bool.not_true, Bool.false_eq_true, if_false]
  rw [write_chol_eq_tryMember]
  simp only [afterBody, loopBody]
  by_cases hany : anyInfo (List.map (tryMember ops (jitterAt base j i - s.loop.jprev)) s.loop.st) = true
  · simp only [hany, if_true, execSeq]; simp [hs, hj]
  · simp only [hany, if_false, Bool.false_eq_true]; simp [hs, hj]

theorem tryLoop_false_counter (j : α) (rem i : Nat) (l : LoopSt M F α) (h : (tryLoop ops base j rem i l).1 = false) :
    (tryLoop ops base j rem i l).2.1 = i + rem := by
  induction rem generalizing i l with
  | zero => rfl
  | succ rem ih =>
    unfold tryLoop at h ⊢
    simp only at h ⊢
    split
    · rename_i hany
      rw [if_pos hany] at h
      rw [ih _ _ h]; omega
    · rename_i hany
      rw [if_neg hany] at h
      cases h

/-- **The skeleton's `for` loop = `tryLoop`**: it returns from inside iff `tryLoop` does, in the state `tryLoop` computes; the
aliasing status is unchanged and `jitter_new` is bound afterwards iff it was before or the body ran. -/
theorem for_eq_tryLoop (j : α) (rem i : Nat) (s : SkSt M F α) (hs : s.started = true) (hj : s.jitter = some j) :
    ∃ s' : SkSt M F α,
      execFor ops base env A bodyStmts rem i s =
        (if (tryLoop ops base j rem i s.loop).1 then Ctl.ret s' else Ctl.next s') ∧
      s'.loop = (tryLoop ops base j rem i s.loop).2.2 ∧ s'.saved = s.saved ∧ s'.started = true ∧
      s'.jnew.isSome = (s.jnew.isSome || decide (0 < rem)) := by
  induction rem generalizing i s with
  | zero => exact ⟨s, by simp [execFor, tryLoop], rfl, rfl, hs, by simp⟩
  | succ rem ih =>
    unfold execFor tryLoop
    rw [body_step ops base env A j i s hs hj]
    simp only
    by_cases hany : anyInfo (loopBody ops base j i s.loop).st = true
    · rw [if_pos hany, if_pos hany]
      obtain ⟨s', h1, h2, h3, h4, h5⟩ := ih (i + 1) (afterBody ops base j i s) hs hj
      refine ⟨s', h1, h2, h3, h4, ?_⟩
      rw [h5]; simp [afterBody]
    · rw [if_neg hany, if_neg hany]
      exact ⟨afterBody ops base j i s, by simp, rfl, rfl, hs, by simp [afterBody]⟩


/-- interpreter state when the pinned program reaches its loop -/
def stateAtLoop (b clone : Bool) : SkSt M F α :=
  { loop := { st := A.map (initMember ops), jprev := 0, calls := 1, warns := [] }, started := true,
    saved := if clone then some A else none, nan := false, jitter := some (args.jitter.getD env.settingsJitter),
    maxTries := some (args.maxTries.getD env.settingsMaxTries), jnew := if b then some 0 else none }

theorem pre_exec (b clone : Bool) (ht : env.traceMode = false) (hany : anyInfo (A.map (initMember ops)) = true)
    (hnan : A.any ops.hasNan = false) :
    execTop ops base env A (expectedProg b clone) (initSk args) =
      match execFor ops base env A bodyStmts (args.maxTries.getD env.settingsMaxTries) 0 (stateAtLoop ops env args A b clone) with
      | .next s' => .raise (if s'.jnew.isSome then .notPSDError else .unboundLocalError) s'
      | c => c := by
  cases clone <;> cases b <;>
  simp [expectedProg, execTop, execB, initSk, ht, hany, hnan, SkSt.inputNow, members_init, stateAtLoop, bodyStmts] <;> rfl

theorem run_expectedProg (b clone : Bool) :
    runProg ops base env args A (expectedProg b clone) =
      some (psdSafeCholeskyCore ops { base := base, clones := clone, jitterNewBound := b } env args A) := by
  by_cases h1 : (env.traceMode || !anyInfo (A.map (initMember ops))) = true
  · cases clone <;>
    simp [runProg, expectedProg, execTop, execB, initSk, h1, psdSafeCholeskyCore, SkSt.outcome, SkSt.inputNow, members_init]
  · by_cases h2 : A.any ops.hasNan = true
    · cases clone <;>
      simp [runProg, expectedProg, execTop, execB, initSk, h1, h2, psdSafeCholeskyCore, SkSt.outcome, SkSt.inputNow, members_init]
    · have ht : env.traceMode = false := by cases h : env.traceMode <;> simp [h] at h1 ⊢
      have hany : anyInfo (A.map (initMember ops)) = true := by
        cases h : anyInfo (A.map (initMember ops)) <;> simp [h] at h1 ⊢
      have hnan : A.any ops.hasNan = false := by simpa using h2
      unfold runProg
      rw [pre_exec ops base env args A b clone ht hany hnan]
      obtain ⟨s', e1, e2, e3, e4, e5⟩ := for_eq_tryLoop ops base env A (args.jitter.getD env.settingsJitter)
        (args.maxTries.getD env.settingsMaxTries) 0 (stateAtLoop ops env args A b clone) rfl rfl
      rw [e1]
      unfold psdSafeCholeskyCore
      simp only [h1, if_false, h2, Bool.false_eq_true]
      have hl : (stateAtLoop ops env args A b clone).loop = { st := A.map (initMember ops), jprev := 0, calls := 1, warns := [] } := rfl
      rw [hl] at e1 e2
      rw [hl]
      have hc := tryLoop_false_counter ops base (args.jitter.getD env.settingsJitter) (args.maxTries.getD env.settingsMaxTries) 0
        { st := A.map (initMember ops), jprev := 0, calls := 1, warns := [] }
      generalize tryLoop ops base (args.jitter.getD env.settingsJitter) (args.maxTries.getD env.settingsMaxTries) 0
        { st := A.map (initMember ops), jprev := 0, calls := 1, warns := [] } = r at e2 hc ⊢
      obtain ⟨r1, r2, r3⟩ := r
      cases r1
      · have hc' : r2 = 0 + args.maxTries.getD env.settingsMaxTries := hc rfl
        simp only at e2
        subst hc'
        cases b <;> cases clone <;> by_cases hn : args.maxTries.getD env.settingsMaxTries = 0 <;>
          simp [SkSt.outcome, SkSt.inputNow, e2, e3, e4, e5, stateAtLoop, hn]
      · simp only at e2
        cases clone <;> simp [SkSt.outcome, SkSt.inputNow, e2, e3, e4, stateAtLoop]
variable (c : Consts)

theorem core_outBuf_none (h : args.out = false) : (psdSafeCholeskyCore ops c env args A).outBuf = none := by
  unfold psdSafeCholeskyCore
  simp only [h, Bool.false_eq_true, if_false]
  split
  · rfl
  · split
    · rfl
    · split <;> rfl

/-- running the pinned wrapper skeleton on an outcome `o` of the core call whose `out` buffer exists only if `out=` was passed -/
theorem wrapper_semantics_of_core (o : Outcome M F α) (hob : args.out = false → o.outBuf = none) :
    runWrapperSk ops args expectedWrapper o =
      some (match o.result with
        | .ok ls => if args.upper then { o with result := .ok (ls.map ops.transposeF), outBuf := o.outBuf.map (·.map ops.transposeF) } else o
        | .error _ => o) := by
  obtain ⟨res, calls, warns, work, input, ob⟩ := o
  cases res <;> cases hu : args.upper <;> cases ho : args.out <;>
    simp [runWrapperSk, expectedWrapper, wrun, wstep, hu, ho]
  simp only [ho, forall_const] at hob
  simp [hob]


end LinOp.C16
