/-
C16 — helper lemmas about the model of `psd_safe_cholesky` (loop invariants, per-member closed forms).
-/
import LinOp.C16.Model
import Mathlib.Algebra.Ring.Defs
import Mathlib.Algebra.Group.Basic
import Mathlib.Data.Nat.Cast.Basic
import Mathlib.Tactic.Abel

namespace LinOp.C16

variable {M F α : Type}

/-- The two facts about "add `c` to the diagonal" the loop relies on. -/
structure Lawful [AddGroup α] (ops : Ops M F α) : Prop where
  addDiag_zero : ∀ w, ops.addDiag w 0 = w
  addDiag_add : ∀ w a b, ops.addDiag (ops.addDiag w a) b = ops.addDiag w (a + b)

section loop
variable [Ring α] (ops : Ops M F α) (base : Nat) (jitter : α)

@[simp] theorem iter_zero (s0 : LoopSt M F α) : iter ops base jitter s0 0 = s0 := rfl

theorem iter_succ (s0 : LoopSt M F α) (k : Nat) :
    iter ops base jitter s0 (k + 1) = loopBody ops base jitter k (iter ops base jitter s0 k) := rfl

theorem iter_jprev (s0 : LoopSt M F α) (h0 : s0.jprev = 0) (k : Nat) :
    (iter ops base jitter s0 k).jprev = jprevAt base jitter k := by
  cases k with
  | zero => simpa [jprevAt] using h0
  | succ k => rfl

theorem iter_calls (s0 : LoopSt M F α) (k : Nat) : (iter ops base jitter s0 k).calls = s0.calls + k := by
  induction k with
  | zero => rfl
  | succ k ih => rw [iter_succ]; simp only [loopBody, ih]; omega

theorem iter_warns (s0 : LoopSt M F α) (k : Nat) :
    (iter ops base jitter s0 k).warns = s0.warns ++ (List.range k).map (jitterAt base jitter) := by
  induction k with
  | zero => simp
  | succ k ih => rw [iter_succ]; simp only [loopBody, ih, List.range_succ, List.map_append, List.map_cons,
      List.map_nil, List.append_assoc]

theorem iter_st (A : List M) (s0 : LoopSt M F α) (h0 : s0.jprev = 0) (hst : s0.st = A.map (initMember ops)) (k : Nat) :
    (iter ops base jitter s0 k).st = A.map fun a => memberAfter ops base jitter a k := by
  induction k with
  | zero => simpa [memberAfter] using hst
  | succ k ih =>
    rw [iter_succ]
    simp only [loopBody, ih, iter_jprev ops base jitter s0 h0 k, List.map_map]
    rfl

/-- Whatever the info history: the loop stops after some `t ≤ rem` iterations in state `iter (i+t)`. -/
theorem tryLoop_general (s0 : LoopSt M F α) (rem i : Nat) :
    ∃ t, t ≤ rem ∧ (tryLoop ops base jitter rem i (iter ops base jitter s0 i)).2.2 = iter ops base jitter s0 (i + t)
      ∧ ((tryLoop ops base jitter rem i (iter ops base jitter s0 i)).1 = true → 0 < t)
      ∧ ((tryLoop ops base jitter rem i (iter ops base jitter s0 i)).1 = false → t = rem) := by
  induction rem generalizing i with
  | zero => exact ⟨0, Nat.le_refl _, rfl, by simp [tryLoop], fun _ => rfl⟩
  | succ rem ih =>
    unfold tryLoop
    simp only
    rw [← iter_succ]
    split
    · obtain ⟨t, ht, h1, h2, h3⟩ := ih (i + 1)
      refine ⟨t + 1, by omega, ?_, fun _ => by omega, ?_⟩
      · rw [h1]; congr 1; omega
      · intro h; have := h3 h; omega
    · exact ⟨1, by omega, rfl, fun _ => by omega, by simp⟩

/-- Every try up to the budget leaves some `info ≠ 0`: the loop runs out. -/
theorem tryLoop_fail (s0 : LoopSt M F α) (rem i : Nat)
    (h : ∀ j, i ≤ j → j < i + rem → anyInfo (iter ops base jitter s0 (j + 1)).st = true) :
    tryLoop ops base jitter rem i (iter ops base jitter s0 i) = (false, i + rem, iter ops base jitter s0 (i + rem)) := by
  induction rem generalizing i with
  | zero => rfl
  | succ rem ih =>
    unfold tryLoop
    simp only
    rw [← iter_succ, if_pos (h i (Nat.le_refl _) (by omega)), ih (i + 1) (fun j h1 h2 => h j (by omega) (by omega))]
    congr 2 <;> first | omega | (congr 1; omega)

/-- Try `k` is the first one after which all `info = 0`: the loop returns there. -/
theorem tryLoop_succ (s0 : LoopSt M F α) (rem i k : Nat) (hik : i ≤ k) (hk : k < i + rem)
    (hfail : ∀ j, i ≤ j → j < k → anyInfo (iter ops base jitter s0 (j + 1)).st = true)
    (hok : anyInfo (iter ops base jitter s0 (k + 1)).st = false) :
    tryLoop ops base jitter rem i (iter ops base jitter s0 i) = (true, k, iter ops base jitter s0 (k + 1)) := by
  induction rem generalizing i with
  | zero => omega
  | succ rem ih =>
    unfold tryLoop
    simp only
    rw [← iter_succ]
    by_cases hik' : i = k
    · subst hik'
      rw [if_neg (by simp [hok])]
    · rw [if_pos (hfail i (Nat.le_refl _) (by omega))]
      exact ih (i + 1) (by omega) (by omega) (fun j h1 h2 => hfail j (by omega) h2)

/-- If the loop returns from inside, every `info` of the state it returns is 0 — whatever the history. -/
theorem tryLoop_true_anyInfo (rem i : Nat) (s : LoopSt M F α) (h : (tryLoop ops base jitter rem i s).1 = true) :
    anyInfo (tryLoop ops base jitter rem i s).2.2.st = false := by
  induction rem generalizing i s with
  | zero => simp [tryLoop] at h
  | succ rem ih =>
    unfold tryLoop at h ⊢
    simp only at h ⊢
    split
    · rename_i hc
      rw [if_pos hc] at h
      exact ih _ _ h
    · rename_i hc
      simpa using hc

end loop

section member
variable [Ring α] (ops : Ops M F α) (base : Nat) (jitter : α)

/-- `L, info` stored for a member are always those of its current matrix. -/
theorem memberAfter_consistent (a : M) (k : Nat) :
    (memberAfter ops base jitter a k).2 = ops.cholEx (memberAfter ops base jitter a k).1 := by
  cases k <;> rfl

theorem tryMember_frozen (hl : Lawful ops) (δ : α) (s : MS M F) (hc : s.2 = ops.cholEx s.1) (h0 : s.2.2 = 0) :
    tryMember ops δ s = s := by
  obtain ⟨w, l, info⟩ := s
  simp only at hc h0
  subst h0
  simp only [tryMember, maskMul, Nat.lt_irrefl, decide_false, Bool.false_eq_true, if_false, hl.addDiag_zero, ← hc]

/-- A member whose `info` is 0 is never touched again. -/
theorem memberAfter_frozen (hl : Lawful ops) (a : M) (k : Nat) (h0 : (memberAfter ops base jitter a k).2.2 = 0) (m : Nat) :
    memberAfter ops base jitter a (k + m) = memberAfter ops base jitter a k := by
  induction m with
  | zero => rfl
  | succ m ih =>
    show tryMember ops _ (memberAfter ops base jitter a (k + m)) = _
    rw [ih]
    exact tryMember_frozen ops hl _ _ (memberAfter_consistent ops base jitter a k) h0

/-- A member that failed the first call and the tries `0 … k-1` carries exactly `jitter·base^k` after try `k`
(the increments telescope). -/
theorem memberAfter_cumulative (hl : Lawful ops) (a : M) (k : Nat) (h0 : 0 < (ops.cholEx a).2)
    (hf : ∀ j, j < k → 0 < (ops.cholEx (ops.addDiag a (jitterAt base jitter j))).2) :
    memberAfter ops base jitter a (k + 1)
      = (ops.addDiag a (jitterAt base jitter k), ops.cholEx (ops.addDiag a (jitterAt base jitter k))) := by
  induction k with
  | zero =>
    simp only [memberAfter, tryMember, initMember, maskMul, h0, decide_true, if_true, jprevAt, sub_zero]
  | succ k ih =>
    have ih' := ih (fun j hj => hf j (by omega))
    show tryMember ops _ (memberAfter ops base jitter a (k + 1)) = _
    rw [ih']
    have hk := hf k (Nat.lt_succ_self k)
    simp only [tryMember, maskMul, hk, decide_true, if_true, jprevAt, hl.addDiag_add]
    have : jitterAt base jitter k + (jitterAt base jitter (k + 1) - jitterAt base jitter k) = jitterAt base jitter (k + 1) := by
      abel
    rw [this]

/-- A member that passed the first call is returned as it is. -/
theorem memberAfter_pd (hl : Lawful ops) (a : M) (h0 : (ops.cholEx a).2 = 0) (m : Nat) :
    memberAfter ops base jitter a m = initMember ops a := by
  have := memberAfter_frozen ops base jitter hl a 0 (by simpa [memberAfter, initMember] using h0) m
  simpa [memberAfter] using this

/-- A member that first succeeds at try `j` keeps `jitter·base^j` for the rest of the loop. -/
theorem memberAfter_first_success (hl : Lawful ops) (a : M) (j : Nat) (h0 : 0 < (ops.cholEx a).2)
    (hf : ∀ i, i < j → 0 < (ops.cholEx (ops.addDiag a (jitterAt base jitter i))).2)
    (hs : (ops.cholEx (ops.addDiag a (jitterAt base jitter j))).2 = 0) (m : Nat) (hm : j + 1 ≤ m) :
    memberAfter ops base jitter a m
      = (ops.addDiag a (jitterAt base jitter j), ops.cholEx (ops.addDiag a (jitterAt base jitter j))) := by
  have hc := memberAfter_cumulative ops base jitter hl a j h0 hf
  obtain ⟨d, rfl⟩ := Nat.exists_eq_add_of_le hm
  rw [memberAfter_frozen ops base jitter hl a (j + 1) (by rw [hc]; exact hs) d, hc]

/-- Pure logic on an info sequence: either all of `0…k` fail or there is a first success `≤ k`. -/
theorem first_success_or_all_fail (p : Nat → Nat) (k : Nat) :
    (∀ j, j ≤ k → 0 < p j) ∨ ∃ j, j ≤ k ∧ (∀ i, i < j → 0 < p i) ∧ p j = 0 := by
  induction k with
  | zero =>
    by_cases h : p 0 = 0
    · exact Or.inr ⟨0, Nat.le_refl _, fun i hi => absurd hi (Nat.not_lt_zero _), h⟩
    · refine Or.inl fun j hj => ?_
      have : j = 0 := by omega
      subst this; omega
  | succ k ih =>
    rcases ih with h | ⟨j, hj, h1, h2⟩
    · by_cases hk : p (k + 1) = 0
      · exact Or.inr ⟨k + 1, Nat.le_refl _, fun i hi => h i (by omega), hk⟩
      · exact Or.inl fun j hj => by
          by_cases hjk : j = k + 1
          · subst hjk; omega
          · exact h j (by omega)
    · exact Or.inr ⟨j, by omega, h1, h2⟩

/-- Complete description of a member whose `info` is 0 after try `k`. -/
theorem memberAfter_final (hl : Lawful ops) (a : M) (k : Nat) (hz : (memberAfter ops base jitter a (k + 1)).2.2 = 0) :
    ((ops.cholEx a).2 = 0 ∧ memberAfter ops base jitter a (k + 1) = initMember ops a) ∨
    (0 < (ops.cholEx a).2 ∧ ∃ j, j ≤ k ∧ (∀ i, i < j → 0 < (ops.cholEx (ops.addDiag a (jitterAt base jitter i))).2)
      ∧ (ops.cholEx (ops.addDiag a (jitterAt base jitter j))).2 = 0
      ∧ memberAfter ops base jitter a (k + 1)
          = (ops.addDiag a (jitterAt base jitter j), ops.cholEx (ops.addDiag a (jitterAt base jitter j)))) := by
  by_cases h0 : (ops.cholEx a).2 = 0
  · exact Or.inl ⟨h0, memberAfter_pd ops base jitter hl a h0 _⟩
  · have h0' : 0 < (ops.cholEx a).2 := Nat.pos_of_ne_zero h0
    refine Or.inr ⟨h0', ?_⟩
    rcases first_success_or_all_fail (fun i => (ops.cholEx (ops.addDiag a (jitterAt base jitter i))).2) k with h | ⟨j, hj, h1, h2⟩
    · exfalso
      rw [memberAfter_cumulative ops base jitter hl a k h0' (fun j hj => h j (by omega))] at hz
      have := h k (Nat.le_refl _)
      simp only at hz this
      omega
    · exact ⟨j, hj, h1, h2, memberAfter_first_success ops base jitter hl a j h0' h1 h2 (k + 1) (by omega)⟩

end member

section anyinfo

theorem anyInfo_false_iff (st : List (MS M F)) : anyInfo st = false ↔ ∀ s ∈ st, s.2.2 = 0 := by
  simp [anyInfo, List.any_eq_false]

theorem anyInfo_true_iff (st : List (MS M F)) : anyInfo st = true ↔ ∃ s ∈ st, s.2.2 ≠ 0 := by
  simp [anyInfo, List.any_eq_true]

theorem factors_map (f : M → MS M F) (A : List M) : factors (A.map f) = A.map fun a => (f a).2.1 := by
  simp [factors, List.map_map, Function.comp_def]

theorem members_map (f : M → MS M F) (A : List M) : members (A.map f) = A.map fun a => (f a).1 := by
  simp [members, List.map_map, Function.comp_def]

theorem members_init (ops : Ops M F α) (A : List M) : members (A.map (initMember ops)) = A := by
  simp [members, List.map_map, Function.comp_def, initMember]

end anyinfo

end LinOp.C16

namespace LinOp.C16
variable {M F α : Type}

/-- the jitter / number of tries actually used: argument, else the settings value -/
def effJitter (env : Env α) (args : Args α) : α := args.jitter.getD env.settingsJitter
def effMaxTries (env : Env α) (args : Args α) : Nat := args.maxTries.getD env.settingsMaxTries

/-- `L` or `L.mT` -/
def orient (ops : Ops M F α) (upper : Bool) : F → F := if upper then ops.transposeF else id

/-- "after try `k` some member of the batch still has `info ≠ 0`" -/
def batchFailsAfter [Zero α] [Sub α] [Mul α] [NatCast α] (ops : Ops M F α) (base : Nat) (jitter : α) (A : List M) (k : Nat) : Bool :=
  anyInfo (A.map fun a => memberAfter ops base jitter a (k + 1))

section top
variable [Ring α] (ops : Ops M F α) (c : Consts) (env : Env α) (args : Args α) (A : List M)

/-- initial loop state -/
def loopInit (ops : Ops M F α) (A : List M) : LoopSt M F α := { st := A.map (initMember ops), jprev := 0, calls := 1, warns := [] }

@[simp] theorem loopInit_calls : (loopInit ops A).calls = 1 := rfl
@[simp] theorem loopInit_warns : (loopInit ops A).warns = ([] : List α) := rfl

theorem iter_loopInit_st (base : Nat) (jitter : α) (k : Nat) :
    (iter ops base jitter (loopInit ops A) k).st = A.map fun a => memberAfter ops base jitter a k :=
  iter_st ops base jitter A (loopInit ops A) rfl rfl k

/-- The wrapper only re-orients the factors. -/
theorem wrapper_result :
    (psdSafeCholesky ops c env args A).result
      = (psdSafeCholeskyCore ops c env args A).result.map fun ls => ls.map (orient ops args.upper) := by
  unfold psdSafeCholesky
  cases h : (psdSafeCholeskyCore ops c env args A).result with
  | error e => simp [h, Except.map]
  | ok ls =>
    cases hu : args.upper <;> simp [h, hu, Except.map, orient]

theorem wrapper_calls : (psdSafeCholesky ops c env args A).calls = (psdSafeCholeskyCore ops c env args A).calls := by
  unfold psdSafeCholesky
  cases h : (psdSafeCholeskyCore ops c env args A).result <;> simp only [h] <;> split <;> rfl

theorem wrapper_warns : (psdSafeCholesky ops c env args A).warns = (psdSafeCholeskyCore ops c env args A).warns := by
  unfold psdSafeCholesky
  cases h : (psdSafeCholeskyCore ops c env args A).result <;> simp only [h] <;> split <;> rfl

theorem wrapper_work : (psdSafeCholesky ops c env args A).work = (psdSafeCholeskyCore ops c env args A).work := by
  unfold psdSafeCholesky
  cases h : (psdSafeCholeskyCore ops c env args A).result <;> simp only [h] <;> split <;> rfl

theorem wrapper_input : (psdSafeCholesky ops c env args A).input = (psdSafeCholeskyCore ops c env args A).input := by
  unfold psdSafeCholesky
  cases h : (psdSafeCholeskyCore ops c env args A).result <;> simp only [h] <;> split <;> rfl

/-- The part of the function after the NaN screen, as a function of the loop result. -/
theorem core_of_loop (ht : env.traceMode = false) (hany : anyInfo (A.map (initMember ops)) = true)
    (hnan : A.any ops.hasNan = false) :
    psdSafeCholeskyCore ops c env args A =
      (let r := tryLoop ops c.base (effJitter env args) (effMaxTries env args) 0 (iter ops c.base (effJitter env args) (loopInit ops A) 0)
       let s := r.2.2
       let work := members s.st
       let input := if c.clones then A else work
       let ob := fun (fs : List F) => if args.out then some fs else none
       if r.1 then
         { result := .ok (factors s.st), calls := s.calls, warns := s.warns, work := work, input := input, outBuf := ob (factors s.st) }
       else
         { result := .error (if r.2.1 = 0 && !c.jitterNewBound then .unboundLocalError else .notPSDError),
           calls := s.calls, warns := s.warns, work := work, input := input, outBuf := ob (factors s.st) }) := by
  unfold psdSafeCholeskyCore
  simp only [ht, hany, hnan, Bool.not_true, Bool.or_self, Bool.false_eq_true, if_false]
  rfl

end top
end LinOp.C16
