/-
C16 — STATE semantics of the statement skeleton of `_psd_safe_cholesky` (extension session 5).

`Skeleton.lean` pins the skeleton (list of `(depth, role)` emitted by the `ast` translator) and gives it a control-flow
semantics (`roleTrace`).  This file gives every role a meaning as a transformer of the interpreter state `SkSt`
(the Python locals `L, info` / `Aprime` / `isnan` / `jitter` / `max_tries` / `jitter_prev` / `jitter_new` / `diag_add` / `i`, the
caller's tensor, the call counter and the warning log) and runs ANY parsed skeleton (`runSkeleton`): statements are executed in
the order in which they occur in the list, whatever that order is.  `ProofsSkSem.lean` proves that running the pinned skeleton
`expectedCore b` yields exactly `psdSafeCholeskyCore` (all batches, all `cholesky_ex`, all `max_tries`), and that the same
skeleton without the `clone` statement yields the model with `clones := false`.  Core Lean only (used by the driver).

Aliasing: the name `Aprime` refers to the tensor whose members are `loop.st.map (·.1)`.  Before the `clone` statement that tensor IS
the caller's `A` (`saved = none`), so a write lands in `A`; `clone` freezes the caller's content (`saved := some …`).
Statements that read an unbound local (`L`/`info` before the first `cholesky_ex`, `jitter`/`max_tries` still `None`, `jitter_new`
in the schedule difference) or that the interpreter does not support (a second `clone`, a second factorisation of the input) are
`stuck` — `runSkeleton` returns `none`, and the refinement theorem cannot hold for such a skeleton.
-/
import LinOp.C16.Model
import LinOp.C16.Skeleton
namespace LinOp.C16

/-- Simple (non-compound) statements, by role. -/
inductive BStmt
  | outpack | cholInput | retTraceNoinfo | nanscan | raiseNan | defJitter | defMaxTries | clone
  | init (bound : Bool) | sched | incr | write | prev | warn | cholClone | retNoinfo | raiseNotPSD
  deriving DecidableEq, Repr

inductive Stmt
  | simple (b : BStmt)
  | forRange (body : List BStmt)
  deriving DecidableEq, Repr

def parseRole (r : String) : Option BStmt :=
  if r = "outpack" then some .outpack
  else if r = "chol(input)" then some .cholInput
  else if r = "return-if(trace|noinfo)" then some .retTraceNoinfo
  else if r = "nanscan(input)" then some .nanscan
  else if r = "raise-if(nan):NanError" then some .raiseNan
  else if r = "default(jitter)" then some .defJitter
  else if r = "default(max_tries)" then some .defMaxTries
  else if r = "clone" then some .clone
  else if r = "init(jitter_new,jitter_prev=0)" then some (.init true)
  else if r = "init(jitter_prev=0)" then some (.init false)
  else if r = "sched" then some .sched
  else if r = "incr(masked)" then some .incr
  else if r = "write(clone.diagonal)" then some .write
  else if r = "prev" then some .prev
  else if r = "warn:NumericalWarning" then some .warn
  else if r = "chol(clone)" then some .cholClone
  else if r = "return-if(noinfo)" then some .retNoinfo
  else if r = "raise:NotPSDError" then some .raiseNotPSD
  else none

def parseRoles : List String → Option (List BStmt)
  | [] => some []
  | r :: rs => match parseRole r, parseRoles rs with
    | some b, some bs => some (b :: bs)
    | _, _ => none

/-- A skeleton with at most one `for(range(max_tries))` loop at depth 0, body at depth 1, everything else at depth 0. -/
def parseSk (sk : List (Nat × String)) : Option (List Stmt) :=
  let isFor := fun (e : Nat × String) => e.2 = "for(range(max_tries))"
  let pre := sk.takeWhile fun e => !isFor e
  let rest := sk.dropWhile fun e => !isFor e
  let body := (rest.drop 1).takeWhile fun e => e.1 > 0
  let post := (rest.drop 1).dropWhile fun e => e.1 > 0
  if pre.all (fun e => e.1 = 0) && body.all (fun e => e.1 = 1) && post.all (fun e => e.1 = 0) && (rest.take 1).all (fun e => e.1 = 0) then
    match parseRoles (pre.map (·.2)), parseRoles (body.map (·.2)), parseRoles (post.map (·.2)) with
    | some p, some b, some q =>
      some (p.map .simple ++ (if rest.isEmpty then [] else [.forRange b]) ++ q.map .simple)
    | _, _, _ => none
  else none

/-- Interpreter state. -/
structure SkSt (M F α : Type) where
  /-- members of the tensor named `Aprime` (= the caller's `A` until `clone`) with the `L`, `info` of the last call on them;
  `jitter_prev`; number of `cholesky_ex` calls; warning log -/
  loop : LoopSt M F α
  /-- `L, info` are bound (some `cholesky_ex` ran) -/
  started : Bool := false
  /-- content of the caller's tensor frozen by `clone`; `none` = `Aprime` still aliases `A` -/
  saved : Option (List M) := none
  nan : Bool := false
  jitter : Option α
  maxTries : Option Nat
  jnew : Option α := none
  diagAdd : List α := []
  i : Nat := 0

inductive Ctl (σ : Type)
  | next (s : σ)
  | ret (s : σ)
  | raise (e : Err) (s : σ)
  | stuck

section
variable {M F α : Type} [Zero α] [Sub α] [Mul α] [NatCast α]

/-- content of the caller's tensor `A` now -/
def SkSt.inputNow (A : List M) (s : SkSt M F α) : List M :=
  match s.saved with
  | some a => a
  | none => if s.started then members s.loop.st else A

def execB (ops : Ops M F α) (base : Nat) (env : Env α) (A : List M) : BStmt → SkSt M F α → Ctl (SkSt M F α)
  | .outpack, s => .next s
  | .cholInput, s =>
    if s.started then .stuck
    else .next { s with started := true, loop := { s.loop with st := A.map (initMember ops), calls := s.loop.calls + 1 } }
  | .retTraceNoinfo, s => if !s.started then .stuck else if env.traceMode || !anyInfo s.loop.st then .ret s else .next s
  | .nanscan, s => .next { s with nan := (s.inputNow A).any ops.hasNan }
  | .raiseNan, s => if s.nan then .raise .nanError s else .next s
  | .defJitter, s => .next { s with jitter := some (s.jitter.getD env.settingsJitter) }
  | .defMaxTries, s => .next { s with maxTries := some (s.maxTries.getD env.settingsMaxTries) }
  | .clone, s => if s.saved.isSome then .stuck else .next { s with saved := some (s.inputNow A) }
  | .init bound, s => .next { s with jnew := if bound then some 0 else none, loop := { s.loop with jprev := 0 } }
  | .sched, s =>
    match s.jitter with
    | none => .stuck
    | some j => .next { s with jnew := some (jitterAt base j s.i) }
  | .incr, s =>
    match s.jnew with
    | none => .stuck
    | some jn => if !s.started then .stuck else
      .next { s with diagAdd := s.loop.st.map fun m => maskMul (decide (m.2.2 > 0)) (jn - s.loop.jprev) }
  | .write, s =>
    if !s.started then .stuck else
    .next { s with loop := { s.loop with st := List.zipWith (fun m d => (ops.addDiag m.1 d, m.2.1, m.2.2)) s.loop.st s.diagAdd } }
  | .prev, s =>
    match s.jnew with
    | none => .stuck
    | some jn => .next { s with loop := { s.loop with jprev := jn } }
  | .warn, s =>
    match s.jnew with
    | none => .stuck
    | some jn => .next { s with loop := { s.loop with warns := s.loop.warns ++ [jn] } }
  | .cholClone, s =>
    if !s.started then .stuck else
    .next { s with loop := { s.loop with st := s.loop.st.map (fun m => ((m.1, (ops.cholEx m.1).1, (ops.cholEx m.1).2) : MS M F)),
                                          calls := s.loop.calls + 1 } }
  | .retNoinfo, s => if !s.started then .stuck else if anyInfo s.loop.st then .next s else .ret s
  | .raiseNotPSD, s => .raise (if s.jnew.isSome then .notPSDError else .unboundLocalError) s

def execSeq (ops : Ops M F α) (base : Nat) (env : Env α) (A : List M) : List BStmt → SkSt M F α → Ctl (SkSt M F α)
  | [], s => .next s
  | b :: bs, s =>
    match execB ops base env A b s with
    | .next s' => execSeq ops base env A bs s'
    | c => c

/-- `for i in range(max_tries): body` — `rem` iterations left, loop variable `i`. -/
def execFor (ops : Ops M F α) (base : Nat) (env : Env α) (A : List M) (body : List BStmt) :
    (rem i : Nat) → SkSt M F α → Ctl (SkSt M F α)
  | 0, _, s => .next s
  | rem + 1, i, s =>
    match execSeq ops base env A body { s with i := i } with
    | .next s' => execFor ops base env A body rem (i + 1) s'
    | c => c

def execTop (ops : Ops M F α) (base : Nat) (env : Env α) (A : List M) : List Stmt → SkSt M F α → Ctl (SkSt M F α)
  | [], s => .next s
  | .simple b :: r, s =>
    match execB ops base env A b s with
    | .next s' => execTop ops base env A r s'
    | c => c
  | .forRange body :: r, s =>
    match s.maxTries with
    | none => .stuck
    | some n =>
      match execFor ops base env A body n 0 s with
      | .next s' => execTop ops base env A r s'
      | c => c

def SkSt.outcome (A : List M) (args : Args α) (res : Except Err (List F)) (s : SkSt M F α) : Outcome M F α :=
  { result := res, calls := s.loop.calls, warns := s.loop.warns,
    work := if s.started then members s.loop.st else A, input := s.inputNow A,
    outBuf := if args.out then some (factors s.loop.st) else none }

def initSk (args : Args α) : SkSt M F α :=
  { loop := { st := [], jprev := 0, calls := 0, warns := [] }, jitter := args.jitter, maxTries := args.maxTries }

/-- Run a parsed program; falling off the end (Python would return `None`) and `stuck` give `none`. -/
def runProg (ops : Ops M F α) (base : Nat) (env : Env α) (args : Args α) (A : List M) (p : List Stmt) : Option (Outcome M F α) :=
  match execTop ops base env A p (initSk args) with
  | .ret s => if s.started then some (s.outcome A args (.ok (factors s.loop.st))) else none
  | .raise e s => some (s.outcome A args (.error e))
  | _ => none

/-- **State semantics of a skeleton** as emitted by the translator. -/
def runSkeleton (ops : Ops M F α) (base : Nat) (env : Env α) (args : Args α) (A : List M) (sk : List (Nat × String)) :
    Option (Outcome M F α) :=
  match parseSk sk with
  | some p => runProg ops base env args A p
  | none => none

/-- The program of the pinned skeleton. -/
def expectedProg (bound clone : Bool) : List Stmt :=
  [.simple .outpack, .simple .cholInput, .simple .retTraceNoinfo, .simple .nanscan, .simple .raiseNan, .simple .defJitter,
   .simple .defMaxTries] ++ (if clone then [.simple .clone] else []) ++
  [.simple (.init bound), .forRange [.sched, .incr, .write, .prev, .warn, .cholClone, .retNoinfo], .simple .raiseNotPSD]

/-- the pinned skeleton with the `clone` statement removed (used for the sensitivity theorem) -/
def expectedCoreNoClone (bound : Bool) : List (Nat × String) := (expectedCore bound).filter fun e => e.2 != "clone"

end
/-! ### The public wrapper `psd_safe_cholesky`: state semantics of its skeleton (nested `if`/`else` by depth)

    L = _psd_safe_cholesky(A, out=out, jitter=jitter, max_tries=max_tries)     core-call(forward-all)
    if upper:                                                                  if(upper)
        if out is not None: out = out.transpose_(-1, -2)                       if(out) / transpose-out-inplace   (`L` IS `out`)
        else: L = L.mT                                                         else / transpose-result
    return L                                                                   return-result

A statement at depth `d` under an `if` at depth `d-1` whose condition was false is skipped (`skip`); `else` at depth `d` runs iff the
last `if` recorded at depth `d` was false.  The core call is a parameter (`core`): its outcome, e.g. `runSkeleton … coreSkeleton`. -/

structure WSt (M F α : Type) where
  o : Option (Outcome M F α) := none
  L : List F := []
  skip : Option Nat := none
  conds : List (Nat × Bool) := []
  done : Option (Except Err (List F)) := none

section
variable {M F α : Type}

def wstep (ops : Ops M F α) (args : Args α) (core : Outcome M F α) (s : WSt M F α) (e : Nat × String) : Option (WSt M F α) :=
  if s.done.isSome then some s
  else if (match s.skip with | some d0 => decide (e.1 > d0) | none => false) then some s
  else
    let s := { s with skip := none }
    if e.2 = "core-call(forward-all)" then
      match core.result with
      | .ok ls => some { s with o := some core, L := ls }
      | .error err => some { s with o := some core, done := some (.error err) }
    else if e.2 = "if(upper)" then
      some { s with conds := (e.1, args.upper) :: s.conds, skip := if args.upper then none else some e.1 }
    else if e.2 = "if(out)" then
      some { s with conds := (e.1, args.out) :: s.conds, skip := if args.out then none else some e.1 }
    else if e.2 = "else" then
      match s.conds.find? (fun c => c.1 == e.1) with
      | some c => some { s with skip := if c.2 then some e.1 else none }
      | none => none
    else if e.2 = "transpose-out-inplace" then
      match s.o with
      | some o =>
        -- `None.transpose_` would raise AttributeError: stuck.  With `out=` given, `L` is the very tensor `out`.
        if args.out then some { s with o := some { o with outBuf := o.outBuf.map (·.map ops.transposeF) }, L := s.L.map ops.transposeF }
        else none
      | none => none
    else if e.2 = "transpose-result" then
      match s.o with
      | some _ => some { s with L := s.L.map ops.transposeF }
      | none => none
    else if e.2 = "return-result" then
      match s.o with
      | some _ => some { s with done := some (.ok s.L) }
      | none => none
    else none

def wrun (ops : Ops M F α) (args : Args α) (core : Outcome M F α) : List (Nat × String) → WSt M F α → Option (WSt M F α)
  | [], s => some s
  | e :: es, s => match wstep ops args core s e with
    | some s' => wrun ops args core es s'
    | none => none

/-- **State semantics of the wrapper skeleton**, given the outcome of the core call. -/
def runWrapperSk (ops : Ops M F α) (args : Args α) (sk : List (Nat × String)) (core : Outcome M F α) : Option (Outcome M F α) :=
  match wrun ops args core sk {} with
  | some s => match s.done, s.o with
    | some r, some o => some { o with result := r }
    | _, _ => none
  | none => none

end

end LinOp.C16
