import LinOp.C05.ProofsGauss
import LinOp.Properties.C09
/-!
C05 — the Gauss-quadrature exactness of the SLQ nodes/weights instantiated with C09's verified `lanczos_tridiag`:
the Lanczos relations (`QᵀQ = 1`, `QᵀAQ = T`, `AQ − QT = r e_kᵀ`, `T` tridiagonal) are no longer hypotheses but the
conclusions of `LinOp.C09.lanczos_ok` / `LinOp.C09.Props.matrix_identities_of_done` (imported).
-/
namespace LinOp.C05
open Matrix LinOp.C09 LinOp.C09.Props

/-- `gauss_node_exact` for a Krylov dimension given as a positive number `c` (index `⟨0, hc⟩` instead of `0 : Fin (k+1)`),
with the weights written out: `Σⱼ V[0,j]² θⱼ^d = uᵀ A^d u`, `u = Q e₁`, for every `d ≤ 2c − 1`. -/
theorem gauss_node_exact_count {R : Type} [CommRing R] {n c : Nat} (hc : 0 < c) (A : Matrix (Fin n) (Fin n) R)
    (Q : Matrix (Fin n) (Fin c) R) (V : Matrix (Fin c) (Fin c) R) (θ : Fin c → R)
    (hA : Aᵀ = A) (hQ : Qᵀ * Q = 1) (hP : Qᵀ * A * Q = V * Matrix.diagonal θ * Vᵀ)
    (hV : Vᵀ * V = 1) (hV' : V * Vᵀ = 1)
    (hT : ∀ i j : Fin c, j.1 + 1 < i.1 → (V * Matrix.diagonal θ * Vᵀ) i j = 0)
    (hres : ∀ (i : Fin n) (j : Fin c), j.1 + 1 < c → (A * Q) i j = (Q * (V * Matrix.diagonal θ * Vᵀ)) i j)
    (d : Nat) (hd : d + 1 ≤ 2 * c) :
    ∑ j, V ⟨0, hc⟩ j * V ⟨0, hc⟩ j * θ j ^ d
      = Q.mulVec (Pi.single ⟨0, hc⟩ 1) ⬝ᵥ (A ^ d).mulVec (Q.mulVec (Pi.single ⟨0, hc⟩ 1)) := by
  obtain ⟨k, rfl⟩ : ∃ k, c = k + 1 := ⟨c - 1, by omega⟩
  have h := gauss_node_exact A Q V θ hA hQ hP hV hV' hT (fun i j hj => hres i j (by omega)) d (by omega)
  have h0 : (⟨0, hc⟩ : Fin (k + 1)) = 0 := rfl
  rw [h0, ← h, Matrix.mul_apply]
  simp only [Matrix.mul_diagonal, Matrix.transpose_apply]
  refine Finset.sum_congr rfl fun j _ => ?_
  ring

variable {K : Type} [Field K] [LinearOrder K] [IsStrictOrderedRing K] {n : Nat} {ops : NumOps K} {p : Params K}

/-- **SLQ nodes/weights from `lanczos_tridiag` itself are the Gauss rule** (no Lanczos relation assumed): for every
symmetric `A`, size, budget `≥ 1` and non-zero start vector the call of the verified model `lanczosTridiag` succeeds with
`count ≥ 1` and — unless a returned off-diagonal entry is zero — for ANY orthogonal eigendecomposition `T = V diag θ Vᵀ` of
the returned tridiagonal matrix (the `eigh` primitive) the weights `V[0,j]²` and nodes `θⱼ` satisfy
`Σⱼ V[0,j]² θⱼ^d = uᵀ A^d u` with `u = Q e₁` the normalised start vector, for every degree `d ≤ 2·count − 1`. -/
theorem slq_gauss_of_lanczosTridiag (hs : SqrtLaw ops) {A : Matrix (Fin n) (Fin n) K} (hA : Aᵀ = A)
    (maxIter : Nat) (v : Vec K n) (hv : fn v ⬝ᵥ fn v ≠ 0) (hg : p.guardsSingle = true) (h1 : 1 ≤ min maxIter n) :
    ∃ o, lanczosTridiag ops p (amulOf A) maxIter v = .ok o ∧ o.count ≤ min maxIter n ∧ ∃ hc : 0 < o.count,
      (BetaOK (o.count - 1) o.st →
        ∀ (V : Matrix (Fin o.count) (Fin o.count) K) (θ : Fin o.count → K), Vᵀ * V = 1 → V * Vᵀ = 1 →
          Matrix.of o.T = V * Matrix.diagonal θ * Vᵀ → ∀ d, d + 1 ≤ 2 * o.count →
          ∑ j, V ⟨0, hc⟩ j * V ⟨0, hc⟩ j * θ j ^ d
            = (Matrix.of o.Q).mulVec (Pi.single ⟨0, hc⟩ 1) ⬝ᵥ
                (A ^ d).mulVec ((Matrix.of o.Q).mulVec (Pi.single ⟨0, hc⟩ 1))) := by
  obtain ⟨o, ho, h1', h3, hT, hd⟩ := lanczos_ok (p := p) hs (selfAdj_amulOf hA) hg maxIter v hv h1
  refine ⟨o, ho, h3, h1', fun hb V θ hV hV' hE d hdd => ?_⟩
  obtain ⟨hQ, hP, hres, -⟩ := matrix_identities_of_done hA o h1' hT (hd hb)
  refine gauss_node_exact_count h1' A (Matrix.of o.Q) V θ hA hQ (hP.trans hE) hV hV' ?_ ?_ d hdd
  · intro i j hij
    rw [← hE]
    exact hT.tri i.1 j.1 (Or.inr hij)
  · intro i j hj
    rw [← hE]
    have := congrFun (congrFun hres i) j
    simp only [Matrix.sub_apply, residualMat] at this
    rw [if_neg (by omega)] at this
    exact sub_eq_zero.mp this

end LinOp.C05
