import LinOp.C05.Model
/-!
C05 — lemmas about the output-shape model `shapes` (core Lean only).
-/
namespace LinOp.C05

theorem numel_append_single (b : List Nat) (m : Nat) : numel (b ++ [m]) = numel b * m := by
  induction b with
  | nil => simp [numel]
  | cons a t ih =>
    have h1 : numel (a :: t ++ [m]) = a * numel (t ++ [m]) := rfl
    have h2 : numel (a :: t) = a * numel t := rfl
    rw [h1, h2, ih, Nat.mul_assoc]

theorem numel_nil : numel [] = 1 := rfl
theorem numel_cons (a : Nat) (t : List Nat) : numel (a :: t) = a * numel t := rfl
theorem numel_append (a b : List Nat) : numel (a ++ b) = numel a * numel b := by
  induction a with
  | nil => simp [numel_nil]
  | cons x t ih => rw [List.cons_append, numel_cons, numel_cons, ih, Nat.mul_assoc]

theorem numel_pos (b : List Nat) (h : ∀ d ∈ b, 0 < d) : 0 < numel b := by
  induction b with
  | nil => simp [numel]
  | cons a t ih =>
    have h2 : numel (a :: t) = a * numel t := rfl
    rw [h2]
    exact Nat.mul_pos (h a (by simp)) (ih fun d hd => h d (by simp [hd]))

theorem pos_append_single (b : List Nat) (k : Nat) (h : ∀ d ∈ b, 0 < d) (hk : 0 < k) : ∀ d ∈ b ++ [k], 0 < d := by
  intro d hd
  rcases List.mem_append.mp hd with h1 | h1
  · exact h d h1
  · simp at h1; omega

theorem redIf_mat (b : List Nat) (m : Nat) (red : Bool) (h : ∀ d ∈ b, 0 < d) (hm : 0 < m) :
    redIf (b ++ [m]) red = if red then b else b ++ [m] := by
  have hp : numel (b ++ [m]) ≠ 0 := by
    rw [numel_append_single]; exact Nat.ne_of_gt (Nat.mul_pos (numel_pos b h) hm)
  cases red <;> simp [redIf, hp]

/-- Code paths for which the documented shapes are proved: every leaf path (Cholesky / base-class shortcut,
triangular, diagonal, identity, closed forms, the stochastic base path), Kronecker(-added-diag) over either
base path, and Block operators nested to any depth over all of those.  (BatchRepeat and the KPADLO fallback are
modelled and compared with the implementation, without a general theorem.) -/
inductive Good : Path → Prop
  | chol : Good .chol
  | tri : Good .tri
  | diag : Good .diag
  | identity : Good .identity
  | closed : Good .closed
  | slq : Good .slq
  | kronChol : Good (.kron .chol)
  | kronSlq : Good (.kron .slq)
  | block (p : Path) (k : Nat) : Good p → 0 < k → Good (.block p k)
  | cat (p : Path) : Good p → Good (.cat p)

theorem Term.to_eq (t : Term) : t.to = t := by cases t <;> rfl

/-- `CatLinearOperator`'s post-processing changes nothing unless the base call raised. -/
theorem catPost_eq (x : Term × Term) (h1 : x.1 ≠ .err) (h2 : x.2 ≠ .err) : catPost x = x := by
  rcases x with ⟨a, b⟩
  cases a <;> cases b <;> simp_all [catPost, Term.to]

theorem good_shapes (p : Path) (hg : Good p) :
    ∀ (batch : List Nat) (m : Nat) (lg red : Bool), (∀ d ∈ batch, 0 < d) → 0 < m →
      (shapes p batch (.mat m) lg red).1 = .shape (if red then batch else batch ++ [m]) ∧
      (lg = true → (shapes p batch (.mat m) lg red).2 = .shape batch) ∧
      (shapes p batch (.mat m) lg red).2 ≠ .err ∧
      (shapes p batch .absent true red).1 ≠ .err ∧
      (shapes p batch .absent true red).2 = .shape batch := by
  induction hg with
  | chol | closed | tri =>
    intro batch m lg red hb hm
    simp only [shapes, redIf_mat batch m red hb hm]
    cases lg <;> simp
  | diag | identity =>
    intro batch m lg red hb hm
    simp only [shapes]
    cases lg <;> simp
  | slq =>
    intro batch m lg red hb hm
    cases lg <;> cases red <;> simp [shapes, redIf_mat batch m _ hb hm]
  | kronChol | kronSlq =>
    intro batch m lg red hb hm
    simp only [shapes, redIf_mat batch m red hb hm]
    cases lg <;> cases red <;> simp
  | cat p _ ih =>
    intro batch m lg red hb hm
    obtain ⟨h1, h2, h3, h4, h5⟩ := ih batch m lg red hb hm
    have hmat : shapes (.cat p) batch (.mat m) lg red = catPost (shapes p batch (.mat m) lg red) := rfl
    have habs : shapes (.cat p) batch .absent true red = catPost (shapes p batch .absent true red) := rfl
    rw [hmat, habs, catPost_eq _ (by rw [h1]; simp) h3, catPost_eq _ h4 (by rw [h5]; simp)]
    exact ⟨h1, h2, h3, h4, h5⟩
  | block p k _ hk ih =>
    intro batch m lg red hb hm
    have hbb := pos_append_single batch k hb hk
    obtain ⟨h1, h2, h3, _, _⟩ := ih (batch ++ [k]) m lg red hbb hm
    obtain ⟨_, _, _, h4, h5⟩ := ih (batch ++ [k]) m true red hbb hm
    have hN : numel batch ≠ 0 := Nat.ne_of_gt (numel_pos _ hb)
    have hk0 : k ≠ 0 := Nat.ne_of_gt hk
    have hm0 : m ≠ 0 := Nat.ne_of_gt hm
    have hmat : shapes (.block p k) batch (.mat m) lg red
        = blockPost batch k true lg red (shapes p (batch ++ [k]) (.mat m) lg red) := rfl
    have habs : shapes (.block p k) batch .absent true red
        = blockPost batch k false true red (shapes p (batch ++ [k]) .absent true red) := rfl
    -- requested inv_quad term + requested logdet
    have post_tt : blockPost batch k true true red
          (.shape (if red then batch ++ [k] else batch ++ [k] ++ [m]), .shape (batch ++ [k]))
          = (.shape (if red then batch else batch ++ [m]), .shape batch) := by
      cases red <;>
        simp [blockPost, numel_append, numel_cons, numel_nil, hN, hk0, hm0, List.getLast?_append, Nat.mul_assoc,
          Nat.mul_eq_zero]
    -- requested inv_quad term, logdet not requested: whatever the base returned is passed through
    have post_tf : ∀ ld : Term, ld ≠ .err → blockPost batch k true false red
          (.shape (if red then batch ++ [k] else batch ++ [k] ++ [m]), ld)
          = (.shape (if red then batch else batch ++ [m]), ld) := by
      intro ld hld
      cases ld <;> cases red <;>
        simp_all [blockPost, numel_append, numel_cons, numel_nil, List.getLast?_append, Nat.mul_assoc, Nat.mul_eq_zero]
    -- no rhs: the inverse quadratic placeholder is passed through
    have post_abs : ∀ iq : Term, iq ≠ .err →
        blockPost batch k false true red (iq, .shape (batch ++ [k])) = (iq, .shape batch) := by
      intro iq hiq
      cases iq <;> simp_all [blockPost, numel_append, numel_cons, numel_nil, Nat.mul_eq_zero]
    have e1 : shapes p (batch ++ [k]) (.mat m) lg red
        = (.shape (if red then batch ++ [k] else batch ++ [k] ++ [m]), (shapes p (batch ++ [k]) (.mat m) lg red).2) :=
      Prod.ext h1 rfl
    have e2 : shapes p (batch ++ [k]) .absent true red = ((shapes p (batch ++ [k]) .absent true red).1, .shape (batch ++ [k])) :=
      Prod.ext rfl h5
    rw [hmat, habs, e2, post_abs _ h4, e1]
    cases lg
    · rw [post_tf _ h3]
      exact ⟨rfl, fun h => absurd h (by decide), h3, h4, rfl⟩
    · rw [h2 rfl, post_tt]
      exact ⟨rfl, fun _ => rfl, (fun h => by cases h), h4, rfl⟩

/-- **BatchRepeat over any `Good` path** (incl. Block nests): for every base batch shape `bb`, every repeat vector `rp`
(positive entries; the operator's batch shape is `repeatShape rp bb`), every number of columns and every flag
combination the two terms have the documented shapes.  The base operator is called with `m · Π rp` columns and
`reduce_inv_quad=False`. -/
theorem rep_shapes (p : Path) (hg : Good p) (bb rp : List Nat) (m : Nat) (lg red : Bool)
    (hbb : ∀ d ∈ bb, 0 < d) (hrp : ∀ d ∈ rp, 0 < d) (hm : 0 < m) (batch : List Nat) (hbatch : batch = repeatShape rp bb) :
    (shapes (.rep p bb rp) batch (.mat m) lg red).1 = .shape (if red then batch else batch ++ [m]) ∧
    (lg = true → (shapes (.rep p bb rp) batch (.mat m) lg red).2 = .shape batch) ∧
    (shapes (.rep p bb rp) batch (.mat m) lg red).2 ≠ .err ∧
    (shapes (.rep p bb rp) batch .absent true red).1 ≠ .err ∧
    (shapes (.rep p bb rp) batch .absent true red).2 = .shape batch := by
  subst hbatch
  have hr : 0 < numel rp := numel_pos rp hrp
  have hmr : 0 < m * numel rp := Nat.mul_pos hm hr
  obtain ⟨h1, h2, h3, _, _⟩ := good_shapes p hg bb (m * numel rp) lg false hbb hmr
  obtain ⟨_, _, _, h4, h5⟩ := good_shapes p hg bb (m * numel rp) true false hbb hmr
  have hNb : numel bb ≠ 0 := Nat.ne_of_gt (numel_pos _ hbb)
  have hN1 : numel (bb ++ [m * numel rp]) ≠ 0 := by
    rw [numel_append_single]; exact Nat.ne_of_gt (Nat.mul_pos (numel_pos _ hbb) hmr)
  have hmat : shapes (.rep p bb rp) (repeatShape rp bb) (.mat m) lg red
      = repPost (repeatShape rp bb) bb rp (.mat m) lg red (shapes p bb (.mat (m * numel rp)) lg false) := rfl
  have habs : shapes (.rep p bb rp) (repeatShape rp bb) .absent true red
      = repPost (repeatShape rp bb) bb rp .absent true red (shapes p bb .absent true false) := rfl
  have e1 : shapes p bb (.mat (m * numel rp)) lg false
      = (.shape (bb ++ [m * numel rp]), (shapes p bb (.mat (m * numel rp)) lg false).2) := by
    refine Prod.ext ?_ rfl
    simpa using h1
  have e2 : shapes p bb .absent true false = ((shapes p bb .absent true false).1, .shape bb) := Prod.ext rfl h5
  have post_abs : ∀ iq : Term, iq ≠ .err →
      repPost (repeatShape rp bb) bb rp .absent true red (iq, .shape bb) = (iq, .shape (repeatShape rp bb)) := by
    intro iq hiq
    cases iq <;> simp [repPost, hNb] at hiq ⊢
  have post_mat : ∀ ld : Term, ld ≠ .err → (lg = true → ld = .shape bb) →
      repPost (repeatShape rp bb) bb rp (.mat m) lg red (.shape (bb ++ [m * numel rp]), ld)
        = (.shape (if red then (repeatShape rp bb) else (repeatShape rp bb) ++ [m]),
           if lg then .shape (repeatShape rp bb) else ld) := by
    intro ld hld hl
    cases lg
    · cases ld <;> simp [repPost, hN1] at hld ⊢
    · rw [hl rfl]
      simp [repPost, hN1, hNb]
  rw [hmat, habs, e2, post_abs _ h4, e1, post_mat _ h3 h2]
  refine ⟨rfl, fun h => by simp [h], ?_, h4, rfl⟩
  cases lg
  · simpa using h3
  · simp

end LinOp.C05
