import LinOp.C05.Model
/-!
C05 — lemmas about the output-shape model `shapes` (core Lean only).
-/
namespace LinOp.C05

theorem numel_append_single (b : List Nat) (m : Nat) : numel (b ++ [m]) = numel b * m := by
  induction b with
  | nil => simp [numel]
  | cons a t ih =>
    have h1 : numel (a :: t ++ [m]) = a * numel (t ++ [m]) := rfl
    have h2 : numel (a :: t) = a * numel t := rfl
    rw [h1, h2, ih, Nat.mul_assoc]

theorem numel_nil : numel [] = 1 := rfl
theorem numel_cons (a : Nat) (t : List Nat) : numel (a :: t) = a * numel t := rfl
theorem numel_append (a b : List Nat) : numel (a ++ b) = numel a * numel b := by
  induction a with
  | nil => simp [numel_nil]
  | cons x t ih => rw [List.cons_append, numel_cons, numel_cons, ih, Nat.mul_assoc]

theorem numel_pos (b : List Nat) (h : ∀ d ∈ b, 0 < d) : 0 < numel b := by
  induction b with
  | nil => simp [numel]
  | cons a t ih =>
    have h2 : numel (a :: t) = a * numel t := rfl
    rw [h2]
    exact Nat.mul_pos (h a (by simp)) (ih fun d hd => h d (by simp [hd]))

theorem pos_append_single (b : List Nat) (k : Nat) (h : ∀ d ∈ b, 0 < d) (hk : 0 < k) : ∀ d ∈ b ++ [k], 0 < d := by
  intro d hd
  rcases List.mem_append.mp hd with h1 | h1
  · exact h d h1
  · simp at h1; omega

theorem redIf_mat (b : List Nat) (m : Nat) (red : Bool) (h : ∀ d ∈ b, 0 < d) (hm : 0 < m) :
    redIf (b ++ [m]) red = if red then b else b ++ [m] := by
  have hp : numel (b ++ [m]) ≠ 0 := by
    rw [numel_append_single]; exact Nat.ne_of_gt (Nat.mul_pos (numel_pos b h) hm)
  cases red <;> simp [redIf, hp]

/-- Code paths for which the documented shapes are proved: everything except the stochastic base path
nested inside a block / repeat wrapper (known defect), triangular operators with a batch (known defect),
the fallback / D12 Kronecker-added-diagonal paths and BatchRepeat (stated separately). -/
inductive Good : Path → Prop
  | chol : Good .chol
  | diag : Good .diag
  | identity : Good .identity
  | closed : Good .closed
  | kronChol : Good (.kron .chol)
  | kronSlq : Good (.kron .slq)
  | block (p : Path) (k : Nat) : Good p → 0 < k → Good (.block p k)

def Term.placeholder (t : Term) : Prop := t = .none ∨ t = .empty

theorem good_shapes (p : Path) (hg : Good p) :
    ∀ (batch : List Nat) (m : Nat) (lg red : Bool), (∀ d ∈ batch, 0 < d) → 0 < m →
      (shapes p batch (.mat m) lg red).1 = .shape (if red then batch else batch ++ [m]) ∧
      (lg = true → (shapes p batch (.mat m) lg red).2 = .shape batch) ∧
      (lg = false → ((shapes p batch (.mat m) lg red).2).placeholder) ∧
      ((shapes p batch .absent true red).1).placeholder ∧
      (shapes p batch .absent true red).2 = .shape batch := by
  induction hg with
  | chol | closed =>
    intro batch m lg red hb hm
    simp only [shapes, redIf_mat batch m red hb hm, Term.placeholder]
    cases lg <;> simp
  | diag | identity =>
    intro batch m lg red hb hm
    simp only [shapes, Term.placeholder]
    cases lg <;> simp
  | kronChol | kronSlq =>
    intro batch m lg red hb hm
    simp only [shapes, redIf_mat batch m red hb hm, Term.placeholder]
    cases lg <;> cases red <;> simp
  | block p k _ hk ih =>
    intro batch m lg red hb hm
    have hbb := pos_append_single batch k hb hk
    obtain ⟨h1, h2, h3, _, _⟩ := ih (batch ++ [k]) m lg red hbb hm
    obtain ⟨_, _, _, h4, h5⟩ := ih (batch ++ [k]) m true red hbb hm
    have hnb : numel (batch ++ [k]) ≠ 0 := Nat.ne_of_gt (numel_pos _ hbb)
    have hnm : numel (batch ++ [k] ++ [m]) ≠ 0 := by
      rw [numel_append_single]; exact Nat.ne_of_gt (Nat.mul_pos (numel_pos _ hbb) hm)
    have hbk : batch ++ [k] ≠ [] := by simp
    -- the block override on a matrix rhs
    have hmat : shapes (.block p k) batch (.mat m) lg red
        = blockPost batch k red (shapes p (batch ++ [k]) (.mat m) lg red) := rfl
    have habs : shapes (.block p k) batch .absent true red
        = blockPost batch k red (shapes p (batch ++ [k]) .absent true red) := rfl
    have post_live : ∀ (ld : Term), (ld = .shape (batch ++ [k]) ∨ ld.placeholder) →
        blockPost batch k red (.shape (if red then batch ++ [k] else batch ++ [k] ++ [m]), ld)
          = (.shape (if red then batch else batch ++ [m]),
             if ld = .shape (batch ++ [k]) then .shape batch else ld) := by
      intro ld hld
      have hN : numel batch ≠ 0 := Nat.ne_of_gt (numel_pos _ hb)
      have hk0 : k ≠ 0 := Nat.ne_of_gt hk
      have hm0 : m ≠ 0 := Nat.ne_of_gt hm
      rcases hld with hld | hld | hld <;> subst hld <;> cases red <;>
        simp [blockPost, numel_append, numel_cons, numel_nil, hN, hk0, hm0, List.getLast?_append, Nat.mul_assoc,
          Nat.mul_eq_zero]
    have post_abs : ∀ (iq : Term), iq.placeholder →
        blockPost batch k red (iq, .shape (batch ++ [k])) = (iq, .shape batch) := by
      intro iq hiq
      have hN : numel batch ≠ 0 := Nat.ne_of_gt (numel_pos _ hb)
      have hk0 : k ≠ 0 := Nat.ne_of_gt hk
      rcases hiq with hiq | hiq <;> subst hiq <;>
        simp [blockPost, numel_append, numel_cons, numel_nil, hN, hk0, Nat.mul_eq_zero]
    have e1 : shapes p (batch ++ [k]) (.mat m) lg red
        = (.shape (if red then batch ++ [k] else batch ++ [k] ++ [m]), (shapes p (batch ++ [k]) (.mat m) lg red).2) :=
      Prod.ext h1 rfl
    have hld : (shapes p (batch ++ [k]) (.mat m) lg red).2 = .shape (batch ++ [k]) ∨
        ((shapes p (batch ++ [k]) (.mat m) lg red).2).placeholder := by
      cases lg
      · exact Or.inr (h3 rfl)
      · exact Or.inl (h2 rfl)
    rw [hmat, habs, e1, post_live _ hld]
    have e2 : shapes p (batch ++ [k]) .absent true red = ((shapes p (batch ++ [k]) .absent true red).1, .shape (batch ++ [k])) :=
      Prod.ext rfl h5
    rw [e2, post_abs _ h4]
    refine ⟨rfl, ?_, ?_, h4, rfl⟩
    · intro hl; simp [h2 hl]
    · intro hl
      rcases h3 hl with h | h <;> simp [h, Term.placeholder]

end LinOp.C05
