import LinOp.C05.Model
/-!
C05 — batch-broadcast right-hand sides (core Lean only).

`inv_quad_rhs` whose batch shape `rb` differs from the operator's `batch`:
* `LinearOperator.inv_quad` (`_matmul_broadcast_shape` + `expand`): the result's batch is the torch broadcast of the two
  batch shapes, for ANY numbers of batch dimensions → `invQuadEntry`;
* `LinearOperator.inv_quad_logdet`, stochastic branch (`logdet=True`): explicit checks `self.dim() != rhs.dim()` and
  `self.batch_shape != rhs.shape[:-2]` → raises unless `rb = batch`; with `logdet=False` it returns
  `self.inv_quad(...)` and `torch.zeros([])`;
* Cholesky shortcut (`CholLinearOperator.inv_quad_logdet` → `inv_quad`): same number of dimensions required, batch
  dimensions broadcast by the triangular solve; the log-determinant keeps the operator's batch shape;
* `DiagLinearOperator` / `IdentityLinearOperator.inv_quad_logdet`: `_matmul_broadcast_shape` check, then an elementwise
  formula; modelled with the contract of the base class (same number of dimensions, batch dimensions broadcast —
  notes/C05_fix_9.diff; the unpatched Identity returns the rhs's own batch shape and both accept a different
  number of dimensions with a wrong reduction axis).
-/
namespace LinOp.C05

/-- torch broadcasting of two shapes given in REVERSED order (trailing dimension first). -/
def bcastRev : List Nat → List Nat → Option (List Nat)
  | [], l => some l
  | a :: as, [] => some (a :: as)
  | a :: as, b :: bs =>
    match bcastRev as bs with
    | none => none
    | some r =>
      if a = b then some (a :: r) else if a = 1 then some (b :: r) else if b = 1 then some (a :: r) else none

/-- `torch.broadcast_shapes(a, b)` (right-aligned); `none` = not broadcastable. -/
def bcast (a b : List Nat) : Option (List Nat) := (bcastRev a.reverse b.reverse).map List.reverse

/-- `LinearOperator.inv_quad(rhs, reduce_inv_quad)` for a matrix rhs with batch shape `rb` and `m` columns. -/
def invQuadEntry (batch rb : List Nat) (m : Nat) (reduce : Bool) : Term :=
  match bcast batch rb with
  | some bb => .shape (if reduce then bb else bb ++ [m])
  | none => .err

/-- leaf code paths for which the broadcast behaviour is modelled -/
inductive BLeaf where
  | chol | diag | identity | slq
  deriving DecidableEq, Repr

def BLeaf.path : BLeaf → Path
  | .chol => .chol
  | .diag => .diag
  | .identity => .identity
  | .slq => .slq

/-- both terms of `inv_quad_logdet(rhs, logdet, reduce_inv_quad)` for a matrix rhs of batch shape `rb`. -/
def shapesB (p : BLeaf) (batch rb : List Nat) (m : Nat) (logdet reduce : Bool) : Term × Term :=
  match p with
  | .slq =>
    if logdet then (if rb = batch then shapes .slq batch (.mat m) true reduce else bothErr)
    else match invQuadEntry batch rb m reduce with
      | .err => bothErr
      | t => (t, .shape [])
  | .chol =>
    if rb.length = batch.length then
      match bcast batch rb with
      | some bb => (.shape (redIf (bb ++ [m]) reduce), if logdet then .shape batch else .none)
      | none => bothErr
    else bothErr
  | .diag | .identity =>
    if rb.length = batch.length then
      match bcast batch rb with
      | some bb => (.shape (if reduce then bb else bb ++ [m]), if logdet then .shape batch else .empty)
      | none => bothErr
    else bothErr

theorem bcastRev_self (l : List Nat) : bcastRev l l = some l := by
  induction l with
  | nil => rfl
  | cons a t ih => simp [bcastRev, ih]

theorem bcast_self (b : List Nat) : bcast b b = some b := by
  simp [bcast, bcastRev_self]

theorem bcastRev_comm (a b : List Nat) : bcastRev a b = bcastRev b a := by
  induction a generalizing b with
  | nil => cases b <;> rfl
  | cons x xs ih =>
    cases b with
    | nil => rfl
    | cons y ys =>
      simp only [bcastRev, ih ys]
      cases bcastRev ys xs with
      | none => rfl
      | some r =>
        by_cases h : x = y
        · subst h; simp
        · have h' : ¬ y = x := fun e => h e.symm
          by_cases hx : x = 1 <;> by_cases hy : y = 1 <;> simp_all

theorem bcast_comm (a b : List Nat) : bcast a b = bcast b a := by
  simp [bcast, bcastRev_comm a.reverse b.reverse]

theorem bcastRev_ones (l : List Nat) : bcastRev l (List.replicate l.length 1) = some l := by
  induction l with
  | nil => rfl
  | cons a t ih =>
    simp only [List.length_cons, List.replicate_succ, bcastRev, ih]
    by_cases h : a = 1 <;> simp [h]

theorem bcastRev_length (a b r : List Nat) (h : bcastRev a b = some r) : r.length = max a.length b.length := by
  induction a generalizing b r with
  | nil => cases b <;> simp_all [bcastRev]
  | cons x xs ih =>
    cases b with
    | nil => simp_all [bcastRev]
    | cons y ys =>
      simp only [bcastRev] at h
      cases hr : bcastRev xs ys with
      | none => simp [hr] at h
      | some r' =>
        have := ih ys r' hr
        simp only [hr] at h
        split at h
        · cases h; simp only [List.length_cons, this]; omega
        · split at h
          · cases h; simp only [List.length_cons, this]; omega
          · split at h
            · cases h; simp only [List.length_cons, this]; omega
            · cases h

end LinOp.C05
