import LinOp.C05.ProofsKron2
import LinOp.Core.Bridge
/-!
C05 — the sequential Kronecker solve (`KroneckerProductLinearOperator._solve`) applies `⊗ᵢ Bᵢ`.
-/
namespace LinOp.C05
open Matrix LinOp
open scoped Kronecker

variable {R : Type}

/-- The mode-rotation loop computes `(⊗ᵢ Bᵢ) y` along the leading (flattened) dimension, for any list of factors,
any already-processed modes `D` and any column type. -/
theorem kronSolveRot_eq [CommSemiring R] {C : Type} : (l : List Nat) → (Bs : KMatsM R l) → {D : Type} →
    (y : KIdx l → D → C → R) → (d : D) → (idx : KIdx l) → (c : C) →
    kronSolveRot l (KMatsM.toMats l Bs) y (snocOf l d idx) c = ∑ idx' : KIdx l, kronAll l Bs idx idx' * y idx' d c
  | [], _, _, y, d, idx, c => by
    rw [sum_univ_KIdx_nil]
    show y () d c = (1 : Matrix (KIdx []) (KIdx []) R) idx () * y () d c
    have h1 : (1 : Matrix (KIdx []) (KIdx []) R) idx () = 1 := Matrix.one_apply_eq (idx : KIdx [])
    rw [h1, one_mul]
  | n :: l, (B, Bs), D, y, d, (i, idx), c => by
    show kronSolveRot l (KMatsM.toMats l Bs)
        (fun (j : KIdx l) (di : D × Fin n) c => sumFin n fun i' => B di.2 i' * y (i', j) di.1 c) (snocOf l (d, i) idx) c = _
    rw [kronSolveRot_eq l Bs _ (d, i) idx c, sum_univ_KIdx_cons]
    simp only [sumFin_eq_sum, Finset.mul_sum]
    rw [Finset.sum_comm]
    refine Finset.sum_congr rfl fun i' _ => Finset.sum_congr rfl fun j _ => ?_
    show _ = (B ⊗ₖ kronAll l Bs : Matrix (Fin n × KIdx l) (Fin n × KIdx l) R) (i, idx) (i', j) * y (i', j) d c
    rw [Matrix.kroneckerMap_apply]
    ring

theorem snocOf_surjective {D : Type} : (l : List Nat) → (s : SnocIdx D l) → ∃ d idx, snocOf l d idx = s
  | [], s => ⟨s, (), rfl⟩
  | n :: l, s => by
    obtain ⟨⟨d, i⟩, idx, h⟩ := snocOf_surjective (D := D × Fin n) l s
    exact ⟨d, (i, idx), h⟩

/-- `kronSolve = (⊗ᵢ Bᵢ) · rhs` as matrices. -/
theorem kronSolve_eq [CommSemiring R] {C : Type} (l : List Nat) (Bs : KMatsM R l) (Y : Matrix (KIdx l) C R) :
    (Matrix.of (kronSolve l (KMatsM.toMats l Bs) Y) : Matrix (KIdx l) C R) = kronAll l Bs * Y := by
  ext idx c
  simp only [Matrix.of_apply, kronSolve, Matrix.mul_apply]
  exact kronSolveRot_eq l Bs (fun j (_ : Unit) c => Y j c) () idx c

/-- inverse quadratic form from a solve, any finite index type: `A S = Y`, `A` invertible ⇒
`Σ_r S[r,j] Y[r,j] = (Yᵀ A⁻¹ Y)[j,j]`. -/
theorem invQuad_of_solve {ι κ : Type} [Fintype ι] [DecidableEq ι] [Fintype κ] (A : Matrix ι ι ℝ) (S Y : Matrix ι κ ℝ)
    (hA : IsUnit A.det) (hS : A * S = Y) (j : κ) : ∑ r, S r j * Y r j = (Yᵀ * A⁻¹ * Y) j j := by
  have hS' : S = A⁻¹ * Y := by rw [← hS, ← Matrix.mul_assoc, Matrix.nonsing_inv_mul _ hA, Matrix.one_mul]
  rw [hS', Matrix.mul_assoc, Matrix.mul_apply]
  refine Finset.sum_congr rfl fun r _ => ?_
  rw [Matrix.transpose_apply, mul_comm]

end LinOp.C05
