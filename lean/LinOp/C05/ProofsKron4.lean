import LinOp.C05.ProofsKron3
import Mathlib.Data.List.FinRange
/-!
C05 — Kronecker products with any number of factors: log-determinants (plain, + Kronecker-constant diagonal,
+ Kronecker diagonal via symmetrisation) and the inverse quadratic form through the sequential solve.
-/
namespace LinOp.C05
open Matrix LinOp
open scoped Kronecker

theorem sum_map_KIdx_all {S : Type} [AddCommMonoid S] : (l : List Nat) → (g : KIdx l → S) →
    ((KIdx.all l).map g).sum = ∑ idx : KIdx l, g idx
  | [], g => by
    rw [sum_univ_KIdx_nil]
    show g () + 0 = g ()
    exact add_zero _
  | n :: l, g => by
    rw [sum_univ_KIdx_cons]
    let g' : Fin n × KIdx l → S := g
    show (((List.finRange n).flatMap fun i => (KIdx.all l).map fun j => (i, j)).map g').sum
      = ∑ i : Fin n, ∑ j : KIdx l, g' (i, j)
    rw [sum_map_flatMap, ← List.ofFn_eq_map, List.sum_ofFn]
    refine Finset.sum_congr rfl fun i _ => ?_
    rw [List.map_map]
    exact sum_map_KIdx_all l (fun j => g' (i, j))

/-- every factor's vector is entrywise positive -/
def KVecs.Pos : (l : List Nat) → KVecs ℝ l → Prop
  | [], _ => True
  | _ :: l, (v, r) => (∀ i, 0 < v i) ∧ KVecs.Pos l r

theorem kronEig_pos : (l : List Nat) → (vs : KVecs ℝ l) → KVecs.Pos l vs → ∀ idx, 0 < kronEig l vs idx
  | [], _, _, _ => by simp [kronEig]
  | _ :: l, (v, r), h, (i, j) => mul_pos (h.1 i) (kronEig_pos l r h.2 j)

/-- **N-factor Kronecker `_logdet`** (core of the property theorem). -/
theorem kronLogdetN_eq_aux (l : List Nat) (As Qs : KMatsM ℝ l) (lams : KVecs ℝ l) (eps : ℝ)
    (h : EigOK l As Qs lams) (hpos : KVecs.Pos l lams) (hcl : ∀ x ∈ kronDiag (KVecs.toLists l lams), eps ≤ x) :
    kronLogdetN Real.log (fun x => max x eps) (KVecs.toLists l lams) = Real.log (kronAll l As).det := by
  unfold kronLogdetN
  rw [sum_map_kronDiag l lams (fun x => Real.log (max x eps)), det_kronAll_eig l As Qs lams h,
    Real.log_prod (fun idx _ => ne_of_gt (kronEig_pos l lams hpos idx))]
  refine Finset.sum_congr rfl fun idx _ => ?_
  rw [max_eq_left (hcl _ (kronEig_mem l lams idx))]

/-- `Σᵢ (N/nᵢ) log det Aᵢ`, by recursion over the factor list: the head factor contributes `(Π rest) · log det A`
and every later term is multiplied by the head's size. -/
noncomputable def kronLogdetFormula : (l : List Nat) → KMatsM ℝ l → ℝ
  | [], _ => 0
  | n :: l, (A, r) => (l.prod : ℝ) * Real.log A.det + (n : ℝ) * kronLogdetFormula l r

def KMatsM.DetPos : (l : List Nat) → KMatsM ℝ l → Prop
  | [], _ => True
  | _ :: l, (A, r) => 0 < A.det ∧ KMatsM.DetPos l r

theorem det_kronAll_pos : (l : List Nat) → (As : KMatsM ℝ l) → KMatsM.DetPos l As → 0 < (kronAll l As).det
  | [], r, _ => by rw [det_kronAll_nil]; exact one_pos
  | n :: l, (A, r), h => by
    rw [det_kronAll_cons]
    exact mul_pos (pow_pos h.1 _) (pow_pos (det_kronAll_pos l r h.2) _)

theorem log_det_kronAll : (l : List Nat) → (As : KMatsM ℝ l) → KMatsM.DetPos l As →
    Real.log (kronAll l As).det = kronLogdetFormula l As
  | [], r, _ => by rw [det_kronAll_nil, Real.log_one]; rfl
  | n :: l, (A, r), h => by
    rw [det_kronAll_cons, Real.log_mul (pow_ne_zero _ (ne_of_gt h.1)) (pow_ne_zero _ (ne_of_gt (det_kronAll_pos l r h.2))),
      Real.log_pow, Real.log_pow, log_det_kronAll l r h.2]
    rfl

/-! ### inverse quadratic form through the sequential solve -/

theorem kronInvQuad_aux {m : Nat} (l : List Nat) (As Bs : KMatsM ℝ l) (Y : Matrix (KIdx l) (Fin m) ℝ)
    (h : KMatsM.mul l As Bs = KMatsM.one l) (j : Fin m) :
    IsUnit (kronAll l As).det ∧
    kronAll l As * (Matrix.of (kronSolve l (KMatsM.toMats l Bs) Y) : Matrix (KIdx l) (Fin m) ℝ) = Y ∧
    kronInvQuadCols l (KMatsM.toMats l Bs) Y j = (Yᵀ * (kronAll l As)⁻¹ * Y) j j := by
  have h1 := kronAll_mul_eq_one l As Bs h
  have hu : IsUnit (kronAll l As).det := Matrix.isUnit_det_of_right_inverse h1
  have hs : kronAll l As * (Matrix.of (kronSolve l (KMatsM.toMats l Bs) Y) : Matrix (KIdx l) (Fin m) ℝ) = Y := by
    rw [kronSolve_eq, ← Matrix.mul_assoc, h1, Matrix.one_mul]
  refine ⟨hu, hs, ?_⟩
  unfold kronInvQuadCols
  rw [sum_map_KIdx_all]
  exact invQuad_of_solve _ (Matrix.of (kronSolve l (KMatsM.toMats l Bs) Y)) Y hu hs j

end LinOp.C05
