import LinOp.C05.ProofsGauss
import LinOp.C05.Proofs
/-!
C05 — the stochastic Lanczos quadrature value below full Krylov dimension is the Gauss rule of the spectral measure.
-/
namespace LinOp.C05
open Matrix LinOp

/-- all probes: `StochasticLQ.to_dense` with `f = x^d` is `c · Σᵢ uᵢᵀ A^d uᵢ` for every `d ≤ 2k+1`. -/
theorem slq_gauss_aux {R : Type} [CommRing R] {n m k : Nat} (c : R) (A : Matrix (Fin n) (Fin n) R)
    (Q : Fin m → Matrix (Fin n) (Fin (k + 1)) R) (V : Fin m → Matrix (Fin (k + 1)) (Fin (k + 1)) R)
    (θ : Fin m → Fin (k + 1) → R) (hA : Aᵀ = A)
    (hQ : ∀ i, (Q i)ᵀ * Q i = 1) (hP : ∀ i, (Q i)ᵀ * A * Q i = V i * Matrix.diagonal (θ i) * (V i)ᵀ)
    (hV : ∀ i, (V i)ᵀ * V i = 1) (hV' : ∀ i, V i * (V i)ᵀ = 1)
    (hT : ∀ i (a b : Fin (k + 1)), b.1 + 1 < a.1 → (V i * Matrix.diagonal (θ i) * (V i)ᵀ) a b = 0)
    (hres : ∀ i (a : Fin n) (b : Fin (k + 1)), b.1 < k →
      (A * Q i) a b = (Q i * (V i * Matrix.diagonal (θ i) * (V i)ᵀ)) a b)
    (d : Nat) (hd : d ≤ 2 * k + 1) :
    slqAssemble c (fun i j => V i 0 j) (fun i j => θ i j ^ d)
      = c * ∑ i, (Q i).mulVec (Pi.single 0 1) ⬝ᵥ (A ^ d).mulVec ((Q i).mulVec (Pi.single 0 1)) := by
  rw [slqAssemble_eq_sum, Finset.mul_sum]
  refine Finset.sum_congr rfl fun i _ => ?_
  congr 1
  rw [← gauss_node_exact A (Q i) (V i) (θ i) hA (hQ i) (hP i) (hV i) (hV' i) (hT i) (hres i) d hd, Matrix.mul_apply]
  simp only [Matrix.mul_diagonal, Matrix.transpose_apply]
  refine Finset.sum_congr rfl fun j _ => ?_
  ring

end LinOp.C05

namespace LinOp.C05
open Matrix

/-- the hypotheses of `slq_gauss_aux` are satisfiable below full dimension (`n = 2`, Krylov dimension 1):
`A = [[2,1],[1,3]]`, `u = e₁`, `T = [2]`. -/
theorem slq_gauss_hyp_example :
    ∃ (A : Matrix (Fin 2) (Fin 2) ℚ) (Q : Matrix (Fin 2) (Fin 1) ℚ) (V : Matrix (Fin 1) (Fin 1) ℚ) (θ : Fin 1 → ℚ),
      Aᵀ = A ∧ Qᵀ * Q = 1 ∧ Qᵀ * A * Q = V * Matrix.diagonal θ * Vᵀ ∧ Vᵀ * V = 1 ∧ V * Vᵀ = 1 := by
  refine ⟨!![2, 1; 1, 3], !![1; 0], 1, fun _ => 2, ?_, ?_, ?_, ?_, ?_⟩
  · ext i j; fin_cases i <;> fin_cases j <;> rfl
  · ext i j; fin_cases i; fin_cases j; simp [Matrix.mul_apply]
  · ext i j; fin_cases i; fin_cases j; simp [Matrix.mul_apply, Fin.sum_univ_two]
  · simp
  · simp

end LinOp.C05
