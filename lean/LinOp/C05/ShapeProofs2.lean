import LinOp.C05.ShapeProofs
import LinOp.C05.ModelB
/-!
C05 — Block and BatchRepeat wrappers interleaved in ANY order (core Lean only).

`ShapeOK p batch`: on path `p`, for an operator of batch shape `batch`, the two terms have the documented shapes for every
number of columns and every flag combination.  `block_step` / `rep_step` are the two wrapper steps; `GoodAt` closes the leaf
paths under them (a BatchRepeat fixes the batch shape at which it can be used, hence the index).
-/
namespace LinOp.C05

def ShapeOK (p : Path) (batch : List Nat) : Prop :=
  ∀ (m : Nat) (lg red : Bool), 0 < m →
    (shapes p batch (.mat m) lg red).1 = .shape (if red then batch else batch ++ [m]) ∧
    (lg = true → (shapes p batch (.mat m) lg red).2 = .shape batch) ∧
    (shapes p batch (.mat m) lg red).2 ≠ .err ∧
    (shapes p batch .absent true red).1 ≠ .err ∧
    (shapes p batch .absent true red).2 = .shape batch

theorem shapeOK_of_good (p : Path) (hg : Good p) (batch : List Nat) (hb : ∀ d ∈ batch, 0 < d) : ShapeOK p batch :=
  fun m lg red hm => good_shapes p hg batch m lg red hb hm

/-- one `Block{Diag,Interleaved}` wrapper over ANY path that is right at batch shape `batch ++ [k]`. -/
theorem block_step (p : Path) (k : Nat) (batch : List Nat) (hb : ∀ d ∈ batch, 0 < d) (hk : 0 < k)
    (ih : ShapeOK p (batch ++ [k])) : ShapeOK (.block p k) batch := by
  intro m lg red hm
  obtain ⟨h1, h2, h3, _, _⟩ := ih m lg red hm
  obtain ⟨_, _, _, h4, h5⟩ := ih m true red hm
  have hN : numel batch ≠ 0 := Nat.ne_of_gt (numel_pos _ hb)
  have hk0 : k ≠ 0 := Nat.ne_of_gt hk
  have hm0 : m ≠ 0 := Nat.ne_of_gt hm
  have hmat : shapes (.block p k) batch (.mat m) lg red
      = blockPost batch k true lg red (shapes p (batch ++ [k]) (.mat m) lg red) := rfl
  have habs : shapes (.block p k) batch .absent true red
      = blockPost batch k false true red (shapes p (batch ++ [k]) .absent true red) := rfl
  have post_tt : blockPost batch k true true red
        (.shape (if red then batch ++ [k] else batch ++ [k] ++ [m]), .shape (batch ++ [k]))
        = (.shape (if red then batch else batch ++ [m]), .shape batch) := by
    cases red <;>
      simp [blockPost, numel_append, numel_cons, numel_nil, hN, hk0, hm0, List.getLast?_append, Nat.mul_assoc,
        Nat.mul_eq_zero]
  have post_tf : ∀ ld : Term, ld ≠ .err → blockPost batch k true false red
        (.shape (if red then batch ++ [k] else batch ++ [k] ++ [m]), ld)
        = (.shape (if red then batch else batch ++ [m]), ld) := by
    intro ld hld
    cases ld <;> cases red <;>
      simp_all [blockPost, numel_append, numel_cons, numel_nil, List.getLast?_append, Nat.mul_assoc, Nat.mul_eq_zero]
  have post_abs : ∀ iq : Term, iq ≠ .err →
      blockPost batch k false true red (iq, .shape (batch ++ [k])) = (iq, .shape batch) := by
    intro iq hiq
    cases iq <;> simp_all [blockPost, numel_append, numel_cons, numel_nil, Nat.mul_eq_zero]
  have e1 : shapes p (batch ++ [k]) (.mat m) lg red
      = (.shape (if red then batch ++ [k] else batch ++ [k] ++ [m]), (shapes p (batch ++ [k]) (.mat m) lg red).2) :=
    Prod.ext h1 rfl
  have e2 : shapes p (batch ++ [k]) .absent true red = ((shapes p (batch ++ [k]) .absent true red).1, .shape (batch ++ [k])) :=
    Prod.ext rfl h5
  rw [hmat, habs, e2, post_abs _ h4, e1]
  cases lg
  · rw [post_tf _ h3]
    exact ⟨rfl, fun h => absurd h (by decide), h3, h4, rfl⟩
  · rw [h2 rfl, post_tt]
    exact ⟨rfl, fun _ => rfl, (fun h => by cases h), h4, rfl⟩

/-- one `BatchRepeat` wrapper over ANY path that is right at the base batch shape `bb`. -/
theorem rep_step (p : Path) (bb rp : List Nat) (hbb : ∀ d ∈ bb, 0 < d) (hrp : ∀ d ∈ rp, 0 < d)
    (ih : ShapeOK p bb) : ShapeOK (.rep p bb rp) (repeatShape rp bb) := by
  intro m lg red hm
  have hr : 0 < numel rp := numel_pos rp hrp
  have hmr : 0 < m * numel rp := Nat.mul_pos hm hr
  obtain ⟨h1, h2, h3, _, _⟩ := ih (m * numel rp) lg false hmr
  obtain ⟨_, _, _, h4, h5⟩ := ih (m * numel rp) true false hmr
  have hNb : numel bb ≠ 0 := Nat.ne_of_gt (numel_pos _ hbb)
  have hN1 : numel (bb ++ [m * numel rp]) ≠ 0 := by
    rw [numel_append_single]; exact Nat.ne_of_gt (Nat.mul_pos (numel_pos _ hbb) hmr)
  have hmat : shapes (.rep p bb rp) (repeatShape rp bb) (.mat m) lg red
      = repPost (repeatShape rp bb) bb rp (.mat m) lg red (shapes p bb (.mat (m * numel rp)) lg false) := rfl
  have habs : shapes (.rep p bb rp) (repeatShape rp bb) .absent true red
      = repPost (repeatShape rp bb) bb rp .absent true red (shapes p bb .absent true false) := rfl
  have e1 : shapes p bb (.mat (m * numel rp)) lg false
      = (.shape (bb ++ [m * numel rp]), (shapes p bb (.mat (m * numel rp)) lg false).2) := by
    refine Prod.ext ?_ rfl
    simpa using h1
  have e2 : shapes p bb .absent true false = ((shapes p bb .absent true false).1, .shape bb) := Prod.ext rfl h5
  have post_abs : ∀ iq : Term, iq ≠ .err →
      repPost (repeatShape rp bb) bb rp .absent true red (iq, .shape bb) = (iq, .shape (repeatShape rp bb)) := by
    intro iq hiq
    cases iq <;> simp [repPost, hNb] at hiq ⊢
  have post_mat : ∀ ld : Term, ld ≠ .err → (lg = true → ld = .shape bb) →
      repPost (repeatShape rp bb) bb rp (.mat m) lg red (.shape (bb ++ [m * numel rp]), ld)
        = (.shape (if red then (repeatShape rp bb) else (repeatShape rp bb) ++ [m]),
           if lg then .shape (repeatShape rp bb) else ld) := by
    intro ld hld hl
    cases lg
    · cases ld <;> simp [repPost, hN1] at hld ⊢
    · rw [hl rfl]
      simp [repPost, hN1, hNb]
  rw [hmat, habs, e2, post_abs _ h4, e1, post_mat _ h3 h2]
  refine ⟨rfl, fun h => by simp [h], ?_, h4, rfl⟩
  cases lg
  · simpa using h3
  · simp

/-- `CatLinearOperator` over any path that is right at `batch`. -/
theorem cat_step (p : Path) (batch : List Nat) (ih : ShapeOK p batch) : ShapeOK (.cat p) batch := by
  intro m lg red hm
  obtain ⟨h1, h2, h3, h4, h5⟩ := ih m lg red hm
  have hmat : shapes (.cat p) batch (.mat m) lg red = catPost (shapes p batch (.mat m) lg red) := rfl
  have habs : shapes (.cat p) batch .absent true red = catPost (shapes p batch .absent true red) := rfl
  rw [hmat, habs, catPost_eq _ (by rw [h1]; simp) h3, catPost_eq _ h4 (by rw [h5]; simp)]
  exact ⟨h1, h2, h3, h4, h5⟩

/-- `tensor.repeat` with positive repeat counts of a positive shape is positive. -/
theorem repeatShape_pos (rp s : List Nat) (hrp : ∀ d ∈ rp, 0 < d) (hs : ∀ d ∈ s, 0 < d) :
    ∀ d ∈ repeatShape rp s, 0 < d := by
  have key : ∀ (l1 l2 : List Nat), (∀ d ∈ l1, 0 < d) → (∀ d ∈ l2, 0 < d) →
      ∀ d ∈ List.zipWith (· * ·) l1 l2, 0 < d := by
    intro l1
    induction l1 with
    | nil => intro l2 _ _ d hd; simp at hd
    | cons a t ih =>
      intro l2 h1 h2 d hd
      cases l2 with
      | nil => simp at hd
      | cons b u =>
        simp only [List.zipWith_cons_cons, List.mem_cons] at hd
        rcases hd with rfl | hd
        · exact Nat.mul_pos (h1 a (by simp)) (h2 b (by simp))
        · exact ih u (fun d hd => h1 d (by simp [hd])) (fun d hd => h2 d (by simp [hd])) d hd
  refine key rp _ hrp ?_
  intro d hd
  rcases List.mem_append.mp hd with h | h
  · rw [List.mem_replicate] at h; omega
  · exact hs _ h

/-- Paths closed under Block, BatchRepeat and Cat wrappers in any order and to any depth, indexed by the batch shape the
operator has: leaves are the `Good` paths at any positive batch shape. -/
inductive GoodAt : Path → List Nat → Prop
  | leaf (p : Path) (b : List Nat) : Good p → (∀ d ∈ b, 0 < d) → GoodAt p b
  | block (p : Path) (k : Nat) (b : List Nat) : GoodAt p (b ++ [k]) → (∀ d ∈ b, 0 < d) → 0 < k → GoodAt (.block p k) b
  | rep (p : Path) (bb rp : List Nat) : GoodAt p bb → (∀ d ∈ bb, 0 < d) → (∀ d ∈ rp, 0 < d) →
      GoodAt (.rep p bb rp) (repeatShape rp bb)
  | cat (p : Path) (b : List Nat) : GoodAt p b → GoodAt (.cat p) b

theorem goodAt_shapes (p : Path) (batch : List Nat) (h : GoodAt p batch) : ShapeOK p batch := by
  induction h with
  | leaf p b hg hb => exact shapeOK_of_good p hg b hb
  | block p k b _ hb hk ih => exact block_step p k b hb hk ih
  | rep p bb rp _ hbb hrp ih => exact rep_step p bb rp hbb hrp ih
  | cat p b _ ih => exact cat_step p b ih

theorem goodAt_pos (p : Path) (batch : List Nat) (h : GoodAt p batch) : ∀ d ∈ batch, 0 < d := by
  induction h with
  | leaf p b _ hb => exact hb
  | block p k b _ hb _ _ => exact hb
  | rep p bb rp _ hbb hrp _ => exact repeatShape_pos rp bb hrp hbb
  | cat p b _ ih => exact ih

end LinOp.C05
