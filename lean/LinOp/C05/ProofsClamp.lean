import LinOp.C05.ProofsKron4
/-!
C05 — the ACTIVE case of `evals.clamp(min=1e-7)` in `KroneckerProductLinearOperator._logdet`.
-/
namespace LinOp.C05
open Matrix

/-- With the clamp possibly active the value is the log-determinant of the operator with its spectrum clamped from below:
`Σ_idx log(max(λ_idx, eps))`; it never under-estimates `log det(⊗Aᵢ)` and over-estimates it strictly as soon as one
product eigenvalue is below the clamp. -/
theorem kronLogdetN_clamped_aux (l : List Nat) (As Qs : KMatsM ℝ l) (lams : KVecs ℝ l) (eps : ℝ)
    (h : EigOK l As Qs lams) (hpos : KVecs.Pos l lams) :
    kronLogdetN Real.log (fun x => max x eps) (KVecs.toLists l lams)
      = ∑ idx : KIdx l, Real.log (max (kronEig l lams idx) eps) ∧
    Real.log (kronAll l As).det ≤ kronLogdetN Real.log (fun x => max x eps) (KVecs.toLists l lams) ∧
    ((∃ idx, kronEig l lams idx < eps) →
      Real.log (kronAll l As).det < kronLogdetN Real.log (fun x => max x eps) (KVecs.toLists l lams)) := by
  have e1 : kronLogdetN Real.log (fun x => max x eps) (KVecs.toLists l lams)
      = ∑ idx : KIdx l, Real.log (max (kronEig l lams idx) eps) := by
    unfold kronLogdetN
    exact sum_map_kronDiag l lams (fun x => Real.log (max x eps))
  have e2 : Real.log (kronAll l As).det = ∑ idx : KIdx l, Real.log (kronEig l lams idx) := by
    rw [det_kronAll_eig l As Qs lams h, Real.log_prod (fun idx _ => ne_of_gt (kronEig_pos l lams hpos idx))]
  have hle : ∀ idx : KIdx l, Real.log (kronEig l lams idx) ≤ Real.log (max (kronEig l lams idx) eps) :=
    fun idx => Real.log_le_log (kronEig_pos l lams hpos idx) (le_max_left _ _)
  refine ⟨e1, ?_, ?_⟩
  · rw [e1, e2]; exact Finset.sum_le_sum fun idx _ => hle idx
  · rintro ⟨idx, hlt⟩
    rw [e1, e2]
    refine Finset.sum_lt_sum (fun i _ => hle i) ⟨idx, Finset.mem_univ _, ?_⟩
    rw [max_eq_right (le_of_lt hlt)]
    exact Real.log_lt_log (kronEig_pos l lams hpos idx) hlt

end LinOp.C05
