import LinOp.Core.Basic
/-
C05 — executable model (core Lean only) of the Kronecker code paths with ANY number of factors:

  _kron_diag(*lts)                               : diagonal / eigenvalues of ⊗ᵢ Dᵢ, recursive      → `kronDiag`
  KroneckerProductLinearOperator._logdet         : evals.clamp(min=1e-7).log().sum(-1)              → `kronLogdetN`
  KroneckerProductLinearOperator._solve          : for each factor: reshape(n,-1), q.solve,
                                                   reshape(n, N/n, C).permute(-2,-3,-1)             → `kronSolveRot`
  KroneckerProductAddedDiag._logdet, branch 2    : |D| · |I + D⁻¹K| with D = ⊗ᵢ cᵢ I               → `kpadloKronConstLogdet`
  KroneckerProductAddedDiag._logdet, branch 3    : logdet(D) + logdet(evals(⊗ Dᵢ^-½ Kᵢ Dᵢ^-½) + 1) → `kpadloSymmLogdet`

Multi-indices: a tensor whose leading dimension is the flattened product of `l = [n₁,…,n_k]` is indexed by
`KIdx l = Fin n₁ × (Fin n₂ × … × Unit)`; row-major flattening is the lexicographic order of `KIdx l`, so
`reshape` / `view` are the identity on multi-indices (the driver reads and prints flat row-major lists).
-/
namespace LinOp.C05
open LinOp

variable {α : Type}

/-- `_kron_diag`: `lead.unsqueeze(-2) * trail.unsqueeze(-1)`, `.mT.reshape(-1)`: entry `l·|trail| + t` is
`lead[l] * trail[t]`; a single factor is returned as it is. -/
def kronDiag [Mul α] [One α] : List (List α) → List α
  | [] => [1]
  | [d] => d
  | d :: rest => d.flatMap fun a => (kronDiag rest).map fun b => a * b

/-- `KroneckerProductLinearOperator._logdet`: `evals.clamp(min=1e-7).log().sum(-1)` with
`evals = _kron_diag(factor eigenvalues)`; `cl` is the clamp, `lg` the logarithm. -/
def kronLogdetN [Mul α] [One α] [Add α] [Zero α] (lg cl : α → α) (evs : List (List α)) : α :=
  ((kronDiag evs).map fun x => lg (cl x)).sum

/-- KPADLO `_logdet`, Kronecker-structured diagonal with constant factors `D = ⊗ᵢ cᵢ I_{nᵢ}`
(`cs i` is the list `[cᵢ,…,cᵢ]` of length `nᵢ`, i.e. `ConstantDiagLinearOperator._diagonal()`):
`diag_term = D.diagonal.clamp(min=1e-7).log().sum(-1)`,
`first_term = (kron_diag(evalsᵢ / cᵢ) + 1).log().sum(-1)`. -/
def kpadloKronConstLogdet [Mul α] [One α] [Add α] [Zero α] [Div α] (lg cl : α → α)
    (evs : List (List α)) (cs : List (List α)) (consts : List α) : α :=
  ((kronDiag cs).map fun x => lg (cl x)).sum
    + ((kronDiag (List.zipWith (fun ev c => ev.map fun x => x / c) evs consts)).map fun x => lg (x + 1)).sum

/-- KPADLO `_logdet`, symmetrised branch: `diag_tensor.logdet() + DiagLinearOperator(evals + 1).logdet()` where
`evals` are the Kronecker eigenvalues of `⊗ᵢ Dᵢ^-½ Kᵢ Dᵢ^-½` (`sev i` the eigenvalues of factor `i`) and
`ds i` the diagonal of `Dᵢ`. -/
def kpadloSymmLogdet [Mul α] [One α] [Add α] [Zero α] (lg : α → α) (sev ds : List (List α)) : α :=
  ((kronDiag ds).map lg).sum + ((kronDiag sev).map fun x => lg (x + 1)).sum

/-! ### multi-indices and the sequential Kronecker solve -/

/-- Multi-index of a dimension that is the flattened product of the sizes in `l`. -/
def KIdx : List Nat → Type
  | [] => Unit
  | n :: l => Fin n × KIdx l

/-- One square matrix per factor. -/
def KMats (α : Type) : List Nat → Type
  | [] => Unit
  | n :: l => Mat α n n × KMats α l

/-- Multi-index after the loop of `_solve`: the modes already processed are appended (in order) behind `D`. -/
def SnocIdx (D : Type) : List Nat → Type
  | [] => D
  | n :: l => SnocIdx (D × Fin n) l

/-- `KroneckerProductLinearOperator._solve`, the loop `for n, q in zip(tsr_shapes, linear_ops)`:
`y.reshape(n, -1)` splits the leading mode off (`Fin n × KIdx rest`), `q.solve` applies `B = q⁻¹` along it,
`.reshape(n, N/n, C).permute(-2, -3, -1)` moves that mode behind the remaining ones — i.e. behind the modes that
are still to do and the ones already done (`D`), in front of the columns.  `B i` is the inverse of factor `i`
(the `solve` primitive). -/
def kronSolveRot [Add α] [Zero α] [Mul α] {C : Type} : (l : List Nat) → KMats α l → {D : Type} →
    (KIdx l → D → C → α) → SnocIdx D l → C → α
  | [], _, _, y => fun d c => y () d c
  | n :: l, (B, Bs), _, y =>
    kronSolveRot l Bs (fun (j : KIdx l) (di : _ × Fin n) c => sumFin n fun i' => B di.2 i' * y (i', j) di.1 c)

/-- Position, in the tensor the loop ends with, of the row multi-index `idx` (with `D` in front): the final
`y.reshape(n_rows, -1)` reads the modes `(d, i₁, …, i_k)` in row-major order, whatever the nesting. -/
def snocOf {D : Type} : (l : List Nat) → D → KIdx l → SnocIdx D l
  | [], d, _ => d
  | _ :: l, d, (i, idx) => snocOf l (d, i) idx

/-- all multi-indices in row-major (lexicographic) order — how a flat tensor is read. -/
def KIdx.all : (l : List Nat) → List (KIdx l)
  | [] => [()]
  | n :: l => (List.finRange n).flatMap fun i => (KIdx.all l).map fun j => (i, j)

/-- `_solve` (`num_tridiag = 0`) of a Kronecker product as a function of the row multi-index and the column:
the loop above on `rhs`, read back in row-major order. -/
def kronSolve [Add α] [Zero α] [Mul α] {C : Type} (l : List Nat) (Bs : KMats α l) (rhs : KIdx l → C → α) :
    KIdx l → C → α :=
  fun idx c => kronSolveRot l Bs (fun j (_ : Unit) c => rhs j c) (snocOf l () idx) c

/-- `InvQuad.forward` over the Kronecker solve: `(solves * rhs).sum(-2)`, rows read in row-major order. -/
def kronInvQuadCols [Add α] [Zero α] [Mul α] {m : Nat} (l : List Nat) (Bs : KMats α l) (rhs : KIdx l → Fin m → α) :
    Fin m → α :=
  fun j => ((KIdx.all l).map fun idx => kronSolve l Bs rhs idx j * rhs idx j).sum

end LinOp.C05
