import LinOp.Core.Parse
import LinOp.C05.Model
import LinOp.C05.ModelKron
import LinOp.C05.ModelB
import LinOp.C05.ModelFlat
/-! Line-protocol driver for the C05 models (exact rationals).
  shape <path tokens joined by '/'> <batch dims joined by '.' or '-'> <absent|vec|mat:m> <logdet 0/1> <reduce 0/1>
        → `<inv_quad term> <logdet term>` with terms `none | empty | shape[d1,d2,…] | err`
  slq c V0 FTH      (V0, FTH : m rows of k entries)          → slqAssemble
  iq S R            (S, R : n × m)                             → `<columns> <reduced>`
  block x1,x2,…                                               → blockReduce
  krondiag V            (V : one row per factor, rows may differ in length)   → kronDiag (exact)
  kronlogdet V                                                 → kronLogdetN Float.log (clamp 1e-7) (Float)
  kpadloconst V c1,c2,…                                        → kpadloKronConstLogdet (Float)
  kpadlosymm SEV DS                                            → kpadloSymmLogdet (Float)
  kronsolve n1,n2,… B1|B2|… RHS   (Bi : ni × ni inverse factors, RHS : N × C, flat row-major)
                                                              → `<kronSolve, N × C> <kronInvQuadCols>` (exact)
-/
open LinOp LinOp.C05 LinOp.Parse

def parseDims (s : String) : Option (List Nat) :=
  if s = "-" || s = "" then some [] else (s.splitOn ".").mapM String.toNat?

partial def parsePath : List String → Option (Path × List String)
  | "chol" :: r => some (.chol, r)
  | "tri" :: r => some (.tri, r)
  | "diag" :: r => some (.diag, r)
  | "identity" :: r => some (.identity, r)
  | "closed" :: r => some (.closed, r)
  | "slq" :: r => some (.slq, r)
  | "kron" :: r => do let (p, r') ← parsePath r; some (.kron p, r')
  | "kronfb" :: r => do let (p, r') ← parsePath r; some (.kronFb p, r')
  | "block" :: k :: r => do let k ← k.toNat?; let (p, r') ← parsePath r; some (.block p k, r')
  | "cat" :: r => do let (p, r') ← parsePath r; some (.cat p, r')
  | "rep" :: bb :: rp :: r => do
      let bb ← parseDims bb; let rp ← parseDims rp; let (p, r') ← parsePath r; some (.rep p bb rp, r')
  | _ => none

def showTerm : Term → String
  | .none => "none"
  | .empty => "empty"
  | .err => "err"
  | .shape s => "shape[" ++ ",".intercalate (s.map toString) ++ "]"

def parseRhs (s : String) : Option Rhs :=
  if s = "absent" then some .absent else if s = "vec" then some .vec
  else match s.splitOn ":" with
    | ["mat", m] => m.toNat?.map Rhs.mat
    | _ => none

def getM (a : Array (Array Rat)) (n m : Nat) : Mat Rat n m := Mat.ofArrays n m a


def ratToFloat (r : Rat) : Float := Float.ofInt r.num / Float.ofNat r.den

def toFloats (a : Array (Array Rat)) : List (List Float) := (a.map fun r => (r.map ratToFloat).toList).toList

/-- exact value of a Float as `mantissa:exponent` (value = mantissa · 2^exponent) -/
def showFloat (x : Float) : String :=
  if x.isNaN || x.isInf then "nan" else
  let (m, e) := x.frExp
  toString (m * 9007199254740992.0).toInt64.toInt ++ ":" ++ toString (e - 53)

def clamp7 (x : Float) : Float := if x < 1e-7 then 1e-7 else x

instance : Zero Float := ⟨0.0⟩
instance : One Float := ⟨1.0⟩

-- `KIdx.flat` (flat row-major position of a multi-index) is `LinOp.C05.KIdx.flat` of ModelFlat.lean: `rowMajor_flat` proves
-- that `KIdx.all` visits the flat positions 0, 1, 2, … in order, so reading `rhs[flat idx]` and printing in `KIdx.all` order are row-major.

def mkMats : (l : List Nat) → List (Array (Array Rat)) → KMats Rat l
  | [], _ => ()
  | n :: l, ms => (Mat.ofArrays n n (ms.head!), mkMats l ms.tail!)

def runKronSolve (l : List Nat) (bs : List (Array (Array Rat))) (rhs : Array (Array Rat)) : String :=
  let c := (rhs[0]!).size
  let Bs := mkMats l bs
  let y : KIdx l → Fin c → Rat := fun idx j => (rhs[KIdx.flat l idx]!)[j.1]!
  let all := KIdx.all l
  let sol := all.map fun idx => (List.finRange c).map fun j => kronSolve l Bs y idx j
  showMat sol ++ " " ++ showList showRat ((List.finRange c).map (kronInvQuadCols l Bs y))

def run (line : String) : String :=
  match words line with
  | ["shape", p, b, r, lg, rd] =>
    match parsePath (p.splitOn "/"), parseDims b, parseRhs r with
    | some (p, []), some b, some r =>
      let (iq, ld) := shapes p b r (lg = "1") (rd = "1")
      showTerm iq ++ " " ++ showTerm ld
    | _, _, _ => "bad-op"
  | ["shapeb", p, b, rb, m, lg, rd] =>
    let leaf : Option BLeaf := match p with
      | "chol" => some .chol | "diag" => some .diag | "identity" => some .identity | "slq" => some .slq | _ => none
    match leaf, parseDims b, parseDims rb, m.toNat? with
    | some p, some b, some rb, some m =>
      let (iq, ld) := shapesB p b rb m (lg = "1") (rd = "1")
      showTerm iq ++ " " ++ showTerm ld
    | _, _, _, _ => "bad-op"
  | ["iqshape", b, rb, m, rd] =>
    match parseDims b, parseDims rb, m.toNat? with
    | some b, some rb, some m => showTerm (invQuadEntry b rb m (rd = "1"))
    | _, _, _ => "bad-op"
  | ["bcast", a, b] =>
    match parseDims a, parseDims b with
    | some a, some b => (match bcast a b with | some r => showTerm (.shape r) | none => "err")
    | _, _ => "bad-op"
  | ["slq", c, v0, fth] =>
    match parseRat? c, parseMat? v0, parseMat? fth with
    | some c, some v0, some fth =>
      let m := v0.size
      let k := (v0[0]!).size
      showRat (slqAssemble c (getM v0 m k) (getM fth m k))
    | _, _, _ => "bad-op"
  | ["iq", s, r] =>
    match parseMat? s, parseMat? r with
    | some s, some r =>
      let n := s.size
      let m := (s[0]!).size
      let q := tab1 (invQuadCols (getM s n m) (getM r n m))
      showList showRat ((List.finRange m).map q) ++ " " ++ showRat (invQuadReduce q)
    | _, _ => "bad-op"
  | ["krondiag", v] =>
    match parseMat? v with
    | some a => showList showRat (kronDiag (a.map Array.toList).toList)
    | none => "bad-op"
  | ["kronlogdet", v] =>
    match parseMat? v with
    | some a => showFloat (kronLogdetN Float.log clamp7 (toFloats a))
    | none => "bad-op"
  | ["kpadloconst", v, cs] =>
    match parseMat? v, parseRats? cs with
    | some a, some cs =>
      let ev := toFloats a
      let consts := cs.map ratToFloat
      let diags := List.zipWith (fun e c => List.replicate e.length c) ev consts
      showFloat (kpadloKronConstLogdet Float.log clamp7 ev diags consts)
    | _, _ => "bad-op"
  | ["kpadlosymm", sv, ds] =>
    match parseMat? sv, parseMat? ds with
    | some a, some d => showFloat (kpadloSymmLogdet Float.log (toFloats a) (toFloats d))
    | _, _ => "bad-op"
  | ["kronsolve", ns, bs, rhs] =>
    match parseNats? ns, (bs.splitOn "|").mapM parseMat?, parseMat? rhs with
    | some l, some bs, some rhs => if bs.length = l.length then runKronSolve l bs rhs else "bad-op"
    | _, _, _ => "bad-op"
  | ["block", x] =>
    match parseRats? x with
    | some xs => let a := xs.toArray; showRat (blockReduce (fun i : Fin a.size => a[i.1]!))
    | none => "bad-op"
  | _ => "bad-op"

def main : IO Unit := do
  loop (← IO.getStdin) () (fun _ l => ((), run l))
