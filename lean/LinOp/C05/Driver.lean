import LinOp.Core.Parse
import LinOp.C05.Model
/-! Line-protocol driver for the C05 models (exact rationals).
  shape <path tokens joined by '/'> <batch dims joined by '.' or '-'> <absent|vec|mat:m> <logdet 0/1> <reduce 0/1>
        → `<inv_quad term> <logdet term>` with terms `none | empty | shape[d1,d2,…] | err`
  slq c V0 FTH      (V0, FTH : m rows of k entries)          → slqAssemble
  iq S R            (S, R : n × m)                             → `<columns> <reduced>`
  block x1,x2,…                                               → blockReduce
-/
open LinOp LinOp.C05 LinOp.Parse

def parseDims (s : String) : Option (List Nat) :=
  if s = "-" || s = "" then some [] else (s.splitOn ".").mapM String.toNat?

partial def parsePath : List String → Option (Path × List String)
  | "chol" :: r => some (.chol, r)
  | "tri" :: r => some (.tri, r)
  | "diag" :: r => some (.diag, r)
  | "identity" :: r => some (.identity, r)
  | "closed" :: r => some (.closed, r)
  | "slq" :: r => some (.slq, r)
  | "kron" :: r => do let (p, r') ← parsePath r; some (.kron p, r')
  | "kronfb" :: r => do let (p, r') ← parsePath r; some (.kronFb p, r')
  | "block" :: k :: r => do let k ← k.toNat?; let (p, r') ← parsePath r; some (.block p k, r')
  | "rep" :: bb :: rp :: r => do
      let bb ← parseDims bb; let rp ← parseDims rp; let (p, r') ← parsePath r; some (.rep p bb rp, r')
  | _ => none

def showTerm : Term → String
  | .none => "none"
  | .empty => "empty"
  | .err => "err"
  | .shape s => "shape[" ++ ",".intercalate (s.map toString) ++ "]"

def parseRhs (s : String) : Option Rhs :=
  if s = "absent" then some .absent else if s = "vec" then some .vec
  else match s.splitOn ":" with
    | ["mat", m] => m.toNat?.map Rhs.mat
    | _ => none

def getM (a : Array (Array Rat)) (n m : Nat) : Mat Rat n m := Mat.ofArrays n m a

def run (line : String) : String :=
  match words line with
  | ["shape", p, b, r, lg, rd] =>
    match parsePath (p.splitOn "/"), parseDims b, parseRhs r with
    | some (p, []), some b, some r =>
      let (iq, ld) := shapes p b r (lg = "1") (rd = "1")
      showTerm iq ++ " " ++ showTerm ld
    | _, _, _ => "bad-op"
  | ["slq", c, v0, fth] =>
    match parseRat? c, parseMat? v0, parseMat? fth with
    | some c, some v0, some fth =>
      let m := v0.size
      let k := (v0[0]!).size
      showRat (slqAssemble c (getM v0 m k) (getM fth m k))
    | _, _, _ => "bad-op"
  | ["iq", s, r] =>
    match parseMat? s, parseMat? r with
    | some s, some r =>
      let n := s.size
      let m := (s[0]!).size
      let q := tab1 (invQuadCols (getM s n m) (getM r n m))
      showList showRat ((List.finRange m).map q) ++ " " ++ showRat (invQuadReduce q)
    | _, _ => "bad-op"
  | ["block", x] =>
    match parseRats? x with
    | some xs => let a := xs.toArray; showRat (blockReduce (fun i : Fin a.size => a[i.1]!))
    | none => "bad-op"
  | _ => "bad-op"

def main : IO Unit := do
  loop (← IO.getStdin) () (fun _ l => ((), run l))
