import LinOp.C05.Model
import LinOp.Core.Bridge
import Mathlib.Algebra.BigOperators.Fin
import Mathlib.Algebra.BigOperators.Ring.Finset
import Mathlib.LinearAlgebra.Matrix.Determinant.Basic
/-!
C05 — helper lemmas: bridges from the executable folds of `LinOp.C05.Model` to `Finset` sums/products,
and the determinant of an orthogonal eigendecomposition.
-/
namespace LinOp.C05
open Matrix LinOp

theorem foldl_mul_eq_prod {α : Type} [CommMonoid α] (n : Nat) (g : Fin n → α) :
    Fin.foldl n (fun acc i => acc * g i) 1 = ∏ i, g i := by
  induction n with
  | zero => simp [Fin.foldl_zero]
  | succ n ih =>
    rw [Fin.foldl_succ_last, Fin.prod_univ_castSucc]
    congr 1
    exact ih _

theorem slqAssemble_eq_sum {α : Type} [CommSemiring α] (c : α) {m k : Nat} (v0 fθ : Fin m → Fin k → α) :
    slqAssemble c v0 fθ = ∑ i, c * ∑ j, v0 i j * v0 i j * fθ i j := by
  have h : slqAssemble c v0 fθ = sumFin m (fun i => c * (sumFin k fun j => v0 i j * v0 i j * fθ i j)) := rfl
  rw [h, sumFin_eq_sum]
  refine Finset.sum_congr rfl fun i _ => ?_
  rw [sumFin_eq_sum]

/-- `A = Q diag(λ) Qᵀ` with `Q Qᵀ = I` has determinant `Π λᵢ`. -/
theorem det_of_eigendecomp {R : Type} [CommRing R] {n : Nat} (A Q : Matrix (Fin n) (Fin n) R)
    (lam : Fin n → R) (hA : A = Q * diagonal lam * Qᵀ) (hQ : Q * Qᵀ = 1) : A.det = ∏ i, lam i := by
  have h1 : Q.det * Qᵀ.det = 1 := by rw [← Matrix.det_mul, hQ, Matrix.det_one]
  rw [hA, Matrix.det_mul, Matrix.det_mul, Matrix.det_diagonal]
  calc Q.det * (∏ i, lam i) * Qᵀ.det = (Q.det * Qᵀ.det) * ∏ i, lam i := by ring
    _ = _ := by rw [h1, one_mul]

end LinOp.C05
