import LinOp.C05.ModelKron
import LinOp.C05.Proofs
import Mathlib.LinearAlgebra.Matrix.Kronecker
import Mathlib.LinearAlgebra.Matrix.NonsingularInverse
import Mathlib.Analysis.SpecialFunctions.Log.Basic
import Mathlib.Algebra.BigOperators.Fin
/-!
C05 — Kronecker products with any number of factors: the iterated Kronecker product `kronAll`, its
eigendecomposition, determinant and inverse, and the bridge from the list model `kronDiag` to sums over the
multi-index type `KIdx l`.
-/
namespace LinOp.C05
open Matrix LinOp
open scoped Kronecker

instance instFintypeKIdx : (l : List Nat) → Fintype (KIdx l)
  | [] => inferInstanceAs (Fintype Unit)
  | n :: l => haveI := instFintypeKIdx l; inferInstanceAs (Fintype (Fin n × KIdx l))

instance instDecEqKIdx : (l : List Nat) → DecidableEq (KIdx l)
  | [] => inferInstanceAs (DecidableEq Unit)
  | n :: l => haveI := instDecEqKIdx l; inferInstanceAs (DecidableEq (Fin n × KIdx l))

theorem card_KIdx : (l : List Nat) → Fintype.card (KIdx l) = l.prod
  | [] => by
    show @Fintype.card Unit (instFintypeKIdx []) = 1
    rw [show instFintypeKIdx [] = (inferInstance : Fintype Unit) from Subsingleton.elim _ _]
    simp
  | n :: l => by
    have := card_KIdx l
    show Fintype.card (Fin n × KIdx l) = _
    rw [Fintype.card_prod, Fintype.card_fin, this, List.prod_cons]

variable {R : Type}

/-- One square (Mathlib) matrix per factor; `toMats` is the identity into the model's `KMats`. -/
def KMatsM (R : Type) : List Nat → Type
  | [] => Unit
  | n :: l => Matrix (Fin n) (Fin n) R × KMatsM R l

def KMatsM.toMats : (l : List Nat) → KMatsM R l → KMats R l
  | [], _ => ()
  | _ :: l, (A, r) => (A, KMatsM.toMats l r)

/-- `⊗ᵢ Mᵢ` on multi-indices (the empty product is the 1×1 identity). -/
def kronAll [CommSemiring R] : (l : List Nat) → KMatsM R l → Matrix (KIdx l) (KIdx l) R
  | [], _ => 1
  | n :: l, (A, r) => (show Matrix (Fin n × KIdx l) (Fin n × KIdx l) R from A ⊗ₖ kronAll l r)

theorem kronAll_cons [CommSemiring R] (n : Nat) (l : List Nat) (A : Matrix (Fin n) (Fin n) R) (r : KMatsM R l) :
    kronAll (n :: l) (A, r) = (show Matrix (Fin n × KIdx l) (Fin n × KIdx l) R from A ⊗ₖ kronAll l r) := rfl

/-- One vector per factor (eigenvalues, diagonals). -/
def KVecs (R : Type) : List Nat → Type
  | [] => Unit
  | n :: l => (Fin n → R) × KVecs R l

/-- entries of `⊗ᵢ diag(vᵢ)`: the product of the factors' entries. -/
def kronEig [CommSemiring R] : (l : List Nat) → KVecs R l → KIdx l → R
  | [], _, _ => 1
  | _ :: l, (v, r), (i, j) => v i * kronEig l r j

def KVecs.toLists : (l : List Nat) → KVecs R l → List (List R)
  | [], _ => []
  | _ :: l, (v, r) => List.ofFn v :: KVecs.toLists l r

def KVecs.map (f : R → R) : (l : List Nat) → KVecs R l → KVecs R l
  | [], _ => ()
  | _ :: l, (v, r) => ((fun i => f (v i)), KVecs.map f l r)

def KMatsM.mul [CommSemiring R] : (l : List Nat) → KMatsM R l → KMatsM R l → KMatsM R l
  | [], _, _ => ()
  | n :: l, (A, r), (B, s) => (A * B, KMatsM.mul l r s)

def KMatsM.transpose : (l : List Nat) → KMatsM R l → KMatsM R l
  | [], _ => ()
  | n :: l, (A, r) => ((Aᵀ : Matrix _ _ R), KMatsM.transpose l r)

def KMatsM.one [CommSemiring R] : (l : List Nat) → KMatsM R l
  | [] => ()
  | n :: l => ((1 : Matrix (Fin n) (Fin n) R), KMatsM.one l)

def KMatsM.diagonal [CommSemiring R] : (l : List Nat) → KVecs R l → KMatsM R l
  | [], _ => ()
  | n :: l, (v, r) => ((Matrix.diagonal v : Matrix (Fin n) (Fin n) R), KMatsM.diagonal l r)

/-- every factor satisfies `P` -/
def KMatsM.All (P : ∀ n : Nat, Matrix (Fin n) (Fin n) R → Prop) : (l : List Nat) → KMatsM R l → Prop
  | [], _ => True
  | n :: l, (A, r) => P n A ∧ KMatsM.All P l r

/-! ### structure lemmas -/

theorem card_KIdx_nil : Fintype.card (KIdx []) = 1 := card_KIdx []

theorem kronAll_mul [CommSemiring R] : (l : List Nat) → (Ms Ns : KMatsM R l) →
    kronAll l (KMatsM.mul l Ms Ns) = kronAll l Ms * kronAll l Ns
  | [], _, _ => by
    show (1 : Matrix (KIdx []) (KIdx []) R) = 1 * 1
    rw [one_mul]
  | n :: l, (A, r), (B, s) => by
    show ((A * B) ⊗ₖ kronAll l (KMatsM.mul l r s) : Matrix (Fin n × KIdx l) (Fin n × KIdx l) R)
      = (A ⊗ₖ kronAll l r : Matrix (Fin n × KIdx l) (Fin n × KIdx l) R) * (B ⊗ₖ kronAll l s)
    rw [kronAll_mul l r s, Matrix.mul_kronecker_mul]

theorem kronAll_one [CommSemiring R] : (l : List Nat) → kronAll l (KMatsM.one l : KMatsM R l) = 1
  | [] => rfl
  | n :: l => by
    show ((1 : Matrix (Fin n) (Fin n) R) ⊗ₖ kronAll l (KMatsM.one l) : Matrix (Fin n × KIdx l) (Fin n × KIdx l) R) = 1
    rw [kronAll_one l, Matrix.one_kronecker_one]

theorem kronAll_transpose [CommSemiring R] : (l : List Nat) → (Ms : KMatsM R l) →
    kronAll l (KMatsM.transpose l Ms) = (kronAll l Ms)ᵀ
  | [], _ => by
    show (1 : Matrix (KIdx []) (KIdx []) R) = 1ᵀ
    rw [Matrix.transpose_one]
  | n :: l, (A, r) => by
    show (Aᵀ ⊗ₖ kronAll l (KMatsM.transpose l r) : Matrix (Fin n × KIdx l) (Fin n × KIdx l) R)
      = (A ⊗ₖ kronAll l r : Matrix (Fin n × KIdx l) (Fin n × KIdx l) R)ᵀ
    rw [kronAll_transpose l r]
    exact (Matrix.kroneckerMap_transpose _ _ _).symm

theorem kronAll_diagonal [CommSemiring R] : (l : List Nat) → (vs : KVecs R l) →
    kronAll l (KMatsM.diagonal l vs) = Matrix.diagonal (kronEig l vs)
  | [], _ => by
    show (1 : Matrix (KIdx []) (KIdx []) R) = Matrix.diagonal (fun _ => 1)
    exact Matrix.diagonal_one.symm
  | n :: l, (v, r) => by
    show (Matrix.diagonal v ⊗ₖ kronAll l (KMatsM.diagonal l r) : Matrix (Fin n × KIdx l) (Fin n × KIdx l) R)
      = (Matrix.diagonal (fun p : Fin n × KIdx l => v p.1 * kronEig l r p.2) : Matrix (Fin n × KIdx l) (Fin n × KIdx l) R)
    rw [kronAll_diagonal l r, Matrix.diagonal_kronecker_diagonal]

/-- factor-wise products being the identity give an inverse pair of Kronecker products:
`(⊗ᵢ Aᵢ)(⊗ᵢ Bᵢ) = 1` — the identity `(A ⊗ B)⁻¹ = A⁻¹ ⊗ B⁻¹` the `_solve` loop relies on. -/
theorem kronAll_mul_eq_one [CommSemiring R] (l : List Nat) (As Bs : KMatsM R l)
    (h : KMatsM.mul l As Bs = KMatsM.one l) : kronAll l As * kronAll l Bs = 1 := by
  rw [← kronAll_mul, h, kronAll_one]

theorem KMatsM.mul_eq_one_of_all [CommSemiring R] : (l : List Nat) → (As Bs : KMatsM R l) →
    KMatsM.All (fun _ M => M = 1) l (KMatsM.mul l As Bs) → KMatsM.mul l As Bs = KMatsM.one l
  | [], _, _, _ => rfl
  | n :: l, (A, r), (B, s), h => by
    obtain ⟨h1, h2⟩ := h
    show ((A * B : Matrix (Fin n) (Fin n) R), KMatsM.mul l r s) = ((1 : Matrix (Fin n) (Fin n) R), KMatsM.one l)
    rw [KMatsM.mul_eq_one_of_all l r s h2]
    exact congrArg (·, KMatsM.one l) h1

end LinOp.C05
