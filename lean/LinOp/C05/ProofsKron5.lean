import LinOp.C05.ProofsKron4
/-!
C05 — KroneckerProductAddedDiag `_logdet`, the two Kronecker-structured-diagonal branches, any number of factors.
-/
namespace LinOp.C05
open Matrix LinOp
open scoped Kronecker

/-- `det(Q Λ Qᵀ + cI) = Π (λᵢ + c)`, any finite index type. -/
theorem shift_det' {ι : Type} [Fintype ι] [DecidableEq ι] (A Q : Matrix ι ι ℝ) (lam : ι → ℝ) (c : ℝ)
    (hA : A = Q * Matrix.diagonal lam * Qᵀ) (hQ : Q * Qᵀ = 1) :
    (A + c • (1 : Matrix ι ι ℝ)).det = ∏ i, (lam i + c) := by
  apply det_of_eigendecomp' (A + c • (1 : Matrix ι ι ℝ)) Q (fun i => lam i + c) _ hQ
  have hd : Matrix.diagonal (fun i => lam i + c) = Matrix.diagonal lam + c • (1 : Matrix ι ι ℝ) := by
    ext i j
    by_cases h : i = j
    · subst h; simp
    · simp [h]
  rw [hd, Matrix.mul_add, Matrix.add_mul, ← hA, Matrix.mul_smul, Matrix.smul_mul, Matrix.mul_one, hQ]

/-- one scalar per factor -/
def KScal : List Nat → Type
  | [] => Unit
  | _ :: l => ℝ × KScal l

def KScal.toList : (l : List Nat) → KScal l → List ℝ
  | [], _ => []
  | _ :: l, (c, r) => c :: KScal.toList l r

/-- `ConstantDiagLinearOperator._diagonal()` per factor -/
def KScal.vecs : (l : List Nat) → KScal l → KVecs ℝ l
  | [], _ => ()
  | _ :: l, (c, r) => ((fun _ => c), KScal.vecs l r)

noncomputable def KScal.prod : (l : List Nat) → KScal l → ℝ
  | [], _ => 1
  | _ :: l, (c, r) => c * KScal.prod l r

def KScal.Pos : (l : List Nat) → KScal l → Prop
  | [], _ => True
  | _ :: l, (c, r) => 0 < c ∧ KScal.Pos l r

noncomputable def KVecs.divScal : (l : List Nat) → KVecs ℝ l → KScal l → KVecs ℝ l
  | [], _, _ => ()
  | _ :: l, (v, r), (c, s) => ((fun i => v i / c), KVecs.divScal l r s)

theorem KScal.prod_pos : (l : List Nat) → (cs : KScal l) → KScal.Pos l cs → 0 < KScal.prod l cs
  | [], _, _ => one_pos
  | _ :: l, (_, r), h => mul_pos h.1 (KScal.prod_pos l r h.2)

theorem kronEig_const : (l : List Nat) → (cs : KScal l) → (idx : KIdx l) →
    kronEig l (KScal.vecs l cs) idx = KScal.prod l cs
  | [], _, _ => rfl
  | _ :: l, (c, r), (_, j) => by
    show c * kronEig l (KScal.vecs l r) j = c * KScal.prod l r
    rw [kronEig_const l r j]

theorem kronEig_divScal : (l : List Nat) → (vs : KVecs ℝ l) → (cs : KScal l) → (idx : KIdx l) →
    kronEig l (KVecs.divScal l vs cs) idx = kronEig l vs idx / KScal.prod l cs
  | [], _, _, _ => by simp [kronEig, KScal.prod]
  | _ :: l, (v, r), (c, s), (i, j) => by
    show v i / c * kronEig l (KVecs.divScal l r s) j = v i * kronEig l r j / (c * KScal.prod l s)
    rw [kronEig_divScal l r s j, div_mul_div_comm]

theorem zipWith_divScal : (l : List Nat) → (vs : KVecs ℝ l) → (cs : KScal l) →
    List.zipWith (fun ev c => ev.map fun x => x / c) (KVecs.toLists l vs) (KScal.toList l cs)
      = KVecs.toLists l (KVecs.divScal l vs cs)
  | [], _, _ => rfl
  | _ :: l, (v, r), (c, s) => by
    show (List.ofFn v).map (fun x => x / c) :: List.zipWith _ (KVecs.toLists l r) (KScal.toList l s)
      = List.ofFn (fun i => v i / c) :: KVecs.toLists l (KVecs.divScal l r s)
    rw [zipWith_divScal l r s, List.map_ofFn]
    rfl

/-- **KPADLO `_logdet`, Kronecker diagonal with constant factors** (core of the property theorem). -/
theorem kpadloKronConst_aux (l : List Nat) (Ks Qs : KMatsM ℝ l) (lams : KVecs ℝ l) (cs : KScal l) (eps : ℝ)
    (h : EigOK l Ks Qs lams) (hc : KScal.Pos l cs) (heps : eps ≤ KScal.prod l cs)
    (hpos : ∀ idx, 0 < kronEig l lams idx + KScal.prod l cs) :
    kpadloKronConstLogdet Real.log (fun x => max x eps) (KVecs.toLists l lams) (KVecs.toLists l (KScal.vecs l cs))
        (KScal.toList l cs)
      = Real.log (kronAll l Ks + kronAll l (KMatsM.diagonal l (KScal.vecs l cs))).det := by
  have hC := KScal.prod_pos l cs hc
  obtain ⟨h1, h2⟩ := kronAll_eigendecomp l Ks Qs lams h
  have hD : kronAll l (KMatsM.diagonal l (KScal.vecs l cs)) = KScal.prod l cs • (1 : Matrix (KIdx l) (KIdx l) ℝ) := by
    rw [kronAll_diagonal]
    ext i j
    by_cases hij : i = j
    · subst hij; simp [kronEig_const]
    · simp [hij]
  unfold kpadloKronConstLogdet
  rw [hD, shift_det' _ _ _ _ h1 h2, Real.log_prod (fun idx _ => ne_of_gt (hpos idx)), zipWith_divScal,
    sum_map_kronDiag l (KScal.vecs l cs) (fun x => Real.log (max x eps)),
    sum_map_kronDiag l (KVecs.divScal l lams cs) (fun x => Real.log (x + 1)), ← Finset.sum_add_distrib]
  refine Finset.sum_congr rfl fun idx _ => ?_
  rw [kronEig_const, kronEig_divScal, max_eq_left heps]
  have hq : kronEig l lams idx / KScal.prod l cs + 1 = (kronEig l lams idx + KScal.prod l cs) / KScal.prod l cs := by
    field_simp
  rw [hq, Real.log_div (ne_of_gt (hpos idx)) (ne_of_gt hC)]
  ring

/-! ### symmetrised branch -/

/-- `rᵢ = dᵢ^{-1/2}` entrywise (`dlt.sqrt().inverse()`), `dᵢ > 0`. -/
def RootInv : (l : List Nat) → KVecs ℝ l → KVecs ℝ l → Prop
  | [], _, _ => True
  | _ :: l, (r, rs), (d, ds) => (∀ i, r i * r i * d i = 1 ∧ 0 < d i) ∧ RootInv l rs ds

theorem kronEig_rootInv : (l : List Nat) → (rs ds : KVecs ℝ l) → RootInv l rs ds → ∀ idx,
    kronEig l rs idx * kronEig l rs idx * kronEig l ds idx = 1 ∧ 0 < kronEig l ds idx
  | [], _, _, _, _ => by simp [kronEig]
  | _ :: l, (r, rs), (d, ds), h, (i, j) => by
    obtain ⟨h1, h2⟩ := kronEig_rootInv l rs ds h.2 j
    obtain ⟨h3, h4⟩ := h.1 i
    refine ⟨?_, mul_pos h4 h2⟩
    show r i * kronEig l rs j * (r i * kronEig l rs j) * (d i * kronEig l ds j) = 1
    calc _ = (r i * r i * d i) * (kronEig l rs j * kronEig l rs j * kronEig l ds j) := by ring
      _ = 1 := by rw [h1, h3, one_mul]

/-- **KPADLO `_logdet`, symmetrised branch** (core of the property theorem): with `Sᵢ = Dᵢ^-½ Kᵢ Dᵢ^-½ = Qᵢ diag(σᵢ) Qᵢᵀ`,
`logdet(D) + Σ log(σ + 1) = log det(⊗Kᵢ + ⊗Dᵢ)`. -/
theorem kpadloSymm_aux (l : List Nat) (Ks Qs : KMatsM ℝ l) (sigs ds rs : KVecs ℝ l)
    (hr : RootInv l rs ds)
    (h : EigOK l (KMatsM.mul l (KMatsM.diagonal l rs) (KMatsM.mul l Ks (KMatsM.diagonal l rs))) Qs sigs)
    (hpos : ∀ idx, 0 < kronEig l sigs idx + 1) :
    kpadloSymmLogdet Real.log (KVecs.toLists l sigs) (KVecs.toLists l ds)
      = Real.log (kronAll l Ks + kronAll l (KMatsM.diagonal l ds)).det := by
  obtain ⟨h1, h2⟩ := kronAll_eigendecomp l _ Qs sigs h
  rw [kronAll_mul, kronAll_mul, kronAll_diagonal] at h1
  set ρ := kronEig l rs with hρ
  set δ := kronEig l ds with hδ
  set K := kronAll l Ks with hK
  have hrd := kronEig_rootInv l rs ds hr
  -- diag ρ (K + diag δ) diag ρ = S + 1
  have hS : Matrix.diagonal ρ * (K + Matrix.diagonal δ) * Matrix.diagonal ρ
      = Matrix.diagonal ρ * (K * Matrix.diagonal ρ) + (1 : ℝ) • (1 : Matrix (KIdx l) (KIdx l) ℝ) := by
    rw [Matrix.mul_add, Matrix.add_mul, Matrix.mul_assoc, Matrix.diagonal_mul_diagonal, Matrix.diagonal_mul_diagonal, one_smul]
    congr 1
    rw [← Matrix.diagonal_one]
    congr 1
    funext idx
    have := (hrd idx).1
    calc ρ idx * δ idx * ρ idx = ρ idx * ρ idx * δ idx := by ring
      _ = 1 := this
  have hdet := shift_det' _ _ _ 1 h1 h2
  rw [← hS, Matrix.det_mul, Matrix.det_mul, Matrix.det_diagonal] at hdet
  have hδpos : 0 < ∏ idx, δ idx := Finset.prod_pos fun idx _ => (hrd idx).2
  have hρδ : (∏ idx, ρ idx) * (∏ idx, ρ idx) * ∏ idx, δ idx = 1 := by
    rw [← Finset.prod_mul_distrib, ← Finset.prod_mul_distrib]
    exact Finset.prod_eq_one fun idx _ => (hrd idx).1
  have hmain : (K + Matrix.diagonal δ).det = (∏ idx, δ idx) * ∏ idx, (kronEig l sigs idx + 1) := by
    have : (K + Matrix.diagonal δ).det = ((∏ idx, ρ idx) * (∏ idx, ρ idx) * ∏ idx, δ idx) * (K + Matrix.diagonal δ).det := by
      rw [hρδ, one_mul]
    rw [this, ← hdet]; ring
  unfold kpadloSymmLogdet
  rw [kronAll_diagonal, hmain, Real.log_mul (ne_of_gt hδpos)
      (ne_of_gt (Finset.prod_pos fun idx _ => hpos idx)),
    Real.log_prod (fun idx _ => ne_of_gt (hrd idx).2), Real.log_prod (fun idx _ => ne_of_gt (hpos idx)),
    sum_map_kronDiag l ds Real.log, sum_map_kronDiag l sigs (fun x => Real.log (x + 1))]

end LinOp.C05
