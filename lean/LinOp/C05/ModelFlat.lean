import LinOp.C05.ModelKron
/-!
C05 — row-major flattening of Kronecker multi-indices against flat index arithmetic (core Lean only).

`KIdx.flat l idx` is the position of the multi-index `idx` in a flat row-major tensor of sizes `l`
(`i₁·(n₂⋯n_k) + i₂·(n₃⋯n_k) + … + i_k`): what `reshape(-1)` / `view` do in `_kron_diag` and
`KroneckerProductLinearOperator._solve`.  `rowMajor_is_flat` proves that the enumeration `KIdx.all` used by the
model (`kronSolve`, `kronInvQuadCols`, and the driver's input / output order) visits exactly the flat positions
`0, 1, 2, …` in order — for every list of factor sizes.
-/
namespace LinOp.C05

/-- number of elements of a shape -/
def prodL (l : List Nat) : Nat := l.foldr (· * ·) 1

/-- flat row-major position of a multi-index -/
def KIdx.flat : (l : List Nat) → KIdx l → Nat
  | [], _ => 0
  | _ :: l, (i, j) => i.1 * prodL l + KIdx.flat l j

theorem prodL_cons (n : Nat) (l : List Nat) : prodL (n :: l) = n * prodL l := rfl

theorem KIdx.flat_lt : (l : List Nat) → (idx : KIdx l) → KIdx.flat l idx < prodL l
  | [], _ => by simp [KIdx.flat, prodL]
  | n :: l, (i, j) => by
    have h := KIdx.flat_lt l j
    have hi := i.2
    simp only [KIdx.flat, prodL_cons]
    calc i.1 * prodL l + KIdx.flat l j < i.1 * prodL l + prodL l := Nat.add_lt_add_left h _
      _ = (i.1 + 1) * prodL l := by rw [Nat.add_mul, Nat.one_mul]
      _ ≤ n * prodL l := Nat.mul_le_mul_right _ hi

/-- the leading index and the rest are recovered by division / remainder (flat index arithmetic) -/
theorem KIdx.flat_divmod (n : Nat) (l : List Nat) (i : Fin n) (j : KIdx l) :
    KIdx.flat (n :: l) (i, j) / prodL l = i.1 ∧ KIdx.flat (n :: l) (i, j) % prodL l = KIdx.flat l j := by
  have h := KIdx.flat_lt l j
  have hp : 0 < prodL l := Nat.lt_of_le_of_lt (Nat.zero_le _) h
  simp only [KIdx.flat]
  constructor
  · rw [Nat.add_comm, Nat.add_mul_div_right _ _ hp, Nat.div_eq_of_lt h, Nat.zero_add]
  · rw [Nat.add_comm, Nat.add_mul_mod_self_right, Nat.mod_eq_of_lt h]

theorem range_blocks (P : Nat) : (n : Nat) →
    (List.range n).flatMap (fun i => (List.range P).map (i * P + ·)) = List.range (n * P)
  | 0 => by simp
  | n + 1 => by
    rw [List.range_succ, List.flatMap_append, range_blocks P n, Nat.add_mul, Nat.one_mul, List.range_add]
    simp

theorem map_val_finRange (n : Nat) : (List.finRange n).map Fin.val = List.range n := by
  apply List.ext_getElem
  · simp
  · intro i h1 h2; simp

theorem finRange_flatMap_val {β : Type} (n : Nat) (g : Nat → List β) :
    (List.finRange n).flatMap (fun i => g i.1) = (List.range n).flatMap g := by
  rw [← map_val_finRange, List.flatMap_map]

theorem map_pair_flat (n : Nat) (l : List Nat) (i : Fin n) (L : List (KIdx l)) :
    (L.map fun j => ((i, j) : KIdx (n :: l))).map (KIdx.flat (n :: l))
      = (L.map (KIdx.flat l)).map (i.1 * prodL l + ·) := by
  induction L with
  | nil => rfl
  | cons a t ih => exact congrArg (List.cons (i.1 * prodL l + KIdx.flat l a)) ih

/-- **Row-major order is flat order**: the `k`-th multi-index of `KIdx.all l` has flat position `k`. -/
theorem rowMajor_is_flat : (l : List Nat) → (KIdx.all l).map (KIdx.flat l) = List.range (prodL l)
  | [] => rfl
  | n :: l => by
    have ih := rowMajor_is_flat l
    show List.map (KIdx.flat (n :: l)) ((List.finRange n).flatMap fun i => (KIdx.all l).map fun j => (i, j)) = _
    rw [List.map_flatMap]
    refine Eq.trans (congrArg (fun f => List.flatMap f (List.finRange n))
      (funext fun i => map_pair_flat n l i (KIdx.all l))) ?_
    show (List.finRange n).flatMap (fun i => ((KIdx.all l).map (KIdx.flat l)).map (i.1 * prodL l + ·)) = _
    rw [ih, finRange_flatMap_val n (fun i => (List.range (prodL l)).map (i * prodL l + ·)), range_blocks, prodL_cons]

theorem KIdx.all_length (l : List Nat) : (KIdx.all l).length = prodL l := by
  have := congrArg List.length (rowMajor_is_flat l)
  simpa using this

end LinOp.C05
