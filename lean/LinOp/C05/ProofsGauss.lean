import Mathlib.LinearAlgebra.Matrix.NonsingularInverse
import Mathlib.Data.Matrix.Mul
/-!
C05 — Gauss–Lanczos quadrature below full dimension: for the Krylov-(k+1) tridiagonal matrix `T` of `(A, u)`
the node `e₁ᵀ p(T) e₁` equals `uᵀ p(A) u` for every monomial (hence polynomial) of degree ≤ 2k+1 — the defining exactness
of a (k+1)-point Gauss rule for the spectral measure of `(A, u)`.
-/
namespace LinOp.C05
open Matrix

variable {R : Type} [CommRing R] {n k : Nat}

/-- lower-Hessenberg powers: `(T^d e₁)ᵢ = 0` for `i > d` -/
theorem pow_mulVec_e1_zero (T : Matrix (Fin (k + 1)) (Fin (k + 1)) R)
    (hT : ∀ i j : Fin (k + 1), j.1 + 1 < i.1 → T i j = 0) :
    ∀ (d : Nat) (i : Fin (k + 1)), d < i.1 → ((T ^ d).mulVec (Pi.single 0 1)) i = 0 := by
  intro d
  induction d with
  | zero =>
    intro i hi
    have : i ≠ 0 := fun h => by rw [h] at hi; exact absurd hi (by simp)
    simp [Pi.single_apply, this]
  | succ d ih =>
    intro i hi
    rw [pow_succ', ← Matrix.mulVec_mulVec, Matrix.mulVec, dotProduct]
    refine Finset.sum_eq_zero fun j _ => ?_
    by_cases hj : d < j.1
    · rw [ih j hj, mul_zero]
    · rw [hT i j (by omega), zero_mul]

/-- `A^d u = Q T^d e₁` for `d ≤ k` (`u = Q e₁`), from the Lanczos relation `A Q = Q T` off the last column. -/
theorem krylov_pow (A : Matrix (Fin n) (Fin n) R) (Q : Matrix (Fin n) (Fin (k + 1)) R)
    (T : Matrix (Fin (k + 1)) (Fin (k + 1)) R)
    (hT : ∀ i j : Fin (k + 1), j.1 + 1 < i.1 → T i j = 0)
    (hres : ∀ (i : Fin n) (j : Fin (k + 1)), j.1 < k → (A * Q) i j = (Q * T) i j) :
    ∀ d, d ≤ k → (A ^ d).mulVec (Q.mulVec (Pi.single 0 1)) = Q.mulVec ((T ^ d).mulVec (Pi.single 0 1)) := by
  intro d
  induction d with
  | zero => intro _; rw [pow_zero, pow_zero, Matrix.one_mulVec, Matrix.one_mulVec]
  | succ d ih =>
    intro hd
    rw [pow_succ', ← Matrix.mulVec_mulVec, ih (by omega), Matrix.mulVec_mulVec, pow_succ', ← Matrix.mulVec_mulVec (M := T),
      Matrix.mulVec_mulVec (M := Q) (N := T)]
    funext i
    have hw := pow_mulVec_e1_zero T hT d
    generalize (T ^ d).mulVec (Pi.single 0 1) = w at hw ⊢
    show (A * Q) i ⬝ᵥ w = (Q * T) i ⬝ᵥ w
    simp only [dotProduct]
    refine Finset.sum_congr rfl fun j _ => ?_
    by_cases hj : j.1 < k
    · rw [hres i j hj]
    · have hjk : d < j.1 := by have := j.2; omega
      rw [hw j hjk, mul_zero, mul_zero]

theorem sym_pow_dot {m : Nat} (M : Matrix (Fin m) (Fin m) R) (hM : Mᵀ = M) (a : Nat) (v x : Fin m → R) :
    (M ^ a).mulVec v ⬝ᵥ x = v ⬝ᵥ (M ^ a).mulVec x := by
  have ht : (M ^ a)ᵀ = M ^ a := by rw [Matrix.transpose_pow, hM]
  rw [← Matrix.vecMul_transpose, ht, ← Matrix.dotProduct_mulVec]

theorem mulVec_dot {m p : Nat} (Q : Matrix (Fin m) (Fin p) R) (w : Fin p → R) (y : Fin m → R) :
    Q.mulVec w ⬝ᵥ y = w ⬝ᵥ Qᵀ.mulVec y := by
  rw [← Matrix.vecMul_transpose, ← Matrix.dotProduct_mulVec]

/-- **Gauss–Lanczos exactness**: with `QᵀQ = 1`, `QᵀAQ = T`, `A Q = Q T` off the last column, `T` lower-Hessenberg
(tridiagonal), `A` symmetric: `uᵀ A^d u = e₁ᵀ T^d e₁` for every `d ≤ 2k+1` (`u = Q e₁`, `T` of size `k+1`). -/
theorem gauss_exact (A : Matrix (Fin n) (Fin n) R) (Q : Matrix (Fin n) (Fin (k + 1)) R)
    (T : Matrix (Fin (k + 1)) (Fin (k + 1)) R) (hA : Aᵀ = A) (hQ : Qᵀ * Q = 1) (hP : Qᵀ * A * Q = T)
    (hT : ∀ i j : Fin (k + 1), j.1 + 1 < i.1 → T i j = 0)
    (hres : ∀ (i : Fin n) (j : Fin (k + 1)), j.1 < k → (A * Q) i j = (Q * T) i j)
    (d : Nat) (hd : d ≤ 2 * k + 1) :
    Q.mulVec (Pi.single 0 1) ⬝ᵥ (A ^ d).mulVec (Q.mulVec (Pi.single 0 1))
      = (Pi.single 0 1 : Fin (k + 1) → R) ⬝ᵥ (T ^ d).mulVec (Pi.single 0 1) := by
  have hTs : Tᵀ = T := by
    rw [← hP, Matrix.transpose_mul, Matrix.transpose_mul, Matrix.transpose_transpose, hA, Matrix.mul_assoc]
  have hkp := krylov_pow A Q T hT hres
  by_cases hd2 : d ≤ 2 * k
  · obtain ⟨a, b, hab, ha, hb⟩ : ∃ a b, d = a + b ∧ a ≤ k ∧ b ≤ k := ⟨d / 2, d - d / 2, by omega, by omega, by omega⟩
    subst hab
    rw [pow_add, ← Matrix.mulVec_mulVec, ← sym_pow_dot A hA, hkp a ha, hkp b hb, mulVec_dot, Matrix.mulVec_mulVec, hQ,
      Matrix.one_mulVec, sym_pow_dot T hTs, Matrix.mulVec_mulVec, ← pow_add]
  · have hdk : d = k + (1 + k) := by omega
    subst hdk
    rw [pow_add, ← Matrix.mulVec_mulVec, ← sym_pow_dot A hA, pow_add, pow_one, ← Matrix.mulVec_mulVec (M := A),
      hkp k le_rfl, mulVec_dot, Matrix.mulVec_mulVec, Matrix.mulVec_mulVec, hP,
      sym_pow_dot T hTs, Matrix.mulVec_mulVec, Matrix.mulVec_mulVec]
    have hp : T ^ k * T * T ^ k = T ^ (k + (1 + k)) := by rw [pow_add, pow_add, pow_one, Matrix.mul_assoc]
    rw [hp]

/-- spectral calculus for monomials: `(V diag(θ) Vᵀ)^d = V diag(θ^d) Vᵀ` when `VᵀV = 1`. -/
theorem eig_pow {m : Nat} (V : Matrix (Fin m) (Fin m) R) (θ : Fin m → R) (hV : Vᵀ * V = 1) (hV' : V * Vᵀ = 1) (d : Nat) :
    (V * Matrix.diagonal θ * Vᵀ) ^ d = V * Matrix.diagonal (fun j => θ j ^ d) * Vᵀ := by
  induction d with
  | zero => simp [hV']
  | succ d ih =>
    rw [pow_succ, ih]
    calc V * Matrix.diagonal (fun j => θ j ^ d) * Vᵀ * (V * Matrix.diagonal θ * Vᵀ)
        = V * (Matrix.diagonal (fun j => θ j ^ d) * ((Vᵀ * V) * Matrix.diagonal θ)) * Vᵀ := by
          simp only [Matrix.mul_assoc]
      _ = _ := by
          rw [hV, Matrix.one_mul, Matrix.diagonal_mul_diagonal]
          simp only [pow_succ]

theorem e1_dot_e1 {m : Nat} (M : Matrix (Fin (m + 1)) (Fin (m + 1)) R) :
    (Pi.single 0 1 : Fin (m + 1) → R) ⬝ᵥ M.mulVec (Pi.single 0 1) = M 0 0 := by
  simp [Matrix.mulVec, dotProduct, Pi.single_apply]

/-- one probe: the quadrature node computed from the eigendecomposition of the Krylov-(k+1) tridiagonal equals the
moment `uᵀ A^d u` for every degree `d ≤ 2k+1`. -/
theorem gauss_node_exact (A : Matrix (Fin n) (Fin n) R) (Q : Matrix (Fin n) (Fin (k + 1)) R)
    (V : Matrix (Fin (k + 1)) (Fin (k + 1)) R) (θ : Fin (k + 1) → R)
    (hA : Aᵀ = A) (hQ : Qᵀ * Q = 1) (hP : Qᵀ * A * Q = V * Matrix.diagonal θ * Vᵀ)
    (hV : Vᵀ * V = 1) (hV' : V * Vᵀ = 1)
    (hT : ∀ i j : Fin (k + 1), j.1 + 1 < i.1 → (V * Matrix.diagonal θ * Vᵀ) i j = 0)
    (hres : ∀ (i : Fin n) (j : Fin (k + 1)), j.1 < k → (A * Q) i j = (Q * (V * Matrix.diagonal θ * Vᵀ)) i j)
    (d : Nat) (hd : d ≤ 2 * k + 1) :
    (V * Matrix.diagonal (fun j => θ j ^ d) * Vᵀ) 0 0
      = Q.mulVec (Pi.single 0 1) ⬝ᵥ (A ^ d).mulVec (Q.mulVec (Pi.single 0 1)) := by
  rw [gauss_exact A Q _ hA hQ hP hT hres d hd, e1_dot_e1, eig_pow V θ hV hV' d]

end LinOp.C05
