import LinOp.Core.Basic
/-
C05 — executable model (core Lean only) of the value assembly in
`inv_quad_logdet` / `InvQuad.forward` / `InvQuadLogdet.forward` / `StochasticLQ.to_dense` and of
the closed-form log-determinant formulas of the structured classes.

External primitives (Cholesky, eigh, log, CG/Lanczos) are parameters: the functions below take their
*outputs* (a factor's diagonal, eigenvalues/eigenvectors of the tridiagonal matrices, the solve
`S = A⁻¹R`, already-applied `f(θ)` values) and mirror only what the Python does with them.

  InvQuad.forward / InvQuadLogdet.forward : (solves * rhs).sum(-2)                → `invQuadCols`
  LinearOperator.inv_quad(_logdet)        : inv_quad_term.sum(-1) when reducing    → `invQuadReduce`
  CholLinearOperator.inv_quad             : (L⁻¹R)**2 .sum(-2)                      → `cholInvQuadCols`
  CholLinearOperator.inv_quad_logdet      : chol_diag.pow(2).log().sum(-1)          → `cholLogdet`
  TriangularLinearOperator.inv_quad_logdet: diag.abs().log().sum(-1), NaN if Π sign < 0 → `triLogdet`
  DiagLinearOperator.inv_quad_logdet      : diag.log().sum(-1); rhs.div(diag).mul(rhs).sum → `diagLogdet`, `diagInvQuadCols`
  KroneckerProductLinearOperator._logdet  : Σ log of all products of factor eigenvalues → `kronLogdet`
  KPADLO._logdet (constant diagonal)      : Σ log(λᵢ + c)                            → `shiftLogdet`
  LowRankRootAddedDiag._logdet            : 2 Σ log diag(chol_cap) + logdet(D)       → `lrradLogdet`
  Block*.inv_quad_logdet                  : view(...).sum(-1) over the block dim     → `blockReduce`
  StochasticLQ.to_dense                   : Σ_probes (n/m) Σ_j V[0,j]² f(θ_j)        → `slqAssemble`
  inv_quad_logdet                         : logdet_term + logdet_p                   → `precondCorrect`
-/
namespace LinOp.C05
open LinOp

variable {α : Type}

/-- `(solves * rhs).sum(-2)`: entry `j` is `Σ_i S[i,j] R[i,j]`. -/
def invQuadCols [Add α] [Zero α] [Mul α] {n m : Nat} (S R : Mat α n m) : Fin m → α :=
  fun j => sumFin n fun i => S i j * R i j

/-- `inv_quad_term.sum(-1)`. -/
def invQuadReduce [Add α] [Zero α] {m : Nat} (q : Fin m → α) : α := sumFin m q

/-- `CholLinearOperator.inv_quad`: `(R'**2).sum(-2)` with `R' = L⁻¹ R` the triangular solve. -/
def cholInvQuadCols [Add α] [Zero α] [Mul α] {n m : Nat} (R' : Mat α n m) : Fin m → α :=
  fun j => sumFin n fun i => R' i j * R' i j

/-- `DiagLinearOperator.inv_quad_logdet`: `rhs.div(diag).mul(rhs).sum(-2)`. -/
def diagInvQuadCols [Add α] [Zero α] [Mul α] [Div α] {n m : Nat} (d : Fin n → α) (R : Mat α n m) : Fin m → α :=
  fun j => sumFin n fun i => R i j / d i * R i j

/-- `chol_diag.pow(2).log().sum(-1)`, `lg` the logarithm primitive. -/
def cholLogdet [Add α] [Zero α] [Mul α] (lg : α → α) {n : Nat} (ld : Fin n → α) : α :=
  sumFin n fun i => lg (ld i * ld i)

/-- sign of a scalar as `-1 / 0 / 1` (mirrors `torch.sign`), from a `< 0` / `= 0` test. -/
def sgn [Zero α] [One α] [Neg α] (neg zer : α → Bool) (x : α) : α :=
  if neg x then -1 else if zer x then 0 else 1

/-- `TriangularLinearOperator.inv_quad_logdet`'s log-determinant: `Σ log|dᵢ|`, replaced by NaN
(`none`) when the product of the diagonal's signs is negative. -/
def triLogdet [Add α] [Zero α] [Mul α] [One α] [Neg α] (lg ab : α → α) (neg zer : α → Bool) {n : Nat}
    (d : Fin n → α) : Option α :=
  if neg (Fin.foldl n (fun acc i => acc * sgn neg zer (d i)) 1) then none
  else some (sumFin n fun i => lg (ab (d i)))

/-- `diag.log().sum(-1)`. -/
def diagLogdet [Add α] [Zero α] (lg : α → α) {n : Nat} (d : Fin n → α) : α := sumFin n fun i => lg (d i)

/-- Kronecker `_logdet`: the eigenvalues of `A ⊗ B` are all products `λᵢ μⱼ`; sum of their logs. -/
def kronLogdet [Add α] [Zero α] [Mul α] (lg : α → α) {n m : Nat} (lam : Fin n → α) (mu : Fin m → α) : α :=
  sumFin n fun i => sumFin m fun j => lg (lam i * mu j)

/-- KPADLO `_logdet`, constant diagonal: `log(evals + c).sum(-1)`. -/
def shiftLogdet [Add α] [Zero α] (lg : α → α) {n : Nat} (lam : Fin n → α) (c : α) : α :=
  sumFin n fun i => lg (lam i + c)

/-- LowRankRootAddedDiag `_logdet`: `2 * diag(chol_cap).log().sum(-1) + logdet(D)`. -/
def lrradLogdet [Add α] [Zero α] [Mul α] (lg : α → α) (two : α) {k n : Nat} (capDiag : Fin k → α) (d : Fin n → α) : α :=
  two * (sumFin k fun i => lg (capDiag i)) + diagLogdet lg d

/-- Block operators: per-block results summed over the block dimension. -/
def blockReduce [Add α] [Zero α] {k : Nat} (x : Fin k → α) : α := sumFin k x

/-- `StochasticLQ.to_dense` for one function `f`: `fθ i j = f(θᵢⱼ)` (already applied), `v0 i j` the
first components `eigenvectors[i][0, j]`; `nOverM = matrix_shape[-1] / num_random_probes`. -/
def slqAssemble [Add α] [Zero α] [Mul α] (nOverM : α) {m k : Nat} (v0 fθ : Fin m → Fin k → α) : α :=
  Fin.foldl m (fun acc i => acc + nOverM * (sumFin k fun j => v0 i j * v0 i j * fθ i j)) 0

/-- `logdet_term = pinvk_logdet + logdet_p`. -/
def precondCorrect [Add α] (pinvkLogdet logdetP : α) : α := pinvkLogdet + logdetP

end LinOp.C05

/-! ## Output-shape conventions of `inv_quad_logdet`

`shapes p batch rhs logdet reduce` mirrors, per code path `p`, what the two returned terms are:
`none` (Python `None`), `empty` (`torch.empty(0)`), a tensor of a given shape, or `err` (the call raises).
`batch` is the operator's batch shape.  Mirrored statement by statement from
`CholLinearOperator.inv_quad(_logdet)`, `TriangularLinearOperator.inv_quad_logdet`,
`DiagLinearOperator.inv_quad_logdet`, `IdentityLinearOperator.inv_quad_logdet`,
`KroneckerProduct(AddedDiag)LinearOperator.inv_quad_logdet`, `SumKronecker…`/`LowRankRootAddedDiag….inv_quad_logdet`,
`LinearOperator.inv_quad_logdet` + `inv_quad` + `InvQuad(Logdet).forward`, `Block{Diag,Interleaved}….inv_quad_logdet`
and `BatchRepeatLinearOperator.inv_quad_logdet`. -/
namespace LinOp.C05

inductive Term where
  | none | empty | shape (s : List Nat) | err
  deriving DecidableEq, Repr

inductive Rhs where
  | absent | vec | mat (m : Nat)
  deriving DecidableEq, Repr

inductive Path where
  | chol | tri | diag | identity | closed | slq
  | kron (inner : Path)
  | kronFb (inner : Path)    -- KPADLO whose `_logdet` falls back to `super().inv_quad_logdet(logdet=True)[1]`
  | block (inner : Path) (k : Nat)
  | rep (inner : Path) (baseBatch rep : List Nat)
  | cat (inner : Path)       -- CatLinearOperator: `super().inv_quad_logdet(...)`, then `.to(device)` on every non-`None` term
  deriving Repr

def numel (s : List Nat) : Nat := s.foldr (· * ·) 1

/-- `t is not None and t.numel()` -/
def Term.live : Term → Bool
  | .shape s => numel s != 0
  | _ => false

/-- `if t.numel() and reduce: t = t.sum(-1)` -/
def redIf (s : List Nat) (reduce : Bool) : List Nat := if numel s != 0 && reduce then s.dropLast else s

/-- `tensor.repeat(*rep)` on a tensor of shape `s` (`s.length ≤ rep.length`). -/
def repeatShape (rep s : List Nat) : List Nat :=
  List.zipWith (· * ·) rep (List.replicate (rep.length - s.length) 1 ++ s)

def bothErr : Term × Term := (.err, .err)

/-- What `Block{Diag,Interleaved}LinearOperator.inv_quad_logdet` does with the base operator's two results
(`bb = batch ++ [k]` is the base operator's batch shape).  Only the terms that were requested are
post-processed (`hasRhs`, `logdet`): the base may return placeholders of any shape for the others
(behaviour of notes/C05_fix_6.diff; before it the placeholders were post-processed too and the call raised). -/
def blockPost (batch : List Nat) (k : Nat) (hasRhs logdet reduce : Bool) : Term × Term → Term × Term
  | (.err, _) => bothErr
  | (_, .err) => bothErr
  | (iq, ld) =>
    let bb := batch ++ [k]
    let iq' : Term :=
      match iq with
      | .shape s =>
        if hasRhs && numel s != 0 then
          if reduce then (if numel s = numel bb then .shape batch else .err)   -- view(*base.batch_shape).sum(-1)
          else match s.getLast? with                                          -- view(*base.batch_shape, size(-1)).sum(-2)
            | some l => if numel s = numel bb * l then .shape (batch ++ [l]) else .err
            | none => .err
        else iq
      | t => t
    let ld' : Term :=
      match ld with
      | .shape s => if logdet && numel s != 0 then (if s = [] then .err else .shape s.dropLast) else ld   -- view(*shape).sum(-1)
      | t => t
    match iq', ld' with
    | .err, _ => bothErr
    | _, .err => bothErr
    | a, b => (a, b)

/-- `BatchRepeatLinearOperator.inv_quad_logdet`'s post-processing (requested terms only, as above). -/
def repPost (batch baseBatch rep : List Nat) (rhs : Rhs) (logdet reduce : Bool) : Term × Term → Term × Term
  | (.err, _) => bothErr
  | (_, .err) => bothErr
  | (iq, ld) =>
    let r := numel rep
    let iq' : Term :=
      match iq, rhs with
      | .shape s, .mat m =>
        if numel s != 0 then
          (if s = baseBatch ++ [m * r] then .shape (if reduce then batch else batch ++ [m]) else .err)
        else iq
      | t, _ => t
    let ld' : Term :=
      match ld with
      | .shape s => if logdet && numel s != 0 then .shape (repeatShape rep s) else ld
      | t => t
    match iq' with
    | .err => bothErr
    | a => (a, ld')

/-- `CatLinearOperator.inv_quad_logdet`: `r.to(self.device) if r is not None else None` per term — `.to` keeps the kind
(`torch.empty(0)` stays empty) and the shape; an exception of the base call propagates. -/
def Term.to : Term → Term
  | .none => .none
  | .empty => .empty
  | .shape s => .shape s
  | .err => .err

def catPost : Term × Term → Term × Term
  | (.err, _) => bothErr
  | (_, .err) => bothErr
  | (a, b) => (a.to, b.to)

/- A 1-D right-hand side (allowed for unbatched operators only) is treated as a one-column matrix
(behaviour of notes/C05_fix_2.diff; before it most closed-form classes raised on it). -/
def shapes : Path → List Nat → Rhs → Bool → Bool → Term × Term
  | .chol, batch, rhs, logdet, reduce =>
    let ld := if logdet then Term.shape batch else .none
    match rhs with
    | .absent => (.none, ld)
    | .vec => if batch = [] then (.shape (redIf [1] reduce), ld) else bothErr
    | .mat m => (.shape (redIf (batch ++ [m]) reduce), ld)
  | .tri, batch, rhs, logdet, reduce =>
    let ld := if logdet then Term.shape batch else .empty
    match rhs with
    | .absent => (.empty, ld)
    | .vec => if batch = [] then (.shape (redIf [1] reduce), ld) else bothErr
    | .mat m => (.shape (redIf (batch ++ [m]) reduce), ld)
  | .diag, batch, rhs, logdet, reduce =>
    let ld := if logdet then Term.shape batch else .empty
    match rhs with
    | .absent => (.empty, ld)
    | .vec => if batch = [] then (.shape [], ld) else bothErr
    | .mat m => (.shape (if reduce then batch else batch ++ [m]), ld)
  | .identity, batch, rhs, logdet, reduce =>
    let ld := if logdet then Term.shape batch else .empty
    match rhs with
    | .absent => (.empty, ld)
    | .vec => if batch = [] then (.shape [], ld) else bothErr
    | .mat m => (.shape (if reduce then batch else batch ++ [m]), ld)
  | .closed, batch, rhs, logdet, reduce =>
    let ld := if logdet then Term.shape batch else .none
    match rhs with
    | .absent => (.none, ld)
    | .vec => if batch = [] then (.shape (redIf [1] reduce), ld) else bothErr
    | .mat m => (.shape (redIf (batch ++ [m]) reduce), ld)
  | .slq, batch, rhs, logdet, reduce =>
    if logdet then
      match rhs with
      | .absent => (.shape (redIf batch reduce), .shape batch)       -- zeros(batch_shape) placeholder, reduced (!)
      | .vec => if batch = [] then (.shape (redIf [1] reduce), .shape batch) else bothErr
      | .mat m => (.shape (redIf (batch ++ [m]) reduce), .shape batch)
    else
      match rhs with
      | .absent => bothErr                  -- "Either inv_quad_rhs or logdet must be specified"
      -- `return self.inv_quad(...)` comes BEFORE the dimension checks: a 1-D rhs is accepted on an operator with ONE batch
      -- dimension too (`_matmul_broadcast_shape` + `expand(*result_shape[:-2], n)` leave it a vector, i.e. one column broadcast
      -- over the batch); with two or more batch dimensions the `expand` turns it into a `… × n` matrix and the call raises
      -- (unless n happens to equal the last batch size — finding)
      | .vec => if batch.length ≤ 1 then (.shape (if reduce then batch else batch ++ [1]), .shape []) else bothErr
      | .mat m => (.shape (if reduce then batch else batch ++ [m]), .shape [])
  | .kron inner, batch, rhs, logdet, reduce =>
    let ld := if logdet then Term.shape batch else .none
    match rhs with
    | .absent => (.none, ld)
    | _ =>
      match (shapes inner batch rhs false reduce).1 with
      | .err => bothErr
      | t => (t, ld)
  | .kronFb inner, batch, rhs, logdet, reduce =>
    let ld := if logdet then (shapes inner batch .absent true true).2 else .none
    match rhs with
    | .absent => if ld = .err then bothErr else (.none, ld)
    | _ =>
      match (shapes inner batch rhs false reduce).1, ld with
      | .err, _ => bothErr
      | _, .err => bothErr
      | t, l => (t, l)
  | .block inner k, batch, rhs, logdet, reduce =>
    match rhs with
    | .vec => if batch = [] then blockPost batch k true logdet reduce (shapes inner (batch ++ [k]) (.mat 1) logdet reduce)
              else bothErr
    | .absent => blockPost batch k false logdet reduce (shapes inner (batch ++ [k]) .absent logdet reduce)
    | .mat m => blockPost batch k true logdet reduce (shapes inner (batch ++ [k]) (.mat m) logdet reduce)
  | .rep inner baseBatch rep, batch, rhs, logdet, reduce =>
    match rhs with
    | .vec => bothErr                        -- a BatchRepeat operator always has a batch: explicit dimension check
    | .absent => repPost batch baseBatch rep .absent logdet reduce (shapes inner baseBatch .absent logdet false)
    | .mat m => repPost batch baseBatch rep (.mat m) logdet reduce (shapes inner baseBatch (.mat (m * numel rep)) logdet false)
  | .cat inner, batch, rhs, logdet, reduce =>
    -- `tuple(r.to(self.device) if r is not None else None for r in res)`: kinds and shapes are those of the base-class call
    catPost (shapes inner batch rhs logdet reduce)

end LinOp.C05
