import LinOp.C05.ProofsKron
/-!
C05 — Kronecker products with any number of factors, part 2: the list model `kronDiag` as a sum over multi-indices,
eigendecomposition and determinant of `kronAll`.
-/
namespace LinOp.C05
open Matrix LinOp
open scoped Kronecker

variable {R : Type}

theorem kronDiag_cons [CommSemiring R] (d : List R) (rest : List (List R)) :
    kronDiag (d :: rest) = d.flatMap fun a => (kronDiag rest).map fun b => a * b := by
  cases rest with
  | nil => simp [kronDiag]
  | cons e r => rfl

theorem sum_map_flatMap {α β S : Type} [AddCommMonoid S] (d : List α) (g : α → List β) (f : β → S) :
    ((d.flatMap g).map f).sum = (d.map fun a => ((g a).map f).sum).sum := by
  induction d with
  | nil => simp
  | cons a t ih => simp [List.flatMap_cons, ih]

theorem sum_univ_KIdx_nil {S : Type} [AddCommMonoid S] (g : KIdx [] → S) : ∑ idx : KIdx [], g idx = g () := by
  show ∑ idx : Unit, g idx = g ()
  exact Fintype.sum_unique _

theorem prod_univ_KIdx_nil {S : Type} [CommMonoid S] (g : KIdx [] → S) : ∏ idx : KIdx [], g idx = g () := by
  show ∏ idx : Unit, g idx = g ()
  exact Fintype.prod_unique _

theorem sum_univ_KIdx_cons {S : Type} [AddCommMonoid S] (n : Nat) (l : List Nat) (g : KIdx (n :: l) → S) :
    ∑ idx : KIdx (n :: l), g idx = ∑ i : Fin n, ∑ j : KIdx l, g (i, j) := by
  exact Fintype.sum_prod_type (fun p : Fin n × KIdx l => g p)

theorem prod_univ_KIdx_cons {S : Type} [CommMonoid S] (n : Nat) (l : List Nat) (g : KIdx (n :: l) → S) :
    ∏ idx : KIdx (n :: l), g idx = ∏ i : Fin n, ∏ j : KIdx l, g (i, j) := by
  exact Fintype.prod_prod_type (fun p : Fin n × KIdx l => g p)

/-- **The list model is the multi-index family**: summing `f` over `_kron_diag(v₁,…,v_k)` is summing `f` over all
products `Πᵢ vᵢ[jᵢ]`. -/
theorem sum_map_kronDiag [CommSemiring R] {S : Type} [AddCommMonoid S] : (l : List Nat) → (vs : KVecs R l) → (f : R → S) →
    ((kronDiag (KVecs.toLists l vs)).map f).sum = ∑ idx : KIdx l, f (kronEig l vs idx)
  | [], _, f => by
    rw [sum_univ_KIdx_nil]
    simp [KVecs.toLists, kronDiag, kronEig]
  | n :: l, (v, r), f => by
    rw [sum_univ_KIdx_cons]
    show ((kronDiag (List.ofFn v :: KVecs.toLists l r)).map f).sum = ∑ i : Fin n, ∑ j : KIdx l, f (v i * kronEig l r j)
    rw [kronDiag_cons, sum_map_flatMap, List.map_ofFn, List.sum_ofFn]
    refine Finset.sum_congr rfl fun i _ => ?_
    simp only [Function.comp, List.map_map]
    exact sum_map_kronDiag l r (fun b => f (v i * b))

/-- membership form: every entry of `_kron_diag` is one of the products. -/
theorem mem_kronDiag [CommSemiring R] : (l : List Nat) → (vs : KVecs R l) → (x : R) →
    x ∈ kronDiag (KVecs.toLists l vs) → ∃ idx : KIdx l, x = kronEig l vs idx
  | [], _, x, h => by
    refine ⟨(), ?_⟩
    simpa [KVecs.toLists, kronDiag, kronEig] using h
  | n :: l, (v, r), x, h => by
    have h' : x ∈ kronDiag (List.ofFn v :: KVecs.toLists l r) := h
    rw [kronDiag_cons] at h'
    simp only [List.mem_flatMap, List.mem_map, List.mem_ofFn] at h'
    obtain ⟨a, ⟨i, rfl⟩, b, hb, rfl⟩ := h'
    obtain ⟨j, rfl⟩ := mem_kronDiag l r b hb
    exact ⟨(i, j), rfl⟩

theorem kronEig_mem [CommSemiring R] : (l : List Nat) → (vs : KVecs R l) → (idx : KIdx l) →
    kronEig l vs idx ∈ kronDiag (KVecs.toLists l vs)
  | [], _, _ => by simp [KVecs.toLists, kronDiag, kronEig]
  | n :: l, (v, r), (i, j) => by
    show v i * kronEig l r j ∈ kronDiag (List.ofFn v :: KVecs.toLists l r)
    rw [kronDiag_cons]
    simp only [List.mem_flatMap, List.mem_map, List.mem_ofFn]
    exact ⟨v i, ⟨i, rfl⟩, _, kronEig_mem l r j, rfl⟩

/-! ### eigendecomposition and determinant -/

/-- per factor: `Aᵢ = Qᵢ diag(λᵢ) Qᵢᵀ`, `Qᵢ Qᵢᵀ = 1` (the `eigh` contract). -/
def EigOK [CommSemiring R] : (l : List Nat) → KMatsM R l → KMatsM R l → KVecs R l → Prop
  | [], _, _, _ => True
  | _ :: l, (A, r), (Q, q), (v, w) => A = Q * Matrix.diagonal v * Qᵀ ∧ Q * Qᵀ = 1 ∧ EigOK l r q w

theorem kronAll_eigendecomp [CommSemiring R] : (l : List Nat) → (As Qs : KMatsM R l) → (vs : KVecs R l) → EigOK l As Qs vs →
    kronAll l As = kronAll l Qs * Matrix.diagonal (kronEig l vs) * (kronAll l Qs)ᵀ ∧
    kronAll l Qs * (kronAll l Qs)ᵀ = 1
  | [], _, _, _, _ => by
    constructor
    · show (1 : Matrix (KIdx []) (KIdx []) R) = 1 * Matrix.diagonal (fun _ => 1) * 1ᵀ
      rw [Matrix.diagonal_one, Matrix.transpose_one, one_mul, one_mul]
    · show (1 : Matrix (KIdx []) (KIdx []) R) * 1ᵀ = 1
      rw [Matrix.transpose_one, one_mul]
  | n :: l, (A, r), (Q, q), (v, w), h => by
    obtain ⟨hA, hQ, hr⟩ := h
    obtain ⟨ih1, ih2⟩ := kronAll_eigendecomp l r q w hr
    constructor
    · show (A ⊗ₖ kronAll l r : Matrix (Fin n × KIdx l) (Fin n × KIdx l) R)
        = (Q ⊗ₖ kronAll l q : Matrix (Fin n × KIdx l) (Fin n × KIdx l) R)
          * (Matrix.diagonal (fun p : Fin n × KIdx l => v p.1 * kronEig l w p.2))
          * (Q ⊗ₖ kronAll l q : Matrix (Fin n × KIdx l) (Fin n × KIdx l) R)ᵀ
      rw [← Matrix.diagonal_kronecker_diagonal, ← Matrix.kroneckerMap_transpose, ← Matrix.mul_kronecker_mul,
        ← Matrix.mul_kronecker_mul, ← hA, ← ih1]
    · show (Q ⊗ₖ kronAll l q : Matrix (Fin n × KIdx l) (Fin n × KIdx l) R)
          * (Q ⊗ₖ kronAll l q : Matrix (Fin n × KIdx l) (Fin n × KIdx l) R)ᵀ = 1
      rw [← Matrix.kroneckerMap_transpose, ← Matrix.mul_kronecker_mul, hQ, ih2, Matrix.one_kronecker_one]

/-- `A = Q diag(λ) Qᵀ` with `Q Qᵀ = I` has determinant `Π λᵢ` (any finite index type). -/
theorem det_of_eigendecomp' [CommRing R] {ι : Type} [Fintype ι] [DecidableEq ι] (A Q : Matrix ι ι R)
    (lam : ι → R) (hA : A = Q * Matrix.diagonal lam * Qᵀ) (hQ : Q * Qᵀ = 1) : A.det = ∏ i, lam i := by
  have h1 : Q.det * Qᵀ.det = 1 := by rw [← Matrix.det_mul, hQ, Matrix.det_one]
  rw [hA, Matrix.det_mul, Matrix.det_mul, Matrix.det_diagonal]
  calc Q.det * (∏ i, lam i) * Qᵀ.det = (Q.det * Qᵀ.det) * ∏ i, lam i := by ring
    _ = _ := by rw [h1, one_mul]

theorem det_kronAll_eig [CommRing R] (l : List Nat) (As Qs : KMatsM R l) (vs : KVecs R l) (h : EigOK l As Qs vs) :
    (kronAll l As).det = ∏ idx : KIdx l, kronEig l vs idx :=
  let ⟨h1, h2⟩ := kronAll_eigendecomp l As Qs vs h
  det_of_eigendecomp' _ _ _ h1 h2

/-- `det(A ⊗ K) = det(A)^{|K|} · det(K)^{n}` unfolded one factor: the induction step of
`log det(⊗ᵢ Aᵢ) = Σᵢ (N/nᵢ) log det Aᵢ`. -/
theorem det_kronAll_cons [CommRing R] (n : Nat) (l : List Nat) (A : Matrix (Fin n) (Fin n) R) (r : KMatsM R l) :
    (kronAll (n :: l) (A, r)).det = A.det ^ l.prod * (kronAll l r).det ^ n := by
  show (A ⊗ₖ kronAll l r : Matrix (Fin n × KIdx l) (Fin n × KIdx l) R).det = _
  rw [Matrix.det_kronecker, card_KIdx, Fintype.card_fin]

theorem det_kronAll_nil [CommRing R] (r : KMatsM R []) : (kronAll [] r).det = 1 := by
  show (1 : Matrix (KIdx []) (KIdx []) R).det = 1
  exact Matrix.det_one

end LinOp.C05
