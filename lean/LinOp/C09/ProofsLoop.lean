/-
C09 — the loop invariant of `lanczos_tridiag` (model `LinOp.C09.loop`): orthonormality, three-term
recurrence, structure of `t_mat`, for any budget, by induction over the iterations.
-/
import LinOp.C09.Proofs
import Mathlib.Tactic.Abel

set_option linter.unusedSectionVars false

namespace LinOp.C09
open Matrix

variable {K : Type} [Field K] [LinearOrder K] [IsStrictOrderedRing K] {n : Nat}

/-! ### extra re-orthogonalisation passes do nothing in exact arithmetic -/

theorem reorthPass_fixed {ops : NumOps K} (hs : SqrtLaw ops) {q : Fam (Vec K n)} {k : Nat} (r : Vec K n)
    (h0 : ∀ j, j ≤ k → fn (q.get j) ⬝ᵥ fn r = 0) (h1 : fn r ⬝ᵥ fn r = 1) :
    reorthPass ops (k + 1) q r = r := by
  apply fn_inj
  simp only [reorthPass, fn_vdiv, fn_vsub, fn_correction, norm, dot_eq]
  rw [corr_zero (q := fun j => fn (q.get j)) (fn r) h0]
  simp [h1, hs.sqrt_one]

theorem extraPasses_fixed {ops : NumOps K} (hs : SqrtLaw ops) {q : Fam (Vec K n)} {k : Nat} (tol : K)
    (r : Vec K n) (h0 : ∀ j, j ≤ k → fn (q.get j) ⬝ᵥ fn r = 0) (h1 : fn r ⬝ᵥ fn r = 1) (fuel : Nat) :
    (extraPasses ops tol (k + 1) q fuel r).1 = r := by
  induction fuel with
  | zero => rfl
  | succ f ih =>
    simp only [extraPasses]
    split
    · rfl
    · simp only [reorthPass_fixed hs r h0 h1, ih]

/-! ### views of a state -/

def Qf (s : St K n) (j : Nat) : Fin n → K := fn (s.q.get j)
def Tf (s : St K n) (i j : Nat) : K := (s.t.get i).get j
def AQf (amul : Vec K n → Vec K n) (s : St K n) (j : Nat) : Fin n → K := fn (amul (s.q.get j))

/-- The closure is self-adjoint for the Euclidean inner product (true of `x ↦ A x`, `A` symmetric). -/
def SelfAdj (amul : Vec K n → Vec K n) : Prop :=
  ∀ u w : Vec K n, fn u ⬝ᵥ fn (amul w) = fn (amul u) ⬝ᵥ fn w

/-- Structure of the buffer `t_mat`: symmetric, tridiagonal. -/
structure TStruct (s : St K n) : Prop where
  sym : ∀ i j, Tf s i j = Tf s j i
  tri : ∀ i j, i + 1 < j ∨ j + 1 < i → Tf s i j = 0

/-- State at the top of iteration `k`: `q_0 … q_k` orthonormal, recurrence for `j < k`. -/
structure Top (amul : Vec K n → Vec K n) (k : Nat) (s : St K n) : Prop where
  orth : Orth (Qf s) k
  recur : Rec (AQf amul s) (Qf s) (Tf s) k

/-- State when the loop is left with `num_iter = k + 1`. -/
structure Done (amul : Vec K n → Vec K n) (k : Nat) (s : St K n) : Prop where
  orth : Orth (Qf s) k
  recur : Rec (AQf amul s) (Qf s) (Tf s) k
  alpha : Tf s k k = Qf s k ⬝ᵥ AQf amul s k

/-! ### one iteration -/

section step
variable (ops : NumOps K) (p : Params K) (amul : Vec K n → Vec K n) (numIter k : Nat) (s : St K n)

def bodyR0 : Vec K n := vsub (amul (s.q.get k)) (vscale (s.q.get (k - 1)) ((s.t.get k).get (k - 1)))
def bodyA : K := dot (s.q.get k) (bodyR0 amul k s)
def bodyR1 : Vec K n := vsub (bodyR0 amul k s) (vscale (s.q.get k) (bodyA amul k s))
def bodyR2 : Vec K n := vsub (bodyR1 amul k s) (correction (k + 1) s.q (bodyR1 amul k s))
def bodyN : K := norm ops (bodyR2 amul k s)
def bodyW : Vec K n := vdiv (bodyR2 amul k s) (bodyN ops amul k s)
def bodyEx : Vec K n × Bool × Nat := extraPasses ops p.tol (k + 1) s.q p.extra (bodyW ops amul k s)

theorem body_then (h : k + 1 < numIter) :
    (body ops p amul numIter k s).1 =
      { q := upd s.q (k + 1) (bodyEx ops p amul k s).1,
        t := tset (tset (tset s.t k k (bodyA amul k s)) k (k + 1) (bodyN ops amul k s)) (k + 1) k (bodyN ops amul k s),
        passes := s.passes + (bodyEx ops p amul k s).2.2 } := by
  unfold body
  simp only [h, if_true]
  rfl

theorem body_else (h : ¬ k + 1 < numIter) :
    body ops p amul numIter k s = ({ s with t := tset s.t k k (bodyA amul k s) }, false) := by
  unfold body
  simp only [h, if_false]
  rfl

end step

variable {ops : NumOps K} {p : Params K} {amul : Vec K n → Vec K n} {numIter k : Nat} {s : St K n}

theorem fn_bodyR1 :
    fn (bodyR1 amul k s) = AQf amul s k - Tf s k (k - 1) • Qf s (k - 1)
      - (Qf s k ⬝ᵥ (AQf amul s k - Tf s k (k - 1) • Qf s (k - 1))) • Qf s k := by
  simp [bodyR1, bodyR0, bodyA, dot_eq, AQf, Tf, Qf]

theorem bodyA_eq :
    bodyA amul k s = Qf s k ⬝ᵥ (AQf amul s k - Tf s k (k - 1) • Qf s (k - 1)) := by
  simp [bodyR0, bodyA, dot_eq, AQf, Tf, Qf]

/-- In exact arithmetic the full re-orthogonalisation subtracts nothing. -/
theorem fn_bodyR2 (hk : 1 ≤ k) (hA : SelfAdj amul) (hT : TStruct s) (ht : Top amul k s) :
    fn (bodyR2 amul k s) = fn (bodyR1 amul k s) := by
  have horth : ∀ j, j ≤ k → Qf s j ⬝ᵥ fn (bodyR1 amul k s) = 0 := by
    intro j hj
    rw [fn_bodyR1]
    exact residual_orth hk ht.orth ht.recur (fun i j _ _ => hA _ _) (hT.sym _ _) j hj
  simp only [bodyR2, fn_vsub, fn_correction]
  simp only [Qf] at horth
  rw [corr_zero (q := fun j => fn (s.q.get j)) _ horth]
  simp

theorem bodyW_orth (hk : 1 ≤ k) (hA : SelfAdj amul) (hT : TStruct s) (ht : Top amul k s) (j : Nat) (hj : j ≤ k) :
    Qf s j ⬝ᵥ fn (bodyW ops amul k s) = 0 := by
  simp only [bodyW, fn_vdiv, dotProduct_smul]
  rw [fn_bodyR2 hk hA hT ht, fn_bodyR1,
    residual_orth hk ht.orth ht.recur (fun i j _ _ => hA _ _) (hT.sym _ _) j hj]
  simp

/-- The Gram–Schmidt part alone: whatever the closure is (symmetric or not), the new vector is
orthogonal to all previous ones. -/
theorem bodyW_orth_gs (ho : Orth (Qf s) k) (j : Nat) (hj : j ≤ k) :
    Qf s j ⬝ᵥ fn (bodyW ops amul k s) = 0 := by
  simp only [bodyW, fn_vdiv, dotProduct_smul, bodyR2, fn_vsub, fn_correction]
  have := gs_orth ho (fn (bodyR1 amul k s)) j hj
  simp only [Qf] at this ⊢
  rw [this]; simp

theorem bodyW_unit (hs : SqrtLaw ops) (hb : bodyN ops amul k s ≠ 0) :
    fn (bodyW ops amul k s) ⬝ᵥ fn (bodyW ops amul k s) = 1 := by
  simp only [bodyW, fn_vdiv]
  have : bodyN ops amul k s = ops.sqrt (fn (bodyR2 amul k s) ⬝ᵥ fn (bodyR2 amul k s)) := by
    simp [bodyN, norm, dot_eq]
  rw [this] at hb ⊢
  exact unit_of_norm hs _ hb

theorem bodyEx_eq (hs : SqrtLaw ops) (ho : Orth (Qf s) k) (hb : bodyN ops amul k s ≠ 0) :
    (bodyEx ops p amul k s).1 = bodyW ops amul k s :=
  extraPasses_fixed hs _ _ (fun j hj => bodyW_orth_gs ho j hj) (bodyW_unit hs hb) _

/-! views of the state after one iteration -/

theorem Tf_then (h : k + 1 < numIter) (i j : Nat) :
    Tf (body ops p amul numIter k s).1 i j =
      if i = k + 1 ∧ j = k then bodyN ops amul k s
      else if i = k ∧ j = k + 1 then bodyN ops amul k s
      else if i = k ∧ j = k then bodyA amul k s else Tf s i j := by
  rw [body_then ops p amul numIter k s h]
  simp only [Tf, tset_get]

theorem Tf_else (h : ¬ k + 1 < numIter) (i j : Nat) :
    Tf (body ops p amul numIter k s).1 i j = if i = k ∧ j = k then bodyA amul k s else Tf s i j := by
  rw [body_else ops p amul numIter k s h]
  simp only [Tf, tset_get]

theorem Qf_then (h : k + 1 < numIter) (j : Nat) :
    Qf (body ops p amul numIter k s).1 j = if j = k + 1 then fn (bodyEx ops p amul k s).1 else Qf s j := by
  rw [body_then ops p amul numIter k s h]
  simp only [Qf, upd_get]
  split <;> rfl

theorem Qf_else (h : ¬ k + 1 < numIter) (j : Nat) : Qf (body ops p amul numIter k s).1 j = Qf s j := by
  rw [body_else ops p amul numIter k s h]; rfl

/-- Entries of `t_mat` other than the three written ones are untouched. -/
theorem Tf_frame (i j : Nat) (hne : ¬(i = k + 1 ∧ j = k) ∧ ¬(i = k ∧ j = k + 1) ∧ ¬(i = k ∧ j = k)) :
    Tf (body ops p amul numIter k s).1 i j = Tf s i j := by
  by_cases h : k + 1 < numIter
  · rw [Tf_then h, if_neg hne.1, if_neg hne.2.1, if_neg hne.2.2]
  · rw [Tf_else h, if_neg hne.2.2]

theorem Tf_alpha : Tf (body ops p amul numIter k s).1 k k = bodyA amul k s := by
  by_cases h : k + 1 < numIter
  · rw [Tf_then h, if_neg (by omega), if_neg (by omega), if_pos ⟨rfl, rfl⟩]
  · rw [Tf_else h, if_pos ⟨rfl, rfl⟩]

theorem Qf_frame (j : Nat) (hj : j ≠ k + 1) : Qf (body ops p amul numIter k s).1 j = Qf s j := by
  by_cases h : k + 1 < numIter
  · rw [Qf_then h, if_neg hj]
  · rw [Qf_else h]

theorem AQf_frame (j : Nat) (hj : j ≠ k + 1) :
    AQf amul (body ops p amul numIter k s).1 j = AQf amul s j := by
  by_cases h : k + 1 < numIter
  · rw [body_then ops p amul numIter k s h]
    simp only [AQf, upd_get, if_neg hj]
  · rw [body_else ops p amul numIter k s h]; rfl

/-- `t_mat` stays symmetric tridiagonal under the writes of one iteration. -/
theorem body_tstruct (hT : TStruct s) : TStruct (body ops p amul numIter k s).1 := by
  by_cases h : k + 1 < numIter
  · constructor
    · intro i j
      rw [Tf_then h, Tf_then h]
      have := hT.sym i j
      split_ifs <;> first | rfl | omega | exact this
    · intro i j hij
      rw [Tf_then h]
      have := hT.tri i j hij
      split_ifs <;> first | omega | exact this
  · constructor
    · intro i j
      rw [Tf_else h, Tf_else h]
      have := hT.sym i j
      split_ifs <;> first | rfl | omega | exact this
    · intro i j hij
      rw [Tf_else h]
      have := hT.tri i j hij
      split_ifs <;> first | omega | exact this

/-- Entries `t_mat[j, j+1]`, `j < k`, are not touched by iteration `k`. -/
theorem body_frame (j : Nat) (hj : j < k) :
    Tf (body ops p amul numIter k s).1 j (j + 1) = Tf s j (j + 1) :=
  Tf_frame _ _ (by omega)

theorem body_beta (h : k + 1 < numIter) :
    Tf (body ops p amul numIter k s).1 k (k + 1) = bodyN ops amul k s := by
  rw [Tf_then h, if_neg (by omega), if_pos ⟨rfl, rfl⟩]

/-- Leaving the loop after iteration `k` (last iteration or break): the first `k + 1` columns are fine. -/
theorem body_done (hk : 1 ≤ k) (hA : SelfAdj amul) (ht : Top amul k s) :
    Done amul k (body ops p amul numIter k s).1 := by
  have hkk : Qf s k ⬝ᵥ Qf s (k - 1) = 0 := by
    rw [ht.orth k (k - 1) le_rfl (by omega)]; simp; omega
  have hal : bodyA amul k s = Qf s k ⬝ᵥ AQf amul s k := by
    rw [bodyA_eq]; simp [dotProduct_sub, hkk]
  refine ⟨?_, ?_, ?_⟩
  · intro i j hi hj
    rw [Qf_frame i (by omega), Qf_frame j (by omega)]
    exact ht.orth i j hi hj
  · intro j hj
    rw [AQf_frame j (by omega), Tf_frame j (j - 1) (by omega), Tf_frame j j (by omega),
      Tf_frame j (j + 1) (by omega), Qf_frame (j - 1) (by omega), Qf_frame j (by omega),
      Qf_frame (j + 1) (by omega)]
    exact ht.recur j hj
  · rw [Tf_alpha, Qf_frame k (by omega), AQf_frame k (by omega)]
    exact hal

/-- Continuing the loop: if `β_k ≠ 0` the state at the top of iteration `k + 1` is fine. -/
theorem body_top (hk : 1 ≤ k) (hs : SqrtLaw ops) (hA : SelfAdj amul) (hT : TStruct s) (ht : Top amul k s)
    (h : k + 1 < numIter) (hb : bodyN ops amul k s ≠ 0) :
    Top amul (k + 1) (body ops p amul numIter k s).1 := by
  have hd := body_done (ops := ops) (p := p) (numIter := numIter) hk hA ht
  have hex := bodyEx_eq (p := p) hs ht.orth hb
  have hw0 := bodyW_orth (ops := ops) hk hA hT ht
  have hw1 := bodyW_unit hs hb
  have hQ : Qf (body ops p amul numIter k s).1 = fun j => if j = k + 1 then fn (bodyW ops amul k s) else Qf s j := by
    funext j
    rw [Qf_then h, hex]
  refine ⟨?_, ?_⟩
  · rw [hQ]
    exact orth_extend ht.orth _ hw0 hw1
  · intro j hj
    rcases Nat.lt_or_eq_of_le (Nat.lt_succ_iff.mp hj) with hlt | heq
    · exact hd.recur j hlt
    · subst heq
      -- the new recurrence row
      have hr2 := fn_bodyR2 hk hA hT ht
      have hr1 := fn_bodyR1 (amul := amul) (k := j) (s := s)
      have hbw : bodyN ops amul j s • fn (bodyW ops amul j s) = fn (bodyR1 amul j s) := by
        simp only [bodyW, fn_vdiv, hr2]
        rw [smul_smul, mul_inv_cancel₀ hb, one_smul]
      have hAq : AQf amul s j = Tf s j (j - 1) • Qf s (j - 1) + bodyA amul j s • Qf s j
          + bodyN ops amul j s • fn (bodyW ops amul j s) := by
        rw [hbw, hr1, ← bodyA_eq]
        abel
      rw [if_neg (by omega : ¬ j = 0), AQf_frame j (by omega), Tf_frame j (j - 1) (by omega), Tf_alpha,
        body_beta h, Qf_frame (j - 1) (by omega), Qf_frame j (by omega), Qf_then h, if_pos rfl, hex]
      exact hAq

end LinOp.C09
