/-
C09 — induction over the iterations of `loop`, the state before the loop, and the summary for `lanczosTridiag`.
-/
import LinOp.C09.ProofsLoop

set_option linter.unusedSectionVars false
set_option linter.unusedVariables false

namespace LinOp.C09
open Matrix

variable {K : Type} [Field K] [LinearOrder K] [IsStrictOrderedRing K] {n : Nat}
variable {ops : NumOps K} {p : Params K} {amul : Vec K n → Vec K n} {numIter : Nat}

/-- The off-diagonal entries written so far are non-zero ("no breakdown among the first `k` steps"). -/
def BetaOK (k : Nat) (s : St K n) : Prop := ∀ j, j < k → Tf s j (j + 1) ≠ 0

theorem betaOK_body {k : Nat} {s : St K n} (h : BetaOK k (body ops p amul numIter k s).1) : BetaOK k s := by
  intro j hj
  have := h j hj
  rwa [body_frame j hj] at this

/-- What holds when the loop is left: `cnt` columns. -/
structure Final (amul : Vec K n → Vec K n) (r : Nat × St K n) (bound : Nat) : Prop where
  pos : 1 ≤ r.1
  le : r.1 ≤ bound
  tstruct : TStruct r.2
  done : BetaOK (r.1 - 1) r.2 → Done amul (r.1 - 1) r.2

theorem loop_inv (hs : SqrtLaw ops) (hA : SelfAdj amul) :
    ∀ (rem k : Nat) (s : St K n), k + rem = numIter → 1 ≤ k → TStruct s →
      (BetaOK (k - 1) s → Done amul (k - 1) s) → (1 ≤ rem → BetaOK k s → Top amul k s) →
      Final amul (loop ops p amul numIter rem k s) numIter := by
  intro rem
  induction rem with
  | zero =>
    intro k s hkr hk hT hprev _
    simp only [loop]
    exact ⟨hk, by omega, hT, hprev⟩
  | succ rem ih =>
    intro k s hkr hk hT _ htop
    have htop' := htop (by omega)
    have hdone : BetaOK k (body ops p amul numIter k s).1 → Done amul k (body ops p amul numIter k s).1 :=
      fun hb => body_done hk hA (htop' (betaOK_body hb))
    simp only [loop]
    split
    · exact ⟨by simp, by simp only; omega, body_tstruct hT, by simpa using hdone⟩
    · apply ih (k + 1) _ (by omega) (by omega) (body_tstruct hT)
      · simpa using hdone
      · intro hrem hb
        have hb' : BetaOK k (body ops p amul numIter k s).1 := fun j hj => hb j (by omega)
        have hlt : k + 1 < numIter := by omega
        have hbeta := hb k (by omega)
        rw [body_beta hlt] at hbeta
        exact body_top hk hs hA hT (htop' (betaOK_body hb')) hlt hbeta

/-! ### the state before the loop -/

section init
variable (ops) (amul) (numIter) (v : Vec K n)

theorem init_Q0 : Qf (init ops amul numIter v) 0 = (ops.sqrt (fn v ⬝ᵥ fn v))⁻¹ • fn v := by
  simp [Qf, init, init0, norm, dot_eq]

theorem init_T (i j : Nat) :
    Tf (init ops amul numIter v) i j =
      if i = 1 ∧ j = 0 then (init0 ops amul numIter v).2.2
      else if i = 0 ∧ j = 1 then (init0 ops amul numIter v).2.2
      else if i = 0 ∧ j = 0 then Qf (init ops amul numIter v) 0 ⬝ᵥ AQf amul (init ops amul numIter v) 0
      else 0 := by
  simp [Tf, Qf, AQf, init, init0, dot_eq, Fam.const]

theorem init_tstruct : TStruct (init ops amul numIter v) := by
  constructor
  · intro i j
    rw [init_T, init_T]
    split_ifs <;> first | rfl | omega
  · intro i j hij
    rw [init_T]
    split_ifs <;> first | rfl | omega

end init

theorem init_done (hs : SqrtLaw ops) (v : Vec K n) (hv : fn v ⬝ᵥ fn v ≠ 0) :
    Done amul 0 (init ops amul numIter v) := by
  have hne : ops.sqrt (fn v ⬝ᵥ fn v) ≠ 0 := by
    intro h0
    have := hs.mul_self _ (dot_self_nonneg (fn v))
    rw [h0, mul_zero] at this
    exact hv this.symm
  refine ⟨?_, ?_, ?_⟩
  · intro i j hi hj
    have hi0 : i = 0 := by omega
    have hj0 : j = 0 := by omega
    subst hi0; subst hj0
    rw [init_Q0]
    simpa using unit_of_norm hs (fn v) hne
  · intro j hj; omega
  · rw [init_T]; simp

theorem init_top (hs : SqrtLaw ops) (v : Vec K n) (hv : fn v ⬝ᵥ fn v ≠ 0)
    (hb : BetaOK 1 (init ops amul numIter v)) : Top amul 1 (init ops amul numIter v) := by
  have hd := init_done (amul := amul) (numIter := numIter) hs v hv
  have t00 : Tf (init ops amul numIter v) 0 0
      = Qf (init ops amul numIter v) 0 ⬝ᵥ AQf amul (init ops amul numIter v) 0 := by
    rw [init_T]; simp
  have t01 : Tf (init ops amul numIter v) 0 (0 + 1) = (init0 ops amul numIter v).2.2 := by
    rw [init_T]; simp
  have hb0 : (init0 ops amul numIter v).2.2 ≠ 0 := by
    have := hb 0 (by omega)
    rwa [t01] at this
  have h00 : Qf (init ops amul numIter v) 0 ⬝ᵥ Qf (init ops amul numIter v) 0 = 1 := by
    simpa using hd.orth 0 0 le_rfl le_rfl
  -- the residual before the loop and `q_1`
  have hr : fn (init0 ops amul numIter v).2.1 = AQf amul (init ops amul numIter v) 0
      - (Qf (init ops amul numIter v) 0 ⬝ᵥ AQf amul (init ops amul numIter v) 0) • Qf (init ops amul numIter v) 0 := by
    simp [Qf, AQf, init, init0, dot_eq]
  have hb0' : (init0 ops amul numIter v).2.2
      = ops.sqrt (fn (init0 ops amul numIter v).2.1 ⬝ᵥ fn (init0 ops amul numIter v).2.1) := by
    simp [init0, norm, dot_eq]
  have hq1 : Qf (init ops amul numIter v) (0 + 1)
      = ((init0 ops amul numIter v).2.2)⁻¹ • fn (init0 ops amul numIter v).2.1 := by
    simp [Qf, init]
  have h01 : Qf (init ops amul numIter v) 0 ⬝ᵥ Qf (init ops amul numIter v) (0 + 1) = 0 := by
    rw [hq1, dotProduct_smul, hr, dotProduct_sub, dotProduct_smul, h00]
    simp
  have h11 : Qf (init ops amul numIter v) (0 + 1) ⬝ᵥ Qf (init ops amul numIter v) (0 + 1) = 1 := by
    rw [hq1]
    rw [hb0'] at hb0 ⊢
    exact unit_of_norm hs _ hb0
  refine ⟨?_, ?_⟩
  · intro i j hi hj
    have hi' : i = 0 ∨ i = 0 + 1 := by omega
    have hj' : j = 0 ∨ j = 0 + 1 := by omega
    rcases hi' with rfl | rfl <;> rcases hj' with rfl | rfl
    · rw [h00]; simp
    · rw [h01]; simp
    · rw [dotProduct_comm, h01]; simp
    · rw [h11]; simp
  · intro j hj
    have hj0 : j = 0 := by omega
    subst hj0
    rw [if_pos rfl, t00, t01, hq1, smul_smul, mul_inv_cancel₀ hb0, one_smul, hr]
    abel

/-! ### the state returned when the first step already exhausts the budget / the Krylov space -/

section init0
variable (ops) (amul) (numIter) (v : Vec K n)

theorem init0_Q0 : Qf (init0 ops amul numIter v).1 0 = (ops.sqrt (fn v ⬝ᵥ fn v))⁻¹ • fn v := by
  simp [Qf, init0, norm, dot_eq]

theorem init0_T (i j : Nat) :
    Tf (init0 ops amul numIter v).1 i j =
      if i = 0 ∧ j = 0 then Qf (init0 ops amul numIter v).1 0 ⬝ᵥ AQf amul (init0 ops amul numIter v).1 0
      else 0 := by
  simp [Tf, Qf, AQf, init0, dot_eq, Fam.const]

theorem init0_tstruct : TStruct (init0 ops amul numIter v).1 := by
  constructor
  · intro i j
    rw [init0_T, init0_T]
    split_ifs <;> first | rfl | omega
  · intro i j hij
    rw [init0_T]
    split_ifs <;> first | rfl | omega

end init0

theorem init0_done (hs : SqrtLaw ops) (v : Vec K n) (hv : fn v ⬝ᵥ fn v ≠ 0) :
    Done amul 0 (init0 ops amul numIter v).1 := by
  have hne : ops.sqrt (fn v ⬝ᵥ fn v) ≠ 0 := by
    intro h0
    have := hs.mul_self _ (dot_self_nonneg (fn v))
    rw [h0, mul_zero] at this
    exact hv this.symm
  refine ⟨?_, ?_, ?_⟩
  · intro i j hi hj
    have hi0 : i = 0 := by omega
    have hj0 : j = 0 := by omega
    subst hi0; subst hj0
    rw [init0_Q0]
    simpa using unit_of_norm hs (fn v) hne
  · intro j hj; omega
  · rw [init0_T]; simp

/-! ### summary for `lanczosTridiag` -/

/-- View of a result as a loop state. -/
def Out.st (o : Out K n) : St K n := { q := o.q, t := o.t, passes := o.passes }

/-- The loop branch (both versions of the code reach it with `2 ≤ num_iter`). -/
theorem loop_branch_ok (hs : SqrtLaw ops) (hA : SelfAdj amul) (N : Nat) (v : Vec K n)
    (hv : fn v ⬝ᵥ fn v ≠ 0) (h2 : 2 ≤ N) :
    let r := loop ops p amul N (N - 1) 1 (init ops amul N v)
    let o : Out K n := { count := r.1, q := r.2.q, t := r.2.t, passes := r.2.passes }
    1 ≤ o.count ∧ o.count ≤ N ∧ TStruct o.st ∧ (BetaOK (o.count - 1) o.st → Done amul (o.count - 1) o.st) := by
  have hf := loop_inv (p := p) (numIter := N) hs hA (N - 1) 1
    (init ops amul N v) (by omega) le_rfl (init_tstruct ops amul _ v)
    (fun _ => init_done hs v hv) (fun _ hb => init_top hs v hv hb)
  exact ⟨hf.pos, hf.le, hf.tstruct, hf.done⟩

/-- Code as it is now (`guardsSingle = true`): every call with a budget of at least one iteration succeeds. -/
theorem lanczos_ok (hs : SqrtLaw ops) (hA : SelfAdj amul) (hg : p.guardsSingle = true) (maxIter : Nat)
    (v : Vec K n) (hv : fn v ⬝ᵥ fn v ≠ 0) (h1 : 1 ≤ min maxIter n) :
    ∃ o, lanczosTridiag ops p amul maxIter v = .ok o ∧ 1 ≤ o.count ∧ o.count ≤ min maxIter n ∧
      TStruct o.st ∧ (BetaOK (o.count - 1) o.st → Done amul (o.count - 1) o.st) := by
  by_cases hc : (decide (1 < min maxIter n) &&
      ops.gt (ops.abs (init0 ops amul (min maxIter n) v).2.2) p.breakTol) = true
  · have h2 : 2 ≤ min maxIter n := by
      simp only [Bool.and_eq_true, decide_eq_true_eq] at hc
      omega
    have hb := loop_branch_ok (p := p) hs hA (min maxIter n) v hv h2
    refine ⟨_, ?_, hb⟩
    unfold lanczosTridiag
    simp only [show ¬ min maxIter n = 0 by omega, if_false, hg, if_true, hc]
  · refine ⟨{ count := 1, q := (init0 ops amul (min maxIter n) v).1.q, t := (init0 ops amul (min maxIter n) v).1.t,
              passes := 0 }, ?_, le_rfl, h1, init0_tstruct ops amul _ v, fun _ => init0_done hs v hv⟩
    unfold lanczosTridiag
    simp only [show ¬ min maxIter n = 0 by omega, if_false, hg, if_true, hc]
    rfl

/-- The code before the fix of D14 (`guardsSingle = false`) needs a budget of two iterations. -/
theorem lanczos_ok_before_fix (hs : SqrtLaw ops) (hA : SelfAdj amul) (hg : p.guardsSingle = false) (maxIter : Nat)
    (v : Vec K n) (hv : fn v ⬝ᵥ fn v ≠ 0) (h2 : 2 ≤ min maxIter n) :
    ∃ o, lanczosTridiag ops p amul maxIter v = .ok o ∧ 1 ≤ o.count ∧ o.count ≤ min maxIter n ∧
      TStruct o.st ∧ (BetaOK (o.count - 1) o.st → Done amul (o.count - 1) o.st) := by
  have hb := loop_branch_ok (p := p) hs hA (min maxIter n) v hv h2
  refine ⟨_, ?_, hb⟩
  unfold lanczosTridiag
  simp only [show ¬ min maxIter n = 0 by omega, show ¬ min maxIter n = 1 by omega, if_false, hg]
  rfl

end LinOp.C09
