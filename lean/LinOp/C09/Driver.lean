import LinOp.Core.Parse
import LinOp.C09.Model
import LinOp.C09.Multi
import LinOp.Generated.C09Consts
/-!
Line-protocol driver for the C09 model, run on IEEE binary64 (`Float`, the format of `torch.float64`).
Floats travel as their 64 bit patterns in decimal (exact in both directions).

input:
  `lz n maxIter tol A v`       tol: bit pattern or `d` (generated default); A: `r1c1,r1c2;r2c1,…`; v: comma list
  `post n m Q evals evecs`     Q: n×m, evals: m, evecs: m×m  (eigendecomposition supplied by the caller = `eigh` parameter)
  `lzm n maxIter tol C mats amap vecs`   the COUPLED model (`lanczosMulti`): `C` columns in one loop; mats: matrices joined
                               by `|`; amap: for every column the index of its matrix (batch member); vecs: start vectors joined by `|`
  `mind m diag`                `minDiag` of a matrix with that diagonal (what `mins` of the jitter statements is)
output:
  `err=<ok|index> count=.. passes=.. q=<n×count> t=<count×count>`
  `err=<ok|index> count=.. passes=.. q=<Q_0>|<Q_1>|… t=<T_0>|… sup=<C rows: the buffer entries t[j][j+1], j < min(count, num_iter-1),
                               i.e. all the beta written, the one of the breaking iteration included>`
  `evals=<m> root=<n×m> inv=<n×m>`
-/
open LinOp LinOp.C09 LinOp.Parse

instance : Zero Float := ⟨Float.ofNat 0⟩
instance : One Float := ⟨Float.ofNat 1⟩

def floatOps : NumOps Float :=
  { sqrt := Float.sqrt, gt := fun a b => decide (a > b), abs := Float.abs }

def ratToFloat (r : Rat) : Float := Float.ofInt r.num / Float.ofNat r.den

def fbits? (s : String) : Option Float := s.toNat?.map fun k => Float.ofBits (UInt64.ofNat k)
def showF (x : Float) : String := toString x.toBits.toNat

def fvec? (s : String) : Option (Array Float) := (parseList? fbits? s).map List.toArray
def fmat? (s : String) : Option (Array (Array Float)) :=
  if s = "-" then some #[] else ((s.splitOn ";").mapM fvec?).map List.toArray

def vecOf (n : Nat) (a : Array Float) : Vec Float n := Vector.ofFn fun i => a[i.1]!

def matVec (n : Nat) (A : Array (Array Float)) (v : Vec Float n) : Vec Float n :=
  Vector.ofFn fun i => sumFin n fun j => (A[i.1]!)[j.1]! * v[j]

def showMatF {n m : Nat} (A : Mat Float n m) : String :=
  if n = 0 ∨ m = 0 then "-" else ";".intercalate (A.toLists.map (showList showF))

def params (tol : Float) : Params Float :=
  { tol := tol, extra := Generated.C09.extra, breakTol := ratToFloat Generated.C09.breakTol,
    guardsSingle := Generated.C09.guardsSingle }

def runLine (line : String) : String :=
  match words line with
  | ["lz", n, mi, tol, A, v] =>
    match n.toNat?, mi.toNat?, (if tol = "d" then some (ratToFloat Generated.C09.tol) else fbits? tol), fmat? A, fvec? v with
    | some n, some mi, some tol, some A, some v =>
      match lanczosTridiag floatOps (params tol) (matVec n A) mi (vecOf n v) with
      | .error _ => "err=index count=0 passes=0 q=- t=-"
      | .ok o => s!"err=ok count={o.count} passes={o.passes} q={showMatF o.Q} t={showMatF o.T}"
    | _, _, _, _, _ => "bad-args"
  | ["lzm", n, mi, tol, c, mats, amap, vecs] =>
    match n.toNat?, mi.toNat?, (if tol = "d" then some (ratToFloat Generated.C09.tol) else fbits? tol), c.toNat?,
        (mats.splitOn "|").mapM fmat?, parseNats? amap, (vecs.splitOn "|").mapM fvec? with
    | some n, some mi, some tol, some C, some mats, some amap, some vecs =>
      let mats := mats.toArray
      let amap := amap.toArray
      let vecs := vecs.toArray
      let amuls : Fin C → Vec Float n → Vec Float n := fun c => matVec n (mats[amap[c.1]!]!)
      let vs : Vector (Vec Float n) C := Vector.ofFn fun c => vecOf n (vecs[c.1]!)
      match lanczosMulti floatOps (params tol) amuls mi vs with
      | .error _ => "err=index count=0 passes=0 q=- t=- sup=-"
      | .ok o =>
        let cols := List.finRange C
        let qs := "|".intercalate (cols.map fun c => showMatF (o.col c).Q)
        let ts := "|".intercalate (cols.map fun c => showMatF (o.col c).T)
        let numIter := min mi n
        let L := min o.count (numIter - 1)
        let sup : Mat Float C L := fun c j => ((o.cols[c].t.get j.1).get (j.1 + 1))
        let passes := match cols with | [] => 0 | c :: _ => o.cols[c].passes
        s!"err=ok count={o.count} passes={passes} q={qs} t={ts} sup={showMatF sup}"
    | _, _, _, _, _, _, _ => "bad-args"
  | ["mind", m, d] =>
    match m.toNat?, fvec? d with
    | some m, some d =>
      let T : Mat Float m m := fun i j => if i = j then d[i.1]! else 0
      s!"min={showF (minDiag (fun a b => decide (a < b)) T 0)}"
    | _, _ => "bad-args"
  | ["post", n, m, Q, evals, evecs] =>
    match n.toNat?, m.toNat?, fmat? Q, fvec? evals, fmat? evecs with
    | some n, some m, some Q, some ev, some V =>
      let Qm : Mat Float n m := fun i j => (Q[i.1]!)[j.1]!
      let Vm : Mat Float m m := fun i j => (V[i.1]!)[j.1]!
      let e : Fin m → Float := fun j => ev[j.1]!
      let ge0 : Float → Bool := fun x => decide (x ≥ 0)
      let e' := maskEvals ge0 e
      let V' := maskEvecs ge0 e Vm
      let QV := qv Qm V'
      let ev1 : Mat Float 1 m := fun _ j => e' j
      s!"evals={showMatF ev1} root={showMatF (rootOf floatOps QV e')} inv={showMatF (rootInvOf floatOps QV e')}"
    | _, _, _, _, _ => "bad-args"
  | _ => "bad-line"

def main : IO Unit := do
  let stdin ← IO.getStdin
  LinOp.Parse.loop stdin () fun _ line => ((), runLine line)
