/-
C09 — the COUPLED model of `lanczos_tridiag`: all columns of one call (batch members × init vectors, `C` of them,
each with its own closure: the batch member's operator) run in ONE loop, as the code runs them.  Core Lean only.

The columns share
  * the iteration counter `k`, the bound `num_iter` and therefore the returned `count`;
  * the guard of the first step:     `num_iter > 1 and torch.sum(beta_0.abs() > 1e-6) > 0`        -- ANY column
  * the test of the extra passes:    `if not torch.sum(inner_products.abs() > tol)`                      -- NO entry of ANY column
    (as soon as one column asks for another pass, the pass is run on ALL columns)
  * the break test:                  `torch.sum(beta_curr.abs() > 1e-6) == 0 or not could_reorthogonalize`
    (break only when ALL columns are at or below the threshold).
Everything else is column-wise and is, expression by expression, what `Model.body` does (`colPre` = the part of
`body` before the extra passes, `colAlpha` = its `alpha_curr`).  A column whose residual norm `beta_k` is 0 while
another column keeps the loop running is divided by that 0 (`vdiv r nrm`): IEEE gives NaN (the `Float` run of this
model in the driver reproduces it), a field gives 0.
-/
import LinOp.C09.Model
namespace LinOp.C09

section
variable {α : Type} {n C : Nat}

/-- `torch.sum(<Boolean tensor over all columns>)` is non-zero -/
def anyCol (C : Nat) (f : Fin C → Bool) : Bool := (List.finRange C).any f

/-- `r_vec = matmul_closure(q_curr_vec) - q_prev_vec.mul(beta_prev)` -/
def colR0 [Sub α] [Mul α] (amul : Vec α n → Vec α n) (k : Nat) (s : St α n) : Vec α n :=
  vsub (amul (s.q.get k)) (vscale (s.q.get (k - 1)) ((s.t.get k).get (k - 1)))

/-- `alpha_curr = q_curr_vec.mul(r_vec).sum(-2)` -/
def colAlpha [Add α] [Sub α] [Mul α] [Zero α] (amul : Vec α n → Vec α n) (k : Nat) (s : St α n) : α :=
  dot (s.q.get k) (colR0 amul k s)

/-- What one column computes in iteration `k` (`k + 1 < num_iter`) before the extra passes:
`(alpha_curr, beta_curr, r_vec)` with `r_vec` already divided by its norm `beta_curr`. -/
def colPre [Add α] [Sub α] [Mul α] [Div α] [Zero α] (ops : NumOps α) (amul : Vec α n → Vec α n) (k : Nat)
    (s : St α n) : α × α × Vec α n :=
  let a := colAlpha amul k s
  let r := vsub (colR0 amul k s) (vscale (s.q.get k) a)
  let r := vsub r (correction (k + 1) s.q r)
  let nrm := norm ops r
  (a, nrm, vdiv r nrm)

/-- `for _ in range(fuel): if not torch.sum(inner_products.abs() > tol): could = True; break; <pass on every column>`
with `inner_products` over ALL columns; returns (the `r_vec` of every column, could_reorthogonalize, passes run). -/
def extraPassesM [Add α] [Sub α] [Mul α] [Div α] [Zero α] (ops : NumOps α) (tol : α) (m : Nat)
    (qs : Vector (Fam (Vec α n)) C) : (fuel : Nat) → Vector (Vec α n) C → Vector (Vec α n) C × Bool × Nat
  | 0, rs => (rs, false, 0)
  | fuel + 1, rs =>
    if !anyCol C (fun c => anyGt ops (innerProducts m qs[c] rs[c]) tol) then (rs, true, 0)
    else
      let res := extraPassesM ops tol m qs fuel (Vector.ofFn fun c => reorthPass ops m qs[c] rs[c])
      (res.1, res.2.1, res.2.2 + 1)

/-- Loop body for loop variable `k`, all columns; the Boolean is "break". -/
def bodyM [Add α] [Sub α] [Mul α] [Div α] [Zero α] (ops : NumOps α) (p : Params α)
    (amuls : Fin C → Vec α n → Vec α n) (numIter k : Nat) (ss : Vector (St α n) C) :
    Vector (St α n) C × Bool :=
  if k + 1 < numIter then
    let pre : Vector (α × α × Vec α n) C := Vector.ofFn fun c => colPre ops (amuls c) k ss[c]
    let qs : Vector (Fam (Vec α n)) C := Vector.ofFn fun c => ss[c].q
    let rs : Vector (Vec α n) C := Vector.ofFn fun c => pre[c].2.2
    let ex : Vector (Vec α n) C × Bool × Nat := extraPassesM ops p.tol (k + 1) qs p.extra rs
    (Vector.ofFn fun c =>
      { q := upd ss[c].q (k + 1) ex.1[c],
        t := tset (tset (tset ss[c].t k k pre[c].1) k (k + 1) pre[c].2.1) (k + 1) k pre[c].2.1,
        passes := ss[c].passes + ex.2.2 },
     !(anyCol C fun c => ops.gt (ops.abs pre[c].2.1) p.breakTol) || !ex.2.1)
  else
    (Vector.ofFn fun c => { ss[c] with t := tset ss[c].t k k (colAlpha (amuls c) k ss[c]) }, false)

/-- `for k in range(1, num_iter)` on all columns, `rem` iterations left; returns the final `num_iter = k + 1`. -/
def loopM [Add α] [Sub α] [Mul α] [Div α] [Zero α] (ops : NumOps α) (p : Params α)
    (amuls : Fin C → Vec α n → Vec α n) (numIter : Nat) :
    (rem k : Nat) → Vector (St α n) C → Nat × Vector (St α n) C
  | 0, k, ss => (k, ss)
  | rem + 1, k, ss =>
    let b := bodyM ops p amuls numIter k ss
    if b.2 then (k + 1, b.1) else loopM ops p amuls numIter rem (k + 1) b.1

/-- Result of a multi-column call: ONE trimmed size for all columns, and every column's two buffers. -/
structure MOut (α : Type) (n C : Nat) where
  count : Nat
  cols : Vector (St α n) C

/-- column `c` of the result, in the shape of a single-column result -/
def MOut.col (o : MOut α n C) (c : Fin C) : Out α n :=
  { count := o.count, q := o.cols[c].q, t := o.cols[c].t, passes := o.cols[c].passes }

/-- `lanczos_tridiag` on `C` columns at once (code as it is now: the first step is guarded, `guardsSingle = true`).
`amuls c` is the closure restricted to column `c`, `vs[c]` its start vector. -/
def lanczosMulti [Add α] [Sub α] [Mul α] [Div α] [Zero α] (ops : NumOps α) (p : Params α)
    (amuls : Fin C → Vec α n → Vec α n) (maxIter : Nat) (vs : Vector (Vec α n) C) : Except Err (MOut α n C) :=
  let numIter := min maxIter n
  if numIter = 0 then .error .indexError
  else
    if decide (1 < numIter) &&
        anyCol C (fun c => ops.gt (ops.abs (init0 ops (amuls c) numIter vs[c]).2.2) p.breakTol) then
      let r := loopM ops p amuls numIter (numIter - 1) 1 (Vector.ofFn fun c => init ops (amuls c) numIter vs[c])
      .ok { count := r.1, cols := r.2 }
    else
      .ok { count := 1, cols := Vector.ofFn fun c => (init0 ops (amuls c) numIter vs[c]).1 }

end
end LinOp.C09
