/-
C09 — the coupled model with ONE column is the single-column model: `lanczosMulti` on `C = 1` returns exactly what
`lanczosTridiag` returns (count, both buffers, number of extra passes).  A program equivalence: it holds for every scalar
type with the notation classes (so also for the `Float` run of the driver), no algebraic law is used.
-/
import LinOp.C09.Multi

namespace LinOp.C09

variable {α : Type} {n : Nat}

theorem ofFn_one {β : Type} (f : Fin 1 → β) : Vector.ofFn f = #v[f 0] := by
  apply Vector.ext
  intro i hi
  have : i = 0 := by omega
  subst this
  simp

theorem anyCol_one (f : Fin 1 → Bool) : anyCol 1 f = f 0 := by
  simp [anyCol, List.finRange_succ]

theorem vec_one_eq {β : Type} (v : Vector β 1) : v = #v[v[0]] := by
  apply Vector.ext
  intro i hi
  have : i = 0 := by omega
  subst this
  simp

section
variable [Add α] [Sub α] [Mul α] [Div α] [Zero α] (ops : NumOps α)

theorem extraPassesM_one (tol : α) (m : Nat) (q : Fam (Vec α n)) :
    ∀ (fuel : Nat) (r : Vec α n),
      extraPassesM ops tol m (#v[q] : Vector (Fam (Vec α n)) 1) fuel #v[r]
        = (#v[(extraPasses ops tol m q fuel r).1], (extraPasses ops tol m q fuel r).2.1,
            (extraPasses ops tol m q fuel r).2.2) := by
  intro fuel
  induction fuel with
  | zero => intro r; rfl
  | succ f ih =>
    intro r
    simp only [extraPassesM, extraPasses, anyCol_one, ofFn_one]
    have h0 : (#v[q] : Vector (Fam (Vec α n)) 1)[(0 : Fin 1)] = q := rfl
    have h1 : (#v[r] : Vector (Vec α n) 1)[(0 : Fin 1)] = r := rfl
    rw [h0, h1]
    split
    · rfl
    · rw [ih]

theorem bodyM_one (p : Params α) (amul : Vec α n → Vec α n) (numIter k : Nat) (ss : Vector (St α n) 1) :
    bodyM ops p (fun _ : Fin 1 => amul) numIter k ss
      = (#v[(body ops p amul numIter k ss[(0 : Fin 1)]).1], (body ops p amul numIter k ss[(0 : Fin 1)]).2) := by
  unfold bodyM body
  by_cases h : k + 1 < numIter
  · simp only [h, if_true, ofFn_one, anyCol_one]
    have e1 : ∀ {β : Type} (x : β), (#v[x] : Vector β 1)[(0 : Fin 1)] = x := fun _ => rfl
    simp only [e1, extraPassesM_one]
    rfl
  · simp only [h, if_false, ofFn_one]
    rfl

theorem loopM_one (p : Params α) (amul : Vec α n → Vec α n) (numIter : Nat) :
    ∀ (rem k : Nat) (ss : Vector (St α n) 1),
      loopM ops p (fun _ : Fin 1 => amul) numIter rem k ss
        = ((loop ops p amul numIter rem k ss[(0 : Fin 1)]).1, #v[(loop ops p amul numIter rem k ss[(0 : Fin 1)]).2]) := by
  intro rem
  induction rem with
  | zero =>
    intro k ss
    simp only [loopM, loop]
    exact congrArg _ (vec_one_eq ss)
  | succ rem ih =>
    intro k ss
    simp only [loopM, loop, bodyM_one]
    split
    · rfl
    · rw [ih]
      rfl

/-- `lanczosMulti` on a single column is `lanczosTridiag` (code as it is now, `guardsSingle = true`). -/
theorem lanczosMulti_one (p : Params α) (hg : p.guardsSingle = true) (amul : Vec α n → Vec α n) (maxIter : Nat)
    (v : Vec α n) :
    (lanczosMulti ops p (fun _ : Fin 1 => amul) maxIter #v[v]).map (fun o => o.col 0)
      = lanczosTridiag ops p amul maxIter v := by
  unfold lanczosMulti lanczosTridiag
  have e1 : (#v[v] : Vector (Vec α n) 1)[(0 : Fin 1)] = v := rfl
  by_cases h0 : min maxIter n = 0
  · simp only [h0, if_true]
    rfl
  · simp only [h0, if_false, hg, if_true, anyCol_one, e1]
    split
    · simp only [ofFn_one, e1, loopM_one]
      rfl
    · simp only [ofFn_one, e1]
      rfl

end
end LinOp.C09
