/-
C09 — the coupled multi-column loop (`LinOp.C09.lanczosMulti`): every column of the coupled run performs, in each
iteration, a `Step` — the single-column iteration with SOME number of extra re-orthogonalisation passes (decided by all
columns together).  The single-column invariants are proved for `Step` and lifted through the coupled loop: for every
column and every prefix length `m ≤ count` up to that column's own breakdown, the first `m` vectors are orthonormal,
satisfy the three-term recurrence and `T[m-1,m-1] = q·Aq` (`Done`), whatever the other columns do.
-/
import LinOp.C09.ProofsRun
import LinOp.C09.Multi
import Mathlib.LinearAlgebra.Matrix.DotProduct

set_option linter.unusedSectionVars false
set_option linter.unusedVariables false

namespace LinOp.C09
open Matrix

variable {K : Type} [Field K] [LinearOrder K] [IsStrictOrderedRing K] {n C : Nat}
variable {ops : NumOps K} {p : Params K}

/-! ### one iteration of one column, extra passes abstracted -/

/-- `s'` is the state of one column after iteration `k`: the three writes to `t_mat` and `q_mat[k+1] = w`, where `w`
is the normalised residual `bodyW` whenever that one is a unit vector orthogonal to `q_0 … q_k` (extra passes do not
move it). -/
structure Step (ops : NumOps K) (amul : Vec K n → Vec K n) (numIter k : Nat) (s s' : St K n) : Prop where
  qt_then : k + 1 < numIter → ∃ w : Vec K n,
    (Orth (Qf s) k → bodyN ops amul k s ≠ 0 → w = bodyW ops amul k s) ∧
    s'.q = upd s.q (k + 1) w ∧
    s'.t = tset (tset (tset s.t k k (bodyA amul k s)) k (k + 1) (bodyN ops amul k s)) (k + 1) k (bodyN ops amul k s)
  qt_else : ¬ k + 1 < numIter → s'.q = s.q ∧ s'.t = tset s.t k k (bodyA amul k s)

/-- The single-column `body` is a `Step`. -/
theorem body_step (hs : SqrtLaw ops) (amul : Vec K n → Vec K n) (numIter k : Nat) (s : St K n) :
    Step ops amul numIter k s (body ops p amul numIter k s).1 := by
  constructor
  · intro h
    refine ⟨(bodyEx ops p amul k s).1, fun ho hb => bodyEx_eq hs ho hb, ?_, ?_⟩ <;>
      rw [body_then ops p amul numIter k s h]
  · intro h
    rw [body_else ops p amul numIter k s h]
    exact ⟨rfl, rfl⟩

section step
variable {amul : Vec K n → Vec K n} {numIter k : Nat} {s s' : St K n}

theorem Step.Tf_then (hst : Step ops amul numIter k s s') (h : k + 1 < numIter) (i j : Nat) :
    Tf s' i j =
      if i = k + 1 ∧ j = k then bodyN ops amul k s
      else if i = k ∧ j = k + 1 then bodyN ops amul k s
      else if i = k ∧ j = k then bodyA amul k s else Tf s i j := by
  obtain ⟨w, _, _, ht⟩ := hst.qt_then h
  simp only [Tf, ht, tset_get]

theorem Step.Tf_else (hst : Step ops amul numIter k s s') (h : ¬ k + 1 < numIter) (i j : Nat) :
    Tf s' i j = if i = k ∧ j = k then bodyA amul k s else Tf s i j := by
  obtain ⟨_, ht⟩ := hst.qt_else h
  simp only [Tf, ht, tset_get]

theorem Step.Tf_frame (hst : Step ops amul numIter k s s') (i j : Nat)
    (hne : ¬(i = k + 1 ∧ j = k) ∧ ¬(i = k ∧ j = k + 1) ∧ ¬(i = k ∧ j = k)) : Tf s' i j = Tf s i j := by
  by_cases h : k + 1 < numIter
  · rw [hst.Tf_then h, if_neg hne.1, if_neg hne.2.1, if_neg hne.2.2]
  · rw [hst.Tf_else h, if_neg hne.2.2]

theorem Step.Tf_alpha (hst : Step ops amul numIter k s s') : Tf s' k k = bodyA amul k s := by
  by_cases h : k + 1 < numIter
  · rw [hst.Tf_then h, if_neg (by omega), if_neg (by omega), if_pos ⟨rfl, rfl⟩]
  · rw [hst.Tf_else h, if_pos ⟨rfl, rfl⟩]

theorem Step.Tf_beta (hst : Step ops amul numIter k s s') (h : k + 1 < numIter) :
    Tf s' k (k + 1) = bodyN ops amul k s := by
  rw [hst.Tf_then h, if_neg (by omega), if_pos ⟨rfl, rfl⟩]

theorem Step.Qf_frame (hst : Step ops amul numIter k s s') (j : Nat) (hj : j ≠ k + 1) : Qf s' j = Qf s j := by
  by_cases h : k + 1 < numIter
  · obtain ⟨w, _, hq, _⟩ := hst.qt_then h
    simp only [Qf, hq, upd_get, if_neg hj]
  · obtain ⟨hq, _⟩ := hst.qt_else h
    simp only [Qf, hq]

theorem Step.AQf_frame (hst : Step ops amul numIter k s s') (j : Nat) (hj : j ≠ k + 1) :
    AQf amul s' j = AQf amul s j := by
  by_cases h : k + 1 < numIter
  · obtain ⟨w, _, hq, _⟩ := hst.qt_then h
    simp only [AQf, hq, upd_get, if_neg hj]
  · obtain ⟨hq, _⟩ := hst.qt_else h
    simp only [AQf, hq]

/-- the vector written to `q_mat[k+1]`, when the residual norm is non-zero -/
theorem Step.Qf_new (hst : Step ops amul numIter k s s') (h : k + 1 < numIter) (ho : Orth (Qf s) k)
    (hb : bodyN ops amul k s ≠ 0) : Qf s' (k + 1) = fn (bodyW ops amul k s) := by
  obtain ⟨w, hw, hq, _⟩ := hst.qt_then h
  simp only [Qf, hq, upd_get, if_pos, hw ho hb]

theorem Step.tstruct (hst : Step ops amul numIter k s s') (hT : TStruct s) : TStruct s' := by
  by_cases h : k + 1 < numIter
  · constructor
    · intro i j
      rw [hst.Tf_then h, hst.Tf_then h]
      have := hT.sym i j
      split_ifs <;> first | rfl | omega | exact this
    · intro i j hij
      rw [hst.Tf_then h]
      have := hT.tri i j hij
      split_ifs <;> first | omega | exact this
  · constructor
    · intro i j
      rw [hst.Tf_else h, hst.Tf_else h]
      have := hT.sym i j
      split_ifs <;> first | rfl | omega | exact this
    · intro i j hij
      rw [hst.Tf_else h]
      have := hT.tri i j hij
      split_ifs <;> first | omega | exact this

/-- `BetaOK j`, `j ≤ k`, only reads entries that iteration `k` does not write. -/
theorem Step.betaOK_back (hst : Step ops amul numIter k s s') {j : Nat} (hj : j ≤ k) (h : BetaOK j s') :
    BetaOK j s := by
  intro i hi
  have := h i hi
  rwa [hst.Tf_frame i (i + 1) (by omega)] at this

/-- A finished prefix stays finished: iteration `k` writes nothing that `Done j`, `j < k`, reads. -/
theorem Step.done_frame (hst : Step ops amul numIter k s s') {j : Nat} (hj : j < k) (hd : Done amul j s) :
    Done amul j s' := by
  refine ⟨?_, ?_, ?_⟩
  · intro a b ha hb
    rw [hst.Qf_frame a (by omega), hst.Qf_frame b (by omega)]
    exact hd.orth a b ha hb
  · intro i hi
    rw [hst.AQf_frame i (by omega), hst.Tf_frame i (i - 1) (by omega), hst.Tf_frame i i (by omega),
      hst.Tf_frame i (i + 1) (by omega), hst.Qf_frame (i - 1) (by omega), hst.Qf_frame i (by omega),
      hst.Qf_frame (i + 1) (by omega)]
    exact hd.recur i hi
  · rw [hst.Tf_frame j j (by omega), hst.Qf_frame j (by omega), hst.AQf_frame j (by omega)]
    exact hd.alpha

/-- After iteration `k` the first `k + 1` vectors are final (whether or not the loop goes on). -/
theorem Step.done (hst : Step ops amul numIter k s s') (hk : 1 ≤ k) (hA : SelfAdj amul) (ht : Top amul k s) :
    Done amul k s' := by
  have hkk : Qf s k ⬝ᵥ Qf s (k - 1) = 0 := by
    rw [ht.orth k (k - 1) le_rfl (by omega)]; simp; omega
  have hal : bodyA amul k s = Qf s k ⬝ᵥ AQf amul s k := by
    rw [bodyA_eq]; simp [dotProduct_sub, hkk]
  refine ⟨?_, ?_, ?_⟩
  · intro i j hi hj
    rw [hst.Qf_frame i (by omega), hst.Qf_frame j (by omega)]
    exact ht.orth i j hi hj
  · intro j hj
    rw [hst.AQf_frame j (by omega), hst.Tf_frame j (j - 1) (by omega), hst.Tf_frame j j (by omega),
      hst.Tf_frame j (j + 1) (by omega), hst.Qf_frame (j - 1) (by omega), hst.Qf_frame j (by omega),
      hst.Qf_frame (j + 1) (by omega)]
    exact ht.recur j hj
  · rw [hst.Tf_alpha, hst.Qf_frame k (by omega), hst.AQf_frame k (by omega)]
    exact hal

/-- If `β_k ≠ 0` the state at the top of iteration `k + 1` is fine (for this column). -/
theorem Step.top (hst : Step ops amul numIter k s s') (hk : 1 ≤ k) (hs : SqrtLaw ops) (hA : SelfAdj amul)
    (hT : TStruct s) (ht : Top amul k s) (h : k + 1 < numIter) (hb : bodyN ops amul k s ≠ 0) :
    Top amul (k + 1) s' := by
  have hd := hst.done hk hA ht
  have hw0 := bodyW_orth (ops := ops) hk hA hT ht
  have hw1 := bodyW_unit hs hb
  have hnew := hst.Qf_new h ht.orth hb
  have hQ : Qf s' = fun j => if j = k + 1 then fn (bodyW ops amul k s) else Qf s j := by
    funext j
    by_cases hj : j = k + 1
    · rw [if_pos hj, hj, hnew]
    · rw [if_neg hj, hst.Qf_frame j hj]
  refine ⟨?_, ?_⟩
  · rw [hQ]
    exact orth_extend ht.orth _ hw0 hw1
  · intro j hj
    rcases Nat.lt_or_eq_of_le (Nat.lt_succ_iff.mp hj) with hlt | heq
    · exact hd.recur j hlt
    · subst heq
      have hr2 := fn_bodyR2 hk hA hT ht
      have hr1 := fn_bodyR1 (amul := amul) (k := j) (s := s)
      have hbw : bodyN ops amul j s • fn (bodyW ops amul j s) = fn (bodyR1 amul j s) := by
        simp only [bodyW, fn_vdiv, hr2]
        rw [smul_smul, mul_inv_cancel₀ hb, one_smul]
      have hAq : AQf amul s j = Tf s j (j - 1) • Qf s (j - 1) + bodyA amul j s • Qf s j
          + bodyN ops amul j s • fn (bodyW ops amul j s) := by
        rw [hbw, hr1, ← bodyA_eq]
        abel
      rw [if_neg (by omega : ¬ j = 0), hst.AQf_frame j (by omega), hst.Tf_frame j (j - 1) (by omega), hst.Tf_alpha,
        hst.Tf_beta h, hst.Qf_frame (j - 1) (by omega), hst.Qf_frame j (by omega), hnew]
      exact hAq

/-- A column that breaks down in iteration `k` (`β_k = 0`) inside a run that goes on: its residual is the zero vector
(so the division `r_vec.div_(r_vec_norm)` is `0/0` entry by entry: NaN in IEEE arithmetic), and the two off-diagonal
entries written are `0`. -/
theorem Step.breakdown (hst : Step ops amul numIter k s s') (hs : SqrtLaw ops) (h : k + 1 < numIter)
    (hb : bodyN ops amul k s = 0) :
    fn (bodyR2 amul k s) = 0 ∧ bodyW ops amul k s = vdiv (bodyR2 amul k s) 0 ∧
      Tf s' k (k + 1) = 0 ∧ Tf s' (k + 1) k = 0 := by
  have hz : fn (bodyR2 amul k s) ⬝ᵥ fn (bodyR2 amul k s) = 0 := by
    have h1 := hs.mul_self _ (dot_self_nonneg (fn (bodyR2 amul k s)))
    have h2 : bodyN ops amul k s = ops.sqrt (fn (bodyR2 amul k s) ⬝ᵥ fn (bodyR2 amul k s)) := by
      simp [bodyN, norm, dot_eq]
    rw [← h2, hb, mul_zero] at h1
    exact h1.symm
  refine ⟨dotProduct_self_eq_zero.mp hz, ?_, ?_, ?_⟩
  · simp only [bodyW, hb]
  · rw [hst.Tf_beta h, hb]
  · rw [hst.Tf_then h, if_pos ⟨rfl, rfl⟩, hb]

end step

/-! ### the coupled extra passes and the coupled body, column by column -/

theorem extraPassesM_fixed (hs : SqrtLaw ops) (tol : K) (k : Nat) (qs : Vector (Fam (Vec K n)) C) (c : Fin C) :
    ∀ (fuel : Nat) (rs : Vector (Vec K n) C), (∀ j, j ≤ k → fn (qs[c].get j) ⬝ᵥ fn rs[c] = 0) →
      fn rs[c] ⬝ᵥ fn rs[c] = 1 → (extraPassesM ops tol (k + 1) qs fuel rs).1[c] = rs[c] := by
  intro fuel
  induction fuel with
  | zero => intro rs _ _; rfl
  | succ f ih =>
    intro rs h0 h1
    simp only [extraPassesM]
    split
    · rfl
    · have hfix : (Vector.ofFn fun c => reorthPass ops (k + 1) qs[c] rs[c])[c] = rs[c] := by
        simp only [Fin.getElem_fin, Vector.getElem_ofFn]
        exact reorthPass_fixed hs rs[c] h0 h1
      have := ih (Vector.ofFn fun c => reorthPass ops (k + 1) qs[c] rs[c]) (by rw [hfix]; exact h0)
        (by rw [hfix]; exact h1)
      simp only [this, hfix]

theorem colAlpha_eq (amul : Vec K n → Vec K n) (k : Nat) (s : St K n) : colAlpha amul k s = bodyA amul k s := rfl

theorem colPre_eq (amul : Vec K n → Vec K n) (k : Nat) (s : St K n) :
    colPre ops amul k s = (bodyA amul k s, bodyN ops amul k s, bodyW ops amul k s) := rfl

variable {amuls : Fin C → Vec K n → Vec K n} {numIter k : Nat} {ss : Vector (St K n) C}

/-- Every column of the coupled body performs a `Step`. -/
theorem bodyM_step (hs : SqrtLaw ops) (c : Fin C) :
    Step ops (amuls c) numIter k ss[c] (bodyM ops p amuls numIter k ss).1[c] := by
  constructor
  · intro h
    unfold bodyM
    simp only [h, if_true, Fin.getElem_fin, Vector.getElem_ofFn, colPre_eq]
    refine ⟨_, ?_, rfl, trivial⟩
    intro ho hb
    have := extraPassesM_fixed (ops := ops) hs p.tol k (Vector.ofFn fun c => ss[c].q) c p.extra
      (Vector.ofFn fun c => bodyW ops (amuls c) k ss[c])
      (by
        intro j hj
        simp only [Fin.getElem_fin, Vector.getElem_ofFn]
        exact bodyW_orth_gs ho j hj)
      (by
        simp only [Fin.getElem_fin, Vector.getElem_ofFn]
        exact bodyW_unit hs hb)
    simp only [Fin.getElem_fin, Vector.getElem_ofFn] at this
    exact this
  · intro h
    unfold bodyM
    simp only [h, if_false, Fin.getElem_fin, Vector.getElem_ofFn, colAlpha_eq]
    exact ⟨trivial, trivial⟩

/-- The coupled break test: the loop goes on iff SOME column is above the threshold and the (shared) extra passes ended
with `could_reorthogonalize = True`. -/
theorem bodyM_break (h : k + 1 < numIter) :
    (bodyM ops p amuls numIter k ss).2 = false ↔
      (∃ c : Fin C, ops.gt (ops.abs (bodyN ops (amuls c) k ss[c])) p.breakTol = true) ∧
      (extraPassesM ops p.tol (k + 1) (Vector.ofFn fun c => ss[c].q) p.extra
        (Vector.ofFn fun c => bodyW ops (amuls c) k ss[c])).2.1 = true := by
  unfold bodyM
  simp only [h, if_true, Fin.getElem_fin, Vector.getElem_ofFn, colPre_eq, anyCol, Bool.or_eq_false_iff,
    Bool.not_eq_eq_eq_not, Bool.not_false, List.any_eq_true, List.mem_finRange, true_and]

/-- Without a re-orthogonalisation block (last iteration of the budget) there is no break. -/
theorem bodyM_nobreak (h : ¬ k + 1 < numIter) : (bodyM ops p amuls numIter k ss).2 = false := by
  unfold bodyM
  simp only [h, if_false]

/-! ### the coupled loop -/

/-- Per-column statement about a state of the coupled run that has `cnt` vectors per column. -/
structure ColFinal (amul : Vec K n → Vec K n) (cnt : Nat) (s : St K n) : Prop where
  tstruct : TStruct s
  prefix_done : ∀ m, 1 ≤ m → m ≤ cnt → BetaOK (m - 1) s → Done amul (m - 1) s

theorem loopM_inv (hs : SqrtLaw ops) (hA : ∀ c, SelfAdj (amuls c)) :
    ∀ (rem k : Nat) (ss : Vector (St K n) C), k + rem = numIter → 1 ≤ k →
      (∀ c : Fin C, ColFinal (amuls c) k ss[c]) →
      (∀ c : Fin C, 1 ≤ rem → BetaOK k ss[c] → Top (amuls c) k ss[c]) →
      1 ≤ (loopM ops p amuls numIter rem k ss).1 ∧ (loopM ops p amuls numIter rem k ss).1 ≤ numIter ∧
      ∀ c : Fin C, ColFinal (amuls c) (loopM ops p amuls numIter rem k ss).1 (loopM ops p amuls numIter rem k ss).2[c] := by
  intro rem
  induction rem with
  | zero =>
    intro k ss hkr hk hfin _
    simp only [loopM]
    exact ⟨hk, by omega, hfin⟩
  | succ rem ih =>
    intro k ss hkr hk hfin htop
    have hstep := fun c => bodyM_step (p := p) (amuls := amuls) (numIter := numIter) (k := k) (ss := ss) hs c
    -- after the iteration every column has `k + 1` final vectors
    have hfin' : ∀ c : Fin C, ColFinal (amuls c) (k + 1) (bodyM ops p amuls numIter k ss).1[c] := by
      intro c
      refine ⟨(hstep c).tstruct (hfin c).tstruct, ?_⟩
      intro m hm1 hm2 hb
      rcases Nat.lt_or_eq_of_le hm2 with hlt | heq
      · have hb' := (hstep c).betaOK_back (j := m - 1) (by omega) hb
        exact (hstep c).done_frame (by omega) ((hfin c).prefix_done m hm1 (by omega) hb')
      · subst heq
        have hb' := (hstep c).betaOK_back (j := k) le_rfl (by simpa using hb)
        simpa using (hstep c).done hk (hA c) (htop c (by omega) hb')
    simp only [loopM]
    split
    · exact ⟨by simp, by simp only; omega, hfin'⟩
    · apply ih (k + 1) _ (by omega) (by omega) hfin'
      intro c hrem hb
      have hlt : k + 1 < numIter := by omega
      have hb' : BetaOK k (bodyM ops p amuls numIter k ss).1[c] := fun j hj => hb j (by omega)
      have hbk := (hstep c).betaOK_back (j := k) le_rfl hb'
      have hbeta := hb k (by omega)
      rw [(hstep c).Tf_beta hlt] at hbeta
      exact (hstep c).top hk hs (hA c) (hfin c).tstruct (htop c (by omega) hbk) hlt hbeta

/-- The coupled call: it succeeds for every budget `≥ 1`, returns ONE `count` for all columns, and every column is
`ColFinal` — symmetric tridiagonal `T`, and every prefix up to the column's own breakdown is `Done`. -/
theorem lanczosMulti_ok (hs : SqrtLaw ops) (hA : ∀ c, SelfAdj (amuls c)) (maxIter : Nat)
    (vs : Vector (Vec K n) C) (hv : ∀ c : Fin C, fn vs[c] ⬝ᵥ fn vs[c] ≠ 0) (h1 : 1 ≤ min maxIter n) :
    ∃ o, lanczosMulti ops p amuls maxIter vs = .ok o ∧ 1 ≤ o.count ∧ o.count ≤ min maxIter n ∧
      ∀ c : Fin C, ColFinal (amuls c) o.count o.cols[c] := by
  by_cases hc : (decide (1 < min maxIter n) &&
      anyCol C (fun c => ops.gt (ops.abs (init0 ops (amuls c) (min maxIter n) vs[c]).2.2) p.breakTol)) = true
  · have h2 : 2 ≤ min maxIter n := by
      simp only [Bool.and_eq_true, decide_eq_true_eq] at hc
      omega
    have hinv := loopM_inv (p := p) (amuls := amuls) (numIter := min maxIter n) hs hA (min maxIter n - 1) 1
      (Vector.ofFn fun c => init ops (amuls c) (min maxIter n) vs[c]) (by omega) le_rfl
      (by
        intro c
        simp only [Fin.getElem_fin, Vector.getElem_ofFn]
        refine ⟨init_tstruct ops (amuls c) _ _, ?_⟩
        intro m hm1 hm2 _
        have : m - 1 = 0 := by omega
        rw [this]
        exact init_done hs _ (hv c))
      (by
        intro c _ hb
        simp only [Fin.getElem_fin, Vector.getElem_ofFn] at hb ⊢
        exact init_top hs _ (hv c) hb)
    refine ⟨{ count := (loopM ops p amuls (min maxIter n) (min maxIter n - 1) 1
                (Vector.ofFn fun c => init ops (amuls c) (min maxIter n) vs[c])).1,
              cols := (loopM ops p amuls (min maxIter n) (min maxIter n - 1) 1
                (Vector.ofFn fun c => init ops (amuls c) (min maxIter n) vs[c])).2 }, ?_, hinv.1, hinv.2.1, hinv.2.2⟩
    unfold lanczosMulti
    simp only [show ¬ min maxIter n = 0 by omega, if_false, hc, if_true]
  · refine ⟨{ count := 1, cols := Vector.ofFn fun c => (init0 ops (amuls c) (min maxIter n) vs[c]).1 }, ?_,
      le_rfl, h1, ?_⟩
    · unfold lanczosMulti
      simp only [show ¬ min maxIter n = 0 by omega, if_false, hc]
      rfl
    · intro c
      simp only [Fin.getElem_fin, Vector.getElem_ofFn]
      refine ⟨init0_tstruct ops (amuls c) _ _, ?_⟩
      intro m hm1 hm2 _
      have : m - 1 = 0 := by omega
      rw [this]
      exact init0_done hs _ (hv c)

end LinOp.C09
