/-
C09 — helper lemmas for the Lanczos model: vector algebra bridge, Gram–Schmidt correction,
the three-term recurrence and the loop invariant.
-/
import LinOp.C09.Model
import LinOp.Core.Bridge
import Mathlib.Algebra.Order.Field.Basic
import Mathlib.Algebra.Order.BigOperators.Ring.Finset
import Mathlib.Data.Matrix.Mul
import Mathlib.Tactic.Ring
import Mathlib.Tactic.Linarith
import Mathlib.Tactic.FieldSimp

set_option linter.unusedSectionVars false

namespace LinOp.C09
open Matrix

variable {K : Type} [Field K] [LinearOrder K] [IsStrictOrderedRing K] {n : Nat}

/-- A vector of the model seen as a function. -/
def fn (u : Vec K n) : Fin n → K := fun i => u[i]

theorem fn_inj {u v : Vec K n} (h : fn u = fn v) : u = v := by
  apply Vector.ext
  intro i hi
  exact congrFun h ⟨i, hi⟩

theorem dot_eq (u v : Vec K n) : dot u v = fn u ⬝ᵥ fn v := by
  simp [dot, sumFin_eq_sum, dotProduct, fn]

@[simp] theorem fn_vsub (u v : Vec K n) : fn (vsub u v) = fn u - fn v := by
  funext i; simp [fn, vsub]

@[simp] theorem fn_vscale (u : Vec K n) (c : K) : fn (vscale u c) = c • fn u := by
  funext i; simp [fn, vscale, mul_comm]

@[simp] theorem fn_vdiv (u : Vec K n) (c : K) : fn (vdiv u c) = c⁻¹ • fn u := by
  funext i; simp [fn, vdiv, div_eq_inv_mul]

@[simp] theorem fn_vzero : fn (vzero : Vec K n) = 0 := by
  funext i; simp [fn, vzero]

theorem fn_correction (m : Nat) (q : Fam (Vec K n)) (r : Vec K n) :
    fn (correction m q r) = ∑ j : Fin m, (fn (q.get j.1) ⬝ᵥ fn r) • fn (q.get j.1) := by
  funext i
  simp [fn, correction, innerProducts, sumFin_eq_sum, dot_eq, Finset.sum_apply, mul_comm]

@[simp] theorem upd_get {β : Type} (f : Fam β) (a : Nat) (v : β) (b : Nat) :
    (upd f a v).get b = if b = a then v else f.get b := by
  simp [upd]

@[simp] theorem tset_get {β : Type} (t : Fam (Fam β)) (a b : Nat) (v : β) (i j : Nat) :
    ((tset t a b v).get i).get j = if i = a ∧ j = b then v else (t.get i).get j := by
  simp [tset]

/-- Lawful `sqrt`: what the theorems assume about `NumOps.sqrt` (true of the real square root). -/
structure SqrtLaw (ops : NumOps K) : Prop where
  mul_self : ∀ x : K, 0 ≤ x → ops.sqrt x * ops.sqrt x = x
  nonneg : ∀ x : K, 0 ≤ ops.sqrt x

theorem SqrtLaw.sqrt_one {ops : NumOps K} (h : SqrtLaw ops) : ops.sqrt 1 = 1 := by
  have h1 := h.mul_self 1 zero_le_one
  have h2 := h.nonneg 1
  nlinarith [h1, h2, mul_self_nonneg (ops.sqrt 1 - 1)]

theorem dot_self_nonneg (w : Fin n → K) : 0 ≤ w ⬝ᵥ w := by
  simp only [dotProduct]
  exact Finset.sum_nonneg fun i _ => mul_self_nonneg (w i)

/-! ### Orthonormal families and the Gram–Schmidt correction -/

/-- `q 0, …, q k` are orthonormal. -/
def Orth (q : Nat → Fin n → K) (k : Nat) : Prop :=
  ∀ i j, i ≤ k → j ≤ k → q i ⬝ᵥ q j = if i = j then 1 else 0

/-- After subtracting `Σ_j (q_j·r) q_j` the vector is orthogonal to every `q_i` — for ANY `r`. -/
theorem gs_orth {q : Nat → Fin n → K} {k : Nat} (ho : Orth q k) (r : Fin n → K) (i : Nat) (hi : i ≤ k) :
    q i ⬝ᵥ (r - ∑ j : Fin (k + 1), (q j.1 ⬝ᵥ r) • q j.1) = 0 := by
  rw [dotProduct_sub, dotProduct_sum]
  simp only [dotProduct_smul, smul_eq_mul]
  rw [Finset.sum_eq_single (⟨i, by omega⟩ : Fin (k + 1))]
  · simp [ho i i hi hi]
  · intro j _ hj
    have : i ≠ j.1 := fun h => hj (Fin.ext h.symm)
    simp [ho i j.1 hi (by omega), this]
  · simp

/-- If `r` is already orthogonal to all `q_j` the correction vanishes. -/
theorem corr_zero {q : Nat → Fin n → K} {k : Nat} (r : Fin n → K) (h : ∀ j, j ≤ k → q j ⬝ᵥ r = 0) :
    ∑ j : Fin (k + 1), (q j.1 ⬝ᵥ r) • q j.1 = 0 := by
  apply Finset.sum_eq_zero
  intro j _
  rw [h j.1 (by omega), zero_smul]

/-- Normalising by a lawful square root gives a unit vector. -/
theorem unit_of_norm {ops : NumOps K} (hs : SqrtLaw ops) (w : Fin n → K)
    (hb : ops.sqrt (w ⬝ᵥ w) ≠ 0) :
    ((ops.sqrt (w ⬝ᵥ w))⁻¹ • w) ⬝ᵥ ((ops.sqrt (w ⬝ᵥ w))⁻¹ • w) = 1 := by
  rw [smul_dotProduct, dotProduct_smul, smul_eq_mul, smul_eq_mul]
  have h := hs.mul_self _ (dot_self_nonneg w)
  generalize ops.sqrt (w ⬝ᵥ w) = b at *
  rw [← h]; field_simp

/-- Extending an orthonormal family by a unit vector orthogonal to it. -/
theorem orth_extend {q : Nat → Fin n → K} {k : Nat} (ho : Orth q k) (w : Fin n → K)
    (hw : ∀ j, j ≤ k → q j ⬝ᵥ w = 0) (hu : w ⬝ᵥ w = 1) :
    Orth (fun j => if j = k + 1 then w else q j) (k + 1) := by
  intro i j hi hj
  by_cases h1 : i = k + 1 <;> by_cases h2 : j = k + 1
  · simp [h1, h2, hu]
  · have hj' : j ≤ k := by omega
    have : k + 1 ≠ j := fun h => h2 h.symm
    simp [h1, h2, this, dotProduct_comm w, hw j hj']
  · have hi' : i ≤ k := by omega
    simp [h1, h2, hw i hi']
  · have hi' : i ≤ k := by omega
    have hj' : j ≤ k := by omega
    simp [h1, h2, ho i j hi' hj']

/-! ### The three-term recurrence -/

/-- `A q_j = β_{j-1} q_{j-1} + α_j q_j + β_j q_{j+1}` for `j < k`
(`Aq j` stands for `A q_j`, `t` for the buffer `t_mat`). -/
def Rec (Aq q : Nat → Fin n → K) (t : Nat → Nat → K) (k : Nat) : Prop :=
  ∀ j, j < k → Aq j = (if j = 0 then 0 else t j (j - 1) • q (j - 1)) + t j j • q j + t j (j + 1) • q (j + 1)

/-- The residual of step `k` (after removing the `q_{k-1}` and `q_k` components) is orthogonal to all
previous Lanczos vectors: symmetry + recurrence + orthonormality. -/
theorem residual_orth {Aq q : Nat → Fin n → K} {t : Nat → Nat → K} {k : Nat} (hk : 1 ≤ k)
    (ho : Orth q k) (hr : Rec Aq q t k) (hsym : ∀ i j, i ≤ k → j ≤ k → q i ⬝ᵥ Aq j = Aq i ⬝ᵥ q j)
    (ht : t k (k - 1) = t (k - 1) k) (j : Nat) (hj : j ≤ k) :
    q j ⬝ᵥ (Aq k - t k (k - 1) • q (k - 1) - (q k ⬝ᵥ (Aq k - t k (k - 1) • q (k - 1))) • q k) = 0 := by
  have hkk : q k ⬝ᵥ q (k - 1) = 0 := by
    rw [ho k (k - 1) le_rfl (by omega)]; simp; omega
  rcases Nat.lt_or_eq_of_le hj with hlt | heq
  · -- j < k
    have hjk : q j ⬝ᵥ q k = 0 := by rw [ho j k hj le_rfl]; simp; omega
    have hA : q j ⬝ᵥ Aq k = if j + 1 = k then t j (j + 1) else 0 := by
      rw [hsym j k hj le_rfl, hr j hlt]
      simp only [add_dotProduct, smul_dotProduct, smul_eq_mul]
      have h1 : (if j = 0 then (0 : Fin n → K) else t j (j - 1) • q (j - 1)) ⬝ᵥ q k = 0 := by
        split
        · simp
        · rw [smul_dotProduct, ho (j - 1) k (by omega) le_rfl]; simp; omega
      rw [h1, hjk, ho (j + 1) k (by omega) le_rfl]
      simp
    simp only [dotProduct_sub, dotProduct_smul, smul_eq_mul, hjk, hA, mul_zero, sub_zero]
    rw [ho j (k - 1) hj (by omega)]
    by_cases h : j + 1 = k
    · have : j = k - 1 := by omega
      subst this
      have hk' : k - 1 + 1 = k := by omega
      simp [hk', ht]
    · have : j ≠ k - 1 := by omega
      simp [h, this]
  · subst heq
    simp only [dotProduct_sub, dotProduct_smul, smul_eq_mul, hkk, mul_zero, sub_zero]
    rw [ho j j le_rfl le_rfl]
    simp

end LinOp.C09
