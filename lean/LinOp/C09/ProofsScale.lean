/-
C09 — the tridiagonal jitter is relative: homogeneity of degree 1 of `jitterOf` / `jitteredT` in the matrix, and the
resulting homogeneity of degree 1/2 of the Lanczos root (`root(c·A) = √c · root(A)`, `c > 0`, exact arithmetic).
-/
import LinOp.C09.ProofsPost
import LinOp.C09.Proofs

set_option linter.unusedSectionVars false
set_option linter.unusedVariables false

namespace LinOp.C09
open Matrix

variable {K : Type} [Field K] [LinearOrder K] [IsStrictOrderedRing K] {n m : Nat}

/-- `torch.lt` on an ordered field -/
def ltb : K → K → Bool := fun a b => decide (a < b)

theorem foldl_min_scale (c : K) (hc : 0 < c) (T : Mat K m m) (l : List (Fin m)) (a : K) :
    l.foldl (fun acc i => if ltb (c * T i i) acc then c * T i i else acc) (c * a)
      = c * l.foldl (fun acc i => if ltb (T i i) acc then T i i else acc) a := by
  induction l generalizing a with
  | nil => rfl
  | cons i l ih =>
    simp only [List.foldl_cons]
    by_cases h : T i i < a
    · have h' : c * T i i < c * a := mul_lt_mul_of_pos_left h hc
      simp only [ltb, h, h', decide_true, if_true]
      exact ih _
    · have h' : ¬ c * T i i < c * a := fun h2 => h (lt_of_mul_lt_mul_left h2 hc.le)
      simp only [ltb, h, h', decide_false, Bool.false_eq_true, if_false]
      exact ih _

/-- `min diag (c·T) = c · min diag T` for `c > 0`. -/
theorem minDiag_scale (c : K) (hc : 0 < c) (T : Mat K m m) :
    minDiag ltb (fun a b => c * T a b) 0 = c * minDiag ltb T 0 := by
  unfold minDiag
  generalize List.finRange m = l
  cases l with
  | nil => simp
  | cons i l =>
    simp only [List.foldl_cons]
    have h1 : ¬ T i i < T i i := lt_irrefl _
    have h2 : ¬ c * T i i < c * T i i := lt_irrefl _
    simp only [ltb, h1, h2, decide_false, Bool.false_eq_true, if_false]
    exact foldl_min_scale c hc T l _

/-- The jitter is homogeneous of degree 1 in the tridiagonal matrix (an absolute floor would break this). -/
theorem jitter_homogeneous (c : K) (hc : 0 < c) (jit : K) (T : Mat K m m) :
    jitterOf ltb jit (fun a b => c * T a b) = c * jitterOf ltb jit T := by
  unfold jitterOf
  rw [minDiag_scale c hc]; ring

/-- `c·T + jitter(c·T) = c · (T + jitter(T))`. -/
theorem jitteredT_homogeneous (c : K) (hc : 0 < c) (jit : K) (T : Mat K m m) :
    jitteredT ltb jit (fun a b => c * T a b) = fun a b => c * jitteredT ltb jit T a b := by
  funext a b
  simp only [jitteredT, addJitter, jitter_homogeneous c hc]
  split <;> ring

/-- `√(c·x) = √c · √x` for a lawful square root. -/
theorem SqrtLaw.sqrt_mul {ops : NumOps K} (hs : SqrtLaw ops) {c x : K} (hc : 0 ≤ c) (hx : 0 ≤ x) :
    ops.sqrt (c * x) = ops.sqrt c * ops.sqrt x := by
  have h1 := hs.mul_self (c * x) (mul_nonneg hc hx)
  have h2 := hs.mul_self c hc
  have h3 := hs.mul_self x hx
  have e : ops.sqrt (c * x) * ops.sqrt (c * x) = (ops.sqrt c * ops.sqrt x) * (ops.sqrt c * ops.sqrt x) := by
    rw [h1, mul_mul_mul_comm, h2, h3]
  exact (mul_self_inj (hs.nonneg _) (mul_nonneg (hs.nonneg _) (hs.nonneg _))).mp e

/-- Root assembly on scaled Ritz values: if `(θ, V)` diagonalises `T + jitter(T)` then `(c·θ, V)` diagonalises
`c·T + jitter(c·T)` (by `jitteredT_homogeneous`), and the assembled root is `√c` times the unscaled one — masked
(negative) Ritz values included, whose columns are zero in both. -/
theorem lanczos_root_scaled {ops : NumOps K} (hs : SqrtLaw ops) (c : K) (hc : 0 < c)
    (Q : Matrix (Fin n) (Fin m) K) (V : Matrix (Fin m) (Fin m) K) (θ : Fin m → K) :
    lanczosRoot ops Q V (fun j => c * θ j) = ops.sqrt c • lanczosRoot ops Q V θ := by
  ext i j
  have hmask : ∀ j, (0 ≤ c * θ j) ↔ (0 ≤ θ j) := fun j =>
    ⟨fun h => by by_contra h'; exact absurd h (not_le.mpr (mul_neg_of_pos_of_neg hc (not_le.mp h'))),
     fun h => mul_nonneg hc.le h⟩
  simp only [lanczosRoot, Matrix.of_apply, Matrix.smul_apply, smul_eq_mul, rootOf, qv, Mat.mul, tab_eq,
    sumFin_eq_sum, maskEvecs, maskEvals, ge0, decide_eq_true_eq, hmask]
  by_cases h : 0 ≤ θ j
  · simp only [h, if_true]
    rw [hs.sqrt_mul hc.le h]; ring
  · simp only [h, if_false, mul_zero, Finset.sum_const_zero, zero_mul]

/-- The eigendecomposition contract is preserved by the scaling. -/
theorem eig_scaled (c : K) (V T' : Matrix (Fin m) (Fin m) K) (θ : Fin m → K)
    (h : V * Matrix.diagonal θ * Vᵀ = T') :
    V * Matrix.diagonal (fun j => c * θ j) * Vᵀ = c • T' := by
  rw [← h]
  have : Matrix.diagonal (fun j => c * θ j) = c • Matrix.diagonal θ := by
    ext a b; simp [Matrix.diagonal, Matrix.smul_apply]
  rw [this, Matrix.mul_smul, Matrix.smul_mul]

end LinOp.C09
