/-
C09 — post-processing of the Lanczos output: `lanczos_tridiag_to_diag` (masking of the eigenpairs of
`T + jitter`) and the assembly of the root / inverse root in `RootDecomposition.forward`.

    mask = evals.ge(0); evecs = evecs * mask; evals = evals.masked_fill_(~mask, 1)     -- `maskEvals`, `maskEvecs`
    q_mat = q_mat.matmul(eigenvectors)                                                 -- `qv`
    root_evals = eigenvalues.sqrt(); root = q_mat * root_evals                         -- `rootOf`
    inverse = q_mat / root_evals                                                       -- `rootInvOf`

The scalar type is an ordered field; `ops.sqrt` is only assumed to satisfy `sqrt x * sqrt x = x` on `0 ≤ x`.
-/
import LinOp.C09.Model
import LinOp.Core.Bridge
import Mathlib.Algebra.Order.Field.Basic
import Mathlib.Data.Matrix.Mul
import Mathlib.LinearAlgebra.Matrix.NonsingularInverse
import Mathlib.Tactic.Ring
import Mathlib.Tactic.FieldSimp

set_option linter.unusedSectionVars false

namespace LinOp.C09
open Matrix

variable {K : Type} [Field K] [LinearOrder K] [IsStrictOrderedRing K] {n m : Nat}

/-- `x.ge(0)` -/
def ge0 : K → Bool := fun x => decide (0 ≤ x)

/-- positive part of the spectrum: negative eigenvalues replaced by `0` -/
def pos (θ : Fin m → K) : Fin m → K := fun j => if 0 ≤ θ j then θ j else 0

/-- masked eigenvalues, as returned by `lanczos_tridiag_to_diag` -/
abbrev mEvals (θ : Fin m → K) : Fin m → K := maskEvals ge0 θ

/-- masked eigenvectors, as returned by `lanczos_tridiag_to_diag` -/
abbrev mEvecs (θ : Fin m → K) (V : Matrix (Fin m) (Fin m) K) : Matrix (Fin m) (Fin m) K :=
  Matrix.of (maskEvecs ge0 θ V)

/-- `root` of `RootDecomposition.forward` from `q_mat`, and the eigenpairs `(θ, V)` of `eigh` before masking -/
abbrev lanczosRoot (ops : NumOps K) (Q : Matrix (Fin n) (Fin m) K) (V : Matrix (Fin m) (Fin m) K)
    (θ : Fin m → K) : Matrix (Fin n) (Fin m) K :=
  Matrix.of (rootOf ops (qv Q (maskEvecs ge0 θ V)) (maskEvals ge0 θ))

/-- `inverse` of `RootDecomposition.forward` -/
abbrev lanczosRootInv (ops : NumOps K) (Q : Matrix (Fin n) (Fin m) K) (V : Matrix (Fin m) (Fin m) K)
    (θ : Fin m → K) : Matrix (Fin n) (Fin m) K :=
  Matrix.of (rootInvOf ops (qv Q (maskEvecs ge0 θ V)) (maskEvals ge0 θ))

/-! ### 1. the mask -/

theorem mEvals_of_nonneg (θ : Fin m → K) (j : Fin m) (h : 0 ≤ θ j) : mEvals θ j = θ j := by
  simp [mEvals, maskEvals, ge0, h]

theorem mEvals_of_neg (θ : Fin m → K) (j : Fin m) (h : ¬ 0 ≤ θ j) : mEvals θ j = 1 := by
  simp [mEvals, maskEvals, ge0, h]

theorem mEvecs_of_nonneg (θ : Fin m → K) (V : Matrix (Fin m) (Fin m) K) (i j : Fin m) (h : 0 ≤ θ j) :
    mEvecs θ V i j = V i j := by
  simp [mEvecs, maskEvecs, ge0, h]

theorem mEvecs_of_neg (θ : Fin m → K) (V : Matrix (Fin m) (Fin m) K) (i j : Fin m) (h : ¬ 0 ≤ θ j) :
    mEvecs θ V i j = 0 := by
  simp [mEvecs, maskEvecs, ge0, h]

theorem mEvals_nonneg (θ : Fin m → K) (j : Fin m) : 0 ≤ mEvals θ j := by
  by_cases h : 0 ≤ θ j
  · rw [mEvals_of_nonneg θ j h]; exact h
  · rw [mEvals_of_neg θ j h]; exact zero_le_one

theorem mEvals_ne_zero_of_pos (θ : Fin m → K) (j : Fin m) (h : θ j ≠ 0) : mEvals θ j ≠ 0 := by
  by_cases h0 : 0 ≤ θ j
  · rw [mEvals_of_nonneg θ j h0]; exact h
  · rw [mEvals_of_neg θ j h0]; exact one_ne_zero

/-- entries of `M diag(d) Nᵀ` -/
theorem mul_diagonal_mul_transpose_apply {p q : Nat} (M : Matrix (Fin p) (Fin m) K)
    (N : Matrix (Fin q) (Fin m) K) (d : Fin m → K) (i : Fin p) (j : Fin q) :
    (M * Matrix.diagonal d * Nᵀ) i j = ∑ k, M i k * d k * N j k := by
  rw [Matrix.mul_apply]
  exact Finset.sum_congr rfl fun k _ => by rw [Matrix.mul_diagonal, Matrix.transpose_apply]

/-- (d) masking replaces the spectrum by its positive part: the masked pair reconstructs
`V diag(θ⁺) Vᵀ`. -/
theorem mask_reconstruct (θ : Fin m → K) (V : Matrix (Fin m) (Fin m) K) :
    mEvecs θ V * Matrix.diagonal (mEvals θ) * (mEvecs θ V)ᵀ
      = V * Matrix.diagonal (pos θ) * Vᵀ := by
  ext i j
  rw [mul_diagonal_mul_transpose_apply, mul_diagonal_mul_transpose_apply]
  refine Finset.sum_congr rfl fun k _ => ?_
  by_cases h : 0 ≤ θ k
  · rw [mEvecs_of_nonneg θ V i k h, mEvecs_of_nonneg θ V j k h, mEvals_of_nonneg θ k h]
    simp [pos, h]
  · rw [mEvecs_of_neg θ V i k h, mEvecs_of_neg θ V j k h]
    simp [pos, h]

/-- `lanczos_tridiag_to_diag`: what the mask does to the eigenpairs `(θ, V)` returned by `eigh`. -/
theorem tridiag_to_diag_mask (θ : Fin m → K) (V : Matrix (Fin m) (Fin m) K) :
    (∀ j, 0 ≤ θ j → mEvals θ j = θ j ∧ ∀ i, mEvecs θ V i j = V i j) ∧
    (∀ j, ¬ 0 ≤ θ j → mEvals θ j = 1 ∧ ∀ i, mEvecs θ V i j = 0) ∧
    (∀ j, 0 ≤ mEvals θ j) ∧
    mEvecs θ V * Matrix.diagonal (mEvals θ) * (mEvecs θ V)ᵀ = V * Matrix.diagonal (pos θ) * Vᵀ :=
  ⟨fun j h => ⟨mEvals_of_nonneg θ j h, fun i => mEvecs_of_nonneg θ V i j h⟩,
   fun j h => ⟨mEvals_of_neg θ j h, fun i => mEvecs_of_neg θ V i j h⟩,
   mEvals_nonneg θ, mask_reconstruct θ V⟩

theorem pos_of_nonneg (θ : Fin m → K) (h : ∀ j, 0 ≤ θ j) : pos θ = θ := by
  funext j; simp [pos, h j]

theorem mEvals_of_all_nonneg (θ : Fin m → K) (h : ∀ j, 0 ≤ θ j) : mEvals θ = θ := by
  funext j; exact mEvals_of_nonneg θ j (h j)

theorem mEvecs_of_all_nonneg (θ : Fin m → K) (V : Matrix (Fin m) (Fin m) K) (h : ∀ j, 0 ≤ θ j) :
    mEvecs θ V = V := by
  ext i j; exact mEvecs_of_nonneg θ V i j (h j)

/-! ### 2. the root -/

/-- `root = (Q V') diag(sqrt θ')` -/
theorem lanczosRoot_eq (ops : NumOps K) (Q : Matrix (Fin n) (Fin m) K) (V : Matrix (Fin m) (Fin m) K)
    (θ : Fin m → K) :
    lanczosRoot ops Q V θ = Q * (mEvecs θ V * Matrix.diagonal fun j => ops.sqrt (mEvals θ j)) := by
  rw [← Matrix.mul_assoc]
  ext i j
  rw [Matrix.mul_diagonal]
  have h : Mat.mul (Q : Mat K n m) (maskEvecs ge0 θ V) i j = (Q * mEvecs θ V) i j :=
    congrFun (congrFun (Mat.mul_eq_matrix_mul (α := K) Q (maskEvecs ge0 θ V)) i) j
  exact congrArg (· * ops.sqrt (mEvals θ j)) h

/-- `inverse = (Q V') diag(1 / sqrt θ')` -/
theorem lanczosRootInv_eq (ops : NumOps K) (Q : Matrix (Fin n) (Fin m) K) (V : Matrix (Fin m) (Fin m) K)
    (θ : Fin m → K) :
    lanczosRootInv ops Q V θ
      = Q * (mEvecs θ V * Matrix.diagonal fun j => (ops.sqrt (mEvals θ j))⁻¹) := by
  rw [← Matrix.mul_assoc]
  ext i j
  rw [Matrix.mul_diagonal]
  have h : Mat.mul (Q : Mat K n m) (maskEvecs ge0 θ V) i j = (Q * mEvecs θ V) i j :=
    congrFun (congrFun (Mat.mul_eq_matrix_mul (α := K) Q (maskEvecs ge0 θ V)) i) j
  rw [← div_eq_mul_inv]
  exact congrArg (· / ops.sqrt (mEvals θ j)) h

/-- `(Q (W diag s)) (Q (W diag s))ᵀ = Q (W diag(s²) Wᵀ) Qᵀ` -/
theorem sandwich_diag (Q : Matrix (Fin n) (Fin m) K) (W : Matrix (Fin m) (Fin m) K) (s : Fin m → K) :
    (Q * (W * Matrix.diagonal s)) * (Q * (W * Matrix.diagonal s))ᵀ
      = Q * (W * Matrix.diagonal (fun j => s j * s j) * Wᵀ) * Qᵀ := by
  have hd : Matrix.diagonal (fun j => s j * s j) = Matrix.diagonal s * Matrix.diagonal s := by
    rw [Matrix.diagonal_mul_diagonal]
  rw [Matrix.transpose_mul, Matrix.transpose_mul, Matrix.diagonal_transpose, hd]
  simp only [Matrix.mul_assoc]

/-- `RootDecomposition.forward`: `root rootᵀ = Q (V diag(θ⁺) Vᵀ) Qᵀ` for ANY output `(θ, V)` of `eigh`
(no orthogonality needed). -/
theorem lanczos_root (ops : NumOps K) (hsq : ∀ x, 0 ≤ x → ops.sqrt x * ops.sqrt x = x)
    (Q : Matrix (Fin n) (Fin m) K) (V : Matrix (Fin m) (Fin m) K) (θ : Fin m → K) :
    lanczosRoot ops Q V θ * (lanczosRoot ops Q V θ)ᵀ
      = Q * (V * Matrix.diagonal (pos θ) * Vᵀ) * Qᵀ := by
  rw [lanczosRoot_eq, sandwich_diag, ← mask_reconstruct]
  have : (fun j => ops.sqrt (mEvals θ j) * ops.sqrt (mEvals θ j)) = mEvals θ :=
    funext fun j => hsq _ (mEvals_nonneg θ j)
  rw [this]

/-- If `(θ, V)` is a decomposition `V diag(θ) Vᵀ = T'` with `θ ≥ 0`, then `root rootᵀ = Q T' Qᵀ`. -/
theorem lanczos_root_nonneg (ops : NumOps K) (hsq : ∀ x, 0 ≤ x → ops.sqrt x * ops.sqrt x = x)
    (Q : Matrix (Fin n) (Fin m) K) (V T' : Matrix (Fin m) (Fin m) K) (θ : Fin m → K)
    (hθ : ∀ j, 0 ≤ θ j) (hT : V * Matrix.diagonal θ * Vᵀ = T') :
    lanczosRoot ops Q V θ * (lanczosRoot ops Q V θ)ᵀ = Q * T' * Qᵀ := by
  rw [lanczos_root ops hsq, pos_of_nonneg θ hθ, hT]

/-! ### 3. the inverse root -/

/-- General (masked) version: `inverse inverseᵀ = Q (V' diag(1/θ') V'ᵀ) Qᵀ`. -/
theorem lanczos_root_inv_masked (ops : NumOps K) (hsq : ∀ x, 0 ≤ x → ops.sqrt x * ops.sqrt x = x)
    (Q : Matrix (Fin n) (Fin m) K) (V : Matrix (Fin m) (Fin m) K) (θ : Fin m → K) :
    lanczosRootInv ops Q V θ * (lanczosRootInv ops Q V θ)ᵀ
      = Q * (mEvecs θ V * Matrix.diagonal (fun j => (mEvals θ j)⁻¹) * (mEvecs θ V)ᵀ) * Qᵀ := by
  rw [lanczosRootInv_eq, sandwich_diag]
  have : (fun j => (ops.sqrt (mEvals θ j))⁻¹ * (ops.sqrt (mEvals θ j))⁻¹)
      = fun j => (mEvals θ j)⁻¹ :=
    funext fun j => by rw [← mul_inv, hsq _ (mEvals_nonneg θ j)]
  rw [this]

/-- inverse of an orthogonal eigendecomposition with non-zero spectrum -/
theorem inv_of_eigendecomposition (V T' : Matrix (Fin m) (Fin m) K) (θ : Fin m → K)
    (hθ : ∀ j, θ j ≠ 0) (hV : Vᵀ * V = 1) (hT : V * Matrix.diagonal θ * Vᵀ = T') :
    T'⁻¹ = V * Matrix.diagonal (fun j => (θ j)⁻¹) * Vᵀ := by
  have hV' : V * Vᵀ = 1 := mul_eq_one_comm.mp hV
  apply Matrix.inv_eq_right_inv
  rw [← hT]
  have hdd : Matrix.diagonal θ * Matrix.diagonal (fun j => (θ j)⁻¹) = 1 := by
    rw [Matrix.diagonal_mul_diagonal, ← Matrix.diagonal_one]
    congr 1
    funext j
    exact mul_inv_cancel₀ (hθ j)
  calc V * Matrix.diagonal θ * Vᵀ * (V * Matrix.diagonal (fun j => (θ j)⁻¹) * Vᵀ)
      = V * (Matrix.diagonal θ * (Vᵀ * V) * Matrix.diagonal (fun j => (θ j)⁻¹)) * Vᵀ := by
        simp only [Matrix.mul_assoc]
    _ = 1 := by rw [hV, Matrix.mul_one, hdd, Matrix.mul_one, hV']

/-- `RootDecomposition.forward`: with an orthogonal eigendecomposition `V diag(θ) Vᵀ = T'`, `θ > 0`,
`inverse inverseᵀ = Q T'⁻¹ Qᵀ`. -/
theorem lanczos_root_inv (ops : NumOps K) (hsq : ∀ x, 0 ≤ x → ops.sqrt x * ops.sqrt x = x)
    (Q : Matrix (Fin n) (Fin m) K) (V T' : Matrix (Fin m) (Fin m) K) (θ : Fin m → K)
    (hθ : ∀ j, 0 < θ j) (hV : Vᵀ * V = 1) (hT : V * Matrix.diagonal θ * Vᵀ = T') :
    lanczosRootInv ops Q V θ * (lanczosRootInv ops Q V θ)ᵀ = Q * T'⁻¹ * Qᵀ := by
  have h0 : ∀ j, 0 ≤ θ j := fun j => (hθ j).le
  rw [lanczos_root_inv_masked ops hsq, mEvals_of_all_nonneg θ h0, mEvecs_of_all_nonneg θ V h0,
    inv_of_eigendecomposition V T' θ (fun j => (hθ j).ne') hV hT]

/-- In that case `root rootᵀ` and `inverse inverseᵀ` are built from inverse matrices. -/
theorem lanczos_root_mul_root_inv (ops : NumOps K) (hsq : ∀ x, 0 ≤ x → ops.sqrt x * ops.sqrt x = x)
    (Q : Matrix (Fin n) (Fin m) K) (V T' : Matrix (Fin m) (Fin m) K) (θ : Fin m → K)
    (hθ : ∀ j, 0 < θ j) (hV : Vᵀ * V = 1) (hT : V * Matrix.diagonal θ * Vᵀ = T') (hQ : Qᵀ * Q = 1) :
    (lanczosRoot ops Q V θ * (lanczosRoot ops Q V θ)ᵀ)
        * (lanczosRootInv ops Q V θ * (lanczosRootInv ops Q V θ)ᵀ) = Q * Qᵀ := by
  have hT1 : T' * T'⁻¹ = 1 := by
    rw [inv_of_eigendecomposition V T' θ (fun j => (hθ j).ne') hV hT]
    have := inv_of_eigendecomposition V T' θ (fun j => (hθ j).ne') hV hT
    rw [← this]
    have hV' : V * Vᵀ = 1 := mul_eq_one_comm.mp hV
    have hdet : IsUnit T'.det := by
      rw [← hT, Matrix.det_mul, Matrix.det_mul, Matrix.det_diagonal, Matrix.det_transpose]
      have h1 : V.det * V.det = 1 := by
        have := congrArg Matrix.det hV'
        rwa [Matrix.det_mul, Matrix.det_transpose, Matrix.det_one] at this
      have hp : (∏ i, θ i) ≠ 0 := Finset.prod_ne_zero_iff.mpr fun j _ => (hθ j).ne'
      refine isUnit_iff_ne_zero.mpr ?_
      intro h
      have : V.det * V.det * ∏ i, θ i = 0 := by rw [← h]; ring
      rw [h1, one_mul] at this
      exact hp this
    exact Matrix.mul_nonsing_inv _ hdet
  rw [lanczos_root_nonneg ops hsq Q V T' θ (fun j => (hθ j).le) hT,
    lanczos_root_inv ops hsq Q V T' θ hθ hV hT]
  calc Q * T' * Qᵀ * (Q * T'⁻¹ * Qᵀ) = Q * (T' * (Qᵀ * Q) * T'⁻¹) * Qᵀ := by
        simp only [Matrix.mul_assoc]
    _ = Q * Qᵀ := by rw [hQ, Matrix.mul_one, hT1, Matrix.mul_one]

/-! ### 4. full Lanczos: `Q T Qᵀ = A` -/

/-- `t_mat + jitter * eye` -/
theorem addJitter_eq (T : Matrix (Fin m) (Fin m) K) (c : K) :
    (Matrix.of (addJitter T c) : Matrix (Fin m) (Fin m) K) = T + c • (1 : Matrix (Fin m) (Fin m) K) := by
  ext a b
  by_cases h : a = b
  · subst h; simp [addJitter]
  · simp [addJitter, h]

/-- A full run (`num_iter = n`, orthonormal `Q`) reconstructs the operator. -/
theorem lanczos_full (Q A T : Matrix (Fin n) (Fin n) K) (hQ : Qᵀ * Q = 1) (hT : Qᵀ * A * Q = T) :
    Q * T * Qᵀ = A := by
  have hQ' : Q * Qᵀ = 1 := mul_eq_one_comm.mp hQ
  rw [← hT]
  calc Q * (Qᵀ * A * Q) * Qᵀ = (Q * Qᵀ) * A * (Q * Qᵀ) := by simp only [Matrix.mul_assoc]
    _ = A := by rw [hQ', Matrix.one_mul, Matrix.mul_one]

/-- A partial run gives the orthogonal compression of `A` onto the span of the Lanczos vectors. -/
theorem lanczos_compression (Q : Matrix (Fin n) (Fin m) K) (A : Matrix (Fin n) (Fin n) K)
    (T : Matrix (Fin m) (Fin m) K) (hT : Qᵀ * A * Q = T) :
    Q * T * Qᵀ = (Q * Qᵀ) * A * (Q * Qᵀ) := by
  rw [← hT]; simp only [Matrix.mul_assoc]

/-- Full run + exact eigendecomposition of the jittered tridiagonal matrix with non-negative spectrum:
the root is a root of `A + jitter * I`. -/
theorem lanczos_full_root (ops : NumOps K) (hsq : ∀ x, 0 ≤ x → ops.sqrt x * ops.sqrt x = x)
    (Q A T V : Matrix (Fin n) (Fin n) K) (θ : Fin n → K) (c : K)
    (hQ : Qᵀ * Q = 1) (hT : Qᵀ * A * Q = T)
    (hE : V * Matrix.diagonal θ * Vᵀ = Matrix.of (addJitter T c)) (hθ : ∀ j, 0 ≤ θ j) :
    lanczosRoot ops Q V θ * (lanczosRoot ops Q V θ)ᵀ = A + c • (1 : Matrix (Fin n) (Fin n) K) := by
  have hQ' : Q * Qᵀ = 1 := mul_eq_one_comm.mp hQ
  rw [lanczos_root_nonneg ops hsq Q V _ θ hθ hE, addJitter_eq, Matrix.mul_add, Matrix.add_mul,
    lanczos_full Q A T hQ hT, Matrix.mul_smul, Matrix.mul_one, Matrix.smul_mul, hQ']

/-- Same for the inverse root, `θ > 0` and orthogonal `V`: `inverse inverseᵀ = (A + jitter * I)⁻¹`. -/
theorem lanczos_full_root_inv (ops : NumOps K) (hsq : ∀ x, 0 ≤ x → ops.sqrt x * ops.sqrt x = x)
    (Q A T V : Matrix (Fin n) (Fin n) K) (θ : Fin n → K) (c : K)
    (hQ : Qᵀ * Q = 1) (hT : Qᵀ * A * Q = T) (hV : Vᵀ * V = 1)
    (hE : V * Matrix.diagonal θ * Vᵀ = Matrix.of (addJitter T c)) (hθ : ∀ j, 0 < θ j) :
    lanczosRootInv ops Q V θ * (lanczosRootInv ops Q V θ)ᵀ
      = (A + c • (1 : Matrix (Fin n) (Fin n) K))⁻¹ := by
  have hQ' : Q * Qᵀ = 1 := mul_eq_one_comm.mp hQ
  have hJ : Q * Matrix.of (addJitter T c) * Qᵀ = A + c • (1 : Matrix (Fin n) (Fin n) K) := by
    rw [addJitter_eq, Matrix.mul_add, Matrix.add_mul,
      lanczos_full Q A T hQ hT, Matrix.mul_smul, Matrix.mul_one, Matrix.smul_mul, hQ']
  rw [lanczos_root_inv ops hsq Q V _ θ hθ hV hE]
  symm
  apply Matrix.inv_eq_right_inv
  rw [← hJ]
  set J : Matrix (Fin n) (Fin n) K := Matrix.of (addJitter T c) with hJdef
  have hJJ : J * J⁻¹ = 1 := by
    have hinv := inv_of_eigendecomposition V J θ (fun j => (hθ j).ne') hV hE
    have hV' : V * Vᵀ = 1 := mul_eq_one_comm.mp hV
    rw [hinv, ← hE]
    have hdd : Matrix.diagonal θ * Matrix.diagonal (fun j => (θ j)⁻¹) = 1 := by
      rw [Matrix.diagonal_mul_diagonal, ← Matrix.diagonal_one]
      congr 1
      funext j
      exact mul_inv_cancel₀ (hθ j).ne'
    calc V * Matrix.diagonal θ * Vᵀ * (V * Matrix.diagonal (fun j => (θ j)⁻¹) * Vᵀ)
        = V * (Matrix.diagonal θ * (Vᵀ * V) * Matrix.diagonal (fun j => (θ j)⁻¹)) * Vᵀ := by
          simp only [Matrix.mul_assoc]
      _ = 1 := by rw [hV, Matrix.mul_one, hdd, Matrix.mul_one, hV']
  calc Q * J * Qᵀ * (Q * J⁻¹ * Qᵀ) = Q * (J * (Qᵀ * Q) * J⁻¹) * Qᵀ := by
        simp only [Matrix.mul_assoc]
    _ = 1 := by rw [hQ, Matrix.mul_one, hJJ, Matrix.mul_one, hQ']

end LinOp.C09
