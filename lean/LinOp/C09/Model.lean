/-
C09 — model of `linear_operator/utils/lanczos.py` (`lanczos_tridiag`, `lanczos_tridiag_to_diag`) and of the
post-processing in `functions/_root_decomposition.py` / `_diagonalization.py`, statement by statement,
for ONE column (one batch member, one init vector).  Core Lean only.

    num_iter = min(max_iter, matrix_shape[-1])
    q_mat = zeros(num_iter, …, n, …);  t_mat = zeros(num_iter, num_iter, …)        -- `St.q`, `St.t` (zero families)
    q_0_vec = init_vecs / norm(init_vecs);  q_mat[0].copy_(q_0_vec)                 -- `init`
    r_vec = matmul_closure(q_0_vec);  alpha_0 = q_0_vec.mul(r_vec).sum(-2)
    r_vec.sub_(alpha_0.mul(q_0_vec));  beta_0 = norm(r_vec)
    t_mat[0,0] = alpha_0
    if num_iter > 1 and torch.sum(beta_0.abs() > 1e-6) > 0:                         -- `lanczosTridiag` (guard)
        t_mat[0,1] = beta_0; t_mat[1,0] = beta_0;  q_mat[1].copy_(r_vec.div_(beta_0))
    else: num_iter = 1
    k = 0
    for k in range(1, num_iter):                                                    -- `loop` / `body`
        q_prev = q_mat[k-1]; q_curr = q_mat[k]; beta_prev = t_mat[k, k-1]
        r_vec = matmul_closure(q_curr) - q_prev.mul(beta_prev)
        alpha_curr = q_curr.mul(r_vec).sum(-2);  t_mat[k,k] = alpha_curr
        if (k + 1) < num_iter:
            r_vec.sub_(alpha_curr.mul(q_curr))
            correction = r_vec.mul(q_mat[:k+1]).sum(-2); correction = q_mat[:k+1].mul(correction).sum(0)
            r_vec.sub_(correction)                                                  -- `correction`
            r_vec_norm = norm(r_vec);  r_vec.div_(r_vec_norm)
            beta_curr = r_vec_norm;  t_mat[k,k+1] = beta_curr;  t_mat[k+1,k] = beta_curr
            inner_products = q_mat[:k+1].mul(r_vec).sum(-2)                         -- `innerProducts`
            could_reorthogonalize = False
            for _ in range(10):                                                     -- `extraPasses`
                if not torch.sum(inner_products.abs() > tol): could_reorthogonalize = True; break
                (correction, subtract, renormalise, recompute inner_products)       -- `reorthPass`
            q_mat[k+1].copy_(r_vec)
            if torch.sum(beta_curr.abs() > 1e-6) == 0 or not could_reorthogonalize: break
    num_iter = k + 1;  q_mat[:num_iter], t_mat[:num_iter, :num_iter]                -- `Out.count`, `Out.Q`, `Out.T`

The batch members / init vectors of one call are coupled only through the two `torch.sum(...)` tests (extra passes
run on all columns as soon as one column asks for it, the break needs all columns); the theorems are proved for an
arbitrary number of extra passes, so they hold for each column of a multi-column call as long as that column itself
has not broken down.

Scalars are abstract: ring operations come from the notation classes (the same definitions run on `Float` in the
driver and are reasoned about over ordered fields in the proofs); `sqrt`, `>` and `abs` are the record `NumOps`.
The matmul closure and `torch.linalg.eigh` are parameters.
-/
import LinOp.Core.Basic
namespace LinOp.C09

/-- Non-ring primitives of the scalar type. -/
structure NumOps (α : Type) where
  sqrt : α → α
  /-- `torch.gt` -/
  gt : α → α → Bool
  abs : α → α

/-- Vectors are real data (`Vector`), so that every intermediate vector is computed once. -/
abbrev Vec (α : Type) (n : Nat) := Vector α n

/-- A `Nat`-indexed family (a preallocated buffer indexed along its first dimension), materialised on
its first `size` entries.  (A structure and not a bare function, so that building one evaluates it.) -/
structure Fam (β : Type) where
  get : Nat → β
  size : Nat

/-- Materialise the first `m` entries of `f`. -/
def Fam.tab {β : Type} (m : Nat) (f : Nat → β) : Fam β :=
  let v := Vector.ofFn (n := m) fun i => f i.1
  ⟨fun j => if h : j < m then v[j] else f j, m⟩

@[simp] theorem Fam.get_tab {β : Type} (m : Nat) (f : Nat → β) : (Fam.tab m f).get = f := by
  funext j; simp only [Fam.tab]; split <;> simp

/-- `x[a] = v` on a buffer. -/
def upd {β : Type} (f : Fam β) (a : Nat) (v : β) : Fam β :=
  Fam.tab f.size fun b => if b = a then v else f.get b

/-- `t_mat[a, b] = v` -/
def tset {β : Type} (t : Fam (Fam β)) (a b : Nat) (v : β) : Fam (Fam β) :=
  Fam.tab t.size fun i => Fam.tab t.size fun j => if i = a ∧ j = b then v else (t.get i).get j

/-- `torch.zeros(m, …)` -/
def Fam.const {β : Type} (m : Nat) (z : β) : Fam β := ⟨fun _ => z, m⟩

/-- Source constants / arguments of one call (`tol` is the keyword argument, the other two are literals;
the defaults are generated from the source). -/
structure Params (α : Type) where
  tol : α
  /-- the `10` of `for _ in range(10)` -/
  extra : Nat
  /-- the `1e-6` of `beta_curr.abs() > 1e-6` -/
  breakTol : α
  /-- the writes `t_mat[0, 1]`, `t_mat[1, 0]`, `q_mat[1]` are guarded by
  `num_iter > 1 and torch.sum(beta_0.abs() > 1e-6) > 0` (true for the code as it is now; false = the code
  before the fix of D14: `num_iter = 1` ends in IndexError and `β_0` is never tested) -/
  guardsSingle : Bool := false

inductive Err
  | indexError
  deriving DecidableEq, Repr

section
variable {α : Type} {n : Nat}

def dot [Add α] [Mul α] [Zero α] (u v : Vec α n) : α := sumFin n fun i => u[i] * v[i]
def vsub [Sub α] (u v : Vec α n) : Vec α n := Vector.ofFn fun i => u[i] - v[i]
/-- `u.mul(c)` with a broadcast scalar -/
def vscale [Mul α] (u : Vec α n) (c : α) : Vec α n := Vector.ofFn fun i => u[i] * c
def vdiv [Div α] (u : Vec α n) (c : α) : Vec α n := Vector.ofFn fun i => u[i] / c
def vzero [Zero α] : Vec α n := Vector.ofFn fun _ => 0
/-- `torch.norm(u, 2, dim=-2)` -/
def norm [Add α] [Mul α] [Zero α] (ops : NumOps α) (u : Vec α n) : α := ops.sqrt (dot u u)

/-- `q_mat[:m]ᵀ r` -/
def innerProducts [Add α] [Mul α] [Zero α] (m : Nat) (q : Fam (Vec α n)) (r : Vec α n) : Vector α m :=
  Vector.ofFn fun j => dot (q.get j.1) r

/-- `correction = q_mat[:m] (q_mat[:m]ᵀ r)` -/
def correction [Add α] [Mul α] [Zero α] (m : Nat) (q : Fam (Vec α n)) (r : Vec α n) : Vec α n :=
  let c := innerProducts m q r
  Vector.ofFn fun i => sumFin m fun j => (q.get j.1)[i] * c[j]

/-- `torch.sum(inner_products.abs() > tol)` is non-zero — the test on the MAGNITUDE of the inner products (code since
commit 7af42c2) -/
def anyGt (ops : NumOps α) {m : Nat} (ip : Vector α m) (tol : α) : Bool :=
  (List.finRange m).any fun j => ops.gt (ops.abs ip[j]) tol

/-- PREVIOUS code (before 7af42c2): `torch.sum(inner_products > tol)`, the signed test — a negative inner product, however
large, never asked for another re-orthogonalisation pass.  Kept only as the record of that defect. -/
def anyGtSigned (ops : NumOps α) {m : Nat} (ip : Vector α m) (tol : α) : Bool :=
  (List.finRange m).any fun j => ops.gt ip[j] tol

/-- one re-orthogonalisation pass: subtract the correction, renormalise -/
def reorthPass [Add α] [Sub α] [Mul α] [Div α] [Zero α] (ops : NumOps α) (m : Nat) (q : Fam (Vec α n))
    (r : Vec α n) : Vec α n :=
  let r1 := vsub r (correction m q r)
  vdiv r1 (norm ops r1)

/-- `for _ in range(fuel): if not sum(inner_products.abs() > tol): could = True; break; <pass>`
returns (r_vec, could_reorthogonalize, number of passes run) -/
def extraPasses [Add α] [Sub α] [Mul α] [Div α] [Zero α] (ops : NumOps α) (tol : α) (m : Nat)
    (q : Fam (Vec α n)) : (fuel : Nat) → Vec α n → Vec α n × Bool × Nat
  | 0, r => (r, false, 0)
  | fuel + 1, r =>
    if !anyGt ops (innerProducts m q r) tol then (r, true, 0)
    else
      let res := extraPasses ops tol m q fuel (reorthPass ops m q r)
      (res.1, res.2.1, res.2.2 + 1)

/-- The two preallocated buffers, and the number of extra passes run so far (observable only). -/
structure St (α : Type) (n : Nat) where
  q : Fam (Vec α n)
  t : Fam (Fam α)
  passes : Nat := 0

/-- Everything before the loop except the three writes at index 1. -/
def init0 [Add α] [Sub α] [Mul α] [Div α] [Zero α] (ops : NumOps α) (amul : Vec α n → Vec α n)
    (numIter : Nat) (v : Vec α n) : St α n × Vec α n × α :=
  let q0 := vdiv v (norm ops v)
  let r := amul q0
  let a0 := dot q0 r
  let r := vsub r (vscale q0 a0)
  let b0 := norm ops r
  ({ q := upd (Fam.const numIter vzero) 0 q0, t := tset (Fam.const numIter (Fam.const numIter 0)) 0 0 a0 }, r, b0)

/-- Everything before the loop (`num_iter ≥ 2`). -/
def init [Add α] [Sub α] [Mul α] [Div α] [Zero α] (ops : NumOps α) (amul : Vec α n → Vec α n)
    (numIter : Nat) (v : Vec α n) : St α n :=
  let i0 := init0 ops amul numIter v
  let s := i0.1
  let r := i0.2.1
  let b0 := i0.2.2
  { q := upd s.q 1 (vdiv r b0), t := tset (tset s.t 0 1 b0) 1 0 b0 }

/-- Loop body for loop variable `k`; the Boolean is "break". -/
def body [Add α] [Sub α] [Mul α] [Div α] [Zero α] (ops : NumOps α) (p : Params α)
    (amul : Vec α n → Vec α n) (numIter k : Nat) (s : St α n) : St α n × Bool :=
  let qprev := s.q.get (k - 1)
  let qcur := s.q.get k
  let bprev := (s.t.get k).get (k - 1)
  let r := vsub (amul qcur) (vscale qprev bprev)
  let a := dot qcur r
  let t1 := tset s.t k k a
  if k + 1 < numIter then
    let r := vsub r (vscale qcur a)
    let r := vsub r (correction (k + 1) s.q r)
    let nrm := norm ops r
    let r := vdiv r nrm
    let t2 := tset (tset t1 k (k + 1) nrm) (k + 1) k nrm
    let ex := extraPasses ops p.tol (k + 1) s.q p.extra r
    ({ q := upd s.q (k + 1) ex.1, t := t2, passes := s.passes + ex.2.2 },
     !(ops.gt (ops.abs nrm) p.breakTol) || !ex.2.1)
  else
    ({ s with t := t1 }, false)

/-- `for k in range(1, num_iter)` with `rem` iterations left; returns the final `num_iter = k + 1`. -/
def loop [Add α] [Sub α] [Mul α] [Div α] [Zero α] (ops : NumOps α) (p : Params α)
    (amul : Vec α n → Vec α n) (numIter : Nat) : (rem k : Nat) → St α n → Nat × St α n
  | 0, k, s => (k, s)
  | rem + 1, k, s =>
    let b := body ops p amul numIter k s
    if b.2 then (k + 1, b.1) else loop ops p amul numIter rem (k + 1) b.1

/-- Result of `lanczos_tridiag` for one column: the trimmed sizes and the two buffers. -/
structure Out (α : Type) (n : Nat) where
  count : Nat
  q : Fam (Vec α n)
  t : Fam (Fam α)
  passes : Nat

/-- `q_mat[:num_iter]` permuted to `n × num_iter` -/
def Out.Q (o : Out α n) : Mat α n o.count := fun i j => (o.q.get j.1)[i]
/-- `t_mat[:num_iter, :num_iter]` -/
def Out.T (o : Out α n) : Mat α o.count o.count := fun i j => (o.t.get i.1).get j.1

/-- `lanczos_tridiag(matmul_closure, max_iter, …, init_vecs=v, tol=p.tol)` on an `n × n` operator.

Code as it is now (`p.guardsSingle = true`, generated from the source):
    if num_iter > 1 and torch.sum(beta_0.abs() > 1e-6) > 0:  <writes at index 1>   else: num_iter = 1
    k = 0;  for k in range(1, num_iter): …;  num_iter = k + 1
so a budget of one iteration (`max_iter = 1`, 1×1 operator) or a start vector that already is an eigenvector
(`β_0` not above the threshold) returns the single column `q_0` and `T = [α_0]`.
`p.guardsSingle = false` is the code BEFORE commit c712633: no test of `β_0`, IndexError for `num_iter = 1`. -/
def lanczosTridiag [Add α] [Sub α] [Mul α] [Div α] [Zero α] (ops : NumOps α) (p : Params α)
    (amul : Vec α n → Vec α n) (maxIter : Nat) (v : Vec α n) : Except Err (Out α n) :=
  let numIter := min maxIter n
  if numIter = 0 then .error .indexError          -- `q_mat[0]` of an empty buffer
  else if p.guardsSingle then
    let i0 := init0 ops amul numIter v
    if decide (1 < numIter) && ops.gt (ops.abs i0.2.2) p.breakTol then
      let r := loop ops p amul numIter (numIter - 1) 1 (init ops amul numIter v)
      .ok { count := r.1, q := r.2.q, t := r.2.t, passes := r.2.passes }
    else
      .ok { count := 1, q := i0.1.q, t := i0.1.t, passes := 0 }
  else if numIter = 1 then .error .indexError     -- `t_mat[0, 1]` (previous code, D14)
  else
    let r := loop ops p amul numIter (numIter - 1) 1 (init ops amul numIter v)
    .ok { count := r.1, q := r.2.q, t := r.2.t, passes := r.2.passes }

/-! ### `lanczos_tridiag_to_diag` and the assembly of roots -/

/-- `mask = evals.ge(0); evecs = evecs * mask; evals = evals.masked_fill_(~mask, 1)`
(`ge0` is `· ≥ 0`; the eigendecomposition `(evals, evecs)` of `t_mat` is supplied by `torch.linalg.eigh`). -/
def maskEvals [One α] {m : Nat} (ge0 : α → Bool) (evals : Fin m → α) : Fin m → α :=
  fun j => if ge0 (evals j) then evals j else 1

def maskEvecs [Zero α] {m : Nat} (ge0 : α → Bool) (evals : Fin m → α) (evecs : Mat α m m) : Mat α m m :=
  fun i j => if ge0 (evals j) then evecs i j else 0

/-- `t_mat + jitter_mat`, `jitter_mat = (tridiagonal_jitter * min(diag t_mat)) * eye` -/
def addJitter [Add α] {m : Nat} (T : Mat α m m) (j : α) : Mat α m m :=
  fun a b => if a = b then T a b + j else T a b

/-- `min` over the diagonal (first element on ties is irrelevant for the value) -/
def minDiag {m : Nat} (lt : α → α → Bool) (T : Mat α m m) (dflt : α) : α :=
  (List.finRange m).foldl (fun acc i => if lt (T i i) acc then T i i else acc)
    (match List.finRange m with | [] => dflt | i :: _ => T i i)

/-- `settings.tridiagonal_jitter.value() * mins`, `mins = min(diag t_mat)`: the jitter is RELATIVE to the smallest
diagonal entry of `t_mat` (no floor, no clamp) — `RootDecomposition.forward` and `Diagonalization.forward`. -/
def jitterOf [Mul α] [Zero α] {m : Nat} (lt : α → α → Bool) (jit : α) (T : Mat α m m) : α :=
  jit * minDiag lt T 0

/-- `t_mat + jitter_mat`, the matrix handed to `lanczos_tridiag_to_diag`. -/
def jitteredT [Add α] [Mul α] [Zero α] {m : Nat} (lt : α → α → Bool) (jit : α) (T : Mat α m m) : Mat α m m :=
  addJitter T (jitterOf lt jit T)

/-- `Diagonalization.forward` AS IT IS: `torch.diag_embed(jitter_val * mins).expand_as(t_mat)` — `mins` has a trailing
dimension of size 1, so `diag_embed` gives a 1×1 matrix that `expand_as` broadcasts to EVERY entry (open finding,
notes/C09_fix_2.diff); the documented behaviour is `addJitter`. -/
def addJitterAll [Add α] {m : Nat} (T : Mat α m m) (j : α) : Mat α m m := fun a b => T a b + j

/-- `q_mat = q_mat.matmul(eigenvectors)` -/
def qv [Add α] [Mul α] [Zero α] {m : Nat} (Q : Mat α n m) (V : Mat α m m) : Mat α n m := Mat.mul Q V

/-- `root = q_mat * root_evals.unsqueeze(-2)`, `root_evals = eigenvalues.sqrt()` -/
def rootOf [Mul α] {m : Nat} (ops : NumOps α) (QV : Mat α n m) (evals : Fin m → α) : Mat α n m :=
  fun i j => QV i j * ops.sqrt (evals j)

/-- `inverse = q_mat / root_evals.unsqueeze(-2)` -/
def rootInvOf [Div α] {m : Nat} (ops : NumOps α) (QV : Mat α n m) (evals : Fin m → α) : Mat α n m :=
  fun i j => QV i j / ops.sqrt (evals j)

end
end LinOp.C09
