/-
C09 — the start vector enters `lanczos_tridiag` only through `q_0_vec = init_vecs / ‖init_vecs‖` (no eps, no clamp):
rescaling it by any `c > 0` changes nothing — same `q_0`, hence the very same run (count, both buffers, passes), single-column
and coupled (every column with its own factor).
-/
import LinOp.C09.ProofsScale
import LinOp.C09.Multi
import LinOp.C09.ProofsRun

set_option linter.unusedSectionVars false
set_option linter.unusedVariables false

namespace LinOp.C09
open Matrix

variable {K : Type} [Field K] [LinearOrder K] [IsStrictOrderedRing K] {n : Nat}

/-- `√(c²) = c` for `c ≥ 0` -/
theorem SqrtLaw.sqrt_mul_self {ops : NumOps K} (hs : SqrtLaw ops) {c : K} (hc : 0 ≤ c) : ops.sqrt (c * c) = c :=
  (mul_self_inj (hs.nonneg _) hc).mp (hs.mul_self _ (mul_nonneg hc hc))

/-- `‖c·v‖ = c·‖v‖` for `c ≥ 0` -/
theorem norm_vscale {ops : NumOps K} (hs : SqrtLaw ops) (v : Vec K n) {c : K} (hc : 0 ≤ c) :
    norm ops (vscale v c) = c * norm ops v := by
  simp only [norm, dot_eq, fn_vscale, smul_dotProduct, dotProduct_smul, smul_eq_mul]
  rw [← mul_assoc, hs.sqrt_mul (mul_nonneg hc hc) (dot_self_nonneg (fn v)), hs.sqrt_mul_self hc]

/-- The normalised start vector does not see a positive factor: `(c·v)/‖c·v‖ = v/‖v‖` (also for `v = 0`: both are `0/0`). -/
theorem q0_scale {ops : NumOps K} (hs : SqrtLaw ops) (v : Vec K n) {c : K} (hc : 0 < c) :
    vdiv (vscale v c) (norm ops (vscale v c)) = vdiv v (norm ops v) := by
  rw [norm_vscale hs v hc.le]
  apply fn_inj
  funext i
  simp only [fn_vdiv, fn_vscale, Pi.smul_apply, smul_eq_mul]
  rw [mul_inv]
  have h : c⁻¹ * c = 1 := inv_mul_cancel₀ hc.ne'
  calc c⁻¹ * (norm ops v)⁻¹ * (c * fn v i) = (c⁻¹ * c) * ((norm ops v)⁻¹ * fn v i) := by ring
    _ = (norm ops v)⁻¹ * fn v i := by rw [h, one_mul]

variable {ops : NumOps K} {p : Params K}

theorem init0_scale (hs : SqrtLaw ops) (amul : Vec K n → Vec K n) (N : Nat) (v : Vec K n) {c : K} (hc : 0 < c) :
    init0 ops amul N (vscale v c) = init0 ops amul N v := by
  simp only [init0, q0_scale hs v hc]

theorem init_scale (hs : SqrtLaw ops) (amul : Vec K n → Vec K n) (N : Nat) (v : Vec K n) {c : K} (hc : 0 < c) :
    init ops amul N (vscale v c) = init ops amul N v := by
  simp only [init, init0_scale hs amul N v hc]

/-- the loop never writes `q_mat[0]` -/
theorem loop_Q0 (amul : Vec K n → Vec K n) (numIter : Nat) :
    ∀ (rem k : Nat) (s : St K n), 1 ≤ k → Qf (loop ops p amul numIter rem k s).2 0 = Qf s 0 := by
  intro rem
  induction rem with
  | zero => intro k s _; rfl
  | succ rem ih =>
    intro k s hk
    simp only [loop]
    split
    · exact Qf_frame 0 (by omega)
    · rw [ih (k + 1) _ (by omega)]
      exact Qf_frame 0 (by omega)

/-- `lanczos_tridiag(A, init_vecs = c·v) = lanczos_tridiag(A, init_vecs = v)` for every `c > 0`: the same result, not
merely an equivalent one — count, `q_mat`, `t_mat`, number of extra passes (or the same exception). -/
theorem lanczosTridiag_scale (hs : SqrtLaw ops) (amul : Vec K n → Vec K n) (maxIter : Nat) (v : Vec K n) {c : K}
    (hc : 0 < c) : lanczosTridiag ops p amul maxIter (vscale v c) = lanczosTridiag ops p amul maxIter v := by
  simp only [lanczosTridiag, init0_scale hs amul _ v hc, init_scale hs amul _ v hc]

/-- Coupled run: every column may carry its own positive factor. -/
theorem lanczosMulti_scale {C : Nat} (hs : SqrtLaw ops) (amuls : Fin C → Vec K n → Vec K n) (maxIter : Nat)
    (vs : Vector (Vec K n) C) (cs : Fin C → K) (hc : ∀ c, 0 < cs c) :
    lanczosMulti ops p amuls maxIter (Vector.ofFn fun c => vscale vs[c] (cs c)) = lanczosMulti ops p amuls maxIter vs := by
  simp only [lanczosMulti, Fin.getElem_fin, Vector.getElem_ofFn, init0_scale hs _ _ _ (hc _),
    init_scale hs _ _ _ (hc _)]

end LinOp.C09
