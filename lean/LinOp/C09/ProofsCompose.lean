/-
C09 — end-to-end composition for `lanczosTridiag` run on the closure `x ↦ A x` of a symmetric matrix: the matrix
identities `QᵀQ = 1`, `QᵀAQ = T`, `A Q − Q T = r e_kᵀ` assembled from the column-wise invariants, `Q T Qᵀ = A` at
full dimension / the orthogonal compression otherwise, the root of `RootDecomposition.forward` on top of it, the
specification of `minDiag`, and a concrete instance over `ℝ` with `Real.sqrt`.
-/
import LinOp.C09.ProofsRun
import LinOp.C09.ProofsPost
import LinOp.C09.ProofsScale
import Mathlib.Analysis.Real.Sqrt
import Mathlib.Data.Matrix.Mul
import Mathlib.Algebra.BigOperators.Fin
import Mathlib.Tactic.FinCases
import Mathlib.Tactic.NormNum

set_option linter.unusedSectionVars false
set_option linter.unusedVariables false

namespace LinOp.C09
open Matrix

variable {K : Type} [Field K] [LinearOrder K] [IsStrictOrderedRing K] {n : Nat}

/-! ### the closure of a matrix -/

/-- `matmul_closure = lambda x: A @ x` for one column -/
def amulOf (A : Matrix (Fin n) (Fin n) K) : Vec K n → Vec K n := fun v => Vector.ofFn (A.mulVec (fn v))

@[simp] theorem fn_amulOf (A : Matrix (Fin n) (Fin n) K) (v : Vec K n) : fn (amulOf A v) = A.mulVec (fn v) := by
  funext i; simp [fn, amulOf]

/-- A symmetric matrix gives a self-adjoint closure. -/
theorem selfAdj_amulOf {A : Matrix (Fin n) (Fin n) K} (hA : Aᵀ = A) : SelfAdj (amulOf A) := by
  intro u w
  rw [fn_amulOf, fn_amulOf, Matrix.dotProduct_mulVec, ← Matrix.mulVec_transpose, hA]

theorem AQf_amulOf (A : Matrix (Fin n) (Fin n) K) (s : St K n) (j : Nat) :
    AQf (amulOf A) s j = A.mulVec (Qf s j) := by
  simp [AQf, Qf]

/-! ### matrix identities from the column-wise ones -/

/-- `QᵀQ = 1` from pairwise orthonormality. -/
theorem QtQ_of_orth (o : Out K n)
    (h : ∀ i j, i < o.count → j < o.count → Qf o.st i ⬝ᵥ Qf o.st j = if i = j then 1 else 0) :
    (Matrix.of o.Q)ᵀ * Matrix.of o.Q = 1 := by
  ext i j
  have := h i.1 j.1 i.2 j.2
  simp only [Qf, Out.st] at this
  simp only [Matrix.mul_apply, Matrix.transpose_apply, Matrix.of_apply, Out.Q, Matrix.one_apply, Fin.ext_iff]
  simpa [dotProduct, fn] using this

/-- `QᵀAQ = T` from `q_i · A q_j = T[i,j]`. -/
theorem QtAQ_of_entries (A : Matrix (Fin n) (Fin n) K) (o : Out K n)
    (h : ∀ i j, i < o.count → j < o.count → Qf o.st i ⬝ᵥ AQf (amulOf A) o.st j = Tf o.st i j) :
    (Matrix.of o.Q)ᵀ * A * Matrix.of o.Q = Matrix.of o.T := by
  ext i j
  have := h i.1 j.1 i.2 j.2
  rw [AQf_amulOf] at this
  rw [Matrix.mul_assoc, Matrix.mul_apply]
  simp only [Matrix.transpose_apply, Matrix.of_apply, Matrix.mul_apply, Out.T]
  simpa [dotProduct, Matrix.mulVec, Qf, Out.st, fn, Out.Q, Tf] using this

/-- a sum against a tridiagonal column has at most three terms -/
theorem sum_tridiag {m : Nat} (g : Nat → K) (j : Nat) (hj : j < m)
    (hz : ∀ l, l < m → (l + 1 < j ∨ j + 1 < l) → g l = 0) :
    ∑ l : Fin m, g l.1 = (if j = 0 then 0 else g (j - 1)) + g j + (if j + 1 < m then g (j + 1) else 0) := by
  rw [Fin.sum_univ_eq_sum_range (fun l => g l) m]
  have hpt : ∀ l ∈ Finset.range m, g l =
      (if l = j - 1 ∧ j ≠ 0 then g l else 0) + (if l = j then g l else 0) + (if l = j + 1 then g l else 0) := by
    intro l hl
    have hl' := Finset.mem_range.mp hl
    by_cases h1 : l = j
    · subst h1
      have : ¬ (l = l - 1 ∧ l ≠ 0) := by omega
      simp [this]
    · by_cases h2 : l = j + 1
      · subst h2
        have : ¬ (j + 1 = j - 1 ∧ j ≠ 0) := by omega
        simp [this]
      · by_cases h3 : l = j - 1 ∧ j ≠ 0
        · have h4 : ¬ (j - 1 = j) := by omega
          simp [h3, h4]
        · have : g l = 0 := hz l hl' (by omega)
          simp [h1, h2, h3, this]
  rw [Finset.sum_congr rfl hpt, Finset.sum_add_distrib, Finset.sum_add_distrib]
  congr 1
  · congr 1
    · by_cases hj0 : j = 0
      · simp [hj0]
      · simp only [hj0, ne_eq, not_false_eq_true, and_true, if_false]
        rw [Finset.sum_ite_eq' (Finset.range m) (j - 1) g]
        simp only [Finset.mem_range, show j - 1 < m by omega, if_true]
    · rw [Finset.sum_ite_eq' (Finset.range m) j g]
      simp only [Finset.mem_range, hj, if_true]
  · rw [Finset.sum_ite_eq' (Finset.range m) (j + 1) g]
    simp only [Finset.mem_range]

/-- the unnormalised residual of the last returned vector: `A q_k − β_{k−1} q_{k−1} − α_k q_k`, `k = count − 1`
(`= β_k q_{k+1}` of the next step, had the loop gone on) -/
def lastResidual (A : Matrix (Fin n) (Fin n) K) (o : Out K n) : Fin n → K :=
  A.mulVec (Qf o.st (o.count - 1))
    - (if o.count - 1 = 0 then 0 else Tf o.st (o.count - 1) (o.count - 1 - 1) • Qf o.st (o.count - 1 - 1))
    - Tf o.st (o.count - 1) (o.count - 1) • Qf o.st (o.count - 1)

/-- `r e_kᵀ`: the residual in the last column, zero elsewhere -/
def residualMat (A : Matrix (Fin n) (Fin n) K) (o : Out K n) : Matrix (Fin n) (Fin o.count) K :=
  fun a j => if j.1 + 1 = o.count then lastResidual A o a else 0

/-- `A Q − Q T = r e_kᵀ` from the three-term recurrence and the structure of `T`. -/
theorem AQ_sub_QT (A : Matrix (Fin n) (Fin n) K) (o : Out K n) (hT : TStruct o.st)
    (hr : Rec (AQf (amulOf A) o.st) (Qf o.st) (Tf o.st) (o.count - 1)) :
    A * Matrix.of o.Q - Matrix.of o.Q * Matrix.of o.T = residualMat A o := by
  ext a j
  have hAQ : (A * Matrix.of o.Q) a j = (A.mulVec (Qf o.st j.1)) a := by
    simp [Matrix.mul_apply, Matrix.mulVec, dotProduct, Qf, Out.st, fn, Out.Q]
  have hQT : (Matrix.of o.Q * Matrix.of o.T) a j = ∑ l : Fin o.count, Qf o.st l.1 a * Tf o.st l.1 j.1 := by
    simp [Matrix.mul_apply, Qf, Out.st, fn, Out.Q, Out.T, Tf]
  rw [Matrix.sub_apply, hAQ, hQT,
    sum_tridiag (fun l => Qf o.st l a * Tf o.st l j.1) j.1 j.2
      (fun l _ hl => by simp only [hT.tri l j.1 hl, mul_zero])]
  simp only [residualMat]
  by_cases hlast : j.1 + 1 = o.count
  · have hk : o.count - 1 = j.1 := by omega
    simp only [hlast, if_true, lastResidual, hk, lt_irrefl, if_false, add_zero]
    by_cases hj0 : j.1 = 0
    · simp [hj0, mul_comm]
    · simp only [hj0, if_false, Pi.sub_apply, Pi.smul_apply, smul_eq_mul, hT.sym (j.1 - 1) j.1]
      ring
  · have hlt : j.1 + 1 < o.count := by omega
    have hrec := congrFun (hr j.1 (by omega)) a
    rw [AQf_amulOf] at hrec
    simp only [hlast, if_false, hlt, if_true, hrec]
    by_cases hj0 : j.1 = 0
    · simp only [hj0, if_true, Pi.add_apply, Pi.zero_apply, Pi.smul_apply, smul_eq_mul, hT.sym (0 + 1) 0]
      ring
    · simp only [hj0, if_false, Pi.add_apply, Pi.smul_apply, smul_eq_mul, hT.sym (j.1 - 1) j.1,
        hT.sym (j.1 + 1) j.1]
      ring

/-! ### full dimension and compression for a rectangular `Q` -/

/-- `QᵀQ = 1` and as many columns as rows: `Q Qᵀ = 1`. -/
theorem QQt_of_card {m : Nat} (Q : Matrix (Fin n) (Fin m) K) (hm : m = n) (hQ : Qᵀ * Q = 1) : Q * Qᵀ = 1 :=
  (Matrix.mul_eq_one_comm_of_card_eq (m := Fin m) (n := Fin n) (R := K) (A := Qᵀ) (B := Q)
    (by rw [hm])).mp hQ

/-- `Q Qᵀ` is an orthogonal projector when `QᵀQ = 1`. -/
theorem QQt_idem {m : Nat} (Q : Matrix (Fin n) (Fin m) K) (hQ : Qᵀ * Q = 1) :
    (Q * Qᵀ) * (Q * Qᵀ) = Q * Qᵀ ∧ (Q * Qᵀ)ᵀ = Q * Qᵀ := by
  constructor
  · calc Q * Qᵀ * (Q * Qᵀ) = Q * (Qᵀ * Q) * Qᵀ := by simp only [Matrix.mul_assoc]
      _ = Q * Qᵀ := by rw [hQ, Matrix.mul_one]
  · rw [Matrix.transpose_mul, Matrix.transpose_transpose]

theorem full_of_card {m : Nat} (Q : Matrix (Fin n) (Fin m) K) (A : Matrix (Fin n) (Fin n) K)
    (T : Matrix (Fin m) (Fin m) K) (hm : m = n) (hQ : Qᵀ * Q = 1) (hP : Qᵀ * A * Q = T) : Q * T * Qᵀ = A := by
  rw [lanczos_compression Q A T hP, QQt_of_card Q hm hQ, Matrix.one_mul, Matrix.mul_one]

/-- root of `RootDecomposition.forward` on a rectangular orthonormal `Q` with `QᵀAQ = T`, eigendecomposition of the
jittered `T` with non-negative Ritz values: `R Rᵀ = (QQᵀ) A (QQᵀ) + j QQᵀ`. -/
theorem root_of_compression {m : Nat} (ops : NumOps K) (hsq : ∀ x, 0 ≤ x → ops.sqrt x * ops.sqrt x = x)
    (Q : Matrix (Fin n) (Fin m) K) (A : Matrix (Fin n) (Fin n) K) (T V : Matrix (Fin m) (Fin m) K)
    (θ : Fin m → K) (c : K) (hP : Qᵀ * A * Q = T)
    (hE : V * Matrix.diagonal θ * Vᵀ = Matrix.of (addJitter T c)) (hθ : ∀ j, 0 ≤ θ j) :
    lanczosRoot ops Q V θ * (lanczosRoot ops Q V θ)ᵀ = (Q * Qᵀ) * A * (Q * Qᵀ) + c • (Q * Qᵀ) := by
  rw [lanczos_root_nonneg ops hsq Q V _ θ hθ hE, addJitter_eq, Matrix.mul_add, Matrix.add_mul,
    lanczos_compression Q A T hP, Matrix.mul_smul, Matrix.mul_one, Matrix.smul_mul]

/-- inverse root on a rectangular orthonormal `Q` with as many columns as rows: `R⁻ R⁻ᵀ = (A + j·1)⁻¹`. -/
theorem root_inv_full_of_card {m : Nat} (ops : NumOps K) (hsq : ∀ x, 0 ≤ x → ops.sqrt x * ops.sqrt x = x)
    (Q : Matrix (Fin n) (Fin m) K) (A : Matrix (Fin n) (Fin n) K) (T V : Matrix (Fin m) (Fin m) K)
    (θ : Fin m → K) (c : K) (hm : m = n) (hQ : Qᵀ * Q = 1) (hP : Qᵀ * A * Q = T) (hV : Vᵀ * V = 1)
    (hE : V * Matrix.diagonal θ * Vᵀ = Matrix.of (addJitter T c)) (hθ : ∀ j, 0 < θ j) :
    lanczosRootInv ops Q V θ * (lanczosRootInv ops Q V θ)ᵀ
      = (A + c • (1 : Matrix (Fin n) (Fin n) K))⁻¹ := by
  have hQ' : Q * Qᵀ = 1 := QQt_of_card Q hm hQ
  have hJ : Q * Matrix.of (addJitter T c) * Qᵀ = A + c • (1 : Matrix (Fin n) (Fin n) K) := by
    rw [addJitter_eq, Matrix.mul_add, Matrix.add_mul,
      full_of_card Q A T hm hQ hP, Matrix.mul_smul, Matrix.mul_one, Matrix.smul_mul, hQ']
  rw [lanczos_root_inv ops hsq Q V _ θ hθ hV hE]
  symm
  apply Matrix.inv_eq_right_inv
  rw [← hJ]
  set J : Matrix (Fin m) (Fin m) K := Matrix.of (addJitter T c) with hJdef
  have hJJ : J * J⁻¹ = 1 := by
    have hinv := inv_of_eigendecomposition V J θ (fun j => (hθ j).ne') hV hE
    have hV' : V * Vᵀ = 1 := mul_eq_one_comm.mp hV
    rw [hinv, ← hE]
    have hdd : Matrix.diagonal θ * Matrix.diagonal (fun j => (θ j)⁻¹) = 1 := by
      rw [Matrix.diagonal_mul_diagonal, ← Matrix.diagonal_one]
      congr 1
      funext j
      exact mul_inv_cancel₀ (hθ j).ne'
    calc V * Matrix.diagonal θ * Vᵀ * (V * Matrix.diagonal (fun j => (θ j)⁻¹) * Vᵀ)
        = V * (Matrix.diagonal θ * (Vᵀ * V) * Matrix.diagonal (fun j => (θ j)⁻¹)) * Vᵀ := by
          simp only [Matrix.mul_assoc]
      _ = 1 := by rw [hV, Matrix.mul_one, hdd, Matrix.mul_one, hV']
  calc Q * J * Qᵀ * (Q * J⁻¹ * Qᵀ) = Q * (J * (Qᵀ * Q) * J⁻¹) * Qᵀ := by
        simp only [Matrix.mul_assoc]
    _ = 1 := by rw [hQ, Matrix.mul_one, hJJ, Matrix.mul_one, hQ']

/-! ### `minDiag` -/

theorem foldl_min_spec {m : Nat} (T : Mat K m m) (l : List (Fin m)) :
    ∀ a : K,
      l.foldl (fun acc i => if ltb (T i i) acc then T i i else acc) a ≤ a ∧
      (∀ i ∈ l, l.foldl (fun acc i => if ltb (T i i) acc then T i i else acc) a ≤ T i i) ∧
      (l.foldl (fun acc i => if ltb (T i i) acc then T i i else acc) a = a ∨
        ∃ i ∈ l, l.foldl (fun acc i => if ltb (T i i) acc then T i i else acc) a = T i i) := by
  induction l with
  | nil => intro a; simp
  | cons i l ih =>
    intro a
    simp only [List.foldl_cons]
    by_cases h : T i i < a
    · simp only [ltb, h, decide_true, if_true]
      obtain ⟨h1, h2, h3⟩ := ih (T i i)
      refine ⟨le_trans h1 h.le, ?_, ?_⟩
      · intro i' hi'
        rcases List.mem_cons.mp hi' with rfl | hmem
        · exact h1
        · exact h2 i' hmem
      · right
        rcases h3 with h3 | ⟨i', hi', h3⟩
        · exact ⟨i, List.mem_cons_self, h3⟩
        · exact ⟨i', List.mem_cons_of_mem _ hi', h3⟩
    · simp only [ltb, h, decide_false, Bool.false_eq_true, if_false]
      obtain ⟨h1, h2, h3⟩ := ih a
      refine ⟨h1, ?_, ?_⟩
      · intro i' hi'
        rcases List.mem_cons.mp hi' with rfl | hmem
        · exact le_trans h1 (not_lt.mp h)
        · exact h2 i' hmem
      · rcases h3 with h3 | ⟨i', hi', h3⟩
        · exact Or.inl h3
        · exact Or.inr ⟨i', List.mem_cons_of_mem _ hi', h3⟩

/-- `mins = min(diag t_mat)`: a lower bound of the diagonal that is attained (the default only for the empty matrix). -/
theorem minDiag_spec {m : Nat} (T : Mat K m m) (d : K) :
    (∀ i : Fin m, minDiag ltb T d ≤ T i i) ∧ (0 < m → ∃ i : Fin m, minDiag ltb T d = T i i) ∧
      (m = 0 → minDiag ltb T d = d) := by
  unfold minDiag
  rcases hl : List.finRange m with _ | ⟨i0, l⟩
  · have hm : m = 0 := by
      have := congrArg List.length hl
      simpa using this
    subst hm
    exact ⟨fun i => i.elim0, fun h => absurd h (lt_irrefl 0), fun _ => by simp⟩
  · obtain ⟨h1, h2, h3⟩ := foldl_min_spec T (i0 :: l) (T i0 i0)
    refine ⟨fun i => h2 i (by rw [← hl]; exact List.mem_finRange i), fun _ => ?_, fun hm => ?_⟩
    · rcases h3 with h3 | ⟨i, _, h3⟩
      · exact ⟨i0, h3⟩
      · exact ⟨i, h3⟩
    · subst hm; exact i0.elim0

/-! ### a concrete instance over `ℝ` with the real square root -/

/-- the real scalar operations: `Real.sqrt`, `>`, `|·|` -/
noncomputable def realOps : NumOps ℝ :=
  { sqrt := Real.sqrt, gt := fun a b => decide (b < a), abs := fun x => |x| }

theorem realOps_law : SqrtLaw realOps :=
  ⟨fun x hx => Real.mul_self_sqrt hx, Real.sqrt_nonneg⟩

/-- `A = [[2,1],[1,3]]`, start vector `e_0`, budget 2 -/
def exA : Matrix (Fin 2) (Fin 2) ℝ := !![2, 1; 1, 3]
def exV : Vec ℝ 2 := #v[1, 0]
noncomputable def exP : Params ℝ :=
  { tol := 1 / 100000, extra := 10, breakTol := 1 / 1000000, guardsSingle := true }

theorem exA_symm : exAᵀ = exA := by
  ext i j; fin_cases i <;> fin_cases j <;> rfl

theorem ex_fn_v : fn exV = ![1, 0] := by
  funext i; fin_cases i <;> rfl

theorem exV_ne : fn exV ⬝ᵥ fn exV ≠ 0 := by
  rw [ex_fn_v]; simp [dotProduct, Fin.sum_univ_two]

/-- `β_0 = ‖A q_0 − α_0 q_0‖ = ‖(0, 1)‖ = 1` with the real square root -/
theorem ex_beta0 : (init0 realOps (amulOf exA) 2 exV).2.2 = 1 := by
  simp only [init0, norm, dot_eq, fn_vsub, fn_vscale, fn_vdiv, fn_amulOf, ex_fn_v]
  simp [realOps, exA, Matrix.mulVec, dotProduct, Fin.sum_univ_two]

/-- The run of the model on this instance over `ℝ`: two iterations, no breakdown — all hypotheses of the
theorems (`SqrtLaw`, `SelfAdj`, non-zero start vector, `guardsSingle`, budget, `BetaOK`) hold together. -/
theorem real_instance :
    SqrtLaw realOps ∧ SelfAdj (amulOf exA) ∧ fn exV ⬝ᵥ fn exV ≠ 0 ∧ exP.guardsSingle = true ∧ 1 ≤ min 2 2 ∧
    ∃ o, lanczosTridiag realOps exP (amulOf exA) 2 exV = .ok o ∧ o.count = 2 ∧ BetaOK (o.count - 1) o.st := by
  refine ⟨realOps_law, selfAdj_amulOf exA_symm, exV_ne, rfl, by decide, ?_⟩
  have hguard : (decide (1 < 2) &&
      realOps.gt (realOps.abs (init0 realOps (amulOf exA) 2 exV).2.2) exP.breakTol) = true := by
    rw [ex_beta0]
    simp [realOps, exP]
    norm_num
  have hb : (body realOps exP (amulOf exA) 2 1 (init realOps (amulOf exA) 2 exV)).2 = false := by
    rw [body_else _ _ _ _ _ _ (by omega)]
  have hloop : loop realOps exP (amulOf exA) 2 (0 + 1) 1 (init realOps (amulOf exA) 2 exV)
      = (2, (body realOps exP (amulOf exA) 2 1 (init realOps (amulOf exA) 2 exV)).1) := by
    simp [loop, hb]
  refine ⟨{ count := 2, q := (body realOps exP (amulOf exA) 2 1 (init realOps (amulOf exA) 2 exV)).1.q,
            t := (body realOps exP (amulOf exA) 2 1 (init realOps (amulOf exA) 2 exV)).1.t,
            passes := (body realOps exP (amulOf exA) 2 1 (init realOps (amulOf exA) 2 exV)).1.passes }, ?_, rfl, ?_⟩
  · unfold lanczosTridiag
    simp only [show min 2 2 = 2 from rfl, show ¬ (2 = 0) by decide, if_false, show exP.guardsSingle = true from rfl,
      if_true, hguard, show 2 - 1 = 0 + 1 from rfl, hloop]
  · intro j hj
    have hj0 : j = 0 := by
      have : j < 2 - 1 := hj
      omega
    subst hj0
    show Tf (body realOps exP (amulOf exA) 2 1 (init realOps (amulOf exA) 2 exV)).1 0 (0 + 1) ≠ 0
    rw [body_frame 0 (by omega), init_T]
    simp [ex_beta0]

end LinOp.C09
