import LinOp.C02.ProofsBatch
/-! C02 helper lemmas for the batched layer, part 2: `_sum_batch`, `_prod_batch`, batch constants, constructors. -/
namespace LinOp.C02
open BOp
variable {α : Type} [CommRing α]
set_option linter.unusedSimpArgs false
set_option linter.unusedVariables false
set_option linter.unusedSectionVars false

theorem bind_some {β γ : Type} (x : Option β) (f : β → Option γ) (r : γ) (h : x.bind f = some r) :
    ∃ a, x = some a ∧ f a = some r := by
  cases x with
  | none => simp at h
  | some a => exact ⟨a, rfl, by simpa using h⟩

mutual
  /-- `_sum_batch(d)` of the classes with a structural override denotes the sum over the batch dimension `d`. -/
  theorem sumBatch_value (d : Nat) (S : Shape) (o r : BOp α) (h : o.uniform S = true) (hr : sumBatch d o = some r)
      (idx : BIdx) (i j : Nat) :
      r.denote idx i j = sumN (S.getD d 0) fun k => o.denote (idx.insertIdx d k) i j := by
    cases o with
    | dense bs n m t =>
      simp only [uniform, beq_iff_eq] at h; subst h
      simp only [sumBatch, Option.some.injEq] at hr; subst hr; simp [denote]
    | diag bs n v =>
      simp only [uniform, beq_iff_eq] at h; subst h
      simp only [sumBatch, Option.some.injEq] at hr; subst hr
      simp only [denote]; rw [sumN_ite]
    | constDiag bs n c =>
      simp only [uniform, beq_iff_eq] at h; subst h
      simp only [sumBatch, Option.some.injEq] at hr; subst hr
      simp only [denote]; rw [sumN_ite]
    | identity bs n =>
      simp only [uniform, beq_iff_eq] at h; subst h
      simp only [sumBatch, Option.some.injEq] at hr; subst hr
      simp only [denote]; rw [sumN_ite]
    | zero bs n m =>
      simp only [sumBatch, Option.some.injEq] at hr; subst hr
      simp [denote, sumN_zero]
    | tri up t =>
      simp only [sumBatch, Option.map_eq_some_iff] at hr
      obtain ⟨t', ht, rfl⟩ := hr
      simpa [denote] using sumBatch_value d S t t' (by simpa [uniform] using h) ht idx i j
    | sum l =>
      simp only [sumBatch, Option.map_eq_some_iff] at hr
      obtain ⟨l', hl, rfl⟩ := hr
      simpa [denote] using sumBatchL_value d S l l' (by simpa [uniform] using h) hl idx i j
    | toep bs n col => simp [sumBatch] at hr
    | root x => simp [sumBatch] at hr
    | matmul a b => simp [sumBatch] at hr
    | constMul a cbs c => simp [sumBatch] at hr
  theorem sumBatchL_value (d : Nat) (S : Shape) (l l' : List (BOp α)) (h : (!l.isEmpty && uniformL S l) = true)
      (hr : sumBatchL d l = some l') (idx : BIdx) (i j : Nat) :
      denoteL l' idx i j = sumN (S.getD d 0) fun k => denoteL l (idx.insertIdx d k) i j := by
    cases l with
    | nil => simp at h
    | cons a l =>
      simp only [uniformL, List.isEmpty_cons, Bool.not_false, Bool.true_and, Bool.and_eq_true] at h
      simp only [sumBatchL] at hr
      obtain ⟨a', ha, hr⟩ := bind_some _ _ _ hr
      obtain ⟨l2, hl, hr⟩ := bind_some _ _ _ hr
      simp only [pure, Option.some.injEq] at hr
      subst hr
      cases l with
      | nil =>
        simp only [sumBatchL, Option.some.injEq] at hl; subst hl
        simp only [denoteL, add_zero]
        exact sumBatch_value d S a a' h.1 ha idx i j
      | cons b l3 =>
        have := sumBatchL_value d S (b :: l3) l2 (by simpa using h.2) hl idx i j
        simp only [denoteL] at this ⊢
        rw [sumBatch_value d S a a' h.1 ha idx i j, this, ← sumN_add]
end

mutual
  theorem sumBatch_uniform (d : Nat) (S : Shape) (o r : BOp α) (h : o.uniform S = true) (hr : sumBatch d o = some r) :
      r.uniform (S.eraseIdx d) = true := by
    cases o with
    | dense bs n m t =>
      simp only [uniform, beq_iff_eq] at h; subst h
      simp only [sumBatch, Option.some.injEq] at hr; subst hr; simp [uniform]
    | diag bs n v =>
      simp only [uniform, beq_iff_eq] at h; subst h
      simp only [sumBatch, Option.some.injEq] at hr; subst hr; simp [uniform]
    | constDiag bs n c =>
      simp only [uniform, beq_iff_eq] at h; subst h
      simp only [sumBatch, Option.some.injEq] at hr; subst hr; simp [uniform]
    | identity bs n =>
      simp only [uniform, beq_iff_eq] at h; subst h
      simp only [sumBatch, Option.some.injEq] at hr; subst hr; simp [uniform]
    | zero bs n m =>
      simp only [uniform, beq_iff_eq] at h; subst h
      simp only [sumBatch, Option.some.injEq] at hr; subst hr; simp [uniform]
    | tri up t =>
      simp only [sumBatch, Option.map_eq_some_iff] at hr
      obtain ⟨t', ht, rfl⟩ := hr
      simpa [uniform] using sumBatch_uniform d S t t' (by simpa [uniform] using h) ht
    | sum l =>
      simp only [sumBatch, Option.map_eq_some_iff] at hr
      obtain ⟨l', hl, rfl⟩ := hr
      simpa [uniform] using sumBatchL_uniform d S l l' (by simpa [uniform] using h) hl
    | toep bs n col => simp [sumBatch] at hr
    | root x => simp [sumBatch] at hr
    | matmul a b => simp [sumBatch] at hr
    | constMul a cbs c => simp [sumBatch] at hr
  theorem sumBatchL_uniform (d : Nat) (S : Shape) (l l' : List (BOp α)) (h : (!l.isEmpty && uniformL S l) = true)
      (hr : sumBatchL d l = some l') : (!l'.isEmpty && uniformL (S.eraseIdx d) l') = true := by
    cases l with
    | nil => simp at h
    | cons a l =>
      simp only [uniformL, List.isEmpty_cons, Bool.not_false, Bool.true_and, Bool.and_eq_true] at h
      simp only [sumBatchL] at hr
      obtain ⟨a', ha, hr⟩ := bind_some _ _ _ hr
      obtain ⟨l2, hl, hr⟩ := bind_some _ _ _ hr
      simp only [pure, Option.some.injEq] at hr
      subst hr
      cases l with
      | nil =>
        simp only [sumBatchL, Option.some.injEq] at hl; subst hl
        simp [uniformL, sumBatch_uniform d S a a' h.1 ha]
      | cons b l3 =>
        have := sumBatchL_uniform d S (b :: l3) l2 (by simpa using h.2) hl
        simp only [Bool.and_eq_true] at this
        simp [uniformL, sumBatch_uniform d S a a' h.1 ha, this.2]
end

/-- `_prod_batch(d)` (Dense / Diag / ConstantDiag / Identity / Zero) denotes the entrywise product over the batch dimension `d`
(a non-empty dimension: the empty product of diagonal matrices is not diagonal). -/
theorem prodBatch_value (d : Nat) (S : Shape) (o r : BOp α) (h : o.uniform S = true) (hr : prodBatch d o = some r)
    (hpos : 0 < S.getD d 0) (idx : BIdx) (i j : Nat) :
    r.denote idx i j = prodN (S.getD d 0) fun k => o.denote (idx.insertIdx d k) i j := by
  cases o with
  | dense bs n m t =>
    simp only [uniform, beq_iff_eq] at h; subst h
    simp only [prodBatch, Option.some.injEq] at hr; subst hr; simp [denote]
  | diag bs n v =>
    simp only [uniform, beq_iff_eq] at h; subst h
    simp only [prodBatch, Option.some.injEq] at hr; subst hr
    simp only [denote]; rw [prodN_ite _ hpos]
  | constDiag bs n c =>
    simp only [uniform, beq_iff_eq] at h; subst h
    simp only [prodBatch, Option.some.injEq] at hr; subst hr
    simp only [denote]; rw [prodN_ite _ hpos]
  | identity bs n =>
    simp only [uniform, beq_iff_eq] at h; subst h
    simp only [prodBatch, Option.some.injEq] at hr; subst hr
    simp only [denote]; rw [prodN_ite _ hpos, prodN_one]
  | zero bs n m =>
    simp only [prodBatch, Option.some.injEq] at hr; subst hr
    simp only [denote]; exact (prodN_zero _ hpos).symm
  | tri up t => simp [prodBatch] at hr
  | sum l => simp [prodBatch] at hr
  | toep bs n col => simp [prodBatch] at hr
  | root x => simp [prodBatch] at hr
  | matmul a b => simp [prodBatch] at hr
  | constMul a cbs c => simp [prodBatch] at hr

theorem prodBatch_uniform (d : Nat) (S : Shape) (o r : BOp α) (h : o.uniform S = true) (hr : prodBatch d o = some r) :
    r.uniform (S.eraseIdx d) = true := by
  cases o <;> simp only [prodBatch, Option.some.injEq, reduceCtorEq] at hr <;>
    (simp only [uniform, beq_iff_eq] at h; subst h; subst hr; simp [uniform])

mutual
  /-- `_mul_constant` with a batch of constants (or a 0-d constant): every class scales the matrix at each batch index. -/
  theorem mulConstB_value (cbs : Shape) (c : BIdx → α) (S : Shape) (o r : BOp α) (h : o.uniform S = true)
      (hr : mulConstB cbs c o = some r) (idx : BIdx) (hidx : inRange S idx = true) (i j : Nat) :
      r.denote idx i j = o.denote idx i j * c (bcast cbs idx) := by
    cases o with
    | dense bs n m t => simp only [mulConstB, Option.some.injEq] at hr; subst hr; simp [denote, mul_comm]
    | toep bs n col => simp only [mulConstB, Option.some.injEq] at hr; subst hr; simp [denote, mul_comm]
    | matmul a b => simp only [mulConstB, Option.some.injEq] at hr; subst hr; simp [denote, mul_comm]
    | constMul a cbs' c' => simp only [mulConstB, Option.some.injEq] at hr; subst hr; simp [denote, mul_comm]
    | root x => simp [mulConstB] at hr
    | diag bs n v =>
      simp only [uniform, beq_iff_eq] at h; subst h
      simp only [mulConstB, Option.map_eq_some_iff] at hr
      obtain ⟨S', _, rfl⟩ := hr
      simp only [denote, bcast_id _ idx hidx]
      split_ifs <;> simp
    | constDiag bs n v =>
      simp only [uniform, beq_iff_eq] at h; subst h
      simp only [mulConstB, Option.map_eq_some_iff] at hr
      obtain ⟨S', _, rfl⟩ := hr
      simp only [denote, bcast_id _ idx hidx]
      split_ifs <;> simp
    | identity bs n =>
      simp only [mulConstB, Option.map_eq_some_iff] at hr
      obtain ⟨S', _, rfl⟩ := hr
      simp only [denote]
      split_ifs <;> simp
    | zero bs n m =>
      simp only [mulConstB, Option.map_eq_some_iff] at hr
      obtain ⟨S', _, rfl⟩ := hr
      simp [denote]
    | tri up t =>
      simp only [mulConstB, Option.map_eq_some_iff] at hr
      obtain ⟨t', ht, rfl⟩ := hr
      simpa [denote] using mulConstB_value cbs c S t t' (by simpa [uniform] using h) ht idx hidx i j
    | sum l =>
      simp only [mulConstB, Option.map_eq_some_iff] at hr
      obtain ⟨l', hl, rfl⟩ := hr
      simpa [denote] using mulConstBL_value cbs c S l l' (by simpa [uniform] using h) hl idx hidx i j
  theorem mulConstBL_value (cbs : Shape) (c : BIdx → α) (S : Shape) (l l' : List (BOp α))
      (h : (!l.isEmpty && uniformL S l) = true) (hr : mulConstBL cbs c l = some l') (idx : BIdx)
      (hidx : inRange S idx = true) (i j : Nat) :
      denoteL l' idx i j = denoteL l idx i j * c (bcast cbs idx) := by
    cases l with
    | nil => simp at h
    | cons a l =>
      simp only [uniformL, List.isEmpty_cons, Bool.not_false, Bool.true_and, Bool.and_eq_true] at h
      simp only [mulConstBL] at hr
      obtain ⟨a', ha, hr⟩ := bind_some _ _ _ hr
      obtain ⟨l2, hl, hr⟩ := bind_some _ _ _ hr
      simp only [pure, Option.some.injEq] at hr
      subst hr
      cases l with
      | nil =>
        simp only [mulConstBL, Option.some.injEq] at hl; subst hl
        simp only [denoteL, add_zero]
        exact mulConstB_value cbs c S a a' h.1 ha idx hidx i j
      | cons b l3 =>
        have := mulConstBL_value cbs c S (b :: l3) l2 (by simpa using h.2) hl idx hidx i j
        simp only [denoteL] at this ⊢
        rw [mulConstB_value cbs c S a a' h.1 ha idx hidx i j, this]; ring
end

/-- `MatmulLinearOperator(a, b)` with operands of different batch shapes: both factors are expanded to the broadcast shape `S`,
the product at batch index `idx` reads each operand at its broadcast index. -/
theorem mkMatmul_value (a b r : BOp α) (sa sb : Shape) (ha : a.uniform sa = true) (hb : b.uniform sb = true)
    (h : mkMatmul a b = .ok r) :
    ∃ S, bshapes sa sb = some S ∧ r.bshape = S ∧ r.uniform S = true ∧ r.rows = a.rows ∧ r.cols = b.cols ∧
      ∀ idx, inRange S idx = true → ∀ i j,
        r.denote idx i j = sumN a.cols fun k => a.denote (bcast sa idx) i k * b.denote (bcast sb idx) k j := by
  unfold mkMatmul at h
  rw [bshape_of_uniform sa a ha, bshape_of_uniform sb b hb] at h
  cases hS : bshapes sa sb with
  | none => simp [hS] at h
  | some S =>
    simp only [hS, Except.ok.injEq] at h
    subst h
    have ua := matchBatch_uniform S sa a ha
    have ub := matchBatch_uniform S sb b hb
    refine ⟨S, rfl, ?_, ?_, ?_, ?_, ?_⟩
    · simpa [bshape] using bshape_of_uniform S _ ua
    · simp [uniform, ua, ub]
    · simp [rows, (matchBatch_shape S a).1]
    · simp [cols, (matchBatch_shape S b).2]
    · intro idx hidx i j
      simp only [denote, (matchBatch_shape S a).2]
      exact sumN_congr _ _ _ fun k _ => by
        rw [matchBatch_value S sa idx hidx a ha, matchBatch_value S sb idx hidx b hb]

/-- `SumLinearOperator(a, b)` with operands of different batch shapes (the final branch of the base-class `__add__`). -/
theorem mkSum2_value (a b r : BOp α) (sa sb : Shape) (ha : a.uniform sa = true) (hb : b.uniform sb = true)
    (h : mkSum2 a b = .ok r) :
    ∃ S, bshapes sa sb = some S ∧ r.bshape = S ∧ r.uniform S = true ∧ r.rows = a.rows ∧ r.cols = a.cols ∧
      ∀ idx, inRange S idx = true → ∀ i j,
        r.denote idx i j = a.denote (bcast sa idx) i j + (b.denote (bcast sb idx) i j + 0) := by
  unfold mkSum2 at h
  rw [bshape_of_uniform sa a ha, bshape_of_uniform sb b hb] at h
  cases hS : bshapes sa sb with
  | none => simp [hS] at h
  | some S =>
    simp only [hS, Except.ok.injEq] at h
    subst h
    have ua := matchBatch_uniform S sa a ha
    have ub := matchBatch_uniform S sb b hb
    refine ⟨S, rfl, ?_, ?_, ?_, ?_, ?_⟩
    · simpa [bshape, bshapeL] using bshape_of_uniform S _ ua
    · simp [uniform, uniformL, ua, ub]
    · simp [rows, rowsL, (matchBatch_shape S a).1]
    · simp [cols, colsL, (matchBatch_shape S a).2]
    · intro idx hidx i j
      simp only [denote, denoteL]
      rw [matchBatch_value S sa idx hidx a ha, matchBatch_value S sb idx hidx b hb]

end LinOp.C02
