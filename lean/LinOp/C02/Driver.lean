import LinOp.Core.Basic
import LinOp.Core.Parse
import LinOp.C02.Model
import LinOp.C02.Block
/-! Line-protocol driver for the C02 dispatch model over `Rat`.
One line = one expression program in prefix form; output = `ok <class tree> <rows> <cols> <values>`
or `err <kind>`. -/
open LinOp LinOp.Parse LinOp.C02

abbrev Q := Rat

def matFn (a : Array (Array Q)) : NMat Q := fun i j => (a[i]?.getD #[])[j]?.getD 0
def vecFn (a : Array Q) : Nat → Q := fun i => a[i]?.getD 0

abbrev P (β : Type) := List String → Option (β × List String)

def pNat : P Nat | t :: r => t.toNat?.map (·, r) | [] => none
def pRat : P Q | t :: r => (parseRat? t).map (·, r) | [] => none
def pMat : P (NMat Q) | t :: r => (parseMat? t).map fun m => (matFn m, r) | [] => none
def pVec : P (Nat → Q) | t :: r => (parseRats? t).map fun v => (vecFn v.toArray, r) | [] => none

mutual
  partial def pOp : P (Op Q)
    | "D" :: r => do let (n, r) ← pNat r; let (m, r) ← pNat r; let (t, r) ← pMat r; pure (.dense n m t, r)
    | "G" :: r => do let (n, r) ← pNat r; let (d, r) ← pVec r; pure (.diag n d, r)
    | "C" :: r => do let (n, r) ← pNat r; let (c, r) ← pRat r; pure (.constDiag n c, r)
    | "I" :: r => do let (n, r) ← pNat r; pure (.identity n, r)
    | "Z" :: r => do let (n, r) ← pNat r; let (m, r) ← pNat r; pure (.zero n m, r)
    | "T" :: r => do let (u, r) ← pNat r; let (t, r) ← pOp r; pure (.tri (u == 1) t, r)
    | "P" :: r => do let (n, r) ← pNat r; let (d, r) ← pVec r; pure (.toep n d, r)
    | "O" :: r => do
        let (c, r) ← pNat r; let (n, r) ← pNat r; let (m, r) ← pNat r; let (t, r) ← pMat r
        pure (.opq c n m t, r)
    | "R" :: r => do let (t, r) ← pOp r; pure (.root t, r)
    | "L" :: r => do let (t, r) ← pOp r; pure (.lowRankRoot t, r)
    | "H" :: r => do let (t, r) ← pOp r; pure (.chol t, r)
    | "HU" :: r => do let (t, r) ← pOp r; pure (.cholU t, r)
    | "K" :: r => do let (a, r) ← pOp r; let (b, r) ← pOp r; pure (.kron a b, r)
    | "KT" :: r => do let (u, r) ← pNat r; let (a, r) ← pOp r; let (b, r) ← pOp r; pure (.kronTri (u == 1) a b, r)
    | "KD" :: r => do let (a, r) ← pOp r; let (b, r) ← pOp r; pure (.kronDiag a b, r)
    | "AD" :: r => do let (a, r) ← pOp r; let (b, r) ← pOp r; pure (.addedDiag a b, r)
    | "KAD" :: r => do let (a, r) ← pOp r; let (b, r) ← pOp r; pure (.kronAddedDiag a b, r)
    | "LAD" :: r => do let (a, r) ← pOp r; let (b, r) ← pOp r; pure (.lrrAddedDiag a b, r)
    | "S" :: r => do let (k, r) ← pNat r; let (l, r) ← pOps k r; pure (.sum l, r)
    | "PS" :: r => do let (k, r) ← pNat r; let (l, r) ← pOps k r; pure (.psdSum l, r)
    | "SK" :: r => do let (a, r) ← pOp r; let (b, r) ← pOp r; pure (.sumKron a b, r)
    | "MM" :: r => do let (a, r) ← pOp r; let (b, r) ← pOp r; pure (.matmul a b, r)
    | "MU" :: r => do let (a, r) ← pOp r; let (b, r) ← pOp r; pure (.mul a b, r)
    | "CM" :: r => do let (c, r) ← pRat r; let (a, r) ← pOp r; pure (.constMul a c, r)
    | _ => none
  partial def pOps : Nat → P (List (Op Q))
    | 0, r => some ([], r)
    | k + 1, r => do let (a, r) ← pOp r; let (l, r) ← pOps k r; pure (a :: l, r)
end

partial def pProg : P (Prog Q)
  | "leaf" :: r => do let (o, r) ← pOp r; pure (.leaf o, r)
  | "+" :: r => do let (p, r) ← pProg r; let (q, r) ← pProg r; pure (.add p q, r)
  | "-" :: r => do let (p, r) ← pProg r; let (q, r) ← pProg r; pure (.sub p q, r)
  | "*c" :: k :: r => do
      let (c, r) ← pRat r; let (p, r) ← pProg r
      let _ := k
      pure (.mulC c p, r)
  | "/c" :: r => do
      let (c, r) ← pRat r; let (p, r) ← pProg r
      if c = 0 then none else pure (.divC c (1 / c) p, r)
  | "*m" :: r => do let (p, r) ← pProg r; let (q, r) ← pProg r; pure (.mulM p q, r)
  | "@" :: r => do let (k, r) ← pNat r; let (p, r) ← pProg r; let (q, r) ← pProg r; pure (.matmul k p q, r)
  | "ad" :: "f" :: r => do let (d, r) ← pVec r; let (p, r) ← pProg r; pure (.addDiag (.full d) p, r)
  | "ad" :: "c" :: r => do let (c, r) ← pRat r; let (p, r) ← pProg r; pure (.addDiag (.const c) p, r)
  | "ad" :: "s" :: r => do let (c, r) ← pRat r; let (p, r) ← pProg r; pure (.addDiag (.scalar c) p, r)
  | "jit" :: r => do let (c, r) ← pRat r; let (p, r) ← pProg r; pure (.jitter c p, r)
  | "tr" :: r => do let (p, r) ← pProg r; pure (.transpose p, r)
  | _ => none

def natSqrt? (n : Nat) : Option Nat := let s := n.sqrt; if s * s = n then some s else none

/-- exact rational square root (0 when there is none — the harness only sends perfect squares). -/
def ratSqrt (c : Q) : Q :=
  if c.num < 0 then 0 else
  match natSqrt? c.num.toNat, natSqrt? c.den with
  | some a, some b => mkRat a b
  | _, _ => 0

def env : Env Q where
  S := { pos := fun c => decide (0 < c), sqrt := ratSqrt }
  -- stand-in for the numerical root decomposition: an opaque operator with the same value
  rootDec := fun a => .opq 98 a.rows a.cols a.denote

def showErr : Err → String
  | .notSupported => "notSupported" | .shape => "shape"

def showVals (r : Op Q) : String :=
  let n := r.rows; let m := r.cols
  if n = 0 ∨ m = 0 then "-" else
  let f := tab (n := n) (m := m) fun i j => r.denote i.1 j.1
  showMat ((List.finRange n).map fun i => (List.finRange m).map fun j => f i j)

/-- `cat` / `cat_rows` / `add_low_rank` lines (LinOp/C02/Block.lean). -/
def pBlock : List String → Option (Except Err (Op Q))
  | "cat" :: r => do
      let (rw, r) ← pNat r; let (cls, r) ← pNat r; let (a, r) ← pOp r; let (b, r) ← pOp r
      if r.isEmpty then pure (catOp (rw == 1) cls a b) else none
  | "catrows" :: r => do
      let (cls, r) ← pNat r; let (o, r) ← pNat r; let (B, r) ← pMat r; let (D, r) ← pMat r; let (a, r) ← pOp r
      if r.isEmpty then pure (catRowsOp cls a o B D) else none
  | "alr" :: r => do
      let (k, r) ← pNat r; let (B, r) ← pMat r; let (a, r) ← pOp r
      if r.isEmpty then pure (addLowRank a k B) else none
  | _ => none

def stepLine (_ : Unit) (line : String) : Unit × String :=
  let ws := words line
  match pBlock ws with
  | some (.ok r) => ((), s!"ok {r.tree} {r.rows} {r.cols} {showVals r}")
  | some (.error e) => ((), s!"err {showErr e}")
  | none =>
  match pProg ws with
  | some (p, []) =>
    match Impl.eval env p with
    | .ok r => ((), s!"ok {r.tree} {r.rows} {r.cols} {showVals r}")
    | .error e => ((), s!"err {showErr e}")
  | _ => ((), "bad-line")

def main : IO Unit := do
  loop (← IO.getStdin) () stepLine
