import LinOp.C02.Proofs
/-! C02 helper lemmas, part 2: scalars, transpose, elementwise product, programs. -/
namespace LinOp.C02
open Op
variable {α : Type} [CommRing α]
set_option linter.unusedTactic false
set_option linter.unusedSimpArgs false
set_option linter.unusedSectionVars false

theorem sumN_mul_right (k : Nat) (f : Nat → α) (c : α) : sumN k (fun l => f l * c) = sumN k f * c := by
  induction k with
  | zero => simp [sumN]
  | succ k ih => simp only [sumN, ih]; ring

theorem mkMul_refines (a b : Op α) (i j : Nat) : (mkMul a b).denote i j = a.denote i j * b.denote i j := by
  unfold mkMul; split_ifs <;> simp [denote, mul_comm]

theorem rows_mkMul (a b : Op α) : (mkMul a b).rows = min a.rows b.rows := by
  unfold mkMul; split_ifs <;> simp [rows, Nat.min_comm]

theorem cols_mkMul (a b : Op α) : (mkMul a b).cols = min a.cols b.cols := by
  unfold mkMul; split_ifs <;> simp [cols, Nat.min_comm]

/-- the square-root law the model needs from `ScalarOps`: `sqrt c · sqrt c = c` whenever `c > 0` is reported. -/
def SqrtLaw (S : ScalarOps α) : Prop := ∀ c, S.pos c = true → S.sqrt c * S.sqrt c = c

mutual
  theorem shape_mulConst (S : ScalarOps α) (a : Op α) (c : α) :
      (mulConst S a c).rows = a.rows ∧ (mulConst S a c).cols = a.cols := by
    cases a with
    | tri up t => simpa [mulConst, rows, cols] using shape_mulConst S t c
    | root r =>
      have := shape_mulConst S r (S.sqrt c)
      simp only [mulConst]; split_ifs <;> simp [rows, cols, this]
    | lowRankRoot r =>
      have := shape_mulConst S r (S.sqrt c)
      simp only [mulConst]; split_ifs <;> simp [rows, cols, this]
    | chol r =>
      have := shape_mulConst S r (S.sqrt c)
      simp only [mulConst]; split_ifs <;> simp [rows, cols, this]
    | cholU r =>
      have := shape_mulConst S r (S.sqrt c)
      simp only [mulConst]; split_ifs <;> simp [rows, cols, this]
    | mul a b =>
      have := shape_mulConst S a c
      simp only [mulConst]; split_ifs <;> simp [rows, cols, rows_mkMul, cols_mkMul, this]
    | sum l => simpa [mulConst, rows, cols] using shapeL_mulConst S l c
    | psdSum l => simpa [mulConst, rows, cols] using shapeL_mulConst S l c
    | sumKron a b => simpa [mulConst, rows, cols, rowsL, colsL] using shape_mulConst S a c
    | addedDiag a d => simpa [mulConst, rows, cols] using shape_mulConst S a c
    | kronAddedDiag a d => simpa [mulConst, rows, cols] using shape_mulConst S a c
    | lrrAddedDiag a d =>
      have := shape_mulConst S a c
      simp only [mulConst]; split_ifs <;> simp [rows, cols, this]
    | _ => simp [mulConst, rows, cols]
  theorem shapeL_mulConst (S : ScalarOps α) (l : List (Op α)) (c : α) :
      rowsL (mulConstL S l c) = rowsL l ∧ colsL (mulConstL S l c) = colsL l := by
    cases l with
    | nil => simp [mulConstL, rowsL, colsL]
    | cons a l => simpa [mulConstL, rowsL, colsL] using shape_mulConst S a c
end

theorem root_scale (n : Nat) (R R' : NMat α) (s c : α) (hs : s * s = c) (hR : ∀ i k, R' i k = R i k * s) (i j : Nat) :
    (sumN n fun k => R' i k * R' j k) = (sumN n fun k => R i k * R j k) * c := by
  rw [← sumN_mul_right]
  apply sumN_congr
  intro l _
  rw [hR, hR, ← hs]; ring

mutual
  theorem mulConst_refines (S : ScalarOps α) (hS : SqrtLaw S) (a : Op α) (c : α) (i j : Nat) :
      (mulConst S a c).denote i j = a.denote i j * c := by
    cases a with
    | diag n d => by_cases h : i = j <;> simp [mulConst, denote, h]
    | constDiag n v => by_cases h : i = j <;> simp [mulConst, denote, h]
    | identity n => by_cases h : i = j <;> simp [mulConst, denote, h]
    | kronDiag x y => by_cases h : i = j <;> simp [mulConst, denote, diagOf, h]
    | tri up t => simpa [mulConst, denote] using mulConst_refines S hS t c i j
    | root r =>
      simp only [mulConst]; split_ifs with hp
      · simp only [denote, (shape_mulConst S r (S.sqrt c)).2]
        exact root_scale _ _ _ _ _ (hS c hp) (fun i k => mulConst_refines S hS r (S.sqrt c) i k) i j
      · simp [denote, mul_comm]
    | lowRankRoot r =>
      simp only [mulConst]; split_ifs with hp
      · simp only [denote, (shape_mulConst S r (S.sqrt c)).2]
        exact root_scale _ _ _ _ _ (hS c hp) (fun i k => mulConst_refines S hS r (S.sqrt c) i k) i j
      · simp [denote, mul_comm]
    | chol r =>
      simp only [mulConst]; split_ifs with hp
      · simp only [denote, (shape_mulConst S r (S.sqrt c)).2]
        exact root_scale _ _ _ _ _ (hS c hp) (fun i k => mulConst_refines S hS r (S.sqrt c) i k) i j
      · simp [denote, mul_comm]
    | cholU r =>
      simp only [mulConst]; split_ifs with hp
      · simp only [denote, (shape_mulConst S r (S.sqrt c)).1]
        exact root_scale _ (fun i k => r.denote k i) (fun i k => (mulConst S r (S.sqrt c)).denote k i) _ _ (hS c hp)
          (fun i k => mulConst_refines S hS r (S.sqrt c) k i) i j
      · simp [denote, mul_comm]
    | mul a b =>
      simp only [mulConst]; split_ifs
      · rw [mkMul_refines, mulConst_refines S hS a c]; simp only [denote]; ring
      · simp [denote, mul_comm]
    | sum l => simpa [mulConst, denote] using mulConstL_refines S hS l c i j
    | psdSum l => simpa [mulConst, denote] using mulConstL_refines S hS l c i j
    | sumKron a b =>
      simp only [mulConst, denote, denoteL, mulConst_refines S hS a c, mulConst_refines S hS b c]; ring
    | addedDiag a d =>
      simp only [mulConst, denote, mulConst_refines S hS a c, mulConst_refines S hS d c]; ring
    | kronAddedDiag a d =>
      simp only [mulConst, denote, mulConst_refines S hS a c, mulConst_refines S hS d c]; ring
    | lrrAddedDiag a d =>
      simp only [mulConst]; split_ifs <;>
        (simp only [denote, mulConst_refines S hS a c, mulConst_refines S hS d c]; ring)
    | _ => simp [mulConst, denote, mul_comm]
  theorem mulConstL_refines (S : ScalarOps α) (hS : SqrtLaw S) (l : List (Op α)) (c : α) (i j : Nat) :
      denoteL (mulConstL S l c) i j = denoteL l i j * c := by
    cases l with
    | nil => simp [mulConstL, denoteL]
    | cons a l =>
      simp only [mulConstL, denoteL, mulConst_refines S hS a c, mulConstL_refines S hS l c]; ring
end

theorem mulScalar_refines (S : ScalarOps α) (hS : SqrtLaw S) (a : Op α) (c : α) (i j : Nat) :
    (mulScalar S a c).denote i j = a.denote i j * c := by
  unfold mulScalar; split
  · simp [denote]
  · exact mulConst_refines S hS _ c i j

theorem shape_mulScalar (S : ScalarOps α) (a : Op α) (c : α) :
    (mulScalar S a c).rows = a.rows ∧ (mulScalar S a c).cols = a.cols := by
  unfold mulScalar; split
  · simp
  · exact shape_mulConst S _ c

theorem divScalar_refines (S : ScalarOps α) (hS : SqrtLaw S) (a : Op α) (cinv : α) (i j : Nat) :
    (divScalar S a cinv).denote i j = a.denote i j * cinv := by
  unfold divScalar; split
  · simp [denote]
  · exact mulScalar_refines S hS _ cinv i j

theorem sub_refines (S : ScalarOps α) (hS : SqrtLaw S) (a b r : Op α) (h : sub S a b = .ok r) (i j : Nat)
    (hi : i < a.rows) :
    r.denote i j = a.denote i j + b.denote i j * (-1) := by
  unfold sub at h
  rw [add_refines _ _ _ h i j hi, mulScalar_refines S hS]

end LinOp.C02
