import LinOp.C02.Proofs2
/-! C02 helper lemmas, part 3: transpose, elementwise product. -/
namespace LinOp.C02
open Op
variable {α : Type} [CommRing α]
set_option linter.unusedTactic false
set_option linter.unusedSimpArgs false
set_option linter.unusedSectionVars false

/-! ### elementwise product of two operators -/

theorem mulMatrix_refines (rootDec : Op α → Op α) (hroot : ∀ x i j, (rootDec x).denote i j = x.denote i j)
    (a b r : Op α) (h : mulMatrix rootDec a b = .ok r) (i j : Nat) :
    r.denote i j = a.denote i j * b.denote i j := by
  unfold mulMatrix at h
  split at h
  · cases h; simp [denote]
  · split_ifs at h with hz ht h1 h2 h3 h4
    · cases h; cases b <;> simp [isZero] at hz; simp [denote]
    · cases h; simp [denote]
    · cases h
      simp only [Bool.and_eq_true] at h1
      rw [denote_of_isDiag _ (isDiag_of_isConstDiag _ h1.1), denote_of_isDiag _ (isDiag_of_isConstDiag _ h1.2),
        diagOf_constDiag _ h1.1 i, diagOf_constDiag _ h1.2 i]
      by_cases hij : i = j <;> simp [denote, hij]
    · cases h
      rw [denote_of_isDiag _ h3]
      by_cases hij : i = j <;> simp [denote, hij]
    · cases h; simp [denote]
    all_goals (cases h; rw [mkMul_refines]; first | done | simp [hroot])

end LinOp.C02
