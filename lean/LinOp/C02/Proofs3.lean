import LinOp.C02.Proofs2
/-! C02 helper lemmas, part 3: transpose, elementwise product. -/
namespace LinOp.C02
open Op
variable {α : Type} [CommRing α]
set_option linter.unusedTactic false
set_option linter.unusedSimpArgs false
set_option linter.unusedSectionVars false

mutual
  theorem shape_transpose (a : Op α) :
      (transposeOp a).rows = a.cols ∧ (transposeOp a).cols = a.rows := by
    cases a with
    | tri up t => simpa [transposeOp, rows, cols] using shape_transpose t
    | kron a b =>
      have ha := shape_transpose a; have hb := shape_transpose b
      simp [transposeOp, rows, cols, ha, hb]
    | kronTri a b =>
      have ha := shape_transpose a; have hb := shape_transpose b
      simp [transposeOp, rows, cols, ha, hb]
    | addedDiag a d => simpa [transposeOp, rows, cols] using shape_transpose a
    | kronAddedDiag a d => simpa [transposeOp, rows, cols] using shape_transpose a
    | lrrAddedDiag a d => simpa [transposeOp, rows, cols] using shape_transpose a
    | sum l => simpa [transposeOp, rows, cols] using shapeL_transpose l
    | psdSum l => simpa [transposeOp, rows, cols] using shapeL_transpose l
    | sumKron a b => simpa [transposeOp, rows, cols] using shape_transpose a
    | matmul a b =>
      have ha := shape_transpose a; have hb := shape_transpose b
      simp [transposeOp, rows, cols, ha, hb]
    | mul a b =>
      have ha := shape_transpose a; have hb := shape_transpose b
      simp [transposeOp, rows, cols, ha, hb]
    | constMul a c => simpa [transposeOp, rows, cols] using shape_transpose a
    | _ => simp [transposeOp, rows, cols]
  theorem shapeL_transpose (l : List (Op α)) :
      rowsL (transposeL l) = colsL l ∧ colsL (transposeL l) = rowsL l := by
    cases l with
    | nil => simp [transposeL, rowsL, colsL]
    | cons a l => simpa [transposeL, rowsL, colsL] using shape_transpose a
end

theorem toep_sym (i j : Nat) : (if j ≤ i then i - j else j - i) = (if i ≤ j then j - i else i - j) := by
  split_ifs <;> omega

mutual
  theorem transpose_refines (a : Op α) (i j : Nat) : (transposeOp a).denote i j = a.denote j i := by
    cases a with
    | dense n m t => simp [transposeOp, denote]
    | opq c n m t => simp [transposeOp, denote]
    | zero n m => simp [transposeOp, denote]
    | diag n d => by_cases h : i = j <;> simp [transposeOp, denote, h, eq_comm]
    | constDiag n c => by_cases h : i = j <;> simp [transposeOp, denote, h, eq_comm]
    | identity n => by_cases h : i = j <;> simp [transposeOp, denote, h, eq_comm]
    | kronDiag x y => by_cases h : i = j <;> simp [transposeOp, denote, h, eq_comm]
    | toep n col => simp only [transposeOp, denote]; rw [toep_sym]
    | tri up t => simpa [transposeOp, denote] using transpose_refines t i j
    | root r => simp only [transposeOp, denote]; exact sumN_congr _ _ _ (fun l _ => mul_comm _ _)
    | lowRankRoot r => simp only [transposeOp, denote]; exact sumN_congr _ _ _ (fun l _ => mul_comm _ _)
    | chol r => simp only [transposeOp, denote]; exact sumN_congr _ _ _ (fun l _ => mul_comm _ _)
    | cholU r => simp only [transposeOp, denote]; exact sumN_congr _ _ _ (fun l _ => mul_comm _ _)
    | kron a b =>
      have hb := shape_transpose b
      simp only [transposeOp, denote, hb.1, hb.2, transpose_refines a, transpose_refines b]
    | kronTri a b =>
      have hb := shape_transpose b
      simp only [transposeOp, denote, hb.1, hb.2, transpose_refines a, transpose_refines b]
    | addedDiag a d => simp only [transposeOp, denote, transpose_refines a, transpose_refines d]
    | kronAddedDiag a d => simp only [transposeOp, denote, transpose_refines a, transpose_refines d]
    | lrrAddedDiag a d => simp only [transposeOp, denote, transpose_refines a, transpose_refines d]
    | sumKron a b => simp only [transposeOp, denote, transpose_refines a, transpose_refines b]
    | sum l => simpa [transposeOp, denote] using transposeL_refines l i j
    | psdSum l => simpa [transposeOp, denote] using transposeL_refines l i j
    | matmul a b =>
      have ha := shape_transpose a; have hb := shape_transpose b
      simp only [transposeOp, denote, ha.1, hb.2, Nat.min_comm b.rows a.cols]
      exact sumN_congr _ _ _ (fun l _ => by rw [transpose_refines b, transpose_refines a, mul_comm])
    | mul a b => simp only [transposeOp, denote, transpose_refines a, transpose_refines b]
    | constMul a c => simp only [transposeOp, denote, transpose_refines a]
  theorem transposeL_refines (l : List (Op α)) (i j : Nat) : denoteL (transposeL l) i j = denoteL l j i := by
    cases l with
    | nil => simp [transposeL, denoteL]
    | cons a l => simp only [transposeL, denoteL, transpose_refines a, transposeL_refines l]
end

/-! ### elementwise product of two operators -/

theorem mulMatrix_refines (rootDec : Op α → Op α) (hroot : ∀ x i j, (rootDec x).denote i j = x.denote i j)
    (a b r : Op α) (h : mulMatrix rootDec a b = .ok r) (i j : Nat) :
    r.denote i j = a.denote i j * b.denote i j := by
  unfold mulMatrix at h
  split at h
  · cases h; simp [denote]
  · split_ifs at h with hz h1 h2 h3 h4
    · cases h; cases b <;> simp [isZero] at hz; simp [denote]
    · cases h
      simp only [Bool.and_eq_true] at h1
      rw [denote_of_isDiag _ (isDiag_of_isConstDiag _ h1.1), denote_of_isDiag _ (isDiag_of_isConstDiag _ h1.2),
        diagOf_constDiag _ h1.1 i, diagOf_constDiag _ h1.2 i]
      by_cases hij : i = j <;> simp [denote, hij]
    · cases h
      rw [denote_of_isDiag _ h3]
      by_cases hij : i = j <;> simp [denote, hij]
    · cases h; simp [denote]
    all_goals (cases h; rw [mkMul_refines]; first | done | simp [hroot])

end LinOp.C02
