import LinOp.Core.Basic
import LinOp.Core.Parse
import LinOp.C02.Batch
import LinOp.C02.BProg
/-! Line-protocol driver for the batched layer of C02 (LinOp/C02/Batch.lean) over `Rat`.
One line = one batched expression in prefix form; output
`ok <class tree with batch shapes> <batch shape> <rows> <cols> <values of every batch element, row-major>`,
`err <kind>`, `notuniform` (a tree whose tensors do not share the batch shape) or `bad-line`.
A second kind of line, `mulkind <self batch shape> <tensor shape>`, answers with the branch `LinearOperator.mul` takes. -/
open LinOp LinOp.Parse LinOp.C02 LinOp.C02.BOp

abbrev Q := Rat
abbrev P (β : Type) := List String → Option (β × List String)

def pNat : P Nat | t :: r => t.toNat?.map (·, r) | [] => none
def pInt : P Int | t :: r => t.toInt?.map (·, r) | [] => none
def pShape : P Shape | t :: r => (parseNats? t).map (·, r) | [] => none
def pInts : P (List Int) | t :: r => (parseInts? t).map (·, r) | [] => none
def pFlat : P (Array Q) | t :: r => (parseRats? t).map fun v => (v.toArray, r) | [] => none

/-- row-major linear index of a batch multi-index. -/
def lin : Shape → BIdx → Nat
  | _ :: s, i :: idx => i * s.foldl (· * ·) 1 + lin s idx
  | _, _ => 0

def getQ (a : Array Q) (k : Nat) : Q := a[k]?.getD 0

mutual
  partial def pOp : P (BOp Q)
    | "D" :: r => do
        let (bs, r) ← pShape r; let (n, r) ← pNat r; let (m, r) ← pNat r; let (v, r) ← pFlat r
        pure (.dense bs n m fun idx i j => getQ v (lin bs idx * (n * m) + i * m + j), r)
    | "G" :: r => do
        let (bs, r) ← pShape r; let (n, r) ← pNat r; let (v, r) ← pFlat r
        pure (.diag bs n fun idx i => getQ v (lin bs idx * n + i), r)
    | "C" :: r => do
        let (bs, r) ← pShape r; let (n, r) ← pNat r; let (v, r) ← pFlat r
        pure (.constDiag bs n fun idx => getQ v (lin bs idx), r)
    | "I" :: r => do let (bs, r) ← pShape r; let (n, r) ← pNat r; pure (.identity bs n, r)
    | "Z" :: r => do let (bs, r) ← pShape r; let (n, r) ← pNat r; let (m, r) ← pNat r; pure (.zero bs n m, r)
    | "P" :: r => do
        let (bs, r) ← pShape r; let (n, r) ← pNat r; let (v, r) ← pFlat r
        pure (.toep bs n fun idx i => getQ v (lin bs idx * n + i), r)
    | "T" :: r => do let (u, r) ← pNat r; let (t, r) ← pOp r; pure (.tri (u == 1) t, r)
    | "R" :: r => do let (t, r) ← pOp r; pure (.root t, r)
    | "S" :: r => do let (k, r) ← pNat r; let (l, r) ← pOps k r; pure (.sum l, r)
    | "MM" :: r => do let (a, r) ← pOp r; let (b, r) ← pOp r; pure (.matmul a b, r)
    | "CM" :: r => do
        let (cbs, r) ← pShape r; let (v, r) ← pFlat r; let (a, r) ← pOp r
        pure (.constMul a cbs fun idx => getQ v (lin cbs idx), r)
    | _ => none
  partial def pOps : Nat → P (List (BOp Q))
    | 0, r => some ([], r)
    | k + 1, r => do let (a, r) ← pOp r; let (l, r) ← pOps k r; pure (a :: l, r)
end

inductive Res where
  | ok (o : BOp Q)
  | err (e : Err)
  | notUniform

def Res.bind (x : Res) (f : BOp Q → Res) : Res :=
  match x with
  | .ok o => f o
  | e => e

def chk (x : Except Err (BOp Q)) : Res :=
  match x with
  | .ok o => if o.uniform o.bshape then .ok o else .notUniform
  | .error e => .err e

/-- expression evaluator: every step goes through the model's functions. -/
partial def pExpr : P Res
  | "leaf" :: r => do let (o, r) ← pOp r; pure (chk (.ok o), r)
  | "unsq" :: r => do let (d, r) ← pInt r; let (x, r) ← pExpr r; pure (x.bind fun o => chk (unsqueeze d o), r)
  | "perm" :: r => do let (ds, r) ← pInts r; let (x, r) ← pExpr r; pure (x.bind fun o => chk (permute ds o), r)
  | "sum" :: r => do let (d, r) ← pInt r; let (x, r) ← pExpr r; pure (x.bind fun o => chk (sumFront d o), r)
  | "prod" :: r => do let (d, r) ← pInt r; let (x, r) ← pExpr r; pure (x.bind fun o => chk (prodFront d o), r)
  | "expand" :: r => do let (ds, r) ← pInts r; let (x, r) ← pExpr r; pure (x.bind fun o => chk (expand ds o), r)
  | "_expand" :: r => do
      let (S, r) ← pShape r; let (x, r) ← pExpr r
      pure (x.bind fun o => chk (Rewrite.apply (.expand S) o), r)
  | "@" :: r => do
      let (x, r) ← pExpr r; let (y, r) ← pExpr r
      pure (x.bind fun a => y.bind fun b => if a.cols = b.rows then chk (mkMatmul a b) else .err .shape, r)
  | "+" :: r => do
      let (x, r) ← pExpr r; let (y, r) ← pExpr r
      pure (x.bind fun a => y.bind fun b => chk (mkSum2 a b), r)
  | "addz" :: r => do
      let (zbs, r) ← pShape r; let (x, r) ← pExpr r
      pure (x.bind fun a => chk (addZeroRight a zbs), r)
  | "mulz" :: r => do
      let (zbs, r) ← pShape r; let (x, r) ← pExpr r
      pure (x.bind fun a => chk (mulZeroRight a zbs), r)
  | "*c" :: r => do
      let (cbs, r) ← pShape r; let (v, r) ← pFlat r; let (x, r) ← pExpr r
      pure (x.bind fun a =>
        match mulConstB cbs (fun idx => getQ v (lin cbs idx)) a with
        | some o => chk (.ok o)
        | none => .err .notSupported, r)
  | _ => none

/-- programs of `BProg` (LinOp/C02/BProg.lean), run by `beval` — the function `beval_refines` is about:
`L <op>` leaf, `RE <shape> p` `_expand_batch`, `RP <dims> p` `_permute_batch`, `RU d p` `_unsqueeze_batch`, `RS d p` `_sum_batch`,
`RX d p` `_prod_batch`, `A p q` `SumLinearOperator(p, q)`, `M p q` `MatmulLinearOperator(p, q)`. -/
partial def pProg : P (BProg Q)
  | "L" :: r => do let (o, r) ← pOp r; pure (.leaf o, r)
  | "RE" :: r => do let (S, r) ← pShape r; let (p, r) ← pProg r; pure (.rw (.expand S) p, r)
  | "RP" :: r => do let (ds, r) ← pShape r; let (p, r) ← pProg r; pure (.rw (.permute ds) p, r)
  | "RU" :: r => do let (d, r) ← pNat r; let (p, r) ← pProg r; pure (.rw (.unsqueeze d) p, r)
  | "RS" :: r => do let (d, r) ← pNat r; let (p, r) ← pProg r; pure (.rw (.sum d) p, r)
  | "RX" :: r => do let (d, r) ← pNat r; let (p, r) ← pProg r; pure (.rw (.prod d) p, r)
  | "A" :: r => do let (p, r) ← pProg r; let (q, r) ← pProg r; pure (.add p q, r)
  | "M" :: r => do let (p, r) ← pProg r; let (q, r) ← pProg r; pure (.matmul p q, r)
  | _ => none

/-- all multi-indices of a batch shape, row-major. -/
def allIdx : Shape → List BIdx
  | [] => [[]]
  | sz :: s => (List.range sz).flatMap fun i => (allIdx s).map (i :: ·)

def showVals (o : BOp Q) : String :=
  let n := o.rows; let m := o.cols
  let vals := (allIdx o.bshape).flatMap fun idx =>
    let f := tab (n := n) (m := m) fun i j => o.denote idx i.1 j.1
    (List.finRange n).flatMap fun i => (List.finRange m).map fun j => f i j
  showList showRat vals

def showErr : Err → String
  | .notSupported => "notSupported" | .shape => "shape"

def showKind : MulKind → String
  | .constant0d => "constant0d" | .constantBatch => "constantBatch" | .matrix => "matrix"

def stepLine (_ : Unit) (line : String) : Unit × String :=
  match words line with
  | ["mulkind", a, b] =>
    match parseNats? a, parseNats? b with
    | some bs, some osh => ((), s!"kind {showKind (mulKind bs osh)}")
    | _, _ => ((), "bad-line")
  | "prog" :: ws =>
    match pProg ws with
    | some (p, []) =>
      match beval p with
      | .ok o => ((), s!"ok {o.tree} {showList toString o.bshape} {o.rows} {o.cols} {showVals o}")
      | .error e => ((), s!"err {showErr e}")
    | _ => ((), "bad-line")
  | ws =>
    match pExpr ws with
    | some (.ok o, []) => ((), s!"ok {o.tree} {showList toString o.bshape} {o.rows} {o.cols} {showVals o}")
    | some (.err e, []) => ((), s!"err {showErr e}")
    | some (.notUniform, []) => ((), "notuniform")
    | _ => ((), "bad-line")

def main : IO Unit := do
  loop (← IO.getStdin) () stepLine
