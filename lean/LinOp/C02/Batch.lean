import LinOp.C02.Model
/-!
C02 — batched layer: batch shapes, torch broadcasting and the batch rewrites
(`_expand_batch`, `_permute_batch`, `_unsqueeze_batch`, `_sum_batch`, `_prod_batch`, the public front-ends
`expand / permute / unsqueeze / sum / prod`, the batch-matching constructors of `SumLinearOperator` and
`MatmulLinearOperator`, and `mul` with a batch of constants).  Core Lean only (the driver `DriverB.lean` runs it).

A batched tensor is a batch shape (`Shape`, left to right as in torch) and a function of the batch multi-index
(`BIdx`).  `BOp` is a deep embedding of the classes that take part in the batch rewrites with their own overrides;
every leaf carries the batch shape of ITS tensor (a `ConstantMulLinearOperator` keeps a constant whose batch shape may
differ from the operator's).  `⟦o⟧ idx` (`BOp.denote`) is the matrix at batch index `idx`.

Mirrored code (file → function):
  _linear_operator.py            _permute_batch / _unsqueeze_batch (generic: every tensor argument is permuted / unsqueezed,
                                 operator arguments recurse), expand / permute / unsqueeze / sum / prod front-ends (dim normalisation),
                                 mul (the `numel()==1` / `(1,1)` tests), matmul → MatmulLinearOperator
  dense_/diag_/toeplitz_         _expand_batch, _sum_batch, _prod_batch (tensor.expand / .sum(dim) / .prod(dim))
  diag_linear_operator.py        ConstantDiag._expand_batch/_sum_batch/_prod_batch (`diag_values` of shape (*b, 1)), _mul_constant
  identity_linear_operator.py    _expand_batch/_permute_batch/_unsqueeze_batch/_prod_batch (only `batch_shape` changes); inherited
                                 ConstantDiag._sum_batch (the result is a ConstantDiag)
  zero_linear_operator.py        _expand_batch/_unsqueeze_batch/_sum_batch/_prod_batch; the INHERITED `_permute_batch` keeps the
                                 sizes (open finding) — mirrored as it is
  triangular_/root_              _expand_batch (recursion), Triangular._sum_batch
  sum_linear_operator.py         __init__ (components expanded to the broadcast batch shape), _expand_batch, _sum_batch, _mul_constant
  matmul_linear_operator.py      __init__ (both factors expanded to the broadcast batch shape), _expand_batch, _permute_batch
  constant_mul_linear_operator.py  _expand_batch, _permute_batch, _unsqueeze_batch (constant expanded to the batch shape first)
-/
namespace LinOp.C02

abbrev Shape := List Nat
abbrev BIdx := List Nat

/-- the index at which a tensor of batch shape `s` is read inside an expression of batch rank `idx.length`
(torch broadcasting: right-aligned, size-1 dimensions are read at 0). -/
def bcast (s : Shape) (idx : BIdx) : BIdx :=
  List.zipWith (fun sz i => if sz = 1 then 0 else i) s (idx.drop (idx.length - s.length))

/-- `idx` is a valid multi-index of a tensor of batch shape `s`. -/
def inRange : Shape → BIdx → Bool
  | [], [] => true
  | sz :: s, i :: idx => decide (i < sz) && inRange s idx
  | _, _ => false

/-- `torch.broadcast_shapes` on reversed (last dimension first) shapes. -/
def bshapesRev : Shape → Shape → Option Shape
  | [], l => some l
  | l, [] => some l
  | x :: xs, y :: ys =>
    if x = y ∨ y = 1 then (bshapesRev xs ys).map (x :: ·)
    else if x = 1 then (bshapesRev xs ys).map (y :: ·)
    else none

/-- `torch.broadcast_shapes(a, b)`. -/
def bshapes (a b : Shape) : Option Shape := (bshapesRev a.reverse b.reverse).map List.reverse

/-- `t.permute(*dims)` reads the old tensor at `old[dims[k]] = idx[k]`. -/
def permIdx (dims : List Nat) (idx : BIdx) : BIdx :=
  (List.range dims.length).map fun j => idx.getD (dims.idxOf j) 0

def permShape (dims : List Nat) (s : Shape) : Shape := dims.map fun d => s.getD d 1

inductive BOp (α : Type) where
  | dense (bs : Shape) (n m : Nat) (t : BIdx → NMat α)
  | diag (bs : Shape) (n : Nat) (d : BIdx → Nat → α)
  | constDiag (bs : Shape) (n : Nat) (c : BIdx → α)        -- `diag_values` of shape (*bs, 1)
  | identity (bs : Shape) (n : Nat)
  | zero (bs : Shape) (n m : Nat)
  | toep (bs : Shape) (n : Nat) (col : BIdx → Nat → α)
  | tri (upper : Bool) (t : BOp α)
  | root (r : BOp α)
  | sum (l : List (BOp α))
  | matmul (a b : BOp α)
  | constMul (a : BOp α) (cbs : Shape) (c : BIdx → α)      -- `_constant` of batch shape `cbs`

namespace BOp
variable {α : Type}

mutual
  /-- `batch_shape` as the library computes it (`_size()` of each class). -/
  def bshape : BOp α → Shape
    | dense bs _ _ _ => bs | diag bs _ _ => bs | constDiag bs _ _ => bs | identity bs _ => bs | zero bs _ _ => bs
    | toep bs _ _ => bs | tri _ t => t.bshape | root r => r.bshape | sum l => bshapeL l
    | matmul a _ => a.bshape | constMul a _ _ => a.bshape
  def bshapeL : List (BOp α) → Shape
    | [] => []
    | a :: _ => a.bshape
end

mutual
  def rows : BOp α → Nat
    | dense _ n _ _ => n | diag _ n _ => n | constDiag _ n _ => n | identity _ n => n | zero _ n _ => n
    | toep _ n _ => n | tri _ t => t.rows | root r => r.rows | sum l => rowsL l
    | matmul a _ => a.rows | constMul a _ _ => a.rows
  def rowsL : List (BOp α) → Nat
    | [] => 0
    | a :: _ => a.rows
end

mutual
  def cols : BOp α → Nat
    | dense _ _ m _ => m | diag _ n _ => n | constDiag _ n _ => n | identity _ n => n | zero _ _ m => m
    | toep _ n _ => n | tri _ t => t.cols | root r => r.rows | sum l => colsL l
    | matmul _ b => b.cols | constMul a _ _ => a.cols
  def colsL : List (BOp α) → Nat
    | [] => 0
    | a :: _ => a.cols
end

section denote
variable [Zero α] [One α] [Add α] [Mul α]
mutual
  /-- the matrix at batch index `idx` (an index of the operator's batch shape). -/
  def denote : BOp α → BIdx → NMat α
    | dense _ _ _ t => t
    | diag _ _ d => fun idx i j => if i = j then d idx i else 0
    | constDiag _ _ c => fun idx i j => if i = j then c idx else 0
    | identity _ _ => fun _ i j => if i = j then 1 else 0
    | zero _ _ _ => fun _ _ _ => 0
    | toep _ _ col => fun idx i j => col idx (if j ≤ i then i - j else j - i)
    | tri _ t => t.denote
    | root r => fun idx i j => sumN r.cols fun k => r.denote idx i k * r.denote idx j k
    | sum l => denoteL l
    | matmul a b => fun idx i j => sumN a.cols fun k => a.denote idx i k * b.denote idx k j
    | constMul a cbs c => fun idx i j => c (bcast cbs idx) * a.denote idx i j
  def denoteL : List (BOp α) → BIdx → NMat α
    | [] => fun _ _ _ => 0
    | a :: l => fun idx i j => a.denote idx i j + denoteL l idx i j
end
end denote

mutual
  /-- every tensor inside `o` has batch shape `S` (what the batch-matching constructors establish); the constant of a
  ConstantMul is either a full batch of constants or a 0-d constant. -/
  def uniform (S : Shape) : BOp α → Bool
    | dense bs _ _ _ => bs == S | diag bs _ _ => bs == S | constDiag bs _ _ => bs == S | identity bs _ => bs == S
    | zero bs _ _ => bs == S | toep bs _ _ => bs == S
    | tri _ t => t.uniform S | root r => r.uniform S | sum l => !l.isEmpty && uniformL S l
    | matmul a b => a.uniform S && b.uniform S
    | constMul a cbs _ => (cbs == S || cbs == []) && a.uniform S
  def uniformL (S : Shape) : List (BOp α) → Bool
    | [] => true
    | a :: l => a.uniform S && uniformL S l
end

/-! ### index rewrites: `_permute_batch`, `_unsqueeze_batch` (one generic recursion over the arguments) -/

mutual
  /-- the base-class recursion of `_permute_batch` / `_unsqueeze_batch`: every tensor argument is re-indexed (`f ∘ φ`,
  shape `σ s`), operator arguments recurse, `self.__class__(*components)`.  `IdentityLinearOperator` and
  `ZeroLinearOperator._unsqueeze_batch` only change their stored batch shape — the same result in this embedding.
  `ConstantMulLinearOperator` overrides both: its constant is first expanded to the operator's batch shape. -/
  def reindex (φ : BIdx → BIdx) (σ : Shape → Shape) : BOp α → BOp α
    | dense bs n m t => dense (σ bs) n m fun idx => t (φ idx)
    | diag bs n d => diag (σ bs) n fun idx => d (φ idx)
    | constDiag bs n c => constDiag (σ bs) n fun idx => c (φ idx)
    | identity bs n => identity (σ bs) n
    | zero bs n m => zero (σ bs) n m
    | toep bs n col => toep (σ bs) n fun idx => col (φ idx)
    | tri up t => tri up (reindex φ σ t)
    | root r => root (reindex φ σ r)
    | sum l => sum (reindexL φ σ l)
    | matmul a b => matmul (reindex φ σ a) (reindex φ σ b)
    | constMul a cbs c => constMul (reindex φ σ a) (σ a.bshape) fun idx => c (bcast cbs (φ idx))
  def reindexL (φ : BIdx → BIdx) (σ : Shape → Shape) : List (BOp α) → List (BOp α)
    | [] => []
    | a :: l => reindex φ σ a :: reindexL φ σ l
end

/-- `_unsqueeze_batch(dim)` (positive `dim`). -/
def unsqueezeBatch (d : Nat) (o : BOp α) : BOp α :=
  reindex (fun idx => idx.eraseIdx d) (fun s => s.insertIdx d 1) o

mutual
  /-- `_permute_batch(*dims)`.  ZeroLinearOperator INHERITS the generic method: its arguments are its sizes (ints), so the
  rebuilt operator keeps the unpermuted sizes (open finding; value still zero, shape wrong). -/
  def permuteBatch (dims : List Nat) : BOp α → BOp α
    | zero bs n m => zero bs n m
    | tri up t => tri up (permuteBatch dims t)
    | root r => root (permuteBatch dims r)
    | sum l => sum (permuteBatchL dims l)
    | matmul a b => matmul (permuteBatch dims a) (permuteBatch dims b)
    | constMul a cbs c =>
      constMul (permuteBatch dims a) (permShape dims a.bshape) fun idx => c (bcast cbs (permIdx dims idx))
    | o => reindex (permIdx dims) (permShape dims) o
  def permuteBatchL (dims : List Nat) : List (BOp α) → List (BOp α)
    | [] => []
    | a :: l => permuteBatch dims a :: permuteBatchL dims l
end

mutual
  def hasZero : BOp α → Bool
    | zero .. => true
    | tri _ t => t.hasZero | root r => r.hasZero | sum l => hasZeroL l
    | matmul a b => a.hasZero || b.hasZero | constMul a _ _ => a.hasZero
    | _ => false
  def hasZeroL : List (BOp α) → Bool
    | [] => false
    | a :: l => a.hasZero || hasZeroL l
end

/-! ### `_expand_batch` -/
mutual
  /-- `_expand_batch(S)`: Dense / Diag / ConstantDiag / Toeplitz expand their tensor, Identity / Zero are rebuilt with the
  new batch shape, Triangular / Root / Sum / Matmul / ConstantMul recurse (ConstantMul also expands its constant). -/
  def expandBatch (S : Shape) : BOp α → BOp α
    | dense bs n m t => dense S n m fun idx => t (bcast bs idx)
    | diag bs n d => diag S n fun idx => d (bcast bs idx)
    | constDiag bs n c => constDiag S n fun idx => c (bcast bs idx)
    | identity _ n => identity S n
    | zero _ n m => zero S n m
    | toep bs n col => toep S n fun idx => col (bcast bs idx)
    | tri up t => tri up (expandBatch S t)
    | root r => root (expandBatch S r)
    | sum l => sum (expandBatchL S l)
    | matmul a b => matmul (expandBatch S a) (expandBatch S b)
    | constMul a cbs c => constMul (expandBatch S a) S fun idx => c (bcast cbs idx)
  def expandBatchL (S : Shape) : List (BOp α) → List (BOp α)
    | [] => []
    | a :: l => expandBatch S a :: expandBatchL S l
end

/-- `lt._expand_batch(batch_shape) if lt.batch_shape != batch_shape else lt` -/
def matchBatch (S : Shape) (o : BOp α) : BOp α := if o.bshape = S then o else expandBatch S o

/-- `MatmulLinearOperator.__init__`: both factors are expanded to the broadcast batch shape. -/
def mkMatmul (a b : BOp α) : Except Err (BOp α) :=
  match bshapes a.bshape b.bshape with
  | some S => .ok (matmul (matchBatch S a) (matchBatch S b))
  | none => .error .shape

/-- `SumLinearOperator(a, b)` (`__init__` expands the components to the broadcast batch shape). -/
def mkSum2 (a b : BOp α) : Except Err (BOp α) :=
  match bshapes a.bshape b.bshape with
  | some S => .ok (sum [matchBatch S a, matchBatch S b])
  | none => .error .shape

/-- `a + Zero(zbs…)` since d734ac2: `LinearOperator.__add__` / `SumLinearOperator.__add__` answer a ZeroLinearOperator operand with
`other + self`, i.e. `ZeroLinearOperator.__add__`: `a` itself when it already has the broadcast shape, `a.expand(*shape)`
(→ `_expand_batch`) otherwise; incompatible batch shapes raise. -/
def addZeroRight (a : BOp α) (zbs : Shape) : Except Err (BOp α) :=
  match bshapes a.bshape zbs with
  | some S => .ok (matchBatch S a)
  | none => .error .shape

/-- `a * Zero(zbs…)` since d734ac2: `other.mul(self)` = a ZeroLinearOperator of the broadcast shape. -/
def mulZeroRight (a : BOp α) (zbs : Shape) : Except Err (BOp α) :=
  match bshapes a.bshape zbs with
  | some S => .ok (zero S a.rows a.cols)
  | none => .error .shape

/-- the code BEFORE d734ac2 (`return self` / `return other`), kept only for the `old_code_*` statements. -/
def oldAddZeroRight (a : BOp α) (_zbs : Shape) : BOp α := a
def oldMulZeroRight (_a : BOp α) (zbs : Shape) (n m : Nat) : BOp α := zero zbs n m

/-! ### `_sum_batch`, `_prod_batch` (classes with a structural override) -/
section reduce
variable [Zero α] [One α] [Add α] [Mul α]

/-- `∏_{k<n} f k`. -/
def prodN : Nat → (Nat → α) → α
  | 0, _ => 1
  | k + 1, f => prodN k f * f k

mutual
  /-- `_sum_batch(d)`: Dense / Diag / ConstantDiag sum their tensor over `d`, Identity (inherits ConstantDiag's) becomes a
  ConstantDiag of the count, Zero drops the dim, Triangular and Sum recurse.  Every other class answers with a
  SumBatchLinearOperator (not in this embedding: `none`). -/
  def sumBatch (d : Nat) : BOp α → Option (BOp α)
    | dense bs n m t => some (dense (bs.eraseIdx d) n m fun idx i j => sumN (bs.getD d 0) fun k => t (idx.insertIdx d k) i j)
    | diag bs n v => some (diag (bs.eraseIdx d) n fun idx i => sumN (bs.getD d 0) fun k => v (idx.insertIdx d k) i)
    | constDiag bs n c => some (constDiag (bs.eraseIdx d) n fun idx => sumN (bs.getD d 0) fun k => c (idx.insertIdx d k))
    | identity bs n => some (constDiag (bs.eraseIdx d) n fun _ => sumN (bs.getD d 0) fun _ => 1)
    | zero bs n m => some (zero (bs.eraseIdx d) n m)
    | tri up t => (sumBatch d t).map (tri up)
    | sum l => (sumBatchL d l).map sum
    | _ => none
  def sumBatchL (d : Nat) : List (BOp α) → Option (List (BOp α))
    | [] => some []
    | a :: l => do let a' ← sumBatch d a; let l' ← sumBatchL d l; pure (a' :: l')
end

/-- `_prod_batch(d)` for the classes that override it (the base class goes through root decompositions: numerical). -/
def prodBatch (d : Nat) : BOp α → Option (BOp α)
  | dense bs n m t => some (dense (bs.eraseIdx d) n m fun idx i j => prodN (bs.getD d 0) fun k => t (idx.insertIdx d k) i j)
  | diag bs n v => some (diag (bs.eraseIdx d) n fun idx i => prodN (bs.getD d 0) fun k => v (idx.insertIdx d k) i)
  | constDiag bs n c => some (constDiag (bs.eraseIdx d) n fun idx => prodN (bs.getD d 0) fun k => c (idx.insertIdx d k))
  | identity bs n => some (identity (bs.eraseIdx d) n)
  | zero bs n m => some (zero (bs.eraseIdx d) n m)
  | _ => none

/-! ### `mul` with a tensor: the front-end tests, `_mul_constant` with a batch of constants -/

inductive MulKind | constant0d | constantBatch | matrix
  deriving DecidableEq, Repr

def numel (s : List Nat) : Nat := s.foldl (· * ·) 1

/-- `LinearOperator.mul(other)` for a tensor `other` of (full) shape `osh`, `self` of batch shape `bs`:
`numel() == 1` → `_mul_constant(other.squeeze())`; `other.shape[-2:] == (1, 1)` and `self.batch_shape ==
broadcast_shape[:-2]` → `_mul_constant(other.view(*other.shape[:-2]))`; otherwise `_mul_matrix`. -/
def mulKind (bs : Shape) (osh : List Nat) : MulKind :=
  if numel osh = 1 then .constant0d
  else if osh.length ≥ 2 ∧ osh.drop (osh.length - 2) = [1, 1] ∧ bshapes bs (osh.take (osh.length - 2)) = some bs then .constantBatch
  else .matrix

mutual
  /-- `_mul_constant(c)` for a batch of constants `c` of batch shape `cbs`: Diag / ConstantDiag / Identity multiply their
  diagonal (`_diag * other.unsqueeze(-1)`, torch broadcasting), Triangular and Sum recurse, Zero (`ZeroLinearOperator.mul`) stays
  Zero, Dense / Toeplitz / Matmul / ConstantMul are wrapped in a ConstantMulLinearOperator.  (Root: `(c > 0).all()` folding is
  in the unbatched model.) -/
  def mulConstB (cbs : Shape) (c : BIdx → α) : BOp α → Option (BOp α)
    | diag bs n v => (bshapes bs cbs).map fun S => diag S n fun idx i => v (bcast bs idx) i * c (bcast cbs idx)
    | constDiag bs n v => (bshapes bs cbs).map fun S => constDiag S n fun idx => v (bcast bs idx) * c (bcast cbs idx)
    | identity bs n => (bshapes bs cbs).map fun S => constDiag S n fun idx => 1 * c (bcast cbs idx)
    | zero bs n m => (bshapes bs cbs).map fun S => zero S n m
    | tri up t => (mulConstB cbs c t).map (tri up)
    | sum l => (mulConstBL cbs c l).map sum
    | root _ => none
    | o => some (constMul o cbs c)
  def mulConstBL (cbs : Shape) (c : BIdx → α) : List (BOp α) → Option (List (BOp α))
    | [] => some []
    | a :: l => do let a' ← mulConstB cbs c a; let l' ← mulConstBL cbs c l; pure (a' :: l')
end
end reduce

/-! ### public front-ends: dimension normalisation -/

/-- `unsqueeze(dim)`: `positive_dim = dim() + dim + 1 if dim < 0 else dim`, must not exceed the number of batch dims. -/
def unsqueeze (d : Int) (o : BOp α) : Except Err (BOp α) :=
  let r := o.bshape.length
  let p : Int := if d < 0 then (r + 2 : Nat) + d + 1 else d
  if p < 0 ∨ p > r then .error .notSupported else .ok (unsqueezeBatch p.toNat o)

/-- `permute(*dims)`: negative dims are normalised, the last two must stay the matrix dims. -/
def permute (dims : List Int) (o : BOp α) : Except Err (BOp α) :=
  let r := o.bshape.length
  let nd : Nat := r + 2
  let ds := dims.map fun (d : Int) => (if d < 0 then d + (nd : Int) else d).toNat
  if ds.length ≠ nd then .error .shape
  else if ds.drop r ≠ [r, r + 1] then .error .notSupported
  else .ok (permuteBatch (ds.take r) o)

section
variable [Zero α] [One α] [Add α] [Mul α]
/-- `sum(dim)` over a batch dimension (`dim < 0` → `dim() + dim`). -/
def sumFront (d : Int) (o : BOp α) : Except Err (BOp α) :=
  let r := o.bshape.length
  let p : Int := if d < 0 then (r + 2 : Nat) + d else d
  if p < 0 ∨ p ≥ r then .error .notSupported
  else match sumBatch p.toNat o with
    | some x => .ok x
    | none => .error .notSupported

/-- `prod(dim)`: batch dimensions only. -/
def prodFront (d : Int) (o : BOp α) : Except Err (BOp α) :=
  let r := o.bshape.length
  let p : Int := if d < 0 then (r + 2 : Nat) + d else d
  if p < 0 ∨ p ≥ r then .error .notSupported
  else match prodBatch p.toNat o with
    | some x => .ok x
    | none => .error .notSupported
end

/-- `expand(*sizes)` (`-1` keeps a size; the last two sizes must be the matrix shape or `(-1, -1)`): the new batch shape must be a valid `Tensor.expand`
target (no fewer dims, existing dims kept unless they have size 1). -/
def expand (allSizes : List Int) (o : BOp α) : Except Err (BOp α) :=
  let bs := o.bshape
  let msz := allSizes.drop (allSizes.length - 2)
  if allSizes.length < 2 ∨ (msz ≠ [(o.rows : Int), (o.cols : Int)] ∧ msz ≠ [-1, -1]) then .error .notSupported else
  let sizes := allSizes.take (allSizes.length - 2)
  if sizes.length < bs.length then .error .notSupported else
  let k := sizes.length - bs.length
  let lead := sizes.take k
  let rest := sizes.drop k
  if lead.any (· < 0) then .error .notSupported
  else if (List.zipWith (fun (new : Int) (old : Nat) => new != -1 && (new < 0 || (new != old && old != 1))) rest bs).any id then
    .error .notSupported
  else
    let S := lead.map Int.toNat ++ List.zipWith (fun (new : Int) (old : Nat) => if new = -1 then old else new.toNat) rest bs
    .ok (expandBatch S o)   -- (no shortcut: `expand` always calls `_expand_batch`)

/-! ### rewrites as data -/

inductive Rewrite where
  | expand (S : Shape)
  | permute (dims : List Nat)
  | unsqueeze (d : Nat)
  | sum (d : Nat)
  | prod (d : Nat)

section
variable [Zero α] [One α] [Add α] [Mul α]

def Rewrite.apply : Rewrite → BOp α → Except Err (BOp α)
  | .expand S, o => .ok (expandBatch S o)
  | .permute dims, o => .ok (permuteBatch dims o)
  | .unsqueeze d, o => .ok (unsqueezeBatch d o)
  | .sum d, o => match sumBatch d o with | some x => .ok x | none => .error .notSupported
  | .prod d, o => match prodBatch d o with | some x => .ok x | none => .error .notSupported

/-- the batch shape torch gives the rewritten dense tensor. -/
def Rewrite.shape : Rewrite → Shape → Shape
  | .expand S, _ => S
  | .permute dims, s => permShape dims s
  | .unsqueeze d, s => s.insertIdx d 1
  | .sum d, s => s.eraseIdx d
  | .prod d, s => s.eraseIdx d

/-- the torch rewrite of a dense batched tensor `v` of batch shape `s`. -/
def Rewrite.spec : Rewrite → Shape → (BIdx → NMat α) → BIdx → NMat α
  | .expand _, s, v => fun idx => v (bcast s idx)
  | .permute dims, _, v => fun idx => v (permIdx dims idx)
  | .unsqueeze d, _, v => fun idx => v (idx.eraseIdx d)
  | .sum d, s, v => fun idx i j => sumN (s.getD d 0) fun k => v (idx.insertIdx d k) i j
  | .prod d, s, v => fun idx i j => prodN (s.getD d 0) fun k => v (idx.insertIdx d k) i j

/-- side conditions under which the rewrite is in the grammar: a product over an empty dimension is excluded (torch gives the
all-ones matrix, a diagonal class cannot), `unsqueeze` inside the batch dims, permutations of the batch dims of a tree that
contains no ZeroLinearOperator (open finding). -/
def Rewrite.okFor : Rewrite → BOp α → Bool
  | .expand _, _ => true
  | .permute dims, o => !o.hasZero && dims.length == o.bshape.length
  | .unsqueeze d, o => decide (d ≤ o.bshape.length)
  | .sum d, o => decide (d < o.bshape.length)
  | .prod d, o => decide (d < o.bshape.length) && decide (0 < o.bshape.getD d 0)

end

/-! ### class trees with batch shapes (what the correspondence compares) -/
def showShape (s : Shape) : String := "[" ++ ",".intercalate (s.map toString) ++ "]"

mutual
  def tree : BOp α → String
    | dense bs _ _ _ => "Dense" ++ showShape bs
    | diag bs _ _ => "Diag" ++ showShape bs
    | constDiag bs _ _ => "ConstantDiag" ++ showShape bs
    | identity bs _ => "Identity" ++ showShape bs
    | zero bs _ _ => "Zero" ++ showShape bs
    | toep bs _ _ => "Toeplitz" ++ showShape bs
    | tri up t => "Triangular" ++ Op.flag up ++ "(" ++ t.tree ++ ")"
    | root r => "Root(" ++ r.tree ++ ")"
    | sum l => "Sum(" ++ treeL l ++ ")"
    | matmul a b => "Matmul(" ++ a.tree ++ "," ++ b.tree ++ ")"
    | constMul a cbs _ => "ConstantMul" ++ showShape cbs ++ "(" ++ a.tree ++ ")"
  def treeL : List (BOp α) → String
    | [] => ""
    | [a] => a.tree
    | a :: l => a.tree ++ "," ++ treeL l
end

end BOp
end LinOp.C02
