import LinOp.C02.Block
import LinOp.C02.Proofs3
import Mathlib.Data.Matrix.Block
/-! C02 helper lemmas: cat / cat_rows / add_low_rank, and the block root identity `cat_rows` relies on. -/
namespace LinOp.C02
open Op
variable {α : Type} [CommRing α]
set_option linter.unusedSimpArgs false
set_option linter.unusedVariables false
set_option linter.unusedSectionVars false

theorem catOp_refines (rowwise : Bool) (cls : Nat) (a b r : Op α) (h : catOp rowwise cls a b = .ok r) :
    (r.rows = if rowwise then a.rows + b.rows else a.rows) ∧ (r.cols = if rowwise then a.cols else a.cols + b.cols) ∧
    ∀ i j, r.denote i j = if rowwise then vcat a.rows a.denote b.denote i j else hcat a.cols a.denote b.denote i j := by
  unfold catOp at h
  cases rowwise <;> simp only [Bool.false_eq_true, if_false, if_true] at h ⊢ <;>
    (split_ifs at h; cases h; simp [rows, cols, denote])

theorem catRowsOp_refines (cls : Nat) (a r : Op α) (o : Nat) (B D : NMat α) (h : catRowsOp cls a o B D = .ok r)
    (hsq : a.rows = a.cols) :
    r.rows = a.rows + o ∧ r.cols = a.cols + o ∧ ∀ i j, r.denote i j =
      if i < a.rows then (if j < a.cols then a.denote i j else B (j - a.cols) i)
      else (if j < a.cols then B (i - a.rows) j else D (i - a.rows) (j - a.cols)) := by
  unfold catRowsOp at h
  obtain ⟨up, hup, h⟩ := bind_ok _ _ _ h
  obtain ⟨lo, hlo, h⟩ := bind_ok _ _ _ h
  obtain ⟨r1, c1, v1⟩ := catOp_refines _ _ _ _ _ hup
  obtain ⟨r2, c2, v2⟩ := catOp_refines _ _ _ _ _ hlo
  obtain ⟨r3, c3, v3⟩ := catOp_refines _ _ _ _ _ h
  simp only [if_true, Bool.false_eq_true, if_false, rows, cols, denote] at r1 c1 v1 r2 c2 v2 r3 c3 v3
  refine ⟨by rw [r3, r1], by rw [c3, c1, c2], ?_⟩
  intro i j
  rw [v3]
  simp only [hcat, vcat, v1, v2, c1, hsq]
  split_ifs <;> rfl

theorem addLowRank_refines (a r : Op α) (k : Nat) (B : NMat α) (h : addLowRank a k B = .ok r) (i j : Nat)
    (hi : i < a.rows) : r.denote i j = a.denote i j + sumN k fun l => B i l * B j l := by
  unfold addLowRank at h
  simp only at h
  split_ifs at h with h1 h2
  · cases h; simp [denote]
  · rw [add_refines _ _ _ h i j hi]; simp [denote]

open Matrix in
/-- **The block identity `cat_rows` relies on when it transplants the cached root**: with `E Eᵀ = A` (the cached root of `A`),
`R` the inverse root used by the code (`E Rᵀ = 1`, i.e. `R = E⁻ᵀ`, which gives `R Rᵀ = A⁻¹`), `F = B R` and `G Gᵀ = D − F Fᵀ`
(the Schur complement), the new root `Z = [[E, 0], [F, G]]` satisfies `Z Zᵀ = [[A, Bᵀ], [B, D]]`. -/
theorem catRows_root_identity_aux {n o k q : Type} [Fintype n] [Fintype o] [Fintype k] [Fintype q] [DecidableEq n]
    [DecidableEq o] [DecidableEq k] [DecidableEq q]
    (A : Matrix n n α) (B : Matrix o n α) (D : Matrix o o α) (E : Matrix n k α) (R : Matrix n k α) (G : Matrix o q α)
    (hE : E * Eᵀ = A) (hR : E * Rᵀ = 1) (hG : G * Gᵀ = D - (B * R) * (B * R)ᵀ) :
    fromBlocks E 0 (B * R) G * (fromBlocks E 0 (B * R) G)ᵀ = fromBlocks A Bᵀ B D := by
  rw [fromBlocks_transpose, fromBlocks_multiply]
  have h1 : E * (B * R)ᵀ = Bᵀ := by rw [transpose_mul, ← Matrix.mul_assoc, hR, Matrix.one_mul]
  have h2 : B * R * Eᵀ = B := by
    have : R * Eᵀ = 1 := by
      have := congrArg transpose hR
      simpa [transpose_mul] using this
    rw [Matrix.mul_assoc, this, Matrix.mul_one]
  simp only [transpose_zero, Matrix.zero_mul, Matrix.mul_zero, add_zero]
  rw [hE, h1, h2, hG, add_sub_cancel]

end LinOp.C02
