import LinOp.C02.ProofsBatch2
/-! C02 helper lemmas for the batched layer, part 3: rewrites as data. -/
namespace LinOp.C02
open BOp
variable {α : Type} [CommRing α]
set_option linter.unusedSimpArgs false
set_option linter.unusedVariables false
set_option linter.unusedSectionVars false

theorem rewrite_value_aux (ρ : Rewrite) (S : Shape) (o r : BOp α) (hu : o.uniform S = true) (hok : ρ.okFor o = true)
    (h : ρ.apply o = .ok r) (idx : BIdx) (hidx : inRange (ρ.shape S) idx = true) (i j : Nat) :
    r.denote idx i j = ρ.spec S o.denote idx i j := by
  cases ρ with
  | expand S' =>
    simp only [Rewrite.apply, Except.ok.injEq] at h; subst h
    exact expand_value S' S idx hidx o hu i j
  | permute dims =>
    simp only [Rewrite.apply, Except.ok.injEq] at h; subst h
    simp only [Rewrite.okFor, Bool.and_eq_true, Bool.not_eq_true'] at hok
    rw [permuteBatch_eq_reindex dims o hok.1]
    exact reindex_value _ _ S idx (bcast_id _ idx hidx) o hu i j
  | unsqueeze d =>
    simp only [Rewrite.apply, Except.ok.injEq] at h; subst h
    exact reindex_value _ _ S idx (bcast_id _ idx hidx) o hu i j
  | sum d =>
    simp only [Rewrite.apply] at h
    cases hs : sumBatch d o with
    | none => simp [hs] at h
    | some x =>
      simp only [hs, Except.ok.injEq] at h; subst h
      exact sumBatch_value d S o x hu hs idx i j
  | prod d =>
    simp only [Rewrite.apply] at h
    cases hs : prodBatch d o with
    | none => simp [hs] at h
    | some x =>
      simp only [hs, Except.ok.injEq] at h; subst h
      simp only [Rewrite.okFor, Bool.and_eq_true, decide_eq_true_eq, bshape_of_uniform S o hu] at hok
      exact prodBatch_value d S o x hu hs hok.2 idx i j

theorem rewrite_uniform_aux (ρ : Rewrite) (S : Shape) (o r : BOp α) (hu : o.uniform S = true) (hok : ρ.okFor o = true)
    (h : ρ.apply o = .ok r) : r.uniform (ρ.shape S) = true := by
  cases ρ with
  | expand S' =>
    simp only [Rewrite.apply, Except.ok.injEq] at h; subst h
    exact uniform_expand S' S o hu
  | permute dims =>
    simp only [Rewrite.apply, Except.ok.injEq] at h; subst h
    simp only [Rewrite.okFor, Bool.and_eq_true, Bool.not_eq_true'] at hok
    rw [permuteBatch_eq_reindex dims o hok.1]
    exact uniform_reindex _ _ S o hu
  | unsqueeze d =>
    simp only [Rewrite.apply, Except.ok.injEq] at h; subst h
    exact uniform_reindex _ _ S o hu
  | sum d =>
    simp only [Rewrite.apply] at h
    cases hs : sumBatch d o with
    | none => simp [hs] at h
    | some x =>
      simp only [hs, Except.ok.injEq] at h; subst h
      exact sumBatch_uniform d S o x hu hs
  | prod d =>
    simp only [Rewrite.apply] at h
    cases hs : prodBatch d o with
    | none => simp [hs] at h
    | some x =>
      simp only [hs, Except.ok.injEq] at h; subst h
      exact prodBatch_uniform d S o x hu hs

end LinOp.C02
