import LinOp.C02.Model
import Mathlib.Tactic.Ring
import Mathlib.Tactic.SplitIfs
import Mathlib.Algebra.Ring.Defs
/-! Helper lemmas for C02 (dispatch model refines the dense specification). -/
namespace LinOp.C02
open Op
variable {α : Type} [CommRing α]

theorem sumN_congr (k : Nat) (f g : Nat → α) (h : ∀ l, l < k → f l = g l) : sumN k f = sumN k g := by
  induction k with
  | zero => rfl
  | succ k ih =>
    simp only [sumN]
    rw [ih (fun l hl => h l (Nat.lt_succ_of_lt hl)), h k (Nat.lt_succ_self k)]

theorem sumN_zero (k : Nat) : sumN k (fun _ => (0 : α)) = 0 := by
  induction k with
  | zero => rfl
  | succ k ih => simp [sumN, ih]

theorem sumN_delta (k i : Nat) (g : Nat → α) :
    sumN k (fun l => if i = l then g l else 0) = if i < k then g i else 0 := by
  induction k with
  | zero => simp [sumN]
  | succ k ih =>
    simp only [sumN, ih]
    by_cases h1 : i < k
    · have : i ≠ k := by omega
      have h2 : i < k + 1 := by omega
      simp [h1, this, h2]
    · by_cases h3 : i = k
      · subst h3; simp
      · have h2 : ¬ i < k + 1 := by omega
        simp [h1, h3, h2]

mutual
  theorem shape_transpose (a : Op α) :
      (transposeOp a).rows = a.cols ∧ (transposeOp a).cols = a.rows := by
    cases a with
    | tri up t => simpa [transposeOp, rows, cols] using shape_transpose t
    | kron a b =>
      have ha := shape_transpose a; have hb := shape_transpose b
      simp [transposeOp, rows, cols, ha, hb]
    | kronTri up a b =>
      have ha := shape_transpose a; have hb := shape_transpose b
      simp [transposeOp, rows, cols, ha, hb]
    | addedDiag a d => simpa [transposeOp, rows, cols] using shape_transpose a
    | kronAddedDiag a d => simpa [transposeOp, rows, cols] using shape_transpose a
    | lrrAddedDiag a d => simpa [transposeOp, rows, cols] using shape_transpose a
    | sum l => simpa [transposeOp, rows, cols] using shapeL_transpose l
    | psdSum l => simpa [transposeOp, rows, cols] using shapeL_transpose l
    | sumKron a b => simpa [transposeOp, rows, cols] using shape_transpose a
    | matmul a b =>
      have ha := shape_transpose a; have hb := shape_transpose b
      simp [transposeOp, rows, cols, ha, hb]
    | mul a b =>
      have ha := shape_transpose a; have hb := shape_transpose b
      simp [transposeOp, rows, cols, ha, hb]
    | constMul a c => simpa [transposeOp, rows, cols] using shape_transpose a
    | _ => simp [transposeOp, rows, cols]
  theorem shapeL_transpose (l : List (Op α)) :
      rowsL (transposeL l) = colsL l ∧ colsL (transposeL l) = rowsL l := by
    cases l with
    | nil => simp [transposeL, rowsL, colsL]
    | cons a l => simpa [transposeL, rowsL, colsL] using shape_transpose a
end

theorem toep_sym (i j : Nat) : (if j ≤ i then i - j else j - i) = (if i ≤ j then j - i else i - j) := by
  split_ifs <;> omega

mutual
  theorem transpose_refines (a : Op α) (i j : Nat) : (transposeOp a).denote i j = a.denote j i := by
    cases a with
    | dense n m t => simp [transposeOp, denote]
    | opq c n m t => simp [transposeOp, denote]
    | zero n m => simp [transposeOp, denote]
    | diag n d => by_cases h : i = j <;> simp [transposeOp, denote, h, eq_comm]
    | constDiag n c => by_cases h : i = j <;> simp [transposeOp, denote, h, eq_comm]
    | identity n => by_cases h : i = j <;> simp [transposeOp, denote, h, eq_comm]
    | kronDiag x y => by_cases h : i = j <;> simp [transposeOp, denote, h, eq_comm]
    | toep n col => simp only [transposeOp, denote]; rw [toep_sym]
    | tri up t => simpa [transposeOp, denote] using transpose_refines t i j
    | root r => simp only [transposeOp, denote]; exact sumN_congr _ _ _ (fun l _ => mul_comm _ _)
    | lowRankRoot r => simp only [transposeOp, denote]; exact sumN_congr _ _ _ (fun l _ => mul_comm _ _)
    | chol r => simp only [transposeOp, denote]; exact sumN_congr _ _ _ (fun l _ => mul_comm _ _)
    | cholU r => simp only [transposeOp, denote]; exact sumN_congr _ _ _ (fun l _ => mul_comm _ _)
    | kron a b =>
      have hb := shape_transpose b
      simp only [transposeOp, denote, hb.1, hb.2, transpose_refines a, transpose_refines b]
    | kronTri up a b =>
      have hb := shape_transpose b
      simp only [transposeOp, denote, hb.1, hb.2, transpose_refines a, transpose_refines b]
    | addedDiag a d => simp only [transposeOp, denote, transpose_refines a, transpose_refines d]
    | kronAddedDiag a d => simp only [transposeOp, denote, transpose_refines a, transpose_refines d]
    | lrrAddedDiag a d => simp only [transposeOp, denote, transpose_refines a, transpose_refines d]
    | sumKron a b => simp only [transposeOp, denote, transpose_refines a, transpose_refines b]
    | sum l => simpa [transposeOp, denote] using transposeL_refines l i j
    | psdSum l => simpa [transposeOp, denote] using transposeL_refines l i j
    | matmul a b =>
      have ha := shape_transpose a; have hb := shape_transpose b
      simp only [transposeOp, denote, ha.1, hb.2, Nat.min_comm b.rows a.cols]
      exact sumN_congr _ _ _ (fun l _ => by rw [transpose_refines b, transpose_refines a, mul_comm])
    | mul a b => simp only [transposeOp, denote, transpose_refines a, transpose_refines b]
    | constMul a c => simp only [transposeOp, denote, transpose_refines a]
  theorem transposeL_refines (l : List (Op α)) (i j : Nat) : denoteL (transposeL l) i j = denoteL l j i := by
    cases l with
    | nil => simp [transposeL, denoteL]
    | cons a l => simp only [transposeL, denoteL, transpose_refines a, transposeL_refines l]
end


theorem denote_of_isDiag (a : Op α) (h : a.isDiag = true) (i j : Nat) :
    a.denote i j = if i = j then a.diagOf i else 0 := by
  cases a <;> simp [isDiag] at h <;> simp [denote, diagOf]

theorem diagOf_constDiag (a : Op α) (h : a.isConstDiag = true) (i : Nat) : a.diagOf i = a.diagOf 0 := by
  cases a <;> simp [isConstDiag] at h <;> simp [diagOf]

theorem isDiag_of_isConstDiag (a : Op α) (h : a.isConstDiag = true) : a.isDiag = true := by
  cases a <;> simp [isConstDiag] at h <;> simp [isDiag]

theorem mkAddedDiag_refines (c : ADCls) (x y r : Op α) (h : mkAddedDiag c x y = .ok r) (i j : Nat) :
    r.denote i j = x.denote i j + y.denote i j := by
  unfold mkAddedDiag at h
  cases c <;> simp only [] at h <;> split_ifs at h <;>
    first
    | (cases h; simp [denote, add_comm])
    | (cases h)

theorem mkTri_refines (up : Bool) (t : Op α) (i j : Nat) : (mkTri up t).denote i j = t.denote i j := by
  unfold mkTri; split <;> simp [denote]

theorem rows_mkTri (up : Bool) (t : Op α) : (mkTri up t).rows = t.rows := by
  unfold mkTri; split <;> simp [rows]

theorem cols_mkTri (up : Bool) (t : Op α) : (mkTri up t).cols = t.cols := by
  unfold mkTri; split <;> simp [cols]

theorem diagAdd_refines (a b r : Op α) (h : diagAdd a b = .ok r) (i j : Nat) :
    r.denote i j = a.denote i j + b.denote i j := by
  unfold diagAdd at h
  split_ifs at h with h0 h1 h2 h3
  all_goals have ha : a.isDiag = true := by simpa using h0
  · cases h
    simp only [Bool.and_eq_true] at h1
    rw [denote_of_isDiag a ha, denote_of_isDiag b (isDiag_of_isConstDiag b h1.2),
      diagOf_constDiag a h1.1 i, diagOf_constDiag b h1.2 i]
    by_cases hij : i = j <;> simp [denote, hij]
  · cases h
    rw [denote_of_isDiag a ha, denote_of_isDiag b h3]
    by_cases hij : i = j <;> simp [denote, hij]
  · rw [mkAddedDiag_refines _ _ _ _ h, add_comm]

theorem rootT_refines (r : Op α) (i j : Nat) : (rootT r).denote i j = r.denote j i := transpose_refines r i j

theorem rootT_rows (r : Op α) : (rootT r).rows = r.cols := (shape_transpose r).1

theorem rootT_cols (r : Op α) : (rootT r).cols = r.rows := (shape_transpose r).2

theorem lowRankTerm_refines (b : Op α) (hb : b.isRoot = true) (i j : Nat) :
    (lowRankTerm b).denote i j = b.denote i j := by
  cases b <;> simp [isRoot] at hb <;>
    simp [lowRankTerm, rootOf, denote, rootT_rows, rootT_cols, rootT_refines]

theorem baseAdd_refines (a b r : Op α) (h : baseAdd a b = .ok r) (i j : Nat) :
    r.denote i j = a.denote i j + b.denote i j := by
  unfold baseAdd at h
  split_ifs at h with h1 h2 h3
  · cases h
    cases b <;> simp [isZero] at h1
    simp [denote]
  · exact mkAddedDiag_refines _ _ _ _ h i j
  · cases h
    simp only [denote, denoteL, add_zero]
    rw [lowRankTerm_refines b h3]
  · cases h
    simp [denote, denoteL]

theorem denoteL_append (l1 l2 : List (Op α)) (i j : Nat) :
    denoteL (l1 ++ l2) i j = denoteL l1 i j + denoteL l2 i j := by
  induction l1 with
  | nil => simp [denoteL]
  | cons a l ih => simp [denoteL, ih, add_assoc]

theorem denoteL_sumOps (a : Op α) (i j : Nat) : denoteL a.sumOps i j = a.denote i j := by
  cases a <;> simp [sumOps, denoteL, denote]

theorem sumAdd_refines (a b r : Op α) (h : sumAdd a b = .ok r) (i j : Nat) :
    r.denote i j = a.denote i j + b.denote i j := by
  unfold sumAdd at h
  split_ifs at h with h1 h2 h3
  · cases h
    cases b <;> simp [isZero] at h1
    simp [denote]
  · exact mkAddedDiag_refines _ _ _ _ h i j
  · cases h
    simp [denote, denoteL_append, denoteL_sumOps]
  · cases h
    simp [denote, denoteL_append, denoteL_sumOps, denoteL]

theorem DiagArg.toOp_denote (n : Nat) (g : DiagArg α) (i j : Nat) (hi : i < n) :
    (g.toOp n).denote i j = if i = j then g.fn i else 0 := by
  cases g with
  | full d =>
    by_cases h1 : n = 1
    · have h0 : i = 0 := by omega
      subst h0
      by_cases hj : 0 = j <;> simp [DiagArg.toOp, DiagArg.fn, denote, h1, hj]
    · by_cases hj : i = j <;> simp [DiagArg.toOp, DiagArg.fn, denote, h1, hj]
  | const c => simp [DiagArg.toOp, DiagArg.fn, denote]
  | scalar c => simp [DiagArg.toOp, DiagArg.fn, denote]

theorem kronAdd_refines (a b r : Op α) (h : add.kronAdd a b = .ok r) (i j : Nat) (hi : i < a.rows) :
    r.denote i j = a.denote i j + b.denote i j := by
  unfold add.kronAdd at h
  split_ifs at h with h1 h2 h3 h4
  · exact mkAddedDiag_refines _ _ _ _ h i j
  · cases h; simp [denote]
  · rw [mkAddedDiag_refines _ _ _ _ h, denote_of_isDiag b h3, DiagArg.toOp_denote _ _ _ _ hi]
    simp [DiagArg.fn]
  · exact baseAdd_refines _ _ _ h i j


set_option linter.unusedTactic false
set_option linter.unusedSimpArgs false
set_option linter.unusedSectionVars false

theorem bind_ok {ε β γ : Type} (x : Except ε β) (f : β → Except ε γ) (r : γ) (h : x >>= f = .ok r) :
    ∃ y, x = .ok y ∧ f y = .ok r := by
  cases x with
  | error e => cases h
  | ok y => exact ⟨y, rfl, h⟩

theorem map_ok {ε β γ : Type} (x : Except ε β) (f : β → γ) (r : γ) (h : (x >>= fun y => pure (f y)) = .ok r) :
    ∃ y, x = .ok y ∧ r = f y := by
  cases x with
  | error e => cases h
  | ok y => cases h; exact ⟨y, rfl, rfl⟩

theorem add_refines (a b r : Op α) (h : add a b = .ok r) (i j : Nat) (hi : i < a.rows) :
    r.denote i j = a.denote i j + b.denote i j := by
  fun_induction add a b generalizing r
  all_goals first
    | (cases h; simp [denote]; done)
    | exact baseAdd_refines _ _ _ h i j
    | exact diagAdd_refines _ _ _ h i j
    | exact sumAdd_refines _ _ _ h i j
    | exact kronAdd_refines _ _ _ h i j hi
    | exact mkAddedDiag_refines _ _ _ _ h i j
    | (obtain ⟨y, h1, rfl⟩ := map_ok _ _ _ h
       first
        | (rw [mkTri_refines, mkAddedDiag_refines _ _ _ _ h1]; simp [denote]; done)
        | (rename_i ih; rw [mkTri_refines, ih _ h1 (by simpa [rows] using hi)]; simp [denote]; done))
    | (obtain ⟨y, h1, h2⟩ := bind_ok _ _ _ h
       first
        | (rw [mkAddedDiag_refines _ _ _ _ h2, diagAdd_refines _ _ _ h1]; simp [denote, add_assoc, add_comm, add_left_comm]; done)
        | (rename_i ih; rw [mkAddedDiag_refines _ _ _ _ h2, ih _ h1 (by simpa [rows] using hi)]; simp [denote, add_assoc, add_comm, add_left_comm]; done))
    | (rename_i ih; rw [ih _ h (by simpa [rows] using hi)]; simp [denote]; done)

/-! ### add_diagonal / add_jitter -/

theorem diagAddDiagonal_refines (a r : Op α) (g : DiagArg α) (h : diagAddDiagonal a g = .ok r) (i j : Nat) :
    r.denote i j = a.denote i j + (if i = j then g.fn i else 0) := by
  unfold diagAddDiagonal at h
  split_ifs at h with ha
  cases h
  rw [denote_of_isDiag a ha]
  by_cases hij : i = j <;> simp [denote, hij]

theorem addDiagonal_refines (a r : Op α) (g : DiagArg α) (h : addDiagonal a g = .ok r) (i j : Nat)
    (hi : i < a.rows) :
    r.denote i j = a.denote i j + (if i = j then g.fn i else 0) := by
  fun_induction addDiagonal a g generalizing r
  all_goals first
    | (cases h <;> simp [denote] <;> done)
    | exact diagAddDiagonal_refines _ _ _ h i j
    | (rw [mkAddedDiag_refines _ _ _ _ h, DiagArg.toOp_denote _ _ _ _ hi]; done)
    | (obtain ⟨y, h1, rfl⟩ := map_ok _ _ _ h
       rename_i ih; rw [mkTri_refines, ih _ h1 (by simpa [rows] using hi)]; simp [denote]; done)
    | (obtain ⟨y, h1, h2⟩ := bind_ok _ _ _ h
       rw [mkAddedDiag_refines _ _ _ _ h2, diagAddDiagonal_refines _ _ _ h1]; simp [denote, add_assoc]; done)

theorem addJitter_refines (a r : Op α) (c : α) (h : addJitter a c = .ok r) (i j : Nat) (hi : i < a.rows) :
    r.denote i j = a.denote i j + (if i = j then c else 0) := by
  unfold addJitter at h
  split at h
  · cases h
    simp only [denote]
    by_cases hij : i = j
    · subst hij; simp
    · have : ¬ (if j ≤ i then i - j else j - i) = 0 := by split_ifs <;> omega
      simp [hij, this]
  · simpa [DiagArg.fn] using addDiagonal_refines _ _ _ h i j hi

/-! ### matmul with an operator -/

theorem matmulOp_refines (a b r : Op α) (h : matmulOp a b = .ok r) (i j : Nat) (hi : i < a.rows)
    (hk : a.cols = b.rows) :
    r.denote i j = sumN a.cols fun k => a.denote i k * b.denote k j := by
  unfold matmulOp at h
  split at h
  · cases h; simp [denote, sumN_zero]
  · cases h
    simp only [denote, cols, rows] at hi ⊢
    rw [sumN_congr _ _ (fun k => if i = k then b.denote k j else 0) (by intro l _; split_ifs <;> simp), sumN_delta]
    simp [hi]
  · split_ifs at h with h1 h2 h3
    · cases h
      simp only [Bool.and_eq_true] at h1
      have hd := isDiag_of_isConstDiag _ h1.1
      have hc : a.cols = a.rows := by cases a <;> simp [isConstDiag] at h1 <;> simp [cols, rows]
      rw [sumN_congr _ _ (fun k => (if i = k then a.diagOf i * b.denote k j else 0))]
      · rw [sumN_delta, hc]; simp only [hi, if_true]
        rw [denote_of_isDiag b (isDiag_of_isConstDiag _ h1.2), diagOf_constDiag a h1.1 i, diagOf_constDiag b h1.2 i]
        by_cases hij : i = j <;> simp [denote, hij]
      · intro l _; rw [denote_of_isDiag a hd]; split_ifs <;> simp
    · have hc : a.cols = a.rows := by cases a <;> simp [isDiag] at h3 <;> simp [cols, rows]
      have key : ∀ f : Nat → α, (sumN a.cols fun k => a.denote i k * f k) = a.diagOf i * f i := by
        intro f
        rw [sumN_congr _ _ (fun k => (if i = k then a.diagOf i * f k else 0))]
        · rw [sumN_delta, hc]; simp [hi]
        · intro l _; rw [denote_of_isDiag a h3]; split_ifs <;> simp
      split at h
      · cases h; simp [denote, key]
      · cases h; simp [denote, key]
      · cases h; simp only [rows] at hk; simp [denote, ← hk]
      · split_ifs at h with h4
        · cases h
          rw [key, denote_of_isDiag b h4]
          by_cases hij : i = j <;> simp [denote, hij]
        · cases h; simp [denote, ← hk]
    · cases h; simp [denote, ← hk]

end LinOp.C02
