import LinOp.C02.Proofs3
/-! C02 helper lemmas, part 4: expression programs. -/
namespace LinOp.C02
open Op
variable {α : Type} [CommRing α]
set_option linter.unusedTactic false
set_option linter.unusedSimpArgs false
set_option linter.unusedSectionVars false

theorem checkShape_ok (n m : Nat) (r r' : Op α) (h : checkShape n m r = .ok r') :
    r' = r ∧ r.rows = n ∧ r.cols = m := by
  unfold checkShape at h
  split_ifs at h with hh
  cases h
  exact ⟨rfl, hh.1, hh.2⟩

theorem sameShape_ok (a b : Op α) (h : sameShape a b = true) : a.rows = b.rows ∧ a.cols = b.cols := by
  simpa [sameShape] using h

/-- `r` has the shape of the dense expression `p` and agrees with it on that window. -/
def Refines (r : Op α) (p : Prog α) : Prop :=
  r.rows = p.rows ∧ r.cols = p.cols ∧ ∀ i j, i < p.rows → j < p.cols → r.denote i j = Spec.eval p i j

theorem eval_refines_aux (E : Env α) (hS : SqrtLaw E.S)
    (hroot : ∀ x i j, (E.rootDec x).denote i j = x.denote i j) (p : Prog α) :
    ∀ r, Impl.eval E p = .ok r → Refines r p := by
  induction p with
  | leaf o =>
    intro r h
    simp only [Impl.eval] at h
    cases h
    exact ⟨by simp [Prog.rows], by simp [Prog.cols], fun _ _ _ _ => by simp [Spec.eval]⟩
  | add p q ihp ihq =>
    intro r h
    simp only [Impl.eval] at h
    obtain ⟨a, ha, h⟩ := bind_ok _ _ _ h
    obtain ⟨b, hb, h⟩ := bind_ok _ _ _ h
    split_ifs at h with hs
    obtain ⟨r0, hr0, h⟩ := bind_ok _ _ _ h
    obtain ⟨rfl, hr, hc⟩ := checkShape_ok _ _ _ _ h
    obtain ⟨ar, ac, av⟩ := ihp a ha
    obtain ⟨br, bc, bv⟩ := ihq b hb
    obtain ⟨s1, s2⟩ := sameShape_ok _ _ hs
    refine ⟨by simp [Prog.rows, hr, ar], by simp [Prog.cols, hc, ac], ?_⟩
    intro i j hi hj
    simp only [Prog.rows, Prog.cols] at hi hj
    rw [add_refines _ _ _ hr0 i j (by omega), av i j hi hj, bv i j (by omega) (by omega)]
    simp [Spec.eval]
  | sub p q ihp ihq =>
    intro r h
    simp only [Impl.eval] at h
    obtain ⟨a, ha, h⟩ := bind_ok _ _ _ h
    obtain ⟨b, hb, h⟩ := bind_ok _ _ _ h
    split_ifs at h with hs
    obtain ⟨r0, hr0, h⟩ := bind_ok _ _ _ h
    obtain ⟨rfl, hr, hc⟩ := checkShape_ok _ _ _ _ h
    obtain ⟨ar, ac, av⟩ := ihp a ha
    obtain ⟨br, bc, bv⟩ := ihq b hb
    obtain ⟨s1, s2⟩ := sameShape_ok _ _ hs
    refine ⟨by simp [Prog.rows, hr, ar], by simp [Prog.cols, hc, ac], ?_⟩
    intro i j hi hj
    simp only [Prog.rows, Prog.cols] at hi hj
    rw [sub_refines _ hS _ _ _ hr0 i j (by omega), av i j hi hj, bv i j (by omega) (by omega)]
    simp [Spec.eval]
  | mulC c p ih =>
    intro r h
    simp only [Impl.eval] at h
    obtain ⟨a, ha, h⟩ := bind_ok _ _ _ h
    obtain ⟨rfl, hr, hc⟩ := checkShape_ok _ _ _ _ h
    obtain ⟨ar, ac, av⟩ := ih a ha
    refine ⟨by simp [Prog.rows, hr, ar], by simp [Prog.cols, hc, ac], ?_⟩
    intro i j hi hj
    simp only [Prog.rows, Prog.cols] at hi hj
    rw [mulScalar_refines _ hS, av i j hi hj]
    simp [Spec.eval]
  | divC c cinv p ih =>
    intro r h
    simp only [Impl.eval] at h
    obtain ⟨a, ha, h⟩ := bind_ok _ _ _ h
    obtain ⟨rfl, hr, hc⟩ := checkShape_ok _ _ _ _ h
    obtain ⟨ar, ac, av⟩ := ih a ha
    refine ⟨by simp [Prog.rows, hr, ar], by simp [Prog.cols, hc, ac], ?_⟩
    intro i j hi hj
    simp only [Prog.rows, Prog.cols] at hi hj
    rw [divScalar_refines _ hS, av i j hi hj]
    simp [Spec.eval]
  | mulM p q ihp ihq =>
    intro r h
    simp only [Impl.eval] at h
    obtain ⟨a, ha, h⟩ := bind_ok _ _ _ h
    obtain ⟨b, hb, h⟩ := bind_ok _ _ _ h
    split_ifs at h with hs
    obtain ⟨r0, hr0, h⟩ := bind_ok _ _ _ h
    obtain ⟨rfl, hr, hc⟩ := checkShape_ok _ _ _ _ h
    obtain ⟨ar, ac, av⟩ := ihp a ha
    obtain ⟨br, bc, bv⟩ := ihq b hb
    obtain ⟨s1, s2⟩ := sameShape_ok _ _ hs
    refine ⟨by simp [Prog.rows, hr, ar], by simp [Prog.cols, hc, ac], ?_⟩
    intro i j hi hj
    simp only [Prog.rows, Prog.cols] at hi hj
    rw [mulMatrix_refines _ hroot _ _ _ hr0, av i j hi hj, bv i j (by omega) (by omega)]
    simp [Spec.eval]
  | matmul k p q ihp ihq =>
    intro r h
    simp only [Impl.eval] at h
    obtain ⟨a, ha, h⟩ := bind_ok _ _ _ h
    obtain ⟨b, hb, h⟩ := bind_ok _ _ _ h
    split_ifs at h with hk
    obtain ⟨r0, hr0, h⟩ := bind_ok _ _ _ h
    obtain ⟨rfl, hr, hc⟩ := checkShape_ok _ _ _ _ h
    obtain ⟨ar, ac, av⟩ := ihp a ha
    obtain ⟨br, bc, bv⟩ := ihq b hb
    refine ⟨by simp [Prog.rows, hr, ar], by simp [Prog.cols, hc, bc], ?_⟩
    intro i j hi hj
    simp only [Prog.rows, Prog.cols] at hi hj
    rw [matmulOp_refines _ _ _ hr0 i j (by omega) (by omega), hk.1]
    simp only [Spec.eval]
    apply sumN_congr
    intro l hl
    rw [av i l hi (by omega), bv l j (by omega) hj]
  | addDiag g p ih =>
    intro r h
    simp only [Impl.eval] at h
    obtain ⟨a, ha, h⟩ := bind_ok _ _ _ h
    obtain ⟨r0, hr0, h⟩ := bind_ok _ _ _ h
    obtain ⟨rfl, hr, hc⟩ := checkShape_ok _ _ _ _ h
    obtain ⟨ar, ac, av⟩ := ih a ha
    refine ⟨by simp [Prog.rows, hr, ar], by simp [Prog.cols, hc, ac], ?_⟩
    intro i j hi hj
    simp only [Prog.rows, Prog.cols] at hi hj
    rw [addDiagonal_refines _ _ _ hr0 i j (by omega), av i j hi hj]
    simp [Spec.eval]
  | jitter c p ih =>
    intro r h
    simp only [Impl.eval] at h
    obtain ⟨a, ha, h⟩ := bind_ok _ _ _ h
    obtain ⟨r0, hr0, h⟩ := bind_ok _ _ _ h
    obtain ⟨rfl, hr, hc⟩ := checkShape_ok _ _ _ _ h
    obtain ⟨ar, ac, av⟩ := ih a ha
    refine ⟨by simp [Prog.rows, hr, ar], by simp [Prog.cols, hc, ac], ?_⟩
    intro i j hi hj
    simp only [Prog.rows, Prog.cols] at hi hj
    rw [addJitter_refines _ _ _ hr0 i j (by omega), av i j hi hj]
    simp [Spec.eval]
  | transpose p ih =>
    intro r h
    simp only [Impl.eval] at h
    obtain ⟨a, ha, h⟩ := bind_ok _ _ _ h
    obtain ⟨rfl, hr, hc⟩ := checkShape_ok _ _ _ _ h
    obtain ⟨ar, ac, av⟩ := ih a ha
    refine ⟨by simp [Prog.rows, hr, ac], by simp [Prog.cols, hc, ar], ?_⟩
    intro i j hi hj
    simp only [Prog.rows, Prog.cols] at hi hj
    rw [transpose_refines, av j i hj hi]
    simp [Spec.eval]

end LinOp.C02
