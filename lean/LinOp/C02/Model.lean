/-
C02 — model of the type-dispatching composition layer of linear_operator
(`__add__`/`__sub__`, `mul` → `_mul_constant` / `_mul_matrix`, `div`, `matmul`, `add_diagonal`,
`add_jitter`, `transpose`) as a deep embedding.  Core Lean only (no Mathlib): the driver runs it.

Matrices are index functions `Nat → Nat → α` (the matrix an operator denotes is the top-left
`rows × cols` window); batching is handled on the Python side (the dispatch never looks at batch
shapes).  `Op` has one constructor per library class that takes part in the dispatch; every other
class (Cat, Masked, Kernel, BatchRepeat, Interpolated, Block*, SumBatch, Permutation …) inherits
the base-class methods and is the constructor `opq cls`.

Mirrored code (file → function):
  _linear_operator.py                 LinearOperator.__add__ / __sub__ / mul / div / _mul_constant /
                                      _mul_matrix / matmul / add_diagonal / add_jitter / add_low_rank (value part)
  dense_linear_operator.py            __add__, _transpose_nonbatch
  diag_linear_operator.py             Diag.__add__/_mul_constant/_mul_matrix/add_diagonal/matmul,
                                      ConstantDiag.__add__/_mul_constant/_mul_matrix/matmul
  identity_linear_operator.py         _mul_constant, matmul (`_mul_matrix` is inherited from ConstantDiag since 7b74d3a)
  zero_linear_operator.py             __add__, mul, div, matmul, add_diagonal, transpose
  triangular_linear_operator.py       __init__ (unwrapping), __add__, _mul_constant, add_diagonal, _transpose_nonbatch
  root_/low_rank_root_/chol_          Root._mul_constant (positive constants folded into the root), LowRankRoot.__add__/add_diagonal
  kronecker_product_linear_operator   Kronecker.__add__/add_diagonal, KroneckerProductDiag._mul_constant (MRO: Diag first)
  kronecker_product_added_diag_       __add__
  added_diag_linear_operator.py       __init__ checks, __add__, add_diagonal
  low_rank_root_added_diag_           __init__ checks, __add__, _mul_constant
  sum_linear_operator.py              __add__ (flattening), _mul_constant, _transpose_nonbatch
  mul_linear_operator.py              __init__ (swap by root size), _mul_constant
  toeplitz_linear_operator.py         add_jitter
-/
namespace LinOp.C02

abbrev NMat (α : Type) := Nat → Nat → α

/-- `∑_{k<n} f k`, left to right. -/
def sumN {α : Type} [Zero α] [Add α] : Nat → (Nat → α) → α
  | 0, _ => 0
  | k + 1, f => sumN k f + f k

/-- matrix product with inner dimension `k`. -/
def mulN {α : Type} [Zero α] [Add α] [Mul α] (k : Nat) (A B : NMat α) : NMat α :=
  fun i j => sumN k fun l => A i l * B l j

inductive Op (α : Type) where
  | dense (n m : Nat) (t : NMat α)
  | diag (n : Nat) (d : Nat → α)
  | constDiag (n : Nat) (c : α)
  | identity (n : Nat)
  | zero (n m : Nat)
  | tri (upper : Bool) (t : Op α)
  | toep (n : Nat) (col : Nat → α)
  | opq (cls : Nat) (n m : Nat) (t : NMat α)
  | root (r : Op α)
  | lowRankRoot (r : Op α)
  | chol (r : Op α)
  | cholU (r : Op α)         -- CholLinearOperator(R, upper=True): Rᵀ R
  | kron (a b : Op α)
  | kronTri (upper : Bool) (a b : Op α)   -- KroneckerProductTriangular(*factors, upper=…)
  | kronDiag (a b : Op α)
  | addedDiag (a d : Op α)
  | kronAddedDiag (a d : Op α)
  | lrrAddedDiag (a d : Op α)
  | sum (l : List (Op α))
  | psdSum (l : List (Op α))
  | sumKron (a b : Op α)
  | matmul (a b : Op α)
  | mul (a b : Op α)
  | constMul (a : Op α) (c : α)

inductive Err where
  | notSupported     -- the library raises an explicit "not supported / invalid" error
  | shape            -- explicit shape error
  deriving DecidableEq, Repr

namespace Op
variable {α : Type}

mutual
  def rows : Op α → Nat
    | dense n _ _ => n | diag n _ => n | constDiag n _ => n | identity n => n | zero n _ => n
    | tri _ t => t.rows | toep n _ => n | opq _ n _ _ => n
    | root r => r.rows | lowRankRoot r => r.rows | chol r => r.rows | cholU r => r.rows
    | kron a b => a.rows * b.rows | kronTri _ a b => a.rows * b.rows | kronDiag a b => a.rows * b.rows
    | addedDiag a _ => a.rows | kronAddedDiag a _ => a.rows | lrrAddedDiag a _ => a.rows
    | sum l => rowsL l | psdSum l => rowsL l | sumKron a _ => a.rows
    | matmul a _ => a.rows | mul a b => min a.rows b.rows | constMul a _ => a.rows
  def rowsL : List (Op α) → Nat
    | [] => 0
    | a :: _ => a.rows
end

mutual
  def cols : Op α → Nat
    | dense _ m _ => m | diag n _ => n | constDiag n _ => n | identity n => n | zero _ m => m
    | tri _ t => t.cols | toep n _ => n | opq _ _ m _ => m
    | root r => r.rows | lowRankRoot r => r.rows | chol r => r.rows | cholU r => r.rows
    | kron a b => a.cols * b.cols | kronTri _ a b => a.cols * b.cols | kronDiag a b => a.rows * b.rows
    | addedDiag a _ => a.cols | kronAddedDiag a _ => a.cols | lrrAddedDiag a _ => a.cols
    | sum l => colsL l | psdSum l => colsL l | sumKron a _ => a.cols
    -- (`MulLinearOperator._check_args`: both operands have the same shape)
    | matmul _ b => b.cols | mul a b => min a.cols b.cols | constMul a _ => a.cols
  def colsL : List (Op α) → Nat
    | [] => 0
    | a :: _ => a.cols
end

/-- inner dimension of a root factor (`_root_decomposition_size`). -/
def rootCols : Op α → Nat
  | dense _ m _ => m | opq _ _ m _ => m | tri _ t => t.cols | diag n _ => n | constDiag n _ => n
  | identity n => n | zero _ m => m | toep n _ => n
  | kron a b => a.cols * b.cols | kronTri _ a b => a.cols * b.cols | kronDiag a b => a.cols * b.cols
  | matmul _ b => b.cols | constMul a _ => a.cols
  | o => o.cols

section diagOf
variable [One α] [Mul α]
/-- `o._diag` of a diagonal operator (ConstantDiag/Identity expand, KroneckerProductDiag uses `_kron_diag`). -/
def diagOf : Op α → Nat → α
  | diag _ d => d
  | constDiag _ c => fun _ => c
  | identity _ => fun _ => 1
  | kronDiag a b => fun i => diagOf a (i / b.rows) * diagOf b (i % b.rows)
  | _ => fun _ => 1
end diagOf

section denote
variable [Zero α] [One α] [Add α] [Mul α]

mutual
  /-- The matrix an operator denotes (documented meaning of each class). -/
  def denote : Op α → NMat α
    | dense _ _ t => t
    | diag _ d => fun i j => if i = j then d i else 0
    | constDiag _ c => fun i j => if i = j then c else 0
    | identity _ => fun i j => if i = j then 1 else 0
    | zero _ _ => fun _ _ => 0
    | tri _ t => t.denote
    | toep _ col => fun i j => col (if j ≤ i then i - j else j - i)
    | opq _ _ _ t => t
    | root r => fun i j => sumN r.cols fun k => r.denote i k * r.denote j k
    | lowRankRoot r => fun i j => sumN r.cols fun k => r.denote i k * r.denote j k
    | chol r => fun i j => sumN r.cols fun k => r.denote i k * r.denote j k
    | cholU r => fun i j => sumN r.rows fun k => r.denote k i * r.denote k j
    | kron a b => fun i j => a.denote (i / b.rows) (j / b.cols) * b.denote (i % b.rows) (j % b.cols)
    | kronTri _ a b => fun i j => a.denote (i / b.rows) (j / b.cols) * b.denote (i % b.rows) (j % b.cols)
    | kronDiag a b => fun i j => if i = j then diagOf a (i / b.rows) * diagOf b (i % b.rows) else 0
    | addedDiag a d => fun i j => a.denote i j + d.denote i j
    | kronAddedDiag a d => fun i j => a.denote i j + d.denote i j
    | lrrAddedDiag a d => fun i j => a.denote i j + d.denote i j
    | sum l => denoteL l
    | psdSum l => denoteL l
    | sumKron a b => fun i j => a.denote i j + b.denote i j
    -- (inner dimension: `a.cols = b.rows` for every object `matmul()` builds)
    | matmul a b => fun i j => sumN (min a.cols b.rows) fun k => a.denote i k * b.denote k j
    | mul a b => fun i j => a.denote i j * b.denote i j
    | constMul a c => fun i j => c * a.denote i j
  def denoteL : List (Op α) → NMat α
    | [] => fun _ _ => 0
    | a :: l => fun i j => a.denote i j + denoteL l i j
end
end denote

/-! ### `isinstance` tests (following the class hierarchy) -/

/-- `isinstance(o, DiagLinearOperator)`: Diag, ConstantDiag, Identity, KroneckerProductDiag. -/
def isDiag : Op α → Bool
  | diag .. | constDiag .. | identity .. | kronDiag .. => true
  | _ => false

/-- `isinstance(o, ConstantDiagLinearOperator)`: ConstantDiag, Identity. -/
def isConstDiag : Op α → Bool
  | constDiag .. | identity .. => true
  | _ => false

def isZero : Op α → Bool
  | zero .. => true
  | _ => false

def isDense : Op α → Bool
  | dense .. => true
  | _ => false

/-- `isinstance(o, RootLinearOperator)`: Root, LowRankRoot, Chol. -/
def isRoot : Op α → Bool
  | root .. | lowRankRoot .. | chol .. | cholU .. => true
  | _ => false

def isLowRankRoot : Op α → Bool
  | lowRankRoot .. => true
  | _ => false

/-- `isinstance(o, KroneckerProductLinearOperator)`. -/
def isKron : Op α → Bool
  | kron .. | kronTri .. | kronDiag .. => true
  | _ => false

def isKronDiag : Op α → Bool
  | kronDiag .. => true
  | _ => false

/-- `isinstance(o, SumLinearOperator)`. -/
def isSum : Op α → Bool
  | sum .. | psdSum .. | sumKron .. | addedDiag .. | kronAddedDiag .. | lrrAddedDiag .. => true
  | _ => false

/-- components (`linear_ops`) of a SumLinearOperator instance. -/
def sumOps : Op α → List (Op α)
  | sum l => l | psdSum l => l | sumKron a b => [a, b]
  | addedDiag a d => [a, d] | kronAddedDiag a d => [a, d] | lrrAddedDiag a d => [a, d]
  | o => [o]


/-- the root factor of a RootLinearOperator instance. -/
def rootOf : Op α → Op α
  | root r => r | lowRankRoot r => r | chol r => r | cholU r => r
  | o => o

end Op

open Op

section impl
variable {α : Type} [Zero α] [One α] [Add α] [Mul α] [Neg α]

/-! ### constructors with checks -/

/-- `TriangularLinearOperator.__init__`: a Triangular argument (one that has `_tensor`) is unwrapped; anything
else — including a DiagLinearOperator, which is a TriangularLinearOperator without `_tensor` — is wrapped. -/
def mkTri (up : Bool) (t : Op α) : Op α :=
  match t with
  | .tri _ t' => .tri up t'
  | t => .tri up t

inductive ADCls | plain | kron | lrr
  deriving DecidableEq

/-- `AddedDiagLinearOperator.__init__` (and the two subclasses): exactly one DiagLinearOperator;
LowRankRootAddedDiag additionally needs a LowRankRoot base.  Returns (linear_op, diag_tensor). -/
def mkAddedDiag (c : ADCls) (x y : Op α) : Except Err (Op α) :=
  let build (a d : Op α) : Except Err (Op α) :=
    match c with
    | .plain => .ok (.addedDiag a d)
    | .kron => .ok (.kronAddedDiag a d)
    | .lrr => if a.isLowRankRoot then .ok (.lrrAddedDiag a d) else .error .notSupported
  if x.isDiag && y.isDiag then .error .notSupported
  else if x.isDiag then build y x
  else if y.isDiag then build x y
  else .error .notSupported

/-- `MulLinearOperator.__init__` for operands already in root form: larger root first. -/
def mkMul (a b : Op α) : Op α :=
  if a.rootOf.rootCols < b.rootOf.rootCols then .mul b a else .mul a b

/-! ### transpose (`_transpose_nonbatch`) -/
mutual
  def transposeOp : Op α → Op α
    | .dense n m t => .dense m n fun i j => t j i
    | .diag n d => .diag n d
    | .constDiag n c => .constDiag n c
    | .identity n => .identity n
    | .zero n m => .zero m n
    | .tri up t => .tri (!up) (transposeOp t)
    | .toep n c => .toep n c
    | .opq cls n m t => .opq cls m n fun i j => t j i
    | .root r => .root r
    | .lowRankRoot r => .lowRankRoot r
    | .chol r => .chol r
    | .cholU r => .cholU r
    | .kron a b => .kron (transposeOp a) (transposeOp b)
    -- (`self.__class__(*transposed factors, **self._kwargs)`: the outer `upper` flag is kept as it is)
    | .kronTri up a b => .kronTri up (transposeOp a) (transposeOp b)
    | .kronDiag a b => .kronDiag a b
    | .addedDiag a d => .addedDiag (transposeOp a) (transposeOp d)
    | .kronAddedDiag a d => .kronAddedDiag (transposeOp a) (transposeOp d)
    | .lrrAddedDiag a d => .lrrAddedDiag (transposeOp a) (transposeOp d)
    | .sum l => .sum (transposeL l)
    | .psdSum l => .psdSum (transposeL l)
    | .sumKron a b => .sumKron (transposeOp a) (transposeOp b)
    | .matmul a b => .matmul (transposeOp b) (transposeOp a)
    -- `MulLinearOperator._transpose_nonbatch` returns self; its operands are RootLinearOperators, whose
    -- transpose is themselves, so this is the same object
    | .mul a b => .mul (transposeOp a) (transposeOp b)
    | .constMul a c => .constMul (transposeOp a) c
  def transposeL : List (Op α) → List (Op α)
    | [] => []
    | a :: l => transposeOp a :: transposeL l
end

/-- `root.mT` inside `add_low_rank` (`_transpose_nonbatch` of the root factor). -/
def rootT (r : Op α) : Op α := transposeOp r

/-! ### `add_diagonal` -/

/-- the three accepted shapes of the `diag` argument. -/
inductive DiagArg (α : Type) where
  | full (d : Nat → α)      -- `(..., N)`
  | const (c : α)           -- `(..., 1)`
  | scalar (c : α)          -- 0-d

def DiagArg.fn : DiagArg α → Nat → α
  | .full d => d | .const c => fun _ => c | .scalar c => fun _ => c

/-- the DiagLinearOperator that base / Kronecker / LowRankRoot `add_diagonal` build.  The code tests
`diag.shape[-1] != 1`: a full diagonal of a 1×1 operator has length 1 and therefore takes the constant branch. -/
def DiagArg.toOp (n : Nat) : DiagArg α → Op α
  | .full d => if n = 1 then .constDiag n (d 0) else .diag n d
  | .const c => .constDiag n c | .scalar c => .constDiag n c

/-- `DiagLinearOperator.add_diagonal` (always a plain DiagLinearOperator). -/
def diagAddDiagonal (a : Op α) (g : DiagArg α) : Except Err (Op α) :=
  if a.isDiag then .ok (.diag a.rows fun i => a.diagOf i + g.fn i)
  else .error .notSupported   -- constructor invariant: `_diag_tensor` is always a DiagLinearOperator

def addDiagonal : Op α → DiagArg α → Except Err (Op α)
  | .zero n m, g => if n = m then .ok (.diag n g.fn) else .error .notSupported
  | .tri up t, g => do let r ← addDiagonal t g; pure (mkTri up r)
  | .addedDiag a d, g => do let d' ← diagAddDiagonal d g; mkAddedDiag .plain a d'
  | .kronAddedDiag a d, g => do let d' ← diagAddDiagonal d g; mkAddedDiag .kron a d'
  | .lrrAddedDiag a d, g => do let d' ← diagAddDiagonal d g; mkAddedDiag .lrr a d'
  | o, g =>
    if o.isDiag then diagAddDiagonal o g
    else if o.rows ≠ o.cols then .error .notSupported
    else if o.isKron then mkAddedDiag .kron o (g.toOp o.rows)
    else if o.isLowRankRoot then mkAddedDiag .lrr o (g.toOp o.rows)
    else mkAddedDiag .plain o (g.toOp o.rows)

/-- `add_jitter`: Toeplitz adds to the first column entry, everything else is `add_diagonal(0-d)`. -/
def addJitter (a : Op α) (c : α) : Except Err (Op α) :=
  match a with
  | .toep n col => .ok (.toep n fun k => if k = 0 then col k + c else col k)
  | a => addDiagonal a (.scalar c)

/-! ### `__add__` -/

/-- the operator `add_low_rank` adds for a root-form `other` (69b27fd): `B @ B.mT` with `B = other.root_decomposition().root`,
i.e. the stored root for Root / LowRankRoot / lower Chol and `root.mT` for an upper-orientation Cholesky operator. -/
def lowRankTerm (b : Op α) : Op α :=
  match b with
  | .cholU r => .matmul (rootT r) (rootT (rootT r))
  | b => .matmul b.rootOf (rootT b.rootOf)

/-- `LinearOperator.__add__` (base class ladder). -/
def baseAdd (a b : Op α) : Except Err (Op α) :=
  -- (d734ac2: `return other + self` = `ZeroLinearOperator.__add__`, which returns `self` when the shapes agree and
  --  `self.expand(...)` otherwise — the batched statement is `BOp.addZeroRight` in Batch.lean)
  if b.isZero then .ok a
  else if b.isDiag then mkAddedDiag .plain a b
  else if b.isRoot then
    -- add_low_rank(other.root): self + (root @ root.mT), re-dispatched; every class whose ladder ends
    -- here answers a MatmulLinearOperator operand with SumLinearOperator(self, other)
    .ok (.sum [a, lowRankTerm b])
  else .ok (.sum [a, b])

/-- `Diag.__add__` / `ConstantDiag.__add__` for a diagonal left operand `a`. -/
def diagAdd (a b : Op α) : Except Err (Op α) :=
  if !a.isDiag then .error .notSupported   -- constructor invariant: `_diag_tensor` is always a DiagLinearOperator
  else if a.isConstDiag && b.isConstDiag then
    if a.rows = b.rows then
      .ok (.constDiag a.rows (a.diagOf 0 + b.diagOf 0))
    else .error .shape
  else if b.isDiag then .ok (.diag a.rows fun i => a.diagOf i + b.diagOf i)
  else mkAddedDiag .plain b a

/-- `SumLinearOperator.__add__`. -/
def sumAdd (a b : Op α) : Except Err (Op α) :=
  if b.isZero then .ok a   -- (d734ac2: `other + self`, as in the base class)
  else if b.isDiag then mkAddedDiag .plain a b
  else if b.isSum then .ok (.sum (a.sumOps ++ b.sumOps))
  else .ok (.sum (a.sumOps ++ [b]))

/-- `type(a).__add__(a, b)`: the per-class overrides, by the MRO of the left operand. -/
def add : Op α → Op α → Except Err (Op α)
  | .zero _ _, b => .ok b
  | .dense n m t, b =>
    match b with
    | .dense _ _ t' => .ok (.dense n m fun i j => t i j + t' i j)
    | b => baseAdd (.dense n m t) b
  | .diag n d, b => diagAdd (.diag n d) b
  | .constDiag n c, b => diagAdd (.constDiag n c) b
  | .identity n, b => diagAdd (.identity n) b
  | .kronDiag x y, b => diagAdd (.kronDiag x y) b
  | .tri up t, b =>
    if b.isDiag then do
      let inner ← mkAddedDiag .plain t b
      pure (mkTri up inner)
    else match b with
      | .tri up' t' =>
        if up = up' then do let s ← add t t'; pure (mkTri up s)
        else add t (.tri up' t')
      | b => add t b
  | .lowRankRoot r, b =>
    if b.isDiag then mkAddedDiag .lrr (.lowRankRoot r) b else baseAdd (.lowRankRoot r) b
  | .kron x y, b => kronAdd (.kron x y) b
  | .kronTri up x y, b => kronAdd (.kronTri up x y) b
  | .addedDiag a d, b =>
    if b.isDiag then do let d' ← diagAdd d b; mkAddedDiag .plain a d'
    else do let a' ← add a b; mkAddedDiag .plain a' d
  | .kronAddedDiag a d, b =>
    if b.isDiag then do let d' ← diagAdd d b; mkAddedDiag .kron a d'
    else do let a' ← add a b; mkAddedDiag .kron a' d
  | .lrrAddedDiag a d, b =>
    if b.isDiag then do let d' ← diagAdd d b; mkAddedDiag .lrr a d'
    else do let a' ← add a b; mkAddedDiag .plain a' d
  | .sum l, b => sumAdd (.sum l) b
  | .psdSum l, b => sumAdd (.psdSum l) b
  | .sumKron x y, b => sumAdd (.sumKron x y) b
  | a, b => baseAdd a b
where
  /-- `KroneckerProductLinearOperator.__add__`. -/
  kronAdd (a b : Op α) : Except Err (Op α) :=
    if b.isKronDiag || b.isConstDiag then mkAddedDiag .kron a b
    else if b.isKron then .ok (.sumKron a b)
    else if b.isDiag then
      if a.rows ≠ a.cols then .error .notSupported
      -- self.add_diagonal(other._diagonal()): a length-1 diagonal (1×1 operands) takes the constant branch
      else mkAddedDiag .kron a ((DiagArg.full b.diagOf).toOp a.rows)
    else baseAdd a b

/-! ### multiplication by a constant (`mul` with a scalar → `_mul_constant`) -/

/-- `pos c` is the test `c > 0`, `sqrt` the square root used to fold positive constants into roots. -/
structure ScalarOps (α : Type) where
  pos : α → Bool
  sqrt : α → α

mutual
  def mulConst (S : ScalarOps α) : Op α → α → Op α
    | .diag n d, c => .diag n fun i => d i * c
    | .constDiag n v, c => .constDiag n (v * c)
    | .identity n, c => .constDiag n (1 * c)
    | .kronDiag x y, c => .diag (x.rows * y.rows) fun i => (Op.kronDiag x y).diagOf i * c
    | .tri up t, c => .tri up (mulConst S t c)
    | .root r, c => if S.pos c then .root (mulConst S r (S.sqrt c)) else .constMul (.root r) c
    | .lowRankRoot r, c =>
      if S.pos c then .lowRankRoot (mulConst S r (S.sqrt c)) else .constMul (.lowRankRoot r) c
    | .chol r, c => if S.pos c then .chol (mulConst S r (S.sqrt c)) else .constMul (.chol r) c
    -- CholLinearOperator._mul_constant (1d40e0d): upper orientation kept when folding sqrt(c)
    | .cholU r, c => if S.pos c then .cholU (mulConst S r (S.sqrt c)) else .constMul (.cholU r) c
    | .mul a b, c => if S.pos c then mkMul (mulConst S a c) b else .constMul (.mul a b) c
    | .sum l, c => .sum (mulConstL S l c)
    | .psdSum l, c => .psdSum (mulConstL S l c)
    -- SumKroneckerLinearOperator._mul_constant (608f21e): a plain SumLinearOperator of the scaled summands
    | .sumKron a b, c => .sum [mulConst S a c, mulConst S b c]
    | .addedDiag a d, c => .addedDiag (mulConst S a c) (mulConst S d c)
    | .kronAddedDiag a d, c => .kronAddedDiag (mulConst S a c) (mulConst S d c)
    | .lrrAddedDiag a d, c =>
      if S.pos c then .lrrAddedDiag (mulConst S a c) (mulConst S d c)
      else .addedDiag (mulConst S a c) (mulConst S d c)
    | o, c => .constMul o c
  def mulConstL (S : ScalarOps α) : List (Op α) → α → List (Op α)
    | [], _ => []
    | a :: l, c => mulConst S a c :: mulConstL S l c
end

/-- public `mul(scalar)` (python numbers are tensorised first): `ZeroLinearOperator.mul` returns a Zero of the
broadcast shape, every other class goes to its `_mul_constant`. -/
def mulScalar (S : ScalarOps α) (a : Op α) (c : α) : Op α :=
  match a with
  | .zero n m => .zero n m
  | a => mulConst S a c

/-- `div(scalar)` = `mul(1/scalar)` (`cinv` is the reciprocal); `ZeroLinearOperator.div` returns self. -/
def divScalar (S : ScalarOps α) (a : Op α) (cinv : α) : Op α :=
  match a with
  | .zero n m => .zero n m
  | a => mulScalar S a cinv

/-- `__sub__`: `self + other.mul(-1)`. -/
def sub (S : ScalarOps α) (a b : Op α) : Except Err (Op α) :=
  add a (mulScalar S b (-1))

/-! ### elementwise product of two operators (`mul` → `_mul_matrix`) -/

def Op.isTri : Op α → Bool | .tri .. => true | _ => false
def Op.triUpper : Op α → Bool | .tri up _ => up | _ => false

/-- `a.mul(b)` for an operator `b`.  The base class builds a MulLinearOperator from root
decompositions (`rootDec` is that numerical primitive: it must return a root-form operator).
Identity has no override any more: it takes the ConstantDiag / Diag branches. -/
def mulMatrix (rootDec : Op α → Op α) (a b : Op α) : Except Err (Op α) :=
  match a with
  | .zero n m => .ok (.zero n m)
  | a =>
    if b.isZero then .ok b   -- (d734ac2: `other.mul(self)`: a Zero of the broadcast shape — `BOp.mulZeroRight` for batches)
    else if a.isTri then
      -- `TriangularLinearOperator._mul_matrix` (be9ba88): Triangular(self.to_dense() * other.to_dense(), upper=self.upper)
      .ok (.tri a.triUpper (.dense a.rows a.cols fun i j => a.denote i j * b.denote i j))
    else if a.isConstDiag && b.isConstDiag then
      if a.rows = b.rows then .ok (.constDiag a.rows (a.diagOf 0 * b.diagOf 0)) else .error .shape
    else if a.isDiag then .ok (.diag a.rows fun i => a.diagOf i * b.denote i i)
    else if a.isDense || b.isDense then
      .ok (.dense a.rows a.cols fun i j => a.denote i j * b.denote i j)
    else
      let ra := if a.isRoot then a else rootDec a
      let rb := if b.isRoot then b else rootDec b
      .ok (mkMul ra rb)

/-! Formulas of the code BEFORE the `fix:` commits 63d7878 / 7b74d3a, kept only for the named
`old_code_*` counterexamples in the property file. -/

/-- old `IdentityLinearOperator._mul_matrix`: `return other`. -/
def oldIdentityMulMatrix (_n : Nat) (b : Op α) : Op α := b

/-- old `ZeroLinearOperator.mul(python number)`: AttributeError (`none`). -/
def oldZeroMulPyNumber (_n _m : Nat) : Option (Op α) := none

/-! ### `matmul` with an operator on the right -/

def matmulOp (a b : Op α) : Except Err (Op α) :=
  match a with
  | .zero n _ => .ok (.zero n b.cols)
  | .identity _ => .ok b
  | a =>
    if a.isConstDiag && b.isConstDiag then
      if a.rows = b.rows then .ok (.constDiag a.rows (a.diagOf 0 * b.diagOf 0)) else .error .shape
    else if a.isDiag then
      match b with
      | .dense _ m t => .ok (.dense a.rows m fun i j => a.diagOf i * t i j)
      | .tri up (.dense _ m t) => .ok (.tri up (.dense a.rows m fun i j => a.diagOf i * t i j))
      | .tri up t => .ok (.tri up (.matmul a t))   -- Triangular(self @ other._tensor): a non-Dense `_tensor` gives a lazy Matmul
      | b =>
        if b.isDiag then .ok (.diag a.rows fun i => a.diagOf i * b.diagOf i)
        else .ok (.matmul a b)
    else .ok (.matmul a b)

/-! ### expression programs -/

inductive Prog (α : Type) where
  | leaf (o : Op α)
  | add (p q : Prog α)
  | sub (p q : Prog α)
  | mulC (c : α) (p : Prog α)
  | divC (c cinv : α) (p : Prog α)       -- `cinv` is `1/c`
  | mulM (p q : Prog α)
  | matmul (k : Nat) (p q : Prog α)       -- inner dimension `k`
  | addDiag (g : DiagArg α) (p : Prog α)
  | jitter (c : α) (p : Prog α)
  | transpose (p : Prog α)

namespace Prog
mutual
  def rows : Prog α → Nat
    | leaf o => o.rows | add p _ => p.rows | sub p _ => p.rows | mulC _ p => p.rows | divC _ _ p => p.rows
    | mulM p _ => p.rows | matmul _ p _ => p.rows | addDiag _ p => p.rows | jitter _ p => p.rows
    | transpose p => p.cols
  def cols : Prog α → Nat
    | leaf o => o.cols | add p _ => p.cols | sub p _ => p.cols | mulC _ p => p.cols | divC _ _ p => p.cols
    | mulM p _ => p.cols | matmul _ _ q => q.cols | addDiag _ p => p.cols | jitter _ p => p.cols
    | transpose p => p.rows
end
end Prog

/-- The dense evaluation of a program (what torch computes on dense tensors). -/
def Spec.eval : Prog α → NMat α
  | .leaf o => o.denote
  | .add p q => fun i j => Spec.eval p i j + Spec.eval q i j
  | .sub p q => fun i j => Spec.eval p i j + Spec.eval q i j * (-1)
  | .mulC c p => fun i j => Spec.eval p i j * c
  | .divC _ cinv p => fun i j => Spec.eval p i j * cinv
  | .mulM p q => fun i j => Spec.eval p i j * Spec.eval q i j
  | .matmul k p q => fun i j => sumN k fun l => Spec.eval p i l * Spec.eval q l j
  | .addDiag g p => fun i j => Spec.eval p i j + (if i = j then g.fn i else 0)
  | .jitter c p => fun i j => Spec.eval p i j + (if i = j then c else 0)
  | .transpose p => fun i j => Spec.eval p j i

structure Env (α : Type) where
  S : ScalarOps α
  rootDec : Op α → Op α

/-- shape assertion: the result has the shape torch gives the dense expression. -/
def checkShape (n m : Nat) (r : Op α) : Except Err (Op α) :=
  if r.rows = n ∧ r.cols = m then .ok r else .error .shape

def sameShape (a b : Op α) : Bool := a.rows == b.rows && a.cols == b.cols

/-- The library's evaluation of a program: every step goes through the dispatch above.  Binary elementwise
steps require equal matrix shapes (`torch.broadcast_shapes` on the matrix dims), `matmul` the inner dimension. -/
def Impl.eval (E : Env α) : Prog α → Except Err (Op α)
  | .leaf o => .ok o
  | .add p q => do
    let a ← Impl.eval E p; let b ← Impl.eval E q
    if sameShape a b then
      let r ← add a b; checkShape a.rows a.cols r
    else .error .shape
  | .sub p q => do
    let a ← Impl.eval E p; let b ← Impl.eval E q
    if sameShape a b then
      let r ← sub E.S a b; checkShape a.rows a.cols r
    else .error .shape
  | .mulC c p => do
    let a ← Impl.eval E p
    checkShape a.rows a.cols (mulScalar E.S a c)
  | .divC _ cinv p => do
    let a ← Impl.eval E p
    checkShape a.rows a.cols (divScalar E.S a cinv)
  | .mulM p q => do
    let a ← Impl.eval E p; let b ← Impl.eval E q
    if sameShape a b then
      let r ← mulMatrix E.rootDec a b; checkShape a.rows a.cols r
    else .error .shape
  | .matmul k p q => do
    let a ← Impl.eval E p; let b ← Impl.eval E q
    if a.cols = k ∧ b.rows = k then
      let r ← matmulOp a b; checkShape a.rows b.cols r
    else .error .shape
  | .addDiag g p => do
    let a ← Impl.eval E p
    let r ← addDiagonal a g; checkShape a.rows a.cols r
  | .jitter c p => do
    let a ← Impl.eval E p
    let r ← addJitter a c; checkShape a.rows a.cols r
  | .transpose p => do
    let a ← Impl.eval E p
    checkShape a.cols a.rows (transposeOp a)

end impl

/-! ### class names and class trees (what the correspondence compares) -/
namespace Op
variable {α : Type}

def clsName : Op α → String
  | dense .. => "Dense" | diag .. => "Diag" | constDiag .. => "ConstantDiag" | identity .. => "Identity"
  | zero .. => "Zero" | tri .. => "Triangular" | toep .. => "Toeplitz" | opq c .. => s!"Opaque{c}"
  | root .. => "Root" | lowRankRoot .. => "LowRankRoot" | chol .. => "Chol" | cholU .. => "Chol"
  | kron .. => "KroneckerProduct" | kronTri .. => "KroneckerProductTriangular" | kronDiag .. => "KroneckerProductDiag"
  | addedDiag .. => "AddedDiag" | kronAddedDiag .. => "KroneckerProductAddedDiag"
  | lrrAddedDiag .. => "LowRankRootAddedDiag" | sum .. => "Sum" | psdSum .. => "PsdSum"
  | sumKron .. => "SumKronecker" | matmul .. => "Matmul" | mul .. => "Mul" | constMul .. => "ConstantMul"

/-- orientation flag (`upper`) as printed in class trees. -/
def flag (up : Bool) : String := if up then "[U]" else "[L]"

mutual
  def tree : Op α → String
    | tri up t => "Triangular" ++ flag up ++ "(" ++ t.tree ++ ")"
    | root r => "Root(" ++ r.tree ++ ")"
    | lowRankRoot r => "LowRankRoot(" ++ r.tree ++ ")"
    | chol r => "Chol[L](" ++ r.tree ++ ")"
    | cholU r => "Chol[U](" ++ r.tree ++ ")"
    | kron a b => "KroneckerProduct(" ++ a.tree ++ "," ++ b.tree ++ ")"
    | kronTri up a b => "KroneckerProductTriangular" ++ flag up ++ "(" ++ a.tree ++ "," ++ b.tree ++ ")"
    | kronDiag a b => "KroneckerProductDiag(" ++ a.tree ++ "," ++ b.tree ++ ")"
    | addedDiag a d => "AddedDiag(" ++ a.tree ++ "," ++ d.tree ++ ")"
    | kronAddedDiag a d => "KroneckerProductAddedDiag(" ++ a.tree ++ "," ++ d.tree ++ ")"
    | lrrAddedDiag a d => "LowRankRootAddedDiag(" ++ a.tree ++ "," ++ d.tree ++ ")"
    | sum l => "Sum(" ++ treeL l ++ ")"
    | psdSum l => "PsdSum(" ++ treeL l ++ ")"
    | sumKron a b => "SumKronecker(" ++ a.tree ++ "," ++ b.tree ++ ")"
    | matmul a b => "Matmul(" ++ a.tree ++ "," ++ b.tree ++ ")"
    | mul a b => "Mul(" ++ a.tree ++ "," ++ b.tree ++ ")"
    | constMul a _ => "ConstantMul(" ++ a.tree ++ ")"
    | o => o.clsName
  def treeL : List (Op α) → String
    | [] => ""
    | [a] => a.tree
    | a :: l => a.tree ++ "," ++ treeL l
end
end Op

end LinOp.C02
