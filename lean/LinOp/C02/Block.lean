import LinOp.C02.Model
/-!
C02 — `cat` (matrix dimensions), `cat_rows` and `add_low_rank` (value part).  Core Lean only.
`CatLinearOperator` overrides none of the composition methods: in the dispatch model it is an opaque class (`Op.opq cls`)
whose matrix is the block matrix of its pieces.

Mirrored code: cat_linear_operator.py `cat` / `CatLinearOperator.__init__` (two pieces, dim ∈ {-2, -1});
_linear_operator.py `cat_rows` (`Cat(Cat(A, B, -2), Cat(Bᵀ, D, -2), -1)`), `add_low_rank` (`self + Dense(B Bᵀ)`; a
SumLinearOperator is extended by the new term and — below `max_cholesky_size` — returned as a DenseLinearOperator).
-/
namespace LinOp.C02
open Op
variable {α : Type}

/-- rows of `A` (`n` of them) above the rows of `B`. -/
def vcat (n : Nat) (A B : NMat α) : NMat α := fun i j => if i < n then A i j else B (i - n) j
/-- columns of `A` (`m` of them) left of the columns of `B`. -/
def hcat (m : Nat) (A B : NMat α) : NMat α := fun i j => if j < m then A i j else B i (j - m)

section
variable [Zero α] [One α] [Add α] [Mul α] [Neg α]

/-- `cat([a, b], dim=-2)` (`rowwise`) / `dim=-1`: the other matrix dimension must agree. -/
def catOp (rowwise : Bool) (cls : Nat) (a b : Op α) : Except Err (Op α) :=
  if rowwise then
    if a.cols = b.cols then .ok (.opq cls (a.rows + b.rows) a.cols (vcat a.rows a.denote b.denote)) else .error .shape
  else
    if a.rows = b.rows then .ok (.opq cls a.rows (a.cols + b.cols) (hcat a.cols a.denote b.denote)) else .error .shape

/-- `a.cat_rows(B, D)` with `B : o × n`, `D : o × o` (value part; the cached roots are C12's / C06's). -/
def catRowsOp (cls : Nat) (a : Op α) (o : Nat) (B D : NMat α) : Except Err (Op α) := do
  let up ← catOp true cls a (.dense o a.cols B)
  let lo ← catOp true cls (.dense a.cols o fun i j => B j i) (.dense o o D)
  catOp false cls up lo

/-- `a.add_low_rank(B)` with `B : n × k` (value part). -/
def addLowRank (a : Op α) (k : Nat) (B : NMat α) : Except Err (Op α) :=
  let bbt : NMat α := fun i j => sumN k fun l => B i l * B j l
  if a.rows ≠ a.cols then .error .shape
  else if a.isSum then .ok (.dense a.rows a.cols fun i j => a.denote i j + bbt i j)
  else add a (.dense a.rows a.rows bbt)
end
end LinOp.C02
