import LinOp.C02.ProofsBatch3
import LinOp.C02.BProg
/-! C02 helper lemmas: range preservation of torch's index maps, all-programs refinement for `BProg`. -/
namespace LinOp.C02
open BOp
set_option linter.unusedSimpArgs false
set_option linter.unusedVariables false
set_option linter.unusedSectionVars false

theorem inRange_iff : ∀ (S : Shape) (I : BIdx), inRange S I = true ↔
    (I.length = S.length ∧ ∀ k, k < S.length → I.getD k 0 < S.getD k 1)
  | [], [] => by simp [inRange]
  | [], _ :: _ => by simp [inRange]
  | _ :: _, [] => by simp [inRange]
  | s :: S, i :: I => by
    simp only [inRange, Bool.and_eq_true, decide_eq_true_eq, inRange_iff S I, List.length_cons]
    constructor
    · rintro ⟨h1, h2, h3⟩
      refine ⟨by omega, fun k hk => ?_⟩
      cases k with
      | zero => simpa using h1
      | succ k => simpa using h3 k (by omega)
    · rintro ⟨h1, h2⟩
      refine ⟨by simpa using h2 0 (by omega), by omega, fun k hk => ?_⟩
      simpa using h2 (k + 1) (by omega)

/-- `unsqueeze`: a valid index of the unsqueezed shape reads the old tensor at a valid index. -/
theorem eraseIdx_inRange : ∀ (d : Nat) (S : Shape) (idx : BIdx), d ≤ S.length →
    inRange (S.insertIdx d 1) idx = true → inRange S (idx.eraseIdx d) = true
  | 0, S, [], _, h => by simp [inRange] at h
  | 0, S, i :: idx, _, h => by
    simp only [List.insertIdx_zero, inRange, Bool.and_eq_true] at h
    simpa using h.2
  | d + 1, [], _, hd, _ => by simp at hd
  | d + 1, s :: S, [], _, h => by simp [inRange] at h
  | d + 1, s :: S, i :: idx, hd, h => by
    simp only [List.insertIdx_succ_cons, inRange, Bool.and_eq_true, List.eraseIdx_cons_succ] at h ⊢
    exact ⟨h.1, eraseIdx_inRange d S idx (by simpa using hd) h.2⟩

/-- `sum(dim)` / `prod(dim)`: every summand index is a valid index of the old shape. -/
theorem insertIdx_inRange : ∀ (d : Nat) (S : Shape) (idx : BIdx) (k : Nat), d < S.length → k < S.getD d 0 →
    inRange (S.eraseIdx d) idx = true → inRange S (idx.insertIdx d k) = true
  | _, [], _, _, hd, _, _ => by simp at hd
  | 0, s :: S, idx, k, _, hk, h => by
    simp only [List.getD_cons_zero] at hk
    simp only [List.eraseIdx_cons_zero] at h
    simp [inRange, hk, h]
  | d + 1, s :: S, [], k, hd, hk, h => by simp [inRange] at h
  | d + 1, s :: S, i :: idx, k, hd, hk, h => by
    simp only [List.eraseIdx_cons_succ, inRange, Bool.and_eq_true, List.insertIdx_succ_cons] at h ⊢
    exact ⟨h.1, insertIdx_inRange d S idx k (by simpa using hd) (by simpa using hk) h.2⟩

theorem zipWith_bc_inRange : ∀ (s T : Shape) (I : BIdx), s.length = T.length → inRange T I = true →
    (List.zipWith (fun old new => old == 1 || old == new) s T).all id = true →
    inRange s (List.zipWith (fun sz i => if sz = 1 then 0 else i) s I) = true
  | [], [], [], _, _, _ => by simp [inRange]
  | [], [], _ :: _, _, h, _ => by simp [inRange] at h
  | [], _ :: _, _, hl, _, _ => by simp at hl
  | _ :: _, [], _, hl, _, _ => by simp at hl
  | _ :: _, _ :: _, [], _, h, _ => by simp [inRange] at h
  | a :: s, t :: T, i :: I, hl, h, hz => by
    simp only [inRange, Bool.and_eq_true, decide_eq_true_eq, List.zipWith_cons_cons, List.all_cons, id,
      Bool.or_eq_true, beq_iff_eq] at h hz ⊢
    refine ⟨?_, zipWith_bc_inRange s T I (by simpa using hl) h.2 hz.2⟩
    rcases hz.1 with h1 | h1
    · simp [h1]
    · by_cases ha : a = 1
      · simp [ha]
      · simp only [ha, if_false]; omega

theorem inRange_drop : ∀ (k : Nat) (S : Shape) (I : BIdx), inRange S I = true → inRange (S.drop k) (I.drop k) = true
  | 0, _, _, h => by simpa using h
  | k + 1, [], [], h => by simp [inRange]
  | k + 1, [], _ :: _, h => by simp [inRange] at h
  | k + 1, _ :: _, [], h => by simp [inRange] at h
  | k + 1, _ :: S, _ :: I, h => by
    simp only [inRange, Bool.and_eq_true] at h
    simpa using inRange_drop k S I h.2

/-- `expand` / broadcasting: a valid index of the target shape is read at a valid index of the source shape. -/
theorem bcast_inRange (s S' : Shape) (idx : BIdx) (hok : expOk s S' = true) (h : inRange S' idx = true) :
    inRange s (bcast s idx) = true := by
  simp only [expOk, Bool.and_eq_true, decide_eq_true_eq] at hok
  unfold bcast
  rw [inRange_length S' idx h]
  exact zipWith_bc_inRange s _ _ (by simp; omega) (inRange_drop _ S' idx h) hok.2

/-- `permute`: a valid index of the permuted shape is read at a valid index of the old shape. -/
theorem permIdx_inRange (dims : List Nat) (S : Shape) (idx : BIdx) (hl : dims.length = S.length)
    (hall : ∀ j, j < S.length → j ∈ dims) (h : inRange (permShape dims S) idx = true) :
    inRange S (permIdx dims idx) = true := by
  rw [inRange_iff] at h ⊢
  obtain ⟨h1, h2⟩ := h
  simp only [permShape, List.length_map] at h1 h2
  refine ⟨by simp [permIdx, hl], fun j hj => ?_⟩
  have hm := hall j hj
  have hp : dims.idxOf j < dims.length := List.idxOf_lt_length_of_mem hm
  have h3 := h2 (dims.idxOf j) hp
  have hj' : j < dims.length := by omega
  simp only [permIdx, List.getD_eq_getElem?_getD, List.getElem?_map, List.getElem?_range hj', Option.map_some,
    Option.getD_some] at h3 ⊢
  simpa [List.getElem?_eq_getElem hp, List.getElem_idxOf hp] using h3

section refine
variable {α : Type} [CommRing α]

theorem prodN_congr (k : Nat) (f g : Nat → α) (h : ∀ l, l < k → f l = g l) : prodN k f = prodN k g := by
  induction k with
  | zero => rfl
  | succ k ih =>
    simp only [prodN]
    rw [ih (fun l hl => h l (by omega)), h k (by omega)]

/-- the torch rewrite of a dense batched tensor only reads valid indices of the old shape. -/
theorem spec_congr (ρ : Rewrite) (S : Shape) (hv : ρ.valid S = true) (u v : BIdx → NMat α)
    (huv : ∀ idx, inRange S idx = true → ∀ i j, u idx i j = v idx i j) (idx : BIdx)
    (hidx : inRange (ρ.shape S) idx = true) (i j : Nat) :
    ρ.spec S u idx i j = ρ.spec S v idx i j := by
  cases ρ with
  | expand S' => exact huv _ (bcast_inRange S S' idx hv hidx) i j
  | permute dims =>
    simp only [Rewrite.valid, Bool.and_eq_true, beq_iff_eq, List.all_eq_true, List.mem_range] at hv
    exact huv _ (permIdx_inRange dims S idx hv.1 (fun j hj => by simpa using hv.2 j hj) hidx) i j
  | unsqueeze d => exact huv _ (eraseIdx_inRange d S idx (by simpa [Rewrite.valid] using hv) hidx) i j
  | sum d =>
    simp only [Rewrite.valid, decide_eq_true_eq] at hv
    exact sumN_congr _ _ _ fun k hk => huv _ (insertIdx_inRange d S idx k hv hk hidx) i j
  | prod d =>
    simp only [Rewrite.valid, decide_eq_true_eq] at hv
    exact prodN_congr _ _ _ fun k hk => huv _ (insertIdx_inRange d S idx k hv hk hidx) i j

mutual
  theorem shape_sumBatch (d : Nat) (o r : BOp α) (hr : sumBatch d o = some r) : r.rows = o.rows ∧ r.cols = o.cols := by
    cases o with
    | dense bs n m t => simp only [sumBatch, Option.some.injEq] at hr; subst hr; simp [rows, cols]
    | diag bs n v => simp only [sumBatch, Option.some.injEq] at hr; subst hr; simp [rows, cols]
    | constDiag bs n c => simp only [sumBatch, Option.some.injEq] at hr; subst hr; simp [rows, cols]
    | identity bs n => simp only [sumBatch, Option.some.injEq] at hr; subst hr; simp [rows, cols]
    | zero bs n m => simp only [sumBatch, Option.some.injEq] at hr; subst hr; simp [rows, cols]
    | tri up t =>
      simp only [sumBatch, Option.map_eq_some_iff] at hr
      obtain ⟨t', ht, rfl⟩ := hr
      simpa [rows, cols] using shape_sumBatch d t t' ht
    | sum l =>
      simp only [sumBatch, Option.map_eq_some_iff] at hr
      obtain ⟨l', hl, rfl⟩ := hr
      simpa [rows, cols] using shapeL_sumBatch d l l' hl
    | toep bs n col => simp [sumBatch] at hr
    | root x => simp [sumBatch] at hr
    | matmul a b => simp [sumBatch] at hr
    | constMul a cbs c => simp [sumBatch] at hr
  theorem shapeL_sumBatch (d : Nat) (l l' : List (BOp α)) (hr : sumBatchL d l = some l') :
      rowsL l' = rowsL l ∧ colsL l' = colsL l := by
    cases l with
    | nil => simp only [sumBatchL, Option.some.injEq] at hr; subst hr; simp
    | cons a l =>
      simp only [sumBatchL] at hr
      obtain ⟨a', ha, hr⟩ := bind_some _ _ _ hr
      obtain ⟨l2, hl, hr⟩ := bind_some _ _ _ hr
      simp only [pure, Option.some.injEq] at hr
      subst hr
      simpa [rowsL, colsL] using shape_sumBatch d a a' ha
end

theorem shape_prodBatch (d : Nat) (o r : BOp α) (hr : prodBatch d o = some r) : r.rows = o.rows ∧ r.cols = o.cols := by
  cases o with
  | dense bs n m t => simp only [prodBatch, Option.some.injEq] at hr; subst hr; simp [rows, cols]
  | diag bs n v => simp only [prodBatch, Option.some.injEq] at hr; subst hr; simp [rows, cols]
  | constDiag bs n c => simp only [prodBatch, Option.some.injEq] at hr; subst hr; simp [rows, cols]
  | identity bs n => simp only [prodBatch, Option.some.injEq] at hr; subst hr; simp [rows, cols]
  | zero bs n m => simp only [prodBatch, Option.some.injEq] at hr; subst hr; simp [rows, cols]
  | tri up t => simp [prodBatch] at hr
  | sum l => simp [prodBatch] at hr
  | toep bs n col => simp [prodBatch] at hr
  | root x => simp [prodBatch] at hr
  | matmul a b => simp [prodBatch] at hr
  | constMul a cbs c => simp [prodBatch] at hr

/-- no batch rewrite changes the matrix shape. -/
theorem shape_rewrite (ρ : Rewrite) (o r : BOp α) (hok : ρ.okFor o = true) (h : ρ.apply o = .ok r) :
    r.rows = o.rows ∧ r.cols = o.cols := by
  cases ρ with
  | expand S' =>
    simp only [Rewrite.apply, Except.ok.injEq] at h; subst h
    exact shape_expand S' o
  | permute dims =>
    simp only [Rewrite.apply, Except.ok.injEq] at h; subst h
    simp only [Rewrite.okFor, Bool.and_eq_true, Bool.not_eq_true'] at hok
    rw [permuteBatch_eq_reindex dims o hok.1]
    exact shape_reindex _ _ o
  | unsqueeze d =>
    simp only [Rewrite.apply, Except.ok.injEq] at h; subst h
    exact shape_reindex _ _ o
  | sum d =>
    simp only [Rewrite.apply] at h
    cases hs : sumBatch d o with
    | none => simp [hs] at h
    | some x => simp only [hs, Except.ok.injEq] at h; subst h; exact shape_sumBatch d o x hs
  | prod d =>
    simp only [Rewrite.apply] at h
    cases hs : prodBatch d o with
    | none => simp [hs] at h
    | some x => simp only [hs, Except.ok.injEq] at h; subst h; exact shape_prodBatch d o x hs

theorem beval_refines_aux (p : BProg α) : ∀ r, beval p = .ok r →
    ∃ x, bspec p = some x ∧ r.uniform x.bs = true ∧ r.bshape = x.bs ∧ r.rows = x.rows ∧ r.cols = x.cols ∧
      ∀ idx, inRange x.bs idx = true → ∀ i j, r.denote idx i j = x.v idx i j := by
  induction p with
  | leaf o =>
    intro r h
    simp only [beval] at h
    split at h
    · rename_i hu
      simp only [Except.ok.injEq] at h; subst h
      exact ⟨⟨o.bshape, o.rows, o.cols, o.denote⟩, rfl, hu, rfl, rfl, rfl, fun _ _ _ _ => rfl⟩
    · simp at h
  | rw ρ p ih =>
    intro r h
    simp only [beval] at h
    cases h0 : beval p with
    | error e => simp [h0] at h
    | ok r0 =>
      simp only [h0] at h
      obtain ⟨x, hs, hu, hb, hrw, hcl, hval⟩ := ih r0 h0
      split at h
      · rename_i hc
        simp only [Bool.and_eq_true] at hc
        rw [hb] at hc
        have hun := rewrite_uniform_aux ρ x.bs r0 r hu hc.1 h
        have hsh := shape_rewrite ρ r0 r hc.1 h
        refine ⟨⟨ρ.shape x.bs, x.rows, x.cols, ρ.spec x.bs x.v⟩, by simp [bspec, hs], hun, bshape_of_uniform _ r hun,
          by rw [hsh.1, hrw], by rw [hsh.2, hcl], fun idx hidx i j => ?_⟩
        rw [rewrite_value_aux ρ x.bs r0 r hu hc.1 h idx hidx i j]
        exact spec_congr ρ x.bs hc.2 _ _ hval idx hidx i j
      · simp at h
  | add p q ihp ihq =>
    intro r h
    simp only [beval] at h
    cases hp : beval p with
    | error e => simp [hp] at h
    | ok a =>
      cases hq : beval q with
      | error e => simp [hp, hq] at h
      | ok b =>
        simp only [hp, hq] at h
        obtain ⟨x, hsa, hua, hba, hra, hca, hva⟩ := ihp a hp
        obtain ⟨y, hsb, hub, hbb, hrb, hcb, hvb⟩ := ihq b hq
        rw [hba, hbb] at h
        cases hS : bshapes x.bs y.bs with
        | none => simp [hS] at h
        | some S =>
          simp only [hS] at h
          split at h
          · rename_i hc
            simp only [Bool.and_eq_true] at hc
            obtain ⟨S', h1, h2, h3, h4, h5, h6⟩ := mkSum2_value a b r x.bs y.bs hua hub h
            rw [hS] at h1
            cases h1
            refine ⟨⟨S, x.rows, x.cols, fun idx i j => x.v (bcast x.bs idx) i j + y.v (bcast y.bs idx) i j⟩,
              by simp [bspec, hsa, hsb, hS], h3, h2, by rw [h4, hra], by rw [h5, hca], fun idx hidx i j => ?_⟩
            rw [h6 idx hidx i j, hva _ (bcast_inRange x.bs S idx hc.1 hidx), hvb _ (bcast_inRange y.bs S idx hc.2 hidx)]
            ring
          · simp at h
  | matmul p q ihp ihq =>
    intro r h
    simp only [beval] at h
    cases hp : beval p with
    | error e => simp [hp] at h
    | ok a =>
      cases hq : beval q with
      | error e => simp [hp, hq] at h
      | ok b =>
        simp only [hp, hq] at h
        obtain ⟨x, hsa, hua, hba, hra, hca, hva⟩ := ihp a hp
        obtain ⟨y, hsb, hub, hbb, hrb, hcb, hvb⟩ := ihq b hq
        rw [hba, hbb] at h
        split at h
        · rename_i hin
          cases hS : bshapes x.bs y.bs with
          | none => simp [hS] at h
          | some S =>
            simp only [hS] at h
            split at h
            · rename_i hc
              simp only [Bool.and_eq_true] at hc
              obtain ⟨S', h1, h2, h3, h4, h5, h6⟩ := mkMatmul_value a b r x.bs y.bs hua hub h
              rw [hS] at h1
              cases h1
              have hin' : x.cols = y.rows := by rw [← hca, ← hrb]; exact hin
              refine ⟨⟨S, x.rows, y.cols,
                  fun idx i j => sumN x.cols fun k => x.v (bcast x.bs idx) i k * y.v (bcast y.bs idx) k j⟩,
                by simp [bspec, hsa, hsb, hS, hin'], h3, h2, by rw [h4, hra], by rw [h5, hcb], fun idx hidx i j => ?_⟩
              rw [h6 idx hidx i j, hca]
              exact sumN_congr _ _ _ fun k _ => by
                rw [hva _ (bcast_inRange x.bs S idx hc.1 hidx), hvb _ (bcast_inRange y.bs S idx hc.2 hidx)]
            · simp at h
        · simp at h
end refine

end LinOp.C02
