import LinOp.C02.Batch
import LinOp.C02.Proofs
/-! C02 helper lemmas for the batched layer (LinOp/C02/Batch.lean). -/
namespace LinOp.C02
open BOp
variable {α : Type} [CommRing α]
set_option linter.unusedSimpArgs false
set_option linter.unusedVariables false
set_option linter.unusedSectionVars false

/-! ### index arithmetic -/

theorem inRange_length : ∀ (S : Shape) (idx : BIdx), inRange S idx = true → idx.length = S.length
  | [], [], _ => rfl
  | [], _ :: _, h => by simp [inRange] at h
  | _ :: _, [], h => by simp [inRange] at h
  | sz :: s, i :: idx, h => by
    simp only [inRange, Bool.and_eq_true] at h
    simp [inRange_length s idx h.2]

theorem zipWith_bc_id : ∀ (S : Shape) (idx : BIdx), inRange S idx = true →
    List.zipWith (fun sz i => if sz = 1 then 0 else i) S idx = idx
  | [], [], _ => rfl
  | [], _ :: _, h => by simp [inRange] at h
  | _ :: _, [], h => by simp [inRange] at h
  | sz :: s, i :: idx, h => by
    simp only [inRange, Bool.and_eq_true, decide_eq_true_eq] at h
    simp only [List.zipWith_cons_cons, zipWith_bc_id s idx h.2]
    by_cases h1 : sz = 1
    · have : i = 0 := by omega
      simp [h1, this]
    · simp [h1]

/-- a valid index of a tensor of shape `S` is read as it is. -/
theorem bcast_id (S : Shape) (idx : BIdx) (h : inRange S idx = true) : bcast S idx = idx := by
  unfold bcast
  rw [inRange_length S idx h]
  simp [zipWith_bc_id S idx h]

theorem zipWith_bc_idem : ∀ (S : Shape) (x : BIdx),
    List.zipWith (fun sz i => if sz = 1 then 0 else i) S (List.zipWith (fun sz i => if sz = 1 then 0 else i) S x)
      = List.zipWith (fun sz i => if sz = 1 then 0 else i) S x
  | [], _ => by simp
  | _ :: _, [] => by simp
  | sz :: s, i :: x => by
    simp only [List.zipWith_cons_cons, zipWith_bc_idem s x]
    by_cases h1 : sz = 1 <;> simp [h1]

theorem bcast_idem (S : Shape) (idx : BIdx) : bcast S (bcast S idx) = bcast S idx := by
  unfold bcast
  have hl : (List.zipWith (fun sz i => if sz = 1 then 0 else i) S (List.drop (idx.length - S.length) idx)).length - S.length = 0 := by
    simp only [List.length_zipWith]
    omega
  rw [hl]
  simp [zipWith_bc_idem]

theorem bcast_nil (idx : BIdx) : bcast [] idx = [] := by simp [bcast]

theorem bshapesRev_nil_right : ∀ l : Shape, bshapesRev l [] = some l
  | [] => rfl
  | _ :: _ => rfl

theorem bshapesRev_self : ∀ l : Shape, bshapesRev l l = some l
  | [] => rfl
  | x :: xs => by simp [bshapesRev, bshapesRev_self xs]

theorem bshapes_self (s : Shape) : bshapes s s = some s := by simp [bshapes, bshapesRev_self]
theorem bshapes_nil (s : Shape) : bshapes s [] = some s := by simp [bshapes, bshapesRev_nil_right]

/-! ### sums and products -/
theorem sumN_add (k : Nat) (f g : Nat → α) : sumN k (fun l => f l + g l) = sumN k f + sumN k g := by
  induction k with
  | zero => simp [sumN]
  | succ k ih => simp only [sumN, ih]; ring

theorem sumN_ite (k : Nat) (p : Prop) [Decidable p] (f : Nat → α) :
    sumN k (fun l => if p then f l else 0) = if p then sumN k f else 0 := by
  by_cases h : p <;> simp [h, sumN_zero]

theorem prodN_ite (k : Nat) (hk : 0 < k) (p : Prop) [Decidable p] (f : Nat → α) :
    prodN k (fun l => if p then f l else 0) = if p then prodN k f else 0 := by
  by_cases h : p
  · simp [h]
  · simp only [h, if_false]
    cases k with
    | zero => omega
    | succ k => simp [prodN]

theorem prodN_zero (k : Nat) (hk : 0 < k) : prodN k (fun _ => (0 : α)) = 0 := by
  cases k with
  | zero => omega
  | succ k => simp [prodN]

theorem prodN_one (k : Nat) : prodN k (fun _ => (1 : α)) = 1 := by
  induction k with
  | zero => rfl
  | succ k ih => simp [prodN, ih]

/-! ### shapes -/
mutual
  theorem bshape_of_uniform (S : Shape) (o : BOp α) (h : o.uniform S = true) : o.bshape = S := by
    cases o with
    | tri up t => simpa [uniform, bshape] using bshape_of_uniform S t (by simpa [uniform] using h)
    | root r => simpa [uniform, bshape] using bshape_of_uniform S r (by simpa [uniform] using h)
    | sum l => simpa [bshape] using bshapeL_of_uniform S l (by simpa [uniform] using h)
    | matmul a b =>
      simp only [uniform, Bool.and_eq_true] at h
      simpa [bshape] using bshape_of_uniform S a h.1
    | constMul a cbs c =>
      simp only [uniform, Bool.and_eq_true] at h
      simpa [bshape] using bshape_of_uniform S a h.2
    | _ => simpa [uniform, bshape] using h
  theorem bshapeL_of_uniform (S : Shape) (l : List (BOp α)) (h : (!l.isEmpty && uniformL S l) = true) : bshapeL l = S := by
    cases l with
    | nil => simp at h
    | cons a l =>
      simp only [uniformL, List.isEmpty_cons, Bool.not_false, Bool.true_and, Bool.and_eq_true] at h
      simpa [bshapeL] using bshape_of_uniform S a h.1
end

mutual
  theorem shape_reindex (φ : BIdx → BIdx) (σ : Shape → Shape) (o : BOp α) :
      (reindex φ σ o).rows = o.rows ∧ (reindex φ σ o).cols = o.cols := by
    cases o with
    | tri up t => simpa [reindex, rows, cols] using shape_reindex φ σ t
    | root r => simpa [reindex, rows, cols] using (shape_reindex φ σ r).1
    | sum l => simpa [reindex, rows, cols] using shapeL_reindex φ σ l
    | matmul a b => simpa [reindex, rows, cols] using And.intro (shape_reindex φ σ a).1 (shape_reindex φ σ b).2
    | constMul a cbs c => simpa [reindex, rows, cols] using shape_reindex φ σ a
    | _ => simp [reindex, rows, cols]
  theorem shapeL_reindex (φ : BIdx → BIdx) (σ : Shape → Shape) (l : List (BOp α)) :
      rowsL (reindexL φ σ l) = rowsL l ∧ colsL (reindexL φ σ l) = colsL l := by
    cases l with
    | nil => simp [reindexL, rowsL, colsL]
    | cons a l => simpa [reindexL, rowsL, colsL] using shape_reindex φ σ a
end

mutual
  theorem shape_expand (S : Shape) (o : BOp α) :
      (expandBatch S o).rows = o.rows ∧ (expandBatch S o).cols = o.cols := by
    cases o with
    | tri up t => simpa [expandBatch, rows, cols] using shape_expand S t
    | root r => simpa [expandBatch, rows, cols] using (shape_expand S r).1
    | sum l => simpa [expandBatch, rows, cols] using shapeL_expand S l
    | matmul a b => simpa [expandBatch, rows, cols] using And.intro (shape_expand S a).1 (shape_expand S b).2
    | constMul a cbs c => simpa [expandBatch, rows, cols] using shape_expand S a
    | _ => simp [expandBatch, rows, cols]
  theorem shapeL_expand (S : Shape) (l : List (BOp α)) :
      rowsL (expandBatchL S l) = rowsL l ∧ colsL (expandBatchL S l) = colsL l := by
    cases l with
    | nil => simp [expandBatchL, rowsL, colsL]
    | cons a l => simpa [expandBatchL, rowsL, colsL] using shape_expand S a
end

/-! ### `_permute_batch` / `_unsqueeze_batch` -/
mutual
  theorem uniform_reindex (φ : BIdx → BIdx) (σ : Shape → Shape) (S : Shape) (o : BOp α) (h : o.uniform S = true) :
      (reindex φ σ o).uniform (σ S) = true := by
    cases o with
    | tri up t => simpa [reindex, uniform] using uniform_reindex φ σ S t (by simpa [uniform] using h)
    | root r => simpa [reindex, uniform] using uniform_reindex φ σ S r (by simpa [uniform] using h)
    | sum l => simpa [reindex, uniform] using uniformL_reindex φ σ S l (by simpa [uniform] using h)
    | matmul a b =>
      simp only [uniform, Bool.and_eq_true] at h
      simp [reindex, uniform, uniform_reindex φ σ S a h.1, uniform_reindex φ σ S b h.2]
    | constMul a cbs c =>
      simp only [uniform, Bool.and_eq_true] at h
      simp [reindex, uniform, uniform_reindex φ σ S a h.2, bshape_of_uniform S a h.2]
    | _ =>
      simp only [uniform, beq_iff_eq] at h
      simp [reindex, uniform, h]
  theorem uniformL_reindex (φ : BIdx → BIdx) (σ : Shape → Shape) (S : Shape) (l : List (BOp α))
      (h : (!l.isEmpty && uniformL S l) = true) :
      (!(reindexL φ σ l).isEmpty && uniformL (σ S) (reindexL φ σ l)) = true := by
    cases l with
    | nil => simp at h
    | cons a l =>
      simp only [uniformL, List.isEmpty_cons, Bool.not_false, Bool.true_and, Bool.and_eq_true] at h
      cases l with
      | nil => simp [reindexL, uniformL, uniform_reindex φ σ S a h.1]
      | cons b l' =>
        have := uniformL_reindex φ σ S (b :: l') (by simpa using h.2)
        simp only [reindexL, List.isEmpty_cons, Bool.not_false, Bool.true_and, uniformL, Bool.and_eq_true] at this
        simp [reindexL, uniformL, uniform_reindex φ σ S a h.1, this]
end

mutual
  /-- the generic re-indexing recursion reads the old operator at `φ idx`. -/
  theorem reindex_value (φ : BIdx → BIdx) (σ : Shape → Shape) (S : Shape) (idx : BIdx) (hid : bcast (σ S) idx = idx)
      (o : BOp α) (h : o.uniform S = true) (i j : Nat) :
      (reindex φ σ o).denote idx i j = o.denote (φ idx) i j := by
    cases o with
    | tri up t => simpa [reindex, denote] using reindex_value φ σ S idx hid t (by simpa [uniform] using h) i j
    | root r =>
      have hr : r.uniform S = true := by simpa [uniform] using h
      simp only [reindex, denote, (shape_reindex φ σ r).2]
      exact sumN_congr _ _ _ fun k _ => by rw [reindex_value φ σ S idx hid r hr, reindex_value φ σ S idx hid r hr]
    | sum l => simpa [reindex, denote] using reindexL_value φ σ S idx hid l (by simpa [uniform] using h) i j
    | matmul a b =>
      simp only [uniform, Bool.and_eq_true] at h
      simp only [reindex, denote, (shape_reindex φ σ a).2]
      exact sumN_congr _ _ _ fun k _ => by rw [reindex_value φ σ S idx hid a h.1, reindex_value φ σ S idx hid b h.2]
    | constMul a cbs c =>
      simp only [uniform, Bool.and_eq_true] at h
      simp only [reindex, denote, bshape_of_uniform S a h.2, hid, reindex_value φ σ S idx hid a h.2]
    | _ => simp [reindex, denote]
  theorem reindexL_value (φ : BIdx → BIdx) (σ : Shape → Shape) (S : Shape) (idx : BIdx) (hid : bcast (σ S) idx = idx)
      (l : List (BOp α)) (h : (!l.isEmpty && uniformL S l) = true) (i j : Nat) :
      denoteL (reindexL φ σ l) idx i j = denoteL l (φ idx) i j := by
    cases l with
    | nil => simp at h
    | cons a l =>
      simp only [uniformL, List.isEmpty_cons, Bool.not_false, Bool.true_and, Bool.and_eq_true] at h
      cases l with
      | nil => simp [reindexL, denoteL, reindex_value φ σ S idx hid a h.1]
      | cons b l' =>
        have := reindexL_value φ σ S idx hid (b :: l') (by simpa using h.2) i j
        simp only [reindexL, denoteL] at this ⊢
        rw [reindex_value φ σ S idx hid a h.1, this]
end

mutual
  /-- without a ZeroLinearOperator inside, `_permute_batch` is the generic re-indexing. -/
  theorem permuteBatch_eq_reindex (dims : List Nat) (o : BOp α) (h : o.hasZero = false) :
      permuteBatch dims o = reindex (permIdx dims) (permShape dims) o := by
    cases o with
    | zero bs n m => simp [hasZero] at h
    | tri up t => simp [permuteBatch, reindex, permuteBatch_eq_reindex dims t (by simpa [hasZero] using h)]
    | root r => simp [permuteBatch, reindex, permuteBatch_eq_reindex dims r (by simpa [hasZero] using h)]
    | sum l => simp [permuteBatch, reindex, permuteBatchL_eq_reindex dims l (by simpa [hasZero] using h)]
    | matmul a b =>
      simp only [hasZero, Bool.or_eq_false_iff] at h
      simp [permuteBatch, reindex, permuteBatch_eq_reindex dims a h.1, permuteBatch_eq_reindex dims b h.2]
    | constMul a cbs c => simp [permuteBatch, reindex, permuteBatch_eq_reindex dims a (by simpa [hasZero] using h)]
    | _ => simp [permuteBatch]
  theorem permuteBatchL_eq_reindex (dims : List Nat) (l : List (BOp α)) (h : hasZeroL l = false) :
      permuteBatchL dims l = reindexL (permIdx dims) (permShape dims) l := by
    cases l with
    | nil => simp [permuteBatchL, reindexL]
    | cons a l =>
      simp only [hasZeroL, Bool.or_eq_false_iff] at h
      simp [permuteBatchL, reindexL, permuteBatch_eq_reindex dims a h.1, permuteBatchL_eq_reindex dims l h.2]
end

/-! ### `_expand_batch` -/
mutual
  theorem uniform_expand (S' S : Shape) (o : BOp α) (h : o.uniform S = true) : (expandBatch S' o).uniform S' = true := by
    cases o with
    | tri up t => simpa [expandBatch, uniform] using uniform_expand S' S t (by simpa [uniform] using h)
    | root r => simpa [expandBatch, uniform] using uniform_expand S' S r (by simpa [uniform] using h)
    | sum l => simpa [expandBatch, uniform] using uniformL_expand S' S l (by simpa [uniform] using h)
    | matmul a b =>
      simp only [uniform, Bool.and_eq_true] at h
      simp [expandBatch, uniform, uniform_expand S' S a h.1, uniform_expand S' S b h.2]
    | constMul a cbs c =>
      simp only [uniform, Bool.and_eq_true] at h
      simp [expandBatch, uniform, uniform_expand S' S a h.2]
    | _ => simp [expandBatch, uniform]
  theorem uniformL_expand (S' S : Shape) (l : List (BOp α)) (h : (!l.isEmpty && uniformL S l) = true) :
      (!(expandBatchL S' l).isEmpty && uniformL S' (expandBatchL S' l)) = true := by
    cases l with
    | nil => simp at h
    | cons a l =>
      simp only [uniformL, List.isEmpty_cons, Bool.not_false, Bool.true_and, Bool.and_eq_true] at h
      cases l with
      | nil => simp [expandBatchL, uniformL, uniform_expand S' S a h.1]
      | cons b l' =>
        have := uniformL_expand S' S (b :: l') (by simpa using h.2)
        simp only [expandBatchL, List.isEmpty_cons, Bool.not_false, Bool.true_and, uniformL, Bool.and_eq_true] at this
        simp [expandBatchL, uniformL, uniform_expand S' S a h.1, this]
end

mutual
  /-- `_expand_batch(S')` reads the old operator (all tensors of batch shape `S`) at the broadcast index. -/
  theorem expand_value (S' S : Shape) (idx : BIdx) (hidx : inRange S' idx = true) (o : BOp α) (h : o.uniform S = true)
      (i j : Nat) : (expandBatch S' o).denote idx i j = o.denote (bcast S idx) i j := by
    cases o with
    | tri up t => simpa [expandBatch, denote] using expand_value S' S idx hidx t (by simpa [uniform] using h) i j
    | root r =>
      have hr : r.uniform S = true := by simpa [uniform] using h
      simp only [expandBatch, denote, (shape_expand S' r).2]
      exact sumN_congr _ _ _ fun k _ => by rw [expand_value S' S idx hidx r hr, expand_value S' S idx hidx r hr]
    | sum l => simpa [expandBatch, denote] using expandL_value S' S idx hidx l (by simpa [uniform] using h) i j
    | matmul a b =>
      simp only [uniform, Bool.and_eq_true] at h
      simp only [expandBatch, denote, (shape_expand S' a).2]
      exact sumN_congr _ _ _ fun k _ => by rw [expand_value S' S idx hidx a h.1, expand_value S' S idx hidx b h.2]
    | constMul a cbs c =>
      simp only [uniform, Bool.and_eq_true, Bool.or_eq_true, beq_iff_eq] at h
      simp only [expandBatch, denote, bcast_id S' idx hidx, expand_value S' S idx hidx a h.2]
      rcases h.1 with h1 | h1
      · subst h1; rw [bcast_idem]
      · subst h1; simp [bcast_nil]
    | dense bs n m t => simp only [uniform, beq_iff_eq] at h; subst h; simp [expandBatch, denote]
    | diag bs n d => simp only [uniform, beq_iff_eq] at h; subst h; simp [expandBatch, denote]
    | constDiag bs n c => simp only [uniform, beq_iff_eq] at h; subst h; simp [expandBatch, denote]
    | toep bs n col => simp only [uniform, beq_iff_eq] at h; subst h; simp [expandBatch, denote]
    | identity bs n => simp [expandBatch, denote]
    | zero bs n m => simp [expandBatch, denote]
  theorem expandL_value (S' S : Shape) (idx : BIdx) (hidx : inRange S' idx = true) (l : List (BOp α))
      (h : (!l.isEmpty && uniformL S l) = true) (i j : Nat) :
      denoteL (expandBatchL S' l) idx i j = denoteL l (bcast S idx) i j := by
    cases l with
    | nil => simp at h
    | cons a l =>
      simp only [uniformL, List.isEmpty_cons, Bool.not_false, Bool.true_and, Bool.and_eq_true] at h
      cases l with
      | nil => simp [expandBatchL, denoteL, expand_value S' S idx hidx a h.1]
      | cons b l' =>
        have := expandL_value S' S idx hidx (b :: l') (by simpa using h.2) i j
        simp only [expandBatchL, denoteL] at this ⊢
        rw [expand_value S' S idx hidx a h.1, this]
end

theorem matchBatch_value (S' S : Shape) (idx : BIdx) (hidx : inRange S' idx = true) (o : BOp α) (h : o.uniform S = true)
    (i j : Nat) : (matchBatch S' o).denote idx i j = o.denote (bcast S idx) i j := by
  unfold matchBatch
  split_ifs with hs
  · rw [bshape_of_uniform S o h] at hs
    subst hs
    rw [bcast_id _ idx hidx]
  · exact expand_value S' S idx hidx o h i j

theorem matchBatch_uniform (S' S : Shape) (o : BOp α) (h : o.uniform S = true) : (matchBatch S' o).uniform S' = true := by
  unfold matchBatch
  split_ifs with hs
  · rw [bshape_of_uniform S o h] at hs
    subst hs
    exact h
  · exact uniform_expand S' S o h

theorem matchBatch_shape (S' : Shape) (o : BOp α) :
    (matchBatch S' o).rows = o.rows ∧ (matchBatch S' o).cols = o.cols := by
  unfold matchBatch
  split_ifs
  · exact ⟨rfl, rfl⟩
  · exact shape_expand S' o

end LinOp.C02
