import LinOp.C02.Batch
/-!
C02 — programs over the batched layer (`BProg`): a batch-uniform library object, any chain of batch rewrites
(`_expand_batch` / `_permute_batch` / `_unsqueeze_batch` / `_sum_batch` / `_prod_batch`, as `Rewrite` data) and the
broadcasting `SumLinearOperator(a, b)` constructor, nested in any way.  `beval` runs the model functions of `Batch.lean`
(what the driver `DriverB.lean` does step by step), `bspec` is the dense torch computation.  Core Lean only.

The evaluator checks the torch-side validity of every step (`Rewrite.valid`: `Tensor.expand` target, a permutation of the
batch dims, dims in range) and — for `+` — that both operand shapes expand to the broadcast shape (`expOk`; implied by
`torch.broadcast_shapes` succeeding; checked here at run time rather than proved, the correspondence cells show the check never
rejects what the library accepts).
-/
namespace LinOp.C02
open BOp

/-- `Tensor.expand` target check: `s` (right-aligned) fits `S'`: every old size is 1 or the new size. -/
def expOk (s S' : Shape) : Bool :=
  decide (s.length ≤ S'.length) &&
    (List.zipWith (fun old new => old == 1 || old == new) s (S'.drop (S'.length - s.length))).all id

/-- what torch demands of the rewrite's arguments for a tensor of batch shape `s`. -/
def BOp.Rewrite.valid : Rewrite → Shape → Bool
  | .expand S', s => expOk s S'
  | .permute dims, s => dims.length == s.length && (List.range s.length).all (dims.contains ·)
  | .unsqueeze d, s => decide (d ≤ s.length)
  | .sum d, s => decide (d < s.length)
  | .prod d, s => decide (d < s.length)

inductive BProg (α : Type) where
  | leaf (o : BOp α)
  | rw (ρ : Rewrite) (p : BProg α)
  | add (p q : BProg α)
  | matmul (p q : BProg α)

/-- a dense batched tensor: batch shape, matrix shape, value at every batch index. -/
structure BVal (α : Type) where
  bs : Shape
  rows : Nat
  cols : Nat
  v : BIdx → NMat α

section
variable {α : Type} [Zero α] [One α] [Add α] [Mul α]

/-- implementation side: every step is a model function of `Batch.lean`. -/
def beval : BProg α → Except Err (BOp α)
  | .leaf o => if o.uniform o.bshape then .ok o else .error .notSupported
  | .rw ρ p =>
    match beval p with
    | .ok r => if ρ.okFor r && ρ.valid r.bshape then ρ.apply r else .error .notSupported
    | .error e => .error e
  | .add p q =>
    match beval p, beval q with
    | .ok a, .ok b =>
      match bshapes a.bshape b.bshape with
      | some S => if expOk a.bshape S && expOk b.bshape S then mkSum2 a b else .error .shape
      | none => .error .shape
    | .error e, _ => .error e
    | _, .error e => .error e
  | .matmul p q =>
    match beval p, beval q with
    | .ok a, .ok b =>
      if a.cols = b.rows then
        match bshapes a.bshape b.bshape with
        | some S => if expOk a.bshape S && expOk b.bshape S then mkMatmul a b else .error .shape
        | none => .error .shape
      else .error .shape
    | .error e, _ => .error e
    | _, .error e => .error e

/-- specification side: the dense batched tensor torch computes (`expand` / `permute` / `unsqueeze` / `sum` / `prod` of a
tensor, broadcasting `+` and `@`). -/
def bspec : BProg α → Option (BVal α)
  | .leaf o => some ⟨o.bshape, o.rows, o.cols, o.denote⟩
  | .rw ρ p => (bspec p).map fun x => ⟨ρ.shape x.bs, x.rows, x.cols, ρ.spec x.bs x.v⟩
  | .add p q =>
    match bspec p, bspec q with
    | some x, some y =>
      (bshapes x.bs y.bs).map fun S =>
        ⟨S, x.rows, x.cols, fun idx i j => x.v (bcast x.bs idx) i j + y.v (bcast y.bs idx) i j⟩
    | _, _ => none
  | .matmul p q =>
    match bspec p, bspec q with
    | some x, some y =>
      if x.cols = y.rows then
        (bshapes x.bs y.bs).map fun S =>
          ⟨S, x.rows, y.cols, fun idx i j => sumN x.cols fun k => x.v (bcast x.bs idx) i k * y.v (bcast y.bs idx) k j⟩
      else none
    | _, _ => none
end

end LinOp.C02
