import LinOp.C12.Model
/-!
C12 — per-class cache overrides as part of the state machine: a WRAPPER object (its own `_memoize_cache`) together with the
caches of the sub-operator objects it holds (`BatchRepeatLinearOperator.base_linear_op`, `Block*.base_linear_op`,
`ConstantMulLinearOperator.base_linear_op`, the factors of a `KroneckerProductLinearOperator`, …).  Core Lean only.

The public methods of these classes are the base-class methods (same keys, same method choice, on the wrapper's cache); what the
classes override are the HOOKS, which delegate into the sub-operators and thereby read and write THEIR caches:

  BatchRepeat / BlockDiag / BlockInterleaved / Kronecker
    `_cholesky(upper)`  @cached(name="cholesky")  -> `sub.cholesky(upper=upper)` for every sub-operator
  BatchRepeat / BlockDiag / Kronecker            (BlockInterleaved: base class, through the wrapper's memoised `to_dense`)
    `_svd`              @cached(name="svd")       -> `sub.svd()`
    `_symeig`                                     -> `sub._symeig(...)`                       (touches a memoised `sub.to_dense`)
  BatchRepeat / BlockDiag / BlockInterleaved
    `_root_decomposition`                         -> `sub._root_decomposition()`              (Lanczos on the sub-operator)
    `_root_inv_decomposition`                     -> `sub._root_inv_decomposition()`          (its SIDE WRITE lands in the SUB's cache)
    `inv_quad_logdet` / `logdet`                  -> `sub.inv_quad_logdet(...)`               (wrapper cache untouched)
  BlockDiag / BlockInterleaved
    `zero_mean_mvn_samples`                       -> `sub.zero_mean_mvn_samples`
  ConstantMul
    `to_dense`          @cached                   ;  `_cholesky`, `_symeig`, `_svd`, Lanczos hooks: base class (dense, on the wrapper)
    `root_decomposition(method)` @cached(name="root_decomposition")
                                                  -> `sub.root_decomposition(method=method)` scaled by sqrt(c)   (constant >= 0)

A wrapper value is tagged with the wrapper's matrix id only if every sub-answer it was built from is an acceptable answer of
the sub-operator for the query the hook issued (right kind, right ORIENTATION, right matrix) — otherwise with 0 ("not a
factorization of this matrix").  Queries may also be issued directly on a sub-operator (the second handle the caller holds).
-/
namespace LinOp.C12

/-- A sub-operator object held by the wrapper: its class profile, size, matrix id and cache state. -/
structure SubObj where
  P : Profile
  n : Nat
  m : Nat
  st : St
  deriving Repr

structure WSt where
  self : St
  subs : List SubObj
  deriving Repr

def WSt.putSelf (w : WSt) (k : Key) (v : Val) : WSt := { w with self := { w.self with cache := w.self.cache.put k v } }

/-- Issue the public query `q` to every sub-operator; the flag says that every answer is acceptable for that sub-operator. -/
def subsQuery (σ : Settings) (q : Query) (w : WSt) : WSt × Bool :=
  ({ w with subs := w.subs.map fun o => { o with st := (runQuery o.P σ o.n o.m q o.st).1 } },
   w.subs.all fun o => decide (answerOk o.m q (runQuery o.P σ o.n o.m q o.st).2))

/-- `sub._symeig(...)` on every sub-operator (not memoised; touches a memoised `to_dense`). -/
def subsSymeig (w : WSt) : WSt := { w with subs := w.subs.map fun o => { o with st := symeigRun o.P o.m o.st } }

/-- `sub._root_decomposition()` on every sub-operator (a Lanczos run; no cache access). -/
def subsLanczosRoot (w : WSt) : WSt := { w with subs := w.subs.map fun o => { o with st := (lanczosRoot o.P o.m o.st).1 } }

/-- `sub._root_inv_decomposition()` on every sub-operator: the Lanczos run side-writes `root_decomposition||` into the SUB's cache. -/
def subsLanczosRootInv (σ : Settings) (w : WSt) : WSt :=
  { w with subs := w.subs.map fun o => { o with st := (rootInvBody o.P σ o.n o.m "lanczos" o.st).1 } }

/-- What a class overrides (functions of the wrapper's matrix id `m`). -/
structure Hooks where
  chol : Bool → WSt → WSt × Val        -- body of `_cholesky(upper)`
  symeig : WSt → WSt                    -- body of `_symeig`
  svd : WSt → WSt × Val                 -- body of `_svd`
  lroot : WSt → WSt × Val               -- `_root_decomposition()`
  lrootInv : WSt → WSt × Val            -- `_root_inv_decomposition()` including its side write
  denseKey : Bool                       -- `to_dense` memoised on the wrapper
  /-- what COMPUTING `to_dense` does to the sub-operators (`SumLinearOperator.to_dense` = `sum(op.to_dense() for op in linear_ops)`:
  every part whose `to_dense` is memoised gets the key). -/
  denseBody : WSt → WSt := id
  /-- a memoised `root_decomposition` override: its body either computes the answer itself (`.inl`: ConstantMul; the structured
  branch of Kronecker) or calls `super().root_decomposition(**c')` — the memoised BASE method, a second key — (`.inr c'`). -/
  rootOv : Option (Call → WSt → (WSt × Val) ⊕ Call)
  /-- the same for a memoised `root_inv_decomposition` override (Kronecker). -/
  rootInvOv : Option (Call → WSt → (WSt × Val) ⊕ Call) := none
  /-- a NON-memoised `diagonalization` override that re-binds the arguments and calls `super().diagonalization(**c')`
  (Kronecker: `method=None -> "symeig"`, always by keyword). -/
  diagzRebind : Call → Call := id
  iqlOv : Option (WSt → WSt × Val)      -- `inv_quad_logdet` override
  sampleOv : Option (WSt → WSt × Val)   -- `zero_mean_mvn_samples` override
  /-- `inv_quad_logdet` override of Kronecker: inverse-quadratic term from `super().inv_quad_logdet(logdet=False)`, log-determinant
  from `_logdet()` = eigenvalues of `self.diagonalization()`; `logdet()` alone only runs `_logdet()`. -/
  logdetDiagz : Bool := false

section generic
variable (H : Hooks) (σ : Settings) (n m : Nat)

/-- memoize.`_cached.g` on the wrapper's own cache. -/
def wCached (k : Key) (f : WSt → WSt × Val) (w : WSt) : WSt × Val :=
  match w.self.cache.get k with
  | some v => (w, v)
  | none => let r := f w; (r.1.putSelf k r.2, r.2)

def wCholHook (u : Bool) (w : WSt) : WSt × Val := wCached (.full "cholesky" [] [("upper", .bool u)]) (H.chol u) w

/-- `cholesky(upper)`: `_cholesky(upper=False)` through the cache, transposed outside. -/
def wCholesky (u : Bool) (w : WSt) : WSt × Val :=
  let r := wCholHook H false w
  match r.2 with
  | .chol u' mm => (r.1, .chol (if u then !u' else u') mm)
  | v => (r.1, v)

def wToDense (w : WSt) : WSt × Val :=
  if H.denseKey then wCached denseKey (fun w => (H.denseBody w, Val.dense m)) w else (H.denseBody w, Val.dense m)

def wBump (w : WSt) : WSt := { w with self := { w.self with run := w.self.run + 1 } }

def wDiagzBody (meth : String) (w : WSt) : WSt × Val :=
  if meth == "lanczos" then (wBump w, Val.diagz (w.self.run + 1) m) else (H.symeig w, Val.diagz 0 m)

def wDiagonalization (c : Call) (w : WSt) : WSt × Val :=
  wCached (diagzKey (H.diagzRebind c)) (wDiagzBody H m (match (H.diagzRebind c).method with
    | some x => x
    | none => if n ≤ σ.mcs then "symeig" else "lanczos")) w

def wSvd (w : WSt) : WSt × Val := wCached svdKey H.svd w

def wRootBody (meth : String) (w : WSt) : WSt × Val :=
  if meth == "cholesky" then
    let r := wCholesky H false w
    (r.1, Val.root .chol true true (valMat r.2))
  else if meth == "pivoted_cholesky" then ((wToDense H m w).1, Val.root .pivchol false false m)
  else if meth == "symeig" then (H.symeig w, Val.root .symeig false false m)
  else if meth == "diagonalization" then
    let r := wDiagonalization H σ n m .noargs w
    (r.1, Val.root (.diagz (diagzProv r.2)) false false (valMat r.2))
  else if meth == "svd" then
    let r := wSvd H w
    (r.1, Val.root .svd false false (valMat r.2))
  else H.lroot w

def wRootCompute (c : Call) (w : WSt) : WSt × Val :=
  wRootBody H σ n m (match c.method with
    | some x => x
    | none => chooseRootMethod σ n w.self.cache) w

def wRootDecomp (c : Call) (w : WSt) : WSt × Val :=
  wCached (rootKey c) (match H.rootOv with
    | some f => fun w =>
      match f c w with
      | .inl r => r
      | .inr c' => wCached (rootKey c') (wRootCompute H σ n m c') w     -- `super().root_decomposition(**c')`
    | none => wRootCompute H σ n m c) w

def wRootInvBody (meth : String) (w : WSt) : WSt × Val :=
  if meth == "cholesky" then
    let r := wCholesky H false w
    (r.1, Val.rootInv .chol (valMat r.2))
  else if meth == "symeig" then (H.symeig w, Val.rootInv .symeig m)
  else if meth == "diagonalization" then
    let r := wDiagonalization H σ n m .noargs w
    (r.1, Val.rootInv (.diagz (diagzProv r.2)) (valMat r.2))
  else if meth == "svd" then
    let r := wSvd H w
    (r.1, Val.rootInv .svd (valMat r.2))
  else if meth == "pinverse" then
    let r := wRootDecomp H σ n m .noargs w
    match r.2 with
    | .root p _ _ mm => (r.1, Val.rootInv p mm)
    | _ => (r.1, Val.rootInv .transplant 0)
  else H.lrootInv w

def wRootInvCompute (c : Call) (w : WSt) : WSt × Val :=
  wRootInvBody H σ n m (match c.method 2 with
    | some x => x
    | none => chooseRootMethod σ n w.self.cache) w

def wRootInvDecomp (c : Call) (w : WSt) : WSt × Val :=
  wCached (rootInvKey c) (match H.rootInvOv with
    | some f => fun w =>
      match f c w with
      | .inl r => r
      | .inr c' => wCached (rootInvKey c') (wRootInvCompute H σ n m c') w   -- `super().root_inv_decomposition(**c')`
    | none => wRootInvCompute H σ n m c) w

def wEigh (w : WSt) : WSt × Val :=
  match w.self.cache.get symeigKey with
  | some _ => ({ w with self := { w.self with cache := w.self.cache.pop symeigKey } }, Val.evals false m)
  | none => (H.symeig w, Val.evals true m)

/-- base-class `inv_quad_logdet` / `logdet` on the wrapper (with the triangular-root shortcut), unless overridden. -/
def wIqlBase (w : WSt) : WSt × Val :=
  match H.iqlOv with
  | some f => f w
  | none =>
    if !σ.flp || n ≤ σ.mcs then
      if w.self.cache.hasFirst "root_decomposition" then
        let r := wRootDecomp H σ n m .noargs w
        match r.2 with
        | .root _ true triOk mm => (r.1, Val.num (triOk && mm == m) m)
        | _ => let r2 := wCholesky H false r.1; (r2.1, Val.num (valMat r2.2 == m) m)
      else let r2 := wCholesky H false w; (r2.1, Val.num (valMat r2.2 == m) m)
    else (w, Val.num true m)

def valOk : Val → Bool
  | .num ok _ => ok
  | _ => false

/-- `_logdet()` of Kronecker: `evals, _ = self.diagonalization()`. -/
def wLogdetDiagz (w : WSt) : WSt × Val :=
  let r := wDiagonalization H σ n m .noargs w
  (r.1, Val.num (valMat r.2 == m) m)

/-- `inv_quad_logdet(rhs, logdet=True)`. -/
def wIql (w : WSt) : WSt × Val :=
  if H.logdetDiagz then
    let r := wIqlBase H σ n m w
    let r2 := wLogdetDiagz H σ n m r.1
    (r2.1, Val.num (valOk r.2 && valOk r2.2) m)
  else wIqlBase H σ n m w

/-- `logdet()` = `inv_quad_logdet(inv_quad_rhs=None, logdet=True)`. -/
def wLogdet (w : WSt) : WSt × Val :=
  if H.logdetDiagz then wLogdetDiagz H σ n m w else wIql H σ n m w

def wSample (w : WSt) : WSt × Val :=
  match H.sampleOv with
  | some f => f w
  | none =>
    let r := wRootDecomp H σ n m .noargs w
    match r.2 with
    | .root _ _ _ mm => (r.1, Val.num (mm == m) m)
    | _ => (r.1, Val.num false m)

/-- A query on the wrapper, or on the sub-operator whose matrix id is `j` (the handle the caller also holds). -/
inductive WQuery
  | self (q : Query)
  | sub (j : Nat) (q : Query)
  | logdet                      -- `logdet()` on the wrapper (differs from `inv_quad_logdet(rhs, logdet=True)` for Kronecker)
  deriving DecidableEq, Repr

def wRunSelf (q : Query) (w : WSt) : WSt × Val :=
  match q with
  | .toDense => wToDense H m w
  | .cholesky u => wCholesky H u w
  | .cholHook u => wCholHook H u w
  | .root c => wRootDecomp H σ n m c w
  | .rootInv c => wRootInvDecomp H σ n m c w
  | .diagz c => wDiagonalization H σ n m c w
  | .svd => wSvd H w
  | .eigh => wEigh H m w
  | .iql => wIql H σ n m w
  | .sample => wSample H σ n m w
  | .pure => (w, Val.num true m)

def wRun (q : WQuery) (w : WSt) : WSt × Val :=
  match q with
  | .self q => wRunSelf H σ n m q w
  | .sub j q =>
    ({ w with subs := w.subs.map fun o => if o.m == j then { o with st := (runQuery o.P σ o.n o.m q o.st).1 } else o },
     match w.subs.find? (fun o => o.m == j) with
     | some o => (runQuery o.P σ o.n o.m q o.st).2
     | none => Val.num true j)
  | .logdet => wLogdet H σ n m w

end generic

/-! ### the classes -/

/-- Delegating wrappers (BatchRepeat, BlockDiag, BlockInterleaved; the `_cholesky` / `_svd` / `_symeig` hooks also of Kronecker). -/
def Hooks.delegating (σ : Settings) (m : Nat) (blockSample : Bool) (denseEig : Bool := false) : Hooks where
  chol u w := let r := subsQuery σ (.cholesky u) w; (r.1, Val.chol u (if r.2 then m else 0))
  -- BlockInterleaved overrides neither `_symeig` nor `_svd`: base class, through the wrapper's memoised `to_dense`
  symeig w := if denseEig then w.putSelf LinOp.C12.denseKey (Val.dense m) else subsSymeig w
  svd w := if denseEig then (w.putSelf LinOp.C12.denseKey (Val.dense m), Val.svd m)
    else let r := subsQuery σ .svd w; (r.1, Val.svd (if r.2 then m else 0))
  lroot w := (wBump (subsLanczosRoot w), Val.root (.lanczos w.self.run) false false m)
  lrootInv w := (wBump (subsLanczosRootInv σ w), Val.rootInv (.lanczos w.self.run) m)
  denseKey := true
  rootOv := none
  iqlOv := some fun w => let r := subsQuery σ .iql w; (r.1, Val.num r.2 m)
  sampleOv := if blockSample then some fun w => let r := subsQuery σ .sample w; (r.1, Val.num r.2 m) else none

/-- `method=<the bound method argument>` passed by keyword (how the overrides forward `method` to a sub-operator). -/
def kwMethod (c : Call) : Call := ⟨[], [("method", match c.method with | some x => .str x | none => .none)]⟩

/-- `initial_vectors=None, test_vectors=None, method=<bound method>`: how `KroneckerProductLinearOperator.root_inv_decomposition`
calls `super().root_inv_decomposition` (after fix D33) and how `ConstantMulLinearOperator.root_inv_decomposition` (after c4c33aa) calls
`self.base_linear_op.root_inv_decomposition` — all three by keyword. -/
def kwRootInv (c : Call) : Call :=
  ⟨[], [("initial_vectors", .none), ("test_vectors", .none), ("method", match c.method 2 with | some x => .str x | none => .none)]⟩

/-- ConstantMulLinearOperator (constant > 0; after /repo c4c33aa): dense base-class hooks on the wrapper (through its memoised `to_dense`), the Lanczos
inverse root side-writes the WRAPPER's `root_decomposition||`, and `root_decomposition(method)` is the scaled root of the base. -/
def Hooks.constMul (σ : Settings) (m : Nat) : Hooks where
  chol u w := (w, Val.chol u m)
  symeig w := w.putSelf LinOp.C12.denseKey (Val.dense m)
  svd w := (w.putSelf LinOp.C12.denseKey (Val.dense m), Val.svd m)
  lroot w := (wBump w, Val.root (.lanczos w.self.run) false false m)
  lrootInv w := (wBump (w.putSelf (rootKey .noargs) (Val.root (.lanczos w.self.run) false false m)), Val.rootInv (.lanczos w.self.run) m)
  denseKey := true
  rootOv := some fun c w =>
    let kw : Call := kwMethod c
    let r := subsQuery σ (.root kw) w
    let p : Prov := match w.subs with
      | [o] => (match (runQuery o.P σ o.n o.m (.root kw) o.st).2 with | .root p _ _ _ => p | _ => .transplant)
      | _ => .transplant
    .inl (r.1, Val.root p false false (if r.2 then m else 0))
  -- after /repo c4c33aa (constant > 0): memoised override = the base operator's inverse root (all three arguments by keyword) scaled by c^-1/2;
  -- the Lanczos side write therefore lands in the BASE operator's cache, and root / inverse root come from the same factorization of the base
  rootInvOv := some fun c w =>
    let kw : Call := kwRootInv c
    let r := subsQuery σ (.rootInv kw) w
    let p : Prov := match w.subs with
      | [o] => (match (runQuery o.P σ o.n o.m (.rootInv kw) o.st).2 with | .rootInv p _ => p | _ => .transplant)
      | _ => .transplant
    .inl (r.1, Val.rootInv p (if r.2 then m else 0))
  iqlOv := none
  sampleOv := none


/-- ConstantMulLinearOperator as it was BEFORE /repo c4c33aa (kept only for `previous_constMul_side_write_location`; not what the driver runs): dense base-class hooks on the wrapper (through its memoised `to_dense`), the Lanczos
inverse root side-writes the WRAPPER's `root_decomposition||`, and `root_decomposition(method)` is the scaled root of the base. -/
def Hooks.constMulBefore_c4c33aa (σ : Settings) (m : Nat) : Hooks where
  chol u w := (w, Val.chol u m)
  symeig w := w.putSelf LinOp.C12.denseKey (Val.dense m)
  svd w := (w.putSelf LinOp.C12.denseKey (Val.dense m), Val.svd m)
  lroot w := (wBump w, Val.root (.lanczos w.self.run) false false m)
  lrootInv w := (wBump (w.putSelf (rootKey .noargs) (Val.root (.lanczos w.self.run) false false m)), Val.rootInv (.lanczos w.self.run) m)
  denseKey := true
  rootOv := some fun c w =>
    let kw : Call := kwMethod c
    let r := subsQuery σ (.root kw) w
    let p : Prov := match w.subs with
      | [o] => (match (runQuery o.P σ o.n o.m (.root kw) o.st).2 with | .root p _ _ _ => p | _ => .transplant)
      | _ => .transplant
    .inl (r.1, Val.root p false false (if r.2 then m else 0))
  iqlOv := none
  sampleOv := none

/-- `method=<method as bound by root_inv_decomposition (third positional, else keyword)>` by keyword. -/
def kwMethod2 (c : Call) : Call := ⟨[], [("method", match c.method 2 with | some x => .str x | none => .none)]⟩

/-- `KroneckerProductLinearOperator.diagonalization(method)`: `method=None -> "symeig"`, then `super().diagonalization(method=method)`. -/
def kronDiagzCall (c : Call) : Call := ⟨[], [("method", .str (match c.method with | some x => x | none => "symeig"))]⟩

/-- **KroneckerProductLinearOperator** over ANY number of factors (`w.subs`), matrix size `n`:
* `_cholesky(upper)` / `_svd` / `_symeig`: factor-wise (`lt.cholesky(upper=upper)`, `lt.svd()`, `lt._symeig`) — as `Hooks.delegating`;
* `_root_decomposition` / `_root_inv_decomposition` (Lanczos): base class ON THE WRAPPER (side write into the wrapper's cache);
* `root_decomposition(method)` `@cached(name="root_decomposition")`: at or below `max_cholesky_size` calls the memoised base method with
  `method=method` by keyword (a SECOND key on the same object), above it `lt.root_decomposition(method=method).root` for every factor;
* `root_inv_decomposition(...)`: the same with `initial_vectors=None, test_vectors=None, method=method` resp. `lt.root_inv_decomposition(method=method)`;
* `diagonalization(method)`: not memoised; `None -> "symeig"`, then the base method by keyword;
* `inv_quad_logdet`: inverse-quadratic term from the base class, log-determinant from `diagonalization()`. -/
def Hooks.kron (σ : Settings) (n m : Nat) : Hooks where
  chol u w := let r := subsQuery σ (.cholesky u) w; (r.1, Val.chol u (if r.2 then m else 0))
  symeig w := subsSymeig w
  svd w := let r := subsQuery σ .svd w; (r.1, Val.svd (if r.2 then m else 0))
  lroot w := (wBump w, Val.root (.lanczos w.self.run) false false m)
  lrootInv w := (wBump (w.putSelf (rootKey .noargs) (Val.root (.lanczos w.self.run) false false m)), Val.rootInv (.lanczos w.self.run) m)
  denseKey := true
  rootOv := some fun c w =>
    if n ≤ σ.mcs then .inr (kwMethod c)
    else let r := subsQuery σ (.root (kwMethod c)) w; .inl (r.1, Val.root .transplant false false (if r.2 then m else 0))
  rootInvOv := some fun c w =>
    if n ≤ σ.mcs then .inr (kwRootInv c)
    else
      let r := subsQuery σ (.rootInv (kwMethod2 c)) w; .inl (r.1, Val.rootInv .transplant (if r.2 then m else 0))
  diagzRebind := kronDiagzCall
  iqlOv := none
  sampleOv := none
  logdetDiagz := true

/-- `self.to_dense()` of a Sum-type wrapper, called from inside a hook (memoised on the wrapper; a miss densifies every part). -/
def sumDense (σ : Settings) (m : Nat) (w : WSt) : WSt :=
  match w.self.cache.get LinOp.C12.denseKey with
  | some _ => w
  | none => ((subsQuery σ .toDense w).1).putSelf LinOp.C12.denseKey (Val.dense m)

/-- Issue `q` to the FIRST sub-operator only (`AddedDiagLinearOperator._linear_op`). -/
def firstQuery (σ : Settings) (q : Query) (w : WSt) : WSt × Bool :=
  match w.subs with
  | [] => (w, true)
  | o :: t => ({ w with subs := { o with st := (runQuery o.P σ o.n o.m q o.st).1 } :: t },
               decide (answerOk o.m q (runQuery o.P σ o.n o.m q o.st).2))

def firstSymeig (w : WSt) : WSt :=
  match w.subs with
  | [] => w
  | o :: t => { w with subs := { o with st := symeigRun o.P o.m o.st } :: t }

/-- **AddedDiagLinearOperator** (`_linear_op + _diag_tensor`, a SumLinearOperator subclass), `constDiag` = the diagonal part is a
ConstantDiagLinearOperator:
* `to_dense` memoised on the wrapper; computing it densifies BOTH parts (a Diag part memoises its own `to_dense`);
* `_cholesky`, Lanczos hooks: base class on the wrapper (side write into the wrapper's cache);
* general diagonal: `_symeig` / `_svd` are the base class through `self.to_dense()`;
* constant diagonal: `_symeig` -> `self._linear_op._symeig(...)` (eigenvalues shifted), `_svd` -> `self._linear_op.svd()` — the FIRST part only.
The ad-hoc preconditioner attributes (`_q_cache`, `_r_cache`, `_precond_*`) are outside `_memoize_cache` and are not modelled. -/
def Hooks.addedDiag (σ : Settings) (m : Nat) (constDiag : Bool) : Hooks where
  chol u w := (w, Val.chol u m)
  symeig w := if constDiag then firstSymeig w else sumDense σ m w
  svd w := if constDiag then let r := firstQuery σ .svd w; (r.1, Val.svd (if r.2 then m else 0)) else (sumDense σ m w, Val.svd m)
  lroot w := (wBump w, Val.root (.lanczos w.self.run) false false m)
  lrootInv w := (wBump (w.putSelf (rootKey .noargs) (Val.root (.lanczos w.self.run) false false m)), Val.rootInv (.lanczos w.self.run) m)
  denseKey := true
  denseBody w := (subsQuery σ .toDense w).1
  rootOv := none
  iqlOv := none
  sampleOv := none

inductive WKind
  | batchRepeat | block | constMul | blockInterleaved | kron | addedDiag | addedDiagConst
  deriving DecidableEq, Repr

def WKind.hooks (k : WKind) (σ : Settings) (n m : Nat) : Hooks :=
  match k with
  | .batchRepeat => Hooks.delegating σ m false
  | .block => Hooks.delegating σ m true
  | .constMul => Hooks.constMul σ m
  | .blockInterleaved => Hooks.delegating σ m true true
  | .kron => Hooks.kron σ n m
  | .addedDiag => Hooks.addedDiag σ m false
  | .addedDiagConst => Hooks.addedDiag σ m true

/-- One step of the wrapper state machine of class `k`. -/
def wStep (k : WKind) (σ : Settings) (n m : Nat) (q : WQuery) (w : WSt) : WSt × Val := wRun (k.hooks σ n m) σ n m q w

/-- Wrapper cache invariant: every entry of the wrapper's cache is valid for the wrapper's matrix and every entry of every
sub-operator's cache is valid for that sub-operator's matrix. -/
def WInv (m : Nat) (w : WSt) : Prop := Inv m w.self.cache ∧ ∀ o ∈ w.subs, Inv o.m o.st.cache

/-- Acceptable answers: a wrapper query must satisfy the wrapper's cache-free specification, a query on a held sub-operator
the sub-operator's. -/
def wAnswerOk (m : Nat) (w : WSt) (q : WQuery) (v : Val) : Prop :=
  match q with
  | .self q => answerOk m q v
  | .sub j q => (∃ o ∈ w.subs, o.m = j) → answerOk j q v
  | .logdet => answerOk m .iql v

end LinOp.C12
