import Mathlib.Data.Matrix.Block
import Mathlib.Data.Matrix.Mul
import Mathlib.Data.Matrix.Diagonal
import Mathlib.Tactic.Ring
import Mathlib.Tactic.Abel
/-! Matrix algebra behind the two cache transplants (`add_low_rank`, `cat_rows`). -/
namespace LinOp.C12.Algebra
open Matrix

variable {R : Type} [CommRing R] {n r o : Type} [Fintype n] [DecidableEq n] [Fintype r] [Fintype o] [DecidableEq o]

/-- General form of the `add_low_rank` update, with NO assumption relating `L` and `P`:
`(L U S̃)(L U S̃)ᵀ = L Lᵀ + (L P) B Bᵀ (L P)ᵀ`, where `p = P B`, `U` is orthogonal, `U diag(σ²) Uᵀ = p pᵀ`
(the SVD of `p`, padded) and `d² = σ² + 1`. -/
theorem lowrank_root_general (L P U : Matrix n n R) (B : Matrix n r R) (sig d : n → R)
    (hU : U * Uᵀ = 1) (hS : U * diagonal (fun i => sig i * sig i) * Uᵀ = (P * B) * (P * B)ᵀ)
    (hd : ∀ i, d i * d i = sig i * sig i + 1) :
    (L * U * diagonal d) * (L * U * diagonal d)ᵀ = L * Lᵀ + (L * P) * B * Bᵀ * (L * P)ᵀ := by
  have h1 : diagonal d * (diagonal d)ᵀ = diagonal (fun i => sig i * sig i) + (1 : Matrix n n R) := by
    rw [diagonal_transpose, diagonal_mul_diagonal]
    ext i j
    by_cases h : i = j
    · subst h; simp [hd]
    · simp [h]
  calc (L * U * diagonal d) * (L * U * diagonal d)ᵀ
      = L * (U * (diagonal d * (diagonal d)ᵀ) * Uᵀ) * Lᵀ := by
        simp only [transpose_mul, Matrix.mul_assoc]
    _ = L * (U * diagonal (fun i => sig i * sig i) * Uᵀ + U * Uᵀ) * Lᵀ := by
        rw [h1, Matrix.mul_add, Matrix.add_mul, Matrix.mul_one]
    _ = L * Lᵀ + (L * P) * B * Bᵀ * (L * P)ᵀ := by
        rw [hS, hU, Matrix.mul_add, Matrix.add_mul, Matrix.mul_one, add_comm]
        simp only [transpose_mul, Matrix.mul_assoc]

/-- `add_low_rank` transplant is a root of `A + B Bᵀ` when the cached root and inverse root are exact
(`L Lᵀ = A`) and mutually inverse (`L P = 1`, `P` = transposed inverse root). -/
theorem transplant_valid_lowrank (A L P U : Matrix n n R) (B : Matrix n r R) (sig d : n → R)
    (hA : L * Lᵀ = A) (hLP : L * P = 1)
    (hU : U * Uᵀ = 1) (hS : U * diagonal (fun i => sig i * sig i) * Uᵀ = (P * B) * (P * B)ᵀ)
    (hd : ∀ i, d i * d i = sig i * sig i + 1) :
    (L * U * diagonal d) * (L * U * diagonal d)ᵀ = A + B * Bᵀ := by
  rw [lowrank_root_general L P U B sig d hU hS hd, hA, hLP]
  simp

/-- The transplanted inverse root `Pᵀ U S̃⁻¹` is the transposed inverse of the transplanted root. -/
theorem transplant_valid_lowrank_inv (L P U : Matrix n n R) (d e : n → R)
    (hPL : P * L = 1) (hU : Uᵀ * U = 1) (hde : ∀ i, e i * d i = 1) :
    (Pᵀ * U * diagonal e)ᵀ * (L * U * diagonal d) = 1 := by
  have h2 : diagonal e * diagonal d = (1 : Matrix n n R) := by
    rw [diagonal_mul_diagonal, ← diagonal_one]; congr 1; funext i; exact hde i
  calc (Pᵀ * U * diagonal e)ᵀ * (L * U * diagonal d)
      = diagonal e * (Uᵀ * ((P * L) * (U * diagonal d))) := by
        simp only [transpose_mul, transpose_transpose, diagonal_transpose, Matrix.mul_assoc]
    _ = 1 := by
        rw [hPL, Matrix.one_mul, ← Matrix.mul_assoc Uᵀ, hU, Matrix.one_mul, h2]

/-- Block-root identity of `cat_rows`: with `E Eᵀ = A`, `E Rᵀ = 1` (R = inverse root), `F = B R`, `G Gᵀ = D − F Fᵀ`,
`[E 0; F G][E 0; F G]ᵀ = [[A, Bᵀ], [B, D]]`. -/
theorem transplant_valid_catrows (A E Rinv : Matrix n n R) (B : Matrix o n R) (D G : Matrix o o R)
    (hE : E * Eᵀ = A) (hER : E * Rinvᵀ = 1) (hG : G * Gᵀ = D - (B * Rinv) * (B * Rinv)ᵀ) :
    fromBlocks E 0 (B * Rinv) G * (fromBlocks E 0 (B * Rinv) G)ᵀ = fromBlocks A Bᵀ B D := by
  have h1 : E * (B * Rinv)ᵀ = Bᵀ := by
    rw [transpose_mul, ← Matrix.mul_assoc, hER, Matrix.one_mul]
  have h2 : (B * Rinv) * Eᵀ = B := by
    have := congrArg transpose h1
    simpa [transpose_mul, Matrix.mul_assoc] using this
  rw [fromBlocks_transpose, fromBlocks_multiply]
  simp only [transpose_zero, Matrix.mul_zero, Matrix.zero_mul, add_zero, zero_add, hE, h1, h2, hG]
  congr 1
  exact add_sub_cancel _ _

/-- Without `L P = 1` the `add_low_rank` update is wrong although `L Lᵀ = A` and `Pᵀ P = A⁻¹` both hold:
`A = I`, `L = I`, `P` a quarter turn, `B = e₁`: the update produces `I + e₂e₂ᵀ`, not `I + e₁e₁ᵀ`. -/
theorem lowrank_unpaired_counterexample :
    ∃ (L P : Matrix (Fin 2) (Fin 2) ℤ) (B : Matrix (Fin 2) (Fin 1) ℤ),
      L * Lᵀ = 1 ∧ Pᵀ * P = 1 ∧ L * Lᵀ + (L * P) * B * Bᵀ * (L * P)ᵀ ≠ 1 + B * Bᵀ := by
  refine ⟨1, Matrix.of ![![0, 1], ![-1, 0]], Matrix.of ![![1], ![0]], by decide, by decide, by decide⟩

end LinOp.C12.Algebra
