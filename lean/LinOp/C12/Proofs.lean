import LinOp.C12.Model
/-! Helper lemmas for C12: finite-map laws of the memoize cache, the `Good` computation predicate and the
per-query invariant preservation. -/
namespace LinOp.C12

namespace Cache

theorem get_put_same (c : Cache) (k : Key) (v : Val) : (c.put k v).get k = some v := by
  induction c with
  | nil => simp [put, get]
  | cons e t ih =>
    obtain ⟨k', v'⟩ := e
    by_cases h : k' = k
    · simp [put, get, h]
    · simp [put, get, h, ih]

theorem get_put_other (c : Cache) (k k' : Key) (v : Val) (h : k' ≠ k) : (c.put k v).get k' = c.get k' := by
  induction c with
  | nil => simp [put, get, Ne.symm h]
  | cons e t ih =>
    obtain ⟨k0, v0⟩ := e
    by_cases h0 : k0 = k
    · subst h0
      simp [put, get, Ne.symm h]
    · by_cases h1 : k0 = k'
      · subst h1
        simp [put, get, h0]
      · simp [put, get, h0, h1, ih]

theorem get_pop_same (c : Cache) (k : Key) : (c.pop k).get k = none := by
  induction c with
  | nil => simp [pop, get]
  | cons e t ih =>
    obtain ⟨k0, v0⟩ := e
    by_cases h0 : k0 = k
    · simp [pop, h0, ih]
    · simp [pop, get, h0, ih]

theorem get_pop_other (c : Cache) (k k' : Key) (h : k' ≠ k) : (c.pop k).get k' = c.get k' := by
  induction c with
  | nil => simp [pop, get]
  | cons e t ih =>
    obtain ⟨k0, v0⟩ := e
    by_cases h0 : k0 = k
    · subst h0
      simp [pop, get, Ne.symm h, ih]
    · by_cases h1 : k0 = k'
      · subst h1
        simp [pop, get, h0]
      · simp [pop, get, h0, h1, ih]

end Cache

theorem Inv.nil (m : Nat) : Inv m [] := by
  intro k v h; simp [Cache.get] at h

theorem Inv.put {m : Nat} {c : Cache} (h : Inv m c) {k : Key} {v : Val} (hv : validFor m k v) : Inv m (c.put k v) := by
  intro k' v' h'
  by_cases e : k' = k
  · subst e
    rw [Cache.get_put_same] at h'
    cases h'; exact hv
  · rw [Cache.get_put_other _ _ _ _ e] at h'
    exact h _ _ h'

theorem Inv.pop {m : Nat} {c : Cache} (h : Inv m c) (k : Key) : Inv m (c.pop k) := by
  intro k' v' h'
  by_cases e : k' = k
  · subst e
    rw [Cache.get_pop_same] at h'
    cases h'
  · rw [Cache.get_pop_other _ _ _ e] at h'
    exact h _ _ h'

theorem inv_pair {m : Nat} {k₁ k₂ : Key} {v₁ v₂ : Val} (hne : k₁ ≠ k₂) (h₁ : validFor m k₁ v₁) (h₂ : validFor m k₂ v₂) :
    Inv m [(k₁, v₁), (k₂, v₂)] := by
  intro k v h
  by_cases e1 : k₁ = k
  · subst e1; simp [Cache.get] at h; subst h; exact h₁
  · by_cases e2 : k₂ = k
    · subst e2; simp [Cache.get, e1] at h; subst h; exact h₂
    · simp [Cache.get, e1, e2] at h

/-- A computation that keeps the cache invariant and returns a valid answer for key `k`. -/
def Good (m : Nat) (k : Key) (f : St → St × Val) : Prop :=
  ∀ s, Inv m s.cache → Inv m (f s).1.cache ∧ validFor m k (f s).2

theorem good_cached {m : Nat} {k : Key} {f : St → St × Val} (hf : Good m k f) : Good m k (cachedCall k f) := by
  intro s hs
  unfold cachedCall
  cases hg : s.cache.get k with
  | some v => exact ⟨hs, hs _ _ hg⟩
  | none =>
    have := hf s hs
    exact ⟨Inv.put this.1 this.2, this.2⟩

/-- After a miss the key is present with the returned value. -/
theorem cached_get {k : Key} {f : St → St × Val} (s : St) :
    (cachedCall k f s).1.cache.get k = some (cachedCall k f s).2 := by
  unfold cachedCall
  cases hg : s.cache.get k with
  | some v => simpa using hg
  | none => simp [Cache.get_put_same]

@[simp] theorem log_cache (s : St) (l : List String) : (s.log l).cache = s.cache := rfl

section
variable (P : Profile) (σ : Settings) (n m : Nat)

theorem cholKey_valid (u : Bool) (h : P.cholBare = true → u = false) : validFor m (cholKey P u) (Val.chol u m) := by
  unfold cholKey validFor
  by_cases hb : P.cholBare = true
  · simp [hb, h hb]
  · simp [hb]

theorem good_cholLower : Good m (cholKey P false) (cholLower P m) := by
  unfold cholLower
  apply good_cached
  intro s hs
  refine ⟨?_, cholKey_valid P m false (fun _ => rfl)⟩
  split <;> simpa using hs

/-- What `validFor` says about an entry stored under the lower-Cholesky key. -/
theorem valid_cholKey_false {v : Val} (h : validFor m (cholKey P false) v) : v = Val.chol false m := by
  by_cases hb : P.cholBare = true
  · cases v <;> simp [validFor, cholKey, hb, Key.name] at h
    case chol u a => simp [h.1, h.2]
  · cases v <;> simp [validFor, cholKey, hb, Key.name] at h
    case chol u a => simp [h.1, h.2]

theorem valid_cholKey {u : Bool} {v : Val} (h : validFor m (cholKey P u) v) :
    v = Val.chol (if P.cholBare then false else u) m := by
  by_cases hb : P.cholBare = true
  · cases v <;> simp [validFor, cholKey, hb, Key.name] at h
    case chol u' a => simp [h.1, h.2, hb]
  · cases v <;> simp [validFor, cholKey, hb, Key.name] at h
    case chol u' a => simp [h.1, h.2, hb]

theorem cholHook_ok (u : Bool) (s : St) (hs : Inv m s.cache) :
    Inv m (cholHook P m u s).1.cache ∧ (cholHook P m u s).2 = Val.chol u m := by
  have hg : Good m (cholKey P u)
      (fun s => (if P.cholLogs then s.log ["chol"] else s, Val.chol (if P.cholBare then false else u) m)) := by
    intro s hs
    refine ⟨by split <;> simpa using hs, ?_⟩
    by_cases hb : P.cholBare = true
    · simpa [hb] using cholKey_valid P m false (fun _ => rfl) |> fun h => by simpa [cholKey, hb] using h
    · simpa [hb] using cholKey_valid P m u (fun h => absurd h hb)
  have h := good_cached hg s hs
  have hv := valid_cholKey P m h.2
  have e : cholHook P m u s = ((cachedCall (cholKey P u)
      (fun s => (if P.cholLogs then s.log ["chol"] else s, Val.chol (if P.cholBare then false else u) m)) s).1, Val.chol u m) := by
    simp only [cholHook, hv]
    by_cases hb : P.cholBare = true <;> simp [hb]
  rw [e]
  exact ⟨h.1, rfl⟩

theorem cholesky_ok (u : Bool) (s : St) (hs : Inv m s.cache) :
    Inv m (cholesky P m u s).1.cache ∧ (cholesky P m u s).2 = Val.chol u m := by
  have h := good_cholLower P m s hs
  have hv := valid_cholKey_false P m h.2
  have e : cholesky P m u s = ((cholLower P m s).1, Val.chol u m) := by
    simp only [cholesky, hv]
    cases u <;> rfl
  rw [e]
  exact ⟨h.1, rfl⟩

theorem toDense_ok (s : St) (hs : Inv m s.cache) :
    Inv m (toDense P m s).1.cache ∧ validFor m denseKey (toDense P m s).2 := by
  unfold toDense
  split
  · exact good_cached (f := fun s => (s, Val.dense m)) (fun s hs => ⟨hs, by simp [validFor, denseKey, Key.name]⟩) s hs
  · exact ⟨hs, by simp [validFor, denseKey, Key.name]⟩

theorem valid_denseKey {v : Val} (h : validFor m denseKey v) : v = Val.dense m := by
  cases v <;> simp [validFor, denseKey, Key.name] at h
  simp [h]

theorem symeigRun_ok (s : St) (hs : Inv m s.cache) : Inv m (symeigRun P m s).cache := by
  unfold symeigRun
  split
  · simpa using (toDense_ok P m s hs).1
  · exact hs

theorem good_diagz (c : Call) : Good m (diagzKey c) (diagonalization P σ n m c) := by
  unfold diagonalization
  apply good_cached
  have body : ∀ meth : String, Good m (diagzKey c) (diagzBody P m meth) := by
    intro meth s hs
    unfold diagzBody
    split
    · exact ⟨hs, by simp [validFor, diagzKey, Key.name]⟩
    · exact ⟨symeigRun_ok P m s hs, by simp [validFor, diagzKey, Key.name]⟩
  intro s hs
  exact body _ s hs

theorem good_diagz_unused (c : Call) (s : St) (hs : Inv m s.cache) (meth : String) :
    Inv m (diagzBody P m meth s).1.cache := by
  unfold diagzBody
  split
  · exact hs
  · exact symeigRun_ok P m s hs

theorem good_svd : Good m svdKey (svd P m) := by
  unfold svd
  apply good_cached
  intro s hs
  exact ⟨symeigRun_ok P m s hs, by simp [validFor, svdKey, Key.name]⟩

theorem rootKey_valid (c : Call) (p : Prov) (t : Bool) : validFor m (rootKey c) (Val.root p t t m) := by
  simp [validFor, rootKey, Key.name]

theorem lanczosRoot_ok (c : Call) (s : St) (hs : Inv m s.cache) :
    Inv m (lanczosRoot P m s).1.cache ∧ validFor m (rootKey c) (lanczosRoot P m s).2 := by
  unfold lanczosRoot
  split
  · exact ⟨hs, rootKey_valid m c _ false⟩
  · exact ⟨hs, rootKey_valid m c _ true⟩

theorem good_rootBody (c : Call) (meth : String) : Good m (rootKey c) (rootBody P σ n m meth) := by
  intro s hs
  unfold rootBody
  split
  · exact ⟨(cholesky_ok P m false s hs).1, rootKey_valid m c _ true⟩
  · split
    · exact ⟨by simpa using (toDense_ok P m s hs).1, rootKey_valid m c _ false⟩
    · split
      · exact ⟨symeigRun_ok P m s hs, rootKey_valid m c _ false⟩
      · split
        · exact ⟨(good_diagz P σ n m .noargs s hs).1, rootKey_valid m c _ false⟩
        · split
          · exact ⟨(good_svd P m s hs).1, rootKey_valid m c _ false⟩
          · exact lanczosRoot_ok P m c s hs

theorem good_rootCompute (c : Call) : Good m (rootKey c) (rootCompute P σ n m c) := by
  intro s hs
  exact good_rootBody P σ n m c _ s hs

theorem good_root (c : Call) : Good m (rootKey c) (rootDecomp P σ n m c) := by
  unfold rootDecomp
  intro s hs
  split
  · exact good_cached (good_rootCompute P σ n m c) s hs
  · exact ⟨hs, rootKey_valid m c _ true⟩

/-- What `validFor` says about an entry stored under a `root_decomposition` key. -/
theorem valid_rootKey {c : Call} {v : Val} (h : validFor m (rootKey c) v) :
    ∃ p tri triOk, v = Val.root p tri triOk m ∧ (tri = true → triOk = true) := by
  cases v <;> simp [validFor, rootKey, Key.name] at h
  case root p tri triOk a => exact ⟨p, tri, triOk, by simp [h.1], h.2⟩

theorem rootInvKey_valid (c : Call) (p : Prov) : validFor m (rootInvKey c) (Val.rootInv p m) := by
  simp [validFor, rootInvKey, Key.name]

theorem good_rootInvBody (c : Call) (meth : String) : Good m (rootInvKey c) (rootInvBody P σ n m meth) := by
  intro s hs
  unfold rootInvBody
  split
  · exact ⟨(cholesky_ok P m false s hs).1, rootInvKey_valid m c _⟩
  · split
    · exact ⟨symeigRun_ok P m s hs, rootInvKey_valid m c _⟩
    · split
      · exact ⟨(good_diagz P σ n m .noargs s hs).1, rootInvKey_valid m c _⟩
      · split
        · exact ⟨(good_svd P m s hs).1, rootInvKey_valid m c _⟩
        · split
          · have h := good_root P σ n m .noargs s hs
            obtain ⟨p, tri, triOk, hv, _⟩ := valid_rootKey m h.2
            simp only [hv]
            exact ⟨h.1, rootInvKey_valid m c _⟩
          · split
            · exact ⟨Inv.put hs (rootKey_valid m .noargs _ false), rootInvKey_valid m c _⟩
            · exact ⟨hs, rootInvKey_valid m c _⟩

theorem good_rootInvCompute (c : Call) : Good m (rootInvKey c) (rootInvCompute P σ n m c) := by
  intro s hs
  exact good_rootInvBody P σ n m c _ s hs

theorem good_rootInv (c : Call) : Good m (rootInvKey c) (rootInvDecomp P σ n m c) := by
  unfold rootInvDecomp
  intro s hs
  split
  · exact good_cached (good_rootInvCompute P σ n m c) s hs
  · exact ⟨hs, rootInvKey_valid m c _⟩

/-- Nothing valid can ever sit under the `symeig` key: the library never writes it. -/
theorem symeig_absent (c : Cache) (hc : Inv m c) : c.get symeigKey = none := by
  cases hg : c.get symeigKey with
  | none => rfl
  | some v =>
    have := hc _ _ hg
    cases v <;> simp [validFor, symeigKey, Key.name] at this

end
end LinOp.C12
