import LinOp.Core.Parse
import LinOp.C12.Model
import LinOp.C12.Classes
/-! Line-protocol driver for the C12 cache model.

  new <profile> <n>                              -> ok            (a fresh object, empty cache)
  q <mcs> <frd> <flp> <fs> <kind> [args]         -> <sorted key set> ; <primitives run | *> ; <tri | ->
  d <mcs> <frd> <flp> <fs> <kind> <profile> <n>  -> P <parent key set> ; N <new object's key set> ; *
  back                                           -> ok            (return to the parent object)
  wnew <kind> <n> <subprofile>:<n_i>,...         -> ok            (a fresh wrapper of class <kind> over fresh sub-operators;
                                                                  kinds: batchRepeat block blockInterleaved constMul kron addedDiag addedDiagConst)
  wq <mcs> <frd> <flp> <fs> <self|sub<i>> <kind> [args]
                                                 -> W <wrapper key set> | S <key set of sub 0> | S <key set of sub 1> …
-/
open LinOp LinOp.C12 LinOp.Parse

structure Obj where
  ko : Bool
  P : Profile
  n : Nat
  m : Nat
  st : St

structure DState where
  stack : List Obj
  nextMat : Nat
  wobj : Option (WKind × Nat × WSt) := none

def profileOf (s : String) : Profile :=
  if s = "base" then .base
  else if s = "sum" then .sum
  else if s = "diag" then .diag
  else if s = "chol" then .chol
  else .sum

/-- Profiles for which only the key-set discipline is compared (primitive log and triangular flag are `*`). -/
def keysOnly (s : String) : Bool := s = "diag" || s = "chol"

def showArg : Arg → String
  | .none => "None"
  | .bool true => "True"
  | .bool false => "False"
  | .str s => "'" ++ s ++ "'"

def showKey : Key → String
  | .bare n => "!" ++ n
  | .full n a kw => n ++ "|" ++ ",".intercalate (a.map showArg) ++ "|" ++ ",".intercalate (kw.map fun e => e.1 ++ "=" ++ showArg e.2)

def showKeys (c : Cache) : String :=
  let ks := (c.map fun e => showKey e.1).mergeSort (fun a b => decide (a ≤ b))
  if ks.isEmpty then "-" else " ".intercalate ks

def mkCall (how m : String) : Call :=
  let a : Arg := if m = "-" then .none else .str m
  if how = "none" then ⟨[], []⟩
  else if how = "kw" then ⟨[], [("method", a)]⟩
  else ⟨[a], []⟩

def parseSettings (a b c d : String) : Option Settings := do
  let mcs ← a.toNat?
  pure ⟨mcs, b = "1", c = "1", d = "1"⟩

def parseQuery (ws : List String) : Query × Bool :=   -- (query, logs are modelled)
  match ws with
  | ["to_dense"] => (.toDense, true)
  | ["cholesky", u] => (.cholesky (u = "1"), true)
  | ["hook_cholesky", u] => (.cholHook (u = "1"), true)
  | ["root", how, m] => (.root (mkCall how m), true)
  | ["rootinv", how, m] => (.rootInv (mkCall how m), true)
  | ["diagz", how, m] => (.diagz (mkCall how m), true)
  | ["svd"] => (.svd, false)
  | ["eigh"] => (.eigh, false)
  | ["eigvalsh"] => (.eigh, false)
  | ["iql"] => (.iql, false)
  | ["logdet"] => (.iql, false)
  | ["sample"] => (.sample, false)
  | _ => (.pure, false)

def kindOf (s : String) : Option WKind :=
  if s = "batchRepeat" then some .batchRepeat
  else if s = "block" then some .block
  else if s = "constMul" then some .constMul
  else if s = "blockInterleaved" then some .blockInterleaved
  else if s = "kron" then some .kron
  else if s = "addedDiag" then some .addedDiag
  else if s = "addedDiagConst" then some .addedDiagConst
  else none

def parseSubs (s : String) : List SubObj :=
  let parts := s.splitOn ","
  let rec go (ps : List String) (i : Nat) : List SubObj :=
    match ps with
    | [] => []
    | p :: t =>
      match p.splitOn ":" with
      | [pr, n] => ⟨profileOf pr, n.toNat?.getD 0, i + 2, ⟨[], 0, []⟩⟩ :: go t (i + 1)
      | _ => go t (i + 1)
  go parts 0

def showW (w : WSt) : String :=
  "W " ++ showKeys w.self.cache ++ String.join (w.subs.map fun o => " | S " ++ showKeys o.st.cache)

def wFresh' (subs : List SubObj) : WSt := ⟨⟨[], 0, []⟩, subs⟩

def stepLine (s : DState) (line : String) : DState × String :=
  let bad := (s, "bad-op")
  match words line with
  | ["new", p, n] =>
    match n.toNat? with
    | some n => ({ stack := [⟨keysOnly p, profileOf p, n, 1, ⟨[], 0, []⟩⟩], nextMat := 2 }, "ok")
    | none => bad
  | ["wnew", k, n, subs] =>
    match kindOf k, n.toNat? with
    | some k, some n => ({ s with wobj := some (k, n, wFresh' (parseSubs subs)) }, "ok")
    | _, _ => bad
  | "wq" :: a :: b :: c :: d :: tgt :: rest =>
    match parseSettings a b c d, s.wobj with
    | some σ, some (k, n, w) =>
      let (q, _) := parseQuery rest
      let wq : WQuery := if tgt = "self" then (if rest = ["logdet"] then .logdet else .self q) else .sub ((tgt.drop 3).toNat?.getD 0 + 2) q
      let r := wStep k σ n 1 wq w
      ({ s with wobj := some (k, n, r.1) }, showW r.1)
    | _, _ => bad
  | ["back"] =>
    match s.stack with
    | _ :: t@(_ :: _) => ({ s with stack := t }, "ok")
    | _ => (s, "ok")
  | "q" :: a :: b :: c :: d :: rest =>
    match parseSettings a b c d, s.stack with
    | some σ, o :: t =>
      let (q, lg) := parseQuery rest
      let r := runQuery o.P σ o.n o.m q { o.st with logs := [] }
      let o' := { o with st := r.1 }
      let logs := if o.ko then "*" else if lg then (if r.1.logs.isEmpty then "-" else ",".intercalate r.1.logs) else "*"
      let tri := if o.ko then "*" else match q, r.2 with
        | .root _, .root _ true _ _ => "tri"
        | _, _ => "-"
      ({ s with stack := o' :: t }, showKeys r.1.cache ++ " ; " ++ logs ++ " ; " ++ tri)
    | _, _ => bad
  | ["d", a, b, c, d, kind, p, n] =>
    match parseSettings a b c d, n.toNat?, s.stack with
    | some σ, some n', o :: t =>
      if p = "self" then
        ({ s with stack := o :: o :: t }, "P " ++ showKeys o.st.cache ++ " ; N " ++ showKeys o.st.cache ++ " ; *")
      else
        let m' := s.nextMat
        let (st', nc) :=
          if kind = "add_low_rank" then addLowRank o.P σ o.n o.m m' { o.st with logs := [] }
          else if kind = "cat_rows" then catRows o.P σ o.n o.m m' { o.st with logs := [] }
          else (o.st, [])
        let o' := { o with st := st' }
        let nw : Obj := ⟨keysOnly p, profileOf p, n', m', ⟨nc, st'.run, []⟩⟩
        ({ stack := nw :: o' :: t, nextMat := m' + 1 }, "P " ++ showKeys st'.cache ++ " ; N " ++ showKeys nc ++ " ; *")
    | _, _, _ => bad
  | _ => bad

def main : IO Unit := do
  loop (← IO.getStdin) ({ stack := [], nextMat := 1 } : DState) stepLine
