import LinOp.Core.Parse
import LinOp.C12.Model
/-! Line-protocol driver for the C12 cache model.

  new <profile> <n>                              -> ok            (a fresh object, empty cache)
  q <mcs> <frd> <flp> <fs> <kind> [args]         -> <sorted key set> ; <primitives run | *> ; <tri | ->
  d <mcs> <frd> <flp> <fs> <kind> <profile> <n>  -> P <parent key set> ; N <new object's key set> ; *
  back                                           -> ok            (return to the parent object)
-/
open LinOp LinOp.C12 LinOp.Parse

structure Obj where
  ko : Bool
  P : Profile
  n : Nat
  m : Nat
  st : St

structure DState where
  stack : List Obj
  nextMat : Nat

def profileOf (s : String) : Profile :=
  if s = "base" then .base
  else if s = "sum" then .sum
  else if s = "diag" then .diag
  else if s = "chol" then .chol
  else .sum

/-- Profiles for which only the key-set discipline is compared (primitive log and triangular flag are `*`). -/
def keysOnly (s : String) : Bool := s = "diag" || s = "chol"

def showArg : Arg → String
  | .none => "None"
  | .bool true => "True"
  | .bool false => "False"
  | .str s => "'" ++ s ++ "'"

def showKey : Key → String
  | .bare n => "!" ++ n
  | .full n a kw => n ++ "|" ++ ",".intercalate (a.map showArg) ++ "|" ++ ",".intercalate (kw.map fun e => e.1 ++ "=" ++ showArg e.2)

def showKeys (c : Cache) : String :=
  let ks := (c.map fun e => showKey e.1).mergeSort (fun a b => decide (a ≤ b))
  if ks.isEmpty then "-" else " ".intercalate ks

def mkCall (how m : String) : Call :=
  let a : Arg := if m = "-" then .none else .str m
  if how = "none" then ⟨[], []⟩
  else if how = "kw" then ⟨[], [("method", a)]⟩
  else ⟨[a], []⟩

def parseSettings (a b c d : String) : Option Settings := do
  let mcs ← a.toNat?
  pure ⟨mcs, b = "1", c = "1", d = "1"⟩

def parseQuery (ws : List String) : Query × Bool :=   -- (query, logs are modelled)
  match ws with
  | ["to_dense"] => (.toDense, true)
  | ["cholesky", u] => (.cholesky (u = "1"), true)
  | ["hook_cholesky", u] => (.cholHook (u = "1"), true)
  | ["root", how, m] => (.root (mkCall how m), true)
  | ["rootinv", how, m] => (.rootInv (mkCall how m), true)
  | ["diagz", how, m] => (.diagz (mkCall how m), true)
  | ["svd"] => (.svd, false)
  | ["eigh"] => (.eigh, false)
  | ["eigvalsh"] => (.eigh, false)
  | ["iql"] => (.iql, false)
  | ["logdet"] => (.iql, false)
  | ["sample"] => (.sample, false)
  | _ => (.pure, false)

def stepLine (s : DState) (line : String) : DState × String :=
  let bad := (s, "bad-op")
  match words line with
  | ["new", p, n] =>
    match n.toNat? with
    | some n => ({ stack := [⟨keysOnly p, profileOf p, n, 1, ⟨[], 0, []⟩⟩], nextMat := 2 }, "ok")
    | none => bad
  | ["back"] =>
    match s.stack with
    | _ :: t@(_ :: _) => ({ s with stack := t }, "ok")
    | _ => (s, "ok")
  | "q" :: a :: b :: c :: d :: rest =>
    match parseSettings a b c d, s.stack with
    | some σ, o :: t =>
      let (q, lg) := parseQuery rest
      let r := runQuery o.P σ o.n o.m q { o.st with logs := [] }
      let o' := { o with st := r.1 }
      let logs := if o.ko then "*" else if lg then (if r.1.logs.isEmpty then "-" else ",".intercalate r.1.logs) else "*"
      let tri := if o.ko then "*" else match q, r.2 with
        | .root _, .root _ true _ _ => "tri"
        | _, _ => "-"
      ({ s with stack := o' :: t }, showKeys r.1.cache ++ " ; " ++ logs ++ " ; " ++ tri)
    | _, _ => bad
  | ["d", a, b, c, d, kind, p, n] =>
    match parseSettings a b c d, n.toNat?, s.stack with
    | some σ, some n', o :: t =>
      if p = "self" then
        ({ s with stack := o :: o :: t }, "P " ++ showKeys o.st.cache ++ " ; N " ++ showKeys o.st.cache ++ " ; *")
      else
        let m' := s.nextMat
        let (st', nc) :=
          if kind = "add_low_rank" then addLowRank o.P σ o.n o.m m' { o.st with logs := [] }
          else if kind = "cat_rows" then catRows o.P σ o.n o.m m' { o.st with logs := [] }
          else (o.st, [])
        let o' := { o with st := st' }
        let nw : Obj := ⟨keysOnly p, profileOf p, n', m', ⟨nc, st'.run, []⟩⟩
        ({ stack := nw :: o' :: t, nextMat := m' + 1 }, "P " ++ showKeys st'.cache ++ " ; N " ++ showKeys nc ++ " ; *")
    | _, _, _ => bad
  | _ => bad

def main : IO Unit := do
  loop (← IO.getStdin) (⟨[], 1⟩ : DState) stepLine
