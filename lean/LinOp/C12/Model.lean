/-
C12 — model of linear_operator/utils/memoize.py and of every cache read / write / method choice the
base `LinearOperator` makes (operators/_linear_operator.py), as a state machine over ONE operator
object.  Core Lean only.

Layer 1 (memoize.py, exactly):
  key           = bare `name`                      (`@cached(..., ignore_args=True)`)
                | (name, args, pickle(kwargs))     (`@cached`, add_to_cache, get_from_cache, pop_from_cache)
  `_is_in_cache_ignore_args name`     : the bare key `name` is present
  `_is_in_cache_ignore_all_args name` : `name ∈ [k[0] for k in keys]` (for a bare string key `k[0]` is its first character)
  `cachedCall k f` : look up `k`; on a miss run `f` (which may itself write the cache), then insert.

Layer 2 (per query: read set / write set / method choice), mirrored from the code as it is:
  cholesky(upper)             -> `_cholesky(upper=False)` under key cholesky||upper=False (bare for Diag/Identity); transposed outside the cache
  _choose_root_method         -> probes names symeig / diagonalization / lanczos, then size vs max_cholesky_size / fast flag
  root_decomposition(..)      -> key root_decomposition|args|kwargs ; cholesky -> cholesky() ; diagonalization -> diagonalization() ; svd -> svd()
  root_inv_decomposition(..)  -> the same, and `lanczos` SIDE-WRITES root_decomposition|| with the root of the same Lanczos run; pinverse reads root_decomposition()
  diagonalization(..), svd    -> own keys
  eigh / eigvalsh             -> pop symeig||eigenvectors=True (never written by the library)
  inv_quad_logdet / logdet    -> Cholesky regime: if ANY key is named root_decomposition, call root_decomposition() and use its root
                                 when it is a TriangularLinearOperator, else cholesky()
  zero_mean_mvn_samples       -> root_decomposition()
  add_low_rank / cat_rows     -> read root_decomposition / root_inv_decomposition of the parent (writing them), transplant the
                                 transformed factors into the NEW object's cache under root_decomposition|| and root_inv_decomposition||
Values are abstract: a tag saying what the entry factorizes (`mat`), how it was obtained (`Prov`, used to decide
whether a root and an inverse root are exact mutual inverses), and whether a root is wrapped as a triangular operator
(`tri`) and really is triangular (`triOk`).  `mat = 0` is reserved for "not a factorization of the object's matrix".
-/
namespace LinOp.C12

inductive Arg
  | none
  | bool (b : Bool)
  | str (s : String)
  deriving DecidableEq, Repr

/-- A key of `_memoize_cache`. -/
inductive Key
  | bare (name : String)
  | full (name : String) (args : List Arg) (kwargs : List (String × Arg))
  deriving DecidableEq, Repr

/-- `k[0]` as computed by `_is_in_cache_ignore_all_args`. -/
def Key.first : Key → String
  | .bare n => String.ofList (n.toList.take 1)
  | .full n _ _ => n

def Key.name : Key → String
  | .bare n => n
  | .full n _ _ => n

/-- How a factor was obtained; two factors with the same provenance come from the same deterministic
decomposition (or the same Lanczos run) and are exact mutual inverses. -/
inductive Prov
  | chol
  | symeig
  | svd
  | pivchol
  | diagz (p : Nat)        -- built from a cached diagonalization with provenance code p (0 = symeig, r+1 = Lanczos run r)
  | lanczos (run : Nat)
  | transplant
  deriving DecidableEq, Repr

inductive Val
  | chol (upper : Bool) (mat : Nat)
  | root (p : Prov) (tri triOk : Bool) (mat : Nat)
  | rootInv (p : Prov) (mat : Nat)
  | diagz (p : Nat) (mat : Nat)
  | svd (mat : Nat)
  | dense (mat : Nat)
  | num (ok : Bool) (mat : Nat)      -- a number / tensor answer computed from `mat`; `ok = false` if a wrong factor was used
  | evals (full : Bool) (mat : Nat)  -- eigh answer; `full = false` is the `(evals, None)` form
  deriving DecidableEq, Repr

abbrev Cache := List (Key × Val)

namespace Cache
def get (c : Cache) (k : Key) : Option Val :=
  match c with
  | [] => none
  | (k', v) :: t => if k' = k then some v else get t k

def put (c : Cache) (k : Key) (v : Val) : Cache :=
  match c with
  | [] => [(k, v)]
  | (k', v') :: t => if k' = k then (k, v) :: t else (k', v') :: put t k v

def pop (c : Cache) (k : Key) : Cache :=
  match c with
  | [] => []
  | (k', v') :: t => if k' = k then pop t k else (k', v') :: pop t k

/-- `_is_in_cache_ignore_args` -/
def hasBare (c : Cache) (name : String) : Bool := (c.get (.bare name)).isSome
/-- `_is_in_cache_ignore_all_args` -/
def hasFirst (c : Cache) (name : String) : Bool := c.any fun e => e.1.first == name
end Cache

structure Settings where
  mcs : Nat      -- max_cholesky_size
  frd : Bool     -- fast_computations.covar_root_decomposition
  flp : Bool     -- fast_computations.log_prob
  fs : Bool      -- fast_computations.solves
  deriving Repr

/-- Per-class variation points (everything else is the base class). -/
structure Profile where
  cholBare : Bool     -- `_cholesky` decorated with ignore_args (Diag, Identity): bare key
  cholLogs : Bool     -- `_cholesky` runs psd_safe_cholesky (logs "chol")
  denseKey : Bool     -- `to_dense` memoised under its function key
  iqlBase : Bool      -- inherits LinearOperator.inv_quad_logdet
  sampleBase : Bool   -- inherits LinearOperator.zero_mean_mvn_samples
  lanczosBase : Bool  -- inherits `_root_decomposition` / `_root_inv_decomposition` (Lanczos, with the side write)
  symeigDense : Bool  -- `_symeig` goes through `self.to_dense()` (base class); Diag reads its diagonal instead
  rootCached : Bool   -- `root_decomposition` is the memoised base method (Chol/Root operators return `self`, unmemoised)
  rootInvCached : Bool -- `root_inv_decomposition` is the memoised base method (Chol inverts its factor, unmemoised)
  deriving Repr, DecidableEq

def Profile.base : Profile := ⟨false, true, false, true, true, true, true, true, true⟩
def Profile.sum : Profile := ⟨false, true, true, true, true, true, true, true, true⟩
/-- DiagLinearOperator: bare `cholesky` key, memoised `to_dense`, own inv_quad_logdet / sampling / (inverse) root hooks. -/
def Profile.diag : Profile := ⟨true, false, true, false, false, false, false, true, true⟩
/-- CholLinearOperator: `_cholesky` returns the stored factor; `root_decomposition` is `self`; own inverse root. -/
def Profile.chol : Profile := ⟨false, false, true, false, true, true, true, false, false⟩

structure St where
  cache : Cache
  run : Nat            -- next Lanczos run id
  logs : List String   -- numerical primitives run during the current step (verbose_linalg)
  deriving Repr

def St.log (s : St) (l : List String) : St := { s with logs := s.logs ++ l }

/-- memoize.`_cached.g` / `_cached_ignore_args.g`. -/
def cachedCall (k : Key) (f : St → St × Val) (s : St) : St × Val :=
  match s.cache.get k with
  | some v => (s, v)
  | none =>
    let r := f s
    ({ r.1 with cache := r.1.cache.put k r.2 }, r.2)

/-- How a `method`-taking query was called: the positional args and keyword args that end up in the key. -/
structure Call where
  args : List Arg
  kwargs : List (String × Arg)
  deriving DecidableEq, Repr

/-- The `method` parameter as Python binds it (first positional, else keyword, else None). -/
def Call.method (c : Call) (pos : Nat := 0) : Option String :=
  match c.args[pos]? with
  | some (.str m) => some m
  | some _ => none
  | none =>
    match c.kwargs.find? (·.1 == "method") with
    | some (_, .str m) => some m
    | _ => none

def Call.noargs : Call := ⟨[], []⟩
def Call.kwNone : Call := ⟨[], [("method", .none)]⟩

def cholKey (P : Profile) (upper : Bool) : Key :=
  if P.cholBare then .bare "cholesky" else .full "cholesky" [] [("upper", .bool upper)]
def rootKey (c : Call) : Key := .full "root_decomposition" c.args c.kwargs
def rootInvKey (c : Call) : Key := .full "root_inv_decomposition" c.args c.kwargs
def diagzKey (c : Call) : Key := .full "diagonalization" c.args c.kwargs
def svdKey : Key := .full "svd" [] []
def denseKey : Key := .full "fn:to_dense" [] []
def symeigKey : Key := .full "symeig" [] [("eigenvectors", .bool true)]

section queries
variable (P : Profile) (σ : Settings) (n m : Nat)

/-- `_cholesky(upper=False)` through the cache. -/
def cholLower (s : St) : St × Val :=
  cachedCall (cholKey P false) (fun s => (if P.cholLogs then s.log ["chol"] else s, Val.chol false m)) s

/-- `cholesky(upper)`: always the lower factor from the cache, transposed outside the cache. -/
def cholesky (upper : Bool) (s : St) : St × Val :=
  let r := cholLower P m s
  match r.2 with
  | .chol u mm => (r.1, .chol (if upper then !u else u) mm)
  | v => (r.1, v)

/-- The internal hook `_cholesky(upper)` called directly (what BatchRepeat / Kronecker-type overrides may do): memoised
per `upper` — for `cholBare` classes under the single bare key, which is sound because their factor is diagonal
(stored normalised as "lower"; it is also the upper factor). -/
def cholHook (upper : Bool) (s : St) : St × Val :=
  let r := cachedCall (cholKey P upper)
    (fun s => (if P.cholLogs then s.log ["chol"] else s, Val.chol (if P.cholBare then false else upper) m)) s
  match r.2 with
  | .chol u mm => (r.1, .chol (if P.cholBare then upper else u) mm)
  | v => (r.1, v)

def chooseRootMethod (c : Cache) : String :=
  if c.hasFirst "symeig" then "symeig"
  else if c.hasFirst "diagonalization" then "diagonalization"
  else if c.hasFirst "lanczos" then "lanczos"
  else if n ≤ σ.mcs || !σ.frd then "cholesky" else "lanczos"

def toDense (s : St) : St × Val :=
  if P.denseKey then cachedCall denseKey (fun s => (s, Val.dense m)) s else (s, Val.dense m)

/-- `_symeig`: `torch.linalg.eigh(self.to_dense())` — touches the memoised `to_dense`. -/
def symeigRun (s : St) : St := if P.symeigDense then ((toDense P m s).1).log ["symeig"] else s

def diagzBody (meth : String) (s : St) : St × Val :=
  if meth == "lanczos" then ({ cache := s.cache, run := s.run + 1, logs := s.logs ++ ["lanczos", "symeig"] }, Val.diagz (s.run + 1) m)
  else (symeigRun P m s, Val.diagz 0 m)

def diagzCompute (c : Call) (s : St) : St × Val :=
  diagzBody P m (match c.method with
    | some x => x
    | none => if n ≤ σ.mcs then "symeig" else "lanczos") s

def diagonalization (c : Call) (s : St) : St × Val :=
  cachedCall (diagzKey c) (diagzCompute P σ n m c) s

def svd (s : St) : St × Val :=
  cachedCall svdKey (fun s => (symeigRun P m s, Val.svd m)) s

def diagzProv : Val → Nat
  | .diagz p _ => p
  | _ => 0

/-- `_root_decomposition` (Lanczos). -/
def lanczosRoot (s : St) : St × Val :=
  if P.lanczosBase then ({ cache := s.cache, run := s.run + 1, logs := s.logs ++ ["lanczos", "symeig"] }, Val.root (.lanczos s.run) false false m)
  else (s, Val.root .chol true true m)

def rootBody (meth : String) (s : St) : St × Val :=
  if meth == "cholesky" then
    let r := cholesky P m false s
    (r.1, Val.root .chol true true m)
  else if meth == "pivoted_cholesky" then (((toDense P m s).1).log ["pivchol"], Val.root .pivchol false false m)
  else if meth == "symeig" then (symeigRun P m s, Val.root .symeig false false m)
  else if meth == "diagonalization" then
    let r := diagonalization P σ n m .noargs s
    (r.1, Val.root (.diagz (diagzProv r.2)) false false m)
  else if meth == "svd" then
    let r := svd P m s
    (r.1, Val.root .svd false false m)
  else lanczosRoot P m s

def rootCompute (c : Call) (s : St) : St × Val :=
  rootBody P σ n m (match c.method with
    | some x => x
    | none => chooseRootMethod σ n s.cache) s

def rootDecomp (c : Call) (s : St) : St × Val :=
  if P.rootCached then cachedCall (rootKey c) (rootCompute P σ n m c) s
  else (s, Val.root .chol true true m)

def rootInvBody (meth : String) (s : St) : St × Val :=
  if meth == "cholesky" then
    let r := cholesky P m false s
    (r.1, Val.rootInv .chol m)
  else if meth == "symeig" then (symeigRun P m s, Val.rootInv .symeig m)
  else if meth == "diagonalization" then
    let r := diagonalization P σ n m .noargs s
    (r.1, Val.rootInv (.diagz (diagzProv r.2)) m)
  else if meth == "svd" then
    let r := svd P m s
    (r.1, Val.rootInv .svd m)
  else if meth == "pinverse" then
    let r := rootDecomp P σ n m .noargs s
    match r.2 with
    | .root p _ _ mm => (r.1, Val.rootInv p mm)
    | _ => (r.1, Val.rootInv .transplant 0)
  else if P.lanczosBase then
    -- `_root_inv_decomposition`: one Lanczos run yields root and inverse root; the root is written into the cache
    ({ cache := s.cache.put (rootKey .noargs) (Val.root (.lanczos s.run) false false m), run := s.run + 1,
       logs := s.logs ++ ["lanczos", "symeig"] }, Val.rootInv (.lanczos s.run) m)
  else (s, Val.rootInv .chol m)

def rootInvCompute (c : Call) (s : St) : St × Val :=
  rootInvBody P σ n m (match c.method 2 with
    | some x => x
    | none => chooseRootMethod σ n s.cache) s

def rootInvDecomp (c : Call) (s : St) : St × Val :=
  if P.rootInvCached then cachedCall (rootInvKey c) (rootInvCompute P σ n m c) s
  else (s, Val.rootInv .chol m)

/-- `eigh` / `eigvalsh`: pop `symeig||eigenvectors=True` if present, returning `(evals, None)`. -/
def eigh (s : St) : St × Val :=
  match s.cache.get symeigKey with
  | some _ => ({ s with cache := s.cache.pop symeigKey }, Val.evals false m)
  | none => (symeigRun P m s, Val.evals true m)

/-- `inv_quad_logdet` / `logdet` of the base class. -/
def invQuadLogdet (s : St) : St × Val :=
  if !P.iqlBase then (s, Val.num true m)
  else if !σ.flp || n ≤ σ.mcs then
    if s.cache.hasFirst "root_decomposition" then
      let r := rootDecomp P σ n m .noargs s
      match r.2 with
      | .root _ true triOk mm => (r.1, Val.num (triOk && mm == m) m)
      | _ => let r2 := cholesky P m false r.1; (r2.1, Val.num true m)
    else let r2 := cholesky P m false s; (r2.1, Val.num true m)
  else (s, Val.num true m)

def sample (s : St) : St × Val :=
  if P.sampleBase then
    let r := rootDecomp P σ n m .noargs s
    match r.2 with
    | .root _ _ _ mm => (r.1, Val.num (mm == m) m)
    | _ => (r.1, Val.num false m)
  else (s, Val.num true m)

inductive Query
  | toDense
  | cholesky (upper : Bool)
  | cholHook (upper : Bool)
  | root (c : Call)
  | rootInv (c : Call)
  | diagz (c : Call)
  | svd
  | eigh
  | iql
  | sample
  | pure            -- solve, inv_quad, matmul, diagonal, …: no access to this object's memoize cache
  deriving DecidableEq, Repr

def runQuery (q : Query) (s : St) : St × Val :=
  match q with
  | .toDense => toDense P m s
  | .cholesky u => cholesky P m u s
  | .cholHook u => cholHook P m u s
  | .root c => rootDecomp P σ n m c s
  | .rootInv c => rootInvDecomp P σ n m c s
  | .diagz c => diagonalization P σ n m c s
  | .svd => svd P m s
  | .eigh => eigh P m s
  | .iql => invQuadLogdet P σ n m s
  | .sample => sample P σ n m s
  | .pure => (s, Val.num true m)

/-- Exact mutual inverses: same deterministic decomposition or same Lanczos run. -/
def paired : Val → Val → Bool
  | .root p _ _ a, .rootInv q b => p == q && a == b && p != .transplant
  | _, _ => false

def rootTri : Val → Bool
  | .root _ t _ _ => t
  | _ => false

def valMat : Val → Nat
  | .chol _ a | .root _ _ _ a | .rootInv _ a | .diagz _ a | .svd a | .dense a | .num _ a | .evals _ a => a

/-- Derivations other than the two transplants build the result from the constructor arguments only: empty cache. -/
def deriveFresh : Cache := []

/-- `add_low_rank` (after fix 98f87b2): returns the parent's new state and the NEW object's initial cache (matrix id `m'`).
The updated root `L U S̃` is dense and is stored as a plain (non-triangular) root. -/
def addLowRank (m' : Nat) (s : St) : St × Cache :=
  let r := rootDecomp P σ n m .kwNone s
  let ri := rootInvDecomp P σ n m .kwNone r.1
  let ok := paired r.2 ri.2 && valMat r.2 == m
  let tgt := if ok then m' else 0
  (ri.1, [(rootKey .noargs, Val.root .transplant false false tgt),
          (rootInvKey .noargs, Val.rootInv .transplant tgt)])

/-- The OLD formula of `add_low_rank` (before fix 98f87b2; NOT what the driver runs): the updated root was wrapped as
triangular whenever the parent's root was — although `L U S̃` is not triangular.  Kept only to state what the fix removed
and what a re-introduction would break. -/
def addLowRankOldWrapping (m' : Nat) (s : St) : St × Cache :=
  let r := rootDecomp P σ n m .kwNone s
  let ri := rootInvDecomp P σ n m .kwNone r.1
  let ok := paired r.2 ri.2 && valMat r.2 == m
  let tgt := if ok then m' else 0
  (ri.1, [(rootKey .noargs, Val.root .transplant (rootTri r.2) false tgt),
          (rootInvKey .noargs, Val.rootInv .transplant tgt)])

/-- `cat_rows` (generate_inv_roots = True): block root `[E 0; F G]`, triangular when `E` and `G` are. -/
def catRows (m' : Nat) (s : St) : St × Cache :=
  let r := rootDecomp P σ n m .noargs s
  let ri := rootInvDecomp P σ n m .noargs r.1
  let ok := paired r.2 ri.2 && valMat r.2 == m
  let tgt := if ok then m' else 0
  (ri.1, [(rootInvKey .noargs, Val.rootInv .transplant tgt),
          (rootKey .noargs, Val.root .transplant (rootTri r.2) (rootTri r.2) tgt)])

end queries

/-- What a cache entry under key `k` must be for an object whose matrix id is `m`. -/
def validFor (m : Nat) (k : Key) (v : Val) : Prop :=
  match v with
  | .chol u a => a = m ∧ ((k = .full "cholesky" [] [("upper", .bool u)]) ∨ (k = .bare "cholesky" ∧ u = false))
  | .root _ tri triOk a => a = m ∧ k.name = "root_decomposition" ∧ (tri = true → triOk = true)
  | .rootInv _ a => a = m ∧ k.name = "root_inv_decomposition"
  | .diagz _ a => a = m ∧ k.name = "diagonalization"
  | .svd a => a = m ∧ k.name = "svd"
  | .dense a => a = m ∧ k.name = "fn:to_dense"
  | .num _ _ => False
  | .evals _ _ => False

instance (m : Nat) (k : Key) (v : Val) : Decidable (validFor m k v) := by
  unfold validFor; cases v <;> exact inferInstance

/-- `cache_inv`: every entry is a valid answer for its key. -/
def Inv (m : Nat) (c : Cache) : Prop := ∀ k v, c.get k = some v → validFor m k v

/-- An answer is acceptable for query `q` on an object with matrix `m` (the cache-free specification: any valid
factorization of the right kind and orientation; numbers must have been computed from correct factors). -/
def answerOk (m : Nat) (q : Query) (v : Val) : Prop :=
  match q, v with
  | .toDense, .dense a => a = m
  | .cholesky u, .chol u' a => a = m ∧ u' = u
  | .cholHook u, .chol u' a => a = m ∧ u' = u
  | .root _, .root _ tri triOk a => a = m ∧ (tri = true → triOk = true)
  | .rootInv _, .rootInv _ a => a = m
  | .diagz _, .diagz _ a => a = m
  | .svd, .svd a => a = m
  | .eigh, .evals full a => a = m ∧ full = true
  | .iql, .num ok a => a = m ∧ ok = true
  | .sample, .num ok a => a = m ∧ ok = true
  | .pure, .num ok a => a = m ∧ ok = true
  | _, _ => False

instance (m : Nat) (q : Query) (v : Val) : Decidable (answerOk m q v) := by
  unfold answerOk; split <;> exact inferInstance

end LinOp.C12
