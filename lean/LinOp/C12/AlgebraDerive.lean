import Mathlib.Data.Matrix.Mul
import Mathlib.Data.Matrix.Diagonal
/-! Matrix algebra behind the derivations that are NOT transplants (`* c`, `.mT`, `__getitem__`, `add_jitter` / `add_diagonal`):
what a cached root of `A` is for the derived matrix — i.e. when carrying a factorization over would be valid. -/
namespace LinOp.C12.Algebra
open Matrix

variable {R : Type} [CommRing R] {n k r : Type} [Fintype n] [Fintype k] [Fintype r] [DecidableEq n]

/-- Scaling by `c = s²`: the root scaled by `s` is a root of `c A` (what `ConstantMul.root_decomposition`, `Chol._mul_constant`,
`Triangular._mul_constant` compute); the UNscaled root is not carried over. -/
theorem derive_scale (A : Matrix n n R) (L : Matrix n k R) (s c : R) (hA : L * Lᵀ = A) (hs : s * s = c) :
    (s • L) * (s • L)ᵀ = c • A := by
  rw [transpose_smul, Matrix.smul_mul, Matrix.mul_smul, smul_smul, hs, hA]

/-- Transposition: a root of `A` is a root of `Aᵀ` (a matrix with a root is symmetric). -/
theorem derive_transpose (A : Matrix n n R) (L : Matrix n k R) (hA : L * Lᵀ = A) : L * Lᵀ = Aᵀ := by
  rw [← hA, transpose_mul, transpose_transpose]

/-- Indexing `A[I, I]`: the row-selected root `L[I, :]` is a root of the principal submatrix (never the square `L[I, I]`). -/
theorem derive_getitem (L : Matrix n k R) (f : r → n) :
    (L.submatrix f id) * (L.submatrix f id)ᵀ = (L * Lᵀ).submatrix f f := by
  ext i j
  simp [Matrix.mul_apply]

/-- `add_jitter` / `add_diagonal`: the parent's root is a root of `A + diag(d)` ONLY IF `d = 0` — so a derived
`A + diag(d)` must start with an empty cache (which is what the code and the model do: `derived_fresh`). -/
theorem derive_add_diagonal_iff (A : Matrix n n R) (L : Matrix n k R) (d : n → R) (hA : L * Lᵀ = A) :
    L * Lᵀ = A + diagonal d ↔ d = 0 := by
  rw [hA]
  constructor
  · intro h
    have h2 : A + 0 = A + diagonal d := by simpa using h
    have h3 : diagonal d = (0 : Matrix n n R) := (add_left_cancel h2).symm
    funext i
    have := congrFun (congrFun h3 i) i
    simpa using this
  · intro h
    simp [h]

end LinOp.C12.Algebra
