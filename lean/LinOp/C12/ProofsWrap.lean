import LinOp.C12.Proofs
import LinOp.C12.Classes
/-! Helper lemmas for the wrapper state machine (`Classes.lean`): one-step soundness of the single-object model (used for the
sub-operators), the `HooksOk` contract, the generic invariant proof over any hooks meeting the contract, and the proof that the
hooks of each modelled class meet it. -/
namespace LinOp.C12

/-- One step of the single-object model: invariant preserved, answer acceptable (same statement as `cache_inv`). -/
theorem runQuery_ok (P : Profile) (σ : Settings) (n m : Nat) (q : Query) (s : St) (hs : Inv m s.cache) :
    Inv m (runQuery P σ n m q s).1.cache ∧ answerOk m q (runQuery P σ n m q s).2 := by
  cases q with
  | toDense =>
    have h := toDense_ok P m s hs
    refine ⟨h.1, ?_⟩
    show answerOk m .toDense (toDense P m s).2
    rw [valid_denseKey m h.2]; simp [answerOk]
  | cholesky u =>
    have h := cholesky_ok P m u s hs
    refine ⟨h.1, ?_⟩
    show answerOk m (.cholesky u) (cholesky P m u s).2
    rw [h.2]; simp [answerOk]
  | cholHook u =>
    have h := cholHook_ok P m u s hs
    refine ⟨h.1, ?_⟩
    show answerOk m (.cholHook u) (cholHook P m u s).2
    rw [h.2]; simp [answerOk]
  | root c =>
    have h := good_root P σ n m c s hs
    refine ⟨h.1, ?_⟩
    obtain ⟨p, tri, triOk, hv, ht⟩ := valid_rootKey m h.2
    show answerOk m (.root c) (rootDecomp P σ n m c s).2
    rw [hv]; exact ⟨rfl, ht⟩
  | rootInv c =>
    have h := good_rootInv P σ n m c s hs
    refine ⟨h.1, ?_⟩
    show answerOk m (.rootInv c) (rootInvDecomp P σ n m c s).2
    generalize (rootInvDecomp P σ n m c s).2 = v at h
    cases v <;> simp [validFor, rootInvKey, Key.name] at h
    simp [answerOk, h.2]
  | diagz c =>
    have h := good_diagz P σ n m c s hs
    refine ⟨h.1, ?_⟩
    show answerOk m (.diagz c) (diagonalization P σ n m c s).2
    generalize (diagonalization P σ n m c s).2 = v at h
    cases v <;> simp [validFor, diagzKey, Key.name] at h
    simp [answerOk, h.2]
  | svd =>
    have h := good_svd P m s hs
    refine ⟨h.1, ?_⟩
    show answerOk m .svd (svd P m s).2
    generalize (svd P m s).2 = v at h
    cases v <;> simp [validFor, svdKey, Key.name] at h
    simp [answerOk, h.2]
  | eigh =>
    show Inv m (eigh P m s).1.cache ∧ answerOk m .eigh (eigh P m s).2
    unfold eigh
    rw [symeig_absent m s.cache hs]
    exact ⟨symeigRun_ok P m s hs, by simp [answerOk]⟩
  | iql =>
    show Inv m (invQuadLogdet P σ n m s).1.cache ∧ answerOk m .iql (invQuadLogdet P σ n m s).2
    unfold invQuadLogdet
    split
    · exact ⟨hs, by simp [answerOk]⟩
    · split
      · split
        · have h := good_root P σ n m .noargs s hs
          obtain ⟨p, tri, triOk, hv, ht⟩ := valid_rootKey m h.2
          simp only [hv]
          cases tri with
          | true => simp [answerOk, ht rfl]; exact h.1
          | false => exact ⟨(cholesky_ok P m false _ h.1).1, by simp [answerOk]⟩
        · exact ⟨(cholesky_ok P m false s hs).1, by simp [answerOk]⟩
      · exact ⟨hs, by simp [answerOk]⟩
  | sample =>
    show Inv m (sample P σ n m s).1.cache ∧ answerOk m .sample (sample P σ n m s).2
    unfold sample
    split
    · have h := good_root P σ n m .noargs s hs
      obtain ⟨p, tri, triOk, hv, ht⟩ := valid_rootKey m h.2
      simp only [hv]
      exact ⟨h.1, by simp [answerOk]⟩
    · exact ⟨hs, by simp [answerOk]⟩
  | pure => exact ⟨hs, by simp [runQuery, answerOk]⟩

/-! ### effects on the sub-operators -/

theorem WInv.mapSubs {m : Nat} {w : WSt} (h : WInv m w) (f : SubObj → St)
    (hf : ∀ o, Inv o.m o.st.cache → Inv o.m (f o).cache) :
    WInv m { w with subs := w.subs.map fun o => { o with st := f o } } := by
  refine ⟨h.1, ?_⟩
  intro o ho
  simp only [List.mem_map] at ho
  obtain ⟨o', ho', rfl⟩ := ho
  exact hf o' (h.2 o' ho')

theorem subsQuery_ok (σ : Settings) (q : Query) {m : Nat} {w : WSt} (h : WInv m w) :
    WInv m (subsQuery σ q w).1 ∧ (subsQuery σ q w).2 = true := by
  refine ⟨WInv.mapSubs h _ (fun o ho => (runQuery_ok o.P σ o.n o.m q o.st ho).1), ?_⟩
  simp only [subsQuery, List.all_eq_true, decide_eq_true_eq]
  intro o ho
  exact (runQuery_ok o.P σ o.n o.m q o.st (h.2 o ho)).2

theorem subsSymeig_ok {m : Nat} {w : WSt} (h : WInv m w) : WInv m (subsSymeig w) :=
  WInv.mapSubs h _ (fun o ho => symeigRun_ok o.P o.m o.st ho)

theorem subsLanczosRoot_ok {m : Nat} {w : WSt} (h : WInv m w) : WInv m (subsLanczosRoot w) :=
  WInv.mapSubs h _ (fun o ho => (lanczosRoot_ok o.P o.m .noargs o.st ho).1)

theorem subsLanczosRootInv_ok (σ : Settings) {m : Nat} {w : WSt} (h : WInv m w) : WInv m (subsLanczosRootInv σ w) :=
  WInv.mapSubs h _ (fun o ho => (good_rootInvBody o.P σ o.n o.m .noargs "lanczos" o.st ho).1)

theorem WInv.putSelf {m : Nat} {w : WSt} (h : WInv m w) {k : Key} {v : Val} (hv : validFor m k v) : WInv m (w.putSelf k v) :=
  ⟨Inv.put h.1 hv, h.2⟩

theorem WInv.bump {m : Nat} {w : WSt} (h : WInv m w) : WInv m (wBump w) := ⟨h.1, h.2⟩

/-! ### the contract of the hooks and the generic proof -/

/-- What the generic base-class logic needs from the class's hooks. -/
structure HooksOk (H : Hooks) (m : Nat) : Prop where
  chol : ∀ u w, WInv m w → WInv m (H.chol u w).1 ∧ (H.chol u w).2 = Val.chol u m
  symeig : ∀ w, WInv m w → WInv m (H.symeig w)
  svd : ∀ w, WInv m w → WInv m (H.svd w).1 ∧ (H.svd w).2 = Val.svd m
  denseBody : ∀ w, WInv m w → WInv m (H.denseBody w)
  lroot : ∀ w, WInv m w → WInv m (H.lroot w).1 ∧ ∃ p t, (H.lroot w).2 = Val.root p t t m
  lrootInv : ∀ w, WInv m w → WInv m (H.lrootInv w).1 ∧ ∃ p, (H.lrootInv w).2 = Val.rootInv p m
  rootOv : ∀ f, H.rootOv = some f → ∀ c w, WInv m w → ∀ r, f c w = .inl r → WInv m r.1 ∧ ∃ p t, r.2 = Val.root p t t m
  rootInvOv : ∀ f, H.rootInvOv = some f → ∀ c w, WInv m w → ∀ r, f c w = .inl r → WInv m r.1 ∧ ∃ p, r.2 = Val.rootInv p m
  iqlOv : ∀ f, H.iqlOv = some f → ∀ w, WInv m w → WInv m (f w).1 ∧ (f w).2 = Val.num true m
  sampleOv : ∀ f, H.sampleOv = some f → ∀ w, WInv m w → WInv m (f w).1 ∧ (f w).2 = Val.num true m

/-- A wrapper computation that keeps the invariant and returns a valid entry for key `k`. -/
def WGood (m : Nat) (k : Key) (f : WSt → WSt × Val) : Prop :=
  ∀ w, WInv m w → WInv m (f w).1 ∧ validFor m k (f w).2

theorem wgood_cached {m : Nat} {k : Key} {f : WSt → WSt × Val} (hf : WGood m k f) : WGood m k (wCached k f) := by
  intro w hw
  unfold wCached
  cases hg : w.self.cache.get k with
  | some v => exact ⟨hw, hw.1 _ _ hg⟩
  | none =>
    have := hf w hw
    exact ⟨WInv.putSelf this.1 this.2, this.2⟩

theorem valid_diagzKey {m : Nat} {c : Call} {v : Val} (h : validFor m (diagzKey c) v) : ∃ p, v = Val.diagz p m := by
  cases v <;> simp [validFor, diagzKey, Key.name] at h
  case diagz p a => exact ⟨p, by simp [h]⟩

theorem valid_svdKey {m : Nat} {v : Val} (h : validFor m svdKey v) : v = Val.svd m := by
  cases v <;> simp [validFor, svdKey, Key.name] at h
  simp [h]

section
variable {H : Hooks} {m : Nat} (hH : HooksOk H m) (σ : Settings) (n : Nat)
include hH

theorem wCholHook_ok (u : Bool) (w : WSt) (hw : WInv m w) :
    WInv m (wCholHook H u w).1 ∧ (wCholHook H u w).2 = Val.chol u m := by
  have hg : WGood m (.full "cholesky" [] [("upper", .bool u)]) (H.chol u) := by
    intro w hw
    have := hH.chol u w hw
    exact ⟨this.1, by rw [this.2]; simp [validFor]⟩
  have h := wgood_cached hg w hw
  refine ⟨h.1, ?_⟩
  have hv := h.2
  unfold wCholHook
  generalize (wCached (Key.full "cholesky" [] [("upper", Arg.bool u)]) (H.chol u) w).2 = v at hv
  cases v <;> simp [validFor, Key.name] at hv
  case chol u' a => simp [hv.1, hv.2]

theorem wCholesky_ok (u : Bool) (w : WSt) (hw : WInv m w) :
    WInv m (wCholesky H u w).1 ∧ (wCholesky H u w).2 = Val.chol u m := by
  have h := wCholHook_ok hH false w hw
  have e : wCholesky H u w = ((wCholHook H false w).1, Val.chol u m) := by
    simp only [wCholesky, h.2]
    cases u <;> rfl
  rw [e]
  exact ⟨h.1, rfl⟩

theorem wToDense_ok (w : WSt) (hw : WInv m w) :
    WInv m (wToDense H m w).1 ∧ (wToDense H m w).2 = Val.dense m := by
  unfold wToDense
  split
  · have h := wgood_cached (k := denseKey) (f := fun w => (H.denseBody w, Val.dense m))
      (fun w hw => ⟨hH.denseBody w hw, by simp [validFor, denseKey, Key.name]⟩) w hw
    exact ⟨h.1, valid_denseKey m h.2⟩
  · exact ⟨hH.denseBody w hw, rfl⟩

theorem wgood_diagz' (c : Call) : WGood m (diagzKey (H.diagzRebind c)) (wDiagonalization H σ n m c) := by
  unfold wDiagonalization
  apply wgood_cached
  have body : ∀ meth : String, WGood m (diagzKey (H.diagzRebind c)) (wDiagzBody H m meth) := by
    intro meth w hw
    unfold wDiagzBody
    split
    · exact ⟨WInv.bump hw, by simp [validFor, diagzKey, Key.name]⟩
    · exact ⟨hH.symeig w hw, by simp [validFor, diagzKey, Key.name]⟩
  intro w hw
  exact body _ w hw

/-- With a re-binding override the entry lives under the re-bound key; it is a valid answer for the call as made. -/
theorem wgood_diagz (c : Call) : WGood m (diagzKey c) (wDiagonalization H σ n m c) := by
  intro w hw
  have h := wgood_diagz' hH σ n c w hw
  obtain ⟨p, hp⟩ := valid_diagzKey h.2
  exact ⟨h.1, by rw [hp]; simp [validFor, diagzKey, Key.name]⟩

theorem wgood_svd : WGood m svdKey (wSvd H) := by
  unfold wSvd
  apply wgood_cached
  intro w hw
  have := hH.svd w hw
  exact ⟨this.1, by rw [this.2]; simp [validFor, svdKey, Key.name]⟩

theorem wRootBody_ok (meth : String) (w : WSt) (hw : WInv m w) :
    WInv m (wRootBody H σ n m meth w).1 ∧ ∃ p t, (wRootBody H σ n m meth w).2 = Val.root p t t m := by
  unfold wRootBody
  split
  · have h := wCholesky_ok hH false w hw
    exact ⟨h.1, .chol, true, by simp [h.2, valMat]⟩
  · split
    · exact ⟨(wToDense_ok hH w hw).1, .pivchol, false, rfl⟩
    · split
      · exact ⟨hH.symeig w hw, .symeig, false, rfl⟩
      · split
        · have h := wgood_diagz hH σ n .noargs w hw
          obtain ⟨p, hp⟩ := valid_diagzKey h.2
          exact ⟨h.1, .diagz p, false, by simp [hp, valMat, diagzProv]⟩
        · split
          · have h := wgood_svd hH w hw
            exact ⟨h.1, .svd, false, by simp [valid_svdKey h.2, valMat]⟩
          · exact hH.lroot w hw

theorem wgood_root (c : Call) : WGood m (rootKey c) (wRootDecomp H σ n m c) := by
  unfold wRootDecomp
  apply wgood_cached
  intro w hw
  have base : ∀ c' : Call, ∀ k : Key, k.name = "root_decomposition" → WGood m k (wRootCompute H σ n m c') := by
    intro c' k hk w hw
    obtain ⟨h1, p, t, h2⟩ := wRootBody_ok hH σ n _ w hw
    exact ⟨h1, by show validFor m k (wRootBody H σ n m _ w).2; rw [h2]; simp [validFor, hk]⟩
  cases hov : H.rootOv with
  | some f =>
    simp only
    cases hf : f c w with
    | inl r =>
      obtain ⟨h1, p, t, h2⟩ := hH.rootOv f hov c w hw r hf
      exact ⟨h1, by rw [h2]; exact rootKey_valid m c p t⟩
    | inr c' =>
      simp only
      have h := wgood_cached (base c' (rootKey c') rfl) w hw
      obtain ⟨p, tri, triOk, hv, ht⟩ := valid_rootKey m h.2
      exact ⟨h.1, by rw [hv]; simp [validFor, rootKey, Key.name]; exact ht⟩
  | none => exact base c (rootKey c) rfl w hw

theorem wRootInvBody_ok (c : Call) (meth : String) (w : WSt) (hw : WInv m w) :
    WInv m (wRootInvBody H σ n m meth w).1 ∧ validFor m (rootInvKey c) (wRootInvBody H σ n m meth w).2 := by
  unfold wRootInvBody
  split
  · have h := wCholesky_ok hH false w hw
    exact ⟨h.1, by simp [h.2, valMat, validFor, rootInvKey, Key.name]⟩
  · split
    · exact ⟨hH.symeig w hw, rootInvKey_valid m c _⟩
    · split
      · have h := wgood_diagz hH σ n .noargs w hw
        obtain ⟨p, hp⟩ := valid_diagzKey h.2
        exact ⟨h.1, by simp [hp, valMat, validFor, rootInvKey, Key.name]⟩
      · split
        · have h := wgood_svd hH w hw
          exact ⟨h.1, by simp [valid_svdKey h.2, valMat, validFor, rootInvKey, Key.name]⟩
        · split
          · have h := wgood_root hH σ n .noargs w hw
            obtain ⟨p, tri, triOk, hv, _⟩ := valid_rootKey m h.2
            simp only [hv]
            exact ⟨h.1, rootInvKey_valid m c _⟩
          · obtain ⟨h1, p, h2⟩ := hH.lrootInv w hw
            exact ⟨h1, by rw [h2]; exact rootInvKey_valid m c p⟩

theorem wgood_rootInv (c : Call) : WGood m (rootInvKey c) (wRootInvDecomp H σ n m c) := by
  unfold wRootInvDecomp
  apply wgood_cached
  intro w hw
  cases hov : H.rootInvOv with
  | some f =>
    simp only
    cases hf : f c w with
    | inl r =>
      obtain ⟨h1, p, h2⟩ := hH.rootInvOv f hov c w hw r hf
      exact ⟨h1, by rw [h2]; exact rootInvKey_valid m c p⟩
    | inr c' =>
      simp only
      have h := wgood_cached (k := rootInvKey c') (f := wRootInvCompute H σ n m c')
        (fun w hw => wRootInvBody_ok hH σ n c' _ w hw) w hw
      refine ⟨h.1, ?_⟩
      have hv := h.2
      generalize (wCached (rootInvKey c') (wRootInvCompute H σ n m c') w).2 = v at hv
      cases v <;> simp [validFor, rootInvKey, Key.name] at hv
      simp [validFor, rootInvKey, Key.name, hv]
  | none => exact wRootInvBody_ok hH σ n c _ w hw

theorem wIqlBase_ok (w : WSt) (hw : WInv m w) :
    WInv m (wIqlBase H σ n m w).1 ∧ (wIqlBase H σ n m w).2 = Val.num true m := by
  unfold wIqlBase
  cases hov : H.iqlOv with
  | some f =>
    have := hH.iqlOv f hov w hw
    exact ⟨this.1, by simp only; rw [this.2]⟩
  | none =>
    simp only
    split
    · split
      · have h := wgood_root hH σ n .noargs w hw
        obtain ⟨p, tri, triOk, hv, ht⟩ := valid_rootKey m h.2
        simp only [hv]
        cases tri with
        | true => simp [ht rfl]; exact h.1
        | false =>
          have h2 := wCholesky_ok hH false _ h.1
          exact ⟨h2.1, by simp [h2.2, valMat]⟩
      · have h2 := wCholesky_ok hH false w hw
        exact ⟨h2.1, by simp [h2.2, valMat]⟩
    · exact ⟨hw, rfl⟩

theorem wLogdetDiagz_ok (w : WSt) (hw : WInv m w) :
    WInv m (wLogdetDiagz H σ n m w).1 ∧ (wLogdetDiagz H σ n m w).2 = Val.num true m := by
  unfold wLogdetDiagz
  have h := wgood_diagz hH σ n .noargs w hw
  obtain ⟨p, hp⟩ := valid_diagzKey h.2
  exact ⟨h.1, by simp [hp, valMat]⟩

theorem wIql_ok (w : WSt) (hw : WInv m w) :
    WInv m (wIql H σ n m w).1 ∧ answerOk m .iql (wIql H σ n m w).2 := by
  unfold wIql
  split
  · have h := wIqlBase_ok hH σ n w hw
    have h2 := wLogdetDiagz_ok hH σ n _ h.1
    exact ⟨h2.1, by simp [h.2, h2.2, valOk, answerOk]⟩
  · have h := wIqlBase_ok hH σ n w hw
    exact ⟨h.1, by rw [h.2]; simp [answerOk]⟩

theorem wLogdet_ok (w : WSt) (hw : WInv m w) :
    WInv m (wLogdet H σ n m w).1 ∧ answerOk m .iql (wLogdet H σ n m w).2 := by
  unfold wLogdet
  split
  · have h := wLogdetDiagz_ok hH σ n w hw
    exact ⟨h.1, by rw [h.2]; simp [answerOk]⟩
  · exact wIql_ok hH σ n w hw

/-- **One step of the generic wrapper logic on the wrapper itself.** -/
theorem wRunSelf_ok (q : Query) (w : WSt) (hw : WInv m w) :
    WInv m (wRunSelf H σ n m q w).1 ∧ answerOk m q (wRunSelf H σ n m q w).2 := by
  cases q with
  | toDense =>
    have h := wToDense_ok hH w hw
    exact ⟨h.1, by show answerOk m .toDense (wToDense H m w).2; rw [h.2]; simp [answerOk]⟩
  | cholesky u =>
    have h := wCholesky_ok hH u w hw
    exact ⟨h.1, by show answerOk m (.cholesky u) (wCholesky H u w).2; rw [h.2]; simp [answerOk]⟩
  | cholHook u =>
    have h := wCholHook_ok hH u w hw
    exact ⟨h.1, by show answerOk m (.cholHook u) (wCholHook H u w).2; rw [h.2]; simp [answerOk]⟩
  | root c =>
    have h := wgood_root hH σ n c w hw
    obtain ⟨p, tri, triOk, hv, ht⟩ := valid_rootKey m h.2
    exact ⟨h.1, by show answerOk m (.root c) (wRootDecomp H σ n m c w).2; rw [hv]; exact ⟨rfl, ht⟩⟩
  | rootInv c =>
    have h := wgood_rootInv hH σ n c w hw
    refine ⟨h.1, ?_⟩
    show answerOk m (.rootInv c) (wRootInvDecomp H σ n m c w).2
    generalize (wRootInvDecomp H σ n m c w).2 = v at h
    cases v <;> simp [validFor, rootInvKey, Key.name] at h
    simp [answerOk, h.2]
  | diagz c =>
    have h := wgood_diagz hH σ n c w hw
    obtain ⟨p, hp⟩ := valid_diagzKey h.2
    exact ⟨h.1, by show answerOk m (.diagz c) (wDiagonalization H σ n m c w).2; rw [hp]; simp [answerOk]⟩
  | svd =>
    have h := wgood_svd hH w hw
    exact ⟨h.1, by show answerOk m .svd (wSvd H w).2; rw [valid_svdKey h.2]; simp [answerOk]⟩
  | eigh =>
    show WInv m (wEigh H m w).1 ∧ answerOk m .eigh (wEigh H m w).2
    unfold wEigh
    rw [symeig_absent m w.self.cache hw.1]
    exact ⟨hH.symeig w hw, by simp [answerOk]⟩
  | iql => exact wIql_ok hH σ n w hw
  | sample =>
    show WInv m (wSample H σ n m w).1 ∧ answerOk m .sample (wSample H σ n m w).2
    unfold wSample
    cases hov : H.sampleOv with
    | some f =>
      have := hH.sampleOv f hov w hw
      exact ⟨this.1, by simp only; rw [this.2]; simp [answerOk]⟩
    | none =>
      simp only
      have h := wgood_root hH σ n .noargs w hw
      obtain ⟨p, tri, triOk, hv, ht⟩ := valid_rootKey m h.2
      simp only [hv]
      exact ⟨h.1, by simp [answerOk]⟩
  | pure => exact ⟨hw, by simp [wRunSelf, answerOk]⟩

/-- **One step of the wrapper state machine** (query on the wrapper or on a held sub-operator). -/
theorem wRun_ok (q : WQuery) (w : WSt) (hw : WInv m w) :
    WInv m (wRun H σ n m q w).1 ∧ wAnswerOk m w q (wRun H σ n m q w).2 := by
  cases q with
  | self q => exact wRunSelf_ok hH σ n q w hw
  | sub j q =>
    refine ⟨⟨hw.1, ?_⟩, ?_⟩
    · intro o ho
      simp only [wRun, List.mem_map] at ho
      obtain ⟨o', ho', rfl⟩ := ho
      split
      · exact (runQuery_ok o'.P σ o'.n o'.m q o'.st (hw.2 o' ho')).1
      · exact hw.2 o' ho'
    · intro hex
      simp only [wRun]
      cases hf : w.subs.find? (fun o => o.m == j) with
      | none =>
        obtain ⟨o, ho, hj⟩ := hex
        have := List.find?_eq_none.mp hf o ho
        simp [hj] at this
      | some o =>
        have hmem := List.mem_of_find?_eq_some hf
        have hj : o.m = j := by simpa using List.find?_some hf
        simp only
        rw [← hj]
        exact (runQuery_ok o.P σ o.n o.m q o.st (hw.2 o hmem)).2
  | logdet => exact wLogdet_ok hH σ n w hw

end

/-! ### the modelled classes meet the contract -/

theorem hooksOk_delegating (σ : Settings) (m : Nat) (b e : Bool) : HooksOk (Hooks.delegating σ m b e) m where
  chol u w hw := by
    have h := subsQuery_ok σ (.cholesky u) hw
    exact ⟨h.1, by simp [Hooks.delegating, h.2]⟩
  symeig w hw := by
    cases e with
    | false => exact subsSymeig_ok hw
    | true => exact WInv.putSelf hw (by simp [validFor, denseKey, Key.name])
  svd w hw := by
    cases e with
    | false =>
      have h := subsQuery_ok σ .svd hw
      exact ⟨h.1, by simp [Hooks.delegating, h.2]⟩
    | true => exact ⟨WInv.putSelf hw (by simp [validFor, denseKey, Key.name]), rfl⟩
  denseBody w hw := hw
  lroot w hw := ⟨WInv.bump (subsLanczosRoot_ok hw), _, false, rfl⟩
  lrootInv w hw := ⟨WInv.bump (subsLanczosRootInv_ok σ hw), _, rfl⟩
  rootOv f hf := by simp [Hooks.delegating] at hf
  rootInvOv f hf := by simp [Hooks.delegating] at hf
  iqlOv f hf w hw := by
    simp only [Hooks.delegating, Option.some.injEq] at hf
    subst hf
    have h := subsQuery_ok σ .iql hw
    exact ⟨h.1, by simp [h.2]⟩
  sampleOv f hf w hw := by
    cases b with
    | false => simp [Hooks.delegating] at hf
    | true =>
      simp only [Hooks.delegating, if_true, Option.some.injEq] at hf
      subst hf
      have h := subsQuery_ok σ .sample hw
      exact ⟨h.1, by simp [h.2]⟩

theorem hooksOk_constMul (σ : Settings) (m : Nat) : HooksOk (Hooks.constMul σ m) m where
  chol u w hw := ⟨hw, rfl⟩
  symeig w hw := WInv.putSelf hw (by simp [validFor, denseKey, Key.name])
  svd w hw := ⟨WInv.putSelf hw (by simp [validFor, denseKey, Key.name]), rfl⟩
  denseBody w hw := hw
  lroot w hw := ⟨WInv.bump hw, _, false, rfl⟩
  lrootInv w hw := ⟨WInv.bump (WInv.putSelf hw (rootKey_valid m .noargs _ false)), _, rfl⟩
  rootOv f hf c w hw r hr := by
    simp only [Hooks.constMul, Option.some.injEq] at hf
    subst hf
    have h := subsQuery_ok σ (.root (kwMethod c)) hw
    simp only [Sum.inl.injEq] at hr
    subst hr
    refine ⟨h.1, ?_⟩
    simp only [h.2, if_true]
    exact ⟨_, false, rfl⟩
  rootInvOv f hf c w hw r hr := by
    simp only [Hooks.constMul, Option.some.injEq] at hf
    subst hf
    have h := subsQuery_ok σ (.rootInv (kwRootInv c)) hw
    simp only [Sum.inl.injEq] at hr
    subst hr
    refine ⟨h.1, ?_⟩
    simp only [h.2, if_true]
    exact ⟨_, rfl⟩
  iqlOv f hf := by simp [Hooks.constMul] at hf
  sampleOv f hf := by simp [Hooks.constMul] at hf

/-- **KroneckerProductLinearOperator meets the contract** — for any number of factors of any modelled class, any size, any settings. -/
theorem hooksOk_kron (σ : Settings) (n m : Nat) : HooksOk (Hooks.kron σ n m) m where
  chol u w hw := by
    have h := subsQuery_ok σ (.cholesky u) hw
    exact ⟨h.1, by simp [Hooks.kron, h.2]⟩
  symeig w hw := subsSymeig_ok hw
  svd w hw := by
    have h := subsQuery_ok σ .svd hw
    exact ⟨h.1, by simp [Hooks.kron, h.2]⟩
  denseBody w hw := hw
  lroot w hw := ⟨WInv.bump hw, _, false, rfl⟩
  lrootInv w hw := ⟨WInv.bump (WInv.putSelf hw (rootKey_valid m .noargs _ false)), _, rfl⟩
  rootOv f hf c w hw r hr := by
    simp only [Hooks.kron, Option.some.injEq] at hf
    subst hf
    by_cases hn : n ≤ σ.mcs
    · simp [hn] at hr
    · simp only [hn, if_false, Sum.inl.injEq] at hr
      subst hr
      have h := subsQuery_ok σ (.root (kwMethod c)) hw
      refine ⟨h.1, ?_⟩
      simp only [h.2, if_true]
      exact ⟨_, false, rfl⟩
  rootInvOv f hf c w hw r hr := by
    simp only [Hooks.kron, Option.some.injEq] at hf
    subst hf
    by_cases hn : n ≤ σ.mcs
    · simp [hn] at hr
    · simp only [hn, if_false, Sum.inl.injEq] at hr
      subst hr
      have h := subsQuery_ok σ (.rootInv (kwMethod2 c)) hw
      refine ⟨h.1, ?_⟩
      simp only [h.2, if_true]
      exact ⟨_, rfl⟩
  iqlOv f hf := by simp [Hooks.kron] at hf
  sampleOv f hf := by simp [Hooks.kron] at hf

theorem sumDense_ok (σ : Settings) {m : Nat} {w : WSt} (hw : WInv m w) : WInv m (sumDense σ m w) := by
  unfold sumDense
  split
  · exact hw
  · exact WInv.putSelf (subsQuery_ok σ .toDense hw).1 (by simp [validFor, denseKey, Key.name])

theorem firstQuery_ok (σ : Settings) (q : Query) {m : Nat} {w : WSt} (hw : WInv m w) :
    WInv m (firstQuery σ q w).1 ∧ (firstQuery σ q w).2 = true := by
  unfold firstQuery
  cases hs : w.subs with
  | nil => exact ⟨hw, rfl⟩
  | cons o t =>
    have ho : Inv o.m o.st.cache := hw.2 o (by rw [hs]; exact List.mem_cons_self)
    have h := runQuery_ok o.P σ o.n o.m q o.st ho
    refine ⟨⟨hw.1, ?_⟩, by simp [h.2]⟩
    intro o' ho'
    simp only [List.mem_cons] at ho'
    rcases ho' with rfl | ht
    · exact h.1
    · exact hw.2 o' (by rw [hs]; exact List.mem_cons_of_mem _ ht)

theorem firstSymeig_ok {m : Nat} {w : WSt} (hw : WInv m w) : WInv m (firstSymeig w) := by
  unfold firstSymeig
  cases hs : w.subs with
  | nil => exact hw
  | cons o t =>
    have ho : Inv o.m o.st.cache := hw.2 o (by rw [hs]; exact List.mem_cons_self)
    refine ⟨hw.1, ?_⟩
    intro o' ho'
    simp only [List.mem_cons] at ho'
    rcases ho' with rfl | ht
    · exact symeigRun_ok o.P o.m o.st ho
    · exact hw.2 o' (by rw [hs]; exact List.mem_cons_of_mem _ ht)

/-- **AddedDiagLinearOperator meets the contract** (general and constant diagonal part). -/
theorem hooksOk_addedDiag (σ : Settings) (m : Nat) (cd : Bool) : HooksOk (Hooks.addedDiag σ m cd) m where
  chol u w hw := ⟨hw, rfl⟩
  symeig w hw := by
    cases cd with
    | true => exact firstSymeig_ok hw
    | false => exact sumDense_ok σ hw
  svd w hw := by
    cases cd with
    | true =>
      have h := firstQuery_ok σ .svd hw
      exact ⟨h.1, by simp [Hooks.addedDiag, h.2]⟩
    | false => exact ⟨sumDense_ok σ hw, rfl⟩
  denseBody w hw := (subsQuery_ok σ .toDense hw).1
  lroot w hw := ⟨WInv.bump hw, _, false, rfl⟩
  lrootInv w hw := ⟨WInv.bump (WInv.putSelf hw (rootKey_valid m .noargs _ false)), _, rfl⟩
  rootOv f hf := by simp [Hooks.addedDiag] at hf
  rootInvOv f hf := by simp [Hooks.addedDiag] at hf
  iqlOv f hf := by simp [Hooks.addedDiag] at hf
  sampleOv f hf := by simp [Hooks.addedDiag] at hf

theorem hooksOk_kind (k : WKind) (σ : Settings) (n m : Nat) : HooksOk (k.hooks σ n m) m := by
  cases k
  · exact hooksOk_delegating σ m false false
  · exact hooksOk_delegating σ m true false
  · exact hooksOk_constMul σ m
  · exact hooksOk_delegating σ m true true
  · exact hooksOk_kron σ n m
  · exact hooksOk_addedDiag σ m false
  · exact hooksOk_addedDiag σ m true

end LinOp.C12
