import LinOp.C17.Proofs
/-! Helper lemmas for the session-5 extension of C17 (core Lean only). -/
namespace LinOp.C17

theorem run_nil (K : Nat → Kind) (s : State) : run K s [] = s := rfl

theorem settingVal_a (k : Kind) (g1 g2 : Slots) (h : settingVal k g1 = settingVal k g2) : g1.a = g2.a := by
  cases k with
  | flag r => simpa [settingVal] using h
  | value => simpa [settingVal] using h
  | dtype => simp only [settingVal] at h; rw [h]

theorem step_objs_isSome (K : Nat → Kind) (s : State) (e : Event) (o : ObjId) (h : (s.objs o).isSome) :
    ((step K s e).objs o).isSome := by
  cases e with
  | construct o' inst => simp only [step, upd]; split <;> simp [h]
  | enter o' =>
    simp only [step]; split
    · exact h
    · simp only [upd]; split <;> simp [h]
  | exit o' exc => simp only [step]; split <;> exact h
  | poke c v => exact h
  | set c v => exact h

theorem run_objs_isSome (K : Nat → Kind) (h : List Event) (s : State) (o : ObjId) (hs : (s.objs o).isSome) :
    ((run K s h).objs o).isSome := by
  induction h generalizing s with
  | nil => exact hs
  | cons e h ih => rw [run_cons]; exact ih _ (step_objs_isSome K s e o hs)

theorem step_construct_isSome (K : Nat → Kind) (s : State) (o : ObjId) (inst : Slots) :
    ((step K s (Event.construct o inst)).objs o).isSome := by simp [step]

theorem step_exit_objs (K : Nat → Kind) (s : State) (o : ObjId) (exc : Bool) :
    (step K s (Event.exit o exc)).objs = s.objs := by
  simp only [step]; split <;> rfl

theorem exit_restores_saved (K : Nat → Kind) (s : State) (o : ObjId) (exc : Bool) (ob : Obj)
    (h : s.objs o = some ob) :
    settingVal (K o.1) ((step K s (Event.exit o exc)).globals o.1) = settingVal (K o.1) ob.saved := by
  rw [step_exit_some K s o exc ob h]; exact settingVal_restore _ _ _

theorem setOnEnter_dtype_get (g inst : Slots) (i : Slot) (h : inst.get i = none) :
    (setOnEnter .dtype g inst).get i = g.get i := by
  cases i <;> simp only [Slots.get] at h ⊢ <;> simp [setOnEnter, h]

theorem enterAll_append (l1 l2 : List ObjId) : enterAll (l1 ++ l2) = enterAll l1 ++ enterAll l2 := by
  simp [enterAll]

theorem exitAll_append (l1 l2 : List ObjId) (exc : Bool) : exitAll (l1 ++ l2) exc = exitAll l1 exc ++ exitAll l2 exc := by
  simp [exitAll]

theorem enterAll_cls (l : List ObjId) (c : Nat) (h : ∀ q ∈ l, q.1 ≠ c) : ∀ e ∈ enterAll l, e.cls ≠ c := by
  intro e he
  simp only [enterAll, List.mem_map] at he
  obtain ⟨q, hq, rfl⟩ := he
  exact h q hq

theorem exitAll_cls (l : List ObjId) (exc : Bool) (c : Nat) (h : ∀ q ∈ l, q.1 ≠ c) : ∀ e ∈ exitAll l exc, e.cls ≠ c := by
  intro e he
  simp only [exitAll, List.mem_map] at he
  obtain ⟨q, hq, rfl⟩ := he
  exact h q hq

theorem enterAll_obj (l : List ObjId) (p : ObjId) (h : ∀ q ∈ l, q ≠ p) : ∀ e ∈ enterAll l, e.obj? ≠ some p := by
  intro e he
  simp only [enterAll, List.mem_map] at he
  obtain ⟨q, hq, rfl⟩ := he
  simpa [Event.obj?] using h q hq

theorem exitAll_obj (l : List ObjId) (exc : Bool) (p : ObjId) (h : ∀ q ∈ l, q ≠ p) : ∀ e ∈ exitAll l exc, e.obj? ≠ some p := by
  intro e he
  simp only [exitAll, List.mem_map] at he
  obtain ⟨q, hq, rfl⟩ := he
  simpa [Event.obj?] using h q hq

end LinOp.C17
