import LinOp.Core.Parse
import LinOp.C17.Model
import LinOp.Generated.C17Table
/-! Line-protocol driver for the C17 settings model. -/
open LinOp LinOp.C17 LinOp.Parse

def tableK (i : Nat) : Kind :=
  match LinOp.Generated.C17.classes[i]? with
  | none => .value
  | some c =>
    if c.base = "_feature_flag" then .flag (c.defines.contains "_set_state")
    else if c.base = "_value_context" then .value else .dtype

def pv (s : String) : Option Val := if s = "n" then some none else s.toInt?.map some
def sv (v : Val) : String := match v with | none => "n" | some x => toString x

def showState (s : State) : String :=
  let cs := LinOp.Generated.C17.classes
  " ".intercalate <| (List.range cs.length).map fun i =>
    let g := s.globals i
    let on := match cs[i]? with
      | some c => if c.base = "_feature_flag" then
          (if flagOn c.flagDefault g then "T" else "F") ++ (if isDefault g then "D" else "d") else "-"
      | none => "-"
    s!"{sv g.a}|{sv g.b}|{sv g.c}|{on}"

def stepLine (s : State) (line : String) : State × String :=
  let bad := (s, "bad-op")
  match words line with
  | ["init", c, a, b, d] =>
    match c.toNat?, pv a, pv b, pv d with
    | some c, some a, some b, some d =>
      let s' := { s with globals := upd s.globals c ⟨a, b, d⟩ }; (s', showState s')
    | _, _, _, _ => bad
  | ["new", c, k, a, b, d] =>
    match c.toNat?, k.toNat?, pv a, pv b, pv d with
    | some c, some k, some a, some b, some d =>
      let s' := step tableK s (.construct (c, k) ⟨a, b, d⟩); (s', showState s')
    | _, _, _, _, _ => bad
  | ["enter", c, k] =>
    match c.toNat?, k.toNat? with
    | some c, some k => let s' := step tableK s (.enter (c, k)); (s', showState s')
    | _, _ => bad
  | ["exit", c, k, e] =>
    match c.toNat?, k.toNat? with
    | some c, some k => let s' := step tableK s (.exit (c, k) (e = "1")); (s', showState s')
    | _, _ => bad
  | ["poke", c, v] =>
    match c.toNat?, pv v with
    | some c, some v => let s' := step tableK s (.poke c v); (s', showState s')
    | _, _ => bad
  | ["set", c, a, b, d] =>
    match c.toNat?, pv a, pv b, pv d with
    | some c, some a, some b, some d =>
      let s' := step tableK s (.set c ⟨a, b, d⟩); (s', showState s')
    | _, _, _, _ => bad
  | ["dvalue", c, d] =>
    match c.toNat?, d.toNat? with
    | some c, some d => (s, match dtypeValue d (s.globals c) with | some v => sv v | none => "raise")
    | _, _ => bad
  | ["reset"] => let s' : State := ⟨fun _ => ⟨none, none, none⟩, fun _ => none⟩; (s', "ok")
  | _ => bad

def main : IO Unit := do
  loop (← IO.getStdin) (⟨fun _ => ⟨none, none, none⟩, fun _ => none⟩ : State) stepLine
