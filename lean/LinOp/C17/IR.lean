import LinOp.C17.Model
/-!
C17 — a small statement IR for the method bodies of `settings.py`'s three context base classes (and
`deterministic_probes._set_state`), an executable semantics for it, and the hand-written canonical bodies.
`harness/extract/c17_bodies.py` translates the Python `ast` of today's source into this IR
(`LinOp/Generated/C17Bodies.lean`); `Properties/C17.lean` pins generated = canonical by `decide +kernel` and proves,
for ALL values, that the canonical bodies compute the model's `setOnEnter` / `restore` / snapshot.  Core Lean only.
-/
namespace LinOp.C17.IR
open LinOp.C17

inductive Loc
  | g (i : Slot)      -- class attribute through `cls.X` / `self.__class__.X`: `_state`, `_global_value`,
                      -- `_global_{float,double,half}_value` (a,b,c); `probe_vectors` is slot b of a flag class
  | saved (i : Slot)  -- `self.prev`, `self._orig_value`, `self._orig_{float,double,half}_value`
  | inst (i : Slot)   -- `self.state`, `self._instance_value`, `self._instance_{float,double,half}_value`
  | arg (i : Slot)    -- i-th parameter after `self` / `cls`
  deriving DecidableEq, Repr

inductive Expr
  | loc (l : Loc)
  | none
  | falseLit
  | valueOf (i : Slot)  -- `self.__class__.value()` / `self.__class__.value(dtype=torch.{float,double,half})`
  deriving DecidableEq, Repr

inductive Stmt
  | assign (dst : Loc) (e : Expr)
  | assignIfNotNone (dst : Loc) (src : Loc)   -- `if src is not None: dst = src`
  | callSetter (args : List Expr)             -- `self.__class__._set_state(…)` / `self.__class__._set_value(…)`
  | callSuperSetter (args : List Expr)        -- `super()._set_state(…)`
  | ret (e : Expr)
  | other (text : String)                     -- anything the translator does not recognise
  deriving DecidableEq, Repr

structure Method where
  cls : String
  name : String
  params : List String     -- parameters with defaults, as source text
  body : List Stmt
  deriving DecidableEq, Repr

structure Env where
  g : Slots
  inst : Slots
  saved : Slots
  args : Slots
  deriving DecidableEq, Repr

def Env.read (env : Env) : Loc → Val
  | .g i => env.g.get i
  | .saved i => env.saved.get i
  | .inst i => env.inst.get i
  | .arg i => env.args.get i

def Env.write (env : Env) (l : Loc) (v : Val) : Env :=
  match l with
  | .g i => { env with g := env.g.put i v }
  | .saved i => { env with saved := env.saved.put i v }
  | .inst i => { env with inst := env.inst.put i v }
  | .arg i => { env with args := env.args.put i v }

def Env.eval (env : Env) : Expr → Val
  | .loc l => env.read l
  | .none => none
  | .falseLit => some 0
  | .valueOf i => env.g.get i

def argsOf : List Val → Slots
  | [] => ⟨none, none, none⟩
  | [x] => ⟨x, none, none⟩
  | [x, y] => ⟨x, y, none⟩
  | x :: y :: z :: _ => ⟨x, y, z⟩

/-- Semantics of a class-level setter: argument values → transformation of the class attributes. -/
abbrev SetterSem := List Val → Slots → Slots

def execStmt (call callSuper : SetterSem) (env : Env) : Stmt → Env
  | .assign dst e => env.write dst (env.eval e)
  | .assignIfNotNone dst src =>
      match env.read src with
      | none => env
      | some v => env.write dst (some v)
  | .callSetter as => { env with g := call (as.map env.eval) env.g }
  | .callSuperSetter as => { env with g := callSuper (as.map env.eval) env.g }
  | .ret _ => env
  | .other _ => env

def exec (call callSuper : SetterSem) (env : Env) (body : List Stmt) : Env :=
  body.foldl (execStmt call callSuper) env

def noCall : SetterSem := fun _ g => g

/-- A setter body as a `SetterSem` (its own nested `cls._set_*` calls do not occur; `super()` calls go to `sup`). -/
def setterSem (sup : SetterSem) (body : List Stmt) : SetterSem :=
  fun as g => (exec noCall sup ⟨g, ⟨none, none, none⟩, ⟨none, none, none⟩, argsOf as⟩ body).g

/-- `__exit__` returns `False` (never swallows an exception): the last statement is `return False`. -/
def returnsFalse (body : List Stmt) : Bool := body.getLast? == some (Stmt.ret Expr.falseLit)

def noOther (body : List Stmt) : Bool := body.all fun s => match s with | .other _ => false | _ => true

/-! ### Canonical bodies (what the model's `step` was written from) -/
open Loc Expr Stmt Slot in
def canon : List Method := [
  ⟨"_dtype_value_context", "_set_value", ["float_value", "double_value", "half_value"],
    [assignIfNotNone (g a) (arg a), assignIfNotNone (g b) (arg b), assignIfNotNone (g c) (arg c)]⟩,
  ⟨"_dtype_value_context", "__init__", ["float_value=None", "double_value=None", "half_value=None"],
    [assign (saved a) (valueOf a), assign (inst a) (loc (arg a)),
     assign (saved b) (valueOf b), assign (inst b) (loc (arg b)),
     assign (saved c) (valueOf c), assign (inst c) (loc (arg c))]⟩,
  ⟨"_dtype_value_context", "__enter__", [],
    [assign (saved a) (valueOf a), assign (saved b) (valueOf b), assign (saved c) (valueOf c),
     callSetter [loc (inst a), loc (inst b), loc (inst c)]]⟩,
  ⟨"_dtype_value_context", "__exit__", ["*args"],
    [assign (g a) (loc (saved a)), assign (g b) (loc (saved b)), assign (g c) (loc (saved c)), ret falseLit]⟩,
  ⟨"_feature_flag", "_set_state", ["state"], [assign (g a) (loc (arg a))]⟩,
  ⟨"_feature_flag", "__init__", ["state=True"], [assign (saved a) (loc (g a)), assign (inst a) (loc (arg a))]⟩,
  ⟨"_feature_flag", "__enter__", [], [assign (saved a) (loc (g a)), callSetter [loc (inst a)]]⟩,
  ⟨"_feature_flag", "__exit__", ["*args"], [callSetter [loc (saved a)], ret falseLit]⟩,
  ⟨"_value_context", "_set_value", ["value"], [assign (g a) (loc (arg a))]⟩,
  ⟨"_value_context", "__init__", ["value"], [assign (saved a) (valueOf a), assign (inst a) (loc (arg a))]⟩,
  ⟨"_value_context", "__enter__", [], [assign (saved a) (valueOf a), callSetter [loc (inst a)]]⟩,
  ⟨"_value_context", "__exit__", ["*args"], [callSetter [loc (saved a)], ret falseLit]⟩,
  ⟨"deterministic_probes", "_set_state", ["state"], [callSuperSetter [loc (arg a)], assign (g b) none]⟩]

/-! ### Canonical reader methods and composite methods (normalised source text) -/
def canonReaders : List (String × String × List String × List String) := [
  ("_dtype_value_context", "value", ["@classmethod", "cls", "dtype"],
    ["if torch.is_tensor(dtype):\n    dtype = dtype.dtype", "if dtype == torch.float:\n    return cls._global_float_value\nelif dtype == torch.double:\n    return cls._global_double_value\nelif dtype == torch.half:\n    return cls._global_half_value\nelse:\n    raise RuntimeError(f'Unsupported dtype for {cls.__name__}.')"]),
  ("_feature_flag", "is_default", ["@classmethod", "cls"],
    ["return cls._state is None"]),
  ("_feature_flag", "on", ["@classmethod", "cls"],
    ["if cls.is_default():\n    return cls._default", "return cls._state"]),
  ("_feature_flag", "off", ["@classmethod", "cls"],
    ["return not cls.on()"]),
  ("_value_context", "value", ["@classmethod", "cls"],
    ["return cls._global_value"])]

def canonComposite : List (String × String × List String × List String) := [
  ("fast_computations", "__init__", ["self", "covar_root_decomposition=True", "log_prob=True", "solves=True"],
    ["self.covar_root_decomposition = _fast_covar_root_decomposition(covar_root_decomposition)", "self.log_prob = _fast_log_prob(log_prob)", "self.solves = _fast_solves(solves)"]),
  ("fast_computations", "__enter__", ["self"],
    ["self.covar_root_decomposition.__enter__()", "self.log_prob.__enter__()", "self.solves.__enter__()"]),
  ("fast_computations", "__exit__", ["self", "*args"],
    ["self.covar_root_decomposition.__exit__()", "self.log_prob.__exit__()", "self.solves.__exit__()", "return False"]),
  ("linalg_dtypes", "__init__", ["self", "default=torch.double", "symeig=None", "cholesky=None"],
    ["symeig = default if symeig is None else symeig", "cholesky = default if cholesky is None else cholesky", "self.symeig = _linalg_dtype_symeig(symeig)", "self.cholesky = _linalg_dtype_cholesky(cholesky)"]),
  ("linalg_dtypes", "__enter__", ["self"],
    ["self.symeig.__enter__()", "self.cholesky.__enter__()"]),
  ("linalg_dtypes", "__exit__", ["self", "*args"],
    ["self.symeig.__exit__()", "self.cholesky.__exit__()", "return False"])]

/-- The composites' methods once notes/C17_fix_1.diff is applied (`__enter__` undoes the members entered so far when a
later member's `__enter__` raises, then re-raises). -/
def canonCompositeFixed : List (String × String × List String × List String) := [
  ("fast_computations", "__init__", ["self", "covar_root_decomposition=True", "log_prob=True", "solves=True"],
    ["self.covar_root_decomposition = _fast_covar_root_decomposition(covar_root_decomposition)", "self.log_prob = _fast_log_prob(log_prob)", "self.solves = _fast_solves(solves)"]),
  ("fast_computations", "__enter__", ["self"],
    ["entered = []", "try:\n    self.covar_root_decomposition.__enter__()\n    entered.append(self.covar_root_decomposition)\n    self.log_prob.__enter__()\n    entered.append(self.log_prob)\n    self.solves.__enter__()\nexcept BaseException:\n    for ctx in entered:\n        ctx.__exit__()\n    raise"]),
  ("fast_computations", "__exit__", ["self", "*args"],
    ["self.covar_root_decomposition.__exit__()", "self.log_prob.__exit__()", "self.solves.__exit__()", "return False"]),
  ("linalg_dtypes", "__init__", ["self", "default=torch.double", "symeig=None", "cholesky=None"],
    ["symeig = default if symeig is None else symeig", "cholesky = default if cholesky is None else cholesky", "self.symeig = _linalg_dtype_symeig(symeig)", "self.cholesky = _linalg_dtype_cholesky(cholesky)"]),
  ("linalg_dtypes", "__enter__", ["self"],
    ["entered = []", "try:\n    self.symeig.__enter__()\n    entered.append(self.symeig)\n    self.cholesky.__enter__()\nexcept BaseException:\n    for ctx in entered:\n        ctx.__exit__()\n    raise"]),
  ("linalg_dtypes", "__exit__", ["self", "*args"],
    ["self.symeig.__exit__()", "self.cholesky.__exit__()", "return False"])]

def bodyOf (ms : List Method) (cls name : String) : List Stmt :=
  match ms.find? (fun m => m.cls == cls && m.name == name) with
  | some m => m.body
  | none => [Stmt.other "missing"]

def baseName : Kind → String
  | .flag _ => "_feature_flag"
  | .value => "_value_context"
  | .dtype => "_dtype_value_context"

def setterName : Kind → String
  | .flag _ => "_set_state"
  | _ => "_set_value"

/-- The setter a class of kind `k` resolves to (`deterministic_probes` overrides `_set_state` and calls `super()`). -/
def setterOf (ms : List Method) (k : Kind) : SetterSem :=
  let base := setterSem noCall (bodyOf ms (baseName k) (setterName k))
  match k with
  | .flag true => setterSem base (bodyOf ms "deterministic_probes" "_set_state")
  | _ => base

/-- Run method `name` of the base class of kind `k`. -/
def runMethod (ms : List Method) (k : Kind) (name : String) (env : Env) : Env :=
  exec (setterOf ms k) noCall env (bodyOf ms (baseName k) name)

/-! ### The state machine obtained by EXECUTING the method bodies (`ms`) instead of the hand-written `step` -/

def none3 : Slots := ⟨none, none, none⟩

/-- One event, executed through the IR bodies `ms`: `construct` runs `__init__` (arguments = the instance value),
`enter` / `exit` run `__enter__` / `__exit__` on the object's fields and the class attributes, `set` runs the class's setter. -/
def stepIR (ms : List Method) (K : Nat → Kind) (s : State) : Event → State
  | .construct o inst =>
      let r := runMethod ms (K o.1) "__init__" ⟨s.globals o.1, none3, none3, inst⟩
      { globals := upd s.globals o.1 r.g, objs := upd s.objs o (some ⟨r.inst, r.saved⟩) }
  | .enter o =>
      match s.objs o with
      | none => s
      | some ob =>
          let r := runMethod ms (K o.1) "__enter__" ⟨s.globals o.1, ob.inst, ob.saved, none3⟩
          { globals := upd s.globals o.1 r.g, objs := upd s.objs o (some ⟨r.inst, r.saved⟩) }
  | .exit o _ =>
      match s.objs o with
      | none => s
      | some ob =>
          let r := runMethod ms (K o.1) "__exit__" ⟨s.globals o.1, ob.inst, ob.saved, none3⟩
          { globals := upd s.globals o.1 r.g, objs := upd s.objs o (some ⟨r.inst, r.saved⟩) }
  | .poke c v => { s with globals := upd s.globals c { s.globals c with b := v } }
  | .set c v => { s with globals := upd s.globals c (setterOf ms (K c) [v.a, v.b, v.c] (s.globals c)) }

def runIR (ms : List Method) (K : Nat → Kind) (s : State) (h : List Event) : State := h.foldl (stepIR ms K) s

/-- Two object records are indistinguishable for kind `k`: they install the same value and restore the same value
(the code keeps only the slots its class uses; the model keeps all three). -/
def ObjEq (k : Kind) (o1 o2 : Obj) : Prop :=
  (∀ g, setOnEnter k g o1.inst = setOnEnter k g o2.inst) ∧ (∀ g, restore k g o1.saved = restore k g o2.saved)

def OptRel (r : Obj → Obj → Prop) : Option Obj → Option Obj → Prop
  | none, none => True
  | some a, some b => r a b
  | _, _ => False

/-- Simulation relation between the model state and the IR-executed state: identical class attributes, pairwise
indistinguishable objects. -/
def Sim (K : Nat → Kind) (s1 s2 : State) : Prop :=
  (∀ c, s1.globals c = s2.globals c) ∧ ∀ o, OptRel (ObjEq (K o.1)) (s1.objs o) (s2.objs o)

end LinOp.C17.IR
