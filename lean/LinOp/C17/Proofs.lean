import LinOp.C17.Model
/-! Helper lemmas for C17 (core Lean only). -/
namespace LinOp.C17

@[simp] theorem upd_same {β γ : Type} [DecidableEq β] (f : β → γ) (x : β) (v : γ) : upd f x v x = v := by
  simp [upd]

theorem upd_other {β γ : Type} [DecidableEq β] (f : β → γ) (x y : β) (v : γ) (h : y ≠ x) :
    upd f x v y = f y := by simp [upd, h]

theorem run_append (K : Nat → Kind) (s : State) (h1 h2 : List Event) :
    run K s (h1 ++ h2) = run K (run K s h1) h2 := by simp [run, List.foldl_append]

theorem run_cons (K : Nat → Kind) (s : State) (e : Event) (h : List Event) :
    run K s (e :: h) = run K (step K s e) h := rfl

/-- An event on class `c'` leaves every other class's attributes untouched. -/
theorem step_globals_other (K : Nat → Kind) (s : State) (e : Event) (c : Nat) (h : e.cls ≠ c) :
    (step K s e).globals c = s.globals c := by
  cases e with
  | construct o inst => rfl
  | enter o =>
    simp only [Event.cls] at h
    simp only [step]; split
    · rfl
    · simp [upd, Ne.symm h]
  | exit o exc =>
    simp only [Event.cls] at h
    simp only [step]; split
    · rfl
    · simp [upd, Ne.symm h]
  | poke c' v =>
    simp only [Event.cls] at h
    simp [step, upd, Ne.symm h]
  | set c' v =>
    simp only [Event.cls] at h
    simp [step, upd, Ne.symm h]

/-- An event that does not name object `o` leaves `o`'s record untouched. -/
theorem step_objs_other (K : Nat → Kind) (s : State) (e : Event) (o : ObjId) (h : e.obj? ≠ some o) :
    (step K s e).objs o = s.objs o := by
  cases e with
  | construct o' inst =>
    have : o ≠ o' := by intro hh; apply h; simp [Event.obj?, hh]
    simp [step, upd, this]
  | enter o' =>
    have : o ≠ o' := by intro hh; apply h; simp [Event.obj?, hh]
    simp only [step]; split
    · rfl
    · simp [upd, this]
  | exit o' exc =>
    simp only [step]; split <;> rfl
  | poke c v => rfl
  | set c v => rfl

theorem run_objs_other (K : Nat → Kind) (h : List Event) (s : State) (o : ObjId)
    (hno : ∀ e ∈ h, e.obj? ≠ some o) : (run K s h).objs o = s.objs o := by
  induction h generalizing s with
  | nil => rfl
  | cons e h ih =>
    rw [run_cons, ih _ (fun e' he' => hno e' (List.mem_cons_of_mem _ he')),
      step_objs_other K s e o (hno e List.mem_cons_self)]

theorem run_globals_other (K : Nat → Kind) (h : List Event) (s : State) (c : Nat)
    (hno : ∀ e ∈ h, e.cls ≠ c) : (run K s h).globals c = s.globals c := by
  induction h generalizing s with
  | nil => rfl
  | cons e h ih =>
    rw [run_cons, ih _ (fun e' he' => hno e' (List.mem_cons_of_mem _ he')),
      step_globals_other K s e c (hno e List.mem_cons_self)]

theorem settingVal_restore (k : Kind) (g saved : Slots) :
    settingVal k (restore k g saved) = settingVal k saved := by
  cases k <;> simp [settingVal, restore]

theorem settingVal_poke (r : Bool) (g : Slots) (v : Val) :
    settingVal (.flag r) { g with b := v } = settingVal (.flag r) g := by
  simp [settingVal]

theorem step_exit_some (K : Nat → Kind) (s : State) (o : ObjId) (exc : Bool) (ob : Obj)
    (h : s.objs o = some ob) :
    (step K s (Event.exit o exc)).globals o.1 = restore (K o.1) (s.globals o.1) ob.saved := by
  simp [step, h]

theorem step_exit_none (K : Nat → Kind) (s : State) (o : ObjId) (exc : Bool)
    (h : s.objs o = none) : step K s (Event.exit o exc) = s := by
  simp [step, h]

theorem step_enter_some (K : Nat → Kind) (s : State) (o : ObjId) (ob : Obj) (h : s.objs o = some ob) :
    (step K s (Event.enter o)).objs o = some { ob with saved := s.globals o.1 } := by
  simp [step, h]

theorem step_enter_none (K : Nat → Kind) (s : State) (o : ObjId)
    (h : s.objs o = none) : step K s (Event.enter o) = s := by
  simp [step, h]

end LinOp.C17
