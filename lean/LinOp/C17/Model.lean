/-
C17 — model of linear_operator/settings.py: the three context base classes
(`_feature_flag`, `_value_context`, `_dtype_value_context`) as a state machine over
process-global class attributes and a pool of context objects.  Core Lean only.

Mirrors (after the `fix:` commit that moved the snapshot to `__enter__`):
  __init__  : records the instance value(s); also snapshots the current global (kept by the code, unused)
  __enter__ : snapshot current global(s) into the object, then `_set_state/_set_value(instance value)`
              (`_dtype_value_context._set_value` skips `None` instance slots;
               `deterministic_probes._set_state` additionally resets `probe_vectors`)
  __exit__  : write the snapshot back (all three slots for per-dtype settings), ignoring exception info
Session 5: class-level setters (`Event.set`), `is_default`, `value(dtype)`, composites (`enterAll` / `exitAll` / `enterFail`).
The method bodies themselves are in `IR.lean` (translated from the source on every run) and are proved to refine `step`.
-/
namespace LinOp.C17

abbrev Val := Option Int

structure Slots where
  a : Val
  b : Val
  c : Val
  deriving DecidableEq, Repr

/-- One of the three class attributes of a setting. -/
inductive Slot | a | b | c
  deriving DecidableEq, Repr

def Slots.get (g : Slots) : Slot → Val
  | .a => g.a
  | .b => g.b
  | .c => g.c

def Slots.put (g : Slots) (i : Slot) (v : Val) : Slots :=
  match i with
  | .a => { g with a := v }
  | .b => { g with b := v }
  | .c => { g with c := v }

/-- `flag r`: `_feature_flag` (slot a = `_state`; if `r`, slot b = `probe_vectors`, reset by `_set_state`);
    `value`: `_value_context` (slot a = `_global_value`);
    `dtype`: `_dtype_value_context` (slots a/b/c = float/double/half). -/
inductive Kind
  | flag (resetsProbe : Bool)
  | value
  | dtype
  deriving DecidableEq, Repr

abbrev ObjId := Nat × Nat   -- (class index, serial)

structure Obj where
  inst : Slots
  saved : Slots
  deriving Repr

inductive Event
  | construct (o : ObjId) (inst : Slots)
  | enter (o : ObjId)
  | exit (o : ObjId) (exc : Bool)
  | poke (c : Nat) (v : Val)      -- external write to `probe_vectors` (slot b) of class c
  | set (c : Nat) (v : Slots)     -- class-level `cls._set_state(v.a)` / `cls._set_value(v.a)` / `cls._set_value(v.a, v.b, v.c)`
  deriving Repr

def Event.cls : Event → Nat
  | .construct o _ => o.1
  | .enter o => o.1
  | .exit o _ => o.1
  | .poke c _ => c
  | .set c _ => c

def Event.obj? : Event → Option ObjId
  | .construct o _ => some o
  | .enter o => some o
  | .exit o _ => some o
  | .poke _ _ => none
  | .set _ _ => none

structure State where
  globals : Nat → Slots
  objs : ObjId → Option Obj

/-- `_set_state` / `_set_value` with the instance value. -/
def setOnEnter (k : Kind) (g inst : Slots) : Slots :=
  match k with
  | .flag r => { g with a := inst.a, b := if r then none else g.b }
  | .value => { g with a := inst.a }
  | .dtype => { a := if inst.a.isSome then inst.a else g.a,
                b := if inst.b.isSome then inst.b else g.b,
                c := if inst.c.isSome then inst.c else g.c }

/-- `__exit__`: write the snapshot back. -/
def restore (k : Kind) (g saved : Slots) : Slots :=
  match k with
  | .flag r => { g with a := saved.a, b := if r then none else g.b }
  | .value => { g with a := saved.a }
  | .dtype => saved

/-- The part of the class attributes that *is* the setting's value. -/
def settingVal (k : Kind) (g : Slots) : Slots :=
  match k with
  | .flag _ => { a := g.a, b := none, c := none }
  | .value => { a := g.a, b := none, c := none }
  | .dtype => g

def upd {β : Type} [DecidableEq β] {γ : Type} (f : β → γ) (x : β) (v : γ) : β → γ :=
  fun y => if y = x then v else f y

def step (K : Nat → Kind) (s : State) : Event → State
  | .construct o inst => { s with objs := upd s.objs o (some { inst := inst, saved := s.globals o.1 }) }
  | .enter o =>
      match s.objs o with
      | none => s
      | some ob =>
          { globals := upd s.globals o.1 (setOnEnter (K o.1) (s.globals o.1) ob.inst),
            objs := upd s.objs o (some { ob with saved := s.globals o.1 }) }
  | .exit o _ =>
      match s.objs o with
      | none => s
      | some ob => { s with globals := upd s.globals o.1 (restore (K o.1) (s.globals o.1) ob.saved) }
  | .poke c v => { s with globals := upd s.globals c { s.globals c with b := v } }
  | .set c v => { s with globals := upd s.globals c (setOnEnter (K c) (s.globals c) v) }

def run (K : Nat → Kind) (s : State) (h : List Event) : State := h.foldl (step K) s

/-- `on()` of a feature flag: the default while `_state is None`. -/
def flagOn (dflt : Bool) (g : Slots) : Bool :=
  match g.a with
  | none => dflt
  | some v => v != 0

/-- `is_default()` of a feature flag. -/
def isDefault (g : Slots) : Bool := g.a.isNone

/-- `_dtype_value_context.value(dtype)`: 0 = torch.float, 1 = torch.double, 2 = torch.half; any other dtype
raises `RuntimeError` (`none`).  A tensor argument is replaced by its dtype first. -/
def dtypeValue (d : Nat) (g : Slots) : Option Val :=
  match d with
  | 0 => some g.a
  | 1 => some g.b
  | 2 => some g.c
  | _ => none

/-! ### Composite contexts (`fast_computations`, `linalg_dtypes`)
A composite object owns one member context per part; `__enter__` / `__exit__` call the members' methods in
source order (the members' `__exit__` is called without exception info).  There are no thread-locals and no
try/finally in the composite: if the `j`-th member's `__enter__` raises, the first `j` members stay entered and
`with` does not call `__exit__`. -/
def enterAll (ps : List ObjId) : List Event := ps.map Event.enter
def exitAll (ps : List ObjId) (exc : Bool) : List Event := ps.map (fun p => Event.exit p exc)
/-- Composite `__enter__` in which member number `j` raises. -/
def enterFail (ps : List ObjId) (j : Nat) : List Event := enterAll (ps.take j)

end LinOp.C17
