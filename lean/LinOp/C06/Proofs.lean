import LinOp.C06.Model
import LinOp.Core.Bridge
import Mathlib.Data.Matrix.Basic
import Mathlib.Data.Matrix.Mul
import Mathlib.Data.Matrix.Block
import Mathlib.LinearAlgebra.Matrix.Kronecker
import Mathlib.LinearAlgebra.Matrix.NonsingularInverse
import Mathlib.Tactic.Ring
import Mathlib.Tactic.Linarith
/-!
C06 — helper lemmas (matrix algebra of scaled eigenvector factors, triangularity predicates,
the tie between the model's flat-index `kron` and Mathlib's `⊗ₖ`).
-/
namespace LinOp.C06
open Matrix Kronecker

variable {α : Type} [CommRing α]
variable {n k : Type*} [Fintype n] [Fintype k] [DecidableEq n] [DecidableEq k]

/-- `(Q diag s)(Q diag s)ᵀ = Q diag(s²) Qᵀ` — any shape of `Q`. -/
theorem scaled_gram (Q : Matrix n k α) (s : k → α) :
    (Q * diagonal s) * (Q * diagonal s)ᵀ = Q * diagonal (fun i => s i * s i) * Qᵀ := by
  rw [transpose_mul, diagonal_transpose, Matrix.mul_assoc, ← Matrix.mul_assoc (diagonal s),
    diagonal_mul_diagonal, ← Matrix.mul_assoc]

/-- Conjugations by a matrix with orthonormal columns multiply like the diagonals. -/
theorem conj_mul_conj (Q : Matrix n k α) (hQ : Qᵀ * Q = 1) (a b : k → α) :
    (Q * diagonal a * Qᵀ) * (Q * diagonal b * Qᵀ) = Q * diagonal (fun i => a i * b i) * Qᵀ := by
  calc Q * diagonal a * Qᵀ * (Q * diagonal b * Qᵀ)
      = Q * diagonal a * (Qᵀ * Q) * diagonal b * Qᵀ := by simp only [Matrix.mul_assoc]
    _ = Q * (diagonal a * diagonal b) * Qᵀ := by rw [hQ]; simp only [Matrix.mul_one, Matrix.mul_assoc]
    _ = _ := by rw [diagonal_mul_diagonal]

/-- `((r·Q) diag s)((r·Q) diag s)ᵀ = r² · Q diag(s²) Qᵀ`. -/
theorem smul_scaled_gram (Q : Matrix n k α) (s : k → α) (r : α) :
    ((r • Q) * diagonal s) * ((r • Q) * diagonal s)ᵀ = (r * r) • (Q * diagonal (fun i => s i * s i) * Qᵀ) := by
  rw [Matrix.smul_mul, transpose_smul, Matrix.smul_mul, Matrix.mul_smul, smul_smul, scaled_gram]

/-- Gram matrix of a scalar-scaled root (`ConstantMulLinearOperator(base_root, c ** ±0.5)`):
`(r·R)(r·R)ᵀ = r²·(R Rᵀ)` — any shape of `R`. -/
theorem constMulRootInv_gram (R : Matrix n k α) (r : α) :
    (r • R) * (r • R)ᵀ = (r * r) • (R * Rᵀ) := by
  rw [transpose_smul, Matrix.smul_mul, Matrix.mul_smul, smul_smul]

/-- `Q diag(c,…,c) Qᵀ = c · Q Qᵀ`. -/
theorem conj_const (Q : Matrix n k α) (c : α) :
    Q * diagonal (fun _ => c) * Qᵀ = c • (Q * Qᵀ) := by
  have hd' : (diagonal fun _ : k => c) = c • (1 : Matrix k k α) := by
    ext i j; by_cases h : i = j <;> simp [diagonal_apply, Matrix.one_apply, h]
  rw [hd', Matrix.mul_smul, Matrix.smul_mul, Matrix.mul_one]

/-- Lower / upper triangular (exact zero pattern) for matrices over a linearly ordered index. -/
def LowerTri {ι : Type*} [LT ι] {β : Type*} [Zero β] (L : Matrix ι ι β) : Prop := ∀ i j, i < j → L i j = 0
def UpperTri {ι : Type*} [LT ι] {β : Type*} [Zero β] (L : Matrix ι ι β) : Prop := ∀ i j, j < i → L i j = 0

theorem lowerTri_transpose {ι : Type*} [LT ι] {β : Type*} [Zero β] {L : Matrix ι ι β} (h : LowerTri L) :
    UpperTri Lᵀ := fun i j hij => h j i hij

/-- The model's flat-index Kronecker product is Mathlib's `⊗ₖ` transported along `finProdFinEquiv`
(row-major: first factor is the slow index). -/
theorem kron_eq_kronecker {m n' p q : Nat} (A : Matrix (Fin m) (Fin n') α) (B : Matrix (Fin p) (Fin q) α) :
    (kron A B : Matrix (Fin (m * p)) (Fin (n' * q)) α)
      = Matrix.reindex finProdFinEquiv finProdFinEquiv (A ⊗ₖ B) := by
  ext r c
  simp only [kron, Matrix.reindex_apply, Matrix.submatrix_apply, kroneckerMap_apply]
  rfl

/-- The model's `upperFromLower` read as a Mathlib matrix. -/
abbrev upperM {m : Nat} (L : Matrix (Fin m) (Fin m) α) : Matrix (Fin m) (Fin m) α := upperFromLower L

/-- The model's `kron` read as a Mathlib matrix. -/
abbrev kronM {m n' p q : Nat} (A : Matrix (Fin m) (Fin n') α) (B : Matrix (Fin p) (Fin q) α) :
    Matrix (Fin (m * p)) (Fin (n' * q)) α := kron A B

/-- Index arithmetic: the Kronecker product of lower-triangular factors is lower triangular in the
flat row-major index order the library uses. -/
theorem kron_lowerTri {m p : Nat} {L₁ : Matrix (Fin m) (Fin m) α} {L₂ : Matrix (Fin p) (Fin p) α}
    (h₁ : LowerTri L₁) (h₂ : LowerTri L₂) : LowerTri (kron L₁ L₂ : Matrix (Fin (m * p)) (Fin (m * p)) α) := by
  intro r c hrc
  have hrc' : r.1 < c.1 := hrc
  have hp : 0 < p := Nat.pos_of_ne_zero (by intro h; have := r.2; simp [h] at this)
  simp only [kron]
  by_cases hq : r.1 / p < c.1 / p
  · rw [h₁ _ _ (by exact hq), zero_mul]
  · have hle : r.1 / p ≤ c.1 / p := Nat.div_le_div_right (Nat.le_of_lt hrc')
    have heq : r.1 / p = c.1 / p := Nat.le_antisymm hle (Nat.not_lt.1 hq)
    have hr := Nat.div_add_mod r.1 p
    have hc := Nat.div_add_mod c.1 p
    have hmod : r.1 % p < c.1 % p := by
      rw [heq] at hr
      omega
    rw [h₂ _ _ (by exact hmod), mul_zero]

end LinOp.C06
