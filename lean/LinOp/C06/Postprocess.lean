import LinOp.Core.Basic
/-!
C06 — executable model of `linear_operator.utils.lanczos._postprocess_lanczos_root_inv_decomp` (core Lean only):
`root_inv_decomposition(initial_vectors, test_vectors, method="lanczos")` with `P > 1` initial vectors runs one Lanczos
per initial vector, obtains `P` candidate inverse roots `R_p` (each a batch of `n × k` matrices) and returns the candidate
whose solves `R_p R_pᵀ t` reproduce the test vectors best:

    residual_p = Σ_{batch member b} Σ_{test column c} ‖ A_b (R_{p,b} R_{p,b}ᵀ t_{b,c}) − t_{b,c} ‖₂
    best       = first index attaining the minimum (`residuals.min(0)`)
    returns      R_best

The square root is a parameter (any function): the selection theorems need no law about it.
-/
namespace LinOp.C06

variable {α : Type}

/-- First index `≤ m` at which `f` is minimal: scan left to right, move only on a strict improvement. -/
def argminNat [LT α] [DecidableLT α] (f : Nat → α) : Nat → Nat
  | 0 => 0
  | m + 1 => let b := argminNat f m; if f (m + 1) < f b then m + 1 else b

/-- `‖A (R Rᵀ t_c) − t_c‖₂` summed over the columns `c` of the test matrix `T`, one batch member.  The intermediate
products are materialised as vectors (evaluated once). -/
def residMember [Add α] [Zero α] [Mul α] [Sub α] (sqrt : α → α) {n k c : Nat}
    (A : Mat α n n) (R : Mat α n k) (T : Mat α n c) : α :=
  -- W = Rᵀ T,  S = R W  (solves = inv_roots.matmul(inv_roots.mT.matmul(test_vectors))),  M = A S
  let W := Vector.ofFn fun a : Fin k => Vector.ofFn fun j : Fin c => sumFin n fun i => R i a * T i j
  let S := Vector.ofFn fun i : Fin n => Vector.ofFn fun j : Fin c => sumFin k fun a => R i a * W[a][j]
  let M := Vector.ofFn fun i : Fin n => Vector.ofFn fun j : Fin c => sumFin n fun l => A i l * S[l][j]
  sumFin c fun j => sqrt (sumFin n fun i => (M[i][j] - T i j) * (M[i][j] - T i j))

/-- A batch: the lists run over the batch members (`residuals.view(P, -1).sum(-1)`). -/
def residBatch [Add α] [Zero α] [Mul α] [Sub α] (sqrt : α → α) {n k c : Nat} :
    List (Mat α n n) → List (Mat α n k) → List (Mat α n c) → α
  | A :: As, R :: Rs, T :: Ts => residMember sqrt A R T + residBatch sqrt As Rs Ts
  | _, _, _ => 0

/-- Index of the candidate `_postprocess_lanczos_root_inv_decomp` returns; `cands p` is candidate `p` (a batch),
`P = numProbes` candidates (`P ≥ 1`). -/
def postprocessIndex [Add α] [Zero α] [Mul α] [Sub α] [LT α] [DecidableLT α] (sqrt : α → α) {n k c : Nat}
    (As : List (Mat α n n)) (Ts : List (Mat α n c)) (cands : Nat → List (Mat α n k)) (numProbes : Nat) : Nat :=
  argminNat (fun p => residBatch sqrt As (cands p) Ts) (numProbes - 1)

/-- The inverse root returned: `inv_roots[best_solve_index]`. -/
def postprocess [Add α] [Zero α] [Mul α] [Sub α] [LT α] [DecidableLT α] (sqrt : α → α) {n k c : Nat}
    (As : List (Mat α n n)) (Ts : List (Mat α n c)) (cands : Nat → List (Mat α n k)) (numProbes : Nat) :
    List (Mat α n k) :=
  cands (postprocessIndex sqrt As Ts cands numProbes)

end LinOp.C06
