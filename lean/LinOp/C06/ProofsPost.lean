import LinOp.C06.Postprocess
import Mathlib.Order.Defs.LinearOrder
import Mathlib.Order.Basic
import Mathlib.Tactic.Linarith
/-! Helper lemmas for the model of `_postprocess_lanczos_root_inv_decomp` (C06). -/
namespace LinOp.C06

variable {α : Type} [LinearOrder α]

/-- `argminNat f m` is an index `≤ m`, `f` is minimal there among `0..m`, and every earlier index is strictly worse. -/
theorem argminNat_spec (f : Nat → α) (m : Nat) :
    argminNat f m ≤ m ∧ (∀ j, j ≤ m → f (argminNat f m) ≤ f j) ∧
      (∀ j, j < argminNat f m → f (argminNat f m) < f j) := by
  induction m with
  | zero =>
    refine ⟨Nat.le_refl _, ?_, ?_⟩
    · intro j hj
      have : j = 0 := Nat.le_zero.1 hj
      subst this; exact le_refl _
    · intro j hj; simp [argminNat] at hj
  | succ m ih =>
    obtain ⟨h1, h2, h3⟩ := ih
    simp only [argminNat]
    by_cases hlt : f (m + 1) < f (argminNat f m)
    · simp only [hlt, if_true]
      refine ⟨Nat.le_refl _, ?_, ?_⟩
      · intro j hj
        rcases Nat.lt_or_ge j (m + 1) with h | h
        · exact le_of_lt (lt_of_lt_of_le hlt (h2 j (Nat.lt_succ_iff.1 h)))
        · have : j = m + 1 := Nat.le_antisymm hj h
          subst this; exact le_refl _
      · intro j hj
        exact lt_of_lt_of_le hlt (h2 j (Nat.lt_succ_iff.1 hj))
    · simp only [hlt, if_false]
      refine ⟨Nat.le_succ_of_le h1, ?_, h3⟩
      intro j hj
      rcases Nat.lt_or_ge j (m + 1) with h | h
      · exact h2 j (Nat.lt_succ_iff.1 h)
      · have : j = m + 1 := Nat.le_antisymm hj h
        subst this; exact not_lt.1 hlt

end LinOp.C06
