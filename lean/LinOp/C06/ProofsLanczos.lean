import LinOp.C09.ProofsRun
import LinOp.C09.ProofsPost
import LinOp.C09.ProofsCompose
/-!
C06 ∘ C09 — the Lanczos root / inverse root of `root_decomposition(method="lanczos")` composed from C09's invariants of
`lanczos_tridiag` (`lanczos_ok`: the run succeeds and the finished state satisfies `Done`/`TStruct`) and of the
post-processing (`root_of_compression`, `lanczos_root_inv`, `root_inv_full_of_card`).

Only C09's *proof* modules are imported: `Properties/C09.lean` is another builder's working file.  The two glue lemmas
`done_projection` and `matrix_ids` below are therefore re-derived here from the imported invariants (same statements and
proofs as `LinOp.C09.Props.done_projection` / `matrix_identities_of_done`).
-/
set_option linter.unusedSectionVars false
set_option linter.unusedVariables false

namespace LinOp.C06.Lanczos
open Matrix LinOp.C09

variable {K : Type} [Field K] [LinearOrder K] [IsStrictOrderedRing K] {n : Nat}
variable {ops : NumOps K} {p : Params K} {amul : Vec K n → Vec K n}

/-- Projection lemma on a finished state: `q_i · A q_j = T[i,j]` for all kept `i, j`. -/
theorem done_projection (hA : SelfAdj amul) {k : Nat} {s : St K n} (hT : TStruct s) (hd : Done amul k s)
    (i j : Nat) (hi : i ≤ k) (hj : j ≤ k) : Qf s i ⬝ᵥ AQf amul s j = Tf s i j := by
  have hlt : ∀ i j, i ≤ k → j < k → Qf s i ⬝ᵥ AQf amul s j = Tf s i j := by
    intro i j hi hj
    rw [hd.recur j hj]
    simp only [dotProduct_add, dotProduct_smul, smul_eq_mul]
    have e1 : Qf s i ⬝ᵥ (if j = 0 then (0 : Fin n → K) else Tf s j (j - 1) • Qf s (j - 1))
        = if j ≠ 0 ∧ i = j - 1 then Tf s j (j - 1) else 0 := by
      by_cases hj0 : j = 0
      · simp [hj0]
      · rw [if_neg hj0, dotProduct_smul, hd.orth i (j - 1) hi (by omega)]
        by_cases h : i = j - 1 <;> simp [h, hj0]
    rw [e1, hd.orth i j hi (by omega), hd.orth i (j + 1) hi (by omega)]
    by_cases h1 : i = j
    · subst h1
      have : ¬ (i ≠ 0 ∧ i = i - 1) := by omega
      simp [this]
    · by_cases h2 : i = j + 1
      · subst h2
        have : ¬ (j ≠ 0 ∧ j + 1 = j - 1) := by omega
        simp [this, hT.sym (j + 1) j]
      · by_cases h3 : j ≠ 0 ∧ i = j - 1
        · obtain ⟨h30, h31⟩ := h3
          subst h31
          have e : Tf s (j - 1) j = Tf s j (j - 1) := hT.sym _ _
          simp [h30, h1, h2, e]
        · have hz : Tf s i j = 0 := hT.tri i j (by omega)
          simp [h1, h2, h3, hz]
  rcases Nat.lt_or_eq_of_le hj with hjl | rfl
  · exact hlt i j hi hjl
  · rcases Nat.lt_or_eq_of_le hi with hil | rfl
    · have e : Qf s i ⬝ᵥ AQf amul s j = Qf s j ⬝ᵥ AQf amul s i := by
        simp only [Qf, AQf]
        rw [hA, dotProduct_comm]
      rw [e, hlt j i le_rfl hil, hT.sym]
    · exact hd.alpha.symm

/-- `QᵀQ = 1` and `QᵀAQ = T` for the returned `Q`, `T` of a finished state on the closure of a symmetric `A`. -/
theorem matrix_ids {A : Matrix (Fin n) (Fin n) K} (hA : Aᵀ = A) (o : Out K n) (h1 : 1 ≤ o.count)
    (hT : TStruct o.st) (hd : Done (amulOf A) (o.count - 1) o.st) :
    (Matrix.of o.Q)ᵀ * Matrix.of o.Q = 1 ∧ (Matrix.of o.Q)ᵀ * A * Matrix.of o.Q = Matrix.of o.T :=
  ⟨QtQ_of_orth o (fun i j hi hj => hd.orth i j (by omega) (by omega)),
    QtAQ_of_entries A o (fun i j hi hj => done_projection (selfAdj_amulOf hA) hT hd i j (by omega) (by omega))⟩

/-- Lanczos root, end to end (see `LinOp.C06.root_lanczos_end_to_end`). -/
theorem tridiag_root (hs : SqrtLaw ops) {A : Matrix (Fin n) (Fin n) K} (hA : Aᵀ = A)
    (maxIter : Nat) (v : Vec K n) (hv : fn v ⬝ᵥ fn v ≠ 0) (hg : p.guardsSingle = true) (h1 : 1 ≤ min maxIter n)
    (jit : K) :
    ∃ o, lanczosTridiag ops p (amulOf A) maxIter v = .ok o ∧ 1 ≤ o.count ∧ o.count ≤ min maxIter n ∧
      (BetaOK (o.count - 1) o.st →
        (Matrix.of o.Q)ᵀ * Matrix.of o.Q = 1 ∧ (Matrix.of o.Q)ᵀ * A * Matrix.of o.Q = Matrix.of o.T ∧
        ∀ (V : Matrix (Fin o.count) (Fin o.count) K) (θ : Fin o.count → K),
          V * Matrix.diagonal θ * Vᵀ = Matrix.of (jitteredT ltb jit o.T) → (∀ j, 0 ≤ θ j) →
          lanczosRoot ops (Matrix.of o.Q) V θ * (lanczosRoot ops (Matrix.of o.Q) V θ)ᵀ
            = (Matrix.of o.Q * (Matrix.of o.Q)ᵀ) * A * (Matrix.of o.Q * (Matrix.of o.Q)ᵀ)
              + jitterOf ltb jit o.T • (Matrix.of o.Q * (Matrix.of o.Q)ᵀ) ∧
          (o.count = n →
            lanczosRoot ops (Matrix.of o.Q) V θ * (lanczosRoot ops (Matrix.of o.Q) V θ)ᵀ
              = A + jitterOf ltb jit o.T • (1 : Matrix (Fin n) (Fin n) K))) := by
  obtain ⟨o, ho, h1', h3, hT, hd⟩ := lanczos_ok (p := p) hs (selfAdj_amulOf hA) hg maxIter v hv h1
  refine ⟨o, ho, h1', h3, fun hb => ?_⟩
  obtain ⟨hQ, hP⟩ := matrix_ids hA o h1' hT (hd hb)
  refine ⟨hQ, hP, fun V θ hE hθ => ?_⟩
  have hroot := root_of_compression ops hs.mul_self (Matrix.of o.Q) A (Matrix.of o.T) V θ (jitterOf ltb jit o.T) hP hE hθ
  refine ⟨hroot, fun hn => ?_⟩
  rw [hroot, QQt_of_card _ hn hQ, Matrix.one_mul, Matrix.mul_one]

/-- Lanczos inverse root, end to end (see `LinOp.C06.rootInv_lanczos_end_to_end`). -/
theorem tridiag_root_inv (hs : SqrtLaw ops) {A : Matrix (Fin n) (Fin n) K} (hA : Aᵀ = A)
    (maxIter : Nat) (v : Vec K n) (hv : fn v ⬝ᵥ fn v ≠ 0) (hg : p.guardsSingle = true) (h1 : 1 ≤ min maxIter n)
    (jit : K) :
    ∃ o, lanczosTridiag ops p (amulOf A) maxIter v = .ok o ∧ 1 ≤ o.count ∧ o.count ≤ min maxIter n ∧
      (BetaOK (o.count - 1) o.st →
        ∀ (V : Matrix (Fin o.count) (Fin o.count) K) (θ : Fin o.count → K),
          V * Matrix.diagonal θ * Vᵀ = Matrix.of (jitteredT ltb jit o.T) → Vᵀ * V = 1 → (∀ j, 0 < θ j) →
          lanczosRootInv ops (Matrix.of o.Q) V θ * (lanczosRootInv ops (Matrix.of o.Q) V θ)ᵀ
            = Matrix.of o.Q * (Matrix.of (jitteredT ltb jit o.T))⁻¹ * (Matrix.of o.Q)ᵀ ∧
          (o.count = n →
            lanczosRootInv ops (Matrix.of o.Q) V θ * (lanczosRootInv ops (Matrix.of o.Q) V θ)ᵀ
              = (A + jitterOf ltb jit o.T • (1 : Matrix (Fin n) (Fin n) K))⁻¹)) := by
  obtain ⟨o, ho, h1', h3, hT, hd⟩ := lanczos_ok (p := p) hs (selfAdj_amulOf hA) hg maxIter v hv h1
  refine ⟨o, ho, h1', h3, fun hb V θ hE hV hθ => ?_⟩
  obtain ⟨hQ, hP⟩ := matrix_ids hA o h1' hT (hd hb)
  exact ⟨LinOp.C09.lanczos_root_inv ops hs.mul_self (Matrix.of o.Q) V _ θ hθ hV hE,
    fun hn => root_inv_full_of_card ops hs.mul_self (Matrix.of o.Q) A (Matrix.of o.T) V θ (jitterOf ltb jit o.T)
      hn hQ hP hV hE hθ⟩

end LinOp.C06.Lanczos
