import LinOp.Core.Basic
/-!
C06 — executable model of the factorization entry points of `LinearOperator` (core Lean only).

Part 1 mirrors the *method selection*: `_choose_root_method`, the dispatch chains of
`root_decomposition`, `root_inv_decomposition`, `diagonalization`, `cholesky`, `eigh`, `svd`
of the base class and the overrides of `KroneckerProductLinearOperator`, and predicts the sequence
of numerical primitives (the `settings.verbose_linalg` log lines) together with the class of the
result.  Part 2 gives the closed formulas of the factors (Kronecker index order, upper factor by
transposition, SVD from an eigendecomposition, the `KroneckerProductAddedDiag` roots as written and
as corrected) as computable functions over any scalar type; the theorems about them are in
`LinOp/Properties/C06.lean`.
-/
namespace LinOp.C06

/-! ## Part 1 — method selection -/

inductive Method where
  | cholesky | symeig | svd | lanczos | pivotedCholesky | diagonalization | pinverse
  deriving DecidableEq, Repr

/-- A numerical primitive as reported by the `verbose_linalg` logger. -/
inductive Prim where
  | chol (n : Nat)                 -- "Running Cholesky on a matrix of size [.., n, n]"
  | symeig (n : Nat)               -- "Running symeig on a matrix of size [.., n, n]"
  | lanczos (n iters : Nat)        -- "Running Lanczos on a [n, n] matrix ... for iters iterations"
  | pivChol (n iters : Nat)        -- "Running Pivoted Cholesky on a [.., n, n] RHS for iters iterations"
  deriving DecidableEq, Repr

/-- The settings read by the selection code, and the three cache probes of `_choose_root_method`. -/
structure Cfg where
  maxChol : Nat          -- settings.max_cholesky_size
  maxRoot : Nat          -- settings.max_root_decomposition_size
  fastRoot : Bool        -- settings.fast_computations.covar_root_decomposition
  cSymeig : Bool := false
  cDiag : Bool := false
  cLanczos : Bool := false

/-- `LinearOperator._choose_root_method`. -/
def chooseRootMethod (n : Nat) (c : Cfg) : Method :=
  if c.cSymeig then .symeig
  else if c.cDiag then .diagonalization
  else if c.cLanczos then .lanczos
  else if n ≤ c.maxChol || !c.fastRoot then .cholesky
  else .lanczos

/-- Outcome of an entry point: the primitives that ran, the class of the returned object, or an error. -/
inductive Outcome where
  | ok (prims : List Prim) (cls : String)
  | error (kind : String)
  deriving DecidableEq, Repr

def lanczosPrims (n : Nat) (c : Cfg) : List Prim :=
  let k := min c.maxRoot n
  [.lanczos n k, .symeig k]

/-- Base-class `diagonalization(method)`; `m = none` is `method=None`. -/
def diagPrims (n : Nat) (c : Cfg) (m : Option Method) : Option (List Prim) :=
  let m := m.getD (if n ≤ c.maxChol then .symeig else .lanczos)
  match m with
  | .lanczos => some (lanczosPrims n c)
  | .symeig => some [.symeig n]
  | _ => none

/-- Base-class `root_decomposition(method)` on an `n × n` operator whose `_cholesky`/`_symeig` are the
dense ones.  `cholOk` says whether `psd_safe_cholesky` succeeds (it does for PD input). -/
def rootBase (n : Nat) (c : Cfg) (m : Option Method) (cholOk : Bool := true) : Outcome :=
  if n = 1 then .ok [] "Root" else
  let m := m.getD (chooseRootMethod n c)
  match m with
  | .cholesky => if cholOk then .ok [.chol n] "Chol" else .ok [.chol n, .symeig n] "Root"
  | .pivotedCholesky => .ok [.pivChol n (min c.maxRoot n)] "Root"
  | .symeig => .ok [.symeig n] "Root"
  | .svd => .ok [.symeig n] "Root"
  | .diagonalization => match diagPrims n c none with
      | some p => .ok p "Root"
      | none => .error "RuntimeError"
  | .lanczos => .ok (lanczosPrims n c) "Root"
  | .pinverse => .error "RuntimeError"

/-- Base-class `root_inv_decomposition(method=…)`. -/
def rootInvBase (n : Nat) (c : Cfg) (m : Option Method) (cholOk : Bool := true) : Outcome :=
  if n = 1 then .ok [] "Root" else
  let m := m.getD (chooseRootMethod n c)
  match m with
  | .cholesky => if cholOk then .ok [.chol n] "Root" else .error "NotPSDError"
  | .lanczos => .ok (lanczosPrims n c) "Root"
  | .symeig => .ok [.symeig n] "Root"
  | .svd => .ok [.symeig n] "Root"
  | .diagonalization => match diagPrims n c none with
      | some p => .ok p "Root"
      | none => .error "RuntimeError"
  | .pinverse => match rootBase n c none cholOk with
      | .ok p _ => .ok p "Root"
      | e => e
  | .pivotedCholesky => .error "RuntimeError"

def Outcome.bind (o : Outcome) (f : List Prim → String → Outcome) : Outcome :=
  match o with
  | .ok p cl => f p cl
  | e => e

/-- `ConstantMulLinearOperator.root_decomposition / root_inv_decomposition` (the latter since /repo c4c33aa): for an
all-positive constant the call is delegated to the base operator with the same `method` (so the primitives logged are the
base's, an error of the base propagates) and the scaled root is wrapped in a `RootLinearOperator`; otherwise (`pos = false`:
some batch member ≤ 0) the base-class method runs on the ConstantMul operator itself (`own`). -/
def constMulDelegate (pos : Bool) (base own : Outcome) : Outcome :=
  if pos then base.bind fun p _ => .ok p "Root" else own

/-- Concatenate per-factor outcomes (left to right, as the list comprehension over `linear_ops` runs). -/
def seqOutcomes (os : List Outcome) (cls : String) : Outcome :=
  os.foldl (fun acc o => acc.bind fun p _ => o.bind fun q _ => .ok (p ++ q) cls) (.ok [] cls)

def prod (ns : List Nat) : Nat := ns.foldl (· * ·) 1

/-- per-factor dense Cholesky (the base `_cholesky` has a 1×1 shortcut that logs nothing). -/
def cholPrims (ns : List Nat) : List Prim := (ns.filter (· ≠ 1)).map .chol

/-- `KroneckerProductLinearOperator.root_decomposition(method)` with dense factors of sizes `ns`. -/
def rootKron (ns : List Nat) (c : Cfg) (m : Option Method) : Outcome :=
  let n := prod ns
  if n ≤ c.maxChol then
    -- `super().root_decomposition(method=method)`; `_cholesky`, `_symeig`, `_svd`, `diagonalization` are per factor
    if n = 1 then .ok [] "Root" else
    let m := m.getD (chooseRootMethod n c)
    match m with
    | .cholesky => .ok (cholPrims ns) "Chol"
    | .pivotedCholesky => .ok [.pivChol n (min c.maxRoot n)] "Root"
    | .symeig | .svd | .diagonalization => .ok (ns.map .symeig) "Root"
    | .lanczos => .ok (lanczosPrims n c) "Root"
    | .pinverse => .error "RuntimeError"
  else
    seqOutcomes (ns.map fun k => rootBase k c m) "Root"

/-- `KroneckerProductLinearOperator.root_inv_decomposition(method=…)` (after f68e44a the `method` argument is
forwarded on both branches: `super().root_inv_decomposition(…, method=method)` / `lt.root_inv_decomposition(method=method)`). -/
def rootInvKron (ns : List Nat) (c : Cfg) (m : Option Method) : Outcome :=
  let n := prod ns
  if n ≤ c.maxChol then
    if n = 1 then .ok [] "Root" else
    let m := m.getD (chooseRootMethod n c)
    match m with
    | .cholesky => .ok (cholPrims ns) "Root"
    | .lanczos => .ok (lanczosPrims n c) "Root"
    | .symeig | .svd | .diagonalization => .ok (ns.map .symeig) "Root"
    | .pinverse => match rootKron ns c none with
        | .ok p _ => .ok p "Root"
        | e => e
    | .pivotedCholesky => .error "RuntimeError"
  else
    seqOutcomes (ns.map fun k => rootInvBase k c m) "Root"

/-- `KroneckerProductLinearOperator.diagonalization`: `method=None` means symeig, per factor. -/
def diagKron (ns : List Nat) (c : Cfg) (m : Option Method) : Option (List Prim) :=
  match m.getD .symeig with
  | .symeig => some (ns.map .symeig)
  | .lanczos => some (lanczosPrims (prod ns) c)
  | _ => none

/-! ## Part 2 — closed formulas of the factors -/

variable {α : Type}

/-- `cholesky(upper=True)`: the lower factor is computed and transposed. -/
def upperFromLower {n : Nat} (L : Mat α n n) : Mat α n n := Mat.transpose L

/-- Row-major Kronecker product on flat indices, the index order of
`KroneckerProduct(Triangular)LinearOperator`: entry `[i*p + k, j*q + l] = A[i,j] * B[k,l]`. -/
def kron [Mul α] {m n p q : Nat} (A : Mat α m n) (B : Mat α p q) : Mat α (m * p) (n * q) :=
  fun r c =>
    have hp : 0 < p := Nat.pos_of_ne_zero (by intro h; have := r.2; simp [h] at this)
    have hq : 0 < q := Nat.pos_of_ne_zero (by intro h; have := c.2; simp [h] at this)
    A ⟨r.1 / p, (Nat.div_lt_iff_lt_mul hp).2 r.2⟩ ⟨c.1 / q, (Nat.div_lt_iff_lt_mul hq).2 c.2⟩ *
      B ⟨r.1 % p, Nat.mod_lt _ hp⟩ ⟨c.1 % q, Nat.mod_lt _ hq⟩

/-- Base `_svd`: `U = Q·diag(sign w)`, `S = |w|`, `V = Q`. -/
def svdFromSymeig [Mul α] {n : Nat} (sign abs : α → α) (Q : Mat α n n) (w : Fin n → α) :
    Mat α n n × (Fin n → α) × Mat α n n :=
  (fun i j => Q i j * sign (w j), fun j => abs (w j), Q)

/-- `ConstantMulLinearOperator(base_root, s)` as a dense matrix: every entry times the scalar (`s = c ** 0.5` for the root,
`s = c ** -0.5` for the inverse root). -/
def constMulRoot [Mul α] {n k : Nat} (s : α) (R : Mat α n k) : Mat α n k := fun i j => s * R i j

/-- Column scaling `evecs * v.unsqueeze(-2)`. -/
def scaleCols [Mul α] {n k : Nat} (Q : Mat α n k) (v : Fin k → α) : Mat α n k := fun i j => Q i j * v j

/-- Spectrum of `R Rᵀ` for the inverse root of `K + d·I` (`d = Π aᵢ`, Kronecker of constant diagonals) that
`KroneckerProductAddedDiagLinearOperator._root_inv_decomposition` builds **as written**:
`R = (√d · Q) (Λ/d + I)^{-1/2}`, i.e. eigenvalues `d / (λ/d + 1)` in the eigenbasis of `K`. -/
def kpadloConstInvSpectrumAsWritten [Mul α] [Div α] [Add α] [One α] (d : α) (lam : List α) : List α :=
  lam.map fun l => d / (l / d + 1)

/-- … and with the one-line correction (`evec_ / dlt_.diag_values.sqrt()`): `(1/d) / (λ/d + 1) = 1/(λ + d)`. -/
def kpadloConstInvSpectrumFixed [Mul α] [Div α] [Add α] [One α] (d : α) (lam : List α) : List α :=
  lam.map fun l => (1 / d) / (l / d + 1)

/-- Spectrum of `(λ̃ + 1)⁻¹`: what `D^{∓1/2} (R Rᵀ) D^{∓1/2}` must show for the symmetrised branch
(`−` as written, `+` after the correction); `lam` are the eigenvalues of `D^{-1/2} K D^{-1/2}`. -/
def kpadloSymmInnerSpectrum [Div α] [Add α] [One α] (lam : List α) : List α :=
  lam.map fun l => 1 / (l + 1)

/-! ## Part 3 — call histories on one object (memoisation)

`@cached(name=…)` keys an entry by `(name, args, pickle(kwargs))`; the check calls every entry point either
without arguments (`method=None`) or with `method=<m>` as keyword, so the key is `(entry, Option Method)`.
Settings are *not* part of the key.  Two mechanisms make a result depend on earlier calls in the code as it is:
the base Lanczos `_root_inv_decomposition` writes the root it computed alongside under `(root, none)`
(`add_to_cache(self, "root_decomposition", …)`), and `_choose_root_method` probes the cache for a
`diagonalization` entry. -/

inductive Entry where
  | root | rootinv | diag
  deriving DecidableEq, Repr

structure HKey where
  e : Entry
  m : Option Method
  deriving DecidableEq

/-- Where the object returned by a call comes from: computed by this call, the very object returned by call `i`
(cache hit), or an object created inside call `i` but not returned by it (side write / inner call). -/
inductive Src where
  | own | hit (i : Nat) | side (i : Nat)
  deriving DecidableEq, Repr

/-- cache: key ↦ (index of the creating call, was it returned by that call) -/
abbrev HState := List (HKey × Nat × Bool)

def hlookup (st : HState) (k : HKey) : Option (Nat × Bool) :=
  match st.find? (fun x => x.1 = k) with
  | some x => some x.2
  | none => none

/-- `add_to_cache` overwrites. -/
def hinsert (st : HState) (k : HKey) (v : Nat × Bool) : HState :=
  (k, v) :: st.filter (fun x => x.1 ≠ k)

def probeCfg (st : HState) (c : Cfg) : Cfg :=
  { c with cDiag := st.any (fun x => x.1.e = .diag), cSymeig := false, cLanczos := false }

/-- inner `self.diagonalization()` / `self.root_decomposition()` call made by call `idx`: a hit leaves the state
unchanged, a miss stores an object created inside `idx`. -/
def hinner (st : HState) (idx : Nat) (k : HKey) : HState :=
  match hlookup st k with
  | some _ => st
  | none => hinsert st k (idx, false)

/-- One public call on a base-class operator of size `n > 1` (dense `_cholesky/_symeig`). -/
def hstep (n : Nat) (st : HState) (idx : Nat) (e : Entry) (m : Option Method) (c : Cfg) : HState × Src :=
  let k : HKey := ⟨e, m⟩
  match hlookup st k with
  | some (i, true) => (st, .hit i)
  | some (i, false) => (st, .side i)
  | none =>
    match e with
    | .diag => (hinsert st k (idx, true), .own)
    | .root =>
      let m' := m.getD (chooseRootMethod n (probeCfg st c))
      let st := if m' = .diagonalization then hinner st idx ⟨.diag, none⟩ else st
      (hinsert st k (idx, true), .own)
    | .rootinv =>
      let m' := m.getD (chooseRootMethod n (probeCfg st c))
      let st := if m' = .diagonalization then hinner st idx ⟨.diag, none⟩ else st
      -- `pinverse` calls `self.root_decomposition()`; its own method selection may call `diagonalization()`
      let st := if m' = .pinverse then
          (match hlookup st ⟨.root, none⟩ with
           | some _ => st
           | none =>
             let mr := chooseRootMethod n (probeCfg st c)
             let st := if mr = .diagonalization then hinner st idx ⟨.diag, none⟩ else st
             hinsert st ⟨.root, none⟩ (idx, false))
        else st
      -- the Lanczos path stores the root it computed alongside, overwriting an existing entry
      let st := if m' = .lanczos then hinsert st ⟨.root, none⟩ (idx, false) else st
      (hinsert st k (idx, true), .own)

def hrunAux (n : Nat) : HState → Nat → List (Entry × Option Method × Cfg) → List Src
  | _, _, [] => []
  | st, idx, (e, m, c) :: rest =>
    let (st', s) := hstep n st idx e m c
    s :: hrunAux n st' (idx + 1) rest

/-- Sources of the results of a history of calls on a fresh object. -/
def hrun (n : Nat) (calls : List (Entry × Option Method × Cfg)) : List Src := hrunAux n [] 0 calls

/-! ### Abstract memoisation (what the keying discipline buys) -/

/-- A memo table keyed by `κ`; `call` returns the stored value or computes and stores it. -/
def memoCall {κ σ ν : Type} [DecidableEq κ] (compute : κ → σ → ν) (st : List (κ × ν)) (k : κ) (s : σ) :
    ν × List (κ × ν) :=
  match st.find? (fun x => x.1 = k) with
  | some x => (x.2, st)
  | none => (compute k s, (k, compute k s) :: st)

def memoRun {κ σ ν : Type} [DecidableEq κ] (compute : κ → σ → ν) :
    List (κ × ν) → List (κ × σ) → List ν
  | _, [] => []
  | st, (k, s) :: rest =>
    let (v, st') := memoCall compute st k s
    v :: memoRun compute st' rest

end LinOp.C06
