import LinOp.C10.ProofsPSD
import LinOp.C10.ProofsLoop
import LinOp.C10.ProofsSPD
import LinOp.C10.ProofsErr
/-!
C06 ∘ C10 — the pivoted-Cholesky root of `root_decomposition(method="pivoted_cholesky")`, composed from C10's
invariants of `PivotedCholesky.forward` (`LinOp.C10.iter/run`, helper lemmas `iter_pdu`, `iter_psd`, `iter_inv`, `run_spec`).
Only C10's *proof* modules are imported (not `Properties/C10`).
-/
namespace LinOp.C06
open LinOp.C10

variable {α : Type} [Field α] [LinearOrder α] [IsStrictOrderedRing α] {n : Nat}

/-- One positive-definite member, rank bound `rank`, tolerance `tol`: number of pivots `r` with `1 ≤ r ≤ min rank n`;
`A − L Lᵀ` is PSD and vanishes on the `r` pivot rows; stopped early only within the tolerance; exact when `r = n`. -/
theorem pivchol_root_of_pd {P : LinOp.C10.Prim α} {A : Mat α n n} (hP : SqrtLaw P) (hA : Symm A) (hpd : PD A)
    (rank : Nat) (tol : α) (hrank : 0 < rank) (hn : 0 < n) :
    let r := (run P [A] rank tol).1
    let s := iter P A r
    1 ≤ r ∧ r ≤ min rank n ∧ (run P [A] rank tol).2 = [s] ∧
      PSD (resid A s.rows) ∧
      (∀ j : Fin n, j.val < r → ∀ k, resid A s.rows (s.perm.get j) k = 0) ∧
      (r < min rank n → errAt P [A] r ≤ tol) ∧
      (r = n → ∀ i k, A i k = lltEntry s.rows i k) := by
  intro r s
  have h := run_spec P [A] rank tol hrank hn
  have hr : r ≤ n := le_trans h.le_max (Nat.min_le_right _ _)
  have hpos := (iter_pdu hP hA hpd r hr).1
  have hpsd : PSD A := fun x => by
    by_cases hx : x = 0
    · subst hx; simp
    · exact (hpd x hx).le
  have hinv := iter_inv hP hA r hr hpos
  refine ⟨h.pos rfl, h.le_max, by simpa using h.states, iter_psd hP hA hpsd r hr hpos, hinv.zero,
    fun hlt => not_lt.1 (h.stopped hlt (h.pos rfl)), ?_⟩
  intro he i k
  obtain ⟨j, rfl⟩ := hinv.bij.2 i
  have := hinv.zero j (by omega) k
  simp only [resid] at this
  linarith

end LinOp.C06
