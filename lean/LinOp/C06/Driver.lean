import LinOp.Core.Parse
import LinOp.C06.Model
import LinOp.C06.Postprocess
/-! Line-protocol driver for the C06 model (no Mathlib).
  sel <root|rootinv|diag> <base|kron> <n1,n2,..> <maxChol> <maxRoot> <fast 0/1> <method|none> <cholOk 0/1> <cache: s d l bits e.g. 000>
  cmul <root|rootinv> <base|kron> <pos 0/1> <n1,..> <maxChol> <maxRoot> <fast> <method|none> <cholOk of c·A> <cache>   ConstantMul override
  hist <n> <entry:method:maxChol:maxRoot:fast;…>   source (own | hit:i | side:i) of every result of a call history
  choose <n> <maxChol> <fast> <cache>
  kron <m> <n> <p> <q> <A> <B>          exact Kronecker product in the library's index order
  upper <n> <L>                         upper factor from the lower one
  svd|svdpos <n> <Q> <w>                U;S;V of the base `_svd` from an eigendecomposition (sign 0 = 0 | +1)
  kpadlo <asw|fix> <d> <lam,…>          predicted spectrum of R Rᵀ, constant-factor branch
  symm <lam,…>                          predicted inner spectrum, symmetrised branch
  post <n> <k> <c> <P> <B> <A_1..A_B> <T_1..T_B> <R_{0,1}..R_{0,B}> … <R_{P-1,1}..R_{P-1,B}>
                                        index of the candidate `_postprocess_lanczos_root_inv_decomp` returns -/
open LinOp LinOp.C06 LinOp.Parse

def parseMethod? (s : String) : Option (Option Method) :=
  match s with
  | "none" => some none
  | "cholesky" => some (some .cholesky)
  | "symeig" => some (some .symeig)
  | "svd" => some (some .svd)
  | "lanczos" => some (some .lanczos)
  | "pivoted_cholesky" => some (some .pivotedCholesky)
  | "diagonalization" => some (some .diagonalization)
  | "pinverse" => some (some .pinverse)
  | _ => none

def showMethod : Method → String
  | .cholesky => "cholesky" | .symeig => "symeig" | .svd => "svd" | .lanczos => "lanczos"
  | .pivotedCholesky => "pivoted_cholesky" | .diagonalization => "diagonalization" | .pinverse => "pinverse"

def showPrim : Prim → String
  | .chol n => s!"chol:{n}"
  | .symeig n => s!"symeig:{n}"
  | .lanczos n k => s!"lanczos:{n}:{k}"
  | .pivChol n k => s!"pivchol:{n}:{k}"

def showPrims (p : List Prim) : String := showList showPrim p

def showOutcome : Outcome → String
  | .ok p cl => s!"ok cls={cl} prims={showPrims p}"
  | .error k => s!"error {k}"

def mkCfg (mc mr : Nat) (fast : String) (cache : String) : Cfg :=
  let cs := cache.toList
  { maxChol := mc, maxRoot := mr, fastRoot := fast = "1",
    cSymeig := cs.getD 0 '0' = '1', cDiag := cs.getD 1 '0' = '1', cLanczos := cs.getD 2 '0' = '1' }

def getM (a : Array (Array Rat)) (n m : Nat) : Mat Rat n m := Mat.ofArrays n m a
def out {n m : Nat} (A : Mat Rat n m) : String := showMat A.toLists

def ratSign (x : Rat) : Rat := if x > 0 then 1 else if x < 0 then -1 else 0
def ratAbs (x : Rat) : Rat := if x < 0 then -x else x
/-- sign with `sign 0 = +1` (the corrected `_svd`, notes/C06_fix_4.diff). -/
def ratSignPos (x : Rat) : Rat := if x < 0 then -1 else 1

def runSvd (sg : Rat → Rat) (n q w : String) : String :=
  match n.toNat?, parseMat? q, parseRats? w with
  | some n, some q, some w =>
    let wa := w.toArray
    let (u, s, v) := svdFromSymeig sg ratAbs (getM q n n) (fun i : Fin n => wa[i.1]!)
    out u ++ " | " ++ showList showRat ((List.finRange n).map s) ++ " | " ++ out v
  | _, _, _ => "bad-op"

/-- integer square root by Newton's iteration (executable stand-in for the `sqrt` parameter) -/
def natSqrtAux (x : Nat) : Nat → Nat → Nat
  | 0, r => r
  | fuel + 1, r => let r' := (r + x / r) / 2; if r' < r then natSqrtAux x fuel r' else r

def natSqrt (x : Nat) : Nat := if x < 2 then x else natSqrtAux x (x.log2 + 8) (2 ^ (x.log2 / 2 + 1))

/-- `√(p/q) = √(p·q)/q`, to 40 decimal digits. -/
def ratSqrt (x : Rat) : Rat :=
  if x ≤ 0 then 0 else
    let s : Nat := 10 ^ 40
    (natSqrt (x.num.toNat * x.den * s * s) : Rat) / ((x.den * s : Nat) : Rat)

def runPost (n k c P B : Nat) (ms : List (Array (Array Rat))) : String :=
  if ms.length ≠ 2 * B + P * B || P = 0 then "bad-op" else
  let As := (ms.take B).map fun a => getM a n n
  let Ts := ((ms.drop B).take B).map fun a => getM a n c
  let rest := (ms.drop (2 * B)).toArray
  let cands : Nat → List (Mat Rat n k) := fun p => (List.range B).map fun b => getM (rest[p * B + b]!) n k
  toString (postprocessIndex ratSqrt As Ts cands P)

def showSrc : Src → String
  | .own => "own" | .hit i => s!"hit:{i}" | .side i => s!"side:{i}"

def parseCall? (s : String) : Option (Entry × Option Method × Cfg) :=
  match s.splitOn ":" with
  | [e, m, mc, mr, fast] =>
    match (match e with | "root" => some Entry.root | "rootinv" => some Entry.rootinv | "diag" => some Entry.diag | _ => none),
          parseMethod? m, mc.toNat?, mr.toNat? with
    | some e, some m, some mc, some mr => some (e, m, mkCfg mc mr fast "000")
    | _, _, _, _ => none
  | _ => none

def run (line : String) : String :=
  match words line with
  | ["sel", op, kind, ns, mc, mr, fast, meth, cok, cache] =>
    match parseNats? ns, mc.toNat?, mr.toNat?, parseMethod? meth with
    | some ns, some mc, some mr, some m =>
      let c := mkCfg mc mr fast cache
      let ok := cok = "1"
      match op, kind, ns with
      | "root", "base", [n] => showOutcome (rootBase n c m ok)
      | "rootinv", "base", [n] => showOutcome (rootInvBase n c m ok)
      | "diag", "base", [n] => match diagPrims n c m with
          | some p => s!"ok cls=- prims={showPrims p}"
          | none => "error RuntimeError"
      | "root", "kron", ns => showOutcome (rootKron ns c m)
      | "rootinv", "kron", ns => showOutcome (rootInvKron ns c m)
      | "diag", "kron", ns => match diagKron ns c m with
          | some p => s!"ok cls=- prims={showPrims p}"
          | none => "error RuntimeError"
      | _, _, _ => "bad-op"
    | _, _, _, _ => "bad-op"
  | ["cmul", op, kind, pos, ns, mc, mr, fast, meth, cok, cache] =>
    -- ConstantMul override: base outcome (dense / Kronecker base) re-wrapped, or the base-class outcome on the operator itself
    match parseNats? ns, mc.toNat?, mr.toNat?, parseMethod? meth with
    | some ns, some mc, some mr, some m =>
      let c := mkCfg mc mr fast cache
      let ok := cok = "1"
      let N := prod ns
      match op, kind with
      | "root", "base" => showOutcome (constMulDelegate (pos = "1") (rootBase N c m true) (rootBase N c m ok))
      | "rootinv", "base" => showOutcome (constMulDelegate (pos = "1") (rootInvBase N c m true) (rootInvBase N c m ok))
      | "root", "kron" => showOutcome (constMulDelegate (pos = "1") (rootKron ns c m) (rootBase N c m ok))
      | "rootinv", "kron" => showOutcome (constMulDelegate (pos = "1") (rootInvKron ns c m) (rootInvBase N c m ok))
      | _, _ => "bad-op"
    | _, _, _, _ => "bad-op"
  | ["hist", n, calls] =>
    match n.toNat?, (calls.splitOn ";").mapM parseCall? with
    | some n, some cs => showList showSrc (hrun n cs)
    | _, _ => "bad-op"
  | ["choose", n, mc, fast, cache] =>
    match n.toNat?, mc.toNat? with
    | some n, some mc => showMethod (chooseRootMethod n (mkCfg mc 0 fast cache))
    | _, _ => "bad-op"
  | ["kron", m, n, p, q, a, b] =>
    match m.toNat?, n.toNat?, p.toNat?, q.toNat?, parseMat? a, parseMat? b with
    | some m, some n, some p, some q, some a, some b => out (kron (getM a m n) (getM b p q))
    | _, _, _, _, _, _ => "bad-op"
  | ["upper", n, l] =>
    match n.toNat?, parseMat? l with
    | some n, some l => out (upperFromLower (getM l n n))
    | _, _ => "bad-op"
  | ["svd", n, q, w] => runSvd ratSign n q w
  | ["svdpos", n, q, w] => runSvd ratSignPos n q w
  | ["kpadlo", which, d, lam] =>
    match parseRat? d, parseRats? lam with
    | some d, some lam =>
      if d = 0 then "bad-op" else
      showList showRat (if which = "asw" then kpadloConstInvSpectrumAsWritten d lam else kpadloConstInvSpectrumFixed d lam)
    | _, _ => "bad-op"
  | ["symm", lam] =>
    match parseRats? lam with
    | some lam => showList showRat (kpadloSymmInnerSpectrum lam)
    | _ => "bad-op"
  | "post" :: n :: k :: c :: P :: B :: ms =>
    match n.toNat?, k.toNat?, c.toNat?, P.toNat?, B.toNat?, ms.mapM parseMat? with
    | some n, some k, some c, some P, some B, some ms => runPost n k c P B ms
    | _, _, _, _, _, _ => "bad-op"
  | _ => "bad-op"

def main : IO Unit := do
  loop (← IO.getStdin) () (fun _ l => ((), run l))
