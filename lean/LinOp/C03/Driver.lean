import LinOp.Core.Parse
import LinOp.C03.Model
import LinOp.C03.OpParse
import LinOp.C03.Getitem
import LinOp.C03.FrontGuard
/-! Line-protocol driver for the C03 model (core only). -/
open LinOp LinOp.C03 LinOp.Parse

def pOptInt (s : String) : Option (Option Int) := if s = "n" then some none else s.toInt?.map some

def pItem (s : String) : Option Item :=
  if s = "e" then some .ellipsis
  else if s.startsWith "i" then (s.drop 1).toString.toInt?.map .int
  else if s.startsWith "s" then
    match (s.drop 1).toString.splitOn ";" with
    | [a, b, c] => do pure (.slice (← pOptInt a) (← pOptInt b) (← pOptInt c))
    | _ => none
  else if s.startsWith "t" then
    match (s.drop 1).toString.splitOn ":" with
    | [sh, vs] => do
        let shape ← if sh = "-" then some [] else (sh.splitOn "x").mapM String.toNat?
        let vals ← parseInts? vs
        pure (.tensor shape vals)
    | _ => none
  else none

def showNats (l : List Nat) : String := showList toString l

def doShape (dims : List Nat) (idx : List Item) : String :=
  match getitemShape? dims idx, expandEllipsis dims.length idx with
  | some sh, some e =>
    let zi := List.zip dims e
    let ks := zi.map (·.2.kind)
    s!"S={showNats sh}|M={showNats (computeGetitemSize zi)}|mv={if movedToStart ks then 1 else 0}|E={showNats (specElems dims zi)}|C={showNats (convElems dims zi)}"
  | _, _ => "err"

def stepLine (_ : Unit) (line : String) : Unit × String :=
  let out : String :=
    match words line with
    | "shape" :: ds :: "|" :: items =>
      match parseNats? ds, items.mapM pItem with
      | some dims, some idx => doShape dims idx
      | _, _ => "bad-op"
    | ["slice", n, a, b, c] =>
      match n.toNat?, pOptInt a, pOptInt b, pOptInt c with
      | some n, some a, some b, some c => showNats (sliceIndices n a b c)
      | _, _, _, _ => "bad-op"
    | ["kron", ns, i] =>
      match parseNats? ns, i.toNat? with
      | some ns, some i => showNats (kronIdx ns i)
      | _, _ => "bad-op"
    | ["toep", n, i, j] =>
      match n.toNat?, i.toInt?, j.toInt? with
      | some n, some i, some j => toString (toepIdx n i j)
      | _, _, _ => "bad-op"
    | ["bdiag", m, n, i, j] =>
      match m.toNat?, n.toNat?, i.toNat?, j.toNat? with
      | some m, some n, some i, some j =>
        let (b, r, c, on) := blockDiagIdx m n i j; s!"{b},{r},{c},{if on then 1 else 0}"
      | _, _, _, _ => "bad-op"
    | ["binter", k, i, j] =>
      match k.toNat?, i.toNat?, j.toNat? with
      | some k, some i, some j =>
        let (b, r, c, on) := blockInterIdx k i j; s!"{b},{r},{c},{if on then 1 else 0}"
      | _, _, _ => "bad-op"
    | ["brep", s, b] =>
      match s.toNat?, b.toNat? with
      | some s, some b => toString (batchRepeatIdx s b)
      | _, _ => "bad-op"
    | ["cat", ss, i] =>
      match parseNats? ss, i.toNat? with
      | some ss, some i => let (p, l) := catLocate ss i; s!"{p},{l}"
      | _, _ => "bad-op"
    | ["split", ss, a, b] =>
      match parseNats? ss, pOptInt a, pOptInt b with
      | some ss, some a, some b => let (p, q, r, t) := splitSliceBounds ss a b; s!"{p},{q},{r},{t}"
      | _, _, _ => "bad-op"
    | ["intslice", n, i] =>
      match n.toNat?, i.toInt? with
      | some n, some i =>
        match intToSlice n i with
        | .slice a b c => showNats (sliceIndices n a b c)
        | _ => "bad-op"
      | _, _ => "bad-op"
    | "opall" :: bsh :: "|" :: expr =>
      match pShape bsh, parseOp 64 expr with
      | some bshape, some (op, []) => opAll op bshape
      | _, _ => "bad-op"
    | "front" :: bsh :: rest =>
      -- front <bshape> <items…> | <expr>
      let items := rest.takeWhile (· ≠ "|")
      let expr := (rest.dropWhile (· ≠ "|")).drop 1
      match pShape bsh, items.mapM pItem, parseOp 64 expr with
      | some bshape, some idx, some (op, []) =>
        match frontEndG op bshape idx with
        | .ok sh vals => s!"S={showNats sh}|V={showInts vals}"
        | .tooMany => "too-many"
        | .notModelled => "none"
      | _, _, _ => "bad-op"
    | ["bdal", m, n, rs, re, cs, ce] =>
      match [m, n, rs, re, cs, ce].mapM String.toNat? with
      | some [m, n, rs, re, cs, ce] => showAlignedBD (blockDiagAligned m n rs re cs ce)
      | _ => "bad-op"
    | ["bial", k, rs, re, cs, ce] =>
      match [k, rs, re, cs, ce].mapM String.toNat? with
      | some [k, rs, re, cs, ce] => showAlignedBI (blockInterAligned k rs re cs ce)
      | _ => "bad-op"
    | ["slicebounds", n, a, b] =>
      match n.toNat?, pOptInt a, pOptInt b with
      | some n, some a, some b => s!"{sliceStart n a},{sliceStop n b}"
      | _, _, _ => "bad-op"
    | ["absorbed", b, r, c] => if rowColAbsorbed (b = "1") (r = "1") (c = "1") then "1" else "0"
    | _ => "bad-op"
  ((), out)

def main : IO Unit := do
  loop (← IO.getStdin) () stepLine
