import LinOp.C03.Model
/-! Helper lemmas for C03 (core Lean only). -/
namespace LinOp.C03

/-! ### the `_compute_getitem_size` pass -/

def kinds (l : List (Nat × Item)) : List K := l.map (·.2.kind)

@[simp] theorem kinds_nil : kinds [] = [] := rfl
@[simp] theorem kinds_int (n i r) : kinds ((n, Item.int i) :: r) = K.I :: kinds r := rfl
@[simp] theorem kinds_slice (n a b c r) : kinds ((n, Item.slice a b c) :: r) = K.S :: kinds r := rfl
@[simp] theorem kinds_ell (n r) : kinds ((n, Item.ellipsis) :: r) = K.S :: kinds r := rfl
@[simp] theorem kinds_tensor (n sh vs r) : kinds ((n, Item.tensor sh vs) :: r) = K.T :: kinds r := rfl

def run (st : St) (l : List (Nat × Item)) : St := l.foldl stepSize st

@[simp] theorem run_nil (st : St) : run st [] = st := rfl
theorem run_cons (st : St) (x) (l) : run st (x :: l) = run (stepSize st x) l := rfl

@[simp] theorem step_int (st : St) (n i) : stepSize st (n, Item.int i) = st := rfl
@[simp] theorem step_slice (st : St) (n a b c) : stepSize st (n, Item.slice a b c) =
    { st with final := st.final ++ [sliceLen n a b c], sliceAfter := st.sliceAfter || st.tidx.isSome } := rfl
@[simp] theorem step_ell (st : St) (n) : stepSize st (n, Item.ellipsis) =
    { st with final := st.final ++ [n], sliceAfter := st.sliceAfter || st.tidx.isSome } := rfl
theorem step_tensor_none (st : St) (n sh vs) (h : st.tidx = none) : stepSize st (n, Item.tensor sh vs) =
    { st with tshape := sh, tidx := some st.final.length } := by simp [stepSize, h]
theorem step_tensor_some (st : St) (n sh vs k) (h : st.tidx = some k) : stepSize st (n, Item.tensor sh vs) =
    { st with tshape := bc st.tshape sh, tidx := if st.sliceAfter then some 0 else some k } := by simp [stepSize, h]

theorem run_final (l : List (Nat × Item)) : ∀ st, (run st l).final = st.final ++ sliceLens l := by
  induction l with
  | nil => intro st; simp [sliceLens]
  | cons x r ih =>
    intro st
    obtain ⟨n, it⟩ := x
    rw [run_cons]
    cases it with
    | int i => simp [ih, sliceLens]
    | slice a b c => simp [ih, sliceLens]
    | ellipsis => simp [ih, sliceLens]
    | tensor sh vs =>
      cases h : st.tidx with
      | none => rw [step_tensor_none _ _ _ _ h]; simp [ih, sliceLens]
      | some k => rw [step_tensor_some _ _ _ _ k h]; simp [ih, sliceLens]

theorem run_tshape_some (l : List (Nat × Item)) : ∀ st k, st.tidx = some k →
    (run st l).tshape = (tensorShapes l).foldl bc st.tshape := by
  induction l with
  | nil => intro st k h; simp [tensorShapes]
  | cons x r ih =>
    intro st k h
    obtain ⟨n, it⟩ := x
    rw [run_cons]
    cases it with
    | int i => simpa [tensorShapes] using ih st k h
    | slice a b c => rw [step_slice]; simpa [tensorShapes] using ih (St.mk (st.final ++ [sliceLen n a b c]) st.tidx st.tshape (st.sliceAfter || st.tidx.isSome)) k h
    | ellipsis => rw [step_ell]; simpa [tensorShapes] using ih (St.mk (st.final ++ [n]) st.tidx st.tshape (st.sliceAfter || st.tidx.isSome)) k h
    | tensor sh vs =>
      rw [step_tensor_some _ _ _ _ k h]
      have := ih { st with tshape := bc st.tshape sh, tidx := if st.sliceAfter then some 0 else some k }
        (if st.sliceAfter then 0 else k) (by cases st.sliceAfter <;> simp)
      simpa [tensorShapes] using this

/-- phase 2/3: a slice has been seen after the first tensor -/
theorem run_tidx_after (l : List (Nat × Item)) : ∀ st k, st.tidx = some k → st.sliceAfter = true →
    (run st l).tidx = some (if hasT (kinds l) then 0 else k) := by
  induction l with
  | nil => intro st k h _; simp [hasT, h]
  | cons x r ih =>
    intro st k h hs
    obtain ⟨n, it⟩ := x
    rw [run_cons]
    cases it with
    | int i => simpa [hasT] using ih st k h hs
    | slice a b c => rw [step_slice]; simpa [hasT] using ih (St.mk (st.final ++ [sliceLen n a b c]) st.tidx st.tshape (st.sliceAfter || st.tidx.isSome)) k h (by simp [hs])
    | ellipsis => rw [step_ell]; simpa [hasT] using ih (St.mk (st.final ++ [n]) st.tidx st.tshape (st.sliceAfter || st.tidx.isSome)) k h (by simp [hs])
    | tensor sh vs =>
      rw [step_tensor_some _ _ _ _ k h]
      have := ih { st with tshape := bc st.tshape sh, tidx := if st.sliceAfter then some 0 else some k } 0 (by simp [hs]) hs
      simp only [kinds_tensor, hasT, if_true]
      rw [this]; simp

/-- phase 1: inside / after the first block of tensors, no slice since -/
theorem run_tidx_block (l : List (Nat × Item)) : ∀ st k, st.tidx = some k → st.sliceAfter = false →
    (run st l).tidx = some (if hasST (kinds l) then 0 else k) := by
  induction l with
  | nil => intro st k h _; simp [hasST, h]
  | cons x r ih =>
    intro st k h hs
    obtain ⟨n, it⟩ := x
    rw [run_cons]
    cases it with
    | int i => simpa [hasST] using ih st k h hs
    | slice a b c =>
      rw [step_slice]
      simpa [hasST] using run_tidx_after r (St.mk (st.final ++ [sliceLen n a b c]) st.tidx st.tshape (st.sliceAfter || st.tidx.isSome)) k h (by simp [h])
    | ellipsis =>
      rw [step_ell]
      simpa [hasST] using run_tidx_after r (St.mk (st.final ++ [n]) st.tidx st.tshape (st.sliceAfter || st.tidx.isSome)) k h (by simp [h])
    | tensor sh vs =>
      rw [step_tensor_some _ _ _ _ k h]
      have := ih { st with tshape := bc st.tshape sh, tidx := if st.sliceAfter then some 0 else some k } k (by simp [hs]) hs
      simpa [hasST] using this

/-- phase 0: no tensor seen yet -/
theorem run_tidx_none (l : List (Nat × Item)) : ∀ st, st.tidx = none → st.sliceAfter = false →
    (run st l).tidx = if hasT (kinds l) then some (if hasTST (kinds l) then 0 else st.final.length + slicesBeforeT (kinds l)) else none := by
  induction l with
  | nil => intro st h _; simp [hasT, h]
  | cons x r ih =>
    intro st h hsa
    obtain ⟨n, it⟩ := x
    rw [run_cons]
    cases it with
    | int i => simpa [hasT, hasTST, slicesBeforeT] using ih st h hsa
    | slice a b c =>
      rw [step_slice]
      have := ih { st with final := st.final ++ [sliceLen n a b c], sliceAfter := st.sliceAfter || st.tidx.isSome } h (by simp [h, hsa])
      rw [this]
      simp only [kinds_slice, hasT, hasTST, slicesBeforeT, List.length_append, List.length_cons, List.length_nil]
      by_cases h1 : hasT (kinds r) = true <;> by_cases h2 : hasTST (kinds r) = true <;> simp [h1, h2] <;> omega
    | ellipsis =>
      rw [step_ell]
      have := ih { st with final := st.final ++ [n], sliceAfter := st.sliceAfter || st.tidx.isSome } h (by simp [h, hsa])
      rw [this]
      simp only [kinds_ell, hasT, hasTST, slicesBeforeT, List.length_append, List.length_cons, List.length_nil]
      by_cases h1 : hasT (kinds r) = true <;> by_cases h2 : hasTST (kinds r) = true <;> simp [h1, h2] <;> omega
    | tensor sh vs =>
      rw [step_tensor_none _ _ _ _ h]
      have := run_tidx_block r { st with tshape := sh, tidx := some st.final.length } st.final.length rfl hsa
      simpa [hasT, hasTST, slicesBeforeT] using this

theorem run_tshape_none (l : List (Nat × Item)) : ∀ st, st.tidx = none →
    (run st l).tshape = if hasT (kinds l) then bcAll (tensorShapes l) else st.tshape := by
  induction l with
  | nil => intro st h; simp [hasT]
  | cons x r ih =>
    intro st h
    obtain ⟨n, it⟩ := x
    rw [run_cons]
    cases it with
    | int i => simpa [hasT, tensorShapes] using ih st h
    | slice a b c => rw [step_slice]; simpa [hasT, tensorShapes] using ih (St.mk (st.final ++ [sliceLen n a b c]) st.tidx st.tshape (st.sliceAfter || st.tidx.isSome)) h
    | ellipsis => rw [step_ell]; simpa [hasT, tensorShapes] using ih (St.mk (st.final ++ [n]) st.tidx st.tshape (st.sliceAfter || st.tidx.isSome)) h
    | tensor sh vs =>
      rw [step_tensor_none _ _ _ _ h]
      have := run_tshape_some r { st with tshape := sh, tidx := some st.final.length } st.final.length rfl
      simpa [hasT, tensorShapes, bcAll] using this

theorem hasT_iff_tensorShapes (l : List (Nat × Item)) : hasT (kinds l) = !(tensorShapes l).isEmpty := by
  induction l with
  | nil => rfl
  | cons x r ih =>
    obtain ⟨n, it⟩ := x
    cases it <;> simp [hasT, tensorShapes, ih]

/-- block-diagonal matrix with blocks of size `m × n`, defined by recursion over the list of blocks -/
def blockDiagSpec (m n : Nat) : List (Nat → Nat → Int) → Nat → Nat → Int
  | [], _, _ => 0
  | B :: r, i, j =>
    if i < m ∧ j < n then B i j
    else if m ≤ i ∧ n ≤ j then blockDiagSpec m n r (i - m) (j - n) else 0

theorem movedGo_spec (l : List K) :
    movedGo false true l = hasTST l ∧ movedGo true true l = hasST l ∧ movedGo true false l = hasT l := by
  induction l with
  | nil => simp [movedGo, hasTST, hasST, hasT]
  | cons x r ih =>
    obtain ⟨h1, h2, h3⟩ := ih
    cases x <;> simp [movedGo, hasTST, hasST, hasT, h1, h2, h3]

theorem movedToStart_cases (k : K) (l : List K) :
    movedToStart (k :: l) = (decide (k = K.T) || hasTST (k :: l)) := by
  cases k <;> simp [movedToStart, hasTST, (movedGo_spec l).1]

theorem movedToStart_specPos' (k : K) (l : List K) (h : movedToStart (k :: l) = true) : specPos (k :: l) = 0 := by
  rw [movedToStart_cases] at h
  cases k with
  | T => unfold specPos; simp only [hasTST, slicesBeforeT]; by_cases hh : hasST l = true <;> simp [hh]
  | I => simp_all [specPos, hasTST, slicesBeforeT]
  | S => simp_all [specPos, hasTST, slicesBeforeT]

def prodNat (l : List Nat) : Nat := l.foldl (· * ·) 1

theorem prodNat_cons (n : Nat) (l : List Nat) : prodNat (n :: l) = n * prodNat l := by
  have h : ∀ (l : List Nat) (a : Nat), l.foldl (· * ·) a = a * l.foldl (· * ·) 1 := by
    intro l; induction l with
    | nil => intro a; simp
    | cons x t iht => intro a; simp only [List.foldl_cons]; rw [iht (a * x), iht (1 * x)]; simp [Nat.mul_assoc]
  simp only [prodNat, List.foldl_cons]; rw [h]; simp

abbrev Factor := (Nat → Nat → Int) × Nat × Nat
def rowsOf (fs : List Factor) : List Nat := fs.map (·.2.1)
def colsOf (fs : List Factor) : List Nat := fs.map (·.2.2)

/-- Kronecker product of a list of factors (entry functions with their sizes), by recursion:
`(A ⊗ rest)[i, j] = A[i / R, j / C] * rest[i % R, j % C]` with `R × C` the size of `rest`. -/
def kronSpec : List Factor → Nat → Nat → Int
  | [], _, _ => 1
  | (A, _, _) :: r, i, j =>
    A (i / prodNat (rowsOf r)) (j / prodNat (colsOf r)) * kronSpec r (i % prodNat (rowsOf r)) (j % prodNat (colsOf r))

/-- one entry per factor, at the given per-factor indices -/
def kronEntries : List Factor → List Nat → List Nat → List Int
  | (A, _, _) :: fs, r :: rs, c :: cs => A r c :: kronEntries fs rs cs
  | _, _, _ => []

/-- the accumulation of `_get_indices`: `res = sub_res * res` over the factors -/
def mulRev (l : List Int) : Int := l.foldl (fun res a => a * res) 1

/-- what `KroneckerProductLinearOperator._get_indices` returns: every factor's entry at its div/fmod indices,
multiplied together in the library's order -/
def kronModel (fs : List Factor) (i j : Nat) : Int :=
  mulRev (kronEntries fs (kronIdx (rowsOf fs) i) (kronIdx (colsOf fs) j))

theorem mulRev_cons (a : Int) (l : List Int) : mulRev (a :: l) = mulRev l * a := by
  have h : ∀ (l : List Int) (x : Int), l.foldl (fun res a => a * res) x = l.foldl (fun res a => a * res) 1 * x := by
    intro l; induction l with
    | nil => intro x; simp
    | cons b t iht => intro x; simp only [List.foldl_cons]; rw [iht (b * x), iht (b * 1)]; simp [Int.mul_assoc]
  simp only [mulRev, List.foldl_cons]; rw [h]; simp

theorem kronIdxGo_cons (n : Nat) (r : List Nat) (i : Nat) (hn : 0 < n) :
    kronIdxGo (prodNat (n :: r)) (n :: r) i = (i / prodNat r % n) :: kronIdxGo (prodNat r) r i := by
  have : prodNat (n :: r) / n = prodNat r := by rw [prodNat_cons, Nat.mul_div_cancel_left _ hn]
  simp [kronIdxGo, this]

/-- the div/fmod chain computes the Kronecker entry — generalised over out-of-range `i, j` (it only sees them modulo the size) -/
theorem kron_go (fs : List Factor) : ∀ i j, 0 < prodNat (rowsOf fs) → 0 < prodNat (colsOf fs) →
    mulRev (kronEntries fs (kronIdxGo (prodNat (rowsOf fs)) (rowsOf fs) i) (kronIdxGo (prodNat (colsOf fs)) (colsOf fs) j))
      = kronSpec fs (i % prodNat (rowsOf fs)) (j % prodNat (colsOf fs)) := by
  induction fs with
  | nil => intro i j _ _; simp [kronEntries, kronSpec, mulRev, rowsOf, colsOf, kronIdxGo]
  | cons f t ih =>
    intro i j hr hc
    obtain ⟨A, n, m⟩ := f
    have hr' : rowsOf ((A, n, m) :: t) = n :: rowsOf t := rfl
    have hc' : colsOf ((A, n, m) :: t) = m :: colsOf t := rfl
    rw [hr'] at hr; rw [hc'] at hc; rw [hr', hc']
    rw [prodNat_cons] at hr hc
    have hn : 0 < n := Nat.pos_of_ne_zero (by intro h0; simp [h0] at hr)
    have hm : 0 < m := Nat.pos_of_ne_zero (by intro h0; simp [h0] at hc)
    have hT : 0 < prodNat (rowsOf t) := Nat.pos_of_ne_zero (by intro h0; simp [h0] at hr)
    have hU : 0 < prodNat (colsOf t) := Nat.pos_of_ne_zero (by intro h0; simp [h0] at hc)
    rw [kronIdxGo_cons n _ i hn, kronIdxGo_cons m _ j hm]
    simp only [kronEntries, kronSpec]
    rw [mulRev_cons, ih i j hT hU, prodNat_cons, prodNat_cons]
    rw [Nat.mod_mul_left_div_self, Nat.mod_mul_left_div_self, Nat.mod_mul_left_mod, Nat.mod_mul_left_mod]
    exact Int.mul_comm _ _

end LinOp.C03
