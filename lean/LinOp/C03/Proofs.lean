import LinOp.C03.Model
/-! Helper lemmas for C03 (core Lean only). -/
namespace LinOp.C03

/-! ### the `_compute_getitem_size` pass -/

def kinds (l : List (Nat × Item)) : List K := l.map (·.2.kind)

@[simp] theorem kinds_nil : kinds [] = [] := rfl
@[simp] theorem kinds_int (n i r) : kinds ((n, Item.int i) :: r) = K.I :: kinds r := rfl
@[simp] theorem kinds_slice (n a b c r) : kinds ((n, Item.slice a b c) :: r) = K.S :: kinds r := rfl
@[simp] theorem kinds_ell (n r) : kinds ((n, Item.ellipsis) :: r) = K.S :: kinds r := rfl
@[simp] theorem kinds_tensor (n sh vs r) : kinds ((n, Item.tensor sh vs) :: r) = K.T :: kinds r := rfl

def run (st : St) (l : List (Nat × Item)) : St := l.foldl stepSize st

@[simp] theorem run_nil (st : St) : run st [] = st := rfl
theorem run_cons (st : St) (x) (l) : run st (x :: l) = run (stepSize st x) l := rfl

@[simp] theorem step_int (st : St) (n i) : stepSize st (n, Item.int i) = st := rfl
@[simp] theorem step_slice (st : St) (n a b c) : stepSize st (n, Item.slice a b c) =
    { st with final := st.final ++ [sliceLen n a b c], sliceAfter := st.sliceAfter || st.tidx.isSome } := rfl
@[simp] theorem step_ell (st : St) (n) : stepSize st (n, Item.ellipsis) =
    { st with final := st.final ++ [n], sliceAfter := st.sliceAfter || st.tidx.isSome } := rfl
theorem step_tensor_none (st : St) (n sh vs) (h : st.tidx = none) : stepSize st (n, Item.tensor sh vs) =
    { st with tshape := sh, tidx := some st.final.length } := by simp [stepSize, h]
theorem step_tensor_some (st : St) (n sh vs k) (h : st.tidx = some k) : stepSize st (n, Item.tensor sh vs) =
    { st with tshape := bc st.tshape sh, tidx := if st.sliceAfter then some 0 else some k } := by simp [stepSize, h]

theorem run_final (l : List (Nat × Item)) : ∀ st, (run st l).final = st.final ++ sliceLens l := by
  induction l with
  | nil => intro st; simp [sliceLens]
  | cons x r ih =>
    intro st
    obtain ⟨n, it⟩ := x
    rw [run_cons]
    cases it with
    | int i => simp [ih, sliceLens]
    | slice a b c => simp [ih, sliceLens]
    | ellipsis => simp [ih, sliceLens]
    | tensor sh vs =>
      cases h : st.tidx with
      | none => rw [step_tensor_none _ _ _ _ h]; simp [ih, sliceLens]
      | some k => rw [step_tensor_some _ _ _ _ k h]; simp [ih, sliceLens]

theorem run_tshape_some (l : List (Nat × Item)) : ∀ st k, st.tidx = some k →
    (run st l).tshape = (tensorShapes l).foldl bc st.tshape := by
  induction l with
  | nil => intro st k h; simp [tensorShapes]
  | cons x r ih =>
    intro st k h
    obtain ⟨n, it⟩ := x
    rw [run_cons]
    cases it with
    | int i => simpa [tensorShapes] using ih st k h
    | slice a b c => rw [step_slice]; simpa [tensorShapes] using ih (St.mk (st.final ++ [sliceLen n a b c]) st.tidx st.tshape (st.sliceAfter || st.tidx.isSome)) k h
    | ellipsis => rw [step_ell]; simpa [tensorShapes] using ih (St.mk (st.final ++ [n]) st.tidx st.tshape (st.sliceAfter || st.tidx.isSome)) k h
    | tensor sh vs =>
      rw [step_tensor_some _ _ _ _ k h]
      have := ih { st with tshape := bc st.tshape sh, tidx := if st.sliceAfter then some 0 else some k }
        (if st.sliceAfter then 0 else k) (by cases st.sliceAfter <;> simp)
      simpa [tensorShapes] using this

/-- phase 2/3: a slice has been seen after the first tensor -/
theorem run_tidx_after (l : List (Nat × Item)) : ∀ st k, st.tidx = some k → st.sliceAfter = true →
    (run st l).tidx = some (if hasT (kinds l) then 0 else k) := by
  induction l with
  | nil => intro st k h _; simp [hasT, h]
  | cons x r ih =>
    intro st k h hs
    obtain ⟨n, it⟩ := x
    rw [run_cons]
    cases it with
    | int i => simpa [hasT] using ih st k h hs
    | slice a b c => rw [step_slice]; simpa [hasT] using ih (St.mk (st.final ++ [sliceLen n a b c]) st.tidx st.tshape (st.sliceAfter || st.tidx.isSome)) k h (by simp [hs])
    | ellipsis => rw [step_ell]; simpa [hasT] using ih (St.mk (st.final ++ [n]) st.tidx st.tshape (st.sliceAfter || st.tidx.isSome)) k h (by simp [hs])
    | tensor sh vs =>
      rw [step_tensor_some _ _ _ _ k h]
      have := ih { st with tshape := bc st.tshape sh, tidx := if st.sliceAfter then some 0 else some k } 0 (by simp [hs]) hs
      simp only [kinds_tensor, hasT, if_true]
      rw [this]; simp

/-- phase 1: inside / after the first block of tensors, no slice since -/
theorem run_tidx_block (l : List (Nat × Item)) : ∀ st k, st.tidx = some k → st.sliceAfter = false →
    (run st l).tidx = some (if hasST (kinds l) then 0 else k) := by
  induction l with
  | nil => intro st k h _; simp [hasST, h]
  | cons x r ih =>
    intro st k h hs
    obtain ⟨n, it⟩ := x
    rw [run_cons]
    cases it with
    | int i => simpa [hasST] using ih st k h hs
    | slice a b c =>
      rw [step_slice]
      simpa [hasST] using run_tidx_after r (St.mk (st.final ++ [sliceLen n a b c]) st.tidx st.tshape (st.sliceAfter || st.tidx.isSome)) k h (by simp [h])
    | ellipsis =>
      rw [step_ell]
      simpa [hasST] using run_tidx_after r (St.mk (st.final ++ [n]) st.tidx st.tshape (st.sliceAfter || st.tidx.isSome)) k h (by simp [h])
    | tensor sh vs =>
      rw [step_tensor_some _ _ _ _ k h]
      have := ih { st with tshape := bc st.tshape sh, tidx := if st.sliceAfter then some 0 else some k } k (by simp [hs]) hs
      simpa [hasST] using this

/-- phase 0: no tensor seen yet -/
theorem run_tidx_none (l : List (Nat × Item)) : ∀ st, st.tidx = none → st.sliceAfter = false →
    (run st l).tidx = if hasT (kinds l) then some (if hasTST (kinds l) then 0 else st.final.length + slicesBeforeT (kinds l)) else none := by
  induction l with
  | nil => intro st h _; simp [hasT, h]
  | cons x r ih =>
    intro st h hsa
    obtain ⟨n, it⟩ := x
    rw [run_cons]
    cases it with
    | int i => simpa [hasT, hasTST, slicesBeforeT] using ih st h hsa
    | slice a b c =>
      rw [step_slice]
      have := ih { st with final := st.final ++ [sliceLen n a b c], sliceAfter := st.sliceAfter || st.tidx.isSome } h (by simp [h, hsa])
      rw [this]
      simp only [kinds_slice, hasT, hasTST, slicesBeforeT, List.length_append, List.length_cons, List.length_nil]
      by_cases h1 : hasT (kinds r) = true <;> by_cases h2 : hasTST (kinds r) = true <;> simp [h1, h2] <;> omega
    | ellipsis =>
      rw [step_ell]
      have := ih { st with final := st.final ++ [n], sliceAfter := st.sliceAfter || st.tidx.isSome } h (by simp [h, hsa])
      rw [this]
      simp only [kinds_ell, hasT, hasTST, slicesBeforeT, List.length_append, List.length_cons, List.length_nil]
      by_cases h1 : hasT (kinds r) = true <;> by_cases h2 : hasTST (kinds r) = true <;> simp [h1, h2] <;> omega
    | tensor sh vs =>
      rw [step_tensor_none _ _ _ _ h]
      have := run_tidx_block r { st with tshape := sh, tidx := some st.final.length } st.final.length rfl hsa
      simpa [hasT, hasTST, slicesBeforeT] using this

theorem run_tshape_none (l : List (Nat × Item)) : ∀ st, st.tidx = none →
    (run st l).tshape = if hasT (kinds l) then bcAll (tensorShapes l) else st.tshape := by
  induction l with
  | nil => intro st h; simp [hasT]
  | cons x r ih =>
    intro st h
    obtain ⟨n, it⟩ := x
    rw [run_cons]
    cases it with
    | int i => simpa [hasT, tensorShapes] using ih st h
    | slice a b c => rw [step_slice]; simpa [hasT, tensorShapes] using ih (St.mk (st.final ++ [sliceLen n a b c]) st.tidx st.tshape (st.sliceAfter || st.tidx.isSome)) h
    | ellipsis => rw [step_ell]; simpa [hasT, tensorShapes] using ih (St.mk (st.final ++ [n]) st.tidx st.tshape (st.sliceAfter || st.tidx.isSome)) h
    | tensor sh vs =>
      rw [step_tensor_none _ _ _ _ h]
      have := run_tshape_some r { st with tshape := sh, tidx := some st.final.length } st.final.length rfl
      simpa [hasT, tensorShapes, bcAll] using this

theorem hasT_iff_tensorShapes (l : List (Nat × Item)) : hasT (kinds l) = !(tensorShapes l).isEmpty := by
  induction l with
  | nil => rfl
  | cons x r ih =>
    obtain ⟨n, it⟩ := x
    cases it <;> simp [hasT, tensorShapes, ih]

/-- block-diagonal matrix with blocks of size `m × n`, defined by recursion over the list of blocks -/
def blockDiagSpec (m n : Nat) : List (Nat → Nat → Int) → Nat → Nat → Int
  | [], _, _ => 0
  | B :: r, i, j =>
    if i < m ∧ j < n then B i j
    else if m ≤ i ∧ n ≤ j then blockDiagSpec m n r (i - m) (j - n) else 0

/-- Kronecker product of a list of factors (entry functions with their sizes), by recursion:
`(A ⊗ rest)[i, j] = A[i / R, j / C] * rest[i % R, j % C]`. -/
def kronSpec : List ((Nat → Nat → Int) × Nat × Nat) → Nat → Nat → Int
  | [], _, _ => 1
  | (A, _, _) :: r, i, j =>
    let R := (r.map (·.2.1)).foldl (· * ·) 1
    let C := (r.map (·.2.2)).foldl (· * ·) 1
    A (i / R) (j / C) * kronSpec r (i % R) (j % C)

/-- what `_get_indices` of the Kronecker operator multiplies together: one entry per factor, at the div/fmod indices -/
def kronModel (fs : List ((Nat → Nat → Int) × Nat × Nat)) (i j : Nat) : Int :=
  let ri := kronIdx (fs.map (·.2.1)) i
  let ci := kronIdx (fs.map (·.2.2)) j
  ((fs.zip (ri.zip ci)).map fun (f, rc) => f.1 rc.1 rc.2).foldl (· * ·) 1

end LinOp.C03
