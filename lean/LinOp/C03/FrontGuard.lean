import LinOp.C03.Front
/-!
C03 — the index-count guard of `LinearOperator.__getitem__` (/repo 716435a), core Lean, executable:

    index = index + tuple(_noop_index for _ in range(ndimension - len(index)))
    if len(index) > ndimension: raise IndexError("too many indices …")

After the ellipsis fill (`num_to_fill_in = ndimension - (len(index) - 1)`, a negative count fills nothing) and the padding, the
tuple is longer than `ndimension` iff it had one ellipsis and more than `ndimension` other items, or no ellipsis and more than
`ndimension` items.
-/
namespace LinOp.C03

/-- `len(index) > ndimension` after ellipsis fill and padding (index tuples with at most one ellipsis) -/
def tooManyIndices (d : Nat) (idx : List Item) : Bool :=
  if (idx.filter isEll).length = 1 then decide (idx.length - 1 > d) else decide (idx.length > d)

/-- the previous code (before 716435a) had no guard: `zip(self.shape, index)` silently dropped the surplus items -/
def previousDroppedSurplus (d : Nat) (idx : List Item) : List Item := idx.take d

inductive FrontOut where
  | tooMany                                   -- IndexError("too many indices …")
  | notModelled                               -- range-check IndexError or the `_getitem` (slice) path
  | ok (sh : List Nat) (vals : List Int)
  deriving DecidableEq, Repr

/-- `op[idx]` with the index-count guard in front of the tensor-index front end -/
def frontEndG (op : Opv) (bdims : List Nat) (idx : List Item) : FrontOut :=
  if tooManyIndices (bdims.length + 2) idx then .tooMany
  else match frontEnd op bdims idx with
    | some (sh, v) => .ok sh v
    | none => .notModelled

end LinOp.C03
