import LinOp.C03.Ops
import Mathlib.Tactic.Ring
/-! Per-class refinement lemmas for the operator values of `LinOp/C03/Ops.lean`. -/
namespace LinOp.C03

/-- `_get_indices` reads the dense value at every in-range entry, and (square operators) `_diagonal` is the dense main diagonal -/
def Refines (op : Opv) : Prop :=
  (∀ b i j, i < op.R → j < op.C → op.gi b i j = op.den b i j) ∧
  (op.R = op.C → ∀ b k, k < op.R → op.dg b k = op.den b k k)

/-! ### sums -/

theorem sumTo_congr (n : Nat) (f g : Nat → Int) (h : ∀ k, k < n → f k = g k) : sumTo n f = sumTo n g := by
  induction n with
  | zero => rfl
  | succ n ih => simp only [sumTo]; rw [ih (fun k hk => h k (by omega)), h n (by omega)]

theorem sumTo_zero (n : Nat) (f : Nat → Int) (h : ∀ k, k < n → f k = 0) : sumTo n f = 0 := by
  induction n with
  | zero => rfl
  | succ n ih => simp only [sumTo]; rw [ih (fun k hk => h k (by omega)), h n (by omega)]; rfl

theorem sumTo_single (n q : Nat) (f : Nat → Int) (hq : q < n) (h : ∀ k, k < n → k ≠ q → f k = 0) :
    sumTo n f = f q := by
  induction n with
  | zero => omega
  | succ n ih =>
    simp only [sumTo]
    by_cases hqn : q = n
    · subst hqn
      rw [sumTo_zero q f (fun k hk => h k (by omega) (by omega))]; simp
    · rw [ih (by omega) (fun k hk hne => h k (by omega) hne), h n (by omega) (by omega)]; simp

theorem listSum_congr {α : Type} (l : List α) (f g : α → Int) (h : ∀ x ∈ l, f x = g x) :
    (l.map f).sum = (l.map g).sum := by
  rw [List.map_congr_left h]

/-! ### Toeplitz, BlockDiag (index level; the property theorems `toeplitz_entry`, `blockDiag_entry` restate these) -/

theorem toeplitz_entry' (n i j : Nat) (hi : i < n) (hj : j < n) :
    toepIdx n i j = ((i : Int) - j).natAbs ∧ toepIdx n i j < n := by
  have : fmod ((i : Int) - j) n = (i : Int) - j := by
    unfold fmod
    by_cases h : (j : Int) ≤ i
    · exact Int.tmod_eq_of_lt (by omega) (by omega)
    · have h1 : (i : Int) - j = -((j : Int) - i) := by omega
      rw [h1, Int.neg_tmod, Int.tmod_eq_of_lt (by omega) (by omega)]
  unfold toepIdx; rw [this]; omega

theorem blockDiag_entry' (m n : Nat) (hm : 0 < m) (hn : 0 < n) (Bs : List (Nat → Nat → Int)) :
    ∀ i j, i < m * Bs.length → j < n * Bs.length →
      (if (blockDiagIdx m n i j).2.2.2 then
         (Bs.getD (blockDiagIdx m n i j).1 (fun _ _ => 0)) (blockDiagIdx m n i j).2.1 (blockDiagIdx m n i j).2.2.1
       else 0) = blockDiagSpec m n Bs i j := by
  simp only [blockDiagIdx]
  induction Bs with
  | nil => intro i j hi; simp at hi
  | cons B rest ih =>
    intro i j hi hj
    simp only [blockDiagSpec]
    by_cases h1 : i < m
    · by_cases h2 : j < n
      · simp [h1, h2, Nat.div_eq_of_lt, Nat.mod_eq_of_lt]
      · have : 0 < j / n := Nat.div_pos (by omega) hn
        have hne : ¬ (0 = j / n) := by omega
        have hc : ¬ (m ≤ i ∧ n ≤ j) := by omega
        simp [h1, h2, Nat.div_eq_of_lt h1, hne, hc]
    · have hi' : m ≤ i := by omega
      by_cases h2 : j < n
      · have : 0 < i / m := Nat.div_pos hi' hm
        have hne : ¬ (i / m = 0) := by omega
        have hc : ¬ (m ≤ i ∧ n ≤ j) := by omega
        simp [h1, h2, Nat.div_eq_of_lt h2, hne, hc]
      · have hj' : n ≤ j := by omega
        have e1 : i / m = (i - m) / m + 1 := by
          conv => lhs; rw [show i = (i - m) + m by omega]
          exact Nat.add_div_right _ hm
        have e2 : j / n = (j - n) / n + 1 := by
          conv => lhs; rw [show j = (j - n) + n by omega]
          exact Nat.add_div_right _ hn
        have e3 : i % m = (i - m) % m := by
          conv => lhs; rw [show i = (i - m) + m by omega]
          exact Nat.add_mod_right _ _
        have e4 : j % n = (j - n) % n := by
          conv => lhs; rw [show j = (j - n) + n by omega]
          exact Nat.add_mod_right _ _
        have hi2 : i - m < m * rest.length := by
          simp only [List.length_cons, Nat.mul_succ] at hi; omega
        have hj2 : j - n < n * rest.length := by
          simp only [List.length_cons, Nat.mul_succ] at hj; omega
        have := ih (i - m) (j - n) hi2 hj2
        have hc : ¬ (i < m ∧ j < n) := by omega
        simp only [hc, if_false, hi', hj', and_self, if_true]
        rw [← this]
        simp only [e1, e2, e3, e4, List.getD_cons_succ]
        simp

/-! ### leaves -/

theorem refines_dense (R C : Nat) (f : List Nat → Nat → Nat → Int) : Refines (Opv.dense R C f) :=
  ⟨fun _ _ _ _ _ => rfl, fun _ _ _ _ => rfl⟩

theorem refines_diag (n : Nat) (d : List Nat → Nat → Int) : Refines (Opv.diag n d) := by
  refine ⟨fun b i j _ _ => ?_, fun _ b k _ => ?_⟩
  · simp only [Opv.diag]; by_cases hij : i = j <;> simp [hij]
  · simp [Opv.diag]

theorem refines_zero (R C : Nat) : Refines (Opv.zero R C) := ⟨fun _ _ _ _ _ => rfl, fun _ _ _ _ => rfl⟩

theorem refines_toeplitz (n : Nat) (col : List Nat → Nat → Int) : Refines (Opv.toeplitz n col) := by
  refine ⟨fun b i j hi hj => ?_, fun _ b k _ => ?_⟩
  · simp only [Opv.toeplitz] at hi hj ⊢; rw [(toeplitz_entry' n i j hi hj).1]
  · simp [Opv.toeplitz]

/-! ### Kronecker -/

theorem rowsOf_facGi (fs : List Opv) (b) : rowsOf (Opv.facGi fs b) = fs.map (·.R) := by
  simp [rowsOf, Opv.facGi, Function.comp_def]
theorem colsOf_facGi (fs : List Opv) (b) : colsOf (Opv.facGi fs b) = fs.map (·.C) := by
  simp [colsOf, Opv.facGi, Function.comp_def]
theorem rowsOf_facDen (fs : List Opv) (b) : rowsOf (Opv.facDen fs b) = fs.map (·.R) := by
  simp [rowsOf, Opv.facDen, Function.comp_def]
theorem colsOf_facDen (fs : List Opv) (b) : colsOf (Opv.facDen fs b) = fs.map (·.C) := by
  simp [colsOf, Opv.facDen, Function.comp_def]

theorem kronSpec_congr (b : List Nat) (fs : List Opv)
    (h : ∀ o ∈ fs, ∀ i j, i < o.R → j < o.C → o.gi b i j = o.den b i j) :
    ∀ i j, i < prodNat (fs.map (·.R)) → j < prodNat (fs.map (·.C)) →
      kronSpec (Opv.facGi fs b) i j = kronSpec (Opv.facDen fs b) i j := by
  induction fs with
  | nil => intro i j _ _; rfl
  | cons o t ih =>
    intro i j hi hj
    have e1 : Opv.facGi (o :: t) b = (o.gi b, o.R, o.C) :: Opv.facGi t b := rfl
    have e2 : Opv.facDen (o :: t) b = (o.den b, o.R, o.C) :: Opv.facDen t b := rfl
    rw [e1, e2]
    simp only [kronSpec, rowsOf_facGi, colsOf_facGi, rowsOf_facDen, colsOf_facDen]
    simp only [List.map_cons, prodNat_cons] at hi hj
    have hP : 0 < prodNat (t.map (·.R)) := Nat.pos_of_ne_zero (by intro h0; simp [h0] at hi)
    have hQ : 0 < prodNat (t.map (·.C)) := Nat.pos_of_ne_zero (by intro h0; simp [h0] at hj)
    have hi1 : i / prodNat (t.map (·.R)) < o.R := Nat.div_lt_of_lt_mul (by rw [Nat.mul_comm]; exact hi)
    have hj1 : j / prodNat (t.map (·.C)) < o.C := Nat.div_lt_of_lt_mul (by rw [Nat.mul_comm]; exact hj)
    rw [h o (List.mem_cons_self ..) _ _ hi1 hj1,
      ih (fun o' ho' => h o' (List.mem_cons_of_mem _ ho')) _ _ (Nat.mod_lt _ hP) (Nat.mod_lt _ hQ)]

theorem kronModel_eq_spec (fs : List Factor) (i j : Nat)
    (hi : i < prodNat (rowsOf fs)) (hj : j < prodNat (colsOf fs)) : kronModel fs i j = kronSpec fs i j := by
  have h := kron_go fs i j (by omega) (by omega)
  rw [Nat.mod_eq_of_lt hi, Nat.mod_eq_of_lt hj] at h
  exact h

theorem kronDiag_eq (b : List Nat) (fs : List Opv) (hsq : ∀ o ∈ fs, o.R = o.C)
    (h : ∀ o ∈ fs, ∀ q, q < o.R → o.dg b q = o.den b q q) :
    ∀ k, k < prodNat (fs.map (·.R)) →
      Opv.kronDiag (fs.map fun o => (o.dg b, o.R)) k = kronSpec (Opv.facDen fs b) k k := by
  induction fs with
  | nil => intro k _; rfl
  | cons o t ih =>
    intro k hk
    have e2 : Opv.facDen (o :: t) b = (o.den b, o.R, o.C) :: Opv.facDen t b := rfl
    have hRC : t.map (·.C) = t.map (·.R) :=
      List.map_congr_left (fun o' ho' => (hsq o' (List.mem_cons_of_mem _ ho')).symm)
    rw [e2]
    simp only [List.map_cons, Opv.kronDiag, kronSpec, rowsOf_facDen, colsOf_facDen, List.map_map, hRC]
    have hm : ((fun (x : (Nat → Int) × Nat) => x.2) ∘ fun (o : Opv) => (o.dg b, o.R)) = fun o => o.R := rfl
    rw [hm]
    simp only [List.map_cons, prodNat_cons] at hk
    have hP : 0 < prodNat (t.map (·.R)) := Nat.pos_of_ne_zero (by intro h0; simp [h0] at hk)
    have hk1 : k / prodNat (t.map (·.R)) < o.R := Nat.div_lt_of_lt_mul (by rw [Nat.mul_comm]; exact hk)
    rw [h o (List.mem_cons_self ..) _ hk1,
      ih (fun o' ho' => hsq o' (List.mem_cons_of_mem _ ho')) (fun o' ho' => h o' (List.mem_cons_of_mem _ ho')) _
        (Nat.mod_lt _ hP)]

theorem refines_kron (fs : List Opv) (h : ∀ o ∈ fs, Refines o) : Refines (Opv.kron fs) := by
  have hgi : ∀ b i j, i < (Opv.kron fs).R → j < (Opv.kron fs).C → (Opv.kron fs).gi b i j = (Opv.kron fs).den b i j := by
    intro b i j hi hj
    simp only [Opv.kron] at hi hj ⊢
    rw [kronModel_eq_spec _ _ _ (by rw [rowsOf_facGi]; exact hi) (by rw [colsOf_facGi]; exact hj)]
    exact kronSpec_congr b fs (fun o ho => (h o ho).1 b) i j hi hj
  refine ⟨hgi, fun hsq b k hk => ?_⟩
  by_cases hall : fs.all (fun o => o.R == o.C) = true
  · have hsq' : ∀ o ∈ fs, o.R = o.C := by
      intro o ho
      have := List.all_eq_true.mp hall o ho
      simpa using this
    simp only [Opv.kron, hall, if_true] at hk ⊢
    exact kronDiag_eq b fs hsq' (fun o ho q hq => (h o ho).2 (hsq' o ho) b q hq) k hk
  · have := hgi b k k hk (hsq ▸ hk)
    simp only [Opv.kron, hall] at this ⊢
    simpa using this

/-! ### blocks -/

theorem getD_range_map {α : Type} (k blk : Nat) (f : Nat → α) (d : α) (h : blk < k) :
    ((List.range k).map f).getD blk d = f blk := by
  simp [List.getD_eq_getElem?_getD, h]

theorem refines_blockDiag (k : Nat) (base : Opv) (h : Refines base) : Refines (Opv.blockDiag k base) := by
  have key : ∀ b i j, i < base.R * k → j < base.C * k →
      (Opv.blockDiag k base).gi b i j = (Opv.blockDiag k base).den b i j := by
    intro b i j hi hj
    have hm : 0 < base.R := Nat.pos_of_ne_zero (by intro h0; simp [h0] at hi)
    have hn : 0 < base.C := Nat.pos_of_ne_zero (by intro h0; simp [h0] at hj)
    have hblk : i / base.R < k := Nat.div_lt_of_lt_mul hi
    have := blockDiag_entry' base.R base.C hm hn ((List.range k).map fun blk => base.den (b ++ [blk])) i j
      (by simpa using hi) (by simpa using hj)
    simp only [Opv.blockDiag]
    rw [← this]
    simp only [blockDiagIdx] at *
    rw [getD_range_map _ _ _ _ hblk, h.1 _ _ _ (Nat.mod_lt _ hm) (Nat.mod_lt _ hn)]
    by_cases hon : (i / base.R == j / base.C) = true <;> simp [hon]
  refine ⟨key, fun hsq b q hq => ?_⟩
  simp only [Opv.blockDiag] at hsq hq
  have hk : 0 < k := Nat.pos_of_ne_zero (by intro h0; simp [h0] at hq)
  have hRC : base.R = base.C := Nat.eq_of_mul_eq_mul_right hk hsq
  have hm : 0 < base.R := Nat.pos_of_ne_zero (by intro h0; simp [h0] at hq)
  rw [← key b q q hq (by rw [← hsq]; exact hq)]
  simp only [Opv.blockDiag, blockDiagIdx, ← hRC, beq_self_eq_true, if_true, Int.mul_one]
  rw [h.1 _ _ _ (Nat.mod_lt _ hm) (by rw [← hRC]; exact Nat.mod_lt _ hm)]
  exact h.2 hRC _ _ (Nat.mod_lt _ hm)

theorem refines_blockInter (k : Nat) (base : Opv) (h : Refines base) : Refines (Opv.blockInter k base) := by
  have key : ∀ b i j, i < base.R * k → j < base.C * k →
      (Opv.blockInter k base).gi b i j = (Opv.blockInter k base).den b i j := by
    intro b i j hi hj
    have h1 : i / k < base.R := Nat.div_lt_of_lt_mul (by rw [Nat.mul_comm]; exact hi)
    have h2 : j / k < base.C := Nat.div_lt_of_lt_mul (by rw [Nat.mul_comm]; exact hj)
    simp only [Opv.blockInter, blockInterIdx]
    rw [h.1 _ _ _ h1 h2]
    by_cases hon : i % k = j % k <;> simp [hon]
  refine ⟨key, fun hsq b q hq => ?_⟩
  simp only [Opv.blockInter] at hsq hq
  have hk : 0 < k := Nat.pos_of_ne_zero (by intro h0; simp [h0] at hq)
  have hRC : base.R = base.C := Nat.eq_of_mul_eq_mul_right hk hsq
  have h1 : q / k < base.R := Nat.div_lt_of_lt_mul (by rw [Nat.mul_comm]; exact hq)
  simp only [Opv.blockInter, if_true]
  exact h.2 hRC _ _ h1

theorem refines_sumBatch (k : Nat) (base : Opv) (h : Refines base) : Refines (Opv.sumBatch k base) := by
  refine ⟨fun b i j hi hj => ?_, fun hsq b q hq => ?_⟩
  · exact sumTo_congr _ _ _ (fun s _ => h.1 _ _ _ hi hj)
  · exact sumTo_congr _ _ _ (fun s _ => h.2 hsq _ _ hq)

theorem refines_batchRepeat (sizes : List Nat) (base : Opv) (h : Refines base) :
    Refines (Opv.batchRepeat sizes base) := by
  refine ⟨fun b i j hi hj => h.1 _ _ _ hi hj, fun hsq b q hq => ?_⟩
  exact h.1 _ _ _ hq (by simp only [Opv.batchRepeat] at hsq hq ⊢; omega)

/-! ### concatenation -/

theorem catGet_eq_spec (ps : List (Nat × (Nat → Int))) : ∀ x, Opv.catGet ps x = Opv.catSpecG ps x := by
  induction ps with
  | nil => intro x; simp [Opv.catGet, Opv.catSpecG, catLocate]
  | cons p rest ih =>
    intro x
    obtain ⟨s, f⟩ := p
    simp only [Opv.catGet, List.map_cons, catLocate, Opv.catSpecG]
    by_cases hx : x < s
    · simp [hx]
    · simp only [hx, if_false]
      rw [← ih (x - s)]
      simp [Opv.catGet]

theorem catSpecG_congr {α : Type} (ps : List α) (size : α → Nat) (F G : α → Nat → Int)
    (h : ∀ p ∈ ps, ∀ l, l < size p → F p l = G p l) :
    ∀ x, Opv.catSpecG (ps.map fun p => (size p, F p)) x = Opv.catSpecG (ps.map fun p => (size p, G p)) x := by
  induction ps with
  | nil => intro x; rfl
  | cons p rest ih =>
    intro x
    simp only [List.map_cons, Opv.catSpecG]
    by_cases hx : x < size p
    · simp [hx, h p (List.mem_cons_self ..) x hx]
    · simp only [hx, if_false]
      exact ih (fun p' hp' => h p' (List.mem_cons_of_mem _ hp')) _

theorem refines_catRows (C : Nat) (ps : List Opv) (h : ∀ p ∈ ps, Refines p ∧ p.C = C) :
    Refines (Opv.catRows C ps) := by
  have key : ∀ b i j, j < C → (Opv.catRows C ps).gi b i j = (Opv.catRows C ps).den b i j := by
    intro b i j hj
    simp only [Opv.catRows]
    rw [catGet_eq_spec]
    exact catSpecG_congr ps (·.R) (fun p l => p.gi b l j) (fun p l => p.den b l j)
      (fun p hp l hl => (h p hp).1.1 b l j hl (by rw [(h p hp).2]; exact hj)) i
  refine ⟨fun b i j _ hj => key b i j hj, fun hsq b q hq => ?_⟩
  exact key b q q (by simp only [Opv.catRows] at hsq hq; omega)

theorem refines_catCols (R : Nat) (ps : List Opv) (h : ∀ p ∈ ps, Refines p ∧ p.R = R) :
    Refines (Opv.catCols R ps) := by
  have key : ∀ b i j, i < R → (Opv.catCols R ps).gi b i j = (Opv.catCols R ps).den b i j := by
    intro b i j hi
    simp only [Opv.catCols]
    rw [catGet_eq_spec]
    exact catSpecG_congr ps (·.C) (fun p l => p.gi b i l) (fun p l => p.den b i l)
      (fun p hp l hl => (h p hp).1.1 b i l (by rw [(h p hp).2]; exact hi) hl) j
  refine ⟨fun b i j hi _ => key b i j hi, fun hsq b q hq => ?_⟩
  exact key b q q hq

theorem refines_catBatch (R C pos : Nat) (ps : List (Nat × Opv)) (h : ∀ p ∈ ps, Refines p.2 ∧ p.2.R = R ∧ p.2.C = C) :
    Refines (Opv.catBatch R C pos ps) := by
  refine ⟨fun b i j hi hj => ?_, fun hsq b q hq => ?_⟩
  · simp only [Opv.catBatch] at hi hj ⊢
    rw [catGet_eq_spec]
    exact catSpecG_congr ps (·.1) (fun p l => p.2.gi (b.set pos l) i j) (fun p l => p.2.den (b.set pos l) i j)
      (fun p hp l _ => (h p hp).1.1 _ i j (by rw [(h p hp).2.1]; exact hi) (by rw [(h p hp).2.2]; exact hj)) _
  · simp only [Opv.catBatch] at hsq hq ⊢
    rw [catGet_eq_spec]
    exact catSpecG_congr ps (·.1) (fun p l => p.2.dg (b.set pos l) q) (fun p l => p.2.den (b.set pos l) q q)
      (fun p hp l _ => (h p hp).1.2 (by rw [(h p hp).2.1, (h p hp).2.2]; exact hsq) _ q
        (by rw [(h p hp).2.1]; exact hq)) _

/-! ### interpolation, roots, products, sums -/

theorem refines_interp (R C : Nat) (li ri : List Nat → Nat → List (Nat × Int)) (base : Opv) (h : Refines base)
    (hl : ∀ b i, i < R → ∀ p ∈ li b i, p.1 < base.R) (hr : ∀ b j, j < C → ∀ q ∈ ri b j, q.1 < base.C) :
    Refines (Opv.interp R C li ri base) := by
  have key : ∀ b i j, i < R → j < C → (Opv.interp R C li ri base).gi b i j = (Opv.interp R C li ri base).den b i j := by
    intro b i j hi hj
    simp only [Opv.interp]
    refine listSum_congr _ _ _ (fun p hp => listSum_congr _ _ _ (fun q hq => ?_))
    rw [h.1 b p.1 q.1 (hl b i hi p hp) (hr b j hj q hq)]
  refine ⟨key, fun hsq b q hq => ?_⟩
  exact key b q q hq (by simp only [Opv.interp] at hsq hq; omega)

theorem refines_tri (base : Opv) (h : Refines base) : Refines (Opv.tri base) := h

theorem refines_root (denseRoot : Bool) (rt : Opv) (h : Refines rt) : Refines (Opv.root denseRoot rt) := by
  have key : ∀ b i j, i < rt.R → j < rt.R → (Opv.root denseRoot rt).gi b i j = (Opv.root denseRoot rt).den b i j := by
    intro b i j hi hj
    exact sumTo_congr _ _ _ (fun k hk => by rw [h.1 b i k hi hk, h.1 b j k hj hk])
  refine ⟨key, fun _ b q hq => ?_⟩
  cases denseRoot
  · exact key b q q hq hq
  · rfl

theorem refines_matmul (mode : Nat) (A B : Opv) (hA : Refines A) (hB : Refines B) (hAB : A.C = B.R)
    (hd : mode = 1 → A.R = A.C ∧ B.R = B.C ∧
      ((∀ b i k, i ≠ k → A.den b i k = 0) ∨ (∀ b k j, k ≠ j → B.den b k j = 0))) :
    Refines (Opv.matmul mode A B) := by
  have key : ∀ b i j, i < A.R → j < B.C → (Opv.matmul mode A B).gi b i j = (Opv.matmul mode A B).den b i j := by
    intro b i j hi hj
    exact sumTo_congr _ _ _ (fun k hk => by rw [hA.1 b i k hi hk, hB.1 b k j (hAB ▸ hk) hj])
  refine ⟨key, fun hsq b q hq => ?_⟩
  simp only [Opv.matmul] at hsq hq
  by_cases h0 : mode = 0
  · simp [Opv.matmul, h0]
  · by_cases h1 : mode = 1
    · obtain ⟨hAs, hBs, hdiag⟩ := hd h1
      simp only [Opv.matmul, h1, if_true]
      have e : (sumTo A.C fun k => A.den b q k * B.den b k q) = A.den b q q * B.den b q q := by
        refine sumTo_single _ q _ (by omega) (fun k _ hne => ?_)
        rcases hdiag with hz | hz
        · rw [hz b q k (fun e => hne e.symm)]; simp
        · rw [hz b k q hne]; simp
      have hm : ¬ ((1 : Nat) = 0) := by omega
      simp only [hm, if_false]
      rw [e, hA.2 hAs b q hq, hB.2 hBs b q (by omega)]
    · have := key b q q hq (by omega)
      simp only [Opv.matmul, h0, h1, if_false] at this ⊢
      exact this

theorem refines_sum (R C : Nat) (ps : List Opv) (h : ∀ p ∈ ps, Refines p ∧ p.R = R ∧ p.C = C) :
    Refines (Opv.sum R C ps) := by
  refine ⟨fun b i j hi hj => ?_, fun hsq b q hq => ?_⟩
  · exact listSum_congr _ _ _ (fun p hp => (h p hp).1.1 b i j (by rw [(h p hp).2.1]; exact hi) (by rw [(h p hp).2.2]; exact hj))
  · exact listSum_congr _ _ _ (fun p hp => (h p hp).1.2 (by rw [(h p hp).2.1, (h p hp).2.2]; exact hsq) b q
      (by rw [(h p hp).2.1]; exact hq))

theorem refines_constMul (c : List Nat → Int) (base : Opv) (h : Refines base) : Refines (Opv.constMul c base) := by
  refine ⟨fun b i j hi hj => ?_, fun hsq b q hq => ?_⟩
  · simp only [Opv.constMul]; rw [h.1 b i j hi hj]
  · simp only [Opv.constMul]; rw [h.2 hsq b q hq]

theorem refines_mul (A B : Opv) (hA : Refines A) (hB : Refines B) (hR : B.R = A.R) (hC : B.C = A.C) :
    Refines (Opv.mul A B) := by
  refine ⟨fun b i j hi hj => ?_, fun hsq b q hq => ?_⟩
  · simp only [Opv.mul]; rw [hA.1 b i j hi hj, hB.1 b i j (hR ▸ hi) (hC ▸ hj)]
  · simp only [Opv.mul] at hsq hq ⊢; rw [hA.2 hsq b q hq, hB.2 (by omega) b q (by omega)]

theorem getD_mem_lt (l : List Nat) (n i : Nat) (h : ∀ x ∈ l, x < n) (hi : i < l.length) : l.getD i 0 < n := by
  have : l.getD i 0 = l[i] := by simp [List.getD_eq_getElem?_getD, hi]
  rw [this]; exact h _ (List.getElem_mem hi)

theorem refines_masked (rowMap colMap : List Nat) (base : Opv) (h : Refines base)
    (hr : ∀ x ∈ rowMap, x < base.R) (hc : ∀ x ∈ colMap, x < base.C)
    (hd : rowMap.length = colMap.length → rowMap = colMap ∧ base.R = base.C) :
    Refines (Opv.masked rowMap colMap base) := by
  refine ⟨fun b i j hi hj => ?_, fun hsq b q hq => ?_⟩
  · exact h.1 b _ _ (getD_mem_lt _ _ _ hr hi) (getD_mem_lt _ _ _ hc hj)
  · obtain ⟨he, hs⟩ := hd hsq
    simp only [Opv.masked] at hq ⊢
    rw [← he]
    exact h.2 hs b _ (getD_mem_lt _ _ _ hr hq)

theorem transPerm_arith (m i j : Nat) (hi : i < m * m) (hj : j < m * m) :
    ((i % m) * m + i / m = j) ↔ (i / m = j % m ∧ i % m = j / m) := by
  have hm : 0 < m := Nat.pos_of_ne_zero (by intro h0; simp [h0] at hi)
  have hc : i / m < m := Nat.div_lt_of_lt_mul hi
  constructor
  · intro h
    subst h
    constructor
    · rw [Nat.add_comm, Nat.add_mul_mod_self_right, Nat.mod_eq_of_lt hc]
    · rw [Nat.add_comm, Nat.add_mul_div_right _ _ hm, Nat.div_eq_of_lt hc, Nat.zero_add]
  · intro ⟨h1, h2⟩
    rw [h1, h2]
    have := Nat.div_add_mod j m
    rw [Nat.mul_comm] at this
    exact this

theorem refines_transPerm (m : Nat) : Refines (Opv.transPerm m) := by
  have key : ∀ b i j, i < m * m → j < m * m → (Opv.transPerm m).gi b i j = (Opv.transPerm m).den b i j := by
    intro b i j hi hj
    simp only [Opv.transPerm]
    have := transPerm_arith m i j hi hj
    by_cases h : (i % m) * m + i / m = j
    · have h' := this.mp h
      have hb : ((i % m) * m + i / m == j) = true := by simpa using h
      rw [if_pos hb, if_pos h']
    · have h' : ¬ (i / m = j % m ∧ i % m = j / m) := fun hh => h (this.mpr hh)
      have hb : ¬ (((i % m) * m + i / m == j) = true) := by simpa using h
      rw [if_neg hb, if_neg h']
  exact ⟨key, fun _ b q hq => key b q q hq hq⟩

theorem refines_fallback (R C : Nat) (den : List Nat → Nat → Nat → Int) : Refines (Opv.fallback R C den) := by
  have key : ∀ b i j, i < R → j < C → (Opv.fallback R C den).gi b i j = den b i j := by
    intro b i j hi hj
    simp only [Opv.fallback]
    rw [sumTo_single R i _ hi (fun k _ hne => by simp [hne])]
    rw [sumTo_single C j _ hj (fun k _ hne => by simp [hne])]
    simp
  exact ⟨key, fun hsq b q hq => key b q q hq (by simp only [Opv.fallback] at hsq hq; omega)⟩

/-! ### the operator type: everything built from the class constructors (with their well-formedness side conditions) -/

inductive Built : Opv → Prop
  | dense (R C f) : Built (Opv.dense R C f)
  | diag (n d) : Built (Opv.diag n d)
  | zero (R C) : Built (Opv.zero R C)
  | toeplitz (n col) : Built (Opv.toeplitz n col)
  | kron (fs : List Opv) : (∀ o ∈ fs, Built o) → Built (Opv.kron fs)
  | blockDiag (k base) : Built base → Built (Opv.blockDiag k base)
  | blockInter (k base) : Built base → Built (Opv.blockInter k base)
  | sumBatch (k base) : Built base → Built (Opv.sumBatch k base)
  | batchRepeat (sizes base) : Built base → Built (Opv.batchRepeat sizes base)
  | catRows (C) (ps : List Opv) : (∀ p ∈ ps, Built p) → (∀ p ∈ ps, p.C = C) → Built (Opv.catRows C ps)
  | catCols (R) (ps : List Opv) : (∀ p ∈ ps, Built p) → (∀ p ∈ ps, p.R = R) → Built (Opv.catCols R ps)
  | catBatch (R C pos) (ps : List (Nat × Opv)) : (∀ p ∈ ps, Built p.2) → (∀ p ∈ ps, p.2.R = R ∧ p.2.C = C) →
      Built (Opv.catBatch R C pos ps)
  | interp (R C li ri base) : Built base → (∀ b i, i < R → ∀ p ∈ li b i, p.1 < base.R) →
      (∀ b j, j < C → ∀ q ∈ ri b j, q.1 < base.C) → Built (Opv.interp R C li ri base)
  | tri (base) : Built base → Built (Opv.tri base)
  | root (denseRoot rt) : Built rt → Built (Opv.root denseRoot rt)
  | matmul (mode A B) : Built A → Built B → A.C = B.R →
      (mode = 1 → A.R = A.C ∧ B.R = B.C ∧
        ((∀ b i k, i ≠ k → A.den b i k = 0) ∨ (∀ b k j, k ≠ j → B.den b k j = 0))) → Built (Opv.matmul mode A B)
  | sum (R C) (ps : List Opv) : (∀ p ∈ ps, Built p) → (∀ p ∈ ps, p.R = R ∧ p.C = C) → Built (Opv.sum R C ps)
  | constMul (c base) : Built base → Built (Opv.constMul c base)
  | mul (A B) : Built A → Built B → B.R = A.R → B.C = A.C → Built (Opv.mul A B)
  | masked (rowMap colMap base) : Built base → (∀ x ∈ rowMap, x < base.R) → (∀ x ∈ colMap, x < base.C) →
      (rowMap.length = colMap.length → rowMap = colMap ∧ base.R = base.C) → Built (Opv.masked rowMap colMap base)
  | transPerm (m) : Built (Opv.transPerm m)
  | fallback (R C den) : Built (Opv.fallback R C den)

theorem built_refines (op : Opv) (h : Built op) : Refines op := by
  induction h with
  | dense R C f => exact refines_dense R C f
  | diag n d => exact refines_diag n d
  | zero R C => exact refines_zero R C
  | toeplitz n col => exact refines_toeplitz n col
  | kron fs _ ih => exact refines_kron fs ih
  | blockDiag k base _ ih => exact refines_blockDiag k base ih
  | blockInter k base _ ih => exact refines_blockInter k base ih
  | sumBatch k base _ ih => exact refines_sumBatch k base ih
  | batchRepeat sizes base _ ih => exact refines_batchRepeat sizes base ih
  | catRows C ps _ hC ih => exact refines_catRows C ps (fun p hp => ⟨ih p hp, hC p hp⟩)
  | catCols R ps _ hR ih => exact refines_catCols R ps (fun p hp => ⟨ih p hp, hR p hp⟩)
  | catBatch R C pos ps _ hRC ih => exact refines_catBatch R C pos ps (fun p hp => ⟨ih p hp, hRC p hp⟩)
  | interp R C li ri base _ hl hr ih => exact refines_interp R C li ri base ih hl hr
  | tri base _ ih => exact refines_tri base ih
  | root dr rt _ ih => exact refines_root dr rt ih
  | matmul mode A B _ _ hAB hd ihA ihB => exact refines_matmul mode A B ihA ihB hAB hd
  | sum R C ps _ hRC ih => exact refines_sum R C ps (fun p hp => ⟨ih p hp, hRC p hp⟩)
  | constMul c base _ ih => exact refines_constMul c base ih
  | mul A B _ _ hR hC ihA ihB => exact refines_mul A B ihA ihB hR hC
  | masked rowMap colMap base _ hr hc hd ih => exact refines_masked rowMap colMap base ih hr hc hd
  | transPerm m => exact refines_transPerm m
  | fallback R C den => exact refines_fallback R C den

end LinOp.C03
