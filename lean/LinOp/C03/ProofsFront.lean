import LinOp.C03.Front
import LinOp.C03.ProofsConvert
/-! `_normalize_negative_index` does not change what torch reads (helper lemmas for the front-end theorem). -/
namespace LinOp.C03

theorem wrap_wrap (n : Nat) (i : Int) : wrap n ((wrap n i : Nat) : Int) = wrap n i := by
  unfold wrap; split <;> split <;> omega

theorem wrap_zero (n : Nat) : wrap n 0 = 0 := by simp [wrap]

theorem tensorAt_map (n : Nat) (sh : List Nat) (vs : List Int) (tc : List Nat) :
    tensorAt sh (vs.map fun v => ((wrap n v : Nat) : Int)) tc = ((wrap n (tensorAt sh vs tc) : Nat) : Int) := by
  unfold tensorAt
  simp only [List.getD_eq_getElem?_getD, List.getElem?_map]
  cases vs[flatIndex sh ((List.zip sh (tc.drop (tc.length - sh.length))).map fun x => if x.1 = 1 then 0 else x.2)]? with
  | none => simp [wrap_zero]
  | some v => simp

theorem sliceLens_normalise (zi : List (Nat × Item)) : sliceLens (normalise zi) = sliceLens zi := by
  induction zi with
  | nil => rfl
  | cons x r ih =>
    obtain ⟨n, it⟩ := x
    cases it <;> simp_all [normalise, normItem, sliceLens]

theorem tensorShapes_normalise (zi : List (Nat × Item)) : tensorShapes (normalise zi) = tensorShapes zi := by
  induction zi with
  | nil => rfl
  | cons x r ih =>
    obtain ⟨n, it⟩ := x
    cases it <;> simp_all [normalise, normItem, tensorShapes]

theorem kinds_normalise (zi : List (Nat × Item)) : (normalise zi).map (·.2.kind) = zi.map (·.2.kind) := by
  induction zi with
  | nil => rfl
  | cons x r ih =>
    obtain ⟨n, it⟩ := x
    cases it <;> simp_all [normalise, normItem, Item.kind]

theorem specShape_normalise (zi : List (Nat × Item)) : specShape (normalise zi) = specShape zi := by
  unfold specShape
  simp only [sliceLens_normalise, tensorShapes_normalise, kinds_normalise]

theorem srcIndex_normalise (zi : List (Nat × Item)) : ∀ sc tc, srcIndex (normalise zi) sc tc = srcIndex zi sc tc := by
  induction zi with
  | nil => intro sc tc; rfl
  | cons x r ih =>
    intro sc tc
    obtain ⟨n, it⟩ := x
    have hn : normalise ((n, it) :: r) = (n, normItem n it) :: normalise r := rfl
    rw [hn]
    cases it with
    | int i => simp only [normItem, srcIndex, ih, wrap_wrap]
    | slice a b c => simp only [normItem, srcIndex, ih]
    | ellipsis => simp only [normItem, srcIndex, ih]
    | tensor sh vs => simp only [normItem, srcIndex, ih, tensorAt_map, wrap_wrap]

theorem specSrc_normalise (k : Nat) (zi : List (Nat × Item)) (r : List Nat) :
    specSrc k (normalise zi) r = specSrc k zi r := by
  unfold specSrc
  simp only [tensorShapes_normalise, kinds_normalise, srcIndex_normalise]

theorem inRange_wrap (n : Nat) (i : Int) (h : inRange n i = true) : inRange n ((wrap n i : Nat) : Int) = true := by
  simp only [inRange, decide_eq_true_eq] at h ⊢
  unfold wrap; split <;> omega

theorem valid_normalise (zi : List (Nat × Item)) (hv : ∀ x ∈ zi, itemValid x = true ∧ 0 < x.1) :
    ∀ x ∈ normalise zi, itemValid x = true ∧ 0 < x.1 := by
  intro x hx
  simp only [normalise, List.mem_map] at hx
  obtain ⟨y, hy, rfl⟩ := hx
  obtain ⟨n, it⟩ := y
  have := hv (n, it) hy
  refine ⟨?_, this.2⟩
  cases it with
  | int i => simpa [normItem, itemValid] using inRange_wrap n i (by simpa [itemValid] using this.1)
  | slice a b c => simpa [normItem] using this.1
  | ellipsis => simp [normItem, itemValid]
  | tensor sh vs =>
    have h1 := this.1
    simp only [itemValid, Bool.and_eq_true, List.all_eq_true] at h1 ⊢
    simp only [normItem, itemValid, Bool.and_eq_true, List.all_eq_true, List.length_map, List.mem_map]
    refine ⟨h1.1, ?_⟩
    rintro v ⟨w, hw, rfl⟩
    exact inRange_wrap n w (h1.2 w hw)

theorem normalise_length (zi : List (Nat × Item)) : (normalise zi).length = zi.length := by simp [normalise]

theorem normalise_getD_fst (zi : List (Nat × Item)) (i : Nat) :
    ((normalise zi).getD i (0, Item.ellipsis)).1 = (zi.getD i (0, Item.ellipsis)).1 := by
  simp only [normalise, List.getD_eq_getElem?_getD, List.getElem?_map]
  cases zi[i]? <;> rfl

end LinOp.C03
