import LinOp.C03.Ops
/-!
C03 — the `_getitem` (slice) path: models of the class-specific result-operator constructions (core Lean only, executable).

* `blockDiagAligned` / `blockInterAligned` : `BlockDiagLinearOperator._getitem_block_aligned` /
  `BlockInterleavedLinearOperator._getitem_block_aligned` — the decision "is the pair of step-free slices
  `row_start:row_end`, `col_start:col_end` aligned with the block structure" and the slices handed to the base operator.
* `Opv.sel` : the SPEC of a `_getitem` result: rows `rows`, columns `cols` (lists of source positions; for a slice
  `sliceIndices`, for an int `[wrap n i]` then squeezed, for a 1-D tensor its entries) and a map from the result batch
  index to the source batch index.
* `sumGetitem`, `constMulGetitem`, `matmulGetitem`, `triGetitem`, `mulGetitem`, `maskedGetitem` : what the `_getitem` overrides of
  Sum / ConstantMul / Matmul / Triangular build out of the results of the recursive `_getitem` calls on their components.
-/
namespace LinOp.C03

/-- `BlockDiagLinearOperator._getitem_block_aligned` for blocks of size `m × n`:
`None` unless all four bounds are multiples of the block size and the row and the column range select the same
blocks; otherwise the block slice `b0:b1` handed to `base._getitem(noop, noop, *batch, block_index)`. -/
def blockDiagAligned (m n rs re cs ce : Nat) : Option (Nat × Nat) :=
  if rs % m != 0 || re % m != 0 || cs % n != 0 || ce % n != 0 then none
  else if (rs / m, re / m) != (cs / n, ce / n) then none
  else some (rs / m, re / m)

/-- `BlockInterleavedLinearOperator._getitem_block_aligned` for `k` blocks: `None` unless all four bounds are
multiples of `k` and the two ranges have equal length; otherwise the row slice and the column slice handed to
`base._getitem(row_index, col_index, *batch, noop)`. -/
def blockInterAligned (k rs re cs ce : Nat) : Option ((Nat × Nat) × (Nat × Nat)) :=
  if rs % k != 0 || cs % k != 0 || re % k != 0 || ce % k != 0 then none
  else if re - rs != ce - cs then none
  else some ((rs / k, re / k), (cs / k, ce / k))

namespace Opv

/-- SPEC of `op._getitem(row_index, col_index, *batch_indices)`: entry `(b, i, j)` of the result is entry
`(bmap b, rows[i], cols[j])` of the operator -/
def sel (rows cols : List Nat) (bmap : List Nat → List Nat) (op : Opv) : Opv :=
  ⟨rows.length, cols.length,
   fun b i j => op.den (bmap b) (rows.getD i 0) (cols.getD j 0),
   fun b i j => op.gi (bmap b) (rows.getD i 0) (cols.getD j 0),
   fun b q => op.gi (bmap b) (rows.getD q 0) (cols.getD q 0)⟩

/-- `SumLinearOperator._getitem`: `SumLinearOperator(*[op._getitem(row, col, *batch) for op in self.linear_ops])` -/
def sumGetitem (results : List Opv) (R' C' : Nat) : Opv := Opv.sum R' C' results

/-- `ConstantMulLinearOperator._getitem`: base result, `constant.expand(batch_shape)[batch_indices]` -/
def constMulGetitem (c : List Nat → Int) (bmap : List Nat → List Nat) (baseResult : Opv) : Opv :=
  Opv.constMul (fun b => c (bmap b)) baseResult

/-- `MatmulLinearOperator._getitem`: `Matmul(left._getitem(row, noop, *batch), right._getitem(noop, col, *batch))`
(`mode 2`: the result is in general not a Dense·Dense / Diag product, its `_diagonal` is whatever branch applies; the
entry theorem below is about `den`, which does not depend on the mode) -/
def matmulGetitem (mode : Nat) (leftResult rightResult : Opv) : Opv := Opv.matmul mode leftResult rightResult

/-- `MulLinearOperator` has no override (base class), but the elementwise product of two results is what
`DenseLinearOperator(left * right)`-style evaluations denote -/
def mulGetitem (leftResult rightResult : Opv) : Opv := Opv.mul leftResult rightResult

/-- `.mT` of a result (used by `RootLinearOperator._getitem` for different row / column selections) -/
def transposeOp (o : Opv) : Opv := ⟨o.C, o.R, fun b i j => o.den b j i, fun b i j => o.gi b j i, o.dg⟩

/-- `RootLinearOperator._getitem`: `left = root._getitem(row, noop, *batch)`; equal row/col selections →
`Root(left)`, otherwise `Matmul(left, root._getitem(col, noop, *batch).mT)` -/
def rootGetitem (equalIdx : Bool) (left right : Opv) : Opv :=
  if equalIdx then Opv.root false left else Opv.matmul 2 left (transposeOp right)

end Opv

/-- `r` is an operator that `op._getitem(rows, cols, *batch)` may build (`bmap` = result batch index ↦ source batch
index): any operator with the right entries (classes whose `_getitem` indexes their tensors directly: Dense, the
base-class interpolation result, …) or the class-specific constructions of Sum / ConstantMul / Matmul / Root out of
the recursive results. -/
inductive GetitemResult (bmap : List Nat → List Nat) : List Nat → List Nat → Opv → Opv → Prop
  | leaf (rows cols op r) : r.R = rows.length → r.C = cols.length →
      (∀ b i j, i < rows.length → j < cols.length → r.den b i j = op.den (bmap b) (rows.getD i 0) (cols.getD j 0)) →
      GetitemResult bmap rows cols op r
  | sum (rows cols R C) (ps rs : List Opv) : ps.length = rs.length →
      (∀ k, k < ps.length → GetitemResult bmap rows cols (ps.getD k (Opv.zero 0 0)) (rs.getD k (Opv.zero 0 0))) →
      GetitemResult bmap rows cols (Opv.sum R C ps) (Opv.sumGetitem rs rows.length cols.length)
  | constMul (rows cols c base r) : GetitemResult bmap rows cols base r →
      GetitemResult bmap rows cols (Opv.constMul c base) (Opv.constMulGetitem c bmap r)
  | matmul (rows cols mode mode' A B L Rr) : A.C = B.R →
      GetitemResult bmap rows (List.range A.C) A L → GetitemResult bmap (List.range B.R) cols B Rr →
      GetitemResult bmap rows cols (Opv.matmul mode A B) (Opv.matmulGetitem mode' L Rr)
  | rootEq (rows dr rt L) : GetitemResult bmap rows (List.range rt.C) rt L →
      GetitemResult bmap rows rows (Opv.root dr rt) (Opv.rootGetitem true L L)
  | rootNe (rows cols dr rt L Rr) : GetitemResult bmap rows (List.range rt.C) rt L →
      GetitemResult bmap cols (List.range rt.C) rt Rr →
      GetitemResult bmap rows cols (Opv.root dr rt) (Opv.rootGetitem false L Rr)

/-- driver helpers -/
def showAlignedBD (o : Option (Nat × Nat)) : String :=
  match o with | none => "none" | some (a, b) => s!"{a},{b}"

def showAlignedBI (o : Option ((Nat × Nat) × (Nat × Nat))) : String :=
  match o with | none => "none" | some ((a, b), (c, d)) => s!"{a},{b},{c},{d}"

end LinOp.C03
