import LinOp.C03.Getitem
import LinOp.C03.ProofsOps
import LinOp.C03.InterpRoot
import LinOp.C03.Front
import LinOp.C03.FrontGuard
/-! Helper lemmas for the `_getitem` (slice) path: block-aligned shortcut, result-operator constructions. -/
namespace LinOp.C03

theorem getD_map_range {α : Type} (k : Nat) (f : Nat → α) (d : α) (x : Nat) (hx : x < k) :
    ((List.range k).map f).getD x d = f x := by
  simp [List.getD_eq_getElem?_getD, hx]

theorem mul_of_mod_zero (a m : Nat) (h : a % m = 0) : a = m * (a / m) := by
  have := Nat.div_add_mod a m
  omega

/-- what a successful `BlockDiag._getitem_block_aligned` knows about its arguments -/
theorem blockDiagAligned_some (m n rs re cs ce b0 b1 : Nat)
    (h : blockDiagAligned m n rs re cs ce = some (b0, b1)) :
    rs = m * b0 ∧ re = m * b1 ∧ cs = n * b0 ∧ ce = n * b1 := by
  unfold blockDiagAligned at h
  split at h
  · cases h
  · split at h
    · cases h
    · rename_i h1 h2
      simp only [Bool.or_eq_true, bne_iff_ne, ne_eq, not_or, Decidable.not_not] at h1
      simp only [bne_iff_ne, ne_eq, Decidable.not_not, Prod.mk.injEq] at h2
      simp only [Option.some.injEq, Prod.mk.injEq] at h
      obtain ⟨⟨⟨a1, a2⟩, a3⟩, a4⟩ := h1
      obtain ⟨e1, e2⟩ := h2
      obtain ⟨f1, f2⟩ := h
      refine ⟨?_, ?_, ?_, ?_⟩
      · rw [← f1]; exact mul_of_mod_zero rs m a1
      · rw [← f2]; exact mul_of_mod_zero re m a2
      · rw [← f1, e1]; exact mul_of_mod_zero cs n a3
      · rw [← f2, e2]; exact mul_of_mod_zero ce n a4

/-- what a successful `BlockInterleaved._getitem_block_aligned` knows about its arguments -/
theorem blockInterAligned_some (k rs re cs ce r0 r1 c0 c1 : Nat)
    (h : blockInterAligned k rs re cs ce = some ((r0, r1), (c0, c1))) :
    rs = k * r0 ∧ re = k * r1 ∧ cs = k * c0 ∧ ce = k * c1 ∧ re - rs = ce - cs := by
  unfold blockInterAligned at h
  split at h
  · cases h
  · split at h
    · cases h
    · rename_i h1 h2
      simp only [Bool.or_eq_true, bne_iff_ne, ne_eq, not_or, Decidable.not_not] at h1
      simp only [bne_iff_ne, ne_eq, Decidable.not_not] at h2
      simp only [Option.some.injEq, Prod.mk.injEq] at h
      obtain ⟨⟨⟨a1, a2⟩, a3⟩, a4⟩ := h1
      obtain ⟨⟨f1, f2⟩, f3, f4⟩ := h
      refine ⟨?_, ?_, ?_, ?_, h2⟩
      · rw [← f1]; exact mul_of_mod_zero rs k a1
      · rw [← f2]; exact mul_of_mod_zero re k a3
      · rw [← f3]; exact mul_of_mod_zero cs k a2
      · rw [← f4]; exact mul_of_mod_zero ce k a4

/-- the block-diagonal matrix of blocks `b0 … b1-1` is the window `[m·b0, m·b1) × [n·b0, n·b1)` of the block-diagonal
matrix of all `k` blocks -/
theorem blockDiag_window (m n k b0 b1 : Nat) (hm : 0 < m) (hn : 0 < n) (base sub : Opv)
    (hbR : base.R = m) (hbC : base.C = n) (hsR : sub.R = m) (hsC : sub.C = n) (h01 : b0 ≤ b1) (h1k : b1 ≤ k)
    (hsub : ∀ b blk i j, blk < b1 - b0 → i < m → j < n → sub.den (b ++ [blk]) i j = base.den (b ++ [b0 + blk]) i j) :
    ∀ b i j, i < m * (b1 - b0) → j < n * (b1 - b0) →
      (Opv.blockDiag (b1 - b0) sub).den b i j = (Opv.blockDiag k base).den b (m * b0 + i) (n * b0 + j) := by
  intro b i j hi hj
  simp only [Opv.blockDiag, hbR, hbC, hsR, hsC]
  have em : m * b0 + m * (b1 - b0) = m * b1 := by rw [← Nat.mul_add]; congr 1; omega
  have en : n * b0 + n * (b1 - b0) = n * b1 := by rw [← Nat.mul_add]; congr 1; omega
  have lm : m * b1 ≤ m * k := Nat.mul_le_mul_left m h1k
  have ln : n * b1 ≤ n * k := Nat.mul_le_mul_left n h1k
  have L := blockDiag_entry' m n hm hn ((List.range (b1 - b0)).map fun blk => sub.den (b ++ [blk])) i j
    (by simpa using hi) (by simpa using hj)
  have R := blockDiag_entry' m n hm hn ((List.range k).map fun blk => base.den (b ++ [blk])) (m * b0 + i) (n * b0 + j)
    (by simp only [List.length_map, List.length_range]; omega) (by simp only [List.length_map, List.length_range]; omega)
  rw [← L, ← R]
  simp only [blockDiagIdx, Nat.mul_add_div hm, Nat.mul_add_div hn, Nat.mul_add_mod]
  have hq : i / m < b1 - b0 := Nat.div_lt_of_lt_mul hi
  have hq' : b0 + i / m < k := by omega
  by_cases hc : i / m = j / n
  · have hb1 : (i / m == j / n) = true := by simpa using hc
    have hb2 : (b0 + i / m == b0 + j / n) = true := by simpa using hc
    simp only [hb1, hb2, if_true]
    rw [getD_map_range _ _ _ _ hq, getD_map_range _ _ _ _ hq']
    exact hsub b (i / m) (i % m) (j % n) hq (Nat.mod_lt _ hm) (Nat.mod_lt _ hn)
  · have hb1 : (i / m == j / n) = false := by simpa using hc
    have hb2 : (b0 + i / m == b0 + j / n) = false := by simpa using hc
    simp only [hb1, hb2, Bool.false_eq_true, if_false]

/-- interleaved layout: slicing rows `k·r0 : k·r1` and columns `k·c0 : k·c1` = slicing rows `r0:r1`, columns `c0:c1`
of every block -/
theorem blockInter_window (k r0 r1 c0 c1 : Nat) (hk : 0 < k) (base sub : Opv)
    (hsub : ∀ bb i j, i < r1 - r0 → j < c1 - c0 → sub.den bb i j = base.den bb (r0 + i) (c0 + j)) :
    ∀ b i j, i < k * (r1 - r0) → j < k * (c1 - c0) →
      (Opv.blockInter k sub).den b i j = (Opv.blockInter k base).den b (k * r0 + i) (k * c0 + j) := by
  intro b i j hi hj
  simp only [Opv.blockInter, Nat.mul_add_div hk, Nat.mul_add_mod]
  by_cases hc : i % k = j % k
  · rw [if_pos hc, if_pos hc]
    exact hsub _ _ _ (Nat.div_lt_of_lt_mul hi) (Nat.div_lt_of_lt_mul hj)
  · rw [if_neg hc, if_neg hc]

/-! ### result-operator constructions of the `_getitem` overrides -/

theorem getD_range (n k : Nat) (h : k < n) : (List.range n).getD k 0 = k := by
  simp [List.getD_eq_getElem?_getD, h]

theorem sum_pointwise (f g : Opv → Int) (ps rs : List Opv) (hlen : ps.length = rs.length)
    (h : ∀ k, k < ps.length → g (rs.getD k (Opv.zero 0 0)) = f (ps.getD k (Opv.zero 0 0))) :
    (rs.map g).sum = (ps.map f).sum := by
  congr 1
  apply List.ext_getElem (by simp [hlen])
  intro k h1 h2
  simp only [List.length_map] at h1 h2
  have := h k h2
  simp only [List.getD_eq_getElem?_getD, List.getElem?_eq_getElem h1, List.getElem?_eq_getElem h2, Option.getD_some] at this
  simpa using this

/-- every operator the modelled `_getitem` constructions can build has the size of the selection and, at every
in-range entry, the value of the selected entry of the dense matrix of the original operator -/
theorem getitemResult_sound (bmap : List Nat → List Nat) (rows cols : List Nat) (op r : Opv)
    (h : GetitemResult bmap rows cols op r) :
    r.R = rows.length ∧ r.C = cols.length ∧
    ∀ b i j, i < rows.length → j < cols.length → r.den b i j = op.den (bmap b) (rows.getD i 0) (cols.getD j 0) := by
  induction h with
  | leaf rows cols op r hR hC hd => exact ⟨hR, hC, hd⟩
  | sum rows cols R C ps rs hlen _ ih =>
    refine ⟨rfl, rfl, fun b i j hi hj => ?_⟩
    simp only [Opv.sumGetitem, Opv.sum]
    exact sum_pointwise _ _ ps rs hlen (fun k hk => (ih k hk).2.2 b i j hi hj)
  | constMul rows cols c base r _ ih =>
    refine ⟨ih.1, ih.2.1, fun b i j hi hj => ?_⟩
    simp only [Opv.constMulGetitem, Opv.constMul]
    rw [ih.2.2 b i j hi hj]
  | matmul rows cols mode mode' A B L Rr hAB _ _ ihL ihR =>
    refine ⟨ihL.1, ihR.2.1, fun b i j hi hj => ?_⟩
    simp only [Opv.matmulGetitem, Opv.matmul]
    have hLC : L.C = A.C := by rw [ihL.2.1]; simp
    rw [hLC]
    refine sumTo_congr _ _ _ (fun k hk => ?_)
    have h1 := ihL.2.2 b i k hi (by simpa using hk)
    have h2 := ihR.2.2 b k j (by simpa [← hAB] using hk) hj
    rw [getD_range _ _ hk] at h1
    rw [getD_range _ _ (by omega)] at h2
    rw [h1, h2]
  | rootEq rows dr rt L _ ih =>
    refine ⟨ih.1, ih.1, fun b i j hi hj => ?_⟩
    simp only [Opv.rootGetitem, if_true, Opv.root]
    have hLC : L.C = rt.C := by rw [ih.2.1]; simp
    rw [hLC]
    refine sumTo_congr _ _ _ (fun k hk => ?_)
    have h1 := ih.2.2 b i k hi (by simpa using hk)
    have h2 := ih.2.2 b j k hj (by simpa using hk)
    rw [getD_range _ _ hk] at h1 h2
    rw [h1, h2]
  | rootNe rows cols dr rt L Rr _ _ ihL ihR =>
    refine ⟨ihL.1, ihR.1, fun b i j hi hj => ?_⟩
    simp only [Opv.rootGetitem, Bool.false_eq_true, if_false, Opv.matmul, Opv.transposeOp, Opv.root]
    have hLC : L.C = rt.C := by rw [ihL.2.1]; simp
    rw [hLC]
    refine sumTo_congr _ _ _ (fun k hk => ?_)
    have h1 := ihL.2.2 b i k hi (by simpa using hk)
    have h2 := ihR.2.2 b j k hj (by simpa using hk)
    rw [getD_range _ _ hk] at h1 h2
    rw [h1, h2]

/-! ### Interpolated `_diagonal`, dense-root fast path -/

theorem lsum_add {α : Type} (l : List α) (f g : α → Int) :
    (l.map fun x => f x + g x).sum = (l.map f).sum + (l.map g).sum := by
  induction l with
  | nil => rfl
  | cons a t ih => simp only [List.map_cons, List.sum_cons, ih]; ring

theorem lsum_mul_right {α : Type} (l : List α) (f : α → Int) (c : Int) :
    (l.map fun x => f x * c).sum = (l.map f).sum * c := by
  induction l with
  | nil => simp
  | cons a t ih => simp only [List.map_cons, List.sum_cons, ih]; ring

theorem lsum_mul_left {α : Type} (l : List α) (f : α → Int) (c : Int) :
    (l.map fun x => c * f x).sum = c * (l.map f).sum := by
  induction l with
  | nil => simp
  | cons a t ih => simp only [List.map_cons, List.sum_cons, ih]; ring

theorem lsum_zero {α : Type} (l : List α) : (l.map fun _ => (0 : Int)).sum = 0 := by
  induction l with
  | nil => rfl
  | cons a t ih => simp only [List.map_cons, List.sum_cons, ih]; rfl

/-- `(Σ_p x_p)(Σ_q y_q) = Σ_p Σ_q x_p y_q` -/
theorem dsum_prod {α β : Type} (l : List α) (m : List β) (x : α → Int) (y : β → Int) :
    (l.map fun p => (m.map fun q => x p * y q).sum).sum = (l.map x).sum * (m.map y).sum := by
  simp only [lsum_mul_left, lsum_mul_right]

/-- the fast path computes the main diagonal of `W_l (R Rᵀ) W_rᵀ`, for every rank of the root and every
number of interpolation points per row -/
theorem interpRootDiag_eq (L M : List (Nat × Int)) (a : Nat → Nat → Int) (n : Nat) :
    (sumTo n fun c => leftInterp L a c * leftInterp M a c) =
      (L.map fun p => (M.map fun q => (sumTo n fun c => a p.1 c * a q.1 c) * (p.2 * q.2)).sum).sum := by
  induction n with
  | zero => simp [sumTo, lsum_zero]
  | succ n ih =>
    have e : ∀ (p q : Nat × Int), ((sumTo n fun c => a p.1 c * a q.1 c) + a p.1 n * a q.1 n) * (p.2 * q.2) =
        (sumTo n fun c => a p.1 c * a q.1 c) * (p.2 * q.2) + (p.2 * a p.1 n) * (q.2 * a q.1 n) := by
      intro p q; ring
    simp only [sumTo, e, lsum_add, dsum_prod]
    rw [ih]
    simp only [leftInterp]

/-! ### ellipsis expansion yields an index of full rank -/

theorem filter_nil_of_dropWhile_nil (idx : List Item) (h : idx.dropWhile (fun i => !isEll i) = []) :
    idx.filter isEll = [] := by
  induction idx with
  | nil => rfl
  | cons a t ih =>
    by_cases ha : isEll a = true
    · simp [List.dropWhile_cons, ha] at h
    · have ha' : isEll a = false := by simpa using ha
      simp only [List.dropWhile_cons, ha', Bool.not_false, if_true] at h
      simp only [List.filter_cons, ha', Bool.false_eq_true, if_false]
      exact ih h

theorem dropWhile_ne_nil_of_filter (idx : List Item) (h : (idx.filter isEll).length = 1) :
    1 ≤ (idx.dropWhile (fun i => !isEll i)).length := by
  cases hl : idx.dropWhile (fun i => !isEll i) with
  | nil => rw [filter_nil_of_dropWhile_nil idx hl] at h; simp at h
  | cons a t => simp

theorem expandEllipsis_length (d : Nat) (idx e : List Item) (h : expandEllipsis d idx = some e) : e.length = d := by
  unfold expandEllipsis at h
  simp only at h
  split at h
  · cases h
  · split at h
    · rename_i h1
      split at h
      · cases h
      · rename_i h2
        simp only [Option.some.injEq] at h
        subst h
        have hsplit := congrArg List.length (List.takeWhile_append_dropWhile (p := fun i => !isEll i) (l := idx))
        have hdw := dropWhile_ne_nil_of_filter idx h1
        simp only [List.length_append, List.length_replicate, List.length_drop] at hsplit ⊢
        omega
    · split at h
      · cases h
      · simp only [Option.some.injEq] at h
        subst h
        simp only [List.length_append, List.length_replicate]
        omega

/-! ### the index-count guard -/

theorem length_filter_split (idx : List Item) :
    idx.length = (idx.filter isEll).length + (idx.filter (fun i => !isEll i)).length := by
  induction idx with
  | nil => rfl
  | cons a t ih =>
    by_cases h : isEll a = true
    · simp only [List.filter_cons, h, if_true, Bool.not_true, Bool.false_eq_true, if_false, List.length_cons]; omega
    · have h' : isEll a = false := by simpa using h
      simp only [List.filter_cons, h', Bool.false_eq_true, if_false, Bool.not_false, if_true, List.length_cons]; omega

theorem tooMany_iff_count (d : Nat) (idx : List Item) (h1 : (idx.filter isEll).length ≤ 1) :
    tooManyIndices d idx = true ↔ d < (idx.filter (fun i => !isEll i)).length := by
  have hs := length_filter_split idx
  unfold tooManyIndices
  split <;> simp only [decide_eq_true_eq] <;> omega

theorem expandEllipsis_some_not_tooMany (d : Nat) (idx e : List Item) (h : expandEllipsis d idx = some e) :
    tooManyIndices d idx = false := by
  unfold expandEllipsis at h
  simp only at h
  unfold tooManyIndices
  split at h
  · cases h
  · split at h
    · rename_i h1
      split at h
      · cases h
      · rename_i h2
        simp only [h1, if_true, decide_eq_false_iff_not]
        exact h2
    · rename_i h1
      split at h
      · cases h
      · rename_i h2
        simp only [h1, if_false, decide_eq_false_iff_not]
        exact h2

theorem expandEllipsis_none_tooMany (d : Nat) (idx : List Item) (h1 : (idx.filter isEll).length ≤ 1)
    (h : expandEllipsis d idx = none) : tooManyIndices d idx = true := by
  unfold expandEllipsis at h
  simp only at h
  unfold tooManyIndices
  split at h
  · omega
  · split at h
    · rename_i hE
      split at h
      · rename_i h2
        simp only [hE, if_true, decide_eq_true_eq]; exact h2
      · cases h
    · rename_i hE
      split at h
      · rename_i h2
        simp only [hE, if_false, decide_eq_true_eq]; exact h2
      · cases h

end LinOp.C03
