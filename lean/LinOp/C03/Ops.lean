import LinOp.C03.Proofs
/-!
C03 — the operator type of the model (core Lean only, executable).

An `Opv` is an operator *value*: its matrix size, its dense value `den` (the SPEC: what `to_dense()` must hold at
batch multi-index `b`, row `i`, column `j`), the entry arithmetic of its class's `_get_indices` (`gi`) and of its
class's `_diagonal` (`dg`).  One constructor function per operator class of /repo; nestings are built by applying
them to each other (the driver builds them from a prefix expression, the harness encodes the real operator
objects of the catalogue into that expression).

`den` is always written declaratively (recursive block / Kronecker / concatenation definitions, `|i - j|`, sums);
`gi` / `dg` follow the code (`div`/`fmod` chains, `idx_to_tensor_idx`, masks, one-hot interpolation …).
-/
namespace LinOp.C03

/-- `Σ_{k<n} f k` (the `.sum(-1)` over an `arange` inner index) -/
def sumTo : Nat → (Nat → Int) → Int
  | 0, _ => 0
  | n + 1, f => sumTo n f + f n

structure Opv where
  R : Nat
  C : Nat
  den : List Nat → Nat → Nat → Int
  gi : List Nat → Nat → Nat → Int
  dg : List Nat → Nat → Int

namespace Opv

/-- `DenseLinearOperator`: `_get_indices` = `self.tensor[(*batch, row, col)]`, `_diagonal` = `tensor.diagonal` -/
def dense (R C : Nat) (f : List Nat → Nat → Nat → Int) : Opv := ⟨R, C, f, f, fun b k => f b k k⟩

/-- `DiagLinearOperator` (also `ConstantDiag`, `Identity`, which inherit `_get_indices`):
`self._diag[(*batch, row)] * torch.eq(row, col)`; `_diagonal` = `self._diag` -/
def diag (n : Nat) (d : List Nat → Nat → Int) : Opv :=
  ⟨n, n, fun b i j => if i = j then d b i else 0, fun b i j => d b i * (if i == j then 1 else 0), d⟩

/-- `ZeroLinearOperator` -/
def zero (R C : Nat) : Opv := ⟨R, C, fun _ _ _ => 0, fun _ _ _ => 0, fun _ _ => 0⟩

/-- `ToeplitzLinearOperator` (symmetric): `column[(*batch, (row - col).fmod(n).abs())]`; `_diagonal` = `column[..., 0]` expanded -/
def toeplitz (n : Nat) (col : List Nat → Nat → Int) : Opv :=
  ⟨n, n, fun b i j => col b ((i : Int) - j).natAbs, fun b i j => col b (toepIdx n i j), fun b _ => col b 0⟩

def facDen (fs : List Opv) (b : List Nat) : List Factor := fs.map fun o => (o.den b, o.R, o.C)
def facGi (fs : List Opv) (b : List Nat) : List Factor := fs.map fun o => (o.gi b, o.R, o.C)

/-- `_kron_diag`: `diag = lead.unsqueeze(-2) * trail.unsqueeze(-1); diag.mT.reshape(-1)` — entry `k` is
`lead[k div N_trail] * trail[k mod N_trail]` -/
def kronDiag : List ((Nat → Int) × Nat) → Nat → Int
  | [], _ => 1
  | (d, _) :: r, k => d (k / prodNat (r.map (·.2))) * kronDiag r (k % prodNat (r.map (·.2)))

/-- `KroneckerProductLinearOperator`: `_get_indices` = div/fmod chain over the factors (`kronModel`);
`_diagonal` = `_kron_diag` if every factor is square, else the base-class fallback `self[..., arange, arange]` -/
def kron (fs : List Opv) : Opv :=
  ⟨prodNat (fs.map (·.R)), prodNat (fs.map (·.C)),
   fun b => kronSpec (facDen fs b), fun b => kronModel (facGi fs b),
   fun b k => if fs.all (fun o => o.R == o.C) then kronDiag (fs.map fun o => (o.dg b, o.R)) k
              else kronModel (facGi fs b) k k⟩

/-- `BlockDiagLinearOperator` over a base operator whose LAST batch dim (size `k`) enumerates the blocks:
`_get_indices` = block by `div`, position by `fmod`, mask `eq(row_block, col_block)`;
`_diagonal` = `base._diagonal().view(*batch, k * n)` -/
def blockDiag (k : Nat) (base : Opv) : Opv :=
  ⟨base.R * k, base.C * k,
   fun b i j => blockDiagSpec base.R base.C ((List.range k).map fun blk => base.den (b ++ [blk])) i j,
   fun b i j => base.gi (b ++ [(blockDiagIdx base.R base.C i j).1]) (blockDiagIdx base.R base.C i j).2.1
                  (blockDiagIdx base.R base.C i j).2.2.1 * (if (blockDiagIdx base.R base.C i j).2.2.2 then 1 else 0),
   fun b q => base.dg (b ++ [q / base.R]) (q % base.R)⟩

/-- `BlockInterleavedLinearOperator`: rows ordered (index within block, block number);
`_diagonal` = `base._diagonal().mT.view(-1)` -/
def blockInter (k : Nat) (base : Opv) : Opv :=
  ⟨base.R * k, base.C * k,
   fun b i j => if i % k = j % k then base.den (b ++ [i % k]) (i / k) (j / k) else 0,
   fun b i j => base.gi (b ++ [(blockInterIdx k i j).1]) (blockInterIdx k i j).2.1 (blockInterIdx k i j).2.2.1
                  * (if (blockInterIdx k i j).2.2.2 then 1 else 0),
   fun b q => base.dg (b ++ [q % k]) (q / k)⟩

/-- `SumBatchLinearOperator`: the last batch dim (size `k`) of the base is summed out: extra `arange` index + `.sum(-1)` -/
def sumBatch (k : Nat) (base : Opv) : Opv :=
  ⟨base.R, base.C, fun b i j => sumTo k fun s => base.den (b ++ [s]) i j,
   fun b i j => sumTo k fun s => base.gi (b ++ [s]) i j, fun b q => sumTo k fun s => base.dg (b ++ [s]) q⟩

/-- the batch index handed to the base of a `BatchRepeatLinearOperator`: keep the last `len(base.batch_shape)`
indices, each `fmod` the base batch size -/
def repIdx (sizes : List Nat) (b : List Nat) : List Nat :=
  List.zipWith batchRepeatIdx sizes (b.drop (b.length - sizes.length))

/-- `BatchRepeatLinearOperator` (`sizes` = batch shape of the base); no `_diagonal` override: base-class fallback -/
def batchRepeat (sizes : List Nat) (base : Opv) : Opv :=
  ⟨base.R, base.C, fun b => base.den (repIdx sizes b), fun b => base.gi (repIdx sizes b),
   fun b q => base.gi (repIdx sizes b) q q⟩

/-- concatenation along one coordinate: pieces (size, entry as a function of the LOCAL coordinate) -/
def catSpecG : List (Nat × (Nat → Int)) → Nat → Int
  | [], _ => 0
  | (s, f) :: rest, x => if x < s then f x else catSpecG rest (x - s)

/-- `CatLinearOperator._get_indices`: piece by `idx_to_tensor_idx`, local index by subtracting `cat_dim_cum_sizes` -/
def catGet (ps : List (Nat × (Nat → Int))) (x : Nat) : Int :=
  (ps.getD (catLocate (ps.map (·.1)) x).1 (0, fun _ => 0)).2 (catLocate (ps.map (·.1)) x).2

/-- Cat along the rows (`dim=-2`).  `_diagonal`: per piece `t[..., arange(n_rows), arange(curr_col, curr_col + n_rows)]` -/
def catRows (C : Nat) (ps : List Opv) : Opv :=
  ⟨sumNat (ps.map (·.R)), C,
   fun b i j => catSpecG (ps.map fun p => (p.R, fun l => p.den b l j)) i,
   fun b i j => catGet (ps.map fun p => (p.R, fun l => p.gi b l j)) i,
   fun b q => catGet (ps.map fun p => (p.R, fun l => p.gi b l q)) q⟩

/-- Cat along the columns (`dim=-1`) -/
def catCols (R : Nat) (ps : List Opv) : Opv :=
  ⟨R, sumNat (ps.map (·.C)),
   fun b i j => catSpecG (ps.map fun p => (p.C, fun l => p.den b i l)) j,
   fun b i j => catGet (ps.map fun p => (p.C, fun l => p.gi b i l)) j,
   fun b q => catGet (ps.map fun p => (p.C, fun l => p.gi b q l)) q⟩

/-- Cat along batch dim number `pos` (from the left); `sizes` = the pieces' sizes of that dim;
`_diagonal` = `torch.cat([t._diagonal() …], dim=cat_dim + 1)` -/
def catBatch (R C pos : Nat) (ps : List (Nat × Opv)) : Opv :=
  ⟨R, C,
   fun b i j => catSpecG (ps.map fun p => (p.1, fun l => p.2.den (b.set pos l) i j)) (b.getD pos 0),
   fun b i j => catGet (ps.map fun p => (p.1, fun l => p.2.gi (b.set pos l) i j)) (b.getD pos 0),
   fun b q => catGet (ps.map fun p => (p.1, fun l => p.2.dg (b.set pos l) q)) (b.getD pos 0)⟩

/-- `InterpolatedLinearOperator`: `li b i` / `ri b j` = the (index, value) pairs of row `i` / column `j`;
`_get_indices` = `(base_vals * left_values * right_values).sum([-2, -1])`; `_diagonal`: base-class fallback -/
def interp (R C : Nat) (li ri : List Nat → Nat → List (Nat × Int)) (base : Opv) : Opv :=
  ⟨R, C,
   fun b i j => ((li b i).map fun p => ((ri b j).map fun q => base.den b p.1 q.1 * (p.2 * q.2)).sum).sum,
   fun b i j => ((li b i).map fun p => ((ri b j).map fun q => base.gi b p.1 q.1 * (p.2 * q.2)).sum).sum,
   fun b k => ((li b k).map fun p => ((ri b k).map fun q => base.gi b p.1 q.1 * (p.2 * q.2)).sum).sum⟩

/-- `TriangularLinearOperator`: `_get_indices` / `_diagonal` delegate to the wrapped operator -/
def tri (base : Opv) : Opv := ⟨base.R, base.C, base.den, base.gi, base.dg⟩

/-- `RootLinearOperator` / `LowRankRootLinearOperator` / `CholLinearOperator(lower)`: `R Rᵀ`;
`_get_indices` = `(root[row, k] * root[col, k]).sum(-1)` (`pow(2)` when the index tensors coincide);
`_diagonal`: `denseRoot` → `(root.tensor ** 2).sum(-1)` (Root over dense, Chol), else base-class fallback -/
def root (denseRoot : Bool) (rt : Opv) : Opv :=
  ⟨rt.R, rt.R, fun b i j => sumTo rt.C fun k => rt.den b i k * rt.den b j k,
   fun b i j => sumTo rt.C fun k => rt.gi b i k * rt.gi b j k,
   fun b q => if denseRoot then sumTo rt.C fun k => rt.den b q k * rt.den b q k
              else sumTo rt.C fun k => rt.gi b q k * rt.gi b q k⟩

/-- `MatmulLinearOperator`: `_get_indices` = `(left[row, k] * right[k, col]).sum(-1)`;
`_diagonal`: mode 0 = Dense·Dense `(left.tensor * right.tensor.mT).sum(-1)`, mode 1 = a Diag operand
`left._diagonal() * right._diagonal()`, other = base-class fallback -/
def matmul (mode : Nat) (A B : Opv) : Opv :=
  ⟨A.R, B.C, fun b i j => sumTo A.C fun k => A.den b i k * B.den b k j,
   fun b i j => sumTo A.C fun k => A.gi b i k * B.gi b k j,
   fun b q => if mode = 0 then sumTo A.C fun k => A.den b q k * B.den b k q
              else if mode = 1 then A.dg b q * B.dg b q
              else sumTo A.C fun k => A.gi b q k * B.gi b k q⟩

/-- `SumLinearOperator` (also `AddedDiag`, `PsdSum`, …): `sum(op._get_indices(...))`, `sum(op._diagonal())` -/
def sum (R C : Nat) (ps : List Opv) : Opv :=
  ⟨R, C, fun b i j => (ps.map fun p => p.den b i j).sum, fun b i j => (ps.map fun p => p.gi b i j).sum,
   fun b q => (ps.map fun p => p.dg b q).sum⟩

/-- `ConstantMulLinearOperator`: `base._get_indices(...) * constant.expand(batch_shape)[batch_indices]` -/
def constMul (c : List Nat → Int) (base : Opv) : Opv :=
  ⟨base.R, base.C, fun b i j => base.den b i j * c b, fun b i j => base.gi b i j * c b, fun b q => base.dg b q * c b⟩

/-- `MulLinearOperator` (elementwise product) -/
def mul (A B : Opv) : Opv :=
  ⟨A.R, A.C, fun b i j => A.den b i j * B.den b i j, fun b i j => A.gi b i j * B.gi b i j,
   fun b q => A.dg b q * B.dg b q⟩

/-- `MaskedLinearOperator`: `rowMap` = `arange(n)[row_mask]`; `_diagonal` (row mask == col mask) = `base.diagonal()[..., row_mask]` -/
def masked (rowMap colMap : List Nat) (base : Opv) : Opv :=
  ⟨rowMap.length, colMap.length, fun b i j => base.den b (rowMap.getD i 0) (colMap.getD j 0),
   fun b i j => base.gi b (rowMap.getD i 0) (colMap.getD j 0), fun b q => base.dg b (rowMap.getD q 0)⟩

/-- `TransposePermutationLinearOperator(m)` (commutation matrix): `target_col = row.fmod(m) * m + row div m; eq(target_col, col)` -/
def transPerm (m : Nat) : Opv :=
  ⟨m * m, m * m, fun _ i j => if i / m = j % m ∧ i % m = j / m then 1 else 0,
   fun _ i j => if (i % m) * m + i / m == j then 1 else 0,
   fun _ q => if (q % m) * m + q / m == q then 1 else 0⟩

/-- base-class `_get_indices` (classes without an override, e.g. `PermutationLinearOperator`, `LowRankRootAddedDiag`):
an `InterpolatedLinearOperator` with one-hot rows `e_i`, `e_j` around the operator, densified: `e_iᵀ (A e_j)`;
base-class `_diagonal` = `self[..., arange, arange]`, i.e. the same path -/
def fallback (R C : Nat) (den : List Nat → Nat → Nat → Int) : Opv :=
  ⟨R, C, den,
   fun b i j => sumTo R fun r => (if r = i then 1 else 0) * sumTo C fun c => den b r c * (if c = j then 1 else 0),
   fun b q => sumTo R fun r => (if r = q then 1 else 0) * sumTo C fun c => den b r c * (if c = q then 1 else 0)⟩

end Opv

/-! ## `__getitem__` over an operator value (all dims, batch included) -/

def splitB (s : List Nat) : List Nat × Nat × Nat := (s.take (s.length - 2), s.getD (s.length - 2) 0, s.getD (s.length - 1) 0)

/-- absorbed path of `__getitem__`: flatten → `_convert_indices_to_tensors` → `op._get_indices(row, col, *batch)` -/
def getitemOp (op : Opv) (zi : List (Nat × Item)) : List Int :=
  (box (specShape zi)).map fun r =>
    let s := splitB (convSrc (bcAll (tensorShapes zi)).length zi r)
    op.gi s.1 s.2.1 s.2.2

/-- torch indexing of the dense (batched) value -/
def denseGetitemOp (op : Opv) (zi : List (Nat × Item)) : List Int :=
  (box (specShape zi)).map fun r =>
    let s := splitB (specSrc (bcAll (tensorShapes zi)).length zi r)
    op.den s.1 s.2.1 s.2.2

end LinOp.C03
