import LinOp.C03.Proofs
/-! `_convert_indices_to_tensors` reads what torch's mixed indexing reads (helper lemmas). -/
namespace LinOp.C03

/-- the slice coordinates torch uses: result coordinate with the `k` tensor dims at `p` removed -/
def sliceCoords (p k : Nat) (r : List Nat) : List Nat := r.take p ++ r.drop (p + k)

theorem sliceCoords_lt (p k : Nat) (r : List Nat) (q : Nat) (hq : q < p) (hp : p ≤ r.length) :
    (sliceCoords p k r).getD q 0 = r.getD q 0 := by
  simp only [sliceCoords, List.getD_eq_getElem?_getD]
  rw [List.getElem?_append_left (by simp; omega)]
  simp [List.getElem?_take, hq]

theorem sliceCoords_ge (p k : Nat) (r : List Nat) (q : Nat) (hq : p ≤ q) (hp : p ≤ r.length) :
    (sliceCoords p k r).getD q 0 = r.getD (q + k) 0 := by
  simp only [sliceCoords, List.getD_eq_getElem?_getD]
  rw [List.getElem?_append_right (by simp; omega)]
  simp only [List.length_take, Nat.min_eq_left hp, List.getElem?_drop]
  congr 2; omega

theorem srcIndex_drop_slice (n a b c rest) (S tc : List Nat) (q : Nat) :
    srcIndex ((n, Item.slice a b c) :: rest) (S.drop q) tc =
      (sliceStart n a + S.getD q 0 * sliceStep c) :: srcIndex rest (S.drop (q + 1)) tc := by
  simp [srcIndex, List.getD_eq_getElem?_getD, List.head?_drop, List.headD_eq_head?_getD]

theorem srcIndex_drop_ell (n rest) (S tc : List Nat) (q : Nat) :
    srcIndex ((n, Item.ellipsis) :: rest) (S.drop q) tc = S.getD q 0 :: srcIndex rest (S.drop (q + 1)) tc := by
  simp [srcIndex, List.getD_eq_getElem?_getD, List.head?_drop, List.headD_eq_head?_getD]

/-- phase "tensor block placed": every remaining slice has number `q ≥ p` and occupies result dim `q + k` -/
theorem conv_after (k p : Nat) (r : List Nat) (hp : p ≤ r.length) :
    ∀ (rest : List (Nat × Item)) (q : Nat), p ≤ q →
      convGo k (q + k) (some p) rest r = srcIndex rest ((sliceCoords p k r).drop q) ((r.drop p).take k) := by
  intro rest
  induction rest with
  | nil => intro q _; simp [convGo, srcIndex]
  | cons x rest ih =>
    intro q hq
    obtain ⟨n, it⟩ := x
    cases it with
    | int i => simp [convGo, srcIndex, ih q hq]
    | slice a b c =>
      rw [srcIndex_drop_slice, sliceCoords_ge p k r q hq hp]
      have := ih (q + 1) (by omega)
      simp only [convGo]
      rw [show q + k + 1 = q + 1 + k by omega, this]
    | ellipsis =>
      rw [srcIndex_drop_ell, sliceCoords_ge p k r q hq hp]
      have := ih (q + 1) (by omega)
      simp only [convGo]
      rw [show q + k + 1 = q + 1 + k by omega, this]
    | tensor sh vs => simp [convGo, srcIndex, ih q hq]

/-- phase "no tensor seen yet" (not moved to the start): slice number `q` occupies result dim `q`; the first
tensor index is met after exactly `p = q + slicesBeforeT` slices -/
theorem conv_before (k : Nat) (r : List Nat) :
    ∀ (rest : List (Nat × Item)) (q p : Nat), p = q + slicesBeforeT (kinds rest) → p ≤ r.length →
      convGo k q none rest r = srcIndex rest ((sliceCoords p k r).drop q) ((r.drop p).take k) := by
  intro rest
  induction rest with
  | nil => intro q p _ _; simp [convGo, srcIndex]
  | cons x rest ih =>
    intro q p hpq hp
    obtain ⟨n, it⟩ := x
    cases it with
    | int i =>
      simp only [kinds_int, slicesBeforeT] at hpq
      simp [convGo, srcIndex, ih q p hpq hp]
    | slice a b c =>
      simp only [kinds_slice, slicesBeforeT] at hpq
      rw [srcIndex_drop_slice, sliceCoords_lt p k r q (by omega) hp]
      simp only [convGo]
      rw [ih (q + 1) p (by omega) hp]
    | ellipsis =>
      simp only [kinds_ell, slicesBeforeT] at hpq
      rw [srcIndex_drop_ell, sliceCoords_lt p k r q (by omega) hp]
      simp only [convGo]
      rw [ih (q + 1) p (by omega) hp]
    | tensor sh vs =>
      simp only [kinds_tensor, slicesBeforeT, Nat.add_zero] at hpq
      subst hpq
      simp only [convGo, srcIndex]
      rw [conv_after k p r hp rest p (Nat.le_refl _)]

theorem srcIndex_noT (zi : List (Nat × Item)) (h : tensorShapes zi = []) :
    ∀ sc tc tc', srcIndex zi sc tc = srcIndex zi sc tc' := by
  induction zi with
  | nil => intro sc tc tc'; rfl
  | cons x rest ih =>
    obtain ⟨n, it⟩ := x
    cases it with
    | int i => intro sc tc tc'; simp only [tensorShapes] at h; simp [srcIndex, ih h sc tc tc']
    | slice a b c => intro sc tc tc'; simp only [tensorShapes] at h; simp [srcIndex, ih h sc.tail tc tc']
    | ellipsis => intro sc tc tc'; simp only [tensorShapes] at h; simp [srcIndex, ih h sc.tail tc tc']
    | tensor sh vs => simp [tensorShapes] at h

theorem slicesBeforeT_le (zi : List (Nat × Item)) : slicesBeforeT (kinds zi) ≤ (sliceLens zi).length := by
  induction zi with
  | nil => simp [slicesBeforeT, sliceLens]
  | cons x rest ih =>
    obtain ⟨n, it⟩ := x
    cases it <;> simp [slicesBeforeT, sliceLens] <;> omega

/-- reading through the converted index = torch's reading, for every result coordinate -/
theorem convSrc_eq_specSrc (zi : List (Nat × Item)) (r : List Nat) (hr : (sliceLens zi).length ≤ r.length) :
    convSrc (bcAll (tensorShapes zi)).length zi r = specSrc (bcAll (tensorShapes zi)).length zi r := by
  have hk : kinds zi = zi.map (·.2.kind) := rfl
  have hsl := slicesBeforeT_le zi
  unfold convSrc specSrc
  rw [← hk]
  by_cases hm : movedToStart (kinds zi) = true
  · -- tensor dims at the front
    have hp : (if (tensorShapes zi).isEmpty then 0 else specPos (kinds zi)) = 0 := by
      split
      · rfl
      · cases hks : kinds zi with
        | nil => rw [hks] at hm; simp [movedToStart] at hm
        | cons a l => rw [hks] at hm; exact movedToStart_specPos' a l hm
    simp only [hm, if_true, hp]
    have := conv_after (bcAll (tensorShapes zi)).length 0 r (Nat.zero_le _) zi 0 (Nat.le_refl _)
    simpa [sliceCoords] using this
  · simp only [hm]
    have hb := conv_before (bcAll (tensorShapes zi)).length r zi 0 (slicesBeforeT (kinds zi)) (by omega) (by omega)
    rw [if_neg (by simp)] at *
    rw [hb]
    by_cases he : (tensorShapes zi).isEmpty = true
    · have he' : tensorShapes zi = [] := by simpa using he
      simp only [he, if_true, he', bcAll, List.length_nil, sliceCoords, Nat.add_zero, List.take_append_drop,
        List.drop_zero, List.take_zero, List.nil_append]
    · have hnm : hasTST (kinds zi) = false := by
        cases hks : kinds zi with
        | nil => rfl
        | cons a l =>
          have := movedToStart_cases a l
          rw [hks] at hm
          simp only [this, Bool.or_eq_true, not_or, Bool.not_eq_true] at hm
          exact hm.2
      simp only [he, specPos, hnm, sliceCoords]
      simp

theorem box_length : ∀ (sh : List Nat) (r : List Nat), r ∈ box sh → r.length = sh.length := by
  intro sh
  induction sh with
  | nil => intro r hr; simp [box] at hr; simp [hr]
  | cons n t ih =>
    intro r hr
    simp only [box, List.mem_flatMap, List.mem_range, List.mem_map] at hr
    obtain ⟨i, _, r', hr', rfl⟩ := hr
    simp [ih r' hr']

theorem specShape_length_ge (zi : List (Nat × Item)) : (sliceLens zi).length ≤ (specShape zi).length := by
  unfold specShape
  simp only
  split
  · exact Nat.le_refl _
  · simp only [List.length_append, List.length_take, List.length_drop]; omega

/-- vertical concatenation of matrices (pieces with their row counts), by recursion -/
def catRowsSpec : List ((Nat → Nat → Int) × Nat) → Nat → Nat → Int
  | [], _, _ => 0
  | (P, s) :: rest, i, j => if i < s then P i j else catRowsSpec rest (i - s) j

theorem catRows_entry (pieces : List ((Nat → Nat → Int) × Nat)) :
    ∀ i j, i < sumNat (pieces.map (·.2)) → catRowsGet pieces i j = catRowsSpec pieces i j := by
  have hsum : ∀ (l : List Nat) (a : Nat), l.foldl (· + ·) a = a + l.foldl (· + ·) 0 := by
    intro l; induction l with
    | nil => intro a; simp
    | cons x t iht => intro a; simp only [List.foldl_cons]; rw [iht (a + x), iht (0 + x)]; omega
  induction pieces with
  | nil => intro i j hi; simp [sumNat] at hi
  | cons P rest ih =>
    intro i j hi
    obtain ⟨A, s⟩ := P
    simp only [catRowsGet, List.map_cons, catLocate, catRowsSpec]
    by_cases h : i < s
    · simp [h]
    · simp only [h, if_false]
      have hi2 : i - s < sumNat (rest.map (·.2)) := by
        simp only [sumNat, List.map_cons, List.foldl_cons] at hi ⊢; rw [hsum] at hi; omega
      have := ih (i - s) j hi2
      simp only [catRowsGet] at this
      rw [← this]
      simp

end LinOp.C03
