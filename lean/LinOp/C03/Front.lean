import LinOp.C03.Ops
/-!
C03 — model of the `LinearOperator.__getitem__` front end (core Lean only, executable):
ellipsis expansion + padding, the `[-size, size)` range check, `_normalize_negative_index` (negative ints and
negative tensor entries wrap once), the dispatch rule `row_col_are_absorbed`, the tensor-index path
(`_convert_indices_to_tensors` → `_get_indices(row, col, *batch)`) and the debug-mode expected shape
(`_compute_getitem_size` on the normalised index).
-/
namespace LinOp.C03

/-- `_normalize_negative_index` for one index item of a dim of size `n` -/
def normItem (n : Nat) : Item → Item
  | .int i => .int (wrap n i)
  | .tensor sh vs => .tensor sh (vs.map fun v => ((wrap n v : Nat) : Int))
  | it => it

def normalise (zi : List (Nat × Item)) : List (Nat × Item) := zi.map fun x => (x.1, normItem x.1 x.2)

def isT : K → Bool | .T => true | _ => false

/-- `row_col_are_absorbed` computed from the (expanded) index tuple -/
def absorbedOf (zi : List (Nat × Item)) : Bool :=
  let ks := zi.map (·.2.kind)
  rowColAbsorbed ((ks.take (ks.length - 2)).any isT) (isT (ks.getD (ks.length - 2) .S)) (isT (ks.getD (ks.length - 1) .S))

/-- `op[idx]` for an operator with batch shape `bdims`, tensor-index path: `some (shape, row-major values)`;
`none` = IndexError (range check / too many indices) or the `_getitem` path (not modelled here). -/
def frontEnd (op : Opv) (bdims : List Nat) (idx : List Item) : Option (List Nat × List Int) :=
  let dims := bdims ++ [op.R, op.C]
  match expandEllipsis dims.length idx with
  | none => none
  | some e =>
    let zi := List.zip dims e
    if !(zi.all fun x => itemValid x && decide (0 < x.1)) then none
    else if !(decide (zi.length = bdims.length + 2) && decide ((zi.getD bdims.length (0, Item.ellipsis)).1 = op.R)
              && decide ((zi.getD (bdims.length + 1) (0, Item.ellipsis)).1 = op.C)) then none
    else
      let zn := normalise zi
      if absorbedOf zn then some (computeGetitemSize zn, getitemOp op zn) else none

end LinOp.C03
