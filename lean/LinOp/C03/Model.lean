/-!
C03 — executable model (core Lean only).

* `sliceStart/sliceStop/sliceLen/sliceIndices` : Python `slice.indices(n)` + `range(*…)` for positive steps.
* `Item`, `expandEllipsis`, `specShape`, `specElems` : the *specification* — torch basic + advanced indexing on
  shapes and on elements (which source multi-index each result multi-index reads).
* `computeGetitemSize`, `movedToStart` : models of `utils/getitem.py` (`_compute_getitem_size`,
  `_is_tensor_index_moved_to_start`), written as the same single left-to-right pass with the same state.
* per-class index arithmetic: `kronIdx` (Kronecker `_get_indices` div/fmod chain), `toepIdx`, `blockDiagIdx`,
  `blockInterIdx`, `batchRepeatIdx`, `catLocate` (`idx_to_tensor_idx` + cumulative offsets),
  `splitSliceBounds` (`CatLinearOperator._split_slice` as it is, with `%`), `intToSlice` (the `__getitem__`
  rewriting of an int in a matrix position).
-/
namespace LinOp.C03

/-! ## Python slices (step > 0) -/

def clampBound (n : Nat) (b : Int) : Nat :=
  if b < 0 then (b + n).toNat else min b.toNat n

def sliceStart (n : Nat) (s : Option Int) : Nat := match s with | none => 0 | some b => clampBound n b
def sliceStop (n : Nat) (s : Option Int) : Nat := match s with | none => n | some b => clampBound n b
def sliceStep (s : Option Int) : Nat := match s with | none => 1 | some k => k.toNat

/-- `len(range(*slice(a,b,c).indices(n)))` -/
def sliceLen (n : Nat) (a b c : Option Int) : Nat :=
  let lo := sliceStart n a; let hi := sliceStop n b; let st := sliceStep c
  if lo < hi then (hi - lo - 1) / st + 1 else 0

/-- `list(range(*slice(a,b,c).indices(n)))` -/
def sliceIndices (n : Nat) (a b c : Option Int) : List Nat :=
  (List.range (sliceLen n a b c)).map fun k => sliceStart n a + k * sliceStep c

/-! ## Index items and the torch specification -/

inductive Item where
  | int (i : Int)
  | slice (a b c : Option Int)
  | tensor (shape : List Nat) (vals : List Int)
  | ellipsis
  deriving Repr, DecidableEq, Inhabited

/-- what matters for the placement of the advanced-index dimensions -/
inductive K where | I | S | T deriving Repr, DecidableEq, Inhabited

def Item.kind : Item → K
  | .int _ => .I | .slice .. => .S | .tensor .. => .T | .ellipsis => .S

def isEll : Item → Bool | .ellipsis => true | _ => false

/-- ellipsis fill + padding with `:` (rank `d`); `none` for two ellipses or too many indices -/
def expandEllipsis (d : Nat) (idx : List Item) : Option (List Item) :=
  let full := Item.slice none none none
  let nE := (idx.filter isEll).length
  if nE > 1 then none
  else if nE = 1 then
    if idx.length - 1 > d then none
    else
      let pre := idx.takeWhile (fun i => !isEll i)
      let post := (idx.dropWhile (fun i => !isEll i)).drop 1
      some (pre ++ List.replicate (d - (idx.length - 1)) full ++ post)
  else if idx.length > d then none
  else some (idx ++ List.replicate (d - idx.length) full)

/-- numpy/torch broadcast of two shapes (right aligned); `none` if incompatible -/
def bcast2 (a b : List Nat) : Option (List Nat) :=
  let la := a.length; let lb := b.length
  let a' := List.replicate (lb - la) 1 ++ a
  let b' := List.replicate (la - lb) 1 ++ b
  (List.zip a' b').mapM fun (x, y) => if x = y then some x else if x = 1 then some y else if y = 1 then some x else none

/-- total version used in the shape theorems (the error case is handled separately) -/
def bc (a b : List Nat) : List Nat := (bcast2 a b).getD []

def hasT : List K → Bool
  | [] => false | .T :: _ => true | _ :: r => hasT r
/-- some slice is followed (later) by a tensor -/
def hasST : List K → Bool
  | [] => false | .S :: r => hasT r | _ :: r => hasST r
/-- tensor … slice … tensor : the tensor positions are NOT adjacent (ints do not count: torch applies them first) -/
def hasTST : List K → Bool
  | [] => false | .T :: r => hasST r | _ :: r => hasTST r
/-- number of slices before the first tensor -/
def slicesBeforeT : List K → Nat
  | [] => 0 | .T :: _ => 0 | .S :: r => slicesBeforeT r + 1 | .I :: r => slicesBeforeT r

/-- lengths contributed by the slices, in order -/
def sliceLens : List (Nat × Item) → List Nat
  | [] => []
  | (n, .slice a b c) :: r => sliceLen n a b c :: sliceLens r
  | (n, .ellipsis) :: r => n :: sliceLens r
  | _ :: r => sliceLens r

def tensorShapes : List (Nat × Item) → List (List Nat)
  | [] => []
  | (_, .tensor sh _) :: r => sh :: tensorShapes r
  | _ :: r => tensorShapes r

def bcAll : List (List Nat) → List Nat
  | [] => []
  | s :: r => r.foldl bc s

/-- where the broadcast tensor dims go among the slice dims -/
def specPos (ks : List K) : Nat := if hasTST ks then 0 else slicesBeforeT ks

/-- **Spec**: shape of `x[idx]` for `x` of shape `dims`, `idx` already ellipsis-expanded (same length) -/
def specShape (zi : List (Nat × Item)) : List Nat :=
  let ls := sliceLens zi
  match tensorShapes zi with
  | [] => ls
  | shs => let p := specPos (zi.map (·.2.kind)); ls.take p ++ bcAll shs ++ ls.drop p

/-- validity of an expanded index: ints / tensor entries in range, tensors broadcast, data sizes right -/
def inRange (n : Nat) (i : Int) : Bool := decide (-(n : Int) ≤ i ∧ i < n)

def tensorsBroadcast : List (List Nat) → Option (List Nat)
  | [] => some []
  | s :: r => r.foldlM bcast2 s

def itemValid : Nat × Item → Bool
  | (n, .int i) => inRange n i
  | (n, .tensor sh vs) => vs.length == sh.foldl (· * ·) 1 && vs.all (inRange n)
  | (_, .slice _ _ c) => match c with | none => true | some k => decide (k > 0)
  | (_, .ellipsis) => true

def getitemShape? (dims : List Nat) (idx : List Item) : Option (List Nat) := do
  let e ← expandEllipsis dims.length idx
  let zi := List.zip dims e
  if !(zi.all itemValid) then none
  let _ ← tensorsBroadcast (tensorShapes zi)
  pure (specShape zi)

/-! ### element map -/

def wrap (n : Nat) (i : Int) : Nat := if i < 0 then (i + n).toNat else i.toNat

/-- all multi-indices of a box, row-major -/
def box : List Nat → List (List Nat)
  | [] => [[]]
  | n :: r => (List.range n).flatMap fun i => (box r).map (i :: ·)

def flatIndex (dims idx : List Nat) : Nat :=
  (List.zip dims idx).foldl (fun acc (n, i) => acc * n + i) 0

/-- value of a broadcast tensor index (shape `sh`, row-major `vs`) at coordinate `tc` of the broadcast shape -/
def tensorAt (sh : List Nat) (vs : List Int) (tc : List Nat) : Int :=
  let tc' := tc.drop (tc.length - sh.length)
  let c := (List.zip sh tc').map fun (n, i) => if n = 1 then 0 else i
  vs.getD (flatIndex sh c) 0

/-- source multi-index read by the result element whose slice coordinates are `sc` and tensor coordinates `tc` -/
def srcIndex : List (Nat × Item) → List Nat → List Nat → List Nat
  | [], _, _ => []
  | (n, .int i) :: r, sc, tc => wrap n i :: srcIndex r sc tc
  | (n, .slice a _ c) :: r, sc, tc => (sliceStart n a + sc.headD 0 * sliceStep c) :: srcIndex r sc.tail tc
  | (_, .ellipsis) :: r, sc, tc => sc.headD 0 :: srcIndex r sc.tail tc
  | (n, .tensor sh vs) :: r, sc, tc => wrap n (tensorAt sh vs tc) :: srcIndex r sc tc

/-- **Spec**: row-major list of flat source offsets of `x[idx]` -/
def specElems (dims : List Nat) (zi : List (Nat × Item)) : List Nat :=
  let ls := sliceLens zi
  let shs := tensorShapes zi
  let p := if shs.isEmpty then 0 else specPos (zi.map (·.2.kind))
  let tsh := bcAll shs
  (box (specShape zi)).map fun r =>
    let pre := r.take p
    let tc := (r.drop p).take tsh.length
    let post := r.drop (p + tsh.length)
    flatIndex dims (srcIndex zi (pre ++ post) tc)

/-! ## Model of `_compute_getitem_size` (same pass, same state variables) -/

structure St where
  final : List Nat
  tidx : Option Nat
  tshape : List Nat
  sliceAfter : Bool
  deriving Repr

def St.init : St := ⟨[], none, [], false⟩

def stepSize (st : St) (x : Nat × Item) : St :=
  match x.2 with
  | .slice a b c => { st with final := st.final ++ [sliceLen x.1 a b c], sliceAfter := st.sliceAfter || st.tidx.isSome }
  | .ellipsis => { st with final := st.final ++ [x.1], sliceAfter := st.sliceAfter || st.tidx.isSome }
  | .int _ => st
  | .tensor sh _ =>
    match st.tidx with
    | none => { st with tshape := sh, tidx := some st.final.length }
    | some k => { st with tshape := bc st.tshape sh, tidx := if st.sliceAfter then some 0 else some k }

def St.finish (st : St) : List Nat :=
  match st.tidx with
  | none => st.final
  | some k => st.final.take k ++ st.tshape ++ st.final.drop k

def computeGetitemSize (zi : List (Nat × Item)) : List Nat := (zi.foldl stepSize St.init).finish

/-! ## Model of `_is_tensor_index_moved_to_start` -/

def movedGo : Bool → Bool → List K → Bool
  | _, _, [] => false
  | hasTensor, cont, .T :: r => if !hasTensor then movedGo true cont r else if !cont then true else movedGo hasTensor cont r
  | hasTensor, cont, .S :: r => if hasTensor then movedGo hasTensor false r else movedGo hasTensor cont r
  | hasTensor, cont, .I :: r => movedGo hasTensor cont r

def movedToStart : List K → Bool
  | [] => false
  | .T :: _ => true
  | _ :: r => movedGo false true r

/-! ## `__getitem__`: int in a matrix position → normalise, then `slice(i, i+1)` -/

/-- the rewriting before commit 11686d1 (no normalisation of negative ints) -/
def intToSliceOld (i : Int) : Item := .slice (some i) (some (i + 1)) none
/-- the rewriting as the code is: `if i < 0: i += size` then `slice(i, i + 1, None)` -/
def intToSlice (n : Nat) (i : Int) : Item :=
  let j : Int := if i < 0 then i + n else i
  .slice (some j) (some (j + 1)) none

/-- rule choosing `_get_indices` (true) vs `_getitem` -/
def rowColAbsorbed (batchHasT rowT colT : Bool) : Bool :=
  (batchHasT && (rowT || colT)) || (!batchHasT && (rowT && colT))

/-! ## per-class index arithmetic -/

/-- Kronecker `_get_indices`: `factor //= n_k ; idx_k = (i div factor) fmod n_k`, for every factor -/
def kronIdxGo (factor : Nat) : List Nat → Nat → List Nat
  | [], _ => []
  | n :: r, i => let f := factor / n; ((i / f) % n) :: kronIdxGo f r i

def kronIdx (ns : List Nat) (i : Nat) : List Nat := kronIdxGo (ns.foldl (· * ·) 1) ns i

/-- torch `fmod` (truncating) on integers -/
def fmod (a : Int) (n : Nat) : Int := Int.tmod a n

/-- Toeplitz `_get_indices`: `(row - col).fmod(n).abs()` -/
def toepIdx (n : Nat) (i j : Int) : Nat := (fmod (i - j) n).natAbs

/-- BlockDiag `_get_indices`: (block, row in block, col in block, on-diagonal-block?) for blocks of size m×n -/
def blockDiagIdx (m n i j : Nat) : Nat × Nat × Nat × Bool := (i / m, i % m, j % n, i / m == j / n)

/-- BlockInterleaved `_get_indices` for `k` blocks -/
def blockInterIdx (k i j : Nat) : Nat × Nat × Nat × Bool := (i % k, i / k, j / k, i % k == j % k)

/-- BatchRepeat `_get_indices`: batch index `fmod` base batch size -/
def batchRepeatIdx (s b : Nat) : Nat := b % s

/-- Cat: piece number and local index of global index `i` (`idx_to_tensor_idx`, `cat_dim_cum_sizes`) -/
def catLocate : List Nat → Nat → Nat × Nat
  | [], i => (0, i)
  | s :: r, i => if i < s then (0, i) else let (p, l) := catLocate r (i - s); (p + 1, l)

def pyMod (a : Int) (n : Nat) : Nat := (a % (n : Int)).toNat

def sumNat (l : List Nat) : Nat := l.foldl (· + ·) 0

/-- shared tail of `_split_slice`: from the normalised `start`, `stop` to
(first piece, start in it, last piece, stop in it); `idx_to_tensor_idx[stop - 1]` wraps for `stop = 0` like Python's `[-1]` -/
def splitFrom (sizes : List Nat) (start stop : Nat) : Nat × Nat × Nat × Nat :=
  let n := sumNat sizes
  let fp := (catLocate sizes start).1
  let fl := (catLocate sizes start).2
  let lastIdx := if stop = 0 then n - 1 else stop - 1
  let lp := (catLocate sizes lastIdx).1
  (fp, fl, lp, stop - sumNat (sizes.take lp))

/-- `CatLinearOperator._split_slice` (step None) as the code is (commit d38a2f1): bounds via `slice.indices(cat_size)` -/
def splitSliceBounds (sizes : List Nat) (a b : Option Int) : Nat × Nat × Nat × Nat :=
  splitFrom sizes (sliceStart (sumNat sizes) a) (sliceStop (sumNat sizes) b)

/-- the previous code: bounds via `% cat_size` -/
def splitSliceBoundsOld (sizes : List Nat) (a b : Option Int) : Nat × Nat × Nat × Nat :=
  let n := sumNat sizes
  splitFrom sizes (match a with | none => 0 | some s => pyMod s n) (match b with | none => n | some s => pyMod s n)

end LinOp.C03

namespace LinOp.C03

/-! ## Model of `_convert_indices_to_tensors` (read side)

The library turns every index into a tensor index padded with singleton dims so that all of them broadcast to the
final result shape.  `num_singletons_before` (`nsb`) is the result dim a converted slice occupies; the tensor
indices occupy the `k` dims starting at `num_singletons_before_tensor` (`tstart`).  Indexing with the converted
tuple therefore reads, for result coordinate `r`, the source index computed by `convGo`. -/

def convGo (k : Nat) : Nat → Option Nat → List (Nat × Item) → List Nat → List Nat
  | _, _, [], _ => []
  | nsb, ts, (n, .int i) :: rest, r => wrap n i :: convGo k nsb ts rest r
  | nsb, ts, (n, .slice a _ c) :: rest, r => (sliceStart n a + r.getD nsb 0 * sliceStep c) :: convGo k (nsb + 1) ts rest r
  | nsb, ts, (_, .ellipsis) :: rest, r => r.getD nsb 0 :: convGo k (nsb + 1) ts rest r
  | nsb, none, (n, .tensor sh vs) :: rest, r =>
      wrap n (tensorAt sh vs ((r.drop nsb).take k)) :: convGo k (nsb + k) (some nsb) rest r
  | nsb, some tb, (n, .tensor sh vs) :: rest, r =>
      wrap n (tensorAt sh vs ((r.drop tb).take k)) :: convGo k nsb (some tb) rest r

/-- source multi-index read at result coordinate `r` by `x[_convert_indices_to_tensors(x, idx)]`;
`k` = rank of the broadcast tensor-index shape -/
def convSrc (k : Nat) (zi : List (Nat × Item)) (r : List Nat) : List Nat :=
  if movedToStart (zi.map (·.2.kind)) then convGo k k (some 0) zi r else convGo k 0 none zi r

/-- source multi-index torch reads at result coordinate `r` (the spec; same split of `r` as `specElems`) -/
def specSrc (k : Nat) (zi : List (Nat × Item)) (r : List Nat) : List Nat :=
  let p := if (tensorShapes zi).isEmpty then 0 else specPos (zi.map (·.2.kind))
  srcIndex zi (r.take p ++ r.drop (p + k)) ((r.drop p).take k)

/-- row-major flat offsets read through the converted all-tensor index -/
def convElems (dims : List Nat) (zi : List (Nat × Item)) : List Nat :=
  (box (specShape zi)).map fun r => flatIndex dims (convSrc (bcAll (tensorShapes zi)).length zi r)

end LinOp.C03

namespace LinOp.C03

/-! ## `__getitem__` through `_get_indices` (matrix dims absorbed by tensor indices), unbatched operator

`cls i j` is the class's `_get_indices` arithmetic for one (row, col) pair; `__getitem__` feeds it the converted
indices (`convSrc`) for every result coordinate. -/

def getitemViaGetIndices (cls : Nat → Nat → Int) (zi : List (Nat × Item)) : List Int :=
  (box (specShape zi)).map fun r =>
    let s := convSrc (bcAll (tensorShapes zi)).length zi r
    cls (s.getD 0 0) (s.getD 1 0)

/-- torch indexing of the dense matrix `dense` (spec) -/
def denseGetitem (dense : Nat → Nat → Int) (zi : List (Nat × Item)) : List Int :=
  (box (specShape zi)).map fun r =>
    let s := specSrc (bcAll (tensorShapes zi)).length zi r
    dense (s.getD 0 0) (s.getD 1 0)

/-- `DiagLinearOperator._get_indices`: `diag[row] * (row == col)` -/
def diagGet (d : Nat → Int) (i j : Nat) : Int := d i * (if i == j then 1 else 0)

/-- `BlockDiagLinearOperator._get_indices` for square-or-rectangular blocks `m × n` -/
def blockDiagGet (m n : Nat) (Bs : List (Nat → Nat → Int)) (i j : Nat) : Int :=
  if (blockDiagIdx m n i j).2.2.2 then
    (Bs.getD (blockDiagIdx m n i j).1 (fun _ _ => 0)) (blockDiagIdx m n i j).2.1 (blockDiagIdx m n i j).2.2.1
  else 0

/-- `CatLinearOperator._get_indices` along the rows: piece by `idx_to_tensor_idx`, local row by the cumulative offset -/
def catRowsGet (pieces : List ((Nat → Nat → Int) × Nat)) (i j : Nat) : Int :=
  let pl := catLocate (pieces.map (·.2)) i
  (pieces.getD pl.1 (fun _ _ => 0, 0)).1 pl.2 j

end LinOp.C03
