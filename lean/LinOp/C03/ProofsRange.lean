import LinOp.C03.ProofsConvert
import Mathlib.Data.List.Forall2
/-! Every source index torch reads for a VALID index tuple is in range (discharges the `hin` hypothesis of the
refinement theorems): ints / tensor entries by the range check at the top of `__getitem__`, slices by
`slice.indices`, result coordinates by membership in the result box. -/
namespace LinOp.C03

theorem box_forall₂ : ∀ (sh r : List Nat), r ∈ box sh → List.Forall₂ (· < ·) r sh := by
  intro sh
  induction sh with
  | nil => intro r hr; simp [box] at hr; subst hr; exact List.Forall₂.nil
  | cons n t ih =>
    intro r hr
    simp only [box, List.mem_flatMap, List.mem_range, List.mem_map] at hr
    obtain ⟨i, hi, r', hr', rfl⟩ := hr
    exact List.Forall₂.cons hi (ih r' hr')

theorem wrap_lt (n : Nat) (i : Int) (h : inRange n i = true) : wrap n i < n := by
  simp only [inRange, decide_eq_true_eq] at h
  unfold wrap; split <;> omega

theorem tensorAt_inRange (n : Nat) (hn : 0 < n) (sh : List Nat) (vs : List Int) (tc : List Nat)
    (h : vs.all (inRange n) = true) : inRange n (tensorAt sh vs tc) = true := by
  unfold tensorAt
  simp only [List.getD_eq_getElem?_getD]
  cases hg : vs[flatIndex sh ((List.zip sh (tc.drop (tc.length - sh.length))).map fun x => if x.1 = 1 then 0 else x.2)]? with
  | none => simp [inRange]; omega
  | some v =>
    have hm : v ∈ vs := List.mem_of_getElem? hg
    simpa using List.all_eq_true.mp h v hm

/-- the step of a valid slice item is positive -/
theorem sliceStep_pos_of_valid (n : Nat) (a b c : Option Int) (h : itemValid (n, Item.slice a b c) = true) :
    0 < sliceStep c := by
  cases c with
  | none => simp [sliceStep]
  | some k => simp only [itemValid, decide_eq_true_eq] at h; simp only [sliceStep]; omega

theorem slice_src_lt (n : Nat) (a b c : Option Int) (hc : 0 < sliceStep c) (q : Nat) (hq : q < sliceLen n a b c) :
    sliceStart n a + q * sliceStep c < n := by
  have hstop : sliceStop n b ≤ n := by
    unfold sliceStop; split
    · exact Nat.le_refl n
    · unfold clampBound; split <;> omega
  unfold sliceLen at hq
  simp only at hq
  split at hq
  · have : q * sliceStep c ≤ sliceStop n b - sliceStart n a - 1 := by
      have h1 : q ≤ (sliceStop n b - sliceStart n a - 1) / sliceStep c := by omega
      calc q * sliceStep c ≤ ((sliceStop n b - sliceStart n a - 1) / sliceStep c) * sliceStep c := Nat.mul_le_mul_right _ h1
        _ ≤ _ := Nat.div_mul_le_self _ _
    omega
  · omega

/-- source indices are in range, given in-range slice coordinates -/
theorem srcIndex_bound (tc : List Nat) : ∀ (zi : List (Nat × Item)) (sc : List Nat),
    (∀ x ∈ zi, itemValid x = true ∧ 0 < x.1) → List.Forall₂ (· < ·) sc (sliceLens zi) →
    List.Forall₂ (fun s (x : Nat × Item) => s < x.1) (srcIndex zi sc tc) zi := by
  intro zi
  induction zi with
  | nil => intro sc _ _; exact List.Forall₂.nil
  | cons x rest ih =>
    intro sc hv hsc
    obtain ⟨n, it⟩ := x
    have hx := hv (n, it) (List.mem_cons_self ..)
    have hrest : ∀ y ∈ rest, itemValid y = true ∧ 0 < y.1 := fun y hy => hv y (List.mem_cons_of_mem _ hy)
    cases it with
    | int i =>
      simp only [srcIndex, sliceLens] at hsc ⊢
      exact List.Forall₂.cons (wrap_lt n i (by simpa [itemValid] using hx.1)) (ih sc hrest hsc)
    | slice a b c =>
      simp only [srcIndex, sliceLens] at hsc ⊢
      cases hsc with
      | cons h1 h2 =>
        exact List.Forall₂.cons (slice_src_lt n a b c (sliceStep_pos_of_valid n a b c hx.1) _ h1) (ih _ hrest h2)
    | ellipsis =>
      simp only [srcIndex, sliceLens] at hsc ⊢
      cases hsc with
      | cons h1 h2 => exact List.Forall₂.cons h1 (ih _ hrest h2)
    | tensor sh vs =>
      simp only [srcIndex, sliceLens] at hsc ⊢
      have hall : vs.all (inRange n) = true := by
        have := hx.1; simp only [itemValid, Bool.and_eq_true] at this; exact this.2
      exact List.Forall₂.cons (wrap_lt n _ (tensorAt_inRange n hx.2 sh vs tc hall)) (ih sc hrest hsc)

theorem specShape_eq (zi : List (Nat × Item)) :
    specShape zi = (sliceLens zi).take (if (tensorShapes zi).isEmpty then 0 else specPos (zi.map (·.2.kind)))
      ++ bcAll (tensorShapes zi)
      ++ (sliceLens zi).drop (if (tensorShapes zi).isEmpty then 0 else specPos (zi.map (·.2.kind))) := by
  unfold specShape
  cases h : tensorShapes zi with
  | nil => simp [bcAll]
  | cons s t => simp

theorem specPos_le (zi : List (Nat × Item)) :
    (if (tensorShapes zi).isEmpty then 0 else specPos (zi.map (·.2.kind))) ≤ (sliceLens zi).length := by
  split
  · exact Nat.zero_le _
  · unfold specPos
    split
    · exact Nat.zero_le _
    · exact slicesBeforeT_le zi

/-- **every source index read by torch for a valid index is in range** -/
theorem specSrc_inRange (zi : List (Nat × Item)) (hv : ∀ x ∈ zi, itemValid x = true ∧ 0 < x.1)
    (r : List Nat) (hr : r ∈ box (specShape zi)) :
    List.Forall₂ (fun s (x : Nat × Item) => s < x.1) (specSrc (bcAll (tensorShapes zi)).length zi r) zi := by
  unfold specSrc
  apply srcIndex_bound _ zi _ hv
  have hb := box_forall₂ _ r hr
  rw [specShape_eq] at hb
  have hp := specPos_le zi
  generalize (if (tensorShapes zi).isEmpty then 0 else specPos (zi.map (·.2.kind))) = p at hb hp ⊢
  have hA : ((sliceLens zi).take p).length = p := by simp [List.length_take]; omega
  have h1 := List.forall₂_take p hb
  rw [List.append_assoc, List.take_left' hA] at h1
  have h2 := List.forall₂_drop (p + (bcAll (tensorShapes zi)).length) hb
  rw [List.drop_left' (by simp [List.length_append, hA])] at h2
  have := List.rel_append h1 h2
  simp only [List.take_append_drop] at this
  exact this

theorem forall₂_getD_lt (s : List Nat) (zi : List (Nat × Item))
    (h : List.Forall₂ (fun s (x : Nat × Item) => s < x.1) s zi) (i : Nat) (hi : i < zi.length) :
    s.getD i 0 < (zi.getD i (0, Item.ellipsis)).1 := by
  have hl := h.length_eq
  have := h.get (i := i) (by omega) hi
  simpa [List.getD_eq_getElem?_getD, hi, show i < s.length by omega] using this

end LinOp.C03
