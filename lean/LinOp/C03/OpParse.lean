import LinOp.Core.Parse
import LinOp.C03.Front
import LinOp.C03.InterpRoot
/-! Prefix-expression parser building operator values (`Opv`) for the driver (core only).

`D shape vals` dense · `G shape vals` Diag (`_diag` tensor) · `Z R C` · `T shape vals` Toeplitz column ·
`K n op…` · `BD k op` · `BI k op` · `SB k op` · `BR sizes op` · `CR C n op…` · `CC R n op…` · `CB R C pos n (size op)…` ·
`IP R C shape lidx lval shape ridx rval op` · `IPR … root` (Interpolated over Root(dense): fast-path `_diagonal`) · `TR op` · `RT 0|1 op` · `MM mode a b` · `SU R C n op…` ·
`CM shape vals op` · `MU a b` · `MK rowmap colmap op` · `TP m` · `FB shape vals` (base-class fallback over dense data). -/
namespace LinOp.C03
open LinOp.Parse

def pShape (s : String) : Option (List Nat) := if s = "-" then some [] else (s.splitOn "x").mapM String.toNat?
def pInts (s : String) : Option (Array Int) := if s = "-" then some #[] else (parseInts? s).map List.toArray
def pNats (s : String) : Option (List Nat) := if s = "-" then some [] else parseNats? s

def rd (shape : List Nat) (vals : Array Int) (idx : List Nat) : Int := vals.getD (flatIndex shape idx) 0

def lastTwo (shape : List Nat) : Nat × Nat := (shape.getD (shape.length - 2) 0, shape.getD (shape.length - 1) 0)

def interpList (shape : List Nat) (idx vals : Array Int) (b : List Nat) (i : Nat) : List (Nat × Int) :=
  (List.range (shape.getD (shape.length - 1) 0)).map fun p => ((rd shape idx (b ++ [i, p])).toNat, rd shape vals (b ++ [i, p]))

mutual
def parseOp : Nat → List String → Option (Opv × List String)
  | 0, _ => none
  | fuel + 1, toks =>
    match toks with
    | "D" :: sh :: vs :: rest => do
        let shape ← pShape sh; let vals ← pInts vs
        pure (Opv.dense (lastTwo shape).1 (lastTwo shape).2 (fun b i j => rd shape vals (b ++ [i, j])), rest)
    | "FB" :: sh :: vs :: rest => do
        let shape ← pShape sh; let vals ← pInts vs
        pure (Opv.fallback (lastTwo shape).1 (lastTwo shape).2 (fun b i j => rd shape vals (b ++ [i, j])), rest)
    | "G" :: sh :: vs :: rest => do
        let shape ← pShape sh; let vals ← pInts vs
        pure (Opv.diag (shape.getD (shape.length - 1) 0) (fun b i => rd shape vals (b ++ [i])), rest)
    | "T" :: sh :: vs :: rest => do
        let shape ← pShape sh; let vals ← pInts vs
        pure (Opv.toeplitz (shape.getD (shape.length - 1) 0) (fun b i => rd shape vals (b ++ [i])), rest)
    | "Z" :: r :: c :: rest => do pure (Opv.zero (← r.toNat?) (← c.toNat?), rest)
    | "TP" :: m :: rest => do pure (Opv.transPerm (← m.toNat?), rest)
    | "K" :: n :: rest => do
        let (fs, rest) ← parseOps fuel (← n.toNat?) rest
        pure (Opv.kron fs, rest)
    | "BD" :: k :: rest => do let (o, rest) ← parseOp fuel rest; pure (Opv.blockDiag (← k.toNat?) o, rest)
    | "BI" :: k :: rest => do let (o, rest) ← parseOp fuel rest; pure (Opv.blockInter (← k.toNat?) o, rest)
    | "SB" :: k :: rest => do let (o, rest) ← parseOp fuel rest; pure (Opv.sumBatch (← k.toNat?) o, rest)
    | "BR" :: sz :: rest => do let (o, rest) ← parseOp fuel rest; pure (Opv.batchRepeat (← pShape sz) o, rest)
    | "CR" :: c :: n :: rest => do
        let (ps, rest) ← parseOps fuel (← n.toNat?) rest
        pure (Opv.catRows (← c.toNat?) ps, rest)
    | "CC" :: r :: n :: rest => do
        let (ps, rest) ← parseOps fuel (← n.toNat?) rest
        pure (Opv.catCols (← r.toNat?) ps, rest)
    | "CB" :: r :: c :: pos :: n :: rest => do
        let (ps, rest) ← parseSized fuel (← n.toNat?) rest
        pure (Opv.catBatch (← r.toNat?) (← c.toNat?) (← pos.toNat?) ps, rest)
    | "IP" :: r :: c :: lsh :: lidx :: lval :: rsh :: ridx :: rval :: rest => do
        let ls ← pShape lsh; let li ← pInts lidx; let lv ← pInts lval
        let rs ← pShape rsh; let ri ← pInts ridx; let rv ← pInts rval
        let (o, rest) ← parseOp fuel rest
        pure (Opv.interp (← r.toNat?) (← c.toNat?) (interpList ls li lv) (interpList rs ri rv) o, rest)
    | "IPR" :: r :: c :: lsh :: lidx :: lval :: rsh :: ridx :: rval :: rest => do
        -- Interpolated over Root(dense root): `_diagonal` takes the fast path; the operand is the ROOT
        let ls ← pShape lsh; let li ← pInts lidx; let lv ← pInts lval
        let rs ← pShape rsh; let ri ← pInts ridx; let rv ← pInts rval
        let (o, rest) ← parseOp fuel rest
        pure (Opv.interpRoot (← r.toNat?) (← c.toNat?) (interpList ls li lv) (interpList rs ri rv) o, rest)
    | "TR" :: rest => do let (o, rest) ← parseOp fuel rest; pure (Opv.tri o, rest)
    | "RT" :: d :: rest => do let (o, rest) ← parseOp fuel rest; pure (Opv.root (d = "1") o, rest)
    | "MM" :: mode :: rest => do
        let (a, rest) ← parseOp fuel rest
        let (b, rest) ← parseOp fuel rest
        pure (Opv.matmul (← mode.toNat?) a b, rest)
    | "SU" :: r :: c :: n :: rest => do
        let (ps, rest) ← parseOps fuel (← n.toNat?) rest
        pure (Opv.sum (← r.toNat?) (← c.toNat?) ps, rest)
    | "CM" :: sh :: vs :: rest => do
        let shape ← pShape sh; let vals ← pInts vs
        let (o, rest) ← parseOp fuel rest
        pure (Opv.constMul (fun b => rd shape vals b) o, rest)
    | "MU" :: rest => do
        let (a, rest) ← parseOp fuel rest
        let (b, rest) ← parseOp fuel rest
        pure (Opv.mul a b, rest)
    | "MK" :: rm :: cm :: rest => do
        let (o, rest) ← parseOp fuel rest
        pure (Opv.masked (← pNats rm) (← pNats cm) o, rest)
    | _ => none
def parseOps : Nat → Nat → List String → Option (List Opv × List String)
  | 0, _, _ => none
  | _ + 1, 0, toks => some ([], toks)
  | fuel + 1, n + 1, toks => do
      let (o, r) ← parseOp fuel toks
      let (os, r') ← parseOps fuel n r
      pure (o :: os, r')
def parseSized : Nat → Nat → List String → Option (List (Nat × Opv) × List String)
  | 0, _, _ => none
  | _ + 1, 0, toks => some ([], toks)
  | fuel + 1, n + 1, toks =>
    match toks with
    | s :: toks => do
      let (o, r) ← parseOp fuel toks
      let (os, r') ← parseSized fuel n r
      pure ((← s.toNat?, o) :: os, r')
    | [] => none
end

def showInts (l : List Int) : String := if l.isEmpty then "-" else ",".intercalate (l.map toString)

/-- all entries of `gi`, `den` (row-major over batch × R × C) and of `dg` (batch × R; `-` if not square) -/
def opAll (op : Opv) (bshape : List Nat) : String :=
  let bs := box bshape
  let gi := bs.flatMap fun b => (List.range op.R).flatMap fun i => (List.range op.C).map fun j => op.gi b i j
  let den := bs.flatMap fun b => (List.range op.R).flatMap fun i => (List.range op.C).map fun j => op.den b i j
  let dg := if op.R = op.C then showInts (bs.flatMap fun b => (List.range op.R).map fun k => op.dg b k) else "-"
  s!"R={op.R}|C={op.C}|gi={showInts gi}|den={showInts den}|dg={dg}"

end LinOp.C03
