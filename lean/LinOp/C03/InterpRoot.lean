import LinOp.C03.Ops
/-!
C03 — `InterpolatedLinearOperator._diagonal`, fast path for a base `RootLinearOperator` over a dense root (core Lean, executable):

    left_interp_vals  = left_interp(left_interp_indices,  left_interp_values,  root.to_dense())
    right_interp_vals = left_interp(right_interp_indices, right_interp_values, root.to_dense())
    return (left_interp_vals * right_interp_vals).sum(-1)

`left_interp(idx, vals, M)[k, c] = Σ_p vals[k, p] · M[idx[k, p], c]`.
-/
namespace LinOp.C03

/-- `left_interp(interp_indices, interp_values, M)[k, c]` for the (index, value) list of row `k` -/
def leftInterp (row : List (Nat × Int)) (M : Nat → Nat → Int) (c : Nat) : Int :=
  (row.map fun p => p.2 * M p.1 c).sum

/-- the fast path: `(left_interp_vals * right_interp_vals).sum(-1)` at position `k` of batch `b` -/
def interpRootDiag (li ri : List Nat → Nat → List (Nat × Int)) (rt : Opv) (b : List Nat) (k : Nat) : Int :=
  sumTo rt.C fun c => leftInterp (li b k) (rt.den b) c * leftInterp (ri b k) (rt.den b) c

/-- `InterpolatedLinearOperator(RootLinearOperator(dense root), …)`: `_get_indices` as for every Interpolated operator,
`_diagonal` by the fast path -/
def Opv.interpRoot (R C : Nat) (li ri : List Nat → Nat → List (Nat × Int)) (rt : Opv) : Opv :=
  { Opv.interp R C li ri (Opv.root true rt) with dg := interpRootDiag li ri rt }

end LinOp.C03
