/-
C14 — model of the flatten / rebuild / copy / convert machinery of `LinearOperator`.  Core Lean only.

Mirrors
  `LinearOperator.__init__`            : `init` (args kept; kwargs sorted by name and split into
                                          differentiable = tensor/operator valued and the rest)
  per-class constructors               : `construct` = class specific argument normalisation
                                          (`normalise`: `to_linear_operator` wrapping, Triangular unwrapping,
                                          Cat's negative `dim`) followed by the generic parameter binding described
                                          by a `Layout` (which parameters reach `LinearOperator.__init__`
                                          positionally / as keywords, which are only kept as attributes
                                          (`hidden`, e.g. `CholLinearOperator.upper`), which are consumed).
                                          The layout table is *generated from the source* (Generated/C14Classes).
  `representation()`                   : `rep`   (depth first, args then differentiable kwargs)
  `LinearOperatorRepresentationTree`   : `tree` (counter, index / slice children) and `call` (rebuild)
  `clone/detach/to/type/double/float`  : `conv` with the `to` overrides of Interpolated / Masked / Identity / Cat
                                          and the `type` overrides of Identity / TransposePermutation
  `_set_requires_grad`                 : `setRG`
  `dtype` property and its overrides   : `dtypeOf`
A tensor is a `Leaf` (dtype tag, shape, identity of its storage, fresh-storage flag, requires_grad).
-/
namespace LinOp.C14

inductive DT | f16 | f32 | f64 | i64 | bool
  deriving DecidableEq, Repr, Inhabited

def DT.isFloat : DT → Bool
  | .f16 | .f32 | .f64 => true
  | _ => false

structure Leaf where
  dt : DT
  shape : List Nat
  id : Nat
  fresh : Bool
  rg : Bool
  deriving DecidableEq, Repr

inductive Val
  | int (i : Int) | bool (b : Bool) | none | str (s : String) | ints (l : List Int) | dt (d : DT)
  deriving DecidableEq, Repr

abbrev KV := List (String × Val)

/-- A constructor argument: a tensor, a non-tensor value, or an operator
    `node cls args dkwNames dkwVals nondiffKwargs hiddenAttributes`. -/
inductive Op where
  | leaf (l : Leaf)
  | val (v : Val)
  | node (cls : String) (args : List Op) (dn : List String) (dv : List Op) (nkw : KV) (hid : KV)
  deriving Repr

structure Layout where
  npos : Nat                              -- leading named parameters stored positionally
  vararg : Bool                           -- `*args` stored positionally
  posNames : List String                  -- named positional-or-keyword parameters, in order
  kwStored : List (String × Option Val)   -- parameters forwarded as keywords (default, `none` = required)
  varkw : Bool                            -- `**kwargs` forwarded
  hidden : KV                             -- parameters only kept as attributes (never reach `_kwargs`), defaults
  consumed : List String                  -- parameters neither forwarded nor kept
  deriving Repr, DecidableEq

structure Cfg where
  layout : String → Option Layout
  defaultDT : DT
  /-- does the base-class `LinearOperator.to` leave integer / boolean tensors alone when the target dtype is floating?
      (generated from the source: today it casts every tensor argument and keyword, D18 / D32) -/
  baseToGuard : Bool

/-! ### flatten -/

def Op.isDiff : Op → Bool
  | .val _ => false
  | _ => true

mutual
def rep : Op → List Leaf
  | .leaf l => [l]
  | .val _ => []
  | .node _ a _ d _ _ => repL a ++ repL d
def repL : List Op → List Leaf
  | [] => []
  | x :: xs => rep x ++ repL xs
end

/- `representation()` raises on a non-tensor, non-operator positional argument (e.g. ZeroLinearOperator). -/
mutual
def representable : Op → Bool
  | .leaf _ => true
  | .val _ => false
  | .node cls a _ d _ _ =>
    -- ZeroLinearOperator overrides `representation()` (returns `()`), so its integer size arguments do not raise
    if cls = "ZeroLinearOperator" then true else representableL a && representableL d
def representableL : List Op → Bool
  | [] => true
  | x :: xs => representable x && representableL xs
end

/-- number of flat slots an argument occupies in the parent's child list -/
def width : Op → Nat
  | .node _ a _ d _ _ => (repL a ++ repL d).length
  | _ => 1

def widthL : List Op → Nat
  | [] => 0
  | x :: xs => width x + widthL xs

inductive RT where
  | idx (i : Nat)
  | sub (lo hi : Nat) (cls : String) (ch : List RT) (dn : List String) (nkw : KV)
  | zero (args : List Op) (nkw : KV)   -- `_ZeroLinearOperatorRepresentationTree`: sizes, dtype, device
  deriving Repr

mutual
def treeAt (c : Nat) : Op → RT
  | .leaf _ => .idx c
  | .val _ => .idx c
  | .node cls a dn d nkw _ =>
    if cls = "ZeroLinearOperator" then .zero a nkw
    else .sub c (c + (repL a ++ repL d).length) cls (treeL 0 a ++ treeL (widthL a) d) dn nkw
def treeL (c : Nat) : List Op → List RT
  | [] => []
  | x :: xs => treeAt c x :: treeL (c + width x) xs
end

def tree (o : Op) : RT := treeAt 0 o

/-! ### constructors -/

def insertKV {β : Type} (x : String × β) : List (String × β) → List (String × β)
  | [] => [x]
  | y :: ys => if x.1 < y.1 then x :: y :: ys else y :: insertKV x ys

def isort {β : Type} : List (String × β) → List (String × β)
  | [] => []
  | x :: xs => insertKV x (isort xs)

def asVal : String × Op → Option (String × Val)
  | (k, .val v) => some (k, v)
  | _ => none

/-- `LinearOperator.__init__` -/
def init (cls : String) (args : List Op) (kw : List (String × Op)) (hid : KV) : Op :=
  let d := isort (kw.filter (fun p => p.2.isDiff))
  let n := isort (kw.filterMap asVal)
  .node cls args (d.map (·.1)) (d.map (·.2)) n hid

def Op.cls : Op → String
  | .node c _ _ _ _ _ => c
  | .leaf _ => "#tensor"
  | .val _ => "#value"

def Op.arg0 : Op → Option Op
  | .node _ (a :: _) _ _ _ _ => some a
  | _ => none

def dense (x : Op) : Op :=
  match x with
  | .leaf l => .node "DenseLinearOperator" [.leaf l] [] [] [] []
  | o => o

/-- classes whose constructor passes every positional argument through `to_linear_operator` -/
def wrapsAll : List String :=
  ["SumLinearOperator", "PsdSumLinearOperator", "SumKroneckerLinearOperator", "KroneckerProductLinearOperator",
   "MatmulLinearOperator", "RootLinearOperator", "LowRankRootLinearOperator",
   "BlockDiagLinearOperator", "BlockInterleavedLinearOperator", "SumBatchLinearOperator"]

def triangularLike : List String :=
  ["TriangularLinearOperator", "DiagLinearOperator", "ConstantDiagLinearOperator", "IdentityLinearOperator",
   "KroneckerProductDiagLinearOperator"]

def blockLike : List String := ["BlockDiagLinearOperator", "BlockInterleavedLinearOperator", "SumBatchLinearOperator"]

def lookupInt (kw : List (String × Op)) (k : String) : Option Int :=
  match kw.find? (·.1 = k) with
  | some (_, .val (.int i)) => some i
  | _ => none

def isDtVal : Op → Bool
  | .val (.dt _) => true
  | _ => false

def isDictVal : Op → Bool
  | .val (.str s) => s = "dict"
  | _ => false

/- number of dimensions of the operator (batch + 2), as far as Cat's `dim` normalisation needs it -/
mutual
def ndim : Op → Nat
  | .leaf l => l.shape.length
  | .val _ => 0
  | .node cls a _ _ nkw _ =>
    if cls = "IdentityLinearOperator" then
      (match nkw.find? (·.1 = "batch_shape") with | some (_, .ints l) => l.length + 2 | _ => 2)
    else if cls = "ZeroLinearOperator" then a.length
    else if cls = "TransposePermutationLinearOperator" then 2
    else if cls = "DiagLinearOperator" || cls = "ConstantDiagLinearOperator" || cls = "ToeplitzLinearOperator"
         || cls = "PermutationLinearOperator" then ndimHead a + 1
    else if blockLike.contains cls then ndimHead a - 1
    else ndimHead a
def ndimHead : List Op → Nat
  | [] => 0
  | x :: _ => ndim x
end

/-- Class specific argument normalisation performed before `super().__init__`.  `none` = outside the model
    (the constructor raises or takes a path that needs shape arithmetic: batch expansion, block permutes,
    BatchRepeat unsqueezing are only modelled on already-normalised arguments). -/
def normalise (cls : String) (pos : List Op) (kw : List (String × Op)) : Option (List Op × List (String × Op)) :=
  if wrapsAll.contains cls then
    some (pos.map dense, kw)
  else if cls = "InterpolatedLinearOperator" then
    match pos with
    | b :: rest => some (dense b :: rest, kw)
    | [] => none
  else if cls = "TriangularLinearOperator" then
    match pos with
    | x :: rest =>
      match x with
      | .leaf _ => some (dense x :: rest, kw)
      | .val _ => none
      | .node c a _ _ _ _ =>
        if c = "TriangularLinearOperator" then
          (match a with | [inner] => some (inner :: rest, kw) | _ => none)
        else if c = "BatchRepeatLinearOperator" then
          (match a with
           | [b] => if triangularLike.contains b.cls then some (x :: rest, kw) else none
           | _ => none)
        else some (x :: rest, kw)
    | [] => none
  else if cls = "CatLinearOperator" then
    match pos with
    | [] => none
    | first :: _ =>
      match lookupInt kw "dim" with
      | some d =>
        if d < 0 then some (pos, kw)
        else some (pos, kw.map (fun p => if p.1 = "dim" then (p.1, Op.val (.int (d - (ndim first : Int)))) else p))
      | none =>
        if kw.any (·.1 = "dim") then none
        else some (pos, ("dim", Op.val (.int (0 - (ndim first : Int)))) :: kw)
  else if cls = "KernelLinearOperator" then
    -- `num_nonbatch_dimensions` (None or a dict) is replaced by a defaultdict
    if kw.any (·.1 = "num_nonbatch_dimensions") then
      if kw.all (fun p => p.1 != "num_nonbatch_dimensions" || isDictVal p.2) then some (pos, kw)
      else some (pos, kw.map (fun p => if p.1 = "num_nonbatch_dimensions" then (p.1, Op.val (.str "dict")) else p))
    else some (pos, kw ++ [("num_nonbatch_dimensions", Op.val (.str "dict"))])
  else some (pos, kw)

def hasKey {β : Type} (l : List (String × β)) (k : String) : Bool := l.any (·.1 = k)

def Layout.isStoredKw (L : Layout) (n : String) : Bool :=
  hasKey L.kwStored n || (L.varkw && !hasKey L.hidden n && !L.consumed.contains n)

def Layout.accepts (L : Layout) (n : String) : Bool :=
  L.isStoredKw n || hasKey L.hidden n || L.consumed.contains n

def missingDefault (kw : List (String × Op)) : String × Option Val → Option (String × Op)
  | (n, some d) => if hasKey kw n then none else some (n, .val d)
  | (_, none) => none

def hiddenValue (kw : List (String × Op)) (p : String × Val) : String × Val :=
  match kw.find? (·.1 = p.1) with
  | some (_, .val v) => (p.1, v)
  | _ => p

/-- `cls(*pos, **kw)` -/
def construct (cfg : Cfg) (cls : String) (pos : List Op) (kw : List (String × Op)) : Option Op :=
  match cfg.layout cls with
  | none => none
  | some L =>
    match normalise cls pos kw with
    | none => none
    | some (pos, kw) =>
      let stored := if L.vararg then pos else pos.take L.npos
      let extra := if L.vararg then [] else pos.drop L.npos
      let names := L.posNames.drop L.npos
      if extra.length > names.length then none else
      let kwAll := names.zip extra ++ kw
      if !(kwAll.all (fun p => L.accepts p.1)) then none else
      if L.kwStored.any (fun p => p.2.isNone && !hasKey kwAll p.1) then none else
      let storedKw := kwAll.filter (fun p => L.isStoredKw p.1) ++ L.kwStored.filterMap (missingDefault kwAll)
      some (init cls stored storedKw (L.hidden.map (hiddenValue kwAll)))

/-! ### rebuild -/

def kwOf (dn : List String) (dv : List Op) (nkw : KV) : List (String × Op) :=
  dn.zip dv ++ nkw.map (fun p => (p.1, Op.val p.2))

/-- `_ZeroLinearOperatorRepresentationTree.__init__` records the *resolved* dtype (`dtype or default`) -/
def resolveZero (cfg : Cfg) (nkw : KV) : KV :=
  nkw.map (fun p => if p.1 = "dtype" then (match p.2 with | .none => (p.1, Val.dt cfg.defaultDT) | _ => p) else p)

mutual
def call (cfg : Cfg) : RT → List Leaf → Option Op
  | .idx i, flat => (flat[i]?).map Op.leaf
  | .zero a nkw, _ => construct cfg "ZeroLinearOperator" a (kwOf [] [] (resolveZero cfg nkw))
  | .sub lo hi cls ch dn nkw, flat =>
    match callL cfg ch ((flat.drop lo).take (hi - lo)) with
    | none => none
    | some xs =>
      let k := dn.length
      construct cfg cls (xs.take (xs.length - k)) (kwOf dn (xs.drop (xs.length - k)) nkw)
def callL (cfg : Cfg) : List RT → List Leaf → Option (List Op)
  | [], _ => some []
  | t :: ts, flat =>
    match call cfg t flat, callL cfg ts flat with
    | some x, some xs => some (x :: xs)
    | _, _ => none
end

/- What the rebuild *should* produce: the same operator with its tensors replaced, in order. -/
mutual
def fill : Op → List Leaf → Op × List Leaf
  | .leaf l, ts => (match ts with | t :: r => (.leaf t, r) | [] => (.leaf l, []))
  | .val v, ts => (.val v, ts)
  | .node cls a dn d nkw hid, ts =>
    let ra := fillL a ts
    let rd := fillL d ra.2
    (.node cls ra.1 dn rd.1 nkw hid, rd.2)
def fillL : List Op → List Leaf → List Op × List Leaf
  | [], ts => ([], ts)
  | x :: xs, ts =>
    let r := fill x ts
    let rs := fillL xs r.2
    (r.1 :: rs.1, rs.2)
end

/-- structure without tensors: classes, arities, kwarg names, non-tensor values, hidden attributes -/
inductive Skel where
  | leaf
  | val (v : Val)
  | node (cls : String) (args : List Skel) (dn : List String) (dv : List Skel) (nkw : KV) (hid : KV)
  deriving Repr

mutual
def skel : Op → Skel
  | .leaf _ => .leaf
  | .val v => .val v
  | .node cls a dn d nkw hid => .node cls (skelL a) dn (skelL d) nkw hid
def skelL : List Op → List Skel
  | [] => []
  | x :: xs => skel x :: skelL xs
end

/-! ### dtype, copies and conversions -/

def kvFind (l : KV) (k : String) : Option Val := (l.find? (·.1 = k)).map (·.2)

/- the `dtype` property (`_args[0].dtype` unless overridden).  `lost = true` evaluates it on the result of a
    copy, where ZeroLinearOperator has lost its dtype (D17). -/
mutual
def dtypeOf (cfg : Cfg) (lost : Bool) : Op → Option DT
  | .leaf l => some l.dt
  | .val _ => none
  | .node cls a _ _ nkw hid =>
    if cls = "IdentityLinearOperator" then
      (match kvFind nkw "dtype" with | some (.dt d) => some d | _ => none)
    else if cls = "ZeroLinearOperator" then
      (match kvFind nkw "dtype" with
       | some (.dt d) => some d      -- once dtype is forwarded to `_kwargs` (proposed fix of D17)
       | _ =>
         if lost then some cfg.defaultDT else
           match kvFind hid "dtype" with | some (.dt d) => some d | _ => some cfg.defaultDT)
    else if cls = "PermutationLinearOperator" || cls = "TransposePermutationLinearOperator" then some .f32
    else dtypeHead cfg lost a
def dtypeHead (cfg : Cfg) (lost : Bool) : List Op → Option DT
  | [] => none
  | x :: _ => dtypeOf cfg lost x
end

def isFloatDT : Option DT → Bool
  | some d => d.isFloat
  | none => false

inductive Mode | clone | detach | to (t : DT) | cloneTo (t : DT) | type (t : DT)
  deriving DecidableEq, Repr

/-- classes whose `to` override casts only floating arguments -/
def floatOnlyTo (cls : String) : Bool :=
  cls = "InterpolatedLinearOperator" || cls = "MaskedLinearOperator"

def convLeaf (m : Mode) (guard : Bool) (l : Leaf) : Leaf :=
  match m with
  | .clone => { l with fresh := true }
  | .detach => { l with rg := false }
  | .to t => if l.dt = t then l else if guard && !l.dt.isFloat then l else { l with dt := t, fresh := true }
  | .cloneTo t => if guard && !l.dt.isFloat then { l with fresh := true } else { l with dt := t, fresh := true }
  | .type t => if l.dt.isFloat then { l with dt := t, fresh := true } else { l with fresh := true }

def nodeMode (m : Mode) (cls : String) : Mode :=
  if cls = "CatLinearOperator" then
    match m with
    | .to t => .type t
    | .cloneTo t => .type t
    | m => m
  else m

def setKV (l : KV) (k : String) (v : Val) : KV := l.map (fun p => if p.1 = k then (k, v) else p)

def convNkw (m : Mode) (cls : String) (nkw : KV) : KV :=
  if cls = "IdentityLinearOperator" then
    match m with
    | .to t => setKV (setKV nkw "dtype" (.dt t)) "device" .none
    | .cloneTo t => setKV (setKV nkw "dtype" (.dt t)) "device" .none
    | .type t => setKV nkw "dtype" (.dt t)
    | _ => nkw
  else if cls = "ZeroLinearOperator" then
    -- no effect today (dtype is not a stored kwarg, D17); mirrors the `to`/`type` overrides of the proposed fix
    match m with
    | .to t => setKV nkw "dtype" (.dt t)
    | .cloneTo t => setKV nkw "dtype" (.dt t)
    | .type t => setKV nkw "dtype" (.dt t)
    | _ => nkw
  else if cls = "CatLinearOperator" then
    match m with
    | .to _ => setKV nkw "output_device" .none
    | .cloneTo _ => setKV nkw "output_device" .none
    | _ => nkw
  else nkw

mutual
def conv (cfg : Cfg) (m : Mode) : Op → Option Op
  | .leaf l => some (.leaf (convLeaf m false l))
  | .val v => some (.val v)
  | .node cls a dn d nkw hid =>
    if cls = "TransposePermutationLinearOperator" && (match m with | .type _ => true | _ => false) then
      some (.node cls a dn d nkw hid)     -- `type` mutates `_dtype` and returns self
    else
    match convL cfg (nodeMode m cls) (floatOnlyTo cls) a, convL cfg (nodeMode m cls) (floatOnlyTo cls) d with
    | some a', some d' => construct cfg cls a' (kwOf dn d' (convNkw m cls nkw))
    | _, _ => none
def convL (cfg : Cfg) (m : Mode) (guard : Bool) : List Op → Option (List Op)
  | [] => some []
  | x :: xs =>
    let hd : Option Op :=
      match x with
      | .leaf l => some (.leaf (convLeaf m (guard || cfg.baseToGuard) l))
      | .val v => some (.val v)
      | .node c a dn d nkw hid =>
        match m with
        | .type t =>
          if isFloatDT (dtypeOf cfg true (.node c a dn d nkw hid)) then conv cfg (.cloneTo t) (.node c a dn d nkw hid)
          else conv cfg .clone (.node c a dn d nkw hid)
        | .to _ =>
          if guard && !isFloatDT (dtypeOf cfg false (.node c a dn d nkw hid)) then some (.node c a dn d nkw hid)
          else conv cfg m (.node c a dn d nkw hid)
        | .cloneTo _ =>
          if guard && !isFloatDT (dtypeOf cfg true (.node c a dn d nkw hid)) then conv cfg .clone (.node c a dn d nkw hid)
          else conv cfg m (.node c a dn d nkw hid)
        | _ => conv cfg m (.node c a dn d nkw hid)
    match hd, convL cfg m guard xs with
    | some y, some ys => some (y :: ys)
    | _, _ => none
end

/- `_set_requires_grad(v)` (in place): direct floating tensors, and sub-operators whose `dtype` is floating. -/
mutual
def setRG (cfg : Cfg) (v : Bool) : Op → Op
  | .leaf l => .leaf (if l.dt.isFloat then { l with rg := v } else l)
  | .val x => .val x
  | .node cls a dn d nkw hid => .node cls (setRGL cfg v a) dn (setRGL cfg v d) nkw hid
def setRGL (cfg : Cfg) (v : Bool) : List Op → List Op
  | [] => []
  | x :: xs =>
    (match x with
     | .node c a dn d nkw hid =>
       if isFloatDT (dtypeOf cfg false (.node c a dn d nkw hid)) then setRG cfg v (.node c a dn d nkw hid)
       else .node c a dn d nkw hid
     | y => setRG cfg v y) :: setRGL cfg v xs
end

/-! ### well-formedness: an operator as a constructor leaves it -/

def sortedKeys : List String → Bool
  | [] => true
  | [_] => true
  | x :: y :: r => decide (x < y) && sortedKeys (y :: r)

/-- the single argument of `x` is a TriangularLinearOperator (or one of its subclasses) -/
def subTriOp : Op → Bool
  | .node _ [b] _ _ _ _ => triangularLike.contains b.cls
  | _ => false

/-- syntactic normal form of the class specific normalisation (depends only on classes, never on tensors) -/
def normalForm (cls : String) (args : List Op) (kw : List (String × Op)) : Bool :=
  if wrapsAll.contains cls then args.all (fun x => x.cls != "#tensor")
  else if cls = "InterpolatedLinearOperator" then
    (match args with | b :: _ => b.cls != "#tensor" | [] => false)
  else if cls = "TriangularLinearOperator" then
    (match args with
     | x :: _ =>
       x.cls != "#tensor" && x.cls != "#value" && x.cls != "TriangularLinearOperator" &&
       (x.cls != "BatchRepeatLinearOperator" || subTriOp x)
     | [] => false)
  else if cls = "CatLinearOperator" then
    (match args with | [] => false | _ :: _ => (match lookupInt kw "dim" with | some d => d < 0 | none => false))
  else if cls = "KernelLinearOperator" then
    kw.any (·.1 = "num_nonbatch_dimensions") &&
    kw.all (fun p => p.1 != "num_nonbatch_dimensions" || isDictVal p.2)
  else if cls = "ZeroLinearOperator" then
    -- sizes only, no tensor/operator keyword, explicit dtype (the private tree stores the resolved dtype)
    args.all (fun x => !x.isDiff) && kw.all (fun p => !p.2.isDiff) &&
      kw.all (fun p => p.1 != "dtype" || isDtVal p.2)
  else true

def nodeOK (cfg : Cfg) (cls : String) (a : List Op) (dn : List String) (d : List Op) (nkw : KV) (hid : KV) : Bool :=
  match cfg.layout cls with
  | none => false
  | some L =>
    normalForm cls a (kwOf dn d nkw) &&
    (L.vararg || a.length ≤ L.npos) &&
    dn.length = d.length && d.all (·.isDiff) &&
    sortedKeys dn && sortedKeys (nkw.map (·.1)) &&
    dn.all (fun n => L.isStoredKw n) && nkw.all (fun p => L.isStoredKw p.1) &&
    L.kwStored.all (fun p => dn.contains p.1 || hasKey nkw p.1) &&
    L.hidden.all (fun p => !dn.contains p.1 && !hasKey nkw p.1) &&
    hid = L.hidden

/- every node is a fixed point of its constructor, hidden attributes at their defaults -/
mutual
def normal (cfg : Cfg) : Op → Bool
  | .leaf _ => true
  | .val _ => true
  | .node cls a dn d nkw hid => nodeOK cfg cls a dn d nkw hid && normalL cfg a && normalL cfg d
def normalL (cfg : Cfg) : List Op → Bool
  | [] => true
  | x :: xs => normal cfg x && normalL cfg xs
end

end LinOp.C14
