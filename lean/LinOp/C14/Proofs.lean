import LinOp.C14.Model
set_option linter.unusedSimpArgs false
/-! Helper lemmas for C14 (core Lean only). -/
namespace LinOp.C14

/-! ### insertion sort on an already sorted key list is the identity -/

theorem isort_sorted {β : Type} : ∀ (l : List (String × β)), sortedKeys (l.map (·.1)) = true → isort l = l
  | [], _ => rfl
  | [x], _ => rfl
  | x :: y :: r, h => by
    simp only [List.map_cons, sortedKeys, Bool.and_eq_true, decide_eq_true_eq] at h
    have ih := isort_sorted (y :: r) (by simpa [List.map_cons] using h.2)
    show insertKV x (isort (y :: r)) = _
    rw [ih]
    simp [insertKV, h.1]

/-! ### `__init__` on stored keyword arguments -/

theorem asVal_of_isDiff (k : String) (x : Op) (h : x.isDiff = true) : asVal (k, x) = none := by
  cases x <;> simp_all [asVal, Op.isDiff]

theorem filter_zip_isDiff : ∀ (dn : List String) (dv : List Op), dv.all (·.isDiff) = true →
    (dn.zip dv).filter (fun p => p.2.isDiff) = dn.zip dv ∧ (dn.zip dv).filterMap asVal = []
  | [], _, _ => by simp
  | _ :: _, [], _ => by simp
  | n :: ns, v :: vs, h => by
    simp only [List.all_cons, Bool.and_eq_true] at h
    have ih := filter_zip_isDiff ns vs h.2
    simp [List.zip_cons_cons, List.filter_cons, h.1, ih.1, List.filterMap_cons, asVal_of_isDiff n v h.1, ih.2]

theorem filter_vals (nkw : KV) :
    (nkw.map (fun p => (p.1, Op.val p.2))).filter (fun p => p.2.isDiff) = [] ∧
    (nkw.map (fun p => (p.1, Op.val p.2))).filterMap asVal = nkw := by
  refine ⟨?_, ?_⟩
  · apply List.filter_eq_nil_iff.mpr
    intro q hq
    rcases List.mem_map.mp hq with ⟨w, _, rfl⟩
    simp [Op.isDiff]
  · induction nkw with
    | nil => rfl
    | cons p r ih => simp only [List.map_cons, List.filterMap_cons, asVal, ih]

theorem init_fix (cls : String) (args : List Op) (dn : List String) (dv : List Op) (nkw hid : KV)
    (hlen : dn.length = dv.length) (hd : dv.all (·.isDiff) = true)
    (hs1 : sortedKeys dn = true) (hs2 : sortedKeys (nkw.map (·.1)) = true) :
    init cls args (kwOf dn dv nkw) hid = .node cls args dn dv nkw hid := by
  have h1 := filter_zip_isDiff dn dv hd
  have h2 := filter_vals nkw
  have hf : (dn.zip dv).map (·.1) = dn := List.map_fst_zip (by omega)
  have hsn : (dn.zip dv).map (·.2) = dv := List.map_snd_zip (by omega)
  unfold init kwOf
  simp only [List.filter_append, List.filterMap_append, h1.1, h1.2, h2.1, h2.2, List.append_nil, List.nil_append]
  rw [isort_sorted (dn.zip dv) (by rw [hf]; exact hs1), isort_sorted nkw hs2, hf, hsn]

/-! ### keys of the stored keyword list -/

theorem hasKey_append {β : Type} (l1 l2 : List (String × β)) (k : String) :
    hasKey (l1 ++ l2) k = (hasKey l1 k || hasKey l2 k) := by simp [hasKey]

theorem hasKey_zip : ∀ (dn : List String) (dv : List Op), dn.length = dv.length → ∀ k,
    hasKey (dn.zip dv) k = dn.contains k
  | [], [], _, k => by simp [hasKey]
  | [], _ :: _, h, _ => by simp at h
  | _ :: _, [], h, _ => by simp at h
  | n :: ns, v :: vs, h, k => by
    have ih := hasKey_zip ns vs (by simpa using h) k
    simp only [hasKey] at ih
    simp only [hasKey, List.zip_cons_cons, List.any_cons, List.contains_cons, ih]
    by_cases hk : n = k
    · simp [hk]
    · have hk' : ¬ k = n := fun e => hk e.symm
      simp [hk, hk']

theorem hasKey_vals (nkw : KV) (k : String) :
    hasKey (nkw.map (fun p => (p.1, Op.val p.2))) k = hasKey nkw k := by
  simp [hasKey, List.any_map, Function.comp_def]

theorem hasKey_kwOf (dn : List String) (dv : List Op) (nkw : KV) (h : dn.length = dv.length) (k : String) :
    hasKey (kwOf dn dv nkw) k = (dn.contains k || hasKey nkw k) := by
  unfold kwOf
  rw [hasKey_append, hasKey_zip dn dv h, hasKey_vals]

theorem mem_kwOf_key (dn : List String) (dv : List Op) (nkw : KV) (p : String × Op) (hp : p ∈ kwOf dn dv nkw) :
    p.1 ∈ dn ∨ p.1 ∈ nkw.map (·.1) := by
  unfold kwOf at hp
  rcases List.mem_append.mp hp with h | h
  · left; exact (List.of_mem_zip h).1
  · right
    rcases List.mem_map.mp h with ⟨q, hq, rfl⟩
    exact List.mem_map.mpr ⟨q, hq, rfl⟩

theorem find_none_of_not_hasKey {β : Type} (l : List (String × β)) (k : String) (h : hasKey l k = false) :
    l.find? (·.1 = k) = none := by
  apply List.find?_eq_none.mpr
  intro x hx
  simp only [hasKey, List.any_eq_false] at h
  exact h x hx

/-! ### the class specific normalisation is the identity on its normal form -/

theorem dense_of_not_tensor (x : Op) (h : (x.cls != "#tensor") = true) : dense x = x := by
  cases x <;> simp_all [dense, Op.cls]

theorem map_dense_fix : ∀ (a : List Op), a.all (fun x => x.cls != "#tensor") = true → a.map dense = a
  | [], _ => rfl
  | x :: xs, h => by
    simp only [List.all_cons, Bool.and_eq_true] at h
    simp [dense_of_not_tensor x h.1, map_dense_fix xs h.2]

theorem map_replace_fix (kw : List (String × Op)) (key : String) (v : Op)
    (h : ∀ p ∈ kw, p.1 = key → p.2 = v) :
    kw.map (fun p => if p.1 = key then (p.1, v) else p) = kw := by
  induction kw with
  | nil => rfl
  | cons p r ih =>
    have hr := ih (fun q hq => h q (List.mem_cons_of_mem _ hq))
    simp only [List.map_cons, hr]
    by_cases hk : p.1 = key
    · have hv := h p (List.mem_cons_self ..) hk
      rw [if_pos hk, ← hv]
    · rw [if_neg hk]

end LinOp.C14

namespace LinOp.C14

theorem normalise_fix (cls : String) (a : List Op) (kw : List (String × Op))
    (h : normalForm cls a kw = true) : normalise cls a kw = some (a, kw) := by
  unfold normalForm at h
  unfold normalise
  by_cases h1 : wrapsAll.contains cls = true
  · rw [if_pos h1] at h ⊢
    rw [map_dense_fix a h]
  rw [if_neg h1] at h ⊢
  by_cases h2 : cls = "InterpolatedLinearOperator"
  · rw [if_pos h2] at h ⊢
    cases a with
    | nil => simp at h
    | cons b rest => simp only [dense_of_not_tensor b h]
  rw [if_neg h2] at h ⊢
  by_cases h3 : cls = "TriangularLinearOperator"
  · rw [if_pos h3] at h ⊢
    cases a with
    | nil => simp at h
    | cons x rest =>
      cases x with
      | leaf l => simp [Op.cls] at h
      | val v => simp [Op.cls] at h
      | node c aa dn' d' nkw' hid' =>
        simp only [Op.cls, Bool.and_eq_true, Bool.or_eq_true, bne_iff_ne, ne_eq] at h
        obtain ⟨⟨⟨_, _⟩, hc⟩, hbr⟩ := h
        simp only [hc, if_false]
        by_cases hb : c = "BatchRepeatLinearOperator"
        · simp only [hb, if_true]
          rcases hbr with hbr | hbr
          · exact absurd hb hbr
          · cases aa with
            | nil => simp [subTriOp] at hbr
            | cons b t =>
              cases t with
              | nil =>
                have hb' : triangularLike.contains b.cls = true := by simpa [subTriOp] using hbr
                have hb'' : b.cls ∈ triangularLike := by simpa using hb'
                simp [hb'']
              | cons _ _ => simp [subTriOp] at hbr
        · simp only [hb, if_false]
  rw [if_neg h3] at h ⊢
  by_cases h4 : cls = "CatLinearOperator"
  · rw [if_pos h4] at h ⊢
    cases a with
    | nil => simp at h
    | cons f rest =>
      simp only at h ⊢
      cases hl : lookupInt kw "dim" with
      | none => rw [hl] at h; simp at h
      | some dd =>
        rw [hl] at h
        simp only [decide_eq_true_eq] at h
        simp only [if_pos h]
  rw [if_neg h4] at h ⊢
  by_cases h5 : cls = "KernelLinearOperator"
  · rw [if_pos h5] at h ⊢
    simp only [Bool.and_eq_true] at h
    rw [if_pos h.1, if_pos h.2]
  rw [if_neg h5]

end LinOp.C14

namespace LinOp.C14

theorem construct_fix (cfg : Cfg) (cls : String) (a : List Op) (dn : List String) (d : List Op) (nkw hid : KV)
    (h : nodeOK cfg cls a dn d nkw hid = true) :
    construct cfg cls a (kwOf dn d nkw) = some (.node cls a dn d nkw hid) := by
  unfold nodeOK at h
  cases hL : cfg.layout cls with
  | none => rw [hL] at h; simp at h
  | some L =>
    rw [hL] at h
    simp only [Bool.and_eq_true, decide_eq_true_eq] at h
    obtain ⟨⟨⟨⟨⟨⟨⟨⟨⟨⟨hnf, hpos⟩, hlen⟩, hdiff⟩, hs1⟩, hs2⟩, hdn⟩, hnk⟩, hall⟩, hhid⟩, hh⟩ := h
    have hstored : (if L.vararg = true then a else a.take L.npos) = a := by
      by_cases hv : L.vararg = true
      · rw [if_pos hv]
      · rw [if_neg hv]
        have : a.length ≤ L.npos := by simpa [hv] using hpos
        exact List.take_of_length_le this
    have hextra : (if L.vararg = true then ([] : List Op) else a.drop L.npos) = [] := by
      by_cases hv : L.vararg = true
      · rw [if_pos hv]
      · rw [if_neg hv]
        have : a.length ≤ L.npos := by simpa [hv] using hpos
        exact List.drop_of_length_le this
    have hkey : ∀ p ∈ kwOf dn d nkw, L.isStoredKw p.1 = true := by
      intro p hp
      rcases mem_kwOf_key dn d nkw p hp with h1 | h1
      · exact List.all_eq_true.mp hdn _ h1
      · rcases List.mem_map.mp h1 with ⟨q, hq, he⟩
        rw [← he]; exact List.all_eq_true.mp hnk q hq
    have hacc : (kwOf dn d nkw).all (fun p => L.accepts p.1) = true := by
      apply List.all_eq_true.mpr
      intro p hp
      simp [Layout.accepts, hkey p hp]
    have hpresent : ∀ p ∈ L.kwStored, hasKey (kwOf dn d nkw) p.1 = true := by
      intro p hp
      rw [hasKey_kwOf dn d nkw hlen]
      exact List.all_eq_true.mp hall p hp
    have hreq : L.kwStored.any (fun p => p.2.isNone && !hasKey (kwOf dn d nkw) p.1) = false := by
      apply List.any_eq_false.mpr
      intro p hp
      simp [hpresent p hp]
    have hfilter : (kwOf dn d nkw).filter (fun p => L.isStoredKw p.1) = kwOf dn d nkw :=
      List.filter_eq_self.mpr hkey
    have hmiss : L.kwStored.filterMap (missingDefault (kwOf dn d nkw)) = [] := by
      apply List.filterMap_eq_nil_iff.mpr
      intro p hp
      obtain ⟨n, dflt⟩ := p
      cases dflt with
      | none => rfl
      | some v => simp [missingDefault, hpresent (n, some v) hp]
    have hhidden : L.hidden.map (hiddenValue (kwOf dn d nkw)) = L.hidden := by
      have : ∀ p ∈ L.hidden, hiddenValue (kwOf dn d nkw) p = p := by
        intro p hp
        have hk : hasKey (kwOf dn d nkw) p.1 = false := by
          rw [hasKey_kwOf dn d nkw hlen]
          have := List.all_eq_true.mp hhid p hp
          simpa using this
        simp [hiddenValue, find_none_of_not_hasKey _ _ hk]
      calc L.hidden.map (hiddenValue (kwOf dn d nkw)) = L.hidden.map id := List.map_congr_left this
        _ = L.hidden := List.map_id _
    unfold construct
    simp only [hL, normalise_fix cls a _ hnf, hstored, hextra, List.zip_nil_right, List.nil_append, List.length_nil,
      Nat.not_lt_zero, gt_iff_lt, if_false, hacc, hreq, hfilter, hmiss, hhidden, List.append_nil, Bool.not_true,
      Bool.false_eq_true]
    rw [init_fix cls a dn d nkw L.hidden hlen hdiff hs1 hs2, hh]

end LinOp.C14

namespace LinOp.C14

theorem repL_allVal : ∀ (a : List Op), a.all (fun x => !x.isDiff) = true → repL a = []
  | [], _ => rfl
  | x :: xs, h => by
    simp only [List.all_cons, Bool.and_eq_true] at h
    cases x with
    | leaf l => simp [Op.isDiff] at h
    | node c aa dn' d' nkw' hid' => simp [Op.isDiff] at h
    | val v => simp [repL, rep, repL_allVal xs h.2]

/-- no tensor / operator valued keyword at all ⇔ no differentiable keyword names -/
theorem allNotDiff_kwOf (dn : List String) (d : List Op) (nkw : KV)
    (hlen : dn.length = d.length) (hd : d.all (·.isDiff) = true) :
    (kwOf dn d nkw).all (fun p => !p.2.isDiff) = dn.isEmpty := by
  unfold kwOf
  rw [List.all_append]
  have hv : (nkw.map (fun p => (p.1, Op.val p.2))).all (fun p => !p.2.isDiff) = true := by
    apply List.all_eq_true.mpr
    intro p hp
    rcases List.mem_map.mp hp with ⟨w, _, rfl⟩
    simp [Op.isDiff]
  rw [hv, Bool.and_true]
  cases dn with
  | nil => simp
  | cons n ns =>
    cases d with
    | nil => simp at hlen
    | cons x xs =>
      simp only [List.all_cons, Bool.and_eq_true] at hd
      simp [List.zip_cons_cons, hd.1]

theorem zero_node_facts (cfg : Cfg) (a : List Op) (dn : List String) (d : List Op) (nkw hid : KV)
    (hok : nodeOK cfg "ZeroLinearOperator" a dn d nkw hid = true) :
    dn = [] ∧ d = [] ∧ repL a = [] ∧ resolveZero cfg nkw = nkw := by
  unfold nodeOK at hok
  cases hL : cfg.layout "ZeroLinearOperator" with
  | none => rw [hL] at hok; simp at hok
  | some L =>
    rw [hL] at hok
    simp only [Bool.and_eq_true, decide_eq_true_eq] at hok
    obtain ⟨⟨⟨⟨⟨⟨⟨⟨⟨⟨hnf, _⟩, hlen⟩, hdiff⟩, _⟩, _⟩, _⟩, _⟩, _⟩, _⟩, _⟩ := hok
    have hnf' : (a.all (fun x => !x.isDiff) && (kwOf dn d nkw).all (fun p => !p.2.isDiff) &&
        (kwOf dn d nkw).all (fun p => p.1 != "dtype" || isDtVal p.2)) = true := by
      have e : normalForm "ZeroLinearOperator" a (kwOf dn d nkw) =
          (a.all (fun x => !x.isDiff) && (kwOf dn d nkw).all (fun p => !p.2.isDiff) &&
            (kwOf dn d nkw).all (fun p => p.1 != "dtype" || isDtVal p.2)) := by
        unfold normalForm
        rw [if_neg (by decide), if_neg (by decide), if_neg (by decide), if_neg (by decide), if_neg (by decide),
          if_pos rfl]
      rw [← e]; exact hnf
    simp only [Bool.and_eq_true] at hnf'
    obtain ⟨⟨hA, hB⟩, hC⟩ := hnf'
    rw [allNotDiff_kwOf dn d nkw hlen hdiff] at hB
    have hdn : dn = [] := by simpa using hB
    have hd : d = [] := by
      subst hdn
      exact List.eq_nil_of_length_eq_zero (by simpa using hlen.symm)
    subst hdn; subst hd
    refine ⟨rfl, rfl, repL_allVal a hA, ?_⟩
    unfold resolveZero
    have hC' : ∀ p ∈ nkw, p.1 = "dtype" → isDtVal (Op.val p.2) = true := by
      intro p hp hk
      have hm : (p.1, Op.val p.2) ∈ kwOf [] [] nkw := by
        unfold kwOf; simp only [List.zip_nil_left, List.nil_append]
        exact List.mem_map.mpr ⟨p, hp, rfl⟩
      have := List.all_eq_true.mp hC _ hm
      simpa [hk] using this
    have : ∀ p ∈ nkw, (if p.1 = "dtype" then (match p.2 with | .none => (p.1, Val.dt cfg.defaultDT) | _ => p) else p) = p := by
      intro p hp
      by_cases hk : p.1 = "dtype"
      · rw [if_pos hk]
        have := hC' p hp hk
        obtain ⟨pk, pv⟩ := p
        cases pv <;> simp_all [isDtVal]
      · rw [if_neg hk]
    calc nkw.map _ = nkw.map id := List.map_congr_left this
      _ = nkw := List.map_id _

theorem width_eq (x : Op) (h : representable x = true) : width x = (rep x).length := by
  cases x with
  | leaf l => simp [width, rep]
  | val v => simp [representable] at h
  | node c a dn d nkw hid => simp [width, rep]

theorem widthL_eq : ∀ (xs : List Op), representableL xs = true → widthL xs = (repL xs).length
  | [], _ => rfl
  | x :: xs, h => by
    simp only [representableL, Bool.and_eq_true] at h
    simp [widthL, repL, width_eq x h.1, widthL_eq xs h.2]

theorem callL_append (cfg : Cfg) : ∀ (t1 t2 : List RT) (flat : List Leaf) (x1 x2 : List Op),
    callL cfg t1 flat = some x1 → callL cfg t2 flat = some x2 → callL cfg (t1 ++ t2) flat = some (x1 ++ x2)
  | [], t2, flat, x1, x2, h1, h2 => by
    simp only [callL, Option.some.injEq] at h1
    subst h1; simpa using h2
  | t :: ts, t2, flat, x1, x2, h1, h2 => by
    simp only [callL] at h1
    cases hc : call cfg t flat with
    | none => rw [hc] at h1; simp at h1
    | some y =>
      cases hcs : callL cfg ts flat with
      | none => rw [hc, hcs] at h1; simp at h1
      | some ys =>
        rw [hc, hcs] at h1
        simp only [Option.some.injEq] at h1
        subst h1
        have ih := callL_append cfg ts t2 flat ys x2 hcs h2
        simp only [List.cons_append, callL, hc, ih]

mutual
theorem call_tree (cfg : Cfg) : ∀ (o : Op), normal cfg o = true → representable o = true →
    ∀ (pre rest : List Leaf), call cfg (treeAt pre.length o) (pre ++ rep o ++ rest) = some o
  | .leaf l, _, _, pre, rest => by
    simp [treeAt, call, rep]
  | .val v, _, hr, _, _ => by simp [representable] at hr
  | .node cls a dn d nkw hid, hn, hr, pre, rest => by
    simp only [normal, Bool.and_eq_true] at hn
    obtain ⟨⟨hok, hna⟩, hnd⟩ := hn
    by_cases hz : cls = "ZeroLinearOperator"
    · subst hz
      obtain ⟨hdn, hd0, hra, hres⟩ := zero_node_facts cfg a dn d nkw hid hok
      subst hdn; subst hd0
      simp only [treeAt, if_pos, call, hres]
      exact construct_fix cfg _ a [] [] nkw hid hok
    simp only [representable, if_neg hz, Bool.and_eq_true] at hr
    have ha := callL_tree cfg a hna hr.1 [] (repL d)
    have hd := callL_tree cfg d hnd hr.2 (repL a) []
    simp only [List.nil_append, List.length_nil, List.append_nil] at ha hd
    rw [← widthL_eq a hr.1] at hd
    have hcat := callL_append cfg _ _ _ _ _ ha hd
    have hlen : dn.length = d.length := by
      unfold nodeOK at hok
      cases hL : cfg.layout cls with
      | none => rw [hL] at hok; simp at hok
      | some L =>
        rw [hL] at hok
        simp only [Bool.and_eq_true, decide_eq_true_eq] at hok
        exact hok.1.1.1.1.1.1.1.1.2
    simp only [treeAt, if_neg hz, call, rep]
    have hslice : ((pre ++ (repL a ++ repL d) ++ rest).drop pre.length).take
        (pre.length + (repL a ++ repL d).length - pre.length) = repL a ++ repL d := by
      rw [List.append_assoc, List.drop_left, Nat.add_sub_cancel_left, List.take_left]
    rw [hslice, hcat]
    simp only [List.length_append, hlen, Nat.add_sub_cancel, List.take_left', List.drop_left']
    exact construct_fix cfg cls a dn d nkw hid hok
theorem callL_tree (cfg : Cfg) : ∀ (xs : List Op), normalL cfg xs = true → representableL xs = true →
    ∀ (pre rest : List Leaf), callL cfg (treeL pre.length xs) (pre ++ repL xs ++ rest) = some xs
  | [], _, _, _, _ => by simp [treeL, callL]
  | x :: xs, hn, hr, pre, rest => by
    simp only [normalL, Bool.and_eq_true] at hn
    simp only [representableL, Bool.and_eq_true] at hr
    have h1 := call_tree cfg x hn.1 hr.1 pre (repL xs ++ rest)
    have h2 := callL_tree cfg xs hn.2 hr.2 (pre ++ rep x) rest
    simp only [List.length_append, ← width_eq x hr.1] at h2
    simp only [treeL, callL, repL]
    have e1 : pre ++ (rep x ++ repL xs) ++ rest = pre ++ rep x ++ (repL xs ++ rest) := by simp
    have e2 : pre ++ (rep x ++ repL xs) ++ rest = pre ++ rep x ++ repL xs ++ rest := by simp
    rw [e1, h1, ← e1, e2, h2]
end

end LinOp.C14

/-! ### the node predicate depends only on the skeleton of the arguments -/
namespace LinOp.C14

def Skel.cls : Skel → String
  | .node c _ _ _ _ _ => c
  | .leaf => "#tensor"
  | .val _ => "#value"

theorem cls_skel (x : Op) : (skel x).cls = x.cls := by cases x <;> rfl

def Skel.subTri : Skel → Bool
  | .node _ [b] _ _ _ _ => triangularLike.contains b.cls
  | _ => false

theorem subTri_skel (x : Op) : (skel x).subTri = subTriOp x := by
  cases x with
  | leaf l => rfl
  | val v => rfl
  | node c a dn d nkw hid =>
    cases a with
    | nil => rfl
    | cons b t =>
      cases t with
      | nil => simp [skel, skelL, Skel.subTri, cls_skel, subTriOp]
      | cons _ _ => simp [skel, skelL, Skel.subTri, subTriOp]

def Skel.isDiff : Skel → Bool
  | .val _ => false
  | _ => true

theorem isDiff_skel (x : Op) : (skel x).isDiff = x.isDiff := by cases x <;> rfl

theorem skelL_length : ∀ (xs : List Op), (skelL xs).length = xs.length
  | [] => rfl
  | _ :: xs => by simp [skelL, skelL_length xs]

theorem skelL_eq_map : ∀ (xs : List Op), skelL xs = xs.map skel
  | [] => rfl
  | x :: xs => by simp [skelL, skelL_eq_map xs]

theorem all_isDiff_skel (xs ys : List Op) (h : skelL xs = skelL ys) :
    xs.all (·.isDiff) = ys.all (·.isDiff) := by
  have e : ∀ zs : List Op, zs.all (·.isDiff) = (skelL zs).all (·.isDiff) := by
    intro zs; rw [skelL_eq_map, List.all_map]; congr 1; funext x; exact (isDiff_skel x).symm
  rw [e xs, e ys, h]

theorem lookupInt_kwOf (dn : List String) (d : List Op) (nkw : KV) (k : String)
    (hlen : dn.length = d.length) (hd : d.all (·.isDiff) = true) :
    lookupInt (kwOf dn d nkw) k =
      if dn.contains k then none else lookupInt (nkw.map (fun p => (p.1, Op.val p.2))) k := by
  unfold lookupInt kwOf
  rw [List.find?_append]
  by_cases hc : dn.contains k = true
  · rw [if_pos hc]
    have hk : hasKey (dn.zip d) k = true := by rw [hasKey_zip dn d hlen]; exact hc
    simp only [hasKey, List.any_eq_true] at hk
    obtain ⟨p, hp, hpk⟩ := hk
    cases hf : (dn.zip d).find? (·.1 = k) with
    | none =>
      have := List.find?_eq_none.mp hf p hp
      exact absurd hpk this
    | some q =>
      have hq := List.mem_of_find?_eq_some hf
      have hq2 : q.2 ∈ d := (List.of_mem_zip hq).2
      have hdq := List.all_eq_true.mp hd _ hq2
      obtain ⟨qk, qv⟩ := q
      cases qv <;> simp_all [Op.isDiff]
  · rw [if_neg hc]
    have hk : hasKey (dn.zip d) k = false := by
      rw [hasKey_zip dn d hlen]; simpa using hc
    rw [find_none_of_not_hasKey _ _ hk]
    simp

theorem allPred_kwOf (q : Op → Bool) (hq : ∀ x : Op, x.isDiff = true → q x = false)
    (dn : List String) (d : List Op) (nkw : KV) (k : String)
    (hlen : dn.length = d.length) (hd : d.all (·.isDiff) = true) :
    (kwOf dn d nkw).all (fun p => p.1 != k || q p.2) =
      (!dn.contains k && (nkw.map (fun p => (p.1, Op.val p.2))).all (fun p => p.1 != k || q p.2)) := by
  unfold kwOf
  rw [List.all_append]
  congr 1
  have hnd : ∀ p ∈ dn.zip d, q p.2 = false := by
    intro p hp
    exact hq _ (List.all_eq_true.mp hd _ (List.of_mem_zip hp).2)
  by_cases hc : dn.contains k = true
  · have hk : hasKey (dn.zip d) k = true := by rw [hasKey_zip dn d hlen]; exact hc
    simp only [hasKey, List.any_eq_true] at hk
    obtain ⟨p, hp, hpk⟩ := hk
    rw [hc]
    apply List.all_eq_false.mpr
    refine ⟨p, hp, ?_⟩
    simp only [decide_eq_true_eq] at hpk
    simp [hpk, hnd p hp]
  · have hk : hasKey (dn.zip d) k = false := by rw [hasKey_zip dn d hlen]; simpa using hc
    have hc' : dn.contains k = false := by simpa using hc
    rw [hc']
    apply List.all_eq_true.mpr
    intro p hp
    simp only [hasKey, List.any_eq_false] at hk
    have := hk p hp
    simp only [decide_eq_true_eq] at this
    simp [this]

theorem isDictVal_diff (x : Op) (h : x.isDiff = true) : isDictVal x = false := by
  cases x <;> simp_all [Op.isDiff, isDictVal]

theorem isDtVal_diff (x : Op) (h : x.isDiff = true) : isDtVal x = false := by
  cases x <;> simp_all [Op.isDiff, isDtVal]

theorem allDict_kwOf (dn : List String) (d : List Op) (nkw : KV) (k : String)
    (hlen : dn.length = d.length) (hd : d.all (·.isDiff) = true) :
    (kwOf dn d nkw).all (fun p => p.1 != k || isDictVal p.2) =
      (!dn.contains k && (nkw.map (fun p => (p.1, Op.val p.2))).all (fun p => p.1 != k || isDictVal p.2)) :=
  allPred_kwOf isDictVal isDictVal_diff dn d nkw k hlen hd

/-- the features of the positional arguments that `normalForm` reads -/
def argFeat (a : List Op) : List (String × Bool) := a.map (fun x => ((skel x).cls, (skel x).subTri))

theorem argFeat_congr (a a' : List Op) (h : skelL a = skelL a') : argFeat a = argFeat a' := by
  unfold argFeat
  have e : ∀ zs : List Op, zs.map (fun x => ((skel x).cls, (skel x).subTri)) =
      (skelL zs).map (fun s => (s.cls, s.subTri)) := by
    intro zs; rw [skelL_eq_map, List.map_map]; rfl
  rw [e a, e a', h]

theorem normalForm_congr (cls : String) (a a' : List Op) (dn : List String) (d d' : List Op) (nkw : KV)
    (ha : skelL a = skelL a') (hlen : dn.length = d.length) (hlen' : dn.length = d'.length)
    (hd : d.all (·.isDiff) = true) (hd' : d'.all (·.isDiff) = true) :
    normalForm cls a (kwOf dn d nkw) = normalForm cls a' (kwOf dn d' nkw) := by
  have hf := argFeat_congr a a' ha
  unfold normalForm
  rw [lookupInt_kwOf dn d nkw "dim" hlen hd, lookupInt_kwOf dn d' nkw "dim" hlen' hd',
    allDict_kwOf dn d nkw _ hlen hd, allDict_kwOf dn d' nkw _ hlen' hd',
    allNotDiff_kwOf dn d nkw hlen hd, allNotDiff_kwOf dn d' nkw hlen' hd',
    allPred_kwOf isDtVal isDtVal_diff dn d nkw "dtype" hlen hd, allPred_kwOf isDtVal isDtVal_diff dn d' nkw "dtype" hlen' hd']
  have hany : ∀ (dd : List Op), dn.length = dd.length →
      (kwOf dn dd nkw).any (fun p => decide (p.1 = "num_nonbatch_dimensions")) =
        (dn.contains "num_nonbatch_dimensions" || hasKey nkw "num_nonbatch_dimensions") := by
    intro dd hl; exact hasKey_kwOf dn dd nkw hl _
  rw [hany d hlen, hany d' hlen']
  -- positional features
  cases a with
  | nil =>
    cases a' with
    | nil => rfl
    | cons y ys => simp [skelL] at ha
  | cons x xs =>
    cases a' with
    | nil => simp [skelL] at ha
    | cons y ys =>
      simp only [argFeat, List.map_cons, List.cons.injEq, Prod.mk.injEq] at hf
      obtain ⟨⟨hc, hs⟩, hrest⟩ := hf
      rw [cls_skel, cls_skel] at hc
      rw [subTri_skel, subTri_skel] at hs
      have hall : (x :: xs).all (fun z => z.cls != "#tensor") = (y :: ys).all (fun z => z.cls != "#tensor") := by
        have e : ∀ zs : List Op, zs.all (fun z => z.cls != "#tensor") = (argFeat zs).all (fun q => q.1 != "#tensor") := by
          intro zs; unfold argFeat; rw [List.all_map]; congr 1; funext z; simp [cls_skel]
        rw [e, e, argFeat_congr _ _ ha]
      have hallv : (x :: xs).all (fun z => !z.isDiff) = (y :: ys).all (fun z => !z.isDiff) := by
        have e : ∀ zs : List Op, zs.all (fun z => !z.isDiff) = (skelL zs).all (fun q => !q.isDiff) := by
          intro zs; rw [skelL_eq_map, List.all_map]; congr 1; funext z; simp [isDiff_skel]
        rw [e, e, ha]
      simp only [hall, hallv, hc, hs]

theorem nodeOK_congr (cfg : Cfg) (cls : String) (a a' : List Op) (dn : List String) (d d' : List Op) (nkw hid : KV)
    (ha : skelL a = skelL a') (hd : skelL d = skelL d')
    (h : nodeOK cfg cls a dn d nkw hid = true) : nodeOK cfg cls a' dn d' nkw hid = true := by
  unfold nodeOK at h ⊢
  cases hL : cfg.layout cls with
  | none => rw [hL] at h; simp at h
  | some L =>
    rw [hL] at h
    simp only [Bool.and_eq_true, decide_eq_true_eq] at h ⊢
    obtain ⟨⟨⟨⟨⟨⟨⟨⟨⟨⟨hnf, hpos⟩, hlen⟩, hdiff⟩, hs1⟩, hs2⟩, hdn⟩, hnk⟩, hall⟩, hhid⟩, hh⟩ := h
    have la : a'.length = a.length := by rw [← skelL_length a', ← ha, skelL_length]
    have ld : d'.length = d.length := by rw [← skelL_length d', ← hd, skelL_length]
    have hdiff' : d'.all (·.isDiff) = true := by rw [← all_isDiff_skel d d' hd]; exact hdiff
    refine ⟨⟨⟨⟨⟨⟨⟨⟨⟨⟨?_, ?_⟩, ?_⟩, hdiff'⟩, hs1⟩, hs2⟩, hdn⟩, hnk⟩, hall⟩, hhid⟩, hh⟩
    · rw [← normalForm_congr cls a a' dn d d' nkw ha hlen (by omega) hdiff hdiff']; exact hnf
    · rw [la]; exact hpos
    · omega

end LinOp.C14

/-! ### rebuilding with other tensors -/
namespace LinOp.C14

theorem take_drop_split {α : Type} (ts : List α) (n m : Nat) (h : ts.length = n + m) :
    (ts.take n).length = n ∧ (ts.drop n).length = m ∧ ts.take n ++ ts.drop n = ts := by
  refine ⟨?_, ?_, List.take_append_drop n ts⟩
  · rw [List.length_take]; omega
  · rw [List.length_drop]; omega

mutual
theorem call_any (cfg : Cfg) : ∀ (o : Op), normal cfg o = true → representable o = true →
    ∀ (pre ts rest : List Leaf), ts.length = (rep o).length →
      ∃ o', call cfg (treeAt pre.length o) (pre ++ ts ++ rest) = some o' ∧ skel o' = skel o ∧ rep o' = ts
  | .leaf l, _, _, pre, ts, rest, hts => by
    match ts, hts with
    | [t], _ =>
      refine ⟨.leaf t, ?_, rfl, rfl⟩
      simp [treeAt, call]
  | .val v, _, hr, _, _, _, _ => by simp [representable] at hr
  | .node cls a dn d nkw hid, hn, hr, pre, ts, rest, hts => by
    simp only [normal, Bool.and_eq_true] at hn
    obtain ⟨⟨hok, hna⟩, hnd⟩ := hn
    simp only [rep, List.length_append] at hts
    by_cases hz : cls = "ZeroLinearOperator"
    · subst hz
      obtain ⟨hdn, hd0, hra, hres⟩ := zero_node_facts cfg a dn d nkw hid hok
      subst hdn; subst hd0
      have hts0 : ts = [] := List.eq_nil_of_length_eq_zero (by simpa [hra, repL] using hts)
      subst hts0
      refine ⟨.node "ZeroLinearOperator" a [] [] nkw hid, ?_, rfl, by simp [rep, hra, repL]⟩
      simp only [treeAt, if_pos, call, hres]
      exact construct_fix cfg _ a [] [] nkw hid hok
    simp only [representable, if_neg hz, Bool.and_eq_true] at hr
    obtain ⟨hla, hld, hsplit⟩ := take_drop_split ts (repL a).length (repL d).length hts
    obtain ⟨a', hca, hsa, hra⟩ := callL_any cfg a hna hr.1 [] (ts.take (repL a).length) (ts.drop (repL a).length) hla
    obtain ⟨d', hcd, hsd, hrd⟩ := callL_any cfg d hnd hr.2 (ts.take (repL a).length) (ts.drop (repL a).length) [] hld
    simp only [List.nil_append, List.length_nil, List.append_nil, hsplit] at hca hcd
    rw [hla, ← widthL_eq a hr.1] at hcd
    have hcat := callL_append cfg _ _ _ _ _ hca hcd
    have hok' := nodeOK_congr cfg cls a a' dn d d' nkw hid hsa.symm hsd.symm hok
    have hlen : dn.length = d'.length := by
      unfold nodeOK at hok'
      cases hL : cfg.layout cls with
      | none => rw [hL] at hok'; simp at hok'
      | some L =>
        rw [hL] at hok'
        simp only [Bool.and_eq_true, decide_eq_true_eq] at hok'
        exact hok'.1.1.1.1.1.1.1.1.2
    refine ⟨.node cls a' dn d' nkw hid, ?_, ?_, ?_⟩
    · simp only [treeAt, if_neg hz, call, List.length_append]
      have hslice : ((pre ++ ts ++ rest).drop pre.length).take
          (pre.length + ((repL a).length + (repL d).length) - pre.length) = ts := by
        rw [List.append_assoc, List.drop_left, Nat.add_sub_cancel_left, ← hts, List.take_left]
      rw [hslice, hcat]
      simp only [List.length_append, hlen, Nat.add_sub_cancel, List.take_left', List.drop_left']
      exact construct_fix cfg cls a' dn d' nkw hid hok'
    · simp only [skel, hsa, hsd]
    · simp only [rep, hra, hrd, hsplit]
theorem callL_any (cfg : Cfg) : ∀ (xs : List Op), normalL cfg xs = true → representableL xs = true →
    ∀ (pre ts rest : List Leaf), ts.length = (repL xs).length →
      ∃ xs', callL cfg (treeL pre.length xs) (pre ++ ts ++ rest) = some xs' ∧ skelL xs' = skelL xs ∧ repL xs' = ts
  | [], _, _, _, ts, _, hts => by
    have : ts = [] := List.eq_nil_of_length_eq_zero (by simpa [repL] using hts)
    subst this
    exact ⟨[], by simp [treeL, callL], rfl, rfl⟩
  | x :: xs, hn, hr, pre, ts, rest, hts => by
    simp only [normalL, Bool.and_eq_true] at hn
    simp only [representableL, Bool.and_eq_true] at hr
    simp only [repL, List.length_append] at hts
    obtain ⟨hlx, hlxs, hsplit⟩ := take_drop_split ts (rep x).length (repL xs).length hts
    obtain ⟨x', hcx, hsx, hrx⟩ := call_any cfg x hn.1 hr.1 pre (ts.take (rep x).length) (ts.drop (rep x).length ++ rest) hlx
    obtain ⟨xs', hcxs, hsxs, hrxs⟩ := callL_any cfg xs hn.2 hr.2 (pre ++ ts.take (rep x).length) (ts.drop (rep x).length) rest hlxs
    rw [List.length_append, hlx] at hcxs
    have e1 : pre ++ ts.take (rep x).length ++ (ts.drop (rep x).length ++ rest) = pre ++ ts ++ rest := by
      rw [List.append_assoc pre, ← List.append_assoc (ts.take _), hsplit, ← List.append_assoc]
    have e2 : pre ++ ts.take (rep x).length ++ ts.drop (rep x).length ++ rest = pre ++ ts ++ rest := by
      rw [List.append_assoc pre, hsplit]
    rw [e1] at hcx
    rw [e2] at hcxs
    refine ⟨x' :: xs', ?_, ?_, ?_⟩
    · simp only [treeL, callL, width_eq x hr.1, hcx, hcxs]
    · simp only [skelL, hsx, hsxs]
    · simp only [repL, hrx, hrxs, hsplit]
end

end LinOp.C14

/-! ### copies and conversions preserve the skeleton -/
namespace LinOp.C14

/-- classes whose conversion rewrites a non-tensor keyword (dtype / device fields) -/
def rewritesNkw (cls : String) : Bool :=
  cls = "IdentityLinearOperator" || cls = "ZeroLinearOperator" || cls = "CatLinearOperator"

mutual
def plain : Op → Bool
  | .leaf _ => true
  | .val _ => true
  | .node cls a _ d _ _ => !rewritesNkw cls && plainL a && plainL d
def plainL : List Op → Bool
  | [] => true
  | x :: xs => plain x && plainL xs
end

theorem convNkw_plain (m : Mode) (cls : String) (nkw : KV) (h : rewritesNkw cls = false) : convNkw m cls nkw = nkw := by
  simp only [rewritesNkw, Bool.or_eq_false_iff, decide_eq_false_iff_not] at h
  simp [convNkw, h.1.1, h.1.2, h.2]

def convHead (cfg : Cfg) (m : Mode) (guard : Bool) (x : Op) : Option Op :=
      match x with
      | .leaf l => some (.leaf (convLeaf m (guard || cfg.baseToGuard) l))
      | .val v => some (.val v)
      | .node c a dn d nkw hid =>
        match m with
        | .type t =>
          if isFloatDT (dtypeOf cfg true (.node c a dn d nkw hid)) then conv cfg (.cloneTo t) (.node c a dn d nkw hid)
          else conv cfg .clone (.node c a dn d nkw hid)
        | .to _ =>
          if guard && !isFloatDT (dtypeOf cfg false (.node c a dn d nkw hid)) then some (.node c a dn d nkw hid)
          else conv cfg m (.node c a dn d nkw hid)
        | .cloneTo _ =>
          if guard && !isFloatDT (dtypeOf cfg true (.node c a dn d nkw hid)) then conv cfg .clone (.node c a dn d nkw hid)
          else conv cfg m (.node c a dn d nkw hid)
        | _ => conv cfg m (.node c a dn d nkw hid)
theorem convL_cons (cfg : Cfg) (m : Mode) (guard : Bool) (x : Op) (xs : List Op) :
    convL cfg m guard (x :: xs) =
      (match convHead cfg m guard x, convL cfg m guard xs with
       | some y, some ys => some (y :: ys)
       | _, _ => none) := by
  cases x <;> rfl
theorem convL_nil (cfg : Cfg) (m : Mode) (guard : Bool) : convL cfg m guard [] = some [] := rfl
def isTypeMode : Mode → Bool
  | .type _ => true
  | _ => false

theorem conv_node (cfg : Cfg) (m : Mode) (cls : String) (a : List Op) (dn : List String) (d : List Op) (nkw hid : KV) :
    conv cfg m (.node cls a dn d nkw hid) =
    if (cls = "TransposePermutationLinearOperator" && isTypeMode m) = true then
      some (.node cls a dn d nkw hid)
    else
    match convL cfg (nodeMode m cls) (floatOnlyTo cls) a, convL cfg (nodeMode m cls) (floatOnlyTo cls) d with
    | some a', some d' => construct cfg cls a' (kwOf dn d' (convNkw m cls nkw))
    | _, _ => none := by cases m <;> rfl

/-- positional and keyword tensor lists are converted by the same leaf law -/
theorem convL_leaves (cfg : Cfg) (m : Mode) (guard : Bool) : ∀ (ls : List Leaf),
    convL cfg m guard (ls.map Op.leaf) = some (ls.map fun l => Op.leaf (convLeaf m (guard || cfg.baseToGuard) l))
  | [] => rfl
  | l :: ls => by
    rw [List.map_cons, convL_cons, convL_leaves cfg m guard ls]
    rfl

theorem convHead_skel (cfg : Cfg) (m : Mode) (guard : Bool) (x : Op)
    (ih : ∀ m', ∃ y, conv cfg m' x = some y ∧ skel y = skel x) :
    ∃ y, convHead cfg m guard x = some y ∧ skel y = skel x := by
  cases x with
  | leaf l => exact ⟨_, rfl, rfl⟩
  | val v => exact ⟨_, rfl, rfl⟩
  | node c a dn d nkw hid =>
    cases m with
    | clone => exact ih .clone
    | detach => exact ih .detach
    | type t =>
      simp only [convHead]
      split
      · exact ih (.cloneTo t)
      · exact ih .clone
    | to t =>
      simp only [convHead]
      split
      · exact ⟨_, rfl, rfl⟩
      · exact ih (.to t)
    | cloneTo t =>
      simp only [convHead]
      split
      · exact ih .clone
      · exact ih (.cloneTo t)

mutual
theorem conv_skel (cfg : Cfg) : ∀ (o : Op), normal cfg o = true → plain o = true → ∀ (m : Mode),
    ∃ o', conv cfg m o = some o' ∧ skel o' = skel o
  | .leaf l, _, _, m => ⟨_, rfl, rfl⟩
  | .val v, _, _, m => ⟨_, rfl, rfl⟩
  | .node cls a dn d nkw hid, hn, hp, m => by
    simp only [normal, Bool.and_eq_true] at hn
    simp only [plain, Bool.and_eq_true, Bool.not_eq_true'] at hp
    obtain ⟨⟨hok, hna⟩, hnd⟩ := hn
    obtain ⟨⟨hrw, hpa⟩, hpd⟩ := hp
    rw [conv_node]
    by_cases hc : (decide (cls = "TransposePermutationLinearOperator") && isTypeMode m) = true
    · rw [if_pos hc]; exact ⟨_, rfl, rfl⟩
    · rw [if_neg hc]
      obtain ⟨a', hca, hsa⟩ := convL_skel cfg a hna hpa (nodeMode m cls) (floatOnlyTo cls)
      obtain ⟨d', hcd, hsd⟩ := convL_skel cfg d hnd hpd (nodeMode m cls) (floatOnlyTo cls)
      rw [hca, hcd, convNkw_plain m cls nkw hrw]
      have hok' := nodeOK_congr cfg cls a a' dn d d' nkw hid hsa.symm hsd.symm hok
      exact ⟨.node cls a' dn d' nkw hid, construct_fix cfg cls a' dn d' nkw hid hok', by simp only [skel, hsa, hsd]⟩
theorem convL_skel (cfg : Cfg) : ∀ (xs : List Op), normalL cfg xs = true → plainL xs = true →
    ∀ (m : Mode) (guard : Bool), ∃ xs', convL cfg m guard xs = some xs' ∧ skelL xs' = skelL xs
  | [], _, _, _, _ => ⟨[], rfl, rfl⟩
  | x :: xs, hn, hp, m, guard => by
    simp only [normalL, Bool.and_eq_true] at hn
    simp only [plainL, Bool.and_eq_true] at hp
    obtain ⟨xs', hxs, hsxs⟩ := convL_skel cfg xs hn.2 hp.2 m guard
    obtain ⟨y, hy, hsy⟩ := convHead_skel cfg m guard x (fun m' => conv_skel cfg x hn.1 hp.1 m')
    rw [convL_cons, hy, hxs]
    exact ⟨y :: xs', rfl, by simp only [skelL, hsy, hsxs]⟩
end

end LinOp.C14

/-! ### `_set_requires_grad` on arbitrary initial flags -/
namespace LinOp.C14

def rgLeaf (v : Bool) (l : Leaf) : Leaf := if l.dt.isFloat then { l with rg := v } else l

/- every sub-operator argument, at every depth, reports a floating dtype (so `_set_requires_grad` descends into it) -/
mutual
def fdt (cfg : Cfg) : Op → Bool
  | .leaf _ => true
  | .val _ => true
  | .node _ a _ d _ _ => fdtL cfg a && fdtL cfg d
def fdtL (cfg : Cfg) : List Op → Bool
  | [] => true
  | x :: xs =>
    (match x with
     | .node c a dn d nkw hid => isFloatDT (dtypeOf cfg false (.node c a dn d nkw hid))
     | _ => true) && fdt cfg x && fdtL cfg xs
end

def setRGHead (cfg : Cfg) (v : Bool) (x : Op) : Op :=
  match x with
  | .node c a dn d nkw hid =>
    if isFloatDT (dtypeOf cfg false (.node c a dn d nkw hid)) then setRG cfg v (.node c a dn d nkw hid)
    else .node c a dn d nkw hid
  | y => setRG cfg v y

theorem setRGL_cons (cfg : Cfg) (v : Bool) (x : Op) (xs : List Op) :
    setRGL cfg v (x :: xs) = setRGHead cfg v x :: setRGL cfg v xs := by
  cases x <;> rfl

theorem setRG_node (cfg : Cfg) (v : Bool) (cls : String) (a : List Op) (dn : List String) (d : List Op) (nkw hid : KV) :
    setRG cfg v (.node cls a dn d nkw hid) = .node cls (setRGL cfg v a) dn (setRGL cfg v d) nkw hid := rfl

mutual
theorem rep_setRG (cfg : Cfg) (v : Bool) : ∀ (o : Op), fdt cfg o = true →
    rep (setRG cfg v o) = (rep o).map (rgLeaf v)
  | .leaf l, _ => by simp [setRG, rep, rgLeaf]
  | .val x, _ => by simp [setRG, rep]
  | .node cls a dn d nkw hid, h => by
    simp only [fdt, Bool.and_eq_true] at h
    rw [setRG_node]
    simp only [rep, List.map_append, repL_setRGL cfg v a h.1, repL_setRGL cfg v d h.2]
theorem repL_setRGL (cfg : Cfg) (v : Bool) : ∀ (xs : List Op), fdtL cfg xs = true →
    repL (setRGL cfg v xs) = (repL xs).map (rgLeaf v)
  | [], _ => rfl
  | x :: xs, h => by
    simp only [fdtL, Bool.and_eq_true] at h
    obtain ⟨⟨hx, hfx⟩, hxs⟩ := h
    rw [setRGL_cons]
    simp only [repL, List.map_append, repL_setRGL cfg v xs hxs]
    congr 1
    cases x with
    | leaf l => simp [setRGHead, setRG, rep, rgLeaf]
    | val y => simp [setRGHead, setRG, rep]
    | node c a dn d nkw hid =>
      simp only at hx
      simp only [setRGHead, hx, if_true]
      exact rep_setRG cfg v (.node c a dn d nkw hid) hfx
end

end LinOp.C14

/-! ### deep leaf laws of the conversions -/
namespace LinOp.C14

/-- what `type t` / `double` / `float` / `half` must do to a tensor: clone it, and cast it iff it is floating -/
def tyLeaf (t : DT) (l : Leaf) : Leaf :=
  if l.dt.isFloat then { l with dt := t, fresh := true } else { l with fresh := true }

theorem convLeaf_type_eq (t : DT) (g : Bool) (l : Leaf) : convLeaf (.type t) g l = tyLeaf t l := by
  unfold convLeaf tyLeaf; rfl

theorem convLeaf_cloneTo_guard (t : DT) (l : Leaf) : convLeaf (.cloneTo t) true l = tyLeaf t l := by
  unfold convLeaf tyLeaf
  cases h : l.dt.isFloat <;> simp [h]

def isTy (m : Mode) (t : DT) : Prop := m = .type t ∨ m = .cloneTo t

/- trees on which `type` converts uniformly: no dtype/device keyword rewrite (Identity/Zero/Cat), no
   TransposePermutation (its `type` returns self), every sub-operator reports a floating dtype (otherwise `type`
   only clones it) -/
mutual
def typeOK (cfg : Cfg) : Op → Bool
  | .leaf _ => true
  | .val _ => true
  | .node cls a _ d _ _ =>
    !rewritesNkw cls && !(decide (cls = "TransposePermutationLinearOperator")) && typeOKL cfg a && typeOKL cfg d
def typeOKL (cfg : Cfg) : List Op → Bool
  | [] => true
  | x :: xs =>
    (match x with
     | .node c a dn d nkw hid => isFloatDT (dtypeOf cfg true (.node c a dn d nkw hid))
     | _ => true) && typeOK cfg x && typeOKL cfg xs
end

theorem nodeMode_not_cat (m : Mode) (cls : String) (h : rewritesNkw cls = false) : nodeMode m cls = m := by
  simp only [rewritesNkw, Bool.or_eq_false_iff, decide_eq_false_iff_not] at h
  simp [nodeMode, h.2]

theorem convLeaf_ty (cfg : Cfg) (hb : cfg.baseToGuard = true) (m : Mode) (t : DT) (hm : isTy m t) (g : Bool) (l : Leaf) :
    convLeaf m (g || cfg.baseToGuard) l = tyLeaf t l := by
  rcases hm with rfl | rfl
  · exact convLeaf_type_eq t _ l
  · rw [hb, Bool.or_true]; exact convLeaf_cloneTo_guard t l

mutual
theorem conv_ty_node (cfg : Cfg) (hb : cfg.baseToGuard = true) (t : DT) :
    ∀ (o : Op), normal cfg o = true → typeOK cfg o = true → ∀ (m : Mode), isTy m t → (∀ l, o ≠ .leaf l) →
    ∃ o', conv cfg m o = some o' ∧ skel o' = skel o ∧ rep o' = (rep o).map (tyLeaf t)
  | .leaf l, _, _, _, _, hnl => absurd rfl (hnl l)
  | .val v, _, _, _, _, _ => ⟨_, rfl, rfl, rfl⟩
  | .node cls a dn d nkw hid, hn, hp, m, hm, _ => by
    simp only [normal, Bool.and_eq_true] at hn
    simp only [typeOK, Bool.and_eq_true, Bool.not_eq_true', decide_eq_false_iff_not] at hp
    obtain ⟨⟨hok, hna⟩, hnd⟩ := hn
    obtain ⟨⟨⟨hrw, htp⟩, hpa⟩, hpd⟩ := hp
    rw [conv_node, if_neg (by simp [htp]), nodeMode_not_cat m cls hrw, convNkw_plain m cls nkw hrw]
    obtain ⟨a', hca, hsa, hra⟩ := convL_ty cfg hb t a hna hpa m hm (floatOnlyTo cls)
    obtain ⟨d', hcd, hsd, hrd⟩ := convL_ty cfg hb t d hnd hpd m hm (floatOnlyTo cls)
    rw [hca, hcd]
    have hok' := nodeOK_congr cfg cls a a' dn d d' nkw hid hsa.symm hsd.symm hok
    exact ⟨.node cls a' dn d' nkw hid, construct_fix cfg cls a' dn d' nkw hid hok', by simp only [skel, hsa, hsd],
      by simp only [rep, hra, hrd, List.map_append]⟩
theorem convL_ty (cfg : Cfg) (hb : cfg.baseToGuard = true) (t : DT) :
    ∀ (xs : List Op), normalL cfg xs = true → typeOKL cfg xs = true → ∀ (m : Mode), isTy m t → ∀ (guard : Bool),
    ∃ xs', convL cfg m guard xs = some xs' ∧ skelL xs' = skelL xs ∧ repL xs' = (repL xs).map (tyLeaf t)
  | [], _, _, _, _, _ => ⟨[], rfl, rfl, rfl⟩
  | x :: xs, hn, hp, m, hm, guard => by
    simp only [normalL, Bool.and_eq_true] at hn
    simp only [typeOKL, Bool.and_eq_true] at hp
    obtain ⟨⟨hfx, hpx⟩, hpxs⟩ := hp
    obtain ⟨xs', hxs, hsxs, hrxs⟩ := convL_ty cfg hb t xs hn.2 hpxs m hm guard
    have hhead : ∃ y, convHead cfg m guard x = some y ∧ skel y = skel x ∧ rep y = (rep x).map (tyLeaf t) := by
      cases x with
      | leaf l => exact ⟨_, rfl, rfl, by simp [rep, convLeaf_ty cfg hb m t hm guard l]⟩
      | val v => exact ⟨_, rfl, rfl, rfl⟩
      | node c a dn d nkw hid =>
        simp only at hfx
        have ih := conv_ty_node cfg hb t (.node c a dn d nkw hid) hn.1 hpx (.cloneTo t) (Or.inr rfl)
          (by intro l h; cases h)
        rcases hm with rfl | rfl
        · simp only [convHead, hfx, if_true]; exact ih
        · simp only [convHead, hfx, Bool.not_true, Bool.and_false, Bool.false_eq_true, if_false]; exact ih
    obtain ⟨y, hy, hsy, hry⟩ := hhead
    rw [convL_cons, hy, hxs]
    exact ⟨y :: xs', rfl, by simp only [skelL, hsy, hsxs], by simp only [repL, hry, hrxs, List.map_append]⟩
end

/-! clone / detach: every leaf, at every depth, goes through the mode's leaf law; no side conditions beyond normality -/

def simpleMode (m : Mode) : Prop := m = .clone ∨ m = .detach

theorem convLeaf_simple (m : Mode) (hm : simpleMode m) (g : Bool) (l : Leaf) : convLeaf m g l = convLeaf m false l := by
  rcases hm with rfl | rfl <;> rfl

theorem convNkw_simple (m : Mode) (hm : simpleMode m) (cls : String) (nkw : KV) : convNkw m cls nkw = nkw := by
  rcases hm with rfl | rfl <;>
  · unfold convNkw
    by_cases h1 : cls = "IdentityLinearOperator"
    · rw [if_pos h1]
    · rw [if_neg h1]
      by_cases h2 : cls = "ZeroLinearOperator"
      · rw [if_pos h2]
      · rw [if_neg h2]
        by_cases h3 : cls = "CatLinearOperator"
        · rw [if_pos h3]
        · rw [if_neg h3]

theorem nodeMode_simple (m : Mode) (hm : simpleMode m) (cls : String) : nodeMode m cls = m := by
  rcases hm with rfl | rfl <;>
  · unfold nodeMode
    by_cases h : cls = "CatLinearOperator"
    · rw [if_pos h]
    · rw [if_neg h]

mutual
theorem conv_simple (cfg : Cfg) (m : Mode) (hm : simpleMode m) : ∀ (o : Op), normal cfg o = true →
    ∃ o', conv cfg m o = some o' ∧ skel o' = skel o ∧ rep o' = (rep o).map (convLeaf m false)
  | .leaf l, _ => ⟨_, rfl, rfl, rfl⟩
  | .val v, _ => ⟨_, rfl, rfl, rfl⟩
  | .node cls a dn d nkw hid, hn => by
    simp only [normal, Bool.and_eq_true] at hn
    obtain ⟨⟨hok, hna⟩, hnd⟩ := hn
    have hnt : isTypeMode m = false := by rcases hm with rfl | rfl <;> rfl
    rw [conv_node, if_neg (by simp [hnt]), nodeMode_simple m hm, convNkw_simple m hm]
    obtain ⟨a', hca, hsa, hra⟩ := convL_simple cfg m hm a hna (floatOnlyTo cls)
    obtain ⟨d', hcd, hsd, hrd⟩ := convL_simple cfg m hm d hnd (floatOnlyTo cls)
    rw [hca, hcd]
    have hok' := nodeOK_congr cfg cls a a' dn d d' nkw hid hsa.symm hsd.symm hok
    exact ⟨.node cls a' dn d' nkw hid, construct_fix cfg cls a' dn d' nkw hid hok', by simp only [skel, hsa, hsd],
      by simp only [rep, hra, hrd, List.map_append]⟩
theorem convL_simple (cfg : Cfg) (m : Mode) (hm : simpleMode m) : ∀ (xs : List Op), normalL cfg xs = true →
    ∀ (guard : Bool), ∃ xs', convL cfg m guard xs = some xs' ∧ skelL xs' = skelL xs ∧
      repL xs' = (repL xs).map (convLeaf m false)
  | [], _, _ => ⟨[], rfl, rfl, rfl⟩
  | x :: xs, hn, guard => by
    simp only [normalL, Bool.and_eq_true] at hn
    obtain ⟨xs', hxs, hsxs, hrxs⟩ := convL_simple cfg m hm xs hn.2 guard
    have hhead : ∃ y, convHead cfg m guard x = some y ∧ skel y = skel x ∧ rep y = (rep x).map (convLeaf m false) := by
      cases x with
      | leaf l => exact ⟨_, rfl, rfl, by simp [rep, convLeaf_simple m hm _ l]⟩
      | val v => exact ⟨_, rfl, rfl, rfl⟩
      | node c a dn d nkw hid =>
        have ih := conv_simple cfg m hm (.node c a dn d nkw hid) hn.1
        rcases hm with rfl | rfl <;> exact ih
    obtain ⟨y, hy, hsy, hry⟩ := hhead
    rw [convL_cons, hy, hxs]
    exact ⟨y :: xs', rfl, by simp only [skelL, hsy, hsxs], by simp only [repL, hry, hrxs, List.map_append]⟩
end

end LinOp.C14

/-! ### `to(dtype)` over the whole tree -/
namespace LinOp.C14

/-- what `to(t)` must do to a tensor: nothing if it already has dtype `t` or is not floating, else cast (new storage) -/
def toLeaf (t : DT) (l : Leaf) : Leaf :=
  if l.dt = t then l else if l.dt.isFloat then { l with dt := t, fresh := true } else l

theorem convLeaf_to_guard (t : DT) (l : Leaf) : convLeaf (.to t) true l = toLeaf t l := by
  unfold convLeaf toLeaf
  by_cases h1 : l.dt = t
  · simp [h1]
  · cases h : l.dt.isFloat <;> simp [h1, h]

mutual
def toOK (cfg : Cfg) : Op → Bool
  | .leaf _ => true
  | .val _ => true
  | .node cls a _ d _ _ => !rewritesNkw cls && toOKL cfg a && toOKL cfg d
def toOKL (cfg : Cfg) : List Op → Bool
  | [] => true
  | x :: xs =>
    (match x with
     | .node c a dn d nkw hid => isFloatDT (dtypeOf cfg false (.node c a dn d nkw hid))
     | _ => true) && toOK cfg x && toOKL cfg xs
end

mutual
theorem conv_to_node (cfg : Cfg) (hb : cfg.baseToGuard = true) (t : DT) :
    ∀ (o : Op), normal cfg o = true → toOK cfg o = true → (∀ l, o ≠ .leaf l) →
    ∃ o', conv cfg (.to t) o = some o' ∧ skel o' = skel o ∧ rep o' = (rep o).map (toLeaf t)
  | .leaf l, _, _, hnl => absurd rfl (hnl l)
  | .val v, _, _, _ => ⟨_, rfl, rfl, rfl⟩
  | .node cls a dn d nkw hid, hn, hp, _ => by
    simp only [normal, Bool.and_eq_true] at hn
    simp only [toOK, Bool.and_eq_true, Bool.not_eq_true'] at hp
    obtain ⟨⟨hok, hna⟩, hnd⟩ := hn
    obtain ⟨⟨hrw, hpa⟩, hpd⟩ := hp
    rw [conv_node, if_neg (by simp [isTypeMode]), nodeMode_not_cat _ cls hrw, convNkw_plain _ cls nkw hrw]
    obtain ⟨a', hca, hsa, hra⟩ := convL_to cfg hb t a hna hpa (floatOnlyTo cls)
    obtain ⟨d', hcd, hsd, hrd⟩ := convL_to cfg hb t d hnd hpd (floatOnlyTo cls)
    rw [hca, hcd]
    have hok' := nodeOK_congr cfg cls a a' dn d d' nkw hid hsa.symm hsd.symm hok
    exact ⟨.node cls a' dn d' nkw hid, construct_fix cfg cls a' dn d' nkw hid hok', by simp only [skel, hsa, hsd],
      by simp only [rep, hra, hrd, List.map_append]⟩
theorem convL_to (cfg : Cfg) (hb : cfg.baseToGuard = true) (t : DT) :
    ∀ (xs : List Op), normalL cfg xs = true → toOKL cfg xs = true → ∀ (guard : Bool),
    ∃ xs', convL cfg (.to t) guard xs = some xs' ∧ skelL xs' = skelL xs ∧ repL xs' = (repL xs).map (toLeaf t)
  | [], _, _, _ => ⟨[], rfl, rfl, rfl⟩
  | x :: xs, hn, hp, guard => by
    simp only [normalL, Bool.and_eq_true] at hn
    simp only [toOKL, Bool.and_eq_true] at hp
    obtain ⟨⟨hfx, hpx⟩, hpxs⟩ := hp
    obtain ⟨xs', hxs, hsxs, hrxs⟩ := convL_to cfg hb t xs hn.2 hpxs guard
    have hhead : ∃ y, convHead cfg (.to t) guard x = some y ∧ skel y = skel x ∧ rep y = (rep x).map (toLeaf t) := by
      cases x with
      | leaf l =>
        refine ⟨_, rfl, rfl, ?_⟩
        simp only [rep, List.map_cons, List.map_nil, hb, Bool.or_true, convLeaf_to_guard]
      | val v => exact ⟨_, rfl, rfl, rfl⟩
      | node c a dn d nkw hid =>
        simp only at hfx
        have ih := conv_to_node cfg hb t (.node c a dn d nkw hid) hn.1 hpx (by intro l h; cases h)
        simp only [convHead, hfx, Bool.not_true, Bool.and_false, Bool.false_eq_true, if_false]; exact ih
    obtain ⟨y, hy, hsy, hry⟩ := hhead
    rw [convL_cons, hy, hxs]
    exact ⟨y :: xs', rfl, by simp only [skelL, hsy, hsxs], by simp only [repL, hry, hrxs, List.map_append]⟩
end

end LinOp.C14
