import LinOp.C14.Model
namespace LinOp.C14
end LinOp.C14
