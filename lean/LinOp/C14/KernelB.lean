import LinOp.C14.Bcast
/-!
C14 — `KernelLinearOperator.__init__` batch broadcasting of `x1`, `x2` and the tensor-valued `**params` (core Lean only).

  `batch_broadcast_shape = broadcast_shapes(x1.shape[:-2], x2.shape[:-2], *param_batch_shapes)`  (with the default
  `num_nonbatch_dimensions = defaultdict(lambda: 2)`: `param.shape[:-2]` is the batch part — for a parameter with fewer
  than two dimensions that is `()` and the whole shape counts as non-batch; an explicit dict is outside the model);
  if it is non-empty: `x1 = x1.expand(*bs, *x1.shape[-2:]).contiguous().requires_grad_(x1.requires_grad)` (same for x2:
  a copy exactly when the number of elements grows, otherwise the same storage), every tensor parameter
  `val.expand(*bs).requires_grad_(val.requires_grad)` (a view).  Operator-valued and non-tensor parameters are passed on
  untouched (`torch.is_tensor` decides).
-/
namespace LinOp.C14

def prodL : List Nat → Nat
  | [] => 1
  | x :: xs => x * prodL xs

def expandLeaf (bs : List Nat) (k : Nat) (contig : Bool) (l : Leaf) : Leaf :=
  { l with shape := bs ++ lastN k l.shape,
           fresh := l.fresh || (contig && decide (prodL (bs ++ lastN k l.shape) ≠ prodL l.shape)) }

def kwLeafShapes : List (String × Op) → List (List Nat)
  | [] => []
  | (_, .leaf l) :: r => dropLastN 2 l.shape :: kwLeafShapes r
  | (_, .val _) :: r => kwLeafShapes r
  | (_, .node ..) :: r => kwLeafShapes r

def expandKw (bs : List Nat) : List (String × Op) → List (String × Op)
  | [] => []
  | (k, .leaf l) :: r => (k, .leaf (expandLeaf bs 2 false l)) :: expandKw bs r
  | (k, .val v) :: r => (k, .val v) :: expandKw bs r
  | (k, .node c a dn d nkw hid) :: r => (k, .node c a dn d nkw hid) :: expandKw bs r

/-- every tensor-valued parameter has at least the two non-batch dimensions the default assumes -/
def kwDims2 : List (String × Op) → Bool
  | [] => true
  | (_, .leaf l) :: r => decide (2 ≤ l.shape.length) && kwDims2 r
  | (_, .val _) :: r => kwDims2 r
  | (_, .node ..) :: r => kwDims2 r

/-- a `num_nonbatch_dimensions` argument the model cannot read.  The protocol encodes every dict as the opaque value
    `dict`; the model treats it as the constructor's own `defaultdict(lambda: 2)` (that is what `_kwargs` holds and what
    every copy / rebuild passes back); anything else is outside the model. -/
def badNnd (p : String × Op) : Bool :=
  p.1 == "num_nonbatch_dimensions" &&
    (match p.2 with
     | .val (.str s) => s != "dict"
     | .val .none => false
     | _ => true)

def preKernel (pos : List Op) (kw : List (String × Op)) : Option (List Op × List (String × Op)) :=
  if kw.any badNnd then none
  else
    match pos with
    | .leaf x1 :: .leaf x2 :: rest =>
      if x1.shape.length < 2 || x2.shape.length < 2 then none else
      match bcastAll (dropLastN 2 x1.shape :: dropLastN 2 x2.shape :: kwLeafShapes kw) with
      | none => none
      | some bs =>
        if bs.isEmpty then some (pos, kw)
        else some (.leaf (expandLeaf bs 2 true x1) :: .leaf (expandLeaf bs 2 true x2) :: rest, expandKw bs kw)
    | _ => none

/-- all shape-dependent constructor pre-passes of the model -/
def preNormK (cls : String) (pos : List Op) (kw : List (String × Op)) : Option (List Op × List (String × Op)) :=
  if cls = "KernelLinearOperator" then preKernel pos kw else preNormB cls pos kw

def constructK (cfg : Cfg) (cls : String) (pos : List Op) (kw : List (String × Op)) : Option Op :=
  match preNormK cls pos kw with
  | none => none
  | some p => construct cfg cls p.1 p.2

end LinOp.C14
