import LinOp.C14.Shape
import LinOp.C14.Proofs
/-! Lemmas about the shape-dependent constructor normalisations (`LinOp/C14/Shape.lean`). -/
namespace LinOp.C14

theorem cls_unsqT (o : Op) : (unsqT o).cls = o.cls := by cases o <;> rfl
theorem cls_permT (dims : List Nat) (o : Op) : (permT dims o).cls = o.cls := by cases o <;> rfl

theorem unsqTL_isEmpty : ∀ (a : List Op), (unsqTL a).isEmpty = a.isEmpty
  | [] => rfl
  | _ :: _ => rfl

theorem permTL_length (dims : List Nat) : ∀ (a : List Op), (permTL dims a).length = a.length
  | [] => rfl
  | _ :: xs => by simp [permTL, permTL_length dims xs]

theorem permTL_isEmpty (dims : List Nat) : ∀ (a : List Op), (permTL dims a).isEmpty = a.isEmpty
  | [] => rfl
  | _ :: _ => rfl

mutual
theorem genU_unsqT : ∀ (o : Op), genU (unsqT o) = genU o
  | .leaf _ => rfl
  | .val _ => rfl
  | .node cls a dn d nkw hid => by
    simp only [unsqT, genU, unsqTL_isEmpty, genUL_unsqTL a]
theorem genUL_unsqTL : ∀ (xs : List Op), genUL (unsqTL xs) = genUL xs
  | [] => rfl
  | x :: xs => by simp only [unsqTL, genUL, genU_unsqT x, genUL_unsqTL xs]
end

mutual
theorem skel_unsqT : ∀ (o : Op), skel (unsqT o) = skel o
  | .leaf _ => rfl
  | .val _ => rfl
  | .node cls a dn d nkw hid => by simp only [unsqT, skel, skelL_unsqTL a]
theorem skelL_unsqTL : ∀ (xs : List Op), skelL (unsqTL xs) = skelL xs
  | [] => rfl
  | x :: xs => by simp only [unsqTL, skelL, skel_unsqT x, skelL_unsqTL xs]
end

mutual
theorem skel_permT (dims : List Nat) : ∀ (o : Op), skel (permT dims o) = skel o
  | .leaf _ => rfl
  | .val _ => rfl
  | .node cls a dn d nkw hid => by simp only [permT, skel, skelL_permTL dims a]
theorem skelL_permTL (dims : List Nat) : ∀ (xs : List Op), skelL (permTL dims xs) = skelL xs
  | [] => rfl
  | x :: xs => by simp only [permTL, skelL, skel_permT dims x, skelL_permTL dims xs]
end

/-- everything of a tensor except its shape: dtype, storage identity, fresh flag, requires_grad -/
def Leaf.noShape (l : Leaf) : DT × Nat × Bool × Bool := (l.dt, l.id, l.fresh, l.rg)

mutual
theorem rep_unsqT : ∀ (o : Op), (rep (unsqT o)).map Leaf.noShape = (rep o).map Leaf.noShape
  | .leaf _ => rfl
  | .val _ => rfl
  | .node cls a dn d nkw hid => by simp only [unsqT, rep, List.map_append, repL_unsqTL a]
theorem repL_unsqTL : ∀ (xs : List Op), (repL (unsqTL xs)).map Leaf.noShape = (repL xs).map Leaf.noShape
  | [] => rfl
  | x :: xs => by simp only [unsqTL, repL, List.map_append, rep_unsqT x, repL_unsqTL xs]
end

mutual
theorem rep_permT (dims : List Nat) : ∀ (o : Op), (rep (permT dims o)).map Leaf.noShape = (rep o).map Leaf.noShape
  | .leaf _ => rfl
  | .val _ => rfl
  | .node cls a dn d nkw hid => by simp only [permT, rep, List.map_append, repL_permTL dims a]
theorem repL_permTL (dims : List Nat) : ∀ (xs : List Op),
    (repL (permTL dims xs)).map Leaf.noShape = (repL xs).map Leaf.noShape
  | [] => rfl
  | x :: xs => by simp only [permTL, repL, List.map_append, rep_permT dims x, repL_permTL dims xs]
end

theorem ndimHead_cons (x : Op) (xs : List Op) : ndimHead (x :: xs) = ndim x := by simp only [ndimHead]

/-- every `unsqueeze(0)` through the generic method adds exactly one (batch) dimension -/
theorem ndim_unsqT : ∀ (o : Op), genU o = true → ndim (unsqT o) = ndim o + 1
  | .leaf l, _ => by simp [unsqT, ndim, unsqLeaf]
  | .val _, h => by simp [genU] at h
  | .node cls a dn d nkw hid, h => by
    simp only [genU, Bool.and_eq_true, Bool.not_eq_true', List.isEmpty_eq_false_iff, bne_iff_ne, ne_eq] at h
    obtain ⟨⟨⟨hov, h4⟩, hne⟩, hg⟩ := h
    have hhead : ndimHead (unsqTL a) = ndimHead a + 1 := by
      cases a with
      | nil => exact absurd rfl hne
      | cons x xs =>
        simp only [genUL, Bool.and_eq_true] at hg
        simp only [unsqTL, ndimHead_cons]
        exact ndim_unsqT x hg.1
    have h1 : cls ≠ "IdentityLinearOperator" := by
      intro e; subst e; revert hov; decide
    have h2 : cls ≠ "ZeroLinearOperator" := by
      intro e; subst e; revert hov; decide
    have h3 : blockLike.contains cls = false := by
      cases hb : blockLike.contains cls with
      | false => rfl
      | true =>
        simp only [blockLike, List.contains_eq_mem, List.mem_cons, List.not_mem_nil, or_false, decide_eq_true_eq] at hb
        rcases hb with e | e | e <;> (subst e; revert hov; decide)
    simp only [unsqT, ndim, if_neg h1, if_neg h2, if_neg h4, hhead, h3, Bool.false_eq_true, if_false]
    split <;> omega

theorem genU_iter : ∀ (k : Nat) (o : Op), genU (iterOp unsqT k o) = genU o
  | 0, _ => rfl
  | k + 1, o => by simp only [iterOp, genU_iter k, genU_unsqT]

theorem cls_iter : ∀ (k : Nat) (o : Op), (iterOp unsqT k o).cls = o.cls
  | 0, _ => rfl
  | k + 1, o => by simp only [iterOp, cls_iter k, cls_unsqT]

theorem skel_iter : ∀ (k : Nat) (o : Op), skel (iterOp unsqT k o) = skel o
  | 0, _ => rfl
  | k + 1, o => by simp only [iterOp, skel_iter k, skel_unsqT]

theorem rep_iter : ∀ (k : Nat) (o : Op), (rep (iterOp unsqT k o)).map Leaf.noShape = (rep o).map Leaf.noShape
  | 0, _ => rfl
  | k + 1, o => by simp only [iterOp, rep_iter k, rep_unsqT]

theorem ndim_iter : ∀ (k : Nat) (o : Op), genU o = true → ndim (iterOp unsqT k o) = ndim o + k
  | 0, _, _ => rfl
  | k + 1, o, h => by
    simp only [iterOp]
    rw [ndim_iter k (unsqT o) (by rw [genU_unsqT]; exact h), ndim_unsqT o h]
    omega

theorem permShape_length (dims s : List Nat) (h : dims.length ≤ s.length) : (permShape dims s).length = s.length := by
  simp only [permShape, List.length_append, List.length_map, List.length_drop]
  omega

/-- the generic `_permute_batch` keeps the number of dimensions -/
theorem ndim_permT (dims : List Nat) : ∀ (o : Op), genP dims.length o = true → ndim (permT dims o) = ndim o
  | .leaf l, h => by
    simp only [genP, decide_eq_true_eq] at h
    simp only [permT, ndim, permLeaf, permShape_length dims l.shape h]
  | .val _, _ => rfl
  | .node cls a dn d nkw hid, h => by
    simp only [genP, Bool.and_eq_true] at h
    have hhead : ndimHead (permTL dims a) = ndimHead a := by
      cases a with
      | nil => rfl
      | cons x xs =>
        have hg := h.2
        simp only [genPL, Bool.and_eq_true] at hg
        simp only [permTL, ndimHead_cons]
        exact ndim_permT dims x hg.1
    simp only [permT, ndim, hhead, permTL_length]

theorem moveDims_length (nd p : Nat) (h : p + 2 < nd) : (moveDims nd p).length = nd - 2 := by
  simp only [moveDims, List.length_append, List.length_range, List.length_range', List.length_cons, List.length_nil]
  omega

theorem moveDims_last (nd p : Nat) : (moveDims nd p).getLast? = some p := by
  simp [moveDims]

theorem badBase_iter (k : Nat) (o : Op) : badBase (iterOp unsqT k o) = badBase o := by
  simp only [badBase, cls_iter]

theorem badBase_permT (dims : List Nat) (o : Op) : badBase (permT dims o) = badBase o := by
  simp only [badBase, cls_permT]

theorem preBR_idem (base b' : Op) (r : Nat) (h : preBR base r = some b') : preBR b' r = some b' := by
  unfold preBR at h
  split at h
  · cases h
  · rename_i hbad
    split at h
    · cases h; rename_i hk
      simp only [preBR, hbad, hk, if_true]
      simp
    · rename_i hk
      split at h
      · rename_i hg
        cases h
        have hn := ndim_iter (r + 2 - ndim base) base hg
        have hk' : r + 2 - ndim (iterOp unsqT (r + 2 - ndim base) base) = 0 := by omega
        simp only [preBR, badBase_iter, hbad, hk', if_true]
        simp
      · cases h

/-- after the BatchRepeat pre-pass the base operator has at least `len(batch_repeat) + 2` dimensions, the same
    skeleton, and the same tensors up to their shapes (views: storage, dtype, requires_grad kept) -/
theorem preBR_spec (base b' : Op) (r : Nat) (h : preBR base r = some b') :
    r + 2 ≤ ndim b' ∧ ndim b' = max (ndim base) (r + 2) ∧ skel b' = skel base ∧
      (rep b').map Leaf.noShape = (rep base).map Leaf.noShape := by
  unfold preBR at h
  split at h
  · cases h
  · split at h
    · cases h; rename_i hk
      refine ⟨by omega, by omega, rfl, rfl⟩
    · rename_i hk
      split at h
      · rename_i hg
        cases h
        have hn := ndim_iter (r + 2 - ndim base) base hg
        refine ⟨by omega, by omega, skel_iter _ _, rep_iter _ _⟩
      · cases h

theorem preNorm_block_fix (cls : String) (hc : cls ≠ "BatchRepeatLinearOperator") (hb : blockLike.contains cls = true)
    (b : Op) (h3 : ¬ ndim b < 3) :
    preNorm cls [b] [("block_dim", Op.val (.int (-3)))] = some ([b], [("block_dim", Op.val (.int (-3)))]) := by
  have e : blockDimOf [] [("block_dim", Op.val (.int (-3)))] = some (-3) := by
    simp [blockDimOf, List.find?]
  simp only [preNorm, if_neg hc, hb, if_true, e, preBlock, preBlockN, if_neg h3]
  simp

theorem preBlockN_cases (pos : List Op) (kw : List (String × Op)) (base : Op) (bd : Int) (pos' : List Op)
    (kw' : List (String × Op)) (h : preBlockN pos kw base bd = some (pos', kw')) :
    (pos' = pos ∧ kw' = kw) ∨
    (¬ ndim base < 3 ∧ ∃ p : Nat, p + 2 < ndim base ∧ genP (ndim base - 2) base = true ∧
      pos' = [permT (moveDims (ndim base) p) base] ∧ kw' = [("block_dim", Op.val (.int (-3)))]) := by
  unfold preBlockN at h
  split at h
  · cases h
  · rename_i h3
    split at h
    · simp only [Option.some.injEq, Prod.mk.injEq] at h
      exact Or.inl ⟨h.1.symm, h.2.symm⟩
    · split at h
      · cases h
      · rename_i hlo
        split at h
        · cases h
        · rename_i hhi
          split at h
          · cases h
          · split at h
            · rename_i hg
              simp only [Option.some.injEq, Prod.mk.injEq] at h
              exact Or.inr ⟨h3, ((ndim base : Int) + bd).toNat, by omega, hg, h.1.symm, h.2.symm⟩
            · cases h

/-- **The shape-dependent constructor normalisations are idempotent**: what they produce is left alone by a second
    application (every class, every argument list). -/
theorem preNorm_idem (cls : String) (pos : List Op) (kw : List (String × Op)) (pos' : List Op)
    (kw' : List (String × Op)) (h : preNorm cls pos kw = some (pos', kw')) : preNorm cls pos' kw' = some (pos', kw') := by
  by_cases hc : cls = "BatchRepeatLinearOperator"
  · subst hc
    simp only [preNorm, if_true] at h ⊢
    cases pos with
    | nil => simp at h
    | cons base rest =>
      simp only at h
      cases hr : repLen rest kw with
      | none => simp [hr] at h
      | some r =>
        simp only [hr] at h
        cases hb : preBR base r with
        | none => simp [hb] at h
        | some b =>
          simp only [hb, Option.some.injEq, Prod.mk.injEq] at h
          obtain ⟨h1, h2⟩ := h
          subst h1; subst h2
          simp only [hr, preBR_idem base b r hb]
  · by_cases hb : blockLike.contains cls = true
    · have h0 := h
      simp only [preNorm, if_neg hc, hb, if_true] at h
      cases pos with
      | nil => simp at h
      | cons base rest =>
        simp only at h
        cases hd : blockDimOf rest kw with
        | none => simp [hd] at h
        | some bd0 =>
          simp only [hd, preBlock] at h
          rcases preBlockN_cases _ _ _ _ _ _ h with ⟨e1, e2⟩ | ⟨h3, p, hp, hg, e1, e2⟩
          · subst e1; subst e2; exact h0
          · subst e1; subst e2
            apply preNorm_block_fix cls hc hb
            rw [ndim_permT _ base (by rw [moveDims_length _ _ hp]; exact hg)]
            exact h3
    · have hb' : blockLike.contains cls = false := by simpa using hb
      simp only [preNorm, if_neg hc, hb', Bool.false_eq_true, if_false, Option.some.injEq, Prod.mk.injEq] at h
      obtain ⟨h1, h2⟩ := h
      subst h1; subst h2
      simp only [preNorm, if_neg hc, hb', Bool.false_eq_true, if_false]

/-- `constructS` on arguments that are already shape-normal is `construct`; with `constructor_idempotent` this makes
    every stored, shape-normal node a fixed point of its full constructor. -/
theorem constructS_fix (cfg : Cfg) (cls : String) (a : List Op) (dn : List String) (d : List Op) (nkw hid : KV)
    (hs : preNorm cls a (kwOf dn d nkw) = some (a, kwOf dn d nkw)) (h : nodeOK cfg cls a dn d nkw hid = true) :
    constructS cfg cls a (kwOf dn d nkw) = some (.node cls a dn d nkw hid) := by
  simp only [constructS, hs]
  exact construct_fix cfg cls a dn d nkw hid h

end LinOp.C14
