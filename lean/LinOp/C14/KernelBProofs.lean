import LinOp.C14.KernelB
import LinOp.C14.BcastProofs
namespace LinOp.C14

theorem lastN_zero (s : List Nat) : lastN 0 s = [] := by simp [lastN]

theorem lastN_append (k : Nat) (bs t : List Nat) (ht : t.length = k) : lastN k (bs ++ t) = t := by
  simp only [lastN, List.length_append, ht, Nat.add_sub_cancel]
  exact List.drop_left' rfl

theorem expandLeaf_idem (bs : List Nat) (k : Nat) (c : Bool) (l : Leaf) (h : k ≤ l.shape.length) :
    expandLeaf bs k c (expandLeaf bs k c l) = expandLeaf bs k c l := by
  have hl : (lastN k l.shape).length = k := lastN_length k l.shape h
  simp only [expandLeaf, lastN_append k bs _ hl, ne_eq, not_true_eq_false, decide_false, Bool.and_false, Bool.or_false]

theorem expandLeaf_shape2 (bs : List Nat) (c : Bool) (l : Leaf) (h : 2 ≤ l.shape.length) :
    dropLastN 2 (expandLeaf bs 2 c l).shape = bs ∧ ¬ (expandLeaf bs 2 c l).shape.length < 2 := by
  have hl : (lastN 2 l.shape).length = 2 := lastN_length 2 l.shape h
  refine ⟨dropLastN_append 2 bs _ hl, ?_⟩
  simp only [expandLeaf, List.length_append, hl]; omega

theorem any_expandKw (bs : List Nat) : ∀ (kw : List (String × Op)),
    (expandKw bs kw).any badNnd = kw.any badNnd
  | [] => rfl
  | (k, .leaf l) :: r => by
    simp only [expandKw, List.any_cons, any_expandKw bs r]
    rfl
  | (k, .val v) :: r => by simp only [expandKw, List.any_cons, any_expandKw bs r]
  | (k, .node ..) :: r => by simp only [expandKw, List.any_cons, any_expandKw bs r]

theorem kwLeafShapes_expandKw (bs : List Nat) : ∀ (kw : List (String × Op)), kwDims2 kw = true →
    kwLeafShapes (expandKw bs kw) = (kwLeafShapes kw).map (fun _ => bs)
  | [], _ => rfl
  | (k, .leaf l) :: r, h => by
    simp only [kwDims2, Bool.and_eq_true, decide_eq_true_eq] at h
    simp only [expandKw, kwLeafShapes, List.map_cons, kwLeafShapes_expandKw bs r h.2,
      (expandLeaf_shape2 bs false l h.1).1]
  | (k, .val v) :: r, h => by
    simp only [kwDims2] at h
    simp only [expandKw, kwLeafShapes, kwLeafShapes_expandKw bs r h]
  | (k, .node ..) :: r, h => by
    simp only [kwDims2] at h
    simp only [expandKw, kwLeafShapes, kwLeafShapes_expandKw bs r h]

theorem expandKw_idem (bs : List Nat) : ∀ (kw : List (String × Op)), kwDims2 kw = true →
    expandKw bs (expandKw bs kw) = expandKw bs kw
  | [], _ => rfl
  | (k, .leaf l) :: r, h => by
    simp only [kwDims2, Bool.and_eq_true, decide_eq_true_eq] at h
    simp only [expandKw, expandKw_idem bs r h.2, expandLeaf_idem bs 2 false l h.1]
  | (k, .val v) :: r, h => by
    simp only [kwDims2] at h
    simp only [expandKw, expandKw_idem bs r h]
  | (k, .node ..) :: r, h => by
    simp only [kwDims2] at h
    simp only [expandKw, expandKw_idem bs r h]

theorem bcastAll_constL (bs : List Nat) : ∀ (L : List (List Nat)),
    bcastAll (L.map (fun _ => bs)) = some bs ∨ bcastAll (L.map (fun _ => bs)) = some []
  | [] => Or.inr rfl
  | _ :: r => by
    rcases bcastAll_constL bs r with h | h
    · exact Or.inl (by rw [List.map_cons, bcastAll_cons, h]; exact bcast_self bs)
    · exact Or.inl (by rw [List.map_cons, bcastAll_cons, h]; exact bcast_nil_right bs)

theorem bcastAll_two_const (bs : List Nat) (L : List (List Nat)) :
    bcastAll (bs :: bs :: L.map (fun _ => bs)) = some bs := by
  have h2 : bcastAll (bs :: L.map (fun _ => bs)) = some bs := by
    rcases bcastAll_constL bs L with h | h
    · rw [bcastAll_cons, h]; exact bcast_self bs
    · rw [bcastAll_cons, h]; exact bcast_nil_right bs
  rw [bcastAll_cons, h2]; exact bcast_self bs

/-- **`KernelLinearOperator.__init__` broadcasting is idempotent**: re-applying it to the expanded `x1`, `x2` and tensor
    parameters changes nothing (no second copy of `x1` / `x2`, same shapes). -/
theorem preKernel_idem (pos : List Op) (kw : List (String × Op)) (pos' : List Op) (kw' : List (String × Op))
    (hk : kwDims2 kw = true) (h : preKernel pos kw = some (pos', kw')) : preKernel pos' kw' = some (pos', kw') := by
  have h0 := h
  unfold preKernel at h
  split at h
  · cases h
  · rename_i hany
    split at h
    · rename_i x1 x2 rest
      split at h
      · cases h
      · rename_i hlen
        simp only [Bool.or_eq_true, decide_eq_true_eq, not_or, Nat.not_lt] at hlen
        cases hb : bcastAll (dropLastN 2 x1.shape :: dropLastN 2 x2.shape :: kwLeafShapes kw) with
        | none => simp [hb] at h
        | some bs =>
          simp only [hb] at h
          split at h
          · simp only [Option.some.injEq, Prod.mk.injEq] at h
            obtain ⟨e1, e2⟩ := h
            subst e1; subst e2; exact h0
          · rename_i hE
            simp only [Option.some.injEq, Prod.mk.injEq] at h
            obtain ⟨e1, e2⟩ := h
            subst e1; subst e2
            obtain ⟨s1, l1⟩ := expandLeaf_shape2 bs true x1 hlen.1
            obtain ⟨s2, l2⟩ := expandLeaf_shape2 bs true x2 hlen.2
            have hl : ¬ ((expandLeaf bs 2 true x1).shape.length < 2 ∨ (expandLeaf bs 2 true x2).shape.length < 2) := by
              intro hh; rcases hh with hh | hh
              · exact l1 hh
              · exact l2 hh
            unfold preKernel
            rw [any_expandKw]
            simp only [hany, Bool.false_eq_true, if_false, Bool.or_eq_true, decide_eq_true_eq, hl, s1, s2,
              kwLeafShapes_expandKw bs kw hk, bcastAll_two_const, hE, expandLeaf_idem bs 2 true x1 hlen.1,
              expandLeaf_idem bs 2 true x2 hlen.2, expandKw_idem bs kw hk]
    · cases h

theorem preNormK_idem (cls : String) (pos : List Op) (kw : List (String × Op)) (pos' : List Op)
    (kw' : List (String × Op)) (hk : cls = "KernelLinearOperator" → kwDims2 kw = true)
    (h : preNormK cls pos kw = some (pos', kw')) :
    preNormK cls pos' kw' = some (pos', kw') := by
  unfold preNormK at h ⊢
  by_cases hc : cls = "KernelLinearOperator"
  · simp only [hc, if_true] at h ⊢
    exact preKernel_idem pos kw pos' kw' (hk hc) h
  · simp only [hc, if_false] at h ⊢
    exact preNormB_idem cls pos kw pos' kw' h

end LinOp.C14
