import LinOp.C14.Model
/-!
C14 — shape-dependent constructor normalisations (core Lean only; used by the driver).

`Model.construct` describes a constructor on arguments whose batch dimensions are already in the form the class stores
(that is what every copy / conversion / rebuild passes).  This file adds the part of the constructors that *changes*
the arguments depending on tensor shapes, as a pre-pass `preNorm`, and `constructS = preNorm ; construct`:

  `BatchRepeatLinearOperator.__init__` : `for _ in range(len(batch_repeat) + 2 - base.dim()): base = base.unsqueeze(0)`
  `BlockLinearOperator.__init__`       : `block_dim` made negative, and for `block_dim != -3` the base operator is
                                          `_permute_batch`ed so that the block dimension becomes the last batch dimension
  `LinearOperator._unsqueeze_batch`    : `unsqT` (every positional component unsqueezed, keyword arguments untouched,
                                          `self.__class__(*components, **self._kwargs)`)
  `LinearOperator._permute_batch`      : `permT dims` (tensors permuted in their leading `len(dims)` dimensions,
                                          sub-operators recursively, non-tensor arguments kept, keywords untouched)
The generic methods are applied only to classes whose MRO-resolved method is the one of `LinearOperator`
(`unsqOverride` / `permOverride`, tied to the source by Generated/C14Shape); anything else is "outside" (`none`).
A view keeps the storage identity, dtype and requires_grad of the tensor; only the shape changes.
-/
namespace LinOp.C14

def unsqLeaf (l : Leaf) : Leaf := { l with shape := 1 :: l.shape }

/-- classes whose `_unsqueeze_batch` is not `LinearOperator._unsqueeze_batch` (C3 MRO) -/
def unsqOverride : List String :=
  ["BatchRepeatLinearOperator", "BlockDiagLinearOperator", "BlockInterleavedLinearOperator", "BlockLinearOperator",
   "CatLinearOperator", "ConstantMulLinearOperator", "IdentityLinearOperator", "KernelLinearOperator",
   "MaskedLinearOperator", "SumBatchLinearOperator", "ZeroLinearOperator"]

/-- classes whose `_permute_batch` is not `LinearOperator._permute_batch` (C3 MRO) -/
def permOverride : List String :=
  ["BatchRepeatLinearOperator", "BlockDiagLinearOperator", "BlockInterleavedLinearOperator", "BlockLinearOperator",
   "CatLinearOperator", "ConstantMulLinearOperator", "IdentityLinearOperator", "KernelLinearOperator",
   "MaskedLinearOperator", "MatmulLinearOperator", "SumBatchLinearOperator", "ZeroLinearOperator"]

/- `op.unsqueeze(0)` through the generic `_unsqueeze_batch` at every level -/
mutual
def unsqT : Op → Op
  | .leaf l => .leaf (unsqLeaf l)
  | .val v => .val v
  | .node cls a dn d nkw hid => .node cls (unsqTL a) dn d nkw hid
def unsqTL : List Op → List Op
  | [] => []
  | x :: xs => unsqT x :: unsqTL xs
end

/- every node reached through positional arguments uses the generic `_unsqueeze_batch`, has at least one positional
   argument and only tensors / operators as positional arguments (`int.unsqueeze` would raise) -/
mutual
def genU : Op → Bool
  | .leaf _ => true
  | .val _ => false
  | .node cls a _ _ _ _ =>
    -- (a TransposePermutation holds an `int`: the generic method raises on it)
    !unsqOverride.contains cls && cls != "TransposePermutationLinearOperator" && !a.isEmpty && genUL a
def genUL : List Op → Bool
  | [] => true
  | x :: xs => genU x && genUL xs
end

def iterOp (f : Op → Op) : Nat → Op → Op
  | 0, x => x
  | n + 1, x => iterOp f n (f x)

def permShape (dims : List Nat) (s : List Nat) : List Nat := dims.map (fun i => s.getD i 0) ++ s.drop dims.length

def permLeaf (dims : List Nat) (l : Leaf) : Leaf := { l with shape := permShape dims l.shape }

mutual
def permT (dims : List Nat) : Op → Op
  | .leaf l => .leaf (permLeaf dims l)
  | .val v => .val v
  | .node cls a dn d nkw hid => .node cls (permTL dims a) dn d nkw hid
def permTL (dims : List Nat) : List Op → List Op
  | [] => []
  | x :: xs => permT dims x :: permTL dims xs
end

/- generic `_permute_batch` applicable with `n = len(dims)`: no overriding class, every tensor has at least `n` dims -/
mutual
def genP (n : Nat) : Op → Bool
  | .leaf l => decide (n ≤ l.shape.length)
  | .val _ => true
  | .node cls a _ _ _ _ => !permOverride.contains cls && !a.isEmpty && genPL n a
def genPL (n : Nat) : List Op → Bool
  | [] => true
  | x :: xs => genP n x && genPL n xs
end

/-- `(*range(p), *range(p + 1, nd - 2), p)` -/
def moveDims (nd p : Nat) : List Nat := List.range p ++ List.range' (p + 1) (nd - 2 - (p + 1)) ++ [p]

/-- `len(batch_repeat)` of a raw `BatchRepeatLinearOperator(base, batch_repeat)` call -/
def repLen (rest : List Op) (kw : List (String × Op)) : Option Nat :=
  match kw.find? (·.1 = "batch_repeat") with
  | some (_, .val (.ints l)) => some l.length
  | some _ => none
  | none =>
    match rest with
    | [.val (.ints l)] => some l.length
    | [] => some 1
    | _ => none

/-- `block_dim` of a raw Block*(base, block_dim) call -/
def blockDimOf (rest : List Op) (kw : List (String × Op)) : Option Int :=
  match kw.find? (·.1 = "block_dim") with
  | some (_, .val (.int i)) => some i
  | some _ => none
  | none =>
    match rest with
    | [.val (.int i)] => some i
    | [] => some (-3)
    | _ => none

/-- bases a BatchRepeat constructor does not accept / the model does not follow: another BatchRepeat (debug mode
    raises), a raw tensor or a non-tensor -/
def badBase (o : Op) : Bool :=
  o.cls == "BatchRepeatLinearOperator" || o.cls == "#tensor" || o.cls == "#value"

/-- `for _ in range(r + 2 - base.dim()): base = base.unsqueeze(0)` with `r = len(batch_repeat)` -/
def preBR (base : Op) (r : Nat) : Option Op :=
  if badBase base then none
  else if r + 2 - ndim base = 0 then some base
  else if genU base then some (iterOp unsqT (r + 2 - ndim base) base)
  else none

/-- `BlockLinearOperator.__init__` up to the `super().__init__` call, `bd` = the block dimension made negative -/
def preBlockN (pos : List Op) (kw : List (String × Op)) (base : Op) (bd : Int) : Option (List Op × List (String × Op)) :=
  if ndim base < 3 then none
  else if bd = -3 then some (pos, kw)
  else if (ndim base : Int) + bd < 0 then none
  else if (ndim base : Int) - 2 ≤ (ndim base : Int) + bd then none
  else if badBase base then none
  else if genP (ndim base - 2) base then
    some ([permT (moveDims (ndim base) ((ndim base : Int) + bd).toNat) base], [("block_dim", Op.val (.int (-3)))])
  else none

def preBlock (pos : List Op) (kw : List (String × Op)) (base : Op) (bd0 : Int) : Option (List Op × List (String × Op)) :=
  preBlockN pos kw base (if bd0 < 0 then bd0 else bd0 - (ndim base : Int))

/-- shape-dependent part of the constructors, performed before anything reaches `LinearOperator.__init__` -/
def preNorm (cls : String) (pos : List Op) (kw : List (String × Op)) : Option (List Op × List (String × Op)) :=
  if cls = "BatchRepeatLinearOperator" then
    match pos with
    | base :: rest =>
      match repLen rest kw with
      | none => none
      | some r =>
        match preBR base r with
        | none => none
        | some b => some (b :: rest, kw)
    | [] => none
  else if blockLike.contains cls then
    match pos with
    | base :: rest =>
      match blockDimOf rest kw with
      | none => none
      | some bd0 => preBlock pos kw base bd0
    | [] => none
  else some (pos, kw)

/-- `cls(*pos, **kw)` including the shape-dependent normalisations -/
def constructS (cfg : Cfg) (cls : String) (pos : List Op) (kw : List (String × Op)) : Option Op :=
  match preNorm cls pos kw with
  | none => none
  | some p => construct cfg cls p.1 p.2

end LinOp.C14
