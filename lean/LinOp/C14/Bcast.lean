import LinOp.C14.Shape
/-!
C14 — batch-broadcasting constructor normalisations (core Lean only; used by the driver).

  `SumLinearOperator.__init__`    (also reached by PsdSum / AddedDiag through `super().__init__`):
        `to_linear_operator` every argument, `batch_shape = broadcast_shapes(...)`,
        `lt._expand_batch(batch_shape) if lt.batch_shape != batch_shape else lt`
  `MatmulLinearOperator.__init__` : the same for its two arguments
  `InterpolatedLinearOperator.__init__` : `base._expand_batch(left_interp_indices.shape[:-2])` when the batch shapes differ
  `_expand_batch` of Dense / Diag / ConstantDiag / Toeplitz (tensor `.expand`: a view), Triangular / Root (Chol, LowRankRoot
  inherit Root's) (`if len(batch_shape) == 0: return self`, else the wrapped operator is expanded), Sum (PsdSum, AddedDiag
  inherit it: `self.__class__(*expanded)` — keyword arguments are NOT passed on) and Matmul.
Everything else (generic `_expand_batch` = `repeat` -> BatchRepeat, Kronecker, Kernel, Cat, ...) is "outside" (`none`).
-/
namespace LinOp.C14

def dropLastN (n : Nat) (s : List Nat) : List Nat := s.take (s.length - n)
def lastN (n : Nat) (s : List Nat) : List Nat := s.drop (s.length - n)

/-- number of trailing non-batch dimensions of the single tensor held by a one-tensor class -/
def coreDims (cls : String) : Option Nat :=
  if cls = "DenseLinearOperator" then some 2
  else if cls = "DiagLinearOperator" || cls = "ConstantDiagLinearOperator" || cls = "ToeplitzLinearOperator" then some 1
  else none

def wrapsOne : List String :=
  ["TriangularLinearOperator", "CholLinearOperator", "RootLinearOperator", "LowRankRootLinearOperator"]

def sumLike : List String := ["SumLinearOperator", "PsdSumLinearOperator", "AddedDiagLinearOperator"]

/-- the tensor of a one-tensor class, if the node has that form and the tensor has enough dimensions -/
def oneLeaf (k : Nat) : List Op → Option Leaf
  | [.leaf l] => if k ≤ l.shape.length then some l else none
  | _ => none

/- `op.batch_shape` for the classes this file follows -/
mutual
def bshape : Op → Option (List Nat)
  | .leaf _ => none
  | .val _ => none
  | .node cls a _ _ _ _ =>
    match coreDims cls with
    | some k => (oneLeaf k a).map (fun l => dropLastN k l.shape)
    | none =>
      if wrapsOne.contains cls || sumLike.contains cls || cls = "MatmulLinearOperator" then bshapeHead a else none
def bshapeHead : List Op → Option (List Nat)
  | [] => none
  | x :: _ => bshape x
end

def allNone (nkw : KV) : Bool := nkw.all (fun p => p.2 == Val.none)

/- `op._expand_batch(bs)` -/
mutual
def expandB (bs : List Nat) : Op → Option Op
  | .leaf _ => none
  | .val _ => none
  | .node cls a dn d nkw hid =>
    match coreDims cls with
    | some k =>
      (oneLeaf k a).map (fun l => .node cls [.leaf { l with shape := bs ++ lastN k l.shape }] dn d nkw hid)
    | none =>
      if wrapsOne.contains cls then
        if bs.isEmpty then some (.node cls a dn d nkw hid)
        else if a.length = 1 then (expandBL bs a).map (fun a' => .node cls a' dn d nkw hid) else none
      else if sumLike.contains cls then
        -- `self.__class__(*expanded)`: keyword arguments are dropped, i.e. reset to their defaults (all `None`)
        if dn.isEmpty && allNone nkw && !a.isEmpty then (expandBL bs a).map (fun a' => .node cls a' dn d nkw hid) else none
      else if cls = "MatmulLinearOperator" then
        if a.length = 2 then (expandBL bs a).map (fun a' => .node cls a' dn d nkw hid) else none
      else none
def expandBL (bs : List Nat) : List Op → Option (List Op)
  | [] => some []
  | x :: xs =>
    match expandB bs x, expandBL bs xs with
    | some y, some ys => some (y :: ys)
    | _, _ => none
end

def bc1 (a b : Nat) : Option Nat :=
  if a = b then some a else if a = 1 then some b else if b = 1 then some a else none

/-- `torch.broadcast_shapes` on reversed shapes -/
def bcRev : List Nat → List Nat → Option (List Nat)
  | [], ys => some ys
  | x :: xs, [] => some (x :: xs)
  | x :: xs, y :: ys =>
    match bc1 x y, bcRev xs ys with
    | some z, some zs => some (z :: zs)
    | _, _ => none

def bcast (a b : List Nat) : Option (List Nat) := (bcRev a.reverse b.reverse).map List.reverse

def bcastAll : List (List Nat) → Option (List Nat)
  | [] => some []
  | s :: r =>
    match bcastAll r with
    | some t => bcast s t
    | none => none

def shapesOf : List Op → Option (List (List Nat))
  | [] => some []
  | x :: xs =>
    match bshape x, shapesOf xs with
    | some s, some r => some (s :: r)
    | _, _ => none

/-- `lt._expand_batch(bs) if lt.batch_shape != bs else lt` for every argument -/
def expandTo (bs : List Nat) : List Op → Option (List Op)
  | [] => some []
  | x :: xs =>
    -- (`bs = []` with a different own batch shape cannot happen: a broadcast result is `()` only if every shape is `()`)
    match (if bshape x = some bs then some x else if bs.isEmpty then none else expandB bs x), expandTo bs xs with
    | some y, some ys => some (y :: ys)
    | _, _ => none

/-- the broadcasting part of `SumLinearOperator.__init__` / `MatmulLinearOperator.__init__` -/
def preBroadcast (pos : List Op) : Option (List Op) :=
  match shapesOf (pos.map dense) with
  | none => none
  | some shapes =>
    match bcastAll shapes with
    | none => none
    | some bs => expandTo bs (pos.map dense)

/-- the base-expansion part of `InterpolatedLinearOperator.__init__` (all five arguments given) -/
def preInterp (pos : List Op) : Option (List Op) :=
  match pos with
  | [b, .leaf li, lv, ri, rv] =>
    if li.shape.length < 2 then none else
    match bshape (dense b) with
    | none => none
    | some s =>
      if s = dropLastN 2 li.shape then some [dense b, .leaf li, lv, ri, rv]
      else if (dropLastN 2 li.shape).isEmpty then none   -- expanding a batched base to `()` raises
      else (expandB (dropLastN 2 li.shape) (dense b)).map (fun b' => [b', .leaf li, lv, ri, rv])
  | _ => none

def broadcastCtor (cls : String) : Bool := sumLike.contains cls || cls = "MatmulLinearOperator"

/-- `preNorm` extended by the broadcasting constructors -/
def preNormB (cls : String) (pos : List Op) (kw : List (String × Op)) : Option (List Op × List (String × Op)) :=
  if broadcastCtor cls then (preBroadcast pos).map (fun p => (p, kw))
  else if cls = "InterpolatedLinearOperator" && pos.length = 5 then (preInterp pos).map (fun p => (p, kw))
  else preNorm cls pos kw

def constructB (cfg : Cfg) (cls : String) (pos : List Op) (kw : List (String × Op)) : Option Op :=
  match preNormB cls pos kw with
  | none => none
  | some p => construct cfg cls p.1 p.2

end LinOp.C14
