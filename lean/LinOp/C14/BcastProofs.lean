import LinOp.C14.Bcast
import LinOp.C14.ShapeProofs
/-! Lemmas about the batch-broadcasting constructor normalisations (`LinOp/C14/Bcast.lean`). -/
namespace LinOp.C14

theorem lastN_length (k : Nat) (s : List Nat) (h : k ≤ s.length) : (lastN k s).length = k := by
  simp only [lastN, List.length_drop]; omega

theorem dropLastN_append (k : Nat) (bs t : List Nat) (ht : t.length = k) : dropLastN k (bs ++ t) = bs := by
  simp only [dropLastN, List.length_append, ht, Nat.add_sub_cancel]
  exact List.take_left' rfl

theorem oneLeaf_some (k : Nat) (a : List Op) (l : Leaf) (h : oneLeaf k a = some l) :
    a = [.leaf l] ∧ k ≤ l.shape.length := by
  unfold oneLeaf at h
  split at h
  · rename_i l0
    split at h
    · rename_i hk; cases h; exact ⟨rfl, hk⟩
    · cases h
  · cases h

theorem oneLeaf_mk (k : Nat) (l : Leaf) (h : k ≤ l.shape.length) : oneLeaf k [.leaf l] = some l := by
  simp [oneLeaf, h]

theorem bshape_isNode (x : Op) (s : List Nat) (h : bshape x = some s) : dense x = x := by
  cases x with
  | leaf l => simp [bshape] at h
  | val v => rfl
  | node c a dn d nkw hid => rfl

/- `_expand_batch(bs)` yields an operator whose batch shape is `bs` -/
mutual
theorem bshape_expandB (bs : List Nat) (hbs : bs.isEmpty = false) : ∀ (o o' : Op), expandB bs o = some o' →
    bshape o' = some bs
  | .leaf _, _, h => by simp [expandB] at h
  | .val _, _, h => by simp [expandB] at h
  | .node cls a dn d nkw hid, o', h => by
    cases hk : coreDims cls with
    | some k =>
      simp only [expandB, hk] at h
      cases hl : oneLeaf k a with
      | none => simp [hl] at h
      | some l =>
        simp only [hl, Option.map_some, Option.some.injEq] at h
        subst h
        obtain ⟨_, hkl⟩ := oneLeaf_some k a l hl
        have hlen : (lastN k l.shape).length = k := lastN_length k l.shape hkl
        have hk2 : k ≤ (bs ++ lastN k l.shape).length := by simp only [List.length_append, hlen]; omega
        have hm : oneLeaf k [Op.leaf { l with shape := bs ++ lastN k l.shape }] =
            some { l with shape := bs ++ lastN k l.shape } := oneLeaf_mk k _ hk2
        simp only [bshape, hk, hm, Option.map_some, dropLastN_append k bs _ hlen]
    | none =>
      simp only [expandB, hk] at h
      by_cases hw : wrapsOne.contains cls = true
      · simp only [hw, if_true, hbs, Bool.false_eq_true, if_false] at h
        split at h
        · rename_i hlen
          cases he : expandBL bs a with
          | none => simp [he] at h
          | some a' =>
            simp only [he, Option.map_some, Option.some.injEq] at h
            subst h
            simp only [bshape, hk, hw, Bool.true_or, if_true]
            exact bshapeHead_expandBL bs hbs a a' he (by intro e; rw [e] at hlen; simp at hlen)
        · cases h
      · have hw' : wrapsOne.contains cls = false := by simpa using hw
        simp only [hw', Bool.false_eq_true, if_false] at h
        by_cases hs : sumLike.contains cls = true
        · simp only [hs, if_true] at h
          split at h
          · rename_i hc
            simp only [Bool.and_eq_true, Bool.not_eq_true', List.isEmpty_eq_false_iff] at hc
            cases he : expandBL bs a with
            | none => simp [he] at h
            | some a' =>
              simp only [he, Option.map_some, Option.some.injEq] at h
              subst h
              simp only [bshape, hk, hw', hs, Bool.false_or, Bool.true_or, if_true]
              exact bshapeHead_expandBL bs hbs a a' he hc.2
          · cases h
        · have hs' : sumLike.contains cls = false := by simpa using hs
          simp only [hs', Bool.false_eq_true, if_false] at h
          split at h
          · rename_i hm
            split at h
            · rename_i hlen
              cases he : expandBL bs a with
              | none => simp [he] at h
              | some a' =>
                simp only [he, Option.map_some, Option.some.injEq] at h
                subst h
                simp only [bshape, hk, hw', hs', hm, Bool.false_or, decide_true, if_true]
                exact bshapeHead_expandBL bs hbs a a' he (by intro e; rw [e] at hlen; simp at hlen)
            · cases h
          · cases h
theorem bshapeHead_expandBL (bs : List Nat) (hbs : bs.isEmpty = false) : ∀ (a a' : List Op), expandBL bs a = some a' →
    a ≠ [] → bshapeHead a' = some bs
  | [], _, _, hne => absurd rfl hne
  | x :: xs, a', h, _ => by
    simp only [expandBL] at h
    cases hx : expandB bs x with
    | none => simp [hx] at h
    | some y =>
      cases hxs : expandBL bs xs with
      | none => simp [hx, hxs] at h
      | some ys =>
        simp only [hx, hxs, Option.some.injEq] at h
        subst h
        simp only [bshapeHead]
        exact bshape_expandB bs hbs x y hx
end

def allB (bs : List Nat) (l : List Op) : Prop := ∀ x ∈ l, bshape x = some bs

theorem expandTo_allB (bs : List Nat) : ∀ (l l' : List Op), expandTo bs l = some l' → allB bs l' ∧ l'.length = l.length
  | [], l', h => by
    simp only [expandTo, Option.some.injEq] at h
    subst h
    exact ⟨fun x hx => absurd hx List.not_mem_nil, rfl⟩
  | x :: xs, l', h => by
    simp only [expandTo] at h
    cases hxs : expandTo bs xs with
    | none =>
      simp only [hxs] at h
      split at h <;> simp_all
    | some ys =>
      obtain ⟨ih, ihl⟩ := expandTo_allB bs xs ys hxs
      by_cases hb : bshape x = some bs
      · simp only [hb, if_true, hxs, Option.some.injEq] at h
        subst h
        refine ⟨?_, by simp [ihl]⟩
        intro z hz
        rcases List.mem_cons.mp hz with e | e
        · rw [e]; exact hb
        · exact ih z e
      · simp only [hb, if_false, hxs] at h
        cases hE : bs.isEmpty with
        | true => simp [hE] at h
        | false =>
          simp only [hE, Bool.false_eq_true, if_false] at h
          cases hx : expandB bs x with
          | none => simp [hx] at h
          | some y =>
            simp only [hx, Option.some.injEq] at h
            subst h
            refine ⟨?_, by simp [ihl]⟩
            intro z hz
            rcases List.mem_cons.mp hz with e | e
            · rw [e]; exact bshape_expandB bs hE x y hx
            · exact ih z e

theorem map_dense_allB (bs : List Nat) : ∀ (l : List Op), allB bs l → l.map dense = l
  | [], _ => rfl
  | x :: xs, h => by
    simp only [List.map_cons, bshape_isNode x bs (h x (List.mem_cons_self ..)),
      map_dense_allB bs xs (fun z hz => h z (List.mem_cons_of_mem _ hz))]

theorem shapesOf_allB (bs : List Nat) : ∀ (l : List Op), allB bs l → shapesOf l = some (l.map (fun _ => bs))
  | [], _ => rfl
  | x :: xs, h => by
    simp only [shapesOf, h x (List.mem_cons_self ..),
      shapesOf_allB bs xs (fun z hz => h z (List.mem_cons_of_mem _ hz)), List.map_cons]

theorem expandTo_allB_fix (bs : List Nat) : ∀ (l : List Op), allB bs l → expandTo bs l = some l
  | [], _ => rfl
  | x :: xs, h => by
    simp only [expandTo, h x (List.mem_cons_self ..), if_true,
      expandTo_allB_fix bs xs (fun z hz => h z (List.mem_cons_of_mem _ hz))]

theorem bc1_self (x : Nat) : bc1 x x = some x := by simp [bc1]

theorem bcRev_self : ∀ (r : List Nat), bcRev r r = some r
  | [] => rfl
  | x :: xs => by simp only [bcRev, bc1_self, bcRev_self xs]

theorem bcRev_nil_right (r : List Nat) : bcRev r [] = some r := by cases r <;> rfl

theorem bcast_self (bs : List Nat) : bcast bs bs = some bs := by
  simp only [bcast, bcRev_self, Option.map_some, List.reverse_reverse]

theorem bcast_nil_right (bs : List Nat) : bcast bs [] = some bs := by
  simp only [bcast, List.reverse_nil, bcRev_nil_right, Option.map_some, List.reverse_reverse]

theorem bcastAll_cons (s : List Nat) (r : List (List Nat)) :
    bcastAll (s :: r) = (match bcastAll r with | some t => bcast s t | none => none) := rfl

theorem bcastAll_const (bs : List Nat) : ∀ (l : List Op), l ≠ [] → bcastAll (l.map (fun _ => bs)) = some bs
  | [], h => absurd rfl h
  | [_], _ => by simp only [List.map_cons, List.map_nil, bcastAll, bcast_nil_right]
  | _ :: y :: ys, _ => by
    have ih := bcastAll_const bs (y :: ys) (by simp)
    rw [List.map_cons, bcastAll_cons, ih]
    exact bcast_self bs

/-- **the broadcasting pre-pass of Sum / PsdSum / AddedDiag / Matmul constructors is idempotent, and afterwards every
    stored argument has the common broadcast batch shape** -/
theorem preBroadcast_spec (pos pos' : List Op) (h : preBroadcast pos = some pos') :
    (∃ bs, allB bs pos') ∧ pos'.length = pos.length ∧ preBroadcast pos' = some pos' := by
  unfold preBroadcast at h
  cases hs : shapesOf (pos.map dense) with
  | none => simp [hs] at h
  | some shapes =>
    simp only [hs] at h
    cases hb : bcastAll shapes with
    | none => simp [hb] at h
    | some bs =>
      simp only [hb] at h
      obtain ⟨hall, hlen⟩ := expandTo_allB bs _ pos' h
      refine ⟨⟨bs, hall⟩, by simpa using hlen, ?_⟩
      unfold preBroadcast
      rw [map_dense_allB bs pos' hall, shapesOf_allB bs pos' hall]
      cases pos' with
      | nil => rfl
      | cons x xs =>
        simp only [bcastAll_const bs (x :: xs) (by simp)]
        exact expandTo_allB_fix bs (x :: xs) hall

theorem preInterp_idem (pos pos' : List Op) (h : preInterp pos = some pos') :
    preInterp pos' = some pos' ∧ pos'.length = 5 := by
  unfold preInterp at h
  split at h
  · rename_i b li lv ri rv
    split at h
    · cases h
    · rename_i hl
      cases hs : bshape (dense b) with
      | none => simp [hs] at h
      | some s =>
        simp only [hs] at h
        split at h
        · rename_i he
          cases h
          have hd : dense (dense b) = dense b := bshape_isNode _ _ hs
          refine ⟨?_, rfl⟩
          simp only [preInterp, hl, if_false, hd, hs, he, if_true]
        · split at h
          · cases h
          · rename_i hne hE
            cases hx : expandB (dropLastN 2 li.shape) (dense b) with
            | none => simp [hx] at h
            | some b' =>
              simp only [hx, Option.map_some, Option.some.injEq] at h
              subst h
              have hE' : (dropLastN 2 li.shape).isEmpty = false := by simpa using hE
              have hb' := bshape_expandB _ hE' _ _ hx
              have hd : dense b' = b' := bshape_isNode _ _ hb'
              refine ⟨?_, rfl⟩
              simp only [preInterp, hl, if_false, hd, hb', if_true]
  · cases h

/-- **All shape-dependent constructor normalisations together are idempotent** (BatchRepeat unsqueeze loop, Block*
    block_dim move, Sum / PsdSum / AddedDiag / Matmul batch broadcasting, Interpolated base expansion): every class,
    every argument list. -/
theorem preNormB_idem (cls : String) (pos : List Op) (kw : List (String × Op)) (pos' : List Op)
    (kw' : List (String × Op)) (h : preNormB cls pos kw = some (pos', kw')) :
    preNormB cls pos' kw' = some (pos', kw') := by
  unfold preNormB at h ⊢
  by_cases hb : broadcastCtor cls = true
  · simp only [hb, if_true] at h ⊢
    cases hp : preBroadcast pos with
    | none => simp [hp] at h
    | some p =>
      simp only [hp, Option.map_some, Option.some.injEq, Prod.mk.injEq] at h
      obtain ⟨h1, h2⟩ := h
      subst h1; subst h2
      simp only [(preBroadcast_spec pos p hp).2.2, Option.map_some]
  · have hb' : broadcastCtor cls = false := by simpa using hb
    simp only [hb', Bool.false_eq_true, if_false] at h ⊢
    by_cases hc : cls = "InterpolatedLinearOperator"
    · subst hc
      by_cases h5 : pos.length = 5
      · simp only [h5, decide_true, Bool.and_self, if_true] at h
        cases hp : preInterp pos with
        | none => simp [hp] at h
        | some p =>
          simp only [hp, Option.map_some, Option.some.injEq, Prod.mk.injEq] at h
          obtain ⟨h1, h2⟩ := h
          subst h1; subst h2
          obtain ⟨hi, hl⟩ := preInterp_idem pos p hp
          simp only [hl, decide_true, Bool.and_self, if_true, hi, Option.map_some]
      · have hn : preNorm "InterpolatedLinearOperator" pos kw = some (pos, kw) := by
          simp [preNorm, blockLike]
        simp only [h5, decide_false, Bool.and_false, Bool.false_eq_true, if_false, hn, Option.some.injEq,
          Prod.mk.injEq] at h
        obtain ⟨h1, h2⟩ := h
        subst h1; subst h2
        simp only [h5, decide_false, Bool.and_false, Bool.false_eq_true, if_false, hn]
    · simp only [hc, decide_false, Bool.false_and, Bool.false_eq_true, if_false] at h ⊢
      exact preNorm_idem cls pos kw pos' kw' h

theorem constructB_fix (cfg : Cfg) (cls : String) (a : List Op) (dn : List String) (d : List Op) (nkw hid : KV)
    (hs : preNormB cls a (kwOf dn d nkw) = some (a, kwOf dn d nkw)) (h : nodeOK cfg cls a dn d nkw hid = true) :
    constructB cfg cls a (kwOf dn d nkw) = some (.node cls a dn d nkw hid) := by
  simp only [constructB, hs]
  exact construct_fix cfg cls a dn d nkw hid h

end LinOp.C14
