import LinOp.Core.Parse
import LinOp.C14.Model
import LinOp.C14.Shape
import LinOp.C14.Bcast
import LinOp.C14.KernelB
import LinOp.Generated.C14Classes
/-! Line-protocol driver for the C14 model (layout table = the one generated from today's source). -/
open LinOp LinOp.C14 LinOp.Parse

def parseDT (s : String) : Option DT :=
  match s with
  | "f16" => some .f16 | "f32" => some .f32 | "f64" => some .f64 | "i64" => some .i64 | "bool" => some .bool
  | _ => none

def showDT : DT → String
  | .f16 => "f16" | .f32 => "f32" | .f64 => "f64" | .i64 => "i64" | .bool => "bool"

def dots {β : Type} (f : β → String) (l : List β) : String :=
  if l.isEmpty then "-" else ".".intercalate (l.map f)

def parseDots {β : Type} (p : String → Option β) (s : String) : Option (List β) :=
  if s = "-" || s = "" then some [] else (s.splitOn ".").mapM p

def parseVal (s : String) : Option Val :=
  if s = "n" then some .none
  else if s.startsWith "i:" then (s.drop 2).toString.toInt?.map Val.int
  else if s.startsWith "b:" then some (.bool ((s.drop 2).toString = "1"))
  else if s.startsWith "s:" then some (.str (s.drop 2).toString)
  else if s.startsWith "l:" then (parseDots String.toInt? (s.drop 2).toString).map Val.ints
  else if s.startsWith "d:" then (parseDT (s.drop 2).toString).map Val.dt
  else none

def showVal : Val → String
  | .none => "n"
  | .int i => s!"i:{i}"
  | .bool b => if b then "b:1" else "b:0"
  | .str s => "s:" ++ s
  | .ints l => "l:" ++ dots toString l
  | .dt d => "d:" ++ showDT d

def showLeaf (l : Leaf) : String :=
  s!"T {showDT l.dt} {dots toString l.shape} {l.id} {if l.fresh then 1 else 0} {if l.rg then 1 else 0}"

def showKV (l : KV) : String :=
  toString l.length ++ String.join (l.map fun p => " " ++ p.1 ++ " " ++ showVal p.2)

partial def showOp : Op → String
  | .leaf l => showLeaf l
  | .val v => "V " ++ showVal v
  | .node cls a dn d nkw hid =>
    s!"N {cls} {a.length}" ++ String.join (a.map fun x => " " ++ showOp x) ++ s!" {d.length}" ++
      String.join ((dn.zip d).map fun p => " " ++ p.1 ++ " " ++ showOp p.2) ++ " " ++ showKV nkw ++ " " ++ showKV hid

abbrev P := StateT (List String) Option

def tok : P String := do
  match (← get) with
  | t :: r => set r; pure t
  | [] => failure

def lift {β : Type} (o : Option β) : P β := match o with | some x => pure x | none => failure

def pNat : P Nat := do lift (← tok).toNat?
def pBit : P Bool := do pure ((← tok) = "1")

def pKV : P KV := do
  let n ← pNat
  let mut res : KV := []
  for _ in [0:n] do
    let k ← tok
    let v ← lift (parseVal (← tok))
    res := res ++ [(k, v)]
  pure res

partial def pOp : P Op := do
  match (← tok) with
  | "T" =>
    let dt ← lift (parseDT (← tok))
    let sh ← lift (parseDots String.toNat? (← tok))
    let id ← pNat
    let fr ← pBit
    let rg ← pBit
    pure (.leaf ⟨dt, sh, id, fr, rg⟩)
  | "V" => do pure (.val (← lift (parseVal (← tok))))
  | "N" =>
    let cls ← tok
    let na ← pNat
    let mut a : List Op := []
    for _ in [0:na] do a := a ++ [← pOp]
    let nd ← pNat
    let mut dn : List String := []
    let mut d : List Op := []
    for _ in [0:nd] do
      dn := dn ++ [← tok]
      d := d ++ [← pOp]
    let nkw ← pKV
    let hid ← pKV
    pure (.node cls a dn d nkw hid)
  | _ => failure

def pCall : P (String × List Op × List (String × Op)) := do
  let cls ← tok
  let na ← pNat
  let mut a : List Op := []
  for _ in [0:na] do a := a ++ [← pOp]
  let nk ← pNat
  let mut kw : List (String × Op) := []
  for _ in [0:nk] do
    let k ← tok
    kw := kw ++ [(k, ← pOp)]
  pure (cls, a, kw)

def showRes : Option Op → String
  | some o => showOp o
  | none => "NONE"

def parseMode (s : String) : Option Mode :=
  if s = "clone" then some .clone
  else if s = "detach" then some .detach
  else if s.startsWith "to:" then (parseDT (s.drop 3).toString).map Mode.to
  else if s.startsWith "type:" then (parseDT (s.drop 5).toString).map Mode.type
  else none

def stepLine (dflt : DT) (line : String) : DT × String :=
  let cfg : Cfg := ⟨LinOp.Generated.C14.layoutOf, dflt, LinOp.Generated.C14.baseToGuardsKind⟩
  match words line with
  | ["default", d] => (match parseDT d with | some d => (d, "ok") | none => (dflt, "bad-dtype"))
  | cmd :: rest =>
    let out : Option String :=
      match cmd with
      | "construct" => (pCall.run rest).map fun (r, _) => showRes (construct cfg r.1 r.2.1 r.2.2)
      | "constructS" => (pCall.run rest).map fun (r, _) => showRes (constructS cfg r.1 r.2.1 r.2.2)
      | "constructB" => (pCall.run rest).map fun (r, _) => showRes (constructK cfg r.1 r.2.1 r.2.2)
      | "constructB2" =>
        (pCall.run rest).map fun (r, _) =>
          match constructK cfg r.1 r.2.1 r.2.2 with
          | some (.node c a dn d nkw _) => showRes (constructK cfg c a (kwOf dn d nkw))
          | _ => "NONE"
      | "constructS2" =>
        -- constructor applied to what the constructor stored (`cls(*_args, **_kwargs)`), shape pre-pass included
        (pCall.run rest).map fun (r, _) =>
          match constructS cfg r.1 r.2.1 r.2.2 with
          | some (.node c a dn d nkw _) => showRes (constructS cfg c a (kwOf dn d nkw))
          | _ => "NONE"
      | "setrg" =>
        (match rest with
         | b :: r => (pOp.run r).map fun (o, _) => showOp (setRG cfg (b = "1") o)
         | [] => none)
      | "conv" =>
        (match rest with
         | m :: r => (parseMode m).bind fun m => (pOp.run r).map fun (o, _) => showRes (conv cfg m o)
         | [] => none)
      | _ =>
        (pOp.run rest).map fun (o, _) =>
          match cmd with
          | "show" => showOp o
          | "rep" => if representable o then " ".intercalate ((rep o).map fun l => showLeaf l) else "ERR"
          | "rebuild" => if representable o then showRes (call cfg (tree o) (rep o)) else "ERR"
          | "rebuild2" =>
            if representable o then
              showRes (call cfg (tree o) ((rep o).map fun l => { l with id := l.id + 1000, fresh := true, rg := false }))
            else "ERR"
          | "dtype" => (match dtypeOf cfg false o with | some d => showDT d | none => "NONE")
          | "normal" => if normal cfg o then "1" else "0"
          | "ndim" => toString (ndim o)
          | _ => "bad-op"
    (dflt, out.getD "parse-error")
  | [] => (dflt, "empty")

def main : IO Unit := do
  loop (← IO.getStdin) DT.f32 stepLine
