import LinOp.C15.Rect
import LinOp.C15.Proofs
import LinOp.Core.Bridge
import Mathlib.Tactic.Ring
import Mathlib.Algebra.Order.Ring.Abs
import Mathlib.Algebra.Order.Field.Basic
/-! C15 — rectangular operands, div, isclose (ordered field), sum bodies: helper lemmas. -/
namespace LinOp.C15
set_option linter.unusedSimpArgs false

section Ring
variable {α : Type} [CommRing α] {n k p : Nat}

theorem rmatmulR_eq (A : Mat α k p) (X : Mat α n k) : rmatmulR A X = Mat.mul X A := by
  funext i j
  simp only [rmatmulR, Mat.transpose, Mat.mul, tab_eq, sumFin_eq_sum]
  exact Finset.sum_congr rfl fun l _ => mul_comm _ _

theorem methSemEW_reflected (acc : Bool) (b : BinFn) (m : Meth) (h : reflectedOK b m = true) (hb : b ≠ .matmul)
    (X A : Mat α n k) : methSemEW acc m A X none = specEW b X A none := by
  cases b <;> cases m <;> simp [reflectedOK] at h <;>
    first
      | exact absurd rfl hb
      | (simp only [methSemEW, specEW]
         first
           | rfl
           | (congr 1; funext i j; simp only [maddR, smulR, hadR]; ring))

theorem methSemEW_direct (acc : Bool) (b : BinFn) (m : Meth) (h : directOK b m = true) (hb : b ≠ .matmul)
    (A X : Mat α n k) : methSemEW acc m A X none = specEW b A X none := by
  cases b <;> cases m <;> simp [directOK] at h <;>
    first
      | exact absurd rfl hb
      | (simp only [methSemEW, specEW]
         first
           | rfl
           | (congr 1; funext i j; simp only [maddR, smulR, hadR]; ring))

theorem methSemEW_reflected_alpha_exact (acc : Bool) (b : BinFn) (m : Meth) (h : reflectedAlphaExact acc b m = true)
    (X A : Mat α n k) (a : α) : methSemEW acc m A X (some a) = specEW b X A (some a) := by
  cases acc <;> cases b <;> cases m <;> simp [reflectedAlphaExact] at h <;>
    simp only [methSemEW, specEW, Bool.not_true, Bool.false_eq_true, if_false] <;>
    (congr 1; funext i j; simp only [maddR, smulR]; ring)

theorem methSemEW_direct_alpha (acc : Bool) (b : BinFn) (m : Meth) (h : directAlphaOK acc b m = true) (A X : Mat α n k) (a : α) :
    methSemEW acc m A X (some a) = specEW b A X (some a) := by
  cases acc <;> cases b <;> cases m <;> simp [directAlphaOK] at h <;>
    simp only [methSemEW, specEW, Bool.not_true, Bool.false_eq_true, if_false] <;>
    first
      | rfl
      | (congr 1; funext i j; simp only [maddR, smulR]; ring)

/-- `alpha = 0`: `torch.add/sub(x, y, alpha=0)` is `x`. -/
theorem specEW_alpha_zero (b : BinFn) (hb : b = .add ∨ b = .sub) (X Y : Mat α n k) : specEW b X Y (some 0) = .ok X := by
  rcases hb with rfl | rfl <;> simp [specEW]

/-- Operator first with `alpha`, rectangular operands. -/
theorem evalEW_first_alpha (T : Tables) (c : String) (e : String × String) (h : firstEntryOK T c e = true)
    (a1 : Arg) (h1 : a1.plain = true) (A X : Mat α n k) (a : α) (b : BinFn) (hb : BinFn.ofName e.1 = some b)
    (hbb : b = .add ∨ b = .sub) : evalEW T e.1 (.op c) a1 A X (some a) = specEW b A X (some a) := by
  simp only [firstEntryOK, Bool.and_eq_true, beq_iff_eq] at h
  obtain ⟨hl, hm⟩ := h
  cases hr : resolve T.classes c e.2 with
  | none => simp [hr] at hm
  | some d =>
    cases hmm : Meth.ofName e.2 with
    | none => simp [hr, hb, hmm] at hm
    | some m =>
      simp only [hr, hb, hmm, Bool.and_eq_true, Bool.or_eq_true, beq_iff_eq] at hm
      obtain ⟨_, ha⟩ := hm
      simp only [evalEW, dispatch_op_first T c e.1 e.2 d [a1] (some a) (by simpa using h1) hl hr, hmm,
        Bool.false_eq_true, if_false]
      have : directAlphaOK (acceptsAlpha T d e.2) b m = true := by
        rcases ha with (ha | ha) | ha
        · exact ha
        · rcases hbb with h | h <;> simp [h] at ha
        · rcases hbb with h | h <;> simp [h] at ha
      exact methSemEW_direct_alpha _ b m this A X a

/-- Elementwise two-operand call with the operator second, rectangular operands. -/
theorem evalEW_second (T : Tables) (c : String) (e : String × String) (h : secondEntryOK T c e = true)
    (a0 : Arg) (h0 : a0.plain = true) (X A : Mat α n k) :
    ∃ b, BinFn.ofName e.1 = some b ∧ (b ≠ .matmul → evalEW T e.1 a0 (.op c) X A none = specEW b X A none) := by
  simp only [secondEntryOK, Bool.and_eq_true, beq_iff_eq] at h
  obtain ⟨hl, hm⟩ := h
  cases hr : resolve T.classes c e.2 with
  | none => simp [hr] at hm
  | some d =>
    cases hb : BinFn.ofName e.1 with
    | none => simp [hr, hb] at hm
    | some b =>
      cases hmm : Meth.ofName e.2 with
      | none => simp [hr, hb, hmm] at hm
      | some m =>
        simp only [hr, hb, hmm] at hm
        refine ⟨b, rfl, fun hne => ?_⟩
        simp only [evalEW, dispatch_op_second T c e.1 e.2 d a0 [] none h0 (by simp) hl hr, hmm, if_true]
        exact methSemEW_reflected _ b m hm hne X A

theorem evalEW_second_alpha (T : Tables) (c : String) (e : String × String) (h : secondEntryAlphaExact T c e = true)
    (a0 : Arg) (h0 : a0.plain = true) (X A : Mat α n k) (a : α) :
    ∃ b, BinFn.ofName e.1 = some b ∧ evalEW T e.1 a0 (.op c) X A (some a) = specEW b X A (some a) := by
  simp only [secondEntryAlphaExact, Bool.and_eq_true, beq_iff_eq] at h
  obtain ⟨hl, hm⟩ := h
  cases hr : resolve T.classes c e.2 with
  | none => simp [hr] at hm
  | some d =>
    cases hb : BinFn.ofName e.1 with
    | none => simp [hr, hb] at hm
    | some b =>
      cases hmm : Meth.ofName e.2 with
      | none => simp [hr, hb, hmm] at hm
      | some m =>
        simp only [hr, hb, hmm] at hm
        refine ⟨b, rfl, ?_⟩
        simp only [evalEW, dispatch_op_second T c e.1 e.2 d a0 [] (some a) h0 (by simp) hl hr, hmm, if_true]
        exact methSemEW_reflected_alpha_exact _ b m hm X A a

theorem evalEW_first (T : Tables) (c : String) (e : String × String) (h : firstEntryOK T c e = true)
    (a1 : Arg) (h1 : a1.plain = true) (A X : Mat α n k) :
    ∃ b, BinFn.ofName e.1 = some b ∧ (b ≠ .matmul → evalEW T e.1 (.op c) a1 A X none = specEW b A X none) := by
  simp only [firstEntryOK, Bool.and_eq_true, beq_iff_eq] at h
  obtain ⟨hl, hm⟩ := h
  cases hr : resolve T.classes c e.2 with
  | none => simp [hr] at hm
  | some d =>
    cases hb : BinFn.ofName e.1 with
    | none => simp [hr, hb] at hm
    | some b =>
      cases hmm : Meth.ofName e.2 with
      | none => simp [hr, hb, hmm] at hm
      | some m =>
        simp only [hr, hb, hmm, Bool.and_eq_true, Bool.or_eq_true, beq_iff_eq] at hm
        refine ⟨b, rfl, fun hne => ?_⟩
        simp only [evalEW, dispatch_op_first T c e.1 e.2 d [a1] none (by simpa using h1) hl hr, hmm,
          Bool.false_eq_true, if_false]
        exact methSemEW_direct _ b m hm.1 hne A X

/-- Table check: the second-argument handler of a matmul-like function is `rmatmul` / `__rmatmul__` and resolves on `c`. -/
def secondMMOK (T : Tables) (c : String) (e : String × String) : Bool :=
  T.second.lookup e.1 == some e.2 && (resolve T.classes c e.2).isSome &&
    (Meth.ofName e.2 == some .rmatmul || Meth.ofName e.2 == some .drmatmul)

def firstMMOK (T : Tables) (c : String) (e : String × String) : Bool :=
  T.first.lookup e.1 == some e.2 && (resolve T.classes c e.2).isSome &&
    (Meth.ofName e.2 == some .matmul || Meth.ofName e.2 == some .dmatmul)

theorem evalMM_second (T : Tables) (c : String) (e : String × String) (h : secondMMOK T c e = true)
    (a0 : Arg) (h0 : a0.plain = true) (X : Mat α n k) (A : Mat α k p) :
    evalMM T e.1 a0 (.op c) X A = .ok (Mat.mul X A) := by
  simp only [secondMMOK, Bool.and_eq_true, beq_iff_eq, Bool.or_eq_true, Option.isSome_iff_exists] at h
  obtain ⟨⟨hl, d, hr⟩, hm⟩ := h
  simp only [evalMM, dispatch_op_second T c e.1 e.2 d a0 [] () h0 (by simp) hl hr]
  rcases hm with hm | hm <;> simp only [hm, rmatmulR_eq]

theorem evalMM_first (T : Tables) (c : String) (e : String × String) (h : firstMMOK T c e = true)
    (a1 : Arg) (h1 : a1.plain = true) (A : Mat α n k) (X : Mat α k p) :
    evalMM T e.1 (.op c) a1 A X = .ok (Mat.mul A X) := by
  simp only [firstMMOK, Bool.and_eq_true, beq_iff_eq, Bool.or_eq_true, Option.isSome_iff_exists] at h
  obtain ⟨⟨hl, d, hr⟩, hm⟩ := h
  simp only [evalMM, dispatch_op_first T c e.1 e.2 d [a1] () (by simpa using h1) hl hr]
  rcases hm with hm | hm <;> simp only [hm]

theorem sumCols_eq (A : Mat α n k) (i : Fin n) : sumCols A i = ∑ j, A i j := by
  simp only [sumCols, Mat.mul, tab_eq, sumFin_eq_sum, onesCol, mul_one]

theorem sumRows_eq (A : Mat α n k) (j : Fin k) : sumRows A j = ∑ i, A i j := by
  simp only [sumRows, Mat.mul, Mat.transpose, tab_eq, sumFin_eq_sum, onesCol, mul_one]

theorem sumAll_eq (A : Mat α n k) : sumAll A = ∑ i, ∑ j, A i j := by
  simp only [sumAll, sumFin_eq_sum, sumCols_eq]

end Ring

section Field
variable {α : Type} [Field α] {n k : Nat}

theorem divSem_eq (A : Mat α n k) (c : α) : divSem A c = fun i j => A i j / c := by
  funext i j; simp only [divSem, smulR]; ring

theorem divSemT_eq (A B : Mat α n k) : divSemT A B = fun i j => A i j / B i j := by
  funext i j; simp only [divSemT, hadR]; ring

end Field

/-! ### the argument normalisation of `sum(dim)` -/

theorem normDim_eq_emod (nd : Nat) (d : Int) (hlo : -(nd : Int) ≤ d) (hhi : d < nd) : normDim nd d = d % (nd : Int) := by
  unfold normDim
  split
  · have : d % (nd : Int) = (d + nd) % (nd : Int) := (Int.add_emod_right d nd).symm
    rw [this, Int.emod_eq_of_lt (by omega) (by omega)]; omega
  · exact (Int.emod_eq_of_lt (by omega) (by omega)).symm

theorem sumShape_eq_torch (sh : List Nat) (h2 : 2 ≤ sh.length) (d : Int) (hlo : -(sh.length : Int) ≤ d) :
    sumShape sh (some d) = torchSumShape sh (some d) := by
  by_cases hhi : d < sh.length
  · have hm := normDim_eq_emod sh.length d hlo hhi
    have hr : 0 ≤ normDim sh.length d ∧ normDim sh.length d < sh.length := by
      unfold normDim; split <;> omega
    rw [show torchSumShape sh (some d) = some (sh.eraseIdx (normDim sh.length d).toNat) by
      simp only [torchSumShape, hlo, hhi, and_self, if_true, hm]]
    simp only [sumShape, sumBranch]
    clear hm
    generalize normDim sh.length d = m at hr ⊢
    obtain ⟨mn, rfl⟩ := Int.eq_ofNat_of_zero_le hr.1
    simp only [Int.toNat_natCast]
    split_ifs with h1 h2' h3 h4
    · have : sh.length - 1 = mn := by omega
      rw [this]
    · have : sh.length - 2 = mn := by omega
      rw [this]
    · omega
    · rfl
    · omega
  · have hn : normDim sh.length d = d := by unfold normDim; split <;> omega
    simp only [sumShape, sumBranch, torchSumShape, hn, hhi, and_false, if_false]
    split_ifs <;> first | rfl | omega

/-! ### `torch.isclose` over an ordered field -/

section Ordered
variable {α : Type} [Field α] [LinearOrder α] [IsStrictOrderedRing α]

theorem absv_eq_abs (x : α) : absv x = |x| := by
  unfold absv
  split
  · rename_i h; exact (abs_of_neg h).symm
  · rename_i h; exact (abs_of_nonneg (not_lt.1 h)).symm

theorem closeSpec_iff (rtol atol x y : α) : closeSpec rtol atol x y = true ↔ |x - y| ≤ atol + rtol * |y| := by
  simp only [closeSpec, decide_eq_true_eq, absv_eq_abs]

theorem closeSpec_symm_rtol_zero (atol x y : α) : closeSpec 0 atol x y = closeSpec 0 atol y x := by
  rw [Bool.eq_iff_iff, closeSpec_iff, closeSpec_iff, abs_sub_comm]
  simp

theorem closeSpec_mono (rtol rtol' atol atol' x y : α) (hr : rtol ≤ rtol') (ha : atol ≤ atol')
    (h : closeSpec rtol atol x y = true) : closeSpec rtol' atol' x y = true := by
  rw [closeSpec_iff] at h ⊢
  have := mul_le_mul_of_nonneg_right hr (abs_nonneg y)
  exact le_trans h (add_le_add ha this)

end Ordered

section CloseDispatch
variable {α : Type} [Add α] [Sub α] [Mul α] [Neg α] [Zero α] [LT α] [DecidableLT α] [LE α] [DecidableLE α] {n k : Nat}

/-- Operator second, handler `_risclose`: `torch.isclose(X, op)` is `isclose(X, A)`. -/
theorem evalClose_second (T : Tables) (c d : String) (hl : T.second.lookup "torch.isclose" = some "_risclose")
    (hr : resolve T.classes c "_risclose" = some d) (a0 : Arg) (h0 : a0.plain = true) (X A : Mat α n k) (rtol atol : α) :
    evalClose T a0 (.op c) X A rtol atol = .ok fun i j => closeSpec rtol atol (X i j) (A i j) := by
  simp only [evalClose, dispatch_op_second T c "torch.isclose" "_risclose" d a0 [] () h0 (by simp) hl hr]
  simp

/-- Operator second, handler `isclose` itself (the registration before the fix): the operands are compared in the wrong order. -/
theorem evalClose_second_symmetric_registration (T : Tables) (c d : String) (hl : T.second.lookup "torch.isclose" = some "isclose")
    (hr : resolve T.classes c "isclose" = some d) (a0 : Arg) (h0 : a0.plain = true) (X A : Mat α n k) (rtol atol : α) :
    evalClose T a0 (.op c) X A rtol atol = .ok fun i j => closeSpec rtol atol (A i j) (X i j) := by
  simp only [evalClose, dispatch_op_second T c "torch.isclose" "isclose" d a0 [] () h0 (by simp) hl hr]
  simp

theorem evalClose_first (T : Tables) (c d : String) (hl : T.first.lookup "torch.isclose" = some "isclose")
    (hr : resolve T.classes c "isclose" = some d) (a1 : Arg) (h1 : a1.plain = true) (A X : Mat α n k) (rtol atol : α) :
    evalClose T (.op c) a1 A X rtol atol = .ok fun i j => closeSpec rtol atol (A i j) (X i j) := by
  simp only [evalClose, dispatch_op_first T c "torch.isclose" "isclose" d [a1] () (by simpa using h1) hl hr]
  simp

end CloseDispatch

end LinOp.C15
