import LinOp.C15.Model
import LinOp.C15.Bind
import LinOp.Generated.C15Tables
import LinOp.Generated.C15Sigs
/-! The tables generated from /repo's source, packaged for the model. -/
namespace LinOp.C15

def genTables : Tables :=
  { first := LinOp.Generated.C15.handledFirst, second := LinOp.Generated.C15.handledSecond,
    classes := LinOp.Generated.C15.classes, sigs := LinOp.Generated.C15.sigs }

/-! ### generated signatures (argument forwarding) -/

def toKind : Nat → PKind
  | 0 => .pos
  | 1 => .kwOnly
  | 2 => .varPos
  | _ => .varKw

def toSig (l : List (String × Nat × Option String)) : Sig := l.map fun e => ⟨e.1, toKind e.2.1, e.2.2⟩

/-- Full signature (incl. `self`) of the definition of `m` in the body of class `definer`. -/
def methodSig (definer m : String) : Option Sig :=
  (LinOp.Generated.C15.methodSigs.find? fun e => e.1 == definer && e.2.1 == m).map fun e => toSig e.2.2

/-- Signature of what `getattr(c, m)` finds. -/
def handlerSig (c m : String) : Option Sig :=
  (resolve LinOp.Generated.C15.classes c m).bind fun d => methodSig d m

/-- (number of operands, torch's parameters after the operands). -/
def torchSig (f : String) : Option (Nat × Sig) :=
  (LinOp.Generated.C15.torchSigs.find? fun e => e.1 == f).map fun e => (e.2.1, toSig e.2.2)

/-- The base-class handler's parameters after the operands vs torch's: `sigCompat`. -/
def entryForwardOK (e : String × String) : Bool :=
  match torchSig e.1, methodSig "LinearOperator" e.2 with
  | some (n, sT), some sM => Sig.simple (sM.drop n) && Sig.simple sT && sigCompat (sM.drop n) sT
  | _, _ => false

end LinOp.C15
