import LinOp.C15.Model
import LinOp.Generated.C15Tables
/-! The tables generated from /repo's source, packaged for the model. -/
namespace LinOp.C15

def genTables : Tables :=
  { first := LinOp.Generated.C15.handledFirst, second := LinOp.Generated.C15.handledSecond,
    classes := LinOp.Generated.C15.classes, sigs := LinOp.Generated.C15.sigs }

end LinOp.C15
