import LinOp.C15.Model
/-!
C15 — rectangular operands, `div`, `torch.isclose` with order semantics, and the bodies of `sum(dim)` (core Lean only).

* `methSemEW` / `specEW`: the elementwise base-class methods (`add`, `sub`, `mul`, `__radd__`, `__rsub__`, `__mul__`, …) on
  `n × k` matrices; `evalEW` evaluates `torch.f(x, y, alpha=…)` through `dispatch` as `evalBinary` does for square ones.
* `evalMM`: `torch.matmul(x, y)` / `Tensor.matmul` for `x : n × k`, `y : k × p` through `dispatch`.  On the second-argument path the
  handler is called as `m(op, T)` with `op = y`, `T = x`; `rmatmul` / `__rmatmul__` compute `(opᵀ Tᵀ)ᵀ`, any other method would
  multiply in the wrong order (a shape error for non-square operands) → `.error .unsupported`.
* `divSem`: `LinearOperator.div` is `self.mul(1.0 / other)`.
* `closeSpec`: `torch.isclose` on finite values, `|x − y| ≤ atol + rtol·|y|` (the tolerance is relative to the **second**
  operand); `evalClose` evaluates `torch.isclose(x, y, rtol, atol)` through `dispatch`: `isclose(self, other)` is
  `isclose(dense(self), dense(other))`, `_risclose(self, other)` is `isclose(dense(other), dense(self))`.
* `sumCols` / `sumRows` / `sumAll`: the bodies of `LinearOperator.sum` for the matrix dims (`(self @ ones).squeeze(-1)`,
  `(self.mT @ ones).squeeze(-1)`, `(self @ ones).sum()`), and `sumBranch`, the argument normalisation of `sum(dim)`.
-/
namespace LinOp.C15

section SemR
variable {α : Type} [Add α] [Sub α] [Mul α] [Neg α] [Zero α] [One α] {n k p : Nat}

def maddR (A B : Mat α n k) : Mat α n k := fun i j => A i j + B i j
def smulR (c : α) (A : Mat α n k) : Mat α n k := fun i j => c * A i j
def hadR (A B : Mat α n k) : Mat α n k := fun i j => A i j * B i j

/-- Bodies of the elementwise base-class methods on `n × k` operands (as `methSem`; the matmul family does not apply). -/
def methSemEW (accepts : Bool) (m : Meth) (self other : Mat α n k) (alpha : Option α) : Except Err (Mat α n k) :=
  match alpha with
  | none =>
    match m with
    | .add | .dadd | .dradd => .ok (maddR self other)
    | .sub | .dsub => .ok (maddR self (smulR (-1) other))
    | .drsub => .ok (maddR (smulR (-1) self) other)
    | .mul | .dmul | .drmul => .ok (hadR self other)
    | _ => .error .unsupported
  | some a =>
    if !accepts then .error .typeError
    else
      match m with
      | .add => .ok (maddR self (smulR a other))
      | .sub => .ok (maddR self (smulR (a * -1) other))
      | .dradd => .ok (maddR (smulR a self) other)
      | .drsub => .ok (maddR (smulR (a * -1) self) other)
      | _ => .error .unsupported

/-- Dense meaning of `torch.add/sub/mul(x, y, alpha=…)` on `n × k` tensors. -/
def specEW (f : BinFn) (x y : Mat α n k) (alpha : Option α) : Except Err (Mat α n k) :=
  match f, alpha with
  | .add, none => .ok fun i j => x i j + y i j
  | .add, some a => .ok fun i j => x i j + a * y i j
  | .sub, none => .ok fun i j => x i j - y i j
  | .sub, some a => .ok fun i j => x i j - a * y i j
  | .mul, none => .ok fun i j => x i j * y i j
  | _, _ => .error .typeError

/-- `torch.f(x, y, alpha=…)` for the elementwise functions on `n × k` operands, through `dispatch`. -/
def evalEW (T : Tables) (f : String) (xa ya : Arg) (x y : Mat α n k) (alpha : Option α) : Except Err (Mat α n k) :=
  match dispatch T f [xa, ya] alpha with
  | .call d m _ swapped kw =>
    match Meth.ofName m with
    | none => .error .unsupported
    | some mm => if swapped then methSemEW (acceptsAlpha T d m) mm y x kw else methSemEW (acceptsAlpha T d m) mm x y kw
  | .notImplementedError => .error .notImplemented
  | .attributeError => .error .attribute
  | .indexError => .error .index
  | .noImplTypeError => .error .typeError
  | .native => .error .unsupported

/-- `rmatmul(self, other)` on rectangular operands: `self : a × b`, `other : c × a` ↦ `(selfᵀ otherᵀ)ᵀ : c × b`. -/
def rmatmulR {a b c : Nat} (self : Mat α a b) (other : Mat α c a) : Mat α c b :=
  Mat.transpose (Mat.mul (Mat.transpose self) (Mat.transpose other))

/-- `torch.matmul(x, y)` / `x.matmul(y)` / `x @ y` with `x : n × k`, `y : k × p`, through `dispatch`. -/
def evalMM (T : Tables) (f : String) (xa ya : Arg) (x : Mat α n k) (y : Mat α k p) : Except Err (Mat α n p) :=
  match dispatch T f [xa, ya] () with
  | .call _ m _ swapped _ =>
    match Meth.ofName m, swapped with
    | some .matmul, false | some .dmatmul, false => .ok (Mat.mul x y)
    | some .rmatmul, true | some .drmatmul, true => .ok (rmatmulR y x)
    | _, _ => .error .unsupported
  | .notImplementedError => .error .notImplemented
  | .attributeError => .error .attribute
  | .indexError => .error .index
  | .noImplTypeError => .error .typeError
  | .native => .error .unsupported

/-- `LinearOperator.div(self, other)` = `self.mul(1.0 / other)`, `other` a scalar … -/
def divSem [Div α] (self : Mat α n k) (c : α) : Mat α n k := smulR (1 / c) self
/-- … or a tensor of the same shape. -/
def divSemT [Div α] (self other : Mat α n k) : Mat α n k := hadR self (fun i j => 1 / other i j)

/-! ### `sum(dim)` -/

def onesCol (m : Nat) : Mat α m 1 := fun _ _ => 1

/-- `(self @ ones).squeeze(-1)`. -/
def sumCols (A : Mat α n k) : Fin n → α := fun i => Mat.mul A (onesCol k) i ⟨0, Nat.one_pos⟩
/-- `(self.mT @ ones).squeeze(-1)`. -/
def sumRows (A : Mat α n k) : Fin k → α := fun j => Mat.mul (Mat.transpose A) (onesCol n) j ⟨0, Nat.one_pos⟩
/-- `(self @ ones).sum()`. -/
def sumAll (A : Mat α n k) : α := sumFin n (sumCols A)

end SemR

/-- The code's `if dim < 0: dim = self.dim() + dim`. -/
def normDim (nd : Nat) (d : Int) : Int := if d < 0 then (nd : Int) + d else d

inductive SumBranch
  | all | cols | rows
  | batch (d : Nat)        -- `self._sum_batch(d)`
  | valueError             -- "Invalid dim"
  | below (d : Int)        -- `dim < -ndim`: the code reaches `_sum_batch` with a negative dim (torch: IndexError)
  deriving DecidableEq, Repr

/-- Which branch of `LinearOperator.sum(dim)` runs for an operator with `nd` dimensions. -/
def sumBranch (nd : Nat) : Option Int → SumBranch
  | none => .all
  | some d =>
    let d' := normDim nd d
    if d' = (nd : Int) - 1 then .cols
    else if d' = (nd : Int) - 2 then .rows
    else if d' < (nd : Int) then (if d' < 0 then .below d' else .batch d'.toNat)
    else .valueError

/-- Shape of the result of each branch. -/
def sumShape (sh : List Nat) (dim : Option Int) : Option (List Nat) :=
  match sumBranch sh.length dim with
  | .all => some []
  | .cols => some (sh.eraseIdx (sh.length - 1))
  | .rows => some (sh.eraseIdx (sh.length - 2))
  | .batch d => some (sh.eraseIdx d)
  | _ => none

/-- What `torch.sum(dense, dim)` returns: `dim ∈ [-nd, nd)` is taken modulo `nd`, anything else is an `IndexError`. -/
def torchSumShape (sh : List Nat) : Option Int → Option (List Nat)
  | none => some []
  | some d => if -(sh.length : Int) ≤ d ∧ d < sh.length then some (sh.eraseIdx (d % (sh.length : Int)).toNat) else none

/-! ### `torch.isclose` -/

section Close
variable {α : Type} [Add α] [Sub α] [Mul α] [Neg α] [Zero α] [LT α] [DecidableLT α] [LE α] [DecidableLE α] {n k : Nat}

def absv (x : α) : α := if x < 0 then -x else x

/-- `torch.isclose(x, y, rtol, atol)` on finite values. -/
def closeSpec (rtol atol x y : α) : Bool := decide (absv (x - y) ≤ atol + rtol * absv y)

/-- `torch.isclose(x, y, rtol, atol)` through `dispatch`. -/
def evalClose (T : Tables) (xa ya : Arg) (x y : Mat α n k) (rtol atol : α) : Except Err (Fin n → Fin k → Bool) :=
  match dispatch T "torch.isclose" [xa, ya] () with
  | .call _ m _ swapped _ =>
    if m = "isclose" then
      -- `isclose(self, other)` = `torch.isclose(dense(self), dense(other))`; on the swapped path `self = y`
      .ok (if swapped then fun i j => closeSpec rtol atol (y i j) (x i j) else fun i j => closeSpec rtol atol (x i j) (y i j))
    else if m = "_risclose" then
      -- `_risclose(self, other)` = `torch.isclose(dense(other), dense(self))`
      .ok (if swapped then fun i j => closeSpec rtol atol (x i j) (y i j) else fun i j => closeSpec rtol atol (y i j) (x i j))
    else .error .unsupported
  | .notImplementedError => .error .notImplemented
  | .attributeError => .error .attribute
  | .indexError => .error .index
  | .noImplTypeError => .error .typeError
  | .native => .error .unsupported

end Close

end LinOp.C15
