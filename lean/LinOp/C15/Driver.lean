import LinOp.Core.Parse
import LinOp.C15.Gen
import LinOp.C15.Rect
import LinOp.Generated.C15Bodies
/-! Line-protocol driver for the C15 dispatch model over the tables generated from /repo.

```
valr <torch-fn> <xarg> <yarg> <alpha|n> <X> <Y>  -> as val, rectangular operands ((n×k)·(k×p) for matmul, n×k elementwise)
close <xarg> <yarg> <rtol> <atol> <X> <Y>        -> model=<ok 0/1 matrix|err kind> spec=ok <0/1 matrix>   (torch.isclose)
div <c> <X>                                      -> model=ok M spec=ok M                                  (op / c)
sumv <dim|n> <X>                                 -> ok v,… | raise ValueError | below | batch             (sum of an unbatched n×k)
sumshape <shape> <dim|n>                         -> model=<ok shape|raise ValueError|below> spec=<ok shape|raise IndexError>
bindt <torch-fn> <v>;…|- <k>=<v>;…|-             -> ok <param>=<v>;… | err | no-signature   (torch's own binding)
mro <Class>                               -> A,B,C | none
resolve <Class> <method>                  -> <DefiningClass> | none
dispk <torch-fn> <arg>;…|- <kwarg>;…    -> as disp, tensor-like keyword arguments listed separately
bind <Class> <method> <v>;…|- <k>=<v>;…|-  -> ok <param>=<v>;… | err | no-signature
disp <torch-fn> <arg>;<arg>;…             -> call <Definer>.<method> swapped=<0|1> args=<arg>;… | raise <Kind> | native
val <torch-fn> <xarg> <yarg> <alpha|n> <X> <Y>   -> model=<ok M|err kind> spec=<ok M|err kind|none>
```
`<arg>` is `op:<Class>` | `t` | `s` | `ts` | `fg`. -/
open LinOp LinOp.C15 LinOp.Parse

def parseArg (s : String) : Option Arg :=
  if s = "t" then some .tensor
  else if s = "s" then some .scalar
  else if s = "ts" then some .tsub
  else if s = "fg" then some .foreign
  else if s.startsWith "op:" then some (.op (s.drop 3).toString)
  else none

def showArg : Arg → String
  | .op c => "op:" ++ c
  | .tensor => "t"
  | .scalar => "s"
  | .tsub => "ts"
  | .foreign => "fg"

def showOutcome {κ : Type} : Outcome κ → String
  | .call d m args sw _ => s!"call {d}.{m} swapped={if sw then 1 else 0} args={";".intercalate (args.map showArg)}"
  | .notImplementedError => "raise NotImplementedError"
  | .attributeError => "raise AttributeError"
  | .indexError => "raise IndexError"
  | .noImplTypeError => "raise TypeError"
  | .native => "native"

def showErr : Err → String
  | .typeError => "TypeError"
  | .notImplemented => "NotImplementedError"
  | .attribute => "AttributeError"
  | .index => "IndexError"
  | .unsupported => "unsupported"

def showRes {n : Nat} : Except Err (Mat Rat n n) → String
  | .ok m => "ok " ++ showMat (Mat.toLists m)
  | .error e => "err " ++ showErr e

def showResR {n m : Nat} : Except Err (Mat Rat n m) → String
  | .ok a => "ok " ++ showMat (Mat.toLists a)
  | .error e => "err " ++ showErr e

def stepLine (_ : Unit) (line : String) : Unit × String :=
  let T := genTables
  let out :=
    match words line with
    | ["mro", c] =>
      match mro T.classes c with
      | some l => ",".intercalate l
      | none => "none"
    | ["resolve", c, m] => (resolve T.classes c m).getD "none"
    | ["disp", f, as] =>
      match (as.splitOn ";").mapM parseArg with
      | some args => showOutcome (dispatch T f args ())
      | none => "bad-args"
    | ["dispk", f, as, ks] =>
      match (if as = "-" then some [] else (as.splitOn ";").mapM parseArg), (ks.splitOn ";").mapM parseArg with
      | some args, some kwops => showOutcome (dispatchKN LinOp.Generated.C15.kwNormalised T f args kwops ())
      | _, _ => "bad-args"
    | ["bind", c, m, ps, ks] =>
      -- Python's binding of `getattr(c, m)(*ps, **ks)` against the generated signature of the resolved definition
      let pos := if ps = "-" then [] else ps.splitOn ";"
      let kw : Env := if ks = "-" then [] else (ks.splitOn ";").map fun s => match s.splitOn "=" with
        | [k, v] => (k, v)
        | _ => (s, "")
      match handlerSig c m with
      | none => "no-signature"
      | some sig =>
        match bindPy sig pos kw with
        | .ok env => "ok " ++ ";".intercalate (env.map fun e => e.1 ++ "=" ++ e.2)
        | .error _ => "err"
    | ["val", f, xa, ya, al, xs, ys] =>
      match parseArg xa, parseArg ya, parseMat? xs, parseMat? ys with
      | some xa, some ya, some X, some Y =>
        let n := X.size
        let x : Mat Rat n n := Mat.ofArrays n n X
        let y : Mat Rat n n := Mat.ofArrays n n Y
        let alpha : Option (Option Rat) := if al = "n" then some none else (parseRat? al).map some
        match alpha with
        | none => "bad-alpha"
        | some alpha =>
          let model := showRes (evalBinary T f xa ya x y alpha)
          let sp := match BinFn.ofName f with
            | some b => showRes (spec b x y alpha)
            | none => "none"
          s!"model={model} spec={sp}"
      | _, _, _, _ => "bad-val"
    | ["valr", f, xa, ya, al, xs, ys] =>
      -- rectangular operands: matmul-like functions multiply (n×k)·(k×p), the others are elementwise on n×k
      match parseArg xa, parseArg ya, parseMat? xs, parseMat? ys with
      | some xa, some ya, some X, some Y =>
        let n := X.size
        let k := (X[0]?.map Array.size).getD 0
        let alpha : Option (Option Rat) := if al = "n" then some none else (parseRat? al).map some
        match alpha with
        | none => "bad-alpha"
        | some alpha =>
          if BinFn.ofName f == some .matmul then
            let p := (Y[0]?.map Array.size).getD 0
            if Y.size != k then "bad-shapes"
            else
              let x : Mat Rat n k := Mat.ofArrays n k X
              let y : Mat Rat k p := Mat.ofArrays k p Y
              s!"model={showResR (evalMM T f xa ya x y)} spec={showResR (.ok (Mat.mul x y) : Except Err (Mat Rat n p))}"
          else
            let x : Mat Rat n k := Mat.ofArrays n k X
            let y : Mat Rat n k := Mat.ofArrays n k Y
            let sp := match BinFn.ofName f with
              | some b => showResR (specEW b x y alpha)
              | none => "none"
            s!"model={showResR (evalEW T f xa ya x y alpha)} spec={sp}"
      | _, _, _, _ => "bad-val"
    | ["close", xa, ya, rt, at_, xs, ys] =>
      match parseArg xa, parseArg ya, parseRat? rt, parseRat? at_, parseMat? xs, parseMat? ys with
      | some xa, some ya, some rtol, some atol, some X, some Y =>
        let n := X.size
        let k := (X[0]?.map Array.size).getD 0
        let x : Mat Rat n k := Mat.ofArrays n k X
        let y : Mat Rat n k := Mat.ofArrays n k Y
        let showB (m : Fin n → Fin k → Bool) : String :=
          ";".intercalate ((List.finRange n).map fun i => ",".intercalate ((List.finRange k).map fun j => if m i j then "1" else "0"))
        let model := match evalClose T xa ya x y rtol atol with
          | .ok m => "ok " ++ showB m
          | .error e => "err " ++ showErr e
        s!"model={model} spec=ok {showB fun i j => closeSpec rtol atol (x i j) (y i j)}"
      | _, _, _, _, _, _ => "bad-close"
    | ["div", cs, xs] =>
      match parseRat? cs, parseMat? xs with
      | some c, some X =>
        let n := X.size
        let k := (X[0]?.map Array.size).getD 0
        let x : Mat Rat n k := Mat.ofArrays n k X
        s!"model={showResR (.ok (divSem x c) : Except Err (Mat Rat n k))} spec={showResR (.ok (fun i j => x i j / c) : Except Err (Mat Rat n k))}"
      | _, _ => "bad-div"
    | ["sumv", ds, xs] =>
      -- `sum(dim)` of an unbatched n×k operator: values
      match parseMat? xs, (if ds = "n" then some none else ds.toInt?.map some) with
      | some X, some dim =>
        let n := X.size
        let k := (X[0]?.map Array.size).getD 0
        let x : Mat Rat n k := Mat.ofArrays n k X
        match sumBranch 2 dim with
        | .all => "ok " ++ showRat (sumAll x)
        | .cols => "ok " ++ ",".intercalate ((List.finRange n).map fun i => showRat (sumCols x i))
        | .rows => "ok " ++ ",".intercalate ((List.finRange k).map fun j => showRat (sumRows x j))
        | .batch _ => "batch"
        | .valueError => "raise ValueError"
        | .below _ => if LinOp.Generated.C15.sumBelowRaises then "raise ValueError" else "below"
      | _, _ => "bad-sumv"
    | ["sumshape", ss, ds] =>
      -- `sum(dim)`: shape of the result of the branch taken, next to torch's
      match parseNats? ss, (if ds = "n" then some none else ds.toInt?.map some) with
      | some sh, some dim =>
        let showS (o : Option (List Nat)) (none_ : String) := match o with
          | some l => "ok " ++ ",".intercalate (l.map toString)
          | none => none_
        let model := match sumBranch sh.length dim with
          | .valueError => "raise ValueError"
          | .below _ => if LinOp.Generated.C15.sumBelowRaises then "raise ValueError" else "below"
          | _ => showS (sumShape sh dim) "?"
        s!"model={model} spec={showS (torchSumShape sh dim) "raise IndexError"}"
      | _, _ => "bad-sumshape"
    | ["bindt", f, ps, ks] =>
      -- torch's own binding of the arguments after the operands
      let pos := if ps = "-" then [] else ps.splitOn ";"
      let kw : Env := if ks = "-" then [] else (ks.splitOn ";").map fun s => match s.splitOn "=" with
        | [k, v] => (k, v)
        | _ => (s, "")
      match torchSig f with
      | none => "no-signature"
      | some (_, sig) =>
        match bind sig pos kw with
        | .ok env => "ok " ++ ";".intercalate (env.map fun e => e.1 ++ "=" ++ e.2)
        | .error _ => "err"
    | _ => "bad-op"
  ((), out)

def main : IO Unit := do
  loop (← IO.getStdin) () stepLine
