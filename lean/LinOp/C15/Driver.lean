import LinOp.Core.Parse
import LinOp.C15.Gen
/-! Line-protocol driver for the C15 dispatch model over the tables generated from /repo.

```
mro <Class>                               -> A,B,C | none
resolve <Class> <method>                  -> <DefiningClass> | none
dispk <torch-fn> <arg>;…|- <kwarg>;…    -> as disp, tensor-like keyword arguments listed separately
bind <Class> <method> <v>;…|- <k>=<v>;…|-  -> ok <param>=<v>;… | err | no-signature
disp <torch-fn> <arg>;<arg>;…             -> call <Definer>.<method> swapped=<0|1> args=<arg>;… | raise <Kind> | native
val <torch-fn> <xarg> <yarg> <alpha|n> <X> <Y>   -> model=<ok M|err kind> spec=<ok M|err kind|none>
```
`<arg>` is `op:<Class>` | `t` | `s` | `ts` | `fg`. -/
open LinOp LinOp.C15 LinOp.Parse

def parseArg (s : String) : Option Arg :=
  if s = "t" then some .tensor
  else if s = "s" then some .scalar
  else if s = "ts" then some .tsub
  else if s = "fg" then some .foreign
  else if s.startsWith "op:" then some (.op (s.drop 3).toString)
  else none

def showArg : Arg → String
  | .op c => "op:" ++ c
  | .tensor => "t"
  | .scalar => "s"
  | .tsub => "ts"
  | .foreign => "fg"

def showOutcome {κ : Type} : Outcome κ → String
  | .call d m args sw _ => s!"call {d}.{m} swapped={if sw then 1 else 0} args={";".intercalate (args.map showArg)}"
  | .notImplementedError => "raise NotImplementedError"
  | .attributeError => "raise AttributeError"
  | .indexError => "raise IndexError"
  | .noImplTypeError => "raise TypeError"
  | .native => "native"

def showErr : Err → String
  | .typeError => "TypeError"
  | .notImplemented => "NotImplementedError"
  | .attribute => "AttributeError"
  | .index => "IndexError"
  | .unsupported => "unsupported"

def showRes {n : Nat} : Except Err (Mat Rat n n) → String
  | .ok m => "ok " ++ showMat (Mat.toLists m)
  | .error e => "err " ++ showErr e

def stepLine (_ : Unit) (line : String) : Unit × String :=
  let T := genTables
  let out :=
    match words line with
    | ["mro", c] =>
      match mro T.classes c with
      | some l => ",".intercalate l
      | none => "none"
    | ["resolve", c, m] => (resolve T.classes c m).getD "none"
    | ["disp", f, as] =>
      match (as.splitOn ";").mapM parseArg with
      | some args => showOutcome (dispatch T f args ())
      | none => "bad-args"
    | ["dispk", f, as, ks] =>
      match (if as = "-" then some [] else (as.splitOn ";").mapM parseArg), (ks.splitOn ";").mapM parseArg with
      | some args, some kwops => showOutcome (dispatchKN LinOp.Generated.C15.kwNormalised T f args kwops ())
      | _, _ => "bad-args"
    | ["bind", c, m, ps, ks] =>
      -- Python's binding of `getattr(c, m)(*ps, **ks)` against the generated signature of the resolved definition
      let pos := if ps = "-" then [] else ps.splitOn ";"
      let kw : Env := if ks = "-" then [] else (ks.splitOn ";").map fun s => match s.splitOn "=" with
        | [k, v] => (k, v)
        | _ => (s, "")
      match handlerSig c m with
      | none => "no-signature"
      | some sig =>
        match bindPy sig pos kw with
        | .ok env => "ok " ++ ";".intercalate (env.map fun e => e.1 ++ "=" ++ e.2)
        | .error _ => "err"
    | ["val", f, xa, ya, al, xs, ys] =>
      match parseArg xa, parseArg ya, parseMat? xs, parseMat? ys with
      | some xa, some ya, some X, some Y =>
        let n := X.size
        let x : Mat Rat n n := Mat.ofArrays n n X
        let y : Mat Rat n n := Mat.ofArrays n n Y
        let alpha : Option (Option Rat) := if al = "n" then some none else (parseRat? al).map some
        match alpha with
        | none => "bad-alpha"
        | some alpha =>
          let model := showRes (evalBinary T f xa ya x y alpha)
          let sp := match BinFn.ofName f with
            | some b => showRes (spec b x y alpha)
            | none => "none"
          s!"model={model} spec={sp}"
      | _, _, _, _ => "bad-val"
    | _ => "bad-op"
  ((), out)

def main : IO Unit := do
  loop (← IO.getStdin) () stepLine
