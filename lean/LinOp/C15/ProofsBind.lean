import LinOp.C15.Bind
/-! Helper lemmas for the argument-forwarding model (`bind`), core Lean only. -/
namespace LinOp.C15

theorem lookup_tailmap (tail : Sig) (kw : Env) (q : String) :
    (tail.map fun p => (p.name, p.fill kw)).lookup q = (tail.find? fun p => p.name == q).map (·.fill kw) := by
  induction tail with
  | nil => rfl
  | cons p ps ih =>
    by_cases h : p.name = q
    · subst h; simp
    · have h1 : (q == p.name) = false := by simpa using fun h' => h h'.symm
      have h2 : (p.name == q) = false := by simpa using h
      simp only [List.map_cons, List.lookup_cons, List.find?_cons, h1, h2]
      exact ih

/-- What a successful binding looks like. -/
theorem bind_ok {sig : Sig} {pos : List String} {kw env : Env} (h : bind sig pos kw = .ok env) :
    pos.length ≤ sig.length ∧ (∀ p ∈ sig.take pos.length, p.kind = .pos) ∧ (∀ e ∈ kw, e.1 ∈ sig.names) ∧
      (∀ e ∈ kw, e.1 ∉ (Sig.names (sig.take pos.length))) ∧
      (∀ p ∈ sig.drop pos.length, kw.lookup p.name = none → p.dflt ≠ none) ∧
      env = (Sig.names (sig.take pos.length)).zip pos ++ (sig.drop pos.length).map fun p => (p.name, p.fill kw) := by
  unfold bind at h
  simp only at h
  split at h
  · cases h
  · rename_i h1
    split at h
    · cases h
    · rename_i h2
      split at h
      · cases h
      · rename_i h3
        split at h
        · cases h
        · rename_i h4
          simp only [Bool.or_eq_true, decide_eq_true_eq, List.any_eq_true, not_or, not_exists, not_and, Nat.not_lt,
            Bool.not_eq_true, bne_iff_ne, ne_eq, Decidable.not_not] at h1
          simp only [List.any_eq_true, not_exists, not_and, Bool.not_eq_true, Bool.not_eq_eq_eq_not, Bool.not_true,
            Bool.not_false, List.contains_eq_mem, decide_eq_false_iff_not, Decidable.not_not, decide_eq_true_eq] at h2 h3
          simp only [List.any_eq_true, not_exists, not_and, Bool.and_eq_true, Option.isNone_iff_eq_none, not_and] at h4
          injection h with h
          refine ⟨h1.1, h1.2, fun e he => ?_, fun e he => h3 e he, fun p hp hk hd => h4 p hp hk hd, h.symm⟩
          have := h2 e he
          simpa using this

theorem zip_lookup_none_of_not_mem (ns vs : List String) (q : String) (h : q ∉ ns) : (ns.zip vs).lookup q = none := by
  rw [List.lookup_eq_none_iff]
  intro p hp
  have : p.1 ∈ ns := (List.of_mem_zip (a := p.1) (b := p.2) (by simpa using hp)).1
  simpa using fun h' : q = p.1 => h (h' ▸ this)

theorem zip_lookup_isSome_of_mem (ns vs : List String) (q : String) (hl : ns.length ≤ vs.length) (h : q ∈ ns) :
    ((ns.zip vs).lookup q).isSome = true := by
  rw [List.lookup_isSome_iff]
  have hm : (ns.zip vs).map Prod.fst = ns := List.map_fst_zip hl
  rw [← hm] at h
  obtain ⟨p, hp, rfl⟩ := List.mem_map.1 h
  exact ⟨p, hp, by simp⟩

theorem find?_eq_drop_of_not_mem_take (sig : Sig) (k : Nat) (q : String) (h : q ∉ (Sig.names (sig.take k))) :
    (sig.find? fun p => p.name == q) = ((sig.drop k).find? fun p => p.name == q) := by
  conv => lhs; rw [← List.take_append_drop k sig]
  rw [List.find?_append]
  have : ((sig.take k).find? fun p => p.name == q) = none := by
    rw [List.find?_eq_none]
    intro p hp hq
    exact h (List.mem_map.2 ⟨p, hp, by simpa using hq⟩)
  rw [this]
  rfl

/-- The value of parameter `q` after a successful binding. -/
theorem bind_lookup {sig : Sig} {pos : List String} {kw env : Env} (h : bind sig pos kw = .ok env) (q : String) :
    env.lookup q =
      if q ∈ (Sig.names (sig.take pos.length)) then ((Sig.names (sig.take pos.length)).zip pos).lookup q
      else (sig.find? fun p => p.name == q).map (·.fill kw) := by
  obtain ⟨hlen, _, _, _, _, rfl⟩ := bind_ok h
  rw [List.lookup_append]
  split
  · rename_i hq
    have hl : (Sig.names (sig.take pos.length)).length ≤ pos.length := by
      simp only [Sig.names, List.length_map, List.length_take]; omega
    have := zip_lookup_isSome_of_mem _ pos q hl hq
    obtain ⟨v, hv⟩ := Option.isSome_iff_exists.1 this
    simp [hv]
  · rename_i hq
    rw [zip_lookup_none_of_not_mem _ pos q hq, lookup_tailmap, find?_eq_drop_of_not_mem_take sig pos.length q hq]
    rfl

theorem take_names_of_prefix (sigM sigT : Sig) (k : Nat) (hk : k ≤ sigM.length)
    (hp : sigM.names.isPrefixOf sigT.names = true) : (Sig.names (sigT.take k)) = (Sig.names (sigM.take k)) := by
  rw [List.isPrefixOf_iff_prefix] at hp
  obtain ⟨r, hr⟩ := hp
  simp only [Sig.names] at hr ⊢
  rw [List.map_take, List.map_take, ← hr, List.take_append_of_le_length (by simpa using hk)]

theorem mem_names_of_prefix (sigM sigT : Sig) (q : String) (hp : sigM.names.isPrefixOf sigT.names = true)
    (hq : q ∈ sigM.names) : q ∈ sigT.names := by
  rw [List.isPrefixOf_iff_prefix] at hp
  obtain ⟨r, hr⟩ := hp
  rw [← hr]
  exact List.mem_append_left _ hq

theorem find?_name_of_mem (sig : Sig) (q : String) (hq : q ∈ sig.names) :
    ∃ p, (sig.find? fun p => p.name == q) = some p ∧ p.name = q ∧ p ∈ sig := by
  obtain ⟨p0, hp0, hn⟩ := List.mem_map.1 hq
  have : ((sig.find? fun p => p.name == q)).isSome = true := by
    rw [List.find?_isSome]
    exact ⟨p0, hp0, by simpa using hn⟩
  obtain ⟨p, hp⟩ := Option.isSome_iff_exists.1 this
  exact ⟨p, hp, by simpa using List.find?_some hp, List.mem_of_find?_eq_some hp⟩

/-- **Forwarding agrees with torch's own binding.**  If the method's signature is compatible with torch's for the
parameters the call does not supply (`sigCompatGiven`, `given` ⊆ supplied), then every parameter of the method receives
exactly the value torch's binding of the same call gives to the parameter of that name. -/
theorem bind_agree (sigM sigT : Sig) (pos : List String) (kw envM envT : Env) (given : List String)
    (hc : sigCompatGiven given sigM sigT = true)
    (hg : ∀ g ∈ given, g ∈ (Sig.names (sigM.take pos.length)) ∨ (kw.lookup g).isSome = true)
    (hM : bind sigM pos kw = .ok envM) (hT : bind sigT pos kw = .ok envT) (q : String) (hq : q ∈ sigM.names) :
    envM.lookup q = envT.lookup q := by
  simp only [sigCompatGiven, Bool.and_eq_true, List.all_eq_true, Bool.or_eq_true] at hc
  obtain ⟨hpre, hd⟩ := hc
  obtain ⟨hlenM, _, _, _, hmiss, _⟩ := bind_ok hM
  rw [bind_lookup hM q, bind_lookup hT q, take_names_of_prefix sigM sigT pos.length hlenM hpre]
  split
  · rfl
  · rename_i hnh
    obtain ⟨pM, hfM, hnM, hmemM⟩ := find?_name_of_mem sigM q hq
    obtain ⟨pT, hfT, hnT, _⟩ := find?_name_of_mem sigT q (mem_names_of_prefix sigM sigT q hpre hq)
    rw [hfM, hfT]
    simp only [Option.map_some, Option.some.injEq, Param.fill, hnM, hnT]
    cases hk : kw.lookup q with
    | some v => rfl
    | none =>
      simp only [Option.getD_none]
      have hin : pM ∈ sigM.drop pos.length := by
        have h2 := find?_eq_drop_of_not_mem_take sigM pos.length q hnh
        rw [hfM] at h2
        exact List.mem_of_find?_eq_some h2.symm
      rcases hd pM hmemM with (h | h) | h
      · exact absurd (by simpa using h) (hmiss pM hin (by rw [hnM]; exact hk))
      · have hgq := hg q (by simpa [hnM] using h)
        rcases hgq with h' | h'
        · exact absurd h' hnh
        · simp [hk] at h'
      · have h' : sigT.dflt pM.name = pM.dflt := by simpa using h
        rw [hnM, Sig.dflt, hfT] at h'
        simp only [Option.bind_some] at h'
        rw [h']

theorem sigCompatGiven_of_sigCompat (sigM sigT : Sig) (h : sigCompat sigM sigT = true) (given : List String) :
    sigCompatGiven given sigM sigT = true := by
  simp only [sigCompat, sigCompatGiven, Bool.and_eq_true, List.all_eq_true, Bool.or_eq_true] at h ⊢
  refine ⟨h.1, fun p hp => ?_⟩
  rcases h.2 p hp with h' | h'
  · exact Or.inl (Or.inl h')
  · exact Or.inr h'

/-- A torch parameter the method does not have cannot have been supplied by a call the method accepts, so torch's
binding leaves it at its default: the forwarding drops nothing silently. -/
theorem bind_rest_default (sigM sigT : Sig) (pos : List String) (kw envM envT : Env)
    (hpre : sigM.names.isPrefixOf sigT.names = true)
    (hM : bind sigM pos kw = .ok envM) (hT : bind sigT pos kw = .ok envT) (q : String) (hq : q ∉ sigM.names) :
    envT.lookup q = (sigT.find? fun p => p.name == q).map fun p => p.dflt.getD "" := by
  obtain ⟨hlenM, _, hkwM, _, _, _⟩ := bind_ok hM
  rw [bind_lookup hT q, take_names_of_prefix sigM sigT pos.length hlenM hpre]
  have hnh : q ∉ Sig.names (sigM.take pos.length) := by
    intro h
    apply hq
    simp only [Sig.names] at h ⊢
    obtain ⟨p, hp, hn⟩ := List.mem_map.1 h
    exact List.mem_map.2 ⟨p, List.mem_of_mem_take hp, hn⟩
  rw [if_neg hnh]
  have hk : kw.lookup q = none := by
    rw [List.lookup_eq_none_iff]
    intro e he
    simpa using fun h : q = e.1 => hq (h ▸ hkwM e he)
  cases hf : (sigT.find? fun p => p.name == q) with
  | none => rfl
  | some p =>
    have : p.name = q := by simpa using List.find?_some hf
    simp [Param.fill, this, hk]

/-- Swapping the first two positional values (what the second-argument path of `__torch_function__` does) changes the
values of the first two parameters and nothing else. -/
theorem bind_swap (sig : Sig) (a b : String) (rest : List String) (kw env : Env)
    (h : bind sig (a :: b :: rest) kw = .ok env) :
    ∃ n1 n2 tl, env = (n1, a) :: (n2, b) :: tl ∧ bind sig (b :: a :: rest) kw = .ok ((n1, b) :: (n2, a) :: tl) := by
  obtain ⟨hlen, _, _, _, _, henv⟩ := bind_ok h
  match sig, hlen with
  | p1 :: p2 :: sig', _ =>
    refine ⟨p1.name, p2.name, (Sig.names (sig'.take rest.length)).zip rest ++
      (sig'.drop rest.length).map fun p => (p.name, p.fill kw), ?_, ?_⟩
    · rw [henv]; simp [Sig.names]
    · have e : bind (p1 :: p2 :: sig') (b :: a :: rest) kw =
          (bind (p1 :: p2 :: sig') (a :: b :: rest) kw).map fun env => match env with
            | (n1, x) :: (n2, y) :: tl => (n1, y) :: (n2, x) :: tl
            | e => e := by
        unfold bind
        simp only [List.length_cons, List.take_succ_cons, List.drop_succ_cons, Sig.names, List.map_cons, List.zip_cons_cons,
          List.cons_append]
        split
        · rfl
        · split
          · rfl
          · split
            · rfl
            · split
              · rfl
              · rfl
      rw [e, h, henv]
      simp [Sig.names, Except.map]

/-- Nothing supplied is dropped: a successful binding uses every positional value and every keyword. -/
theorem bind_uses_everything {sig : Sig} {pos : List String} {kw env : Env} (h : bind sig pos kw = .ok env) :
    pos.length ≤ sig.length ∧ (∀ e ∈ kw, e.1 ∈ sig.names) ∧ env.map Prod.fst = sig.names := by
  obtain ⟨hlen, _, hkw, _, _, rfl⟩ := bind_ok h
  refine ⟨hlen, hkw, ?_⟩
  have hl : (Sig.names (sig.take pos.length)).length ≤ pos.length := by
    simp only [Sig.names, List.length_map, List.length_take]; omega
  rw [List.map_append, List.map_fst_zip hl]
  simp only [Sig.names, List.map_map]
  have : (Prod.fst ∘ fun p : Param => (p.name, p.fill kw)) = fun x : Param => x.name := rfl
  rw [this, ← List.map_append, List.take_append_drop]

end LinOp.C15
