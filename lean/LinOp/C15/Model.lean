import LinOp.Core.Basic
/-!
C15 — model of the torch-function dispatch of `linear_operator` (core Lean only).

Mirrors `linear_operator/operators/_linear_operator.py`:

* the two registered-function tables (`_HANDLED_FUNCTIONS`, `_HANDLED_SECOND_ARG_FUNCTIONS`) and the class
  table are *parameters* (`Tables`); the instance used by the driver and by the table obligations is
  generated from the source on every run (`LinOp/Generated/C15Tables.lean`);
* Python method resolution: C3 linearisation (`mro`) and `resolve : class → name → defining class`,
  i.e. what `getattr(cls, name)` finds;
* how torch chooses the `cls` whose `__torch_function__` runs (`overloaded`: one entry per distinct
  overloaded type, left to right, a subclass is inserted before the first of its superclasses —
  `torch.overrides._get_overloaded_args`), handlers that return `NotImplemented` are skipped;
* `LinearOperator.__torch_function__` itself (`torchFunction`): `isinstance(args[0], cls)` selects the
  table, missing entry or a foreign type in `types` raises `NotImplementedError`, `getattr(cls, name)`,
  the argument swap `func(args[1], args[0], *args[2:], **kwargs)` on the second-argument path;
* a small denotational layer: the bodies of the base-class two-operand methods (`add`, `sub`, `mul`,
  `matmul`, `rmatmul`, `__radd__`, `__rsub__`, `__rmatmul__`, `__mul__`, `__rmul__`, `__matmul__`) over
  square matrices, next to the dense meaning `spec` of the torch functions.
-/
namespace LinOp.C15

/-! ### Class table, C3 linearisation, method resolution -/

/-- (class, bases in source order, names defined in the class body). -/
abbrev ClassTable := List (String × List String × List String)

structure Tables where
  first : List (String × String)
  second : List (String × String)
  classes : ClassTable
  sigs : List (String × String × List String)

def basesOf (t : ClassTable) (c : String) : Option (List String) :=
  (t.find? fun e => e.1 == c).map fun e => e.2.1

def definesOf (t : ClassTable) (c : String) : List String :=
  ((t.find? fun e => e.1 == c).map fun e => e.2.2).getD []

/-- A head that occurs in the tail of no sequence (first such, scanning the sequences in order). -/
def c3pick (seqs : List (List String)) : Option String :=
  seqs.findSome? fun s =>
    match s with
    | [] => none
    | h :: _ => if seqs.all (fun t => !(t.tail.contains h)) then some h else none

/-- The `merge` of C3; `none` = inconsistent hierarchy (Python raises `TypeError` at class creation). -/
def c3merge : Nat → List (List String) → Option (List String)
  | 0, _ => none
  | fuel + 1, seqs =>
    let seqs := seqs.filter fun s => !s.isEmpty
    if seqs.isEmpty then some []
    else
      match c3pick seqs with
      | none => none
      | some h =>
        (c3merge fuel (seqs.map fun s => if s.head? == some h then s.tail else s)).map fun l => h :: l

def mroFuel (t : ClassTable) : Nat → String → Option (List String)
  | 0, _ => none
  | fuel + 1, c =>
    match basesOf t c with
    | none => none
    | some bases =>
      match bases.mapM (fun b => mroFuel t fuel b) with
      | none => none
      | some ls =>
        (c3merge ((ls.map List.length).sum + bases.length + 1) (ls ++ [bases])).map fun l => c :: l

/-- `cls.__mro__` as names. -/
def mro (t : ClassTable) (c : String) : Option (List String) := mroFuel t (t.length + 1) c

/-- The class whose body provides `getattr(cls, m)`; `none` = `AttributeError`. -/
def resolve (t : ClassTable) (c m : String) : Option String :=
  (mro t c).bind fun l => l.find? fun k => (definesOf t k).contains m

def isSubclass (t : ClassTable) (c d : String) : Bool :=
  match mro t c with
  | some l => l.contains d
  | none => false

/-! ### Arguments, overloaded-argument collection -/

/-- What an argument of a torch call is, as far as dispatch can tell. -/
inductive Arg
  | op (cls : String)   -- an instance of the LinearOperator subclass `cls`
  | tensor              -- an exact `torch.Tensor` (or Parameter): not an overloaded argument
  | scalar              -- a Python number
  | tsub                -- instance of a Tensor subclass with the default `Tensor.__torch_function__`
  | foreign             -- instance of an unrelated class whose `__torch_function__` returns NotImplemented
  deriving DecidableEq, Repr

inductive OType
  | opc (cls : String)
  | tsub
  | foreign
  deriving DecidableEq, Repr

def Arg.otype? : Arg → Option OType
  | .op c => some (.opc c)
  | .tsub => some .tsub
  | .foreign => some .foreign
  | _ => none

def OType.isSub (t : ClassTable) : OType → OType → Bool
  | .opc c, .opc d => isSubclass t c d
  | .tsub, .tsub => true
  | .foreign, .foreign => true
  | _, _ => false

/-- Insert before the first already-collected argument whose type is a superclass, else append. -/
def insertBeforeSuper (t : ClassTable) (ty : OType) : List OType → List OType
  | [] => [ty]
  | o :: rest => if ty.isSub t o then ty :: o :: rest else o :: insertBeforeSuper t ty rest

def collect (t : ClassTable) (acc : List OType) (a : Arg) : List OType :=
  match a.otype? with
  | none => acc
  | some ty => if acc.contains ty then acc else insertBeforeSuper t ty acc

/-- `_get_overloaded_args`: the types whose `__torch_function__` is tried, in order (= `types`). -/
def overloaded (t : ClassTable) (args : List Arg) : List OType := args.foldl (collect t) []

/-! ### `LinearOperator.__torch_function__` -/

inductive Outcome (κ : Type)
  | call (definer meth : String) (args : List Arg) (swapped : Bool) (kw : κ)
  | notImplementedError     -- raised by `__torch_function__`
  | attributeError          -- `getattr(cls, name)` fails
  | indexError              -- `args[0]` / `args[1]` does not exist (operator passed by keyword)
  | noImplTypeError         -- every handler returned NotImplemented
  | native                  -- no LinearOperator among the overloaded arguments: not our code
  deriving DecidableEq, Repr

def isInstance (t : ClassTable) : Arg → String → Bool
  | .op c, cls => isSubclass t c cls
  | _, _ => false

/-- `all(issubclass(t, (torch.Tensor, LinearOperator)) for t in types)`. -/
def typesOK (types : List OType) : Bool := types.all fun ty => ty != .foreign

def torchFunction {κ : Type} (T : Tables) (cls f : String) (types : List OType) (args : List Arg) (kw : κ) :
    Outcome κ :=
  match args with
  | [] => .indexError
  | a0 :: rest =>
    if isInstance T.classes a0 cls then
      match T.first.lookup f with
      | none => .notImplementedError
      | some m =>
        if !typesOK types then .notImplementedError
        else
          match resolve T.classes cls m with
          | none => .attributeError
          | some d => .call d m (a0 :: rest) false kw
    else
      match T.second.lookup f with
      | none => .notImplementedError
      | some m =>
        if !typesOK types then .notImplementedError
        else
          match resolve T.classes cls m with
          | none => .attributeError
          | some d =>
            match rest with
            | [] => .indexError
            | a1 :: rest' => .call d m (a1 :: a0 :: rest') true kw

/-- Try the handlers in order; Tensor-subclass and foreign handlers return `NotImplemented`. -/
def handlers {κ : Type} (T : Tables) (f : String) (types : List OType) (args : List Arg) (kw : κ) :
    List OType → Outcome κ
  | [] => .noImplTypeError
  | .opc c :: _ => torchFunction T c f types args kw
  | _ :: rest => handlers T f types args kw rest

def hasOp : List OType → Bool
  | [] => false
  | .opc _ :: _ => true
  | _ :: rest => hasOp rest

/-- `torch.f(*args, **kw)` when at least one argument is a LinearOperator. -/
def dispatch {κ : Type} (T : Tables) (f : String) (args : List Arg) (kw : κ) : Outcome κ :=
  let ov := overloaded T.classes args
  if hasOp ov then handlers T f ov args kw ov else .native

/-- As `dispatch`, with tensor-like objects also passed *by keyword* (`kwops`, e.g. `other=op`, `out=buf`):
torch collects overloaded arguments from positional and keyword arguments alike, but
`__torch_function__` looks at the positional tuple `args` only (`args[0]`, `args[1]`). -/
def dispatchK {κ : Type} (T : Tables) (f : String) (args kwops : List Arg) (kw : κ) : Outcome κ :=
  let ov := overloaded T.classes (args ++ kwops)
  if hasOp ov then handlers T f ov args kw ov else .native

/-- `dispatchK` for a `__torch_function__` that first completes the positional tuple from the keyword operands
(`input=` then `other=`, listed in that order in `kwops`) when fewer than two positional arguments were given
(`norm = true`, the proposed fix notes/C15_fix_3.diff); `norm = false` is `dispatchK`. -/
def dispatchKN {κ : Type} (norm : Bool) (T : Tables) (f : String) (args kwops : List Arg) (kw : κ) : Outcome κ :=
  let ov := overloaded T.classes (args ++ kwops)
  let args' := if norm then args ++ kwops.take (2 - args.length) else args
  if hasOp ov then handlers T f ov args' kw ov else .native

/-! ### Denotational layer for the two-operand functions -/

inductive BinFn
  | add | sub | mul | matmul
  deriving DecidableEq, Repr

def BinFn.ofName : String → Option BinFn
  | "torch.add" => some .add
  | "torch.Tensor.add" => some .add
  | "torch.sub" => some .sub
  | "torch.Tensor.sub" => some .sub
  | "torch.mul" => some .mul
  | "torch.Tensor.mul" => some .mul
  | "torch.matmul" => some .matmul
  | "torch.Tensor.matmul" => some .matmul
  | _ => none

inductive Meth
  | add | sub | mul | matmul | rmatmul | dadd | dradd | dsub | drsub | dmul | drmul | dmatmul | drmatmul
  deriving DecidableEq, Repr

def Meth.ofName : String → Option Meth
  | "add" => some .add
  | "sub" => some .sub
  | "mul" => some .mul
  | "matmul" => some .matmul
  | "rmatmul" => some .rmatmul
  | "__add__" => some .dadd
  | "__radd__" => some .dradd
  | "__sub__" => some .dsub
  | "__rsub__" => some .drsub
  | "__mul__" => some .dmul
  | "__rmul__" => some .drmul
  | "__matmul__" => some .dmatmul
  | "__rmatmul__" => some .drmatmul
  | _ => none

inductive Err
  | typeError | notImplemented | attribute | index | unsupported
  deriving DecidableEq, Repr

section Sem
variable {α : Type} [Add α] [Sub α] [Mul α] [Neg α] [Zero α] [One α] {n : Nat}

def madd (A B : Mat α n n) : Mat α n n := fun i j => A i j + B i j
def smul (c : α) (A : Mat α n n) : Mat α n n := fun i j => c * A i j
def had (A B : Mat α n n) : Mat α n n := fun i j => A i j * B i j

/-- The body of the base-class method, on dense meanings (`self`, `other`, optional `alpha`).
`accepts` = the definition has an `alpha` parameter (taken from the generated signatures); the
`alpha` clauses of `__radd__` / `__rsub__` describe the proposed fix and are unreachable today. -/
def methSem (accepts : Bool) (m : Meth) (self other : Mat α n n) (alpha : Option α) : Except Err (Mat α n n) :=
  match alpha with
  | none =>
    match m with
    | .add | .dadd | .dradd => .ok (madd self other)                 -- `self + other`
    | .sub | .dsub => .ok (madd self (smul (-1) other))             -- `self + other.mul(-1)`
    | .drsub => .ok (madd (smul (-1) self) other)                   -- `self.mul(-1) + other`
    | .mul | .dmul | .drmul => .ok (had self other)                 -- `self.mul(other)`
    | .matmul | .dmatmul => .ok (Mat.mul self other)
    | .rmatmul | .drmatmul => .ok (Mat.transpose (Mat.mul (Mat.transpose self) (Mat.transpose other)))
  | some a =>
    if !accepts then .error .typeError
    else
      match m with
      | .add => .ok (madd self (smul a other))                       -- `self + alpha * other`
      | .sub => .ok (madd self (smul (a * -1) other))                -- `self + (alpha * -1) * other`
      | .dradd => .ok (madd (smul a self) other)
      | .drsub => .ok (madd (smul (a * -1) self) other)
      | _ => .error .unsupported

/-- What `torch.f(x, y, alpha=…)` means on dense tensors. -/
def spec (f : BinFn) (x y : Mat α n n) (alpha : Option α) : Except Err (Mat α n n) :=
  match f, alpha with
  | .add, none => .ok fun i j => x i j + y i j
  | .add, some a => .ok fun i j => x i j + a * y i j
  | .sub, none => .ok fun i j => x i j - y i j
  | .sub, some a => .ok fun i j => x i j - a * y i j
  | .mul, none => .ok fun i j => x i j * y i j
  | .matmul, none => .ok (Mat.mul x y)
  | _, some _ => .error .typeError

end Sem

def acceptsAlpha (T : Tables) (definer meth : String) : Bool :=
  match T.sigs.find? fun e => e.1 == definer && e.2.1 == meth with
  | none => false
  | some e => e.2.2.any fun p => p == "alpha" || p.startsWith "**"

/-- Evaluate `torch.f(x, y, alpha=…)` where `xa`, `ya` say what kind of object holds `x`, `y`. -/
def evalBinary {α : Type} [Add α] [Sub α] [Mul α] [Neg α] [Zero α] [One α] {n : Nat}
    (T : Tables) (f : String) (xa ya : Arg) (x y : Mat α n n) (alpha : Option α) : Except Err (Mat α n n) :=
  match dispatch T f [xa, ya] alpha with
  | .call d m _ swapped kw =>
    match Meth.ofName m with
    | none => .error .unsupported
    | some mm => if swapped then methSem (acceptsAlpha T d m) mm y x kw else methSem (acceptsAlpha T d m) mm x y kw
  | .notImplementedError => .error .notImplemented
  | .attributeError => .error .attribute
  | .indexError => .error .index
  | .noImplTypeError => .error .typeError
  | .native => .error .unsupported

end LinOp.C15
