import LinOp.C15.Model
/-! Helper lemmas for C15: method resolution and the routing of `__torch_function__` (core Lean only). -/
namespace LinOp.C15

/-! ### mro / isSubclass -/

theorem mroFuel_head (t : ClassTable) (fuel : Nat) (c : String) (l : List String)
    (h : mroFuel t fuel c = some l) : ∃ l', l = c :: l' := by
  cases fuel with
  | zero => simp [mroFuel] at h
  | succ fuel =>
    simp only [mroFuel] at h
    split at h
    · simp at h
    · split at h
      · simp at h
      · simp only [Option.map_eq_some_iff] at h
        obtain ⟨l', _, rfl⟩ := h
        exact ⟨l', rfl⟩

theorem isSubclass_self_of_mro (t : ClassTable) (c : String) (l : List String) (h : mro t c = some l) :
    isSubclass t c c = true := by
  obtain ⟨l', rfl⟩ := mroFuel_head t _ c l h
  simp [isSubclass, h]

theorem mro_isSome_of_resolve (t : ClassTable) (c m d : String) (h : resolve t c m = some d) :
    ∃ l, mro t c = some l := by
  unfold resolve at h
  cases hm : mro t c with
  | none => simp [hm] at h
  | some l => exact ⟨l, rfl⟩

theorem isSubclass_self_of_resolve (t : ClassTable) (c m d : String) (h : resolve t c m = some d) :
    isSubclass t c c = true := by
  obtain ⟨l, hl⟩ := mro_isSome_of_resolve t c m d h
  exact isSubclass_self_of_mro t c l hl

/-- The class found by `resolve` is in the MRO and defines the name; nothing earlier in the MRO does. -/
theorem resolve_spec (t : ClassTable) (c m d : String) (h : resolve t c m = some d) :
    ∃ l, mro t c = some l ∧ d ∈ l ∧ (definesOf t d).contains m = true := by
  obtain ⟨l, hl⟩ := mro_isSome_of_resolve t c m d h
  refine ⟨l, hl, ?_⟩
  simp only [resolve, hl, Option.bind_some] at h
  exact ⟨List.mem_of_find?_eq_some h, by simpa using List.find?_some h⟩

/-! ### overloaded-argument collection -/

def Arg.plain : Arg → Bool
  | .tensor => true
  | .scalar => true
  | _ => false

theorem collect_plain (t : ClassTable) (acc : List OType) (a : Arg) (h : a.plain = true) :
    collect t acc a = acc := by
  cases a <;> simp_all [Arg.plain, collect, Arg.otype?]

theorem foldl_collect_plain (t : ClassTable) (rest : List Arg) (acc : List OType)
    (h : ∀ a ∈ rest, a.plain = true) : rest.foldl (collect t) acc = acc := by
  induction rest generalizing acc with
  | nil => rfl
  | cons a rest ih =>
    simp only [List.foldl_cons]
    rw [collect_plain t acc a (h a (by simp))]
    exact ih acc (fun b hb => h b (by simp [hb]))

theorem overloaded_op_plain (t : ClassTable) (c : String) (rest : List Arg) (h : ∀ a ∈ rest, a.plain = true) :
    overloaded t (.op c :: rest) = [.opc c] := by
  simp only [overloaded, List.foldl_cons]
  have : collect t [] (.op c) = [.opc c] := by simp [collect, Arg.otype?, insertBeforeSuper]
  rw [this]
  exact foldl_collect_plain t rest _ h

theorem overloaded_plain_op_plain (t : ClassTable) (a0 : Arg) (c : String) (rest : List Arg)
    (h0 : a0.plain = true) (h : ∀ a ∈ rest, a.plain = true) :
    overloaded t (a0 :: .op c :: rest) = [.opc c] := by
  simp only [overloaded, List.foldl_cons]
  rw [collect_plain t [] a0 h0]
  exact overloaded_op_plain t c rest h

theorem mem_insertBeforeSuper (t : ClassTable) (ty x : OType) (l : List OType) :
    x ∈ insertBeforeSuper t ty l ↔ x = ty ∨ x ∈ l := by
  induction l with
  | nil => simp [insertBeforeSuper]
  | cons o rest ih =>
    simp only [insertBeforeSuper]
    split
    · simp
    · simp only [List.mem_cons, ih]
      constructor
      · rintro (h | h | h)
        · exact Or.inr (Or.inl h)
        · exact Or.inl h
        · exact Or.inr (Or.inr h)
      · rintro (h | h | h)
        · exact Or.inr (Or.inl h)
        · exact Or.inl h
        · exact Or.inr (Or.inr h)

theorem mem_collect_of_mem (t : ClassTable) (acc : List OType) (a : Arg) (x : OType) (h : x ∈ acc) :
    x ∈ collect t acc a := by
  unfold collect
  split
  · exact h
  · split
    · exact h
    · exact (mem_insertBeforeSuper t _ x acc).2 (Or.inr h)

theorem mem_collect_self (t : ClassTable) (acc : List OType) (a : Arg) (ty : OType) (h : a.otype? = some ty) :
    ty ∈ collect t acc a := by
  unfold collect
  rw [h]
  simp only
  split
  · rename_i hc; simpa using hc
  · exact (mem_insertBeforeSuper t _ ty acc).2 (Or.inl rfl)

theorem mem_foldl_collect_of_mem (t : ClassTable) (args : List Arg) (acc : List OType) (x : OType) (h : x ∈ acc) :
    x ∈ args.foldl (collect t) acc := by
  induction args generalizing acc with
  | nil => exact h
  | cons a rest ih => exact ih _ (mem_collect_of_mem t acc a x h)

theorem mem_overloaded (t : ClassTable) (args : List Arg) (a : Arg) (ty : OType) (ha : a ∈ args)
    (h : a.otype? = some ty) : ty ∈ overloaded t args := by
  unfold overloaded
  suffices ∀ acc, ty ∈ args.foldl (collect t) acc from this []
  induction args with
  | nil => simp at ha
  | cons b rest ih =>
    intro acc
    simp only [List.foldl_cons]
    rcases List.mem_cons.1 ha with rfl | hr
    · exact mem_foldl_collect_of_mem t rest _ ty (mem_collect_self t acc a ty h)
    · exact ih hr _

theorem hasOp_of_mem (l : List OType) (c : String) (h : OType.opc c ∈ l) : hasOp l = true := by
  induction l with
  | nil => simp at h
  | cons o rest ih =>
    cases o with
    | opc d => rfl
    | tsub =>
      simp only [hasOp]
      exact ih (by simpa using h)
    | foreign =>
      simp only [hasOp]
      exact ih (by simpa using h)

/-- If every LinearOperator handler gives `r`, so does the handler loop (some operator is present). -/
theorem handlers_const {κ : Type} (T : Tables) (f : String) (types : List OType) (args : List Arg) (kw : κ)
    (r : Outcome κ) (ov : List OType) (hop : hasOp ov = true)
    (hall : ∀ c, torchFunction T c f types args kw = r) : handlers T f types args kw ov = r := by
  induction ov with
  | nil => simp [hasOp] at hop
  | cons o rest ih =>
    cases o with
    | opc c => exact hall c
    | tsub => exact ih (by simpa [hasOp] using hop)
    | foreign => exact ih (by simpa [hasOp] using hop)

theorem typesOK_false_of_mem (types : List OType) (h : OType.foreign ∈ types) : typesOK types = false := by
  simp only [typesOK, List.all_eq_false]
  exact ⟨.foreign, h, by simp⟩

theorem typesOK_single (c : String) : typesOK [.opc c] = true := by simp [typesOK]

theorem typesOK_pair (a b : String) : typesOK [.opc a, .opc b] = true := by simp [typesOK]

/-! ### the two paths of `__torch_function__` -/

theorem torchFunction_first {κ : Type} (T : Tables) (c f m d : String) (types : List OType) (rest : List Arg) (kw : κ)
    (a0 : Arg) (hinst : isInstance T.classes a0 c = true) (hty : typesOK types = true)
    (hf : T.first.lookup f = some m) (hr : resolve T.classes c m = some d) :
    torchFunction T c f types (a0 :: rest) kw = .call d m (a0 :: rest) false kw := by
  simp [torchFunction, hinst, hf, hty, hr]

theorem torchFunction_second {κ : Type} (T : Tables) (c f m d : String) (types : List OType) (rest : List Arg) (kw : κ)
    (a0 a1 : Arg) (hinst : isInstance T.classes a0 c = false) (hty : typesOK types = true)
    (hf : T.second.lookup f = some m) (hr : resolve T.classes c m = some d) :
    torchFunction T c f types (a0 :: a1 :: rest) kw = .call d m (a1 :: a0 :: rest) true kw := by
  simp [torchFunction, hinst, hf, hty, hr]

theorem torchFunction_unregistered {κ : Type} (T : Tables) (c f : String) (types : List OType) (args : List Arg) (kw : κ)
    (hne : args ≠ []) (h1 : T.first.lookup f = none) (h2 : T.second.lookup f = none) :
    torchFunction T c f types args kw = .notImplementedError := by
  cases args with
  | nil => exact absurd rfl hne
  | cons a0 rest =>
    simp only [torchFunction, h1, h2]
    split <;> rfl

theorem torchFunction_foreign {κ : Type} (T : Tables) (c f : String) (types : List OType) (args : List Arg) (kw : κ)
    (hne : args ≠ []) (hty : typesOK types = false) :
    torchFunction T c f types args kw = .notImplementedError := by
  cases args with
  | nil => exact absurd rfl hne
  | cons a0 rest =>
    simp only [torchFunction, hty]
    split
    · split <;> simp
    · split <;> simp

theorem isInstance_plain (t : ClassTable) (a : Arg) (c : String) (h : a.plain = true) : isInstance t a c = false := by
  cases a <;> simp_all [Arg.plain, isInstance]

/-! ### two operators -/

theorem overloaded_op_op (t : ClassTable) (a b : String) :
    overloaded t [.op a, .op b] =
      if a = b then [.opc a] else if isSubclass t b a then [.opc b, .opc a] else [.opc a, .opc b] := by
  simp only [overloaded, List.foldl_cons, List.foldl_nil]
  have h1 : collect t [] (.op a) = [.opc a] := by simp [collect, Arg.otype?, insertBeforeSuper]
  rw [h1]
  by_cases hab : a = b
  · subst hab; simp [collect, Arg.otype?]
  · have hne : (OType.opc a == OType.opc b) = false := by simpa using hab
    simp only [collect, Arg.otype?, List.contains_cons, List.contains_nil, Bool.or_false, hab, if_false]
    have : (OType.opc b == OType.opc a) = false := by simpa using fun h => hab h.symm
    simp only [this, insertBeforeSuper, OType.isSub]
    by_cases hs : isSubclass t b a = true <;> simp [hs]

end LinOp.C15

namespace LinOp.C15

/-! ### dispatch: one operator -/

theorem dispatch_op_first {κ : Type} (T : Tables) (c f m d : String) (rest : List Arg) (kw : κ)
    (hrest : ∀ a ∈ rest, a.plain = true)
    (hf : T.first.lookup f = some m) (hr : resolve T.classes c m = some d) :
    dispatch T f (.op c :: rest) kw = .call d m (.op c :: rest) false kw := by
  simp only [dispatch, overloaded_op_plain T.classes c rest hrest, hasOp, if_true, handlers]
  exact torchFunction_first T c f m d _ rest kw (.op c)
    (by simpa [isInstance] using isSubclass_self_of_resolve T.classes c m d hr) (typesOK_single c) hf hr

theorem dispatch_op_second {κ : Type} (T : Tables) (c f m d : String) (a0 : Arg) (rest : List Arg) (kw : κ)
    (h0 : a0.plain = true) (hrest : ∀ a ∈ rest, a.plain = true)
    (hf : T.second.lookup f = some m) (hr : resolve T.classes c m = some d) :
    dispatch T f (a0 :: .op c :: rest) kw = .call d m (.op c :: a0 :: rest) true kw := by
  simp only [dispatch, overloaded_plain_op_plain T.classes a0 c rest h0 hrest, hasOp, if_true, handlers]
  exact torchFunction_second T c f m d _ rest kw a0 (.op c) (isInstance_plain T.classes a0 c h0) (typesOK_single c) hf hr

/-! ### dispatch: two operators -/

/-- Left operand's class handles the call unless the right operand's class is a strict subclass. -/
theorem dispatch_op_op_left {κ : Type} (T : Tables) (a b f m d : String) (kw : κ)
    (h : a = b ∨ isSubclass T.classes b a = false)
    (hf : T.first.lookup f = some m) (hr : resolve T.classes a m = some d) :
    dispatch T f [.op a, .op b] kw = .call d m [.op a, .op b] false kw := by
  have hinst : isInstance T.classes (.op a) a = true := by
    simpa [isInstance] using isSubclass_self_of_resolve T.classes a m d hr
  simp only [dispatch, overloaded_op_op]
  by_cases hab : a = b
  · subst hab
    simp only [if_true, hasOp, handlers]
    exact torchFunction_first T a f m d _ _ kw (.op a) hinst (typesOK_single a) hf hr
  · have hs : isSubclass T.classes b a = false := by
      rcases h with h | h
      · exact absurd h hab
      · exact h
    simp only [hab, if_false, hs, Bool.false_eq_true, hasOp, if_true, handlers]
    exact torchFunction_first T a f m d _ _ kw (.op a) hinst (typesOK_pair a b) hf hr

/-- If the right operand's class is a strict subclass of the left operand's class, *its*
`__torch_function__` runs first, finds `args[0]` not to be an instance, and takes the second-argument path. -/
theorem dispatch_op_op_sub {κ : Type} (T : Tables) (a b f m d : String) (kw : κ)
    (hne : a ≠ b) (hsub : isSubclass T.classes b a = true) (hnot : isSubclass T.classes a b = false)
    (hf : T.second.lookup f = some m) (hr : resolve T.classes b m = some d) :
    dispatch T f [.op a, .op b] kw = .call d m [.op b, .op a] true kw := by
  simp only [dispatch, overloaded_op_op, hne, if_false, hsub, if_true, hasOp, handlers]
  exact torchFunction_second T b f m d _ [] kw (.op a) (.op b) (by simpa [isInstance] using hnot)
    (typesOK_pair b a) hf hr

/-! ### dispatch: unregistered functions, foreign types -/

theorem dispatch_unregistered {κ : Type} (T : Tables) (f : String) (args : List Arg) (kw : κ) (c : String)
    (hc : Arg.op c ∈ args) (h1 : T.first.lookup f = none) (h2 : T.second.lookup f = none) :
    dispatch T f args kw = .notImplementedError := by
  have hne : args ≠ [] := by intro h; simp [h] at hc
  have hop : hasOp (overloaded T.classes args) = true :=
    hasOp_of_mem _ c (mem_overloaded T.classes args (.op c) (.opc c) hc rfl)
  simp only [dispatch, hop, if_true]
  exact handlers_const T f _ args kw _ _ hop (fun c' => torchFunction_unregistered T c' f _ args kw hne h1 h2)

theorem dispatch_foreign {κ : Type} (T : Tables) (f : String) (args : List Arg) (kw : κ) (c : String)
    (hc : Arg.op c ∈ args) (hf : Arg.foreign ∈ args) :
    dispatch T f args kw = .notImplementedError := by
  have hne : args ≠ [] := by intro h; simp [h] at hc
  have hop : hasOp (overloaded T.classes args) = true :=
    hasOp_of_mem _ c (mem_overloaded T.classes args (.op c) (.opc c) hc rfl)
  have hty : typesOK (overloaded T.classes args) = false :=
    typesOK_false_of_mem _ (mem_overloaded T.classes args .foreign .foreign hf rfl)
  simp only [dispatch, hop, if_true]
  exact handlers_const T f _ args kw _ _ hop (fun c' => torchFunction_foreign T c' f _ args kw hne hty)

/-! ### operators passed by keyword -/

theorem dispatchK_nil {κ : Type} (T : Tables) (f : String) (args : List Arg) (kw : κ) :
    dispatchK T f args [] kw = dispatch T f args kw := by
  simp [dispatchK, dispatch]

/-- `torch.f(x, other=op)`: the operator is found among the keyword arguments, its class handles the call,
`args[0]` is not an instance, the second-argument path evaluates `args[1]` of a 1-tuple: `IndexError`
(for a registered function; `NotImplementedError` otherwise). -/
theorem dispatchK_operator_by_keyword {κ : Type} (T : Tables) (c f m d : String) (a0 : Arg) (kw : κ)
    (h0 : a0.plain = true) (hf : T.second.lookup f = some m) (hr : resolve T.classes c m = some d) :
    dispatchK T f [a0] [.op c] kw = .indexError := by
  have hov : overloaded T.classes ([a0] ++ [.op c]) = [.opc c] :=
    overloaded_plain_op_plain T.classes a0 c [] h0 (by simp)
  simp only [dispatchK, hov, hasOp, if_true, handlers]
  simp [torchFunction, isInstance_plain T.classes a0 c h0, hf, typesOK_single, hr]

/-- `torch.f(op, other=x)`: first-argument path with the 1-tuple `(op,)`; `other` travels in kwargs. -/
theorem dispatchK_other_by_keyword {κ : Type} (T : Tables) (c f m d : String) (kwops : List Arg) (kw : κ)
    (hk : ∀ a ∈ kwops, a.plain = true) (hf : T.first.lookup f = some m) (hr : resolve T.classes c m = some d) :
    dispatchK T f [.op c] kwops kw = .call d m [.op c] false kw := by
  have hov : overloaded T.classes ([.op c] ++ kwops) = [.opc c] := overloaded_op_plain T.classes c kwops hk
  simp only [dispatchK, hov, hasOp, if_true, handlers]
  exact torchFunction_first T c f m d _ [] kw (.op c)
    (by simpa [isInstance] using isSubclass_self_of_resolve T.classes c m d hr) (typesOK_single c) hf hr

/-- An unregistered function raises `NotImplementedError` also when torch finds the operator somewhere else than among the
top-level positional arguments (inside a list / tuple argument as in `torch.cat([op, T])`, or passed by keyword). -/
theorem dispatchK_unregistered {κ : Type} (T : Tables) (f : String) (args kwops : List Arg) (kw : κ) (c : String)
    (hc : Arg.op c ∈ args ++ kwops) (hne : args ≠ []) (h1 : T.first.lookup f = none) (h2 : T.second.lookup f = none) :
    dispatchK T f args kwops kw = .notImplementedError := by
  have hop : hasOp (overloaded T.classes (args ++ kwops)) = true :=
    hasOp_of_mem _ c (mem_overloaded T.classes (args ++ kwops) (.op c) (.opc c) hc rfl)
  simp only [dispatchK, hop, if_true]
  exact handlers_const T f _ args kw _ _ hop (fun c' => torchFunction_unregistered T c' f _ args kw hne h1 h2)

theorem dispatchKN_false {κ : Type} (T : Tables) (f : String) (args kwops : List Arg) (kw : κ) :
    dispatchKN false T f args kwops kw = dispatchK T f args kwops kw := by
  simp [dispatchKN, dispatchK]

/-- With keyword operands normalised, `torch.f(x, other=op)` is the second-argument call `m(op, x)`. -/
theorem dispatchKN_operator_by_keyword {κ : Type} (T : Tables) (c f m d : String) (a0 : Arg) (kw : κ)
    (h0 : a0.plain = true) (hf : T.second.lookup f = some m) (hr : resolve T.classes c m = some d) :
    dispatchKN true T f [a0] [.op c] kw = .call d m [.op c, a0] true kw := by
  have hov : overloaded T.classes ([a0] ++ [.op c]) = [.opc c] :=
    overloaded_plain_op_plain T.classes a0 c [] h0 (by simp)
  simp only [dispatchKN, hov, hasOp, if_true, handlers]
  exact torchFunction_second T c f m d _ [] kw a0 (.op c) (isInstance_plain T.classes a0 c h0) (typesOK_single c) hf hr

/-- kwargs reach the handler unchanged, on either path. -/
theorem torchFunction_kw {κ : Type} (T : Tables) (c f : String) (types : List OType) (args : List Arg) (kw : κ)
    (d m : String) (args' : List Arg) (sw : Bool) (kw' : κ)
    (h : torchFunction T c f types args kw = .call d m args' sw kw') : kw' = kw := by
  unfold torchFunction at h
  repeat' split at h
  all_goals first | (injection h with _ _ _ _ h5; exact h5.symm) | cases h

theorem handlers_kw {κ : Type} (T : Tables) (f : String) (types : List OType) (args : List Arg) (kw : κ)
    (ov : List OType) (d m : String) (args' : List Arg) (sw : Bool) (kw' : κ)
    (h : handlers T f types args kw ov = .call d m args' sw kw') : kw' = kw := by
  induction ov with
  | nil => simp [handlers] at h
  | cons o rest ih =>
    cases o with
    | opc c => exact torchFunction_kw T c f types args kw d m args' sw kw' h
    | tsub => exact ih h
    | foreign => exact ih h

/-! ### table-level soundness predicates (decidable; evaluated on the generated tables) -/

/-- Handler `m` called as `m(op, T)` computes `f(T, op)` (no alpha). -/
def reflectedOK (b : BinFn) (m : Meth) : Bool :=
  match b, m with
  | .add, .add | .add, .dadd | .add, .dradd => true
  | .sub, .drsub => true
  | .mul, .mul | .mul, .dmul | .mul, .drmul => true
  | .matmul, .rmatmul | .matmul, .drmatmul => true
  | _, _ => false

/-- Handler `m` called as `m(op, X)` computes `f(op, X)`. -/
def directOK (b : BinFn) (m : Meth) : Bool :=
  match b, m with
  | .add, .add | .add, .dadd | .add, .dradd => true
  | .sub, .sub | .sub, .dsub => true
  | .mul, .mul | .mul, .dmul | .mul, .drmul => true
  | .matmul, .matmul | .matmul, .dmatmul => true
  | _, _ => false

/-- With `alpha=a` the reflected handler either rejects the keyword or computes `f(T, op, alpha=a)`. -/
def reflectedAlphaOK (accepts : Bool) (b : BinFn) (m : Meth) : Bool :=
  !accepts || (match b, m with
    | .add, .dradd => true
    | .sub, .drsub => true
    | _, _ => false)

/-- With `alpha=a` the reflected handler accepts the keyword and computes `f(T, op, alpha=a)`. -/
def reflectedAlphaExact (accepts : Bool) (b : BinFn) (m : Meth) : Bool :=
  accepts && (match b, m with
    | .add, .dradd => true
    | .sub, .drsub => true
    | _, _ => false)

def directAlphaOK (accepts : Bool) (b : BinFn) (m : Meth) : Bool :=
  accepts && (match b, m with
    | .add, .add => true
    | .sub, .sub => true
    | _, _ => false)

def secondEntryOK (T : Tables) (c : String) (e : String × String) : Bool :=
  T.second.lookup e.1 == some e.2 &&
    (match resolve T.classes c e.2, BinFn.ofName e.1, Meth.ofName e.2 with
     | some _, some b, some m => reflectedOK b m
     | _, _, _ => false)

def secondEntryAlphaOK (T : Tables) (c : String) (e : String × String) : Bool :=
  T.second.lookup e.1 == some e.2 &&
    (match resolve T.classes c e.2, BinFn.ofName e.1, Meth.ofName e.2 with
     | some d, some b, some m => reflectedAlphaOK (acceptsAlpha T d e.2) b m
     | _, _, _ => false)

def secondEntryAlphaExact (T : Tables) (c : String) (e : String × String) : Bool :=
  T.second.lookup e.1 == some e.2 &&
    (match resolve T.classes c e.2, BinFn.ofName e.1, Meth.ofName e.2 with
     | some d, some b, some m => reflectedAlphaExact (acceptsAlpha T d e.2) b m
     | _, _, _ => false)

def firstEntryOK (T : Tables) (c : String) (e : String × String) : Bool :=
  T.first.lookup e.1 == some e.2 &&
    (match resolve T.classes c e.2, BinFn.ofName e.1, Meth.ofName e.2 with
     | some d, some b, some m =>
       directOK b m && (directAlphaOK (acceptsAlpha T d e.2) b m || b == .mul || b == .matmul)
     | _, _, _ => false)

end LinOp.C15
