import LinOp.C15.Model
/-!
C15 — argument forwarding: how the arguments of `torch.f(op, *a, **k)` reach the parameters of the handler.

`__torch_function__` forwards the call unchanged (`func(*args, **kwargs)`, or `func(args[1], args[0], *args[2:], **kwargs)`
on the second-argument path), so which *parameter* of the method every argument lands in is decided by Python's
argument binding against the **method's** signature, whereas the meaning of `torch.f(dense, *a, **k)` is decided by
binding the same arguments against **torch's** signature.  `bind` is that binding (what `inspect.signature(f).bind(*a, **k)`
followed by `apply_defaults()` computes), for signatures of positional-or-keyword and keyword-only parameters; values and
defaults are opaque tokens.  Signatures of both sides are generated (`LinOp/Generated/C15Sigs.lean`).
-/
namespace LinOp.C15

inductive PKind
  | pos      -- positional-or-keyword
  | kwOnly   -- after `*`
  | varPos   -- `*args`
  | varKw    -- `**kwargs`
  deriving DecidableEq, Repr

structure Param where
  name : String
  kind : PKind
  dflt : Option String     -- canonical source text of the default; `none` = required
  deriving DecidableEq, Repr

abbrev Sig := List Param
abbrev Env := List (String × String)

def Sig.names (s : Sig) : List String := s.map (·.name)

/-- Only positional-or-keyword and keyword-only parameters (the theorems are about such signatures). -/
def Sig.simple (s : Sig) : Bool := s.all fun p => p.kind == .pos || p.kind == .kwOnly

inductive BErr
  | tooManyPositional | unexpectedKeyword | multipleValues | missing
  deriving DecidableEq, Repr

/-- The value a parameter that was not passed positionally receives: keyword if given, else its default. -/
def Param.fill (kw : Env) (p : Param) : String := (kw.lookup p.name).getD (p.dflt.getD "")

/-- Python's argument binding of `f(*pos, **kw)` against `sig` (simple signatures): the first `pos.length` parameters
take the positional values (they must exist and be positional-capable), keywords must name a parameter that was not
filled positionally, every other parameter needs a default.  `.ok env` lists **every** parameter with its value. -/
def bind (sig : Sig) (pos : List String) (kw : Env) : Except BErr Env :=
  let head := sig.take pos.length
  let tail := sig.drop pos.length
  if sig.length < pos.length || head.any (fun p => p.kind != .pos) then .error .tooManyPositional
  else if kw.any (fun e => !(sig.names.contains e.1)) then .error .unexpectedKeyword
  else if kw.any (fun e => (Sig.names head).contains e.1) then .error .multipleValues
  else if tail.any (fun p => (kw.lookup p.name).isNone && p.dflt.isNone) then .error .missing
  else .ok ((Sig.names head).zip pos ++ tail.map fun p => (p.name, p.fill kw))

/-- Executable extension used by the driver for signatures with `*args` / `**kwargs` (`permute(self, *dims)`): surplus
positional values are packed into the `*args` parameter, unknown keywords into `**kwargs`; then `bind`. -/
def bindPy (sig : Sig) (pos : List String) (kw : Env) : Except BErr Env :=
  let iv := sig.findIdx (fun p => p.kind == .varPos)
  let hasVarKw := sig.any (fun p => p.kind == .varKw)
  let named := sig.filter (fun p => p.kind == .pos || p.kind == .kwOnly)
  let pos' := if iv < sig.length then pos.take iv else pos
  let packed := if iv < sig.length then [("*", "(" ++ ",".intercalate (pos.drop iv) ++ ")")] else []
  let kwKnown := if hasVarKw then kw.filter (fun e => (Sig.names named).contains e.1) else kw
  let kwExtra := if hasVarKw then
      [("**", "{" ++ ",".intercalate ((kw.filter (fun e => !((Sig.names named).contains e.1))).map fun e => e.1 ++ "=" ++ e.2) ++ "}")]
    else []
  -- after `*args` every named parameter is keyword-only
  let named' := named.mapIdx fun i p => if iv < sig.length && i ≥ iv then { p with kind := .kwOnly } else p
  match bind named' pos' kwKnown with
  | .ok env => .ok (env ++ packed ++ kwExtra)
  | .error e => .error e

/-- Default of parameter `q` in `sig` (`none`: no such parameter, or required). -/
def Sig.dflt (s : Sig) (q : String) : Option String := (s.find? fun p => p.name == q).bind (·.dflt)

/-- Table-level compatibility of a method signature with torch's: the method's parameter names are a prefix of torch's
(same order, so positional arguments land in the parameter of the same name) and every shared parameter has the same
default — or none at all in the method (then leaving it out raises instead of computing something else). -/
def sigCompat (sigM sigT : Sig) : Bool :=
  sigM.names.isPrefixOf sigT.names &&
    sigM.all fun pM => pM.dflt.isNone || sigT.dflt pM.name == pM.dflt

/-- Names whose defaults differ between the two signatures (both have one). -/
def defaultMismatches (sigM sigT : Sig) : List String :=
  (Sig.names (sigM.filter fun pM => pM.dflt.isSome && sigT.any fun pT => pT.name == pM.name && pT.dflt.isSome && pT.dflt != pM.dflt))

/-- `sigCompat` for call forms that supply every parameter in `given` (positionally or by keyword). -/
def sigCompatGiven (given : List String) (sigM sigT : Sig) : Bool :=
  sigM.names.isPrefixOf sigT.names &&
    sigM.all fun pM => pM.dflt.isNone || given.contains pM.name || sigT.dflt pM.name == pM.dflt

/-- The parameters a call supplies: the first `npos` names and the keyword keys. -/
def suppliedNames (sig : Sig) (npos : Nat) (kw : Env) : List String := (Sig.names (sig.take npos)) ++ kw.map (·.1)

end LinOp.C15
