import LinOp.C15.BindNames
/-! C15 — `permute(self, *dims)`: Python's binding of a call against a signature `[self, *dims]` (core Lean only). -/
namespace LinOp.C15

def permSig : Sig := [⟨"self", .pos, none⟩, ⟨"dims", .varPos, none⟩]

theorem bindPy_permSig (self : String) (vs : List String) (kw : Env) :
    bindPy permSig (self :: vs) kw =
      match bind [⟨"self", .pos, none⟩] [self] kw with
      | .ok env => .ok (env ++ [("*", "(" ++ ",".intercalate vs ++ ")")])
      | .error e => .error e := by
  have h : (PKind.pos == PKind.varPos) = false := by decide
  simp [bindPy, permSig, List.findIdx_cons, List.mapIdx_cons, h]
  cases bind [⟨"self", .pos, none⟩] [self] kw <;> rfl

/-- Positional values after the operator are packed into `*dims`, whatever their number. -/
theorem permute_positional (self : String) (vs : List String) :
    bindPy permSig (self :: vs) [] = .ok [("self", self), ("*", "(" ++ ",".intercalate vs ++ ")")] := by
  rw [bindPy_permSig]
  simp [bind, Sig.names, Param.fill]

/-- Any keyword (`dims=…` in particular) makes the call fail: `permute` has no keyword-capable parameter besides `self`,
which the operator already fills. -/
theorem permute_keyword_fails (self : String) (vs : List String) (kw : Env) (hk : kw ≠ []) :
    ∃ err, bindPy permSig (self :: vs) kw = .error err := by
  rw [bindPy_permSig]
  cases hb : bind [⟨"self", .pos, none⟩] [self] kw with
  | error e => exact ⟨e, rfl⟩
  | ok env =>
    exfalso
    obtain ⟨_, _, h1, h2, _, _⟩ := bind_ok hb
    cases kw with
    | nil => exact hk rfl
    | cons e tl =>
      have a := h1 e (by simp)
      have b := h2 e (by simp)
      simp [Sig.names] at a b
      exact b a

end LinOp.C15
